/-
Model of the relation bookkeeping of the class group computation (property C18).

Anchors in /repo:
* `fbase::Prime::b_plus`                                    src/fbase.rs
* `siqs::Poly::{eval, factors}`                             src/siqs.rs
* `classgroup::sieve_block_poly` (lines after `smooths`): `fbase::cofactor`, the conversion of the
  integer factors of P(x) into signed ideal factors (b mod p against b_plus, the rule for p = 2,
  the parity rule for large primes), merge with the factors of A          src/classgroup.rs
* `relationcls::CRelationSet::{add, add_path, update_tree, emit_path, emit}`  src/relationcls.rs
* the last lines of `relationcls::group_structure_dense` (invariants = diagonal entries != 1)
plus an executable *reference*: reduced primitive forms of a negative discriminant, their number
(`classNumber`), reduction and Gauss composition of forms, used to check that a relation line is
a product of prime forms equal to the principal form.

Conventions as in the other model files: `none` = the real code panics in the checked profile
(`debug_assert!`, `assert!`, `unwrap`, integer overflow); loops and recursion take fuel.
Not modelled: I256/u64 overflow inside `Poly::eval` and the sign decision (the code asserts
that all polynomial values fit 255 bits; fb primes are < 2^24, large primes < 2^32); the sieve that
proposes candidates; `try_factor64` (the pair (p, q) is an input of the model and is checked to
multiply to the cofactor); file output (the line format is `relLine`).
No Mathlib import: this file is linked into the native driver.
-/
namespace Ymq.ClassGroup

/-! ### Prime::b_plus -/

/-- `Prime::b_plus(even)` of a prime `p` with stored square root `r`.
`even = true`: discriminant `4 N`, the even representative of `± 2r mod p`;
`even = false`: odd discriminant `N`, the odd representative of `± r`.
`none`: `p - r` underflows (`r > p`, outside the domain). -/
def bPlus (p r : Nat) (even : Bool) : Option Nat :=
  if even then
    let r2 := (2 * r) % p                       -- self.div.modu63(2 * r)
    if r2 % 2 = 0 then some r2 else if r2 ≤ p then some (p - r2) else none
  else
    if r % 2 = 1 then some r else if r ≤ p then some (p - r) else none

/-! ### polynomials -/

/-- `Poly::eval(x)`: `(P(x), y)`, `y = 2(Ax+B)` (type 1, `Ax^2+2Bx+C`) resp. `2Ax+B` (type 2). -/
def polyEval (type1 : Bool) (a b c x : Int) : Int × Int :=
  if type1 then
    let axb := a * x + b
    ((axb + b) * x + c, 2 * axb)
  else
    let ax := a * x
    ((ax + b) * x + c, 2 * ax + b)

/-- `Poly::factors(a)`: the sign of every prime `(p, r)` of `A`: `+1` iff `2B mod p` (type 1) resp.
`B mod p` (type 2) is `b_plus`. `none`: the `debug_assert!` fails. -/
def polyFactors (type1 : Bool) (b : Int) : List (Nat × Nat) → Option (List (Nat × Int))
  | [] => some []
  | (p, r) :: fs => do
    let bp0 := if type1 then (2 * b.natAbs) % p else b.natAbs % p
    let bp := if b < 0 then p - bp0 else bp0
    let ref ← bPlus p r type1
    let rest ← polyFactors type1 b fs
    if bp = ref then some ((p, 1) :: rest)
    else if p - bp = ref then some ((p, -1) :: rest)
    else none

/-! ### sign decision of `sieve_block_poly` -/

/-- a `CRelation` -/
structure Rel where
  factors : List (Nat × Int)
  large1 : Option (Nat × Int)
  large2 : Option (Nat × Int)
  deriving BEq, DecidableEq, Repr, Inhabited

/-- `bx mod p` as the code computes it: reduce `|bx|`, take `p - .` when `bx < 0` and the residue is not 0 -/
def modSigned (bx : Int) (p : Nat) : Nat :=
  let bp := bx.natAbs % p
  if bx < 0 ∧ bp > 0 then p - bp else bp

/-- exponent sign of an odd factor-base prime: `+e` iff `bx mod p = b_plus`; `none` = the
`debug_assert!(bp == p - ref_bp)` fails -/
def signedExp (p refBp : Nat) (bx : Int) (e : Nat) : Option Int :=
  let bp := modSigned bx p
  if bp = refBp then some (e : Int)
  else if bp = p - refBp then some (-(e : Int))
  else none

/-- `bx.bit(1)` (two's complement) -/
def bit1 (bx : Int) : Bool := bx % 4 ≥ 2

/-- outcome of the conversion loop -/
inductive Conv
  | panic
  | reject                      -- `continue 'smoothloop` (conductor prime)
  | ok (fs : List (Nat × Int))

/-- the loop `for (p, e) in intfacs` : `fb` maps a factor-base prime to its stored root -/
def convFactors (type1 : Bool) (bx : Int) (conductor : List Nat) (fb : List (Nat × Nat)) :
    List (Nat × Nat) → Conv
  | [] => .ok []
  | (p, e) :: rest =>
    if p = 2 then
      match convFactors type1 bx conductor fb rest with
      | .ok fs => .ok ((2, if !bit1 bx then (e : Int) else -(e : Int)) :: fs)
      | o => o
    else if conductor.contains p then .reject
    else
      match fb.lookup p with
      | none => .panic                                        -- fbase.idx(p).unwrap()
      | some r =>
        match bPlus p r type1 with
        | none => .panic
        | some ref =>
          match signedExp p ref bx e with
          | none => .panic
          | some se =>
            match convFactors type1 bx conductor fb rest with
            | .ok fs => .ok ((p, se) :: fs)
            | o => o

/-- `for &(f, e) in &qfacs`: add the exponent to an existing entry or append -/
def mergeQ : List (Nat × Int) → List (Nat × Int) → List (Nat × Int)
  | fs, [] => fs
  | fs, (f, e) :: qs =>
    if fs.any (fun x => x.1 = f) then
      -- position of the first entry with prime f
      let rec upd : List (Nat × Int) → List (Nat × Int)
        | [] => []
        | (p, x) :: t => if p = f then (p, x + e) :: t else (p, x) :: upd t
      mergeQ (upd fs) qs
    else mergeQ (fs ++ [(f, e)]) qs

/-- sign of a large prime: `+` iff `bx mod p` has the parity of the discriminant -/
def largeSign (type1 : Bool) (bx : Int) (p : Nat) : Int :=
  let parity := if type1 then 0 else 1
  if modSigned bx p % 2 = parity then 1 else -1

/-- division loop of `fbase::cofactor` for one prime (fuel = bit length of the value) -/
def divLoop : Nat → Nat → Nat → Nat → Nat × Nat
  | 0, _, v, e => (v, e)
  | f + 1, p, v, e => if p > 1 ∧ v > 0 ∧ v % p = 0 then divLoop f p (v / p) (e + 1) else (v, e)

/-- `fbase::cofactor`, first part: integer factors with positive exponent (in the order of `facs`)
and the remaining cofactor -/
def trialDivide : List Nat → Nat → List (Nat × Nat) × Nat
  | [], v => ([], v)
  | p :: ps, v =>
    let (v', e) := divLoop (v.log2 + 1) p v 0
    let (fs, c) := trialDivide ps v'
    (if e > 0 then (p, e) :: fs else fs, c)

/-- result of the relation construction for one smooth candidate -/
inductive RelOut
  | panic
  | skip                 -- candidate dropped (`continue`)
  | badpq                -- the pair (p, q) supplied for `try_factor64` does not multiply to the cofactor
  | rel (r : Rel)
  deriving DecidableEq, Repr

/-- Body of the `'smoothloop` of `sieve_block_poly` for the candidate `x`.
`facs`: candidate factor-base primes reported by the sieve; `(lp, lq)`: what `cofactor` returns as the
large prime pair (`(cofactor, 1)` in the single case, the output of `try_factor64` in the double case). -/
def relationOf (type1 : Bool) (a b c x : Int) (maxprime maxlarge : Nat) (double : Bool)
    (conductor : List Nat) (fb : List (Nat × Nat)) (facs : List Nat) (afs : List (Nat × Nat))
    (lp lq : Nat) : RelOut :=
  let (v, bx) := polyEval type1 a b c x
  if v ≤ 0 then .panic else                                   -- debug_assert!(v.is_positive())
  let (intfacs, cof) := trialDivide facs v.toNat
  if cof ≥ 2 ^ 64 then .skip else                             -- try_into().ok()?
  if cof > maxlarge * maxlarge then .skip else
  -- double large prime case: the pair comes from try_factor64
  let pq : Option (Nat × Nat) :=
    if double ∧ cof > maxprime * maxprime then
      if lp > maxlarge ∨ lq > maxlarge then none else some (lp, lq)
    else if cof > maxlarge then none else some (cof, 1)
  if (double ∧ cof > maxprime * maxprime) ∧ lp * lq ≠ cof then .badpq else
  match pq with
  | none => .skip
  | some (p, q) =>
    if p ≥ 2 ^ 32 ∨ q ≥ 2 ^ 32 then .skip else
    match convFactors type1 bx conductor fb intfacs with
    | .panic => .panic
    | .reject => .skip
    | .ok fs =>
      match polyFactors type1 b afs with
      | none => .panic
      | some qf =>
        let factors := mergeQ fs qf
        let l1 := if p > 1 then
            some (p, (if q = p then 2 else 1) * largeSign type1 bx p) else none
        let l2 := if q > 1 ∧ q ≠ p then some (q, largeSign type1 bx q) else none
        .rel { factors := factors, large1 := l1, large2 := l2 }

/-! ### CRelationSet -/

/-- lexicographic `<` on pairs (key order of `BTreeMap<(u32, u32), _>`) -/
def pairLt (x y : Nat × Nat) : Bool := x.1 < y.1 || (x.1 = y.1 && x.2 < y.2)

/-- `BTreeMap::insert` on a key-sorted association list (replaces an existing entry) -/
def mapInsert {β} (k : Nat × Nat) (v : β) : List ((Nat × Nat) × β) → List ((Nat × Nat) × β)
  | [] => [(k, v)]
  | (k', v') :: t =>
    if k = k' then (k, v) :: t
    else if pairLt k k' then (k, v) :: (k', v') :: t
    else (k', v') :: mapInsert k v t

def mapLookup {β} (k : Nat × Nat) : List ((Nat × Nat) × β) → Option β
  | [] => none
  | (k', v') :: t => if k = k' then some v' else mapLookup k t

def mapErase {β} (k : Nat × Nat) : List ((Nat × Nat) × β) → List ((Nat × Nat) × β)
  | [] => []
  | (k', v') :: t => if k = k' then t else (k', v') :: mapErase k t

/-- `BTreeSet::insert` on a sorted list -/
def setInsert (k : Nat × Nat) : List (Nat × Nat) → List (Nat × Nat)
  | [] => [k]
  | k' :: t =>
    if k = k' then k' :: t
    else if pairLt k k' then k :: k' :: t
    else k' :: setInsert k t

/-- `paths`: key-sorted association list large prime -> path from the root `1` -/
def pathInsert (k : Nat) (v : List Nat) : List (Nat × List Nat) → List (Nat × List Nat)
  | [] => [(k, v)]
  | (k', v') :: t =>
    if k = k' then (k, v) :: t
    else if k < k' then (k, v) :: (k', v') :: t
    else (k', v') :: pathInsert k v t

structure CSet where
  maxlarge : Nat
  /-- emitted relations, most recent first -/
  emittedRev : List Rel := []
  paths : List (Nat × List Nat) := [(1, [1])]
  doubles : List ((Nat × Nat) × Rel) := []
  doublesRev : List (Nat × Nat) := []
  nPartials : Nat := 0
  nDoubles : Nat := 0
  nCombined12 : Nat := 0
  nCycles : List Nat := [0, 0, 0, 0, 0, 0, 0, 0]
  deriving Repr

def CSet.emitted (s : CSet) : List Rel := s.emittedRev.reverse

def CSet.len (s : CSet) : Nat := s.nCycles.foldl (· + ·) 0

def bump : Nat → List Nat → List Nat
  | _, [] => []
  | 0, x :: t => (x + 1) :: t
  | i + 1, x :: t => x :: bump i t

/-- `emit(r, clen)` (without the file output) -/
def emit (s : CSet) (r : Rel) (clen : Nat) : CSet :=
  { s with
    nCycles := if clen > 0 then bump (min 8 clen - 1) s.nCycles else s.nCycles
    emittedRev := r :: s.emittedRev }

/-- `emit_path(path)`: emit (and forget) every stored relation along the path -/
def emitPath (s : CSet) : List Nat → CSet
  | p :: q :: t =>
    let k := if p < q then (p, q) else (q, p)
    let s' := match mapLookup k s.doubles with
      | some r => emit { s with doubles := mapErase k s.doubles } r 0
      | none => s
    emitPath s' (q :: t)
  | _ => s

/-- `update_tree(p, q)`: `q` is the new vertex; fuel bounds the recursion depth -/
def updateTree : Nat → CSet → Nat → Nat → Option CSet
  | 0, _, _, _ => none
  | fuel + 1, s, p, q =>
    if (s.paths.lookup q).isSome then some s
    else
      match s.paths.lookup p with
      | none => none                                             -- paths.get(&p).unwrap()
      | some vp =>
        let v := vp ++ [q]
        let s1 := { s with
          nCombined12 := if v.length > 2 then s.nCombined12 + 1 else s.nCombined12
          paths := pathInsert q v s.paths }
        if q + 1 ≥ 2 ^ 32 then none                              -- (q + 1, 0): u32 overflow / invalid range
        else
          let qgt := (s1.doubles.filter (fun e => e.1.1 = q)).map (fun e => e.1.2)
          let qlt := (s1.doublesRev.filter (fun e => e.1 = q)).map (fun e => e.2)
          (qgt ++ qlt).foldlM (fun st q2 => updateTree fuel st q q2) s1

/-- recursion depth bound used by the wrappers -/
def treeFuel (s : CSet) : Nat := 2 * s.doubles.length + 2 * s.doublesRev.length + 4

/-- second half of `add_path`: `if hasp { update_tree(p, q) }; if hasq { update_tree(q, p) }` -/
def extendTree (s1 : CSet) (hasp hasq : Bool) (p q : Nat) : Option CSet :=
  match (if hasp then updateTree (treeFuel s1) s1 p q else some s1) with
  | none => none
  | some s2 => if hasq then updateTree (treeFuel s2) s2 q p else some s2

/-- `add_path` after the swap that makes `p < q` -/
def addPathSorted (s : CSet) (p q : Nat) (r : Rel) : Option CSet :=
  match s.paths.lookup p, s.paths.lookup q with
  | some vp, some vq =>
    -- a cycle: emit the stored relations along both paths, then the new relation
    some (emit (emitPath (emitPath s vp) vq) r (vp.length + vq.length - 1))
  | hp, hq =>
    extendTree { s with doubles := mapInsert (p, q) r s.doubles, doublesRev := setInsert (q, p) s.doublesRev }
      hp.isSome hq.isSome p q

/-- `add_path(p, q, r)` -/
def addPath (s : CSet) (p q : Nat) (r : Rel) : Option CSet :=
  if p < q then addPathSorted s p q r else addPathSorted s q p r

/-- `add(r)` -/
def add (s : CSet) (r : Rel) : Option CSet :=
  match r.large1, r.large2 with
  | none, none => some (emit s r 1)
  | some (p, _), none =>
    if p < s.maxlarge then addPath { s with nPartials := s.nPartials + 1 } 1 p r else some s
  | some (p, _), some (q, _) =>
    if p = q then none                                            -- assert!(p != q)
    else addPath { s with nDoubles := s.nDoubles + 1 } p q r
  | none, some _ => some s

/-- a whole history of `add` calls -/
def run (s : CSet) : List Rel → Option CSet
  | [] => some s
  | r :: rs => match add s r with
    | none => none
    | some s' => run s' rs

/-- the line written to `relations.sieve` for an emitted relation: every prime repeated `|e|` times,
negated for a negative exponent; factors, then large1, then large2 -/
def relLine (r : Rel) : List Int :=
  let one (pe : Nat × Int) : List Int :=
    List.replicate pe.2.natAbs (if pe.2 > 0 then (pe.1 : Int) else -(pe.1 : Int))
  (r.factors.flatMap one) ++ (match r.large1 with | some pe => one pe | none => [])
    ++ (match r.large2 with | some pe => one pe | none => [])

/-! ### final bookkeeping of `group_structure_dense` -/

/-- `g.invariants`: the diagonal entries different from 1, in order -/
def invariantsOf (diag : List Nat) : List Nat := diag.filter (· ≠ 1)

/-- check on a reported structure: the cyclic factors multiply to `h`, none is trivial -/
def invariantsOk (h : Nat) (invs : List Nat) : Bool :=
  invs.foldl (· * ·) 1 = h && invs.all (fun d => d ≠ 1 && d ≠ 0)

/-! ### reference: binary quadratic forms of negative discriminant -/

/-- a form `a x^2 + b x y + c y^2` -/
structure Form where
  a : Int
  b : Int
  c : Int
  deriving BEq, DecidableEq, Repr, Inhabited

def Form.disc (f : Form) : Int := f.b * f.b - 4 * f.a * f.c

def gcd3 (a b c : Int) : Nat := Nat.gcd (Nat.gcd a.natAbs b.natAbs) c.natAbs

/-- reduced and primitive (positive definite): `|b| ≤ a ≤ c`, `b ≥ 0` when `|b| = a` or `a = c` -/
def Form.isReducedPrim (f : Form) : Bool :=
  decide (0 < f.a) && decide (f.b.natAbs ≤ f.a.natAbs) && decide (f.a ≤ f.c)
    && (!(decide (f.b.natAbs = f.a.natAbs ∨ f.a = f.c)) || decide (0 ≤ f.b))
    && gcd3 f.a f.b f.c == 1

/-- candidates `b ∈ [-a, a]` for a given `a` -/
def bRange (a : Nat) : List Int := (List.range (2 * a + 1)).map (fun (i : Nat) => (i : Int) - (a : Int))

/-- the reduced primitive forms of discriminant `D < 0` with first coefficient `a` -/
def formsWithA (D : Int) (a : Nat) : List Form :=
  (bRange a).filterMap fun b =>
    if (b * b - D) % (4 * (a : Int)) = 0 then
      let f : Form := ⟨a, b, (b * b - D) / (4 * (a : Int))⟩
      if f.isReducedPrim then some f else none
    else none

/-- all reduced primitive forms of discriminant `D < 0`: `a` ranges over `1 .. sqrt(|D|/3)` -/
def reducedForms (D : Int) : List Form :=
  (List.range (Nat.sqrt (D.natAbs / 3) + 1)).flatMap fun a => if a = 0 then [] else formsWithA D a

/-- reference class number: the number of reduced primitive forms -/
def classNumber (D : Int) : Nat := (reducedForms D).length

/-- one step of the reduction of a positive definite form: normalise `b` into `(-a, a]`, swap when `a > c` -/
def Form.normalize (f : Form) : Form :=
  if -f.a < f.b ∧ f.b ≤ f.a then f
  else
    let r := (f.a - f.b) / (2 * f.a)                -- floor division (a > 0)
    ⟨f.a, f.b + 2 * f.a * r, f.a * r * r + f.b * r + f.c⟩

def Form.reduce : Nat → Form → Form
  | 0, f => f
  | fuel + 1, f =>
    let g := f.normalize
    if g.a > g.c then Form.reduce fuel ⟨g.c, -g.b, g.a⟩
    else if g.a = g.c ∧ g.b < 0 then ⟨g.a, -g.b, g.c⟩
    else g

def reduceFuel (f : Form) : Nat := 2 * (f.a.natAbs.log2 + f.c.natAbs.log2) + 8

/-- extended gcd: `(g, u, v)` with `u a + v b = g ≥ 0` -/
def xgcdAux : Nat → Int → Int → Int → Int → Int → Int → Int × Int × Int
  | 0, a, _, u0, v0, _, _ => (a, u0, v0)
  | f + 1, a, b, u0, v0, u1, v1 =>
    if b = 0 then (if a < 0 then (-a, -u0, -v0) else (a, u0, v0))
    else
      let q := a / b
      xgcdAux f b (a - q * b) u1 v1 (u0 - q * u1) (v0 - q * v1)

def xgcd (a b : Int) : Int × Int × Int :=
  xgcdAux (2 * (a.natAbs.log2 + b.natAbs.log2) + 8) a b 1 0 0 1

/-- Gauss composition of two forms of the same discriminant (Cohen, Algorithm 5.4.7), reduced -/
def Form.compose (f1 f2 : Form) : Form :=
  let (f1, f2) := if f1.a > f2.a then (f2, f1) else (f1, f2)
  let s := (f1.b + f2.b) / 2
  let n := f2.b - s
  let (y1, d) :=
    if f2.a % f1.a = 0 then ((0 : Int), f1.a)
    else let (g, u, _) := xgcd f2.a f1.a; (u, g)
  let (x2, y2, d1) :=
    if s % d = 0 then ((0 : Int), (-1 : Int), d)
    else let (g, u, v) := xgcd s d; (u, -v, g)
  let v1 := f1.a / d1
  let v2 := f2.a / d1
  let r := (y1 * y2 * n - x2 * f2.c) % v1
  let b3 := f2.b + 2 * v2 * r
  let a3 := v1 * v2
  let c3 := (f2.c * d1 + r * (f2.b + v2 * r)) / v1
  let g : Form := ⟨a3, b3, c3⟩
  g.reduce (reduceFuel g)

def principal (D : Int) : Form :=
  let b := D % 2
  ⟨1, b, (b * b - D) / 4⟩

/-- `b` is the normalised root for the prime form of norm `p`: `0 ≤ b ≤ p`, `b ≡ D (mod 2)`,
`b^2 ≡ D (mod 4p)`. (For an odd `p ∤ D` this is `b_plus`; `b = p` resp. `0` when `p | D`; for `p = 2`
it selects `(2, 1, .)`, `(2, 0, .)` or `(2, 2, .)`.) -/
def isBPlus (D : Int) (p b : Nat) : Bool :=
  decide (b ≤ p) && decide (((b : Int) - D) % 2 = 0) && decide (((b : Int) * b - D) % (4 * (p : Int)) = 0)

/-- the prime form `[p]` (exponent sign +) -/
def primeForm (D : Int) (p b : Nat) : Form := ⟨p, b, ((b : Int) * b - D) / (4 * (p : Int))⟩

def Form.conj (f : Form) : Form := ⟨f.a, -f.b, f.c⟩

def powAux (D : Int) : Nat → Form → Form → Nat → Form
  | 0, acc, _, _ => acc
  | fuel + 1, acc, f, e =>
    if e = 0 then acc
    else powAux D fuel (if e % 2 = 1 then acc.compose f else acc) (f.compose f) (e / 2)

/-- `f^e` (`e` may be negative) -/
def Form.pow (D : Int) (f : Form) (e : Int) : Form :=
  powAux D (e.natAbs.log2 + 2) (principal D) (if e < 0 then f.conj else f) e.natAbs

/-- value of a relation `∏ [p]^e` given certified roots `(p, b, e)`; `none`: some `b` is not the
normalised root of its prime -/
def relationValue (D : Int) : List (Nat × Nat × Int) → Option Form
  | [] => some (principal D)
  | (p, b, e) :: t =>
    if p ≥ 2 ∧ isBPlus D p b then
      match relationValue D t with
      | none => none
      | some g => some ((Form.pow D (primeForm D p b) e).compose g)
    else none

/-- the relation is trivial in the class group -/
def relationTrivial (D : Int) (l : List (Nat × Nat × Int)) : Option Bool :=
  (relationValue D l).map (fun f => f == principal D)

end Ymq.ClassGroup
