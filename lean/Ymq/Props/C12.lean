/-
C12 — sieving polynomials carry correct roots and square-root identities.
Only property theorems live here (helper lemmas: Ymq/Lemmas/Poly*.lean).
-/
import Mathlib.Tactic.Ring
import Mathlib.Tactic.LinearCombination
import Ymq.Model.SiqsPoly
import Ymq.Model.MpqsPoly
import Ymq.Model.QsRoots
import Ymq.Gen.QsShift

namespace Ymq.C12

/-- SIQS defining identities. Type 1 (`n ≢ 1 mod 4`): with `C = (B² − n)/A`,
`(Ax+B)² − n = A·(Ax² + 2Bx + C)`; type 2: with `C = (B² − n)/(4A)`,
`(2Ax+B)² − n = 4A·(Ax² + Bx + C)`. -/
theorem siqs_identity (A B n x : Int) :
    (A ∣ B * B - n → (A * x + B) ^ 2 - n = A * (A * x ^ 2 + 2 * B * x + (B * B - n) / A)) ∧
    (4 * A ∣ B * B - n → (2 * A * x + B) ^ 2 - n = 4 * A * (A * x ^ 2 + B * x + (B * B - n) / (4 * A))) := by
  constructor
  · intro h
    have hc : A * ((B * B - n) / A) = B * B - n := Int.mul_ediv_cancel' h
    generalize (B * B - n) / A = c at hc
    linear_combination (-1 : Int) * hc
  · intro h
    have hc : 4 * A * ((B * B - n) / (4 * A)) = B * B - n := Int.mul_ediv_cancel' h
    generalize (B * B - n) / (4 * A) = c at hc
    linear_combination (-1 : Int) * hc

end Ymq.C12
