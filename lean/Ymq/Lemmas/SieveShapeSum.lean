/-
C13 helper lemmas: the logs `sieve_block` reads back from ALL bucket tables (size classes 16..18 and the large
tables), from the shape of the buckets: `≤` the closed form in general, `=` when nothing overflowed.
-/
import Ymq.Lemmas.SieveShape

namespace Ymq.SieveLog
open Ymq.Sieve

theorem hitSum_sublist {a b : List (Nat × Nat)} (h : a.Sublist b) (x : Nat) : hitSum a x ≤ hitSum b x := by
  induction h with
  | slnil => exact le_refl _
  | cons c _ ih => rw [hitSum_cons]; omega
  | cons_cons c _ ih => rw [hitSum_cons, hitSum_cons]; omega

theorem mapM_flatten_rel (R : Nat → Nat → Prop) (hR0 : R 0 0)
    (hRadd : ∀ a b c d, R a b → R c d → R (a + c) (b + d)) {α} (g : α → Option (List (Nat × Nat))) (f : α → Nat)
    (x : Nat) :
    ∀ (L : List α) (ls : List (List (Nat × Nat))), L.mapM g = some ls →
      (∀ i ∈ L, ∀ l, g i = some l → R (hitSum l x) (f i)) → R (hitSum ls.flatten x) ((L.map f).sum) := by
  intro L
  induction L with
  | nil => intro ls h _; simp at h; subst h; exact hR0
  | cons a t ih =>
    intro ls h hf
    rw [List.mapM_cons] at h
    simp only [bind, Option.bind_eq_some_iff, pure, Option.some.injEq] at h
    obtain ⟨l, hl, ls', hls', rfl⟩ := h
    rw [List.flatten_cons, hitSum_append, List.map_cons, List.sum_cons]
    exact hRadd _ _ _ _ (hf a List.mem_cons_self l hl) (ih ls' hls' (fun i hi => hf i (List.mem_cons_of_mem _ hi)))

/-- generic form of `partL_sum`. -/
theorem partT_sum {O : Nat → List Nat} {pidx blkNo bidx x lg : Nat}
    (hnd : (O pidx).Nodup) (hb : bidx < 128) (hx : x < BLOCK) :
    hitSum ((partT O (blkNo * 128 + bidx) pidx).map fun e => (bidx * 256 + e.1, lg)) x =
      if bidx = x / 256 ∧ blkNo * BLOCK + x ∈ O pidx then lg else 0 := by
  unfold partT
  rw [List.map_map]
  have hmap : ((O pidx).filter fun off => off / 256 = blkNo * 128 + bidx).map
      ((fun e : Nat × Nat => (bidx * 256 + e.1, lg)) ∘ fun off => (off % 256, pidx % 2 ^ 32 % 256)) =
      ((((O pidx).filter fun off => off / 256 = blkNo * 128 + bidx).map
        fun off => bidx * 256 + off % 256)).map fun y => (y, lg) := by
    rw [List.map_map]; rfl
  rw [hmap]
  have hinj : (((O pidx).filter fun off => off / 256 = blkNo * 128 + bidx).map
      fun off => bidx * 256 + off % 256).Nodup := by
    apply List.Nodup.map_on _ (hnd.filter _)
    intro a ha b hb' e
    have ha' := (List.mem_filter.1 ha).2
    have hb'' := (List.mem_filter.1 hb').2
    simp only [decide_eq_true_eq] at ha' hb''
    have := Nat.div_add_mod a 256
    have := Nat.div_add_mod b 256
    omega
  rw [hitSum_map_nodup lg x _ hinj]
  congr 1
  apply propext
  rw [List.mem_map]
  constructor
  · rintro ⟨off, hm, he⟩
    obtain ⟨hm1, hm2⟩ := List.mem_filter.1 hm
    simp only [decide_eq_true_eq] at hm2
    have := Nat.div_add_mod off 256
    have hx' : x < 32768 := by simpa [BLOCK] using hx
    have hb2 : bidx = x / 256 := by omega
    refine ⟨hb2, ?_⟩
    have : off = blkNo * BLOCK + x := by simp only [BLOCK]; omega
    rw [← this]; exact hm1
  · rintro ⟨hb2, hm⟩
    have hx' : x < 32768 := by simpa [BLOCK] using hx
    refine ⟨blkNo * BLOCK + x, List.mem_filter.2 ⟨hm, ?_⟩, ?_⟩
    · rw [decide_eq_true_eq]; simp only [BLOCK]; omega
    · simp only [BLOCK]; omega

theorem partV_sum {O : Nat → List Nat} {pidx blkNo bucket x lg : Nat}
    (hnd : (O pidx).Nodup) (hb : bucket < 2) (hx : x < BLOCK) :
    hitSum ((partV O (2 * blkNo + bucket) pidx).map fun e => (e.1, lg)) x =
      if bucket = x / 16384 ∧ blkNo * BLOCK + x ∈ O pidx then lg else 0 := by
  unfold partV
  rw [List.map_map]
  have hmap : ((O pidx).filter fun off => off / 16384 = 2 * blkNo + bucket).map
      ((fun e : Nat × Nat => (e.1, lg)) ∘ fun off => (off % BLOCK % 65536, pidx % 65536)) =
      ((((O pidx).filter fun off => off / 16384 = 2 * blkNo + bucket).map
        fun off => off % BLOCK % 65536)).map fun y => (y, lg) := by
    rw [List.map_map]; rfl
  rw [hmap]
  have hinj : (((O pidx).filter fun off => off / 16384 = 2 * blkNo + bucket).map
      fun off => off % BLOCK % 65536).Nodup := by
    apply List.Nodup.map_on _ (hnd.filter _)
    intro a ha b hb' e
    have ha' := (List.mem_filter.1 ha).2
    have hb'' := (List.mem_filter.1 hb').2
    simp only [decide_eq_true_eq] at ha' hb''
    simp only [BLOCK] at e
    omega
  rw [hitSum_map_nodup lg x _ hinj]
  congr 1
  apply propext
  rw [List.mem_map]
  have hx' : x < 32768 := by simpa [BLOCK] using hx
  constructor
  · rintro ⟨off, hm, he⟩
    obtain ⟨hm1, hm2⟩ := List.mem_filter.1 hm
    simp only [decide_eq_true_eq] at hm2
    simp only [BLOCK] at he
    have hb2 : bucket = x / 16384 := by omega
    refine ⟨hb2, ?_⟩
    have : off = blkNo * BLOCK + x := by simp only [BLOCK]; omega
    rw [← this]; exact hm1
  · rintro ⟨hb2, hm⟩
    refine ⟨blkNo * BLOCK + x, List.mem_filter.2 ⟨hm, ?_⟩, ?_⟩
    · rw [decide_eq_true_eq]; simp only [BLOCK]; omega
    · simp only [BLOCK]; omega

def TShapeR (RL : List (Nat × Nat) → List (Nat × Nat) → Prop) (fb : FB) (O : Nat → List Nat) (nblocks : Nat)
    (tables : Array Table) : Prop :=
  ∀ (tidx : Nat) (t : Table), tables[tidx]? = some t → ∃ idx1 idx2, fb.ibl[tidx + 16]? = some idx1 ∧
    fb.ibl[tidx + 17]? = some idx2 ∧ ∀ b, b < 128 * nblocks → ∃ bk, t.bucket b = some bk ∧
      RL bk ((List.range' idx1 (idx2 - idx1)).flatMap (partT O b))

def LShapeR (RL : List (Nat × Nat) → List (Nat × Nat) → Prop) (fb : FB) (O : Nat → List Nat) (nblocks : Nat)
    (ltables : Array LTable) : Prop :=
  ∀ (tidx : Nat) (t : LTable), ltables[tidx]? = some t → ∃ idx1 idx2, fb.ibl[tidx + 19]? = some idx1 ∧
    fb.ibl[tidx + 20]? = some idx2 ∧ ∀ b, b < 2 * nblocks → ∃ bk, t.bucket b = some bk ∧
      RL bk ((List.range' idx1 (idx2 - idx1)).flatMap (partV O b))

theorem TShape.sub {fb : FB} {O : Nat → List Nat} {n : Nat} {ts : Array Table} (h : TShape fb O n ts) :
    TShapeR List.Sublist fb O n ts := by
  intro tidx t ht
  obtain ⟨i1, i2, a1, a2, hb⟩ := h tidx t ht
  exact ⟨i1, i2, a1, a2, fun b hlt => by obtain ⟨bk, e1, e2, _⟩ := hb b hlt; exact ⟨bk, e1, e2⟩⟩

theorem TShape.eq {fb : FB} {O : Nat → List Nat} {n : Nat} {ts : Array Table} (h : TShape fb O n ts)
    (hz : ∀ (tidx : Nat) (t : Table), ts[tidx]? = some t → t.nOverflows = 0) : TShapeR Eq fb O n ts := by
  intro tidx t ht
  obtain ⟨i1, i2, a1, a2, hb⟩ := h tidx t ht
  exact ⟨i1, i2, a1, a2, fun b hlt => by obtain ⟨bk, e1, _, e3⟩ := hb b hlt; exact ⟨bk, e1, e3 (hz tidx t ht)⟩⟩

theorem LShape.sub {fb : FB} {O : Nat → List Nat} {n : Nat} {ts : Array LTable} (h : LShape fb O n ts) :
    LShapeR List.Sublist fb O n ts := by
  intro tidx t ht
  obtain ⟨i1, i2, a1, a2, hb⟩ := h tidx t ht
  exact ⟨i1, i2, a1, a2, fun b hlt => by obtain ⟨bk, e1, e2, _⟩ := hb b hlt; exact ⟨bk, e1, e2⟩⟩

theorem LShape.eq {fb : FB} {O : Nat → List Nat} {n : Nat} {ts : Array LTable} (h : LShape fb O n ts)
    (hz : ∀ (tidx : Nat) (t : LTable), ts[tidx]? = some t → t.overflows.size = 0) : LShapeR Eq fb O n ts := by
  intro tidx t ht
  obtain ⟨i1, i2, a1, a2, hb⟩ := h tidx t ht
  exact ⟨i1, i2, a1, a2, fun b hlt => by obtain ⟨bk, e1, _, e3⟩ := hb b hlt; exact ⟨bk, e1, e3 (hz tidx t ht)⟩⟩

/-- the class sums the table loops of `sieve_block` add at position `x` of block `blkNo`. -/
def classSum (fb : FB) (O : Nat → List Nat) (base size X : Nat) : Nat :=
  ((List.range' 0 size).map fun tidx =>
    (((List.range' ((fb.ibl[tidx + base]?).getD 0)
      ((fb.ibl[tidx + base + 1]?).getD 0 - (fb.ibl[tidx + base]?).getD 0)).map
        fun pidx => if X ∈ O pidx then (base + tidx) % 256 else 0).sum)).sum

theorem tableHits_rel (R : Nat → Nat → Prop) (RL : List (Nat × Nat) → List (Nat × Nat) → Prop) (hR0 : R 0 0)
    (hRadd : ∀ a b c d, R a b → R c d → R (a + c) (b + d))
    {x : Nat} (hlink : ∀ (a b : List (Nat × Nat)) (m : Nat × Nat → Nat × Nat), RL a b →
      R (hitSum (a.map m) x) (hitSum (b.map m) x))
    {fb : FB} {OT OV : Nat → List Nat} {nblocks : Nat} {s : State} {th : List (Nat × Nat)}
    (hT : TShapeR RL fb OT nblocks s.tables) (hL : LShapeR RL fb OV nblocks s.ltables)
    (hblk : s.blkNo < nblocks) (hTL : s.tables.size = 0 → s.ltables.size = 0)
    (hndT : ∀ (tidx idx1 : Nat), fb.ibl[tidx + 16]? = some idx1 → ∀ pidx, idx1 ≤ pidx → (OT pidx).Nodup)
    (hndV : ∀ (tidx idx1 : Nat), fb.ibl[tidx + 19]? = some idx1 → ∀ pidx, idx1 ≤ pidx → (OV pidx).Nodup)
    (hx : x < BLOCK) (h : tableHits s = some th) :
    R (hitSum th x) (classSum fb OT 16 s.tables.size (s.blkNo * BLOCK + x) +
      classSum fb OV 19 s.ltables.size (s.blkNo * BLOCK + x)) := by
  unfold tableHits at h
  by_cases h0 : s.tables.size = 0
  · simp only [h0, if_true, Option.some.injEq] at h
    subst h
    have : classSum fb OT 16 s.tables.size (s.blkNo * BLOCK + x) +
        classSum fb OV 19 s.ltables.size (s.blkNo * BLOCK + x) = 0 := by
      simp [classSum, h0, hTL h0]
    rw [this, hitSum_nil]; exact hR0
  simp only [h0, if_false, Option.bind_eq_bind, Option.bind_eq_some_iff, Option.some.injEq] at h
  obtain ⟨h1, hh1, h2, hh2, rfl⟩ := h
  have hx' : x < 32768 := by simpa [BLOCK] using hx
  rw [hitSum_append]
  apply hRadd
  · -- size-class tables
    have hcell : ∀ bidx, bidx < 128 → ∀ tidx l, tableBucketHits s bidx tidx = some l →
        R (hitSum l x) (if bidx = x / 256 then
          (((List.range' ((fb.ibl[tidx + 16]?).getD 0) ((fb.ibl[tidx + 16 + 1]?).getD 0 - (fb.ibl[tidx + 16]?).getD 0)).map
            fun pidx => if s.blkNo * BLOCK + x ∈ OT pidx then (16 + tidx) % 256 else 0).sum) else 0) := by
      intro bidx hb tidx l hl
      unfold tableBucketHits at hl
      simp only [Option.bind_eq_bind, Option.bind_eq_some_iff, Option.some.injEq, N_BUCKETS, N_ENTRIES, BUCKET_SIZE,
        BUCKET_WIDTH, LARGE_LOG] at hl
      obtain ⟨t, ht, blen, hblen, es, hes, rfl⟩ := hl
      obtain ⟨idx1, idx2, hi1, hi2, hbk⟩ := hT tidx t ht
      have hb' : s.blkNo * 128 + bidx < 128 * nblocks := by
        have : (s.blkNo + 1) * 128 ≤ nblocks * 128 := Nat.mul_le_mul_right _ hblk
        omega
      obtain ⟨bk, hbucket, hrl⟩ := hbk _ hb'
      have hes' : t.bucket (s.blkNo * 128 + bidx) = some es := by
        unfold Table.bucket
        simp only [hblen, BUCKET_SIZE]
        have : (s.blkNo * 128 + bidx) * 32 = s.blkNo * 4096 + bidx * 32 := by ring
        rw [this]; exact hes
      rw [hbucket] at hes'
      have := Option.some.inj hes'
      subst this
      have hi2' : fb.ibl[tidx + 16 + 1]? = some idx2 := hi2
      simp only [hi1, hi2', Option.getD_some]
      have hr := hlink _ _ (fun e : Nat × Nat => (bidx * 256 + e.1, (16 + tidx) % 256)) hrl
      have heq : hitSum (((List.range' idx1 (idx2 - idx1)).flatMap (partT OT (s.blkNo * 128 + bidx))).map
          fun e : Nat × Nat => (bidx * 256 + e.1, (16 + tidx) % 256)) x =
          (if bidx = x / 256 then ((List.range' idx1 (idx2 - idx1)).map
            fun pidx => if s.blkNo * BLOCK + x ∈ OT pidx then (16 + tidx) % 256 else 0).sum else 0) := by
        rw [hitSum_flatMap_map]
        by_cases hq : bidx = x / 256
        · rw [if_pos hq]
          congr 1
          apply List.map_congr_left
          intro pidx hm
          rw [partT_sum (hndT tidx idx1 hi1 pidx (List.mem_range'_1.1 hm).1) hb hx]
          simp [hq]
        · rw [if_neg hq]
          apply List.sum_eq_zero
          intro v hv
          obtain ⟨pidx, hm, rfl⟩ := List.mem_map.1 hv
          rw [partT_sum (hndT tidx idx1 hi1 pidx (List.mem_range'_1.1 hm).1) hb hx]
          simp [hq]
      rw [heq] at hr
      exact hr
    have hrow := mapM_flatten_rel R hR0 hRadd _ (fun bidx => if bidx = x / 256 then
        classSum fb OT 16 s.tables.size (s.blkNo * BLOCK + x) else 0) x _ _ hh1 (by
      intro bidx hbm l hl
      have hb : bidx < 128 := by have := List.mem_range'_1.1 hbm; simp only [N_BUCKETS] at this; omega
      simp only [Option.bind_eq_bind, Option.bind_eq_some_iff, Option.some.injEq] at hl
      obtain ⟨ls, hls, rfl⟩ := hl
      have := mapM_flatten_rel R hR0 hRadd _ (fun tidx => if bidx = x / 256 then
          (((List.range' ((fb.ibl[tidx + 16]?).getD 0) ((fb.ibl[tidx + 16 + 1]?).getD 0 - (fb.ibl[tidx + 16]?).getD 0)).map
            fun pidx => if s.blkNo * BLOCK + x ∈ OT pidx then (16 + tidx) % 256 else 0).sum) else 0)
        x _ _ hls (fun tidx _ l hl => hcell bidx hb tidx l hl)
      by_cases hq : bidx = x / 256
      · simpa [hq, classSum] using this
      · simpa [hq] using this)
    simp only [N_BUCKETS] at hrow
    rw [sum_single _ (x / 256) 128 0 (by omega) (by omega) (fun i hi => by simp [hi])] at hrow
    simpa using hrow
  · -- large tables
    have hcell : ∀ bucket, bucket < 2 → ∀ tidx l, ltableBucketHits s bucket tidx = some l →
        R (hitSum l x) (if bucket = x / 16384 then
          (((List.range' ((fb.ibl[tidx + 19]?).getD 0) ((fb.ibl[tidx + 19 + 1]?).getD 0 - (fb.ibl[tidx + 19]?).getD 0)).map
            fun pidx => if s.blkNo * BLOCK + x ∈ OV pidx then (19 + tidx) % 256 else 0).sum) else 0) := by
      intro bucket hb tidx l hl
      unfold ltableBucketHits at hl
      simp only [Option.bind_eq_bind, Option.bind_eq_some_iff, Option.some.injEq, VLARGE_LOG] at hl
      obtain ⟨t, ht, es, hes, rfl⟩ := hl
      obtain ⟨idx1, idx2, hi1, hi2, hbk⟩ := hL tidx t ht
      obtain ⟨bk, hbucket, hrl⟩ := hbk (2 * s.blkNo + bucket) (by omega)
      rw [hbucket] at hes
      have := Option.some.inj hes
      subst this
      have hi2' : fb.ibl[tidx + 19 + 1]? = some idx2 := hi2
      simp only [hi1, hi2', Option.getD_some]
      have hr := hlink _ _ (fun e : Nat × Nat => (e.1, (19 + tidx) % 256)) hrl
      have heq : hitSum (((List.range' idx1 (idx2 - idx1)).flatMap (partV OV (2 * s.blkNo + bucket))).map
          fun e : Nat × Nat => (e.1, (19 + tidx) % 256)) x =
          (if bucket = x / 16384 then ((List.range' idx1 (idx2 - idx1)).map
            fun pidx => if s.blkNo * BLOCK + x ∈ OV pidx then (19 + tidx) % 256 else 0).sum else 0) := by
        rw [hitSum_flatMap_map]
        by_cases hq : bucket = x / 16384
        · rw [if_pos hq]
          congr 1
          apply List.map_congr_left
          intro pidx hm
          rw [partV_sum (hndV tidx idx1 hi1 pidx (List.mem_range'_1.1 hm).1) hb hx]
          simp [hq]
        · rw [if_neg hq]
          apply List.sum_eq_zero
          intro v hv
          obtain ⟨pidx, hm, rfl⟩ := List.mem_map.1 hv
          rw [partV_sum (hndV tidx idx1 hi1 pidx (List.mem_range'_1.1 hm).1) hb hx]
          simp [hq]
      rw [heq] at hr
      exact hr
    have hrow := mapM_flatten_rel R hR0 hRadd _ (fun bucket => if bucket = x / 16384 then
        classSum fb OV 19 s.ltables.size (s.blkNo * BLOCK + x) else 0) x _ _ hh2 (by
      intro bucket hbm l hl
      have hb : bucket < 2 := by have := List.mem_range'_1.1 hbm; omega
      simp only [Option.bind_eq_bind, Option.bind_eq_some_iff, Option.some.injEq] at hl
      obtain ⟨ls, hls, rfl⟩ := hl
      have := mapM_flatten_rel R hR0 hRadd _ (fun tidx => if bucket = x / 16384 then
          (((List.range' ((fb.ibl[tidx + 19]?).getD 0) ((fb.ibl[tidx + 19 + 1]?).getD 0 - (fb.ibl[tidx + 19]?).getD 0)).map
            fun pidx => if s.blkNo * BLOCK + x ∈ OV pidx then (19 + tidx) % 256 else 0).sum) else 0)
        x _ _ hls (fun tidx _ l hl => hcell bucket hb tidx l hl)
      by_cases hq : bucket = x / 16384
      · simpa [hq, classSum] using this
      · simpa [hq] using this)
    rw [sum_single _ (x / 16384) 2 0 (by omega) (by omega) (fun i hi => by simp [hi])] at hrow
    simpa using hrow

end Ymq.SieveLog
