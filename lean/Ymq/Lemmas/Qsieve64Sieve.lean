/-
C03/qs64, part (b), the sieve: the `u8` accumulator `interval[off] += logp` cannot overflow.

At index `i` the sieve adds `logp = bitlen p` once per root `rt ∈ {r, p − r}` with
`nsqrt + offset + i ≡ rt (mod p)`; then `p` divides `V = (nsqrt + offset + i)² − nk` (both roots
coincide when `p ∣ nk`, so a prime can be counted twice). Hence the byte is at most
`Σ 2·bitlen p` over the DISTINCT factor-base primes `p > 3` dividing `V`. Their product divides
`V ≠ 0`, `|V| < 2^60`, and `2^(bitlen p − 1) ≤ p`, so `Σ (bitlen p − 1) ≤ 59`; with `bitlen p ≥ 3`
this gives `Σ 2·bitlen p ≤ 177 < 256`.
-/
import Ymq.Lemmas.Qsieve64Valid
import Mathlib.Data.Nat.Prime.Basic

namespace Ymq.Qsieve64
open Ymq.Relations

/-! ### distinct primes dividing a number -/

theorem coprime_prod_of_primes {p : Nat} (hp : p.Prime) : ∀ (t : List Nat),
    (∀ q ∈ t, q.Prime ∧ q ≠ p) → Nat.Coprime p t.prod := by
  intro t
  induction t with
  | nil => intro _; simp
  | cons q t ih =>
    intro h
    rw [List.prod_cons]
    obtain ⟨hq, hne⟩ := h q List.mem_cons_self
    exact Nat.Coprime.mul_right ((Nat.coprime_primes hp hq).mpr (Ne.symm hne))
      (ih fun q' hq' => h q' (List.mem_cons_of_mem _ hq'))

theorem prod_primes_dvd (m : Nat) : ∀ (ps : List Nat), ps.Nodup → (∀ p ∈ ps, p.Prime) →
    (∀ p ∈ ps, p ∣ m) → ps.prod ∣ m := by
  intro ps
  induction ps with
  | nil => intro _ _ _; simp
  | cons p t ih =>
    intro hnd hpr hdv
    rw [List.nodup_cons] at hnd
    rw [List.prod_cons]
    refine Nat.Coprime.mul_dvd_of_dvd_of_dvd ?_ (hdv p List.mem_cons_self)
      (ih hnd.2 (fun q hq => hpr q (List.mem_cons_of_mem _ hq))
        (fun q hq => hdv q (List.mem_cons_of_mem _ hq)))
    refine coprime_prod_of_primes (hpr p List.mem_cons_self) t ?_
    intro q hq
    exact ⟨hpr q (List.mem_cons_of_mem _ hq), fun h => hnd.1 (h ▸ hq)⟩

theorem pow_log_le_prod : ∀ (ps : List Nat), (∀ p ∈ ps, 4 < p) →
    2 ^ (ps.map Nat.log2).sum ≤ ps.prod ∧
    (ps.map fun p => 2 * Dividers.bitlen p).sum ≤ 3 * (ps.map Nat.log2).sum := by
  intro ps
  induction ps with
  | nil => intro _; simp
  | cons p t ih =>
    intro h
    obtain ⟨h1, h2⟩ := ih fun q hq => h q (List.mem_cons_of_mem _ hq)
    have hp := h p List.mem_cons_self
    have hp0 : p ≠ 0 := by omega
    have hl : 2 ^ p.log2 ≤ p := Nat.log2_self_le hp0
    have hl2 : 2 ≤ p.log2 := (Nat.le_log2 hp0).mpr (by omega)
    simp only [List.map_cons, List.sum_cons, List.prod_cons]
    refine ⟨?_, ?_⟩
    · rw [pow_add]; exact Nat.mul_le_mul hl h1
    · have : Dividers.bitlen p = p.log2 + 1 := by unfold Dividers.bitlen; rw [if_neg hp0]
      rw [this]; omega

/-- the factor-base primes above 3 that divide `v` -/
def hitPrimes (v : Int) (ps : List Nat) : List Nat :=
  ps.filter fun p => decide (3 < p ∧ v % (p : Int) = 0)

/-- the bound on the accumulator byte of a position whose sieved value is `v` -/
def wt (v : Int) (ps : List Nat) : Nat := ((hitPrimes v ps).map fun p => 2 * Dividers.bitlen p).sum

theorem wt_append (v : Int) (a b : List Nat) : wt v (a ++ b) = wt v a + wt v b := by
  simp [wt, hitPrimes, List.filter_append]

theorem wt_single (v : Int) (p : Nat) :
    wt v [p] = if 3 < p ∧ v % (p : Int) = 0 then 2 * Dividers.bitlen p else 0 := by
  unfold wt hitPrimes
  by_cases h : 3 < p ∧ v % (p : Int) = 0
  · rw [if_pos h]; simp [h]
  · rw [if_neg h]; simp [h]

theorem wt_le (v : Int) (ps : List Nat) (hnd : ps.Nodup) (hpr : ∀ p ∈ ps, p.Prime) (hv : v ≠ 0)
    (hlt : v.natAbs < 2 ^ 60) : wt v ps ≤ 177 := by
  have hmem : ∀ p ∈ hitPrimes v ps, p ∈ ps ∧ 3 < p ∧ v % (p : Int) = 0 := by
    intro p hp
    unfold hitPrimes at hp
    rw [List.mem_filter] at hp
    exact ⟨hp.1, by simpa using hp.2⟩
  have hdvd : (hitPrimes v ps).prod ∣ v.natAbs := by
    refine prod_primes_dvd _ _ (hnd.filter _) (fun p hp => hpr p (hmem p hp).1) ?_
    intro p hp
    exact Int.natCast_dvd.mp (Int.dvd_of_emod_eq_zero (hmem p hp).2.2)
  have hpos : 0 < v.natAbs := Int.natAbs_pos.mpr hv
  have hle := Nat.le_of_dvd hpos hdvd
  have h4 : ∀ p ∈ hitPrimes v ps, 4 < p := by
    intro p hp
    have h3 := (hmem p hp).2.1
    have hprime := hpr p (hmem p hp).1
    rcases Nat.lt_or_ge 4 p with h | h
    · exact h
    · have : p = 4 := by omega
      subst this
      exact absurd hprime (by decide)
  obtain ⟨h1, h2⟩ := pow_log_le_prod _ h4
  have h3 : 2 ^ ((hitPrimes v ps).map Nat.log2).sum < 2 ^ 60 := by omega
  have h5 : ((hitPrimes v ps).map Nat.log2).sum < 60 := (Nat.pow_lt_pow_iff_right (by decide)).mp h3
  unfold wt
  omega

/-! ### the interval -/

theorem getD_set (iv : Array Nat) (off s i : Nat) (h : off < iv.size) :
    (iv.setIfInBounds off s).getD i 0 = if off = i then s else iv.getD i 0 := by
  simp only [Array.getD_eq_getD_getElem?, Array.getElem?_setIfInBounds]
  split
  · simp
  · rfl

/-- the loop `while off < len { interval[off] += logp; off += p }`: with enough room below 256 at
every position it touches, it returns, and it adds `logp` exactly at `off, off + p, off + 2p, …` -/
theorem addLoop_ok (logp p : Nat) (hp : 0 < p) : ∀ (f off : Nat) (iv : Array Nat),
    iv.size ≤ off + f →
    (∀ i, i < iv.size → off ≤ i → p ∣ i - off → iv.getD i 0 + logp < 256) →
    ∃ iv', addLoop logp p f off iv = .ok iv' ∧ iv'.size = iv.size ∧
      ∀ i, i < iv.size → iv'.getD i 0 = iv.getD i 0 + (if off ≤ i ∧ p ∣ i - off then logp else 0) := by
  intro f
  induction f with
  | zero =>
    intro off iv hsz _
    unfold addLoop
    rw [if_neg (by omega)]
    refine ⟨iv, rfl, rfl, ?_⟩
    intro i hi
    rw [if_neg (by omega)]; rfl
  | succ f ih =>
    intro off iv hsz hroom
    unfold addLoop
    by_cases hlt : off < iv.size
    · rw [if_pos hlt]
      have h0 := hroom off hlt (le_refl _) (by simp)
      simp only
      rw [if_neg (by omega)]
      have hsz' : (iv.setIfInBounds off (iv.getD off 0 + logp)).size = iv.size := by simp
      obtain ⟨iv', h1, h2, h3⟩ := ih (off + p) (iv.setIfInBounds off (iv.getD off 0 + logp))
        (by rw [hsz']; omega) (by
          intro i hi hle hd
          rw [hsz'] at hi
          rw [getD_set _ _ _ _ hlt, if_neg (by omega)]
          refine hroom i hi (by omega) ?_
          have : i - off = (i - (off + p)) + p := by omega
          rw [this]; exact Nat.dvd_add hd (dvd_refl p))
      refine ⟨iv', h1, by rw [h2, hsz'], ?_⟩
      intro i hi
      rw [h3 i (by rw [hsz']; exact hi), getD_set _ _ _ _ hlt]
      by_cases hio : off = i
      · subst hio
        rw [if_pos rfl, if_neg (by omega), if_pos ⟨le_refl _, by simp⟩]; rfl
      · rw [if_neg hio]
        congr 1
        by_cases hc : off + p ≤ i ∧ p ∣ i - (off + p)
        · rw [if_pos hc, if_pos]
          refine ⟨by omega, ?_⟩
          have : i - off = (i - (off + p)) + p := by omega
          rw [this]; exact Nat.dvd_add hc.2 (dvd_refl p)
        · rw [if_neg hc, if_neg]
          intro hc'
          apply hc
          obtain ⟨k, hk⟩ := hc'.2
          have hk0 : k ≠ 0 := by
            intro h; subst h; omega
          have hpk : p ≤ p * k := Nat.le_mul_of_pos_right p (Nat.pos_of_ne_zero hk0)
          refine ⟨by omega, ?_⟩
          have : i - (off + p) = p * (k - 1) := by
            rw [Nat.mul_sub, Nat.mul_one]; omega
          rw [this]; exact Dvd.intro _ rfl
    · rw [if_neg hlt]
      refine ⟨iv, rfl, rfl, ?_⟩
      intro i hi
      rw [if_neg (by omega)]; rfl

/-! ### one root, one prime, all primes -/

/-- the value sieved at index `i` of the block at `offset`: `(nsqrt + offset + i)² − nk` -/
def V (c : Ctx) (offset : Int) (i : Nat) : Int :=
  ((c.nsqrt : Int) + ((i : Int) + offset)) * ((c.nsqrt : Int) + ((i : Int) + offset)) - (c.nk : Int)

/-- `rt` is a square root of `nk` modulo `p` -/
def IsRoot (p nk : Nat) (rt : Int) : Prop := (p : Int) ∣ rt * rt - (nk : Int)

theorem isRoot_of_sqrt {p nk r : Nat} (h : r * r % p = nk % p) : IsRoot p nk (r : Int) := by
  unfold IsRoot
  have : (nk : Int) ≡ ((r * r : Nat) : Int) [ZMOD (p : Int)] := by
    rw [Int.natCast_modEq_iff]; exact h.symm
  have := Int.modEq_iff_dvd.mp this
  push_cast at this
  exact this

theorem isRoot_neg {p nk r : Nat} (h : IsRoot p nk (r : Int)) : IsRoot p nk ((p : Int) - r) := by
  unfold IsRoot at *
  have : ((p : Int) - r) * ((p : Int) - r) - nk = (p : Int) * ((p : Int) - 2 * r) + (r * r - nk) := by
    ring
  rw [this]
  exact Int.dvd_add (Dvd.intro _ rfl) h

/-- bounds every block satisfies: `|offset| ≤ 64·16384`, `nsqrt < 2^32` -/
structure Small (c : Ctx) (offset : Int) : Prop where
  off_lo : -(2 ^ 21 : Int) ≤ offset
  off_hi : offset ≤ (2 ^ 21 : Int)
  ns : c.nsqrt < 2 ^ 32

theorem sieveRoot_ok {c : Ctx} {offset : Int} (hs : Small c offset) {e : FbEntry} (he : EntryOK e)
    (hp200 : e.p < 200) (logp rt : Nat) (hrt : rt ≤ e.p) (hroot : IsRoot e.p c.nk (rt : Int))
    (w : Nat → Nat) (iv : Array Nat) (hiv : ∀ i, i < iv.size → iv.getD i 0 ≤ w i)
    (hroom : ∀ i, i < iv.size → V c offset i % (e.p : Int) = 0 → w i + logp < 256) :
    ∃ iv', sieveRoot c offset e logp rt iv = .ok iv' ∧ iv'.size = iv.size ∧
      ∀ i, i < iv.size →
        iv'.getD i 0 ≤ w i + (if V c offset i % (e.p : Int) = 0 then logp else 0) := by
  have hI : (I63 : Int) = 2 ^ 63 := by decide
  have hns : toI64 c.nsqrt = (c.nsqrt : Int) := toI64_small (by
    have : (I63 : Nat) = 2 ^ 63 := by decide
    have := hs.ns; omega)
  have hns' : (c.nsqrt : Int) < 2 ^ 32 := by exact_mod_cast hs.ns
  have hrt' : (rt : Int) < 200 := by exact_mod_cast (lt_of_le_of_lt hrt hp200)
  have h1 := hs.off_lo
  have h2 := hs.off_hi
  unfold sieveRoot
  have c1 : chkI64 ((rt : Int) - offset) = .ok ((rt : Int) - offset) := by
    rw [chkI64_ok]; refine ⟨rfl, by omega, by omega⟩
  rw [hns]
  have c2 : chkI64 ((rt : Int) - offset - (c.nsqrt : Int)) = .ok ((rt : Int) - offset - (c.nsqrt : Int)) := by
    rw [chkI64_ok]; refine ⟨rfl, by omega, by omega⟩
  obtain ⟨off, hoff, hoffv⟩ := Dividers.modi64_ok e.div he.1 ((rt : Int) - offset - (c.nsqrt : Int))
    (by omega) (by omega)
  rw [he.2] at hoffv
  have hppos : 0 < e.p := by have := he.1.p_pos; rw [he.2] at this; exact this
  -- a hit means `p ∣ V`
  have hhit : ∀ i, off ≤ i → e.p ∣ i - off → V c offset i % (e.p : Int) = 0 := by
    intro i hle hd
    apply Int.emod_eq_zero_of_dvd
    have hd1 : (e.p : Int) ∣ (i : Int) - (off : Int) := by
      have := Int.natCast_dvd_natCast.mpr hd
      rwa [Nat.cast_sub hle] at this
    have hd2 : (e.p : Int) ∣ ((rt : Int) - offset - (c.nsqrt : Int)) - (off : Int) := by
      rw [hoffv]; exact Int.dvd_self_sub_emod
    have hd3 : (e.p : Int) ∣ ((c.nsqrt : Int) + ((i : Int) + offset)) - (rt : Int) := by
      have := Int.dvd_sub hd1 hd2
      have e1 : (i : Int) - off - ((rt : Int) - offset - c.nsqrt - off) =
          (c.nsqrt : Int) + ((i : Int) + offset) - rt := by ring
      rwa [e1] at this
    unfold V
    have e2 : ((c.nsqrt : Int) + ((i : Int) + offset)) * ((c.nsqrt : Int) + ((i : Int) + offset)) - (c.nk : Int) =
        (((c.nsqrt : Int) + ((i : Int) + offset)) - rt) * (((c.nsqrt : Int) + ((i : Int) + offset)) + rt) +
          ((rt : Int) * rt - c.nk) := by ring
    rw [e2]
    exact Int.dvd_add (Dvd.dvd.mul_right hd3 _) hroot
  obtain ⟨iv', g1, g2, g3⟩ := addLoop_ok logp e.p hppos iv.size off iv (by omega) (by
    intro i hi hle hd
    have := hroom i hi (hhit i hle hd)
    have := hiv i hi
    omega)
  refine ⟨iv', ?_, g2, ?_⟩
  · simp only [c1, c2, hoff, liftO, bind, Except.bind, pure, Except.pure]
    exact g1
  · intro i hi
    rw [g3 i hi]
    have := hiv i hi
    by_cases hc : off ≤ i ∧ e.p ∣ i - off
    · rw [if_pos hc, if_pos (hhit i hc.1 hc.2)]; omega
    · rw [if_neg hc]
      by_cases hv : V c offset i % (e.p : Int) = 0
      · rw [if_pos hv]; omega
      · rw [if_neg hv]; omega

end Ymq.Qsieve64
