/-
Flag arrays of the sieves of src/fbase.rs (C17): reading a flag, the marking loops
`markFrom`, `mark1`, `mark3` mark exactly the indices `k, k + p, k + 2p, …` below the array size.
-/
import Mathlib.Tactic.Linarith
import Mathlib.Tactic.Ring
import Ymq.Model.Primes

namespace Ymq.Primes

/-- the flag at index `i` (`false` outside the array) -/
def flag (s : Array Bool) (i : Nat) : Bool := s[i]!

theorem flag_set (s : Array Bool) (k i : Nat) (hi : i < s.size) :
    flag (s.setIfInBounds k true) i = true ↔ (k = i ∨ flag s i = true) := by
  unfold flag
  rw [getElem!_pos (s.setIfInBounds k true) i (by simpa using hi), getElem!_pos s i hi,
    Array.getElem_setIfInBounds hi]
  by_cases h : k = i
  · simp [h]
  · simp [h]

theorem flag_replicate (n i : Nat) (hi : i < n) : flag (Array.replicate n false) i = false := by
  unfold flag
  rw [getElem!_pos (Array.replicate n false) i (by simpa using hi)]
  simp

/-- `markFrom` with enough fuel marks exactly `k, k+p, k+2p, …` -/
theorem markFrom_spec (p : Nat) :
    ∀ f (s : Array Bool) k, s.size ≤ k + f * p →
      (markFrom f s k p).size = s.size ∧
      ∀ i, i < s.size → (flag (markFrom f s k p) i = true ↔
        (flag s i = true ∨ ∃ t, i = k + t * p)) := by
  intro f
  induction f with
  | zero =>
    intro s k hf
    refine ⟨rfl, fun i hi => ?_⟩
    simp only [markFrom]
    constructor
    · exact Or.inl
    · rintro (h | ⟨t, ht⟩)
      · exact h
      · exfalso
        have : k ≤ i := by rw [ht]; exact Nat.le_add_right _ _
        omega
  | succ f ih =>
    intro s k hf
    rw [markFrom]
    by_cases hk : k < s.size
    · rw [if_pos hk]
      have hsz : (s.setIfInBounds k true).size = s.size := Array.size_setIfInBounds
      have hf' : (s.setIfInBounds k true).size ≤ k + p + f * p := by
        rw [hsz]
        calc s.size ≤ k + (f + 1) * p := hf
          _ = k + p + f * p := by ring
      obtain ⟨h1, h2⟩ := ih (s.setIfInBounds k true) (k + p) hf'
      refine ⟨by rw [h1, hsz], fun i hi => ?_⟩
      rw [h2 i (by rw [hsz]; exact hi), flag_set s k i hi]
      constructor
      · rintro ((h | h) | ⟨t, ht⟩)
        · exact Or.inr ⟨0, by simp [h]⟩
        · exact Or.inl h
        · exact Or.inr ⟨t + 1, by rw [ht]; ring⟩
      · rintro (h | ⟨t, ht⟩)
        · exact Or.inl (Or.inr h)
        · cases t with
          | zero => exact Or.inl (Or.inl (by simpa using ht.symm))
          | succ t => exact Or.inr ⟨t, by rw [ht]; ring⟩
    · rw [if_neg hk]
      refine ⟨rfl, fun i hi => ?_⟩
      constructor
      · exact Or.inl
      · rintro (h | ⟨t, ht⟩)
        · exact h
        · exfalso
          have : k ≤ i := by rw [ht]; exact Nat.le_add_right _ _
          omega

/-- `mark1` with enough fuel: marks `o, o+p, …` below the size and returns the first such value
that is `≥ size` -/
theorem mark1_spec (p : Nat) :
    ∀ f (s : Array Bool) o, s.size ≤ o + f * p →
      (mark1 f s o p).1.size = s.size ∧
      (∀ i, i < s.size → (flag (mark1 f s o p).1 i = true ↔
        (flag s i = true ∨ ∃ t, i = o + t * p))) ∧
      s.size ≤ (mark1 f s o p).2 ∧ (o < s.size → (mark1 f s o p).2 < s.size + p) ∧
      (s.size ≤ o → (mark1 f s o p).2 = o) ∧
      ∃ t, (mark1 f s o p).2 = o + t * p := by
  intro f
  induction f with
  | zero =>
    intro s o hf
    have e : mark1 0 s o p = (s, o) := rfl
    rw [e]
    refine ⟨rfl, fun i hi => ?_, by omega, by omega, fun _ => rfl, ⟨0, by simp⟩⟩
    constructor
    · exact Or.inl
    · rintro (h | ⟨t, ht⟩)
      · exact h
      · exfalso
        have : o ≤ i := by rw [ht]; exact Nat.le_add_right _ _
        omega
  | succ f ih =>
    intro s o hf
    rw [mark1]
    by_cases hk : o < s.size
    · rw [if_pos hk]
      have hsz : (s.setIfInBounds o true).size = s.size := Array.size_setIfInBounds
      have hf' : (s.setIfInBounds o true).size ≤ o + p + f * p := by
        rw [hsz]
        calc s.size ≤ o + (f + 1) * p := hf
          _ = o + p + f * p := by ring
      obtain ⟨h1, h2, h3, h4, h4', t0, h5⟩ := ih (s.setIfInBounds o true) (o + p) hf'
      refine ⟨by rw [h1, hsz], fun i hi => ?_, by rw [← hsz]; exact h3, ?_, by omega,
        ⟨t0 + 1, by rw [h5]; ring⟩⟩
      · rw [h2 i (by rw [hsz]; exact hi), flag_set s o i hi]
        constructor
        · rintro ((h | h) | ⟨t, ht⟩)
          · exact Or.inr ⟨0, by simp [h]⟩
          · exact Or.inl h
          · exact Or.inr ⟨t + 1, by rw [ht]; ring⟩
        · rintro (h | ⟨t, ht⟩)
          · exact Or.inl (Or.inr h)
          · cases t with
            | zero => exact Or.inl (Or.inl (by simpa using ht.symm))
            | succ t => exact Or.inr ⟨t, by rw [ht]; ring⟩
      · rw [hsz] at h4 h4'
        intro _
        by_cases hop : o + p < s.size
        · exact h4 hop
        · rw [h4' (by omega)]; omega
    · rw [if_neg hk]
      refine ⟨rfl, fun i hi => ?_, by omega, by omega, fun _ => rfl, ⟨0, by simp⟩⟩
      constructor
      · exact Or.inl
      · rintro (h | ⟨t, ht⟩)
        · exact h
        · exfalso
          have : o ≤ i := by rw [ht]; exact Nat.le_add_right _ _
          omega

/-- the 3-way unrolled loop: marks `o, o+p, …` up to (excluding) the returned offset, which is of
the form `o + 3tp`, and stops with `returned + 3p ≥ size` -/
theorem mark3_spec (p : Nat) (hp : 0 < p) :
    ∀ f (s : Array Bool) o, s.size ≤ o + f * (3 * p) →
      (mark3 f s o p).1.size = s.size ∧
      (∃ t, (mark3 f s o p).2 = o + t * p ∧
        ∀ i, i < s.size → (flag (mark3 f s o p).1 i = true ↔
          (flag s i = true ∨ ∃ u, u < t ∧ i = o + u * p))) ∧
      (s.size ≤ (mark3 f s o p).2 + 3 * p) ∧ (o < s.size → (mark3 f s o p).2 < s.size) := by
  intro f
  induction f with
  | zero =>
    intro s o hf
    have e : mark3 0 s o p = (s, o) := rfl
    rw [e]
    refine ⟨rfl, ⟨0, by simp, fun i hi => ?_⟩, by omega, fun h => h⟩
    constructor
    · exact Or.inl
    · rintro (h | ⟨u, hu, _⟩)
      · exact h
      · omega
  | succ f ih =>
    intro s o hf
    rw [mark3]
    by_cases hk : o + 3 * p ≥ s.size
    · rw [if_pos hk]
      refine ⟨rfl, ⟨0, by simp, fun i hi => ?_⟩, by omega, fun h => h⟩
      constructor
      · exact Or.inl
      · rintro (h | ⟨u, hu, _⟩)
        · exact h
        · omega
    · rw [if_neg hk]
      have hsz : (((s.setIfInBounds o true).setIfInBounds (o + p) true).setIfInBounds
          (o + 2 * p) true).size = s.size := by simp
      have hf' : (((s.setIfInBounds o true).setIfInBounds (o + p) true).setIfInBounds
          (o + 2 * p) true).size ≤ o + 3 * p + f * (3 * p) := by
        rw [hsz]
        calc s.size ≤ o + (f + 1) * (3 * p) := hf
          _ = o + 3 * p + f * (3 * p) := by ring
      obtain ⟨h1, ⟨t0, h2, h3⟩, h4, h6⟩ := ih _ (o + 3 * p) hf'
      refine ⟨by rw [h1, hsz], ⟨t0 + 3, by rw [h2]; ring, fun i hi => ?_⟩, by rw [← hsz]; exact h4,
        fun _ => by rw [← hsz]; exact h6 (by rw [hsz]; omega)⟩
      rw [h3 i (by rw [hsz]; exact hi)]
      rw [flag_set _ _ i (by simpa using hi), flag_set _ _ i (by simpa using hi),
        flag_set s o i hi]
      constructor
      · rintro ((h | h | h | h) | ⟨u, hu, hi'⟩)
        · exact Or.inr ⟨2, by omega, by rw [← h]⟩
        · exact Or.inr ⟨1, by omega, by rw [← h]; ring⟩
        · exact Or.inr ⟨0, by omega, by rw [← h]; ring⟩
        · exact Or.inl h
        · exact Or.inr ⟨u + 3, by omega, by rw [hi']; ring⟩
      · rintro (h | ⟨u, hu, hi'⟩)
        · exact Or.inl (Or.inr (Or.inr (Or.inr h)))
        · rcases u with _ | _ | _ | u
          · exact Or.inl (Or.inr (Or.inr (Or.inl (by rw [hi']; ring))))
          · exact Or.inl (Or.inr (Or.inl (by rw [hi']; ring)))
          · exact Or.inl (Or.inl (by rw [hi']))
          · exact Or.inr ⟨u, by omega, by rw [hi']; ring⟩

end Ymq.Primes
