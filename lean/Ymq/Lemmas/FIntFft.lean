/-
C10: the word-level Fermat transform computes the cyclic convolution modulo `F = 2^(64N)+1`.
`mul_spec'` (`FInt::mul` around the exact product of the word vectors), `fft_spec` (the recursive
`fft` of Ymq/Model/FInt.lean = the algebraic radix-2 recursion `fftRec` of Ymq/Lemmas/PolyDft.lean with
the root `√2^(256N/2^k)`, forward and inverse, word-exact, no panic site), `mulfft_spec` (forward
transforms, pointwise products, inverse transform = cyclic convolution; instantiates `dft_conv`).
-/
import Ymq.Lemmas.FIntRoot
import Ymq.Lemmas.FIntKara
import Ymq.Lemmas.PolyDft
import Mathlib.Data.ZMod.Basic
import Mathlib.Tactic.LinearCombination
import Mathlib.Tactic.Ring
import Mathlib.Tactic.Linarith

namespace Ymq.FInt
open Ymq.Limbs

/-- the residue of an `FInt` in `ℤ/F` -/
def vz (N : Nat) (x : FI) : ZMod (Fmod N) := (x.value : ZMod (Fmod N))

theorem modEq_iff_cast {N a b : Nat} : a ≡ b [MOD Fmod N] ↔ ((a : ZMod (Fmod N)) = (b : ZMod (Fmod N))) :=
  (ZMod.natCast_eq_natCast_iff a b (Fmod N)).symm

theorem WN_cast (N : Nat) : ((W ^ N : Nat) : ZMod (Fmod N)) = -1 := by
  have h : ((W ^ N + 1 : Nat) : ZMod (Fmod N)) = 0 := ZMod.natCast_self (Fmod N)
  push_cast at h ⊢
  exact eq_neg_of_add_eq_zero_left h

/-- `FInt::mul` multiplies residues (word-level Karatsuba product included), for `N` in the domain `kOk` -/
theorem mul_spec' {N : Nat} (x y : FI) (hN : 0 < N) (hk : kOk KFUEL N = true) (hx : WfN N x) (hy : WfN N y)
    (hnx : Norm x) (hny : Norm y) :
    ∃ r, mul x y = some r ∧ WfN N r ∧ Norm r ∧ vz N r = vz N x * vz N y := by
  unfold mul
  simp only [isReduced_of_norm hnx, isReduced_of_norm hny, Bool.not_true, Bool.or_self, Bool.false_eq_true,
    if_false, hx.1]
  have hz : WfN N (zero N) := ⟨by simp [zero], Wf_zeros N⟩
  have hzn : Norm (zero N) := Or.inl rfl
  have hzv : vz N (zero N) = 0 := by simp [vz, zero, FI.value, val_zeros]
  by_cases h1 : x.top = 1
  · rw [if_pos h1]
    obtain ⟨r, hr, hw, hn, hv⟩ := sub_spec' (zero N) y hN hz hy hzn hny
    refine ⟨r, hr, hw, hn, ?_⟩
    have hv' := modEq_iff_cast.1 hv
    have hxv : vz N x = -1 := by
      rcases hnx with h0 | ⟨_, h0⟩
      · omega
      · unfold vz FI.value; rw [h0, h1, hx.1]; simpa using WN_cast N
    push_cast at hv'
    change vz N r + vz N y = vz N (zero N) at hv'
    rw [hzv] at hv'
    rw [hxv]; linear_combination hv'
  · rw [if_neg h1]
    have hx0 : x.top = 0 := by have := norm_top_le hnx; omega
    by_cases h2 : y.top = 1
    · rw [if_pos h2]
      obtain ⟨r, hr, hw, hn, hv⟩ := sub_spec' (zero N) x hN hz hx hzn hnx
      refine ⟨r, hr, hw, hn, ?_⟩
      have hv' := modEq_iff_cast.1 hv
      have hyv : vz N y = -1 := by
        rcases hny with h0 | ⟨_, h0⟩
        · omega
        · unfold vz FI.value; rw [h0, h2, hy.1]; simpa using WN_cast N
      push_cast at hv'
      change vz N r + vz N x = vz N (zero N) at hv'
      rw [hzv] at hv'
      rw [hyv]; linear_combination hv'
    · rw [if_neg h2]
      have hy0 : y.top = 0 := by have := norm_top_le hny; omega
      obtain ⟨z, ez, lz, wz, vzz⟩ := kmul_spec KFUEL (4 * N) x.ws y.ws (by rw [hx.1]; exact hk)
        (by rw [hx.1, hy.1]) (by rw [hx.1]) hx.2 hy.2
      rw [ez]
      simp only
      rw [hx.1] at lz
      have ha : WfN N ⟨z.take N, 0⟩ := ⟨by simp only [List.length_take, lz]; omega, Wf_take wz _⟩
      have hb : WfN N ⟨z.drop N, 0⟩ := ⟨by simp only [List.length_drop, lz]; omega, Wf_drop wz _⟩
      obtain ⟨r, hr, hw, hn, hv⟩ := sub_spec' _ _ hN ha hb (Or.inl rfl) (Or.inl rfl)
      refine ⟨r, hr, hw, hn, ?_⟩
      have hv' := modEq_iff_cast.1 hv
      have hva : (FI.mk (z.take N) 0).value = val (z.take N) := by
        simp only [FI.value, Nat.mul_zero, Nat.add_zero]
      have hvb : (FI.mk (z.drop N) 0).value = val (z.drop N) := by
        simp only [FI.value, Nat.mul_zero, Nat.add_zero]
      rw [hva, hvb] at hv'
      have hsplit : val x.ws * val y.ws = val (z.take N) + W ^ N * val (z.drop N) := by
        rw [← vzz]; exact val_take_drop z N
      have hxy : vz N x * vz N y = ((val x.ws * val y.ws : Nat) : ZMod (Fmod N)) := by
        unfold vz FI.value; rw [hx0, hy0]; push_cast; ring
      rw [hxy, hsplit]
      have hc : (((val (z.take N) + W ^ N * val (z.drop N) : Nat)) : ZMod (Fmod N)) =
          ((val (z.take N) : Nat) : ZMod (Fmod N)) + ((W ^ N : Nat) : ZMod (Fmod N)) * ((val (z.drop N) : Nat) : ZMod (Fmod N)) := by
        push_cast; ring
      rw [hc, WN_cast, ← hv']
      unfold vz
      push_cast
      ring

/-! ### the roots in `ℤ/F` -/

/-- `ω_k = √2^(256N/2^k)` in `ℤ/F` -/
def rootz (N k : Nat) : ZMod (Fmod N) := (root N k : ZMod (Fmod N))

theorem rootz_sq (N k : Nat) (hdvd : 2 ^ (k + 1) ∣ 256 * N) : rootz N (k + 1) * rootz N (k + 1) = rootz N k := by
  unfold rootz root
  obtain ⟨c, hc⟩ := hdvd
  have hp : 0 < 2 ^ (k + 1) := Nat.pow_pos (by decide)
  have hp' : 0 < 2 ^ k := Nat.pow_pos (by decide)
  have h1 : 256 * N / 2 ^ (k + 1) = c := by rw [hc, Nat.mul_div_cancel_left _ hp]
  have h2 : 256 * N / 2 ^ k = 2 * c := by
    rw [hc, pow_succ, Nat.mul_assoc, Nat.mul_div_cancel_left _ hp']
  rw [h1, h2, Nat.two_mul, pow_add]
  push_cast; ring

theorem rootz_pow (N k : Nat) (hdvd : 2 ^ k ∣ 256 * N) : rootz N k ^ 2 ^ k = 1 := by
  have h : root N k ^ 2 ^ k ≡ 1 [MOD Fmod N] := by
    unfold root
    rw [← pow_mul, Nat.div_mul_cancel hdvd, show 256 * N = 2 * (128 * N) by ring]
    exact (sqrt2_pow_even N (128 * N)).trans (pow_period N)
  have := modEq_iff_cast.1 h
  unfold rootz
  push_cast at this
  exact this

theorem rootz_half (N k : Nat) (hk : 0 < k) (hdvd : 2 ^ k ∣ 256 * N) : rootz N k ^ 2 ^ (k - 1) = -1 := by
  have h : root N k ^ 2 ^ (k - 1) + 1 ≡ 0 [MOD Fmod N] := by
    unfold root
    have he : 256 * N / 2 ^ k * 2 ^ (k - 1) = 2 * (64 * N) := by
      obtain ⟨c, hc⟩ := hdvd
      have hp : 0 < 2 ^ k := Nat.pow_pos (by decide)
      have h2 : 2 ^ k = 2 ^ (k - 1) * 2 := by rw [← pow_succ]; congr 1; omega
      rw [hc, Nat.mul_div_cancel_left _ hp]
      have : 2 * (c * 2 ^ (k - 1)) = 2 * (128 * N) := by
        calc 2 * (c * 2 ^ (k - 1)) = 2 ^ (k - 1) * 2 * c := by ring
          _ = 2 ^ k * c := by rw [← h2]
          _ = 256 * N := hc.symm
          _ = 2 * (128 * N) := by ring
      omega
    rw [← pow_mul, he]
    have h1 := (sqrt2_pow_even N (64 * N)).add_right 1
    refine h1.trans ?_
    have : 2 ^ (64 * N) + 1 = Fmod N := by
      unfold Fmod; rw [show W = 2 ^ 64 by decide, ← pow_mul]
    rw [this]
    exact Nat.modEq_zero_iff_dvd.2 (dvd_refl _)
  have := modEq_iff_cast.1 h
  unfold rootz
  push_cast at this
  exact eq_neg_of_add_eq_zero_left this

/-- the root used by direction `fwd` at level `k`: `ω_k`, or its inverse `ω_k^(2^k - 1)` -/
def rt (N k : Nat) (fwd : Bool) : ZMod (Fmod N) := if fwd then rootz N k else rootz N k ^ (2 ^ k - 1)

theorem rt_sq (N k : Nat) (fwd : Bool) (hdvd : 2 ^ (k + 1) ∣ 256 * N) :
    rt N (k + 1) fwd * rt N (k + 1) fwd = rt N k fwd := by
  unfold rt
  cases fwd
  · simp only [Bool.false_eq_true, if_false]
    rw [← mul_pow, rootz_sq N k hdvd]
    have hp : 0 < 2 ^ k := Nat.pow_pos (by decide)
    have : 2 ^ (k + 1) - 1 = 2 ^ k + (2 ^ k - 1) := by rw [pow_succ]; omega
    rw [this, pow_add, rootz_pow N k (Dvd.dvd.trans (pow_dvd_pow 2 (Nat.le_succ k)) hdvd), one_mul]
  · simp only [if_true]
    exact rootz_sq N k hdvd

theorem inv_unique' {R : Type*} [CommRing R] {a b c : R} (h1 : a * c = 1) (h2 : b * c = 1) : a = b := by
  calc a = a * (b * c) := by rw [h2, mul_one]
    _ = (a * c) * b := by ring
    _ = b := by rw [h1, one_mul]

/-- the twiddle exponent of `fft`: `idx`, resp. `2^k - idx` -/
theorem tw_eq (N k : Nat) (fwd : Bool) (idx : Nat) (hi : idx ≤ 2 ^ k) (hdvd : 2 ^ k ∣ 256 * N) :
    rootz N k ^ (if fwd then idx else 2 ^ k - idx) = rt N k fwd ^ idx := by
  unfold rt
  cases fwd
  · simp only [Bool.false_eq_true, if_false]
    have hp : 0 < 2 ^ k := Nat.pow_pos (by decide)
    apply inv_unique' (c := rootz N k ^ idx)
    · rw [← pow_add, Nat.sub_add_cancel hi, rootz_pow N k hdvd]
    · rw [← mul_pow, ← pow_succ, Nat.sub_add_cancel hp, rootz_pow N k hdvd, one_pow]
  · simp only [if_true]

theorem rt_half (N k : Nat) (fwd : Bool) (hk : 0 < k) (hdvd : 2 ^ k ∣ 256 * N) : rt N k fwd ^ 2 ^ (k - 1) = -1 := by
  unfold rt
  cases fwd
  · simp only [Bool.false_eq_true, if_false]
    rw [← pow_mul, Nat.mul_comm, pow_mul, rootz_half N k hk hdvd]
    have hp : 0 < 2 ^ k := Nat.pow_pos (by decide)
    have : Odd (2 ^ k - 1) := by
      have : 2 ^ k = 2 * 2 ^ (k - 1) := by rw [← pow_succ']; congr 1; omega
      exact ⟨2 ^ (k - 1) - 1, by have := Nat.pow_pos (n := k - 1) (show 0 < 2 by decide); omega⟩
    exact this.neg_one_pow
  · simp only [if_true]
    exact rootz_half N k hk hdvd

theorem rt_inv (N k : Nat) (hdvd : 2 ^ k ∣ 256 * N) : rt N k true * rt N k false = 1 := by
  unfold rt
  simp only [if_true, Bool.false_eq_true, if_false]
  have hp : 0 < 2 ^ k := Nat.pow_pos (by decide)
  rw [← pow_succ', Nat.sub_add_cancel hp, rootz_pow N k hdvd]


/-! ### the recursive transform -/

/-- every entry is an `N`-word `FInt` in normal form -/
def Good (N : Nat) (xs : List FI) : Prop := ∀ x ∈ xs, WfN N x ∧ Norm x

theorem getD_app_l {α} (a b : List α) (i : Nat) (d : α) (h : i < a.length) : (a ++ b).getD i d = a.getD i d := by
  simp [List.getD_eq_getElem?_getD, List.getElem?_append_left h]

theorem getD_app_r {α} (a b : List α) (i : Nat) (d : α) (h : a.length ≤ i) :
    (a ++ b).getD i d = b.getD (i - a.length) d := by
  simp [List.getD_eq_getElem?_getD, List.getElem?_append_right h]

theorem evens_getD {α} (d : α) : ∀ (xs : List α) (i : Nat), (evens xs).getD i d = xs.getD (2 * i) d
  | [], i => by simp [evens]
  | [a], i => by cases i <;> simp [evens]
  | a :: b :: l, i => by
    cases i with
    | zero => simp [evens]
    | succ i =>
      have := evens_getD d l i
      simp only [evens, List.getD_cons_succ, Nat.mul_succ] at this ⊢
      exact this

theorem odds_getD {α} (d : α) : ∀ (xs : List α) (i : Nat), (odds xs).getD i d = xs.getD (2 * i + 1) d
  | [], i => by simp [odds]
  | [a], i => by simp [odds]
  | a :: b :: l, i => by
    cases i with
    | zero => simp [odds]
    | succ i =>
      have := odds_getD d l i
      simp only [odds, List.getD_cons_succ, Nat.mul_succ] at this ⊢
      exact this

theorem evens_length {α} : ∀ (xs : List α) (m : Nat), xs.length = 2 * m → (evens xs).length = m
  | [], m, h => by simp at h; simp [evens]; omega
  | [a], m, h => by simp at h; omega
  | a :: b :: l, m, h => by
    cases m with
    | zero => simp at h
    | succ m =>
      simp only [evens, List.length_cons] at h ⊢
      rw [evens_length l m (by omega)]

theorem odds_length {α} : ∀ (xs : List α) (m : Nat), xs.length = 2 * m → (odds xs).length = m
  | [], m, h => by simp at h; simp [odds]; omega
  | [a], m, h => by simp at h; omega
  | a :: b :: l, m, h => by
    cases m with
    | zero => simp at h
    | succ m =>
      simp only [odds, List.length_cons] at h ⊢
      rw [odds_length l m (by omega)]

theorem evens_mem {α} : ∀ (xs : List α) (x : α), x ∈ evens xs → x ∈ xs
  | [], x, h => by simp [evens] at h
  | [a], x, h => by simpa [evens] using h
  | a :: b :: l, x, h => by
    simp only [evens, List.mem_cons] at h ⊢
    rcases h with h | h
    · exact Or.inl h
    · exact Or.inr (Or.inr (evens_mem l x h))

theorem odds_mem {α} : ∀ (xs : List α) (x : α), x ∈ odds xs → x ∈ xs
  | [], x, h => by simp [odds] at h
  | [a], x, h => by simp [odds] at h
  | a :: b :: l, x, h => by
    simp only [odds, List.mem_cons] at h ⊢
    rcases h with h | h
    · exact Or.inr (Or.inl h)
    · exact Or.inr (Or.inr (odds_mem l x h))

theorem twiddle_z {N : Nat} (x : FI) (i k : Nat) (hN : 0 < N) (hx : WfN N x) (hn : Norm x)
    (hk : k < 32) (hi : 128 * i * N < 2 ^ 32) (hdiv : 2 ^ k ∣ 128 * N ∨ 2 ^ k = 256 * N) :
    ∃ r, twiddle x i k = some r ∧ WfN N r ∧ Norm r ∧ vz N r = vz N x * rootz N k ^ i := by
  obtain ⟨r, h1, h2, h3, h4⟩ := twiddle_spec' x i k hN hx hn hk hi hdiv
  refine ⟨r, h1, h2, h3, ?_⟩
  have := modEq_iff_cast.1 h4
  unfold vz rootz
  push_cast at this ⊢
  exact this

theorem butterfly_z {N : Nat} (x y : FI) (hN : 0 < N) (hx : WfN N x) (hy : WfN N y)
    (hnx : Norm x) (hny : Norm y) :
    ∃ a b, butterfly x y = some (a, b) ∧ WfN N a ∧ WfN N b ∧ Norm a ∧ Norm b ∧
      vz N a = vz N x + vz N y ∧ vz N b = vz N x - vz N y := by
  obtain ⟨a, b, h1, h2, h3, h4, h5, h6, h7⟩ := butterfly_spec' x y hN hx hy hnx hny
  refine ⟨a, b, h1, h2, h3, h4, h5, ?_, ?_⟩
  · have := modEq_iff_cast.1 h6
    unfold vz; push_cast at this ⊢; exact this
  · have := modEq_iff_cast.1 h7
    unfold vz; push_cast at this ⊢; exact eq_sub_of_add_eq this

theorem dvd256 {N k : Nat} (hdiv : 2 ^ k ∣ 128 * N ∨ 2 ^ k = 256 * N) : 2 ^ k ∣ 256 * N := by
  rcases hdiv with h | h
  · exact Dvd.dvd.trans h ⟨2, by ring⟩
  · rw [h]

theorem combine_spec {N : Nat} (hN : 0 < N) (k : Nat) (fwd : Bool) (hk : k < 32) (hb : 128 * 2 ^ k * N < 2 ^ 32)
    (hdiv : 2 ^ k ∣ 128 * N ∨ 2 ^ k = 256 * N) (d : FI) :
    ∀ (as bs : List FI) (idx : Nat), as.length = bs.length → idx + as.length ≤ 2 ^ k → Good N as → Good N bs →
    ∃ us vs, combine k fwd idx as bs = some (us, vs) ∧ us.length = as.length ∧ vs.length = as.length ∧
      Good N us ∧ Good N vs ∧
      ∀ t, t < as.length →
        vz N (us.getD t d) = vz N (as.getD t d) + rt N k fwd ^ (idx + t) * vz N (bs.getD t d) ∧
        vz N (vs.getD t d) = vz N (as.getD t d) - rt N k fwd ^ (idx + t) * vz N (bs.getD t d) := by
  intro as
  induction as with
  | nil =>
    intro bs idx _ _ _ _
    refine ⟨[], [], by simp [combine], rfl, rfl, ?_, ?_, ?_⟩
    · intro x hx; cases hx
    · intro x hx; cases hx
    · intro t ht; simp at ht
  | cons a as ih =>
    intro bs idx hlen hidx hga hgb
    cases bs with
    | nil => simp at hlen
    | cons b bs =>
      simp only [List.length_cons] at hlen hidx
      have hidx' : idx ≤ 2 ^ k := by omega
      have hei : (if fwd then idx else 2 ^ k - idx) ≤ 2 ^ k := by split_ifs <;> omega
      obtain ⟨hwa, hna⟩ := hga a (List.mem_cons_self)
      obtain ⟨hwb, hnb⟩ := hgb b (List.mem_cons_self)
      obtain ⟨b', e1, hwb', hnb', hvb'⟩ := twiddle_z b (if fwd then idx else 2 ^ k - idx) k hN hwb hnb hk
        (by
          have : 128 * (if fwd then idx else 2 ^ k - idx) * N ≤ 128 * 2 ^ k * N :=
            Nat.mul_le_mul_right _ (Nat.mul_le_mul_left _ hei)
          omega) hdiv
      rw [tw_eq N k fwd idx hidx' (dvd256 hdiv)] at hvb'
      obtain ⟨u, v, e2, hwu, hwv, hnu, hnv, hvu, hvv⟩ := butterfly_z a b' hN hwa hwb' hna hnb'
      obtain ⟨us, vs, e3, lu, lv, gu, gv, hrec⟩ := ih bs (idx + 1) (by omega) (by omega)
        (fun x hx => hga x (List.mem_cons_of_mem _ hx)) (fun x hx => hgb x (List.mem_cons_of_mem _ hx))
      refine ⟨u :: us, v :: vs, ?_, by simp [lu], by simp [lv], ?_, ?_, ?_⟩
      · simp only [combine, e1, e2, e3]
      · intro x hx
        rcases List.mem_cons.1 hx with rfl | hx
        · exact ⟨hwu, hnu⟩
        · exact gu x hx
      · intro x hx
        rcases List.mem_cons.1 hx with rfl | hx
        · exact ⟨hwv, hnv⟩
        · exact gv x hx
      · intro t ht
        cases t with
        | zero =>
          simp only [List.getD_cons_zero, Nat.add_zero]
          rw [hvu, hvv, hvb']
          constructor <;> ring
        | succ t =>
          simp only [List.getD_cons_succ]
          have := hrec t (by simp at ht; omega)
          rw [show idx + (t + 1) = idx + 1 + t by omega]
          exact this


open Ymq.Dft in
/-- **the word-level `fft` computes the radix-2 recursion `fftRec`** with the root `ω_k` (forward) or
`ω_k⁻¹` (inverse, result divided by `2^(depth+k)`), without reaching a panic site -/
theorem fft_spec {N : Nat} (hN : 0 < N) (d : FI) (fwd : Bool) :
    ∀ (k : Nat) (xs : List FI) (depth : Nat), xs.length = 2 ^ k → Good N xs → k < 32 →
      128 * 2 ^ k * N < 2 ^ 32 → (2 ^ k ∣ 128 * N ∨ 2 ^ k = 256 * N) → depth + k ≤ 128 * N →
    ∃ ys, fft k xs depth fwd = some ys ∧ ys.length = 2 ^ k ∧ Good N ys ∧
      ∀ j, j < 2 ^ k →
        vz N (ys.getD j d) * (if fwd then 1 else 2 ^ (depth + k)) =
          fftRec k (rt N k fwd) (fun i => vz N (xs.getD i d)) j := by
  intro k
  induction k with
  | zero =>
    intro xs depth hlen hg _ _ _ hdep
    match xs, hlen with
    | [x], _ =>
      obtain ⟨hw, hn⟩ := hg x (List.mem_cons_self)
      cases fwd with
      | true =>
        refine ⟨[x], by simp [fft], rfl, hg, ?_⟩
        intro j hj
        have : j = 0 := by simpa using hj
        subst this
        simp [fftRec]
      | false =>
        obtain ⟨r, e, hwr, hnr, hvr⟩ := shr_spec' x depth hN hw hn (by omega)
        refine ⟨[r], by simp [fft, e], rfl, ?_, ?_⟩
        · intro y hy
          rw [List.mem_singleton.1 hy]; exact ⟨hwr, hnr⟩
        · intro j hj
          have : j = 0 := by simpa using hj
          subst this
          have := modEq_iff_cast.1 hvr
          simp only [fftRec, List.getD_cons_zero, Bool.false_eq_true, if_false, Nat.add_zero]
          unfold vz; push_cast at this ⊢; exact this
  | succ k ih =>
    intro xs depth hlen hg hk hb hdiv hdep
    by_cases hk0 : k = 0
    · subst hk0
      match xs, hlen with
      | [x0, x1], _ =>
        obtain ⟨hw0, hn0⟩ := hg x0 (List.mem_cons_self)
        obtain ⟨hw1, hn1⟩ := hg x1 (List.mem_cons_of_mem _ List.mem_cons_self)
        have := norm_top_le hn0; have := norm_top_le hn1; have := W_gt
        obtain ⟨a, ea, hwa, hna, hva⟩ := addAssign_spec' x0 x1 hN hw0 hw1 (by omega)
        obtain ⟨b, eb, hwb, hnb, hvb⟩ := subAssign_spec' x0 x1 hN hw0 hw1 hn1 (by omega)
        have hva' : vz N a = vz N x0 + vz N x1 := by
          have := modEq_iff_cast.1 hva; unfold vz; push_cast at this ⊢; exact this
        have hvb' : vz N b = vz N x0 - vz N x1 := by
          have := modEq_iff_cast.1 hvb; unfold vz; push_cast at this ⊢; exact eq_sub_of_add_eq this
        cases fwd with
        | true =>
          refine ⟨[a, b], by simp [fft, ea, eb], rfl, ?_, ?_⟩
          · intro y hy
            simp only [List.mem_cons, List.not_mem_nil, or_false] at hy
            rcases hy with rfl | rfl
            · exact ⟨hwa, hna⟩
            · exact ⟨hwb, hnb⟩
          · intro j hj
            have : j = 0 ∨ j = 1 := by simp at hj; omega
            rcases this with rfl | rfl
            · simp [fftRec, hva']
            · simp [fftRec, hvb']
        | false =>
          obtain ⟨a', ea', hwa', hna', hva''⟩ := shr_spec' a (depth + 1) hN hwa hna (by omega)
          obtain ⟨b', eb', hwb', hnb', hvb''⟩ := shr_spec' b (depth + 1) hN hwb hnb (by omega)
          refine ⟨[a', b'], by simp [fft, ea, eb, ea', eb'], rfl, ?_, ?_⟩
          · intro y hy
            simp only [List.mem_cons, List.not_mem_nil, or_false] at hy
            rcases hy with rfl | rfl
            · exact ⟨hwa', hna'⟩
            · exact ⟨hwb', hnb'⟩
          · intro j hj
            have ha2 : vz N a' * 2 ^ (depth + 1) = vz N a := by
              have := modEq_iff_cast.1 hva''; unfold vz; push_cast at this ⊢; exact this
            have hb2 : vz N b' * 2 ^ (depth + 1) = vz N b := by
              have := modEq_iff_cast.1 hvb''; unfold vz; push_cast at this ⊢; exact this
            have : j = 0 ∨ j = 1 := by simp at hj; omega
            rcases this with rfl | rfl
            · simp [fftRec, ha2, hva']
            · simp [fftRec, hb2, hvb']
    · have hp : 0 < 2 ^ k := Nat.pow_pos (by decide)
      have hlen2 : xs.length = 2 * 2 ^ k := by rw [hlen, pow_succ]; ring
      have hdvd := dvd256 hdiv
      have hdiv' : 2 ^ k ∣ 128 * N ∨ 2 ^ k = 256 * N := by
        left
        rcases hdiv with h | h
        · exact Dvd.dvd.trans (pow_dvd_pow 2 (Nat.le_succ k)) h
        · exact ⟨1, by rw [pow_succ] at h; omega⟩
      have hb' : 128 * 2 ^ k * N < 2 ^ 32 := by
        have : 128 * 2 ^ k * N ≤ 128 * 2 ^ (k + 1) * N :=
          Nat.mul_le_mul_right _ (Nat.mul_le_mul_left _ (Nat.pow_le_pow_right (by decide) (Nat.le_succ k)))
        omega
      obtain ⟨e, ee, le, ge, he⟩ := ih (evens xs) (depth + 1) (evens_length xs _ hlen2)
        (fun x hx => hg x (evens_mem xs x hx)) (by omega) hb' hdiv' (by omega)
      obtain ⟨o, eo, lo, go, ho⟩ := ih (odds xs) (depth + 1) (odds_length xs _ hlen2)
        (fun x hx => hg x (odds_mem xs x hx)) (by omega) hb' hdiv' (by omega)
      obtain ⟨us, vs, ec, lu, lv, gu, gv, hc⟩ := combine_spec hN (k + 1) fwd hk hb hdiv d e o 0
        (by rw [le, lo]) (by rw [le, pow_succ]; omega) ge go
      refine ⟨us ++ vs, ?_, by rw [List.length_append, lu, lv, le, pow_succ]; ring, ?_, ?_⟩
      · simp only [fft, if_neg hk0, hlen, ne_eq, not_true_eq_false, if_false, ee, eo, ec]
      · intro y hy
        rcases List.mem_append.1 hy with h | h
        · exact gu y h
        · exact gv y h
      · intro j hj
        have hsc : (if fwd then (1 : ZMod (Fmod N)) else 2 ^ (depth + (k + 1))) =
            (if fwd then 1 else 2 ^ (depth + 1 + k)) := by
          rw [show depth + (k + 1) = depth + 1 + k by omega]
        rw [hsc]
        simp only [fftRec]
        rw [rt_sq N k fwd hdvd]
        simp only [evens_getD, odds_getD] at he ho
        by_cases hjk : j < 2 ^ k
        · rw [if_pos hjk, ← he j hjk, ← ho j hjk]
          rw [getD_app_l _ _ _ _ (by rw [lu, le]; exact hjk)]
          obtain ⟨h1, _⟩ := hc j (by rw [le]; exact hjk)
          rw [h1, Nat.zero_add]; ring
        · rw [if_neg hjk]
          have hj2 : j - 2 ^ k < 2 ^ k := by rw [pow_succ] at hj; omega
          rw [← he _ hj2, ← ho _ hj2]
          rw [getD_app_r _ _ _ _ (by rw [lu, le]; omega), lu, le]
          obtain ⟨_, h2⟩ := hc (j - 2 ^ k) (by rw [le]; exact hj2)
          rw [h2, Nat.zero_add]; ring


theorem log2Exact_pow : ∀ (f k : Nat), k < f → log2Exact f (2 ^ k) = some k := by
  intro f
  induction f with
  | zero => intro k hk; omega
  | succ f ih =>
    intro k hk
    unfold log2Exact
    cases k with
    | zero => simp
    | succ k =>
      have hp : 0 < 2 ^ k := Nat.pow_pos (by decide)
      have h1 : ¬ (2 ^ (k + 1) = 1) := by rw [pow_succ]; omega
      have h2 : ¬ (2 ^ (k + 1) % 2 = 1 ∨ 2 ^ (k + 1) = 0) := by rw [pow_succ]; omega
      rw [if_neg h1, if_neg h2, show 2 ^ (k + 1) / 2 = 2 ^ k by rw [pow_succ]; omega, ih k (by omega)]
      rfl

theorem mulAll_spec {N : Nat} (hN : 0 < N) (hk : kOk KFUEL N = true) (d : FI) :
    ∀ (as bs : List FI), as.length = bs.length → Good N as → Good N bs →
    ∃ cs, mulAll as bs = some cs ∧ cs.length = as.length ∧ Good N cs ∧
      ∀ t, t < as.length → vz N (cs.getD t d) = vz N (as.getD t d) * vz N (bs.getD t d) := by
  intro as
  induction as with
  | nil =>
    intro bs _ _ _
    exact ⟨[], by cases bs <;> simp [mulAll], rfl, (fun x hx => by cases hx), (fun t ht => by simp at ht)⟩
  | cons a as ih =>
    intro bs hlen hga hgb
    cases bs with
    | nil => simp at hlen
    | cons b bs =>
      obtain ⟨hwa, hna⟩ := hga a (List.mem_cons_self)
      obtain ⟨hwb, hnb⟩ := hgb b (List.mem_cons_self)
      obtain ⟨c, e1, hwc, hnc, hvc⟩ := mul_spec' a b hN hk hwa hwb hna hnb
      obtain ⟨cs, e2, lc, gc, hrec⟩ := ih bs (by simpa using hlen)
        (fun x hx => hga x (List.mem_cons_of_mem _ hx)) (fun x hx => hgb x (List.mem_cons_of_mem _ hx))
      refine ⟨c :: cs, by simp only [mulAll, e1, e2], by simp [lc], ?_, ?_⟩
      · intro x hx
        rcases List.mem_cons.1 hx with rfl | hx
        · exact ⟨hwc, hnc⟩
        · exact gc x hx
      · intro t ht
        cases t with
        | zero => simpa using hvc
        | succ t => simpa using hrec t (by simp at ht; omega)

theorem two_pow_period (N : Nat) : (2 : ZMod (Fmod N)) ^ (128 * N) = 1 := by
  have := modEq_iff_cast.1 (pow_period N)
  push_cast at this
  exact this

open Ymq.Dft in
/-- **`mulfft` is the cyclic convolution modulo `F`** (word-level model, around the exact products
of `FInt::mul`): for `2^k` entries in normal form, `N` in the Karatsuba domain, `2^k ∣ 128N` or `2^k = 256N`, no panic site is
reached and entry `m` of the result is the residue of `Σ_{a+b ≡ m (mod 2^k)} p1[a]·p2[b]`. -/
theorem mulfft_spec {N : Nat} (hN : 0 < N) (hkk : kOk KFUEL N = true) (d : FI) (k : Nat) (p1 p2 : List FI)
    (h1 : p1.length = 2 ^ k) (h2 : p2.length = 2 ^ k) (g1 : Good N p1) (g2 : Good N p2)
    (hk : k < 32) (hb : 128 * 2 ^ k * N < 2 ^ 32) (hdiv : 2 ^ k ∣ 128 * N ∨ 2 ^ k = 256 * N) :
    ∃ out, mulfft N p1 p2 = some out ∧ out.length = 2 ^ k ∧ Good N out ∧
      ∀ m, m < 2 ^ k → vz N (out.getD m d) =
        cyc (2 ^ k) (fun i => vz N (p1.getD i d)) (fun i => vz N (p2.getD i d)) m := by
  have hdvd := dvd256 hdiv
  have hle : 2 ^ k ≤ 256 * N := Nat.le_of_dvd (by omega) hdvd
  have hkN : k ≤ 128 * N := by omega
  obtain ⟨f1, e1, l1, gf1, hf1⟩ := fft_spec hN d true k p1 0 h1 g1 hk hb hdiv (by omega)
  obtain ⟨f2, e2, l2, gf2, hf2⟩ := fft_spec hN d true k p2 0 h2 g2 hk hb hdiv (by omega)
  obtain ⟨f, e3, l3, gf, hf⟩ := mulAll_spec hN hkk d f1 f2 (by rw [l1, l2]) gf1 gf2
  obtain ⟨out, e4, l4, go, ho⟩ := fft_spec hN d false k f 0 (by rw [l3, l1]) gf hk hb hdiv (by omega)
  refine ⟨out, ?_, l4, go, ?_⟩
  · unfold mulfft
    simp only [h1, h2, ne_eq, not_true_eq_false, if_false, if_neg (show ¬ 2 ^ k > 256 * N by omega),
      log2Exact_pow 64 k (by omega), e1, e2, e3, e4]
  · intro m hm
    have hω : k = 0 ∨ rt N k true ^ 2 ^ (k - 1) = -1 := by
      rcases Nat.eq_zero_or_pos k with h | h
      · exact Or.inl h
      · exact Or.inr (rt_half N k true h hdvd)
    have hω' : k = 0 ∨ rt N k false ^ 2 ^ (k - 1) = -1 := by
      rcases Nat.eq_zero_or_pos k with h | h
      · exact Or.inl h
      · exact Or.inr (rt_half N k false h hdvd)
    have h0 : k = 0 → rt N k true = 1 := by
      intro hk0
      subst hk0
      have := rootz_pow N 0 hdvd
      simpa [rt] using this
    have hout := ho m hm
    simp only [Bool.false_eq_true, if_false, Nat.zero_add] at hout
    simp only [if_true, mul_one] at hf1 hf2
    -- the inputs of the inverse transform are the pointwise products of the forward transforms
    have hcong : fftRec k (rt N k false) (fun i => vz N (f.getD i d)) m =
        fftRec k (rt N k false) (fun j => fftRec k (rt N k true) (fun i => vz N (p1.getD i d)) j *
          fftRec k (rt N k true) (fun i => vz N (p2.getD i d)) j) m := by
      rw [fftRec_eq_dft k _ hω' _ m hm, fftRec_eq_dft k _ hω' _ m hm]
      apply dft_congr
      intro i hi
      rw [hf i (by rw [l1]; exact hi), hf1 i hi, hf2 i hi]
    rw [hcong, fft_mul_eq_cyc k _ _ hω h0 (rt_inv N k hdvd) _ _ m hm] at hout
    -- cancel 2^k
    have hcancel : (2 : ZMod (Fmod N)) ^ (128 * N - k) * 2 ^ k = 1 := by
      rw [← pow_add, Nat.sub_add_cancel hkN, two_pow_period]
    calc vz N (out.getD m d) = (2 ^ (128 * N - k) * 2 ^ k) * vz N (out.getD m d) := by rw [hcancel, one_mul]
      _ = 2 ^ (128 * N - k) * (vz N (out.getD m d) * 2 ^ k) := by ring
      _ = 2 ^ (128 * N - k) * (2 ^ k * cyc (2 ^ k) _ _ m) := by rw [hout]
      _ = (2 ^ (128 * N - k) * 2 ^ k) * cyc (2 ^ k) _ _ m := by ring
      _ = _ := by rw [hcancel, one_mul]

end Ymq.FInt
