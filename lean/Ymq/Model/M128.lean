/-
Model of the private 128-bit Montgomery type `M128` (src/ecm128.rs:262-362).

`u128` values are `Nat`s; wrapping operations reduce modulo `W2 = 2^128` explicitly, checked
operations (`+`, `-`, `+=` on u128 in the checked profile) return `none` when they leave
`[0, 2^128)`. When the modulus fits in 64 bits the code delegates to the 64-bit routines
(`mg_2adic_inv`, `mg_mul`: Ymq.Mg64) and the Montgomery multiplier is 2^64 instead of 2^128.
-/
import Ymq.Model.Mg64

namespace Ymq.M128
open Ymq.Mg64 (W)

/-- 2^128 -/
def W2 : Nat := 340282366920938463463374607431768211456

/-- `u128::trailing_zeros` -/
def tz128 (n : Nat) : Nat := if n = 0 then 128 else Ymq.Mg64.tzAux 128 n

/-- the `loop` of `M128::inv_2adic` (same iteration as `mg_2adic_inv`, on 128 bits; the update is
`x = x.wrapping_add(1 << rem.trailing_zeros())` since /repo commit "fix: M128::inv_2adic ...") -/
def invLoop : Nat → Nat → Nat → Option Nat
  | 0, _, _ => none
  | f + 1, n, x =>
    let nx := n * x % W2                  -- n.wrapping_mul(x)
    if nx = 0 then none                   -- `- 1` underflows
    else
      let rem := nx - 1
      if rem = 0 then some x
      else invLoop f n ((x + 2 ^ tz128 rem) % W2)

/-- `M128::inv_2adic(n)` -/
def inv2adic (n : Nat) : Option Nat :=
  if n % 2 ≠ 1 then none                  -- debug_assert!(n % 2 == 1)
  else
    match Ymq.Mg64.mg2adicInv (n % W) with   -- mg_2adic_inv(n as u64)
    | none => none
    | some x0 =>
      if n / W = 0 then some x0           -- n >> 64 == 0
      else
        match invLoop 130 n x0 with
        | none => none
        | some x =>
          if n * x % W2 ≠ 1 then none     -- assert!
          else if x = 0 then none         -- 1 + !x overflows
          else some (W2 - x)

/-- `M128::add(n, x, y)` -/
def add (n x y : Nat) : Option Nat :=
  if n < y then none                      -- n - y underflows
  else
    let my := n - y
    if x ≥ my then some (x - my)
    else if x + y ≥ W2 then none else some (x + y)

/-- `M128::sub(n, x, y)` -/
def sub (n x y : Nat) : Option Nat :=
  if x ≥ y then some (x - y)
  else if n < y then none
  else if x + (n - y) ≥ W2 then none else some (x + (n - y))

/-- the nested `mul256(x, y)`: (low, high) 128-bit halves of the 256-bit product -/
def mul256 (x y : Nat) : Option (Nat × Nat) :=
  let x0 := x % W; let x1 := x / W % W
  let y0 := y % W; let y1 := y / W % W
  let xy0 := x0 * y0
  let xy1 := x1 * y1
  let mid0 := x0 * y1 + x1 * y0           -- overflowing_add
  let mid := mid0 % W2
  let c := mid0 / W2
  let xy1 := if c ≠ 0 then xy1 + W else xy1          -- xy1 += 1 << 64
  if xy1 ≥ W2 then none
  else
    let s := xy0 + mid * W % W2                      -- xy0.overflowing_add(mid.wrapping_shl(64))
    let xy0 := s % W2
    let c := s / W2
    let xy1 := xy1 + mid / W                          -- xy1 += mid >> 64
    if xy1 ≥ W2 then none
    else
      let xy1 := if c ≠ 0 then xy1 + 1 else xy1
      if xy1 ≥ W2 then none else some (xy0, xy1)

/-- `M128::mul(n, ninv, x, y)` -/
def mul (n ninv x y : Nat) : Option Nat :=
  if n / W = 0 then
    Ymq.Mg64.mgMul (n % W) (ninv % W) (x % W) (y % W)   -- mg_mul(n as u64, ninv as u64, x as u64, y as u64)
  else
    match mul256 x y with
    | none => none
    | some (xy0, xy1) =>
      if xy0 = 0 then some xy1
      else
        let m := xy0 * ninv % W2                      -- xy0.wrapping_mul(ninv)
        match mul256 m n with
        | none => none
        | some (_, mn1) =>
          if n < mn1 + 1 then none                    -- n - mn1 - 1 underflows
          else
            let d := n - mn1 - 1
            if xy1 ≥ d then some (xy1 - d)
            else if xy1 + mn1 + 1 ≥ W2 then none else some (xy1 + mn1 + 1)

/-- `for _ in 0..7 { r2 = mul(r2, r2) }` -/
def sqLoop (n ninv : Nat) : Nat → Nat → Option Nat
  | 0, r => some r
  | t + 1, r =>
    match mul n ninv r r with
    | none => none
    | some r' => sqLoop n ninv t r'

/-- `M128::r_r2(n, ninv)` : (R mod n, R² mod n) with R = 2^64 if n < 2^64 else 2^128 -/
def rR2 (n ninv : Nat) : Option (Nat × Nat) :=
  if n = 0 then none                      -- `% n`: division by zero
  else
    let r := (W2 - n) % W2 % n            -- 0_u128.wrapping_sub(n) % n
    if n / W = 0 then some (W % n, r)
    else
      match add n r r with
      | none => none
      | some two =>
        match sqLoop n ninv 7 two with
        | none => none
        | some r2 => some (r, r2)

end Ymq.M128
