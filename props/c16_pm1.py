"""C16, Pollard P-1 end to end: requests that compare the WHOLE value returned by pm1_impl / pm1_quick / pm1_only (factor list in
the order returned, cofactor) with the whole-function model lean/Ymq/Model/Pm1Impl.lean (K), and judge it independently (O).

Request lines (harness/src/ops_pm1impl.rs, lean/Ymq/Drv/Pm1Impl.lean); everything after the bounds is an annotation for the oracle:
  pm1_impl n b1 b2 one p l        n = p*q, ord_p(2) = s*l, s | stage-1 exponent of b1, l prime > b1; q out of reach
  pm1_impl n b1 b2 two p1 p2 l    p1 - 1 | stage-1 exponent (found in stage 1), p2 as `p` above (stage 2): both must come back
  pm1_impl n b1 b2 blocks p1 p2   both found in stage 1, by gcd checks of different sieve blocks (b1 > 65536): order [p1, p2]
  pm1_impl n b1 b2 sq p           p*p | n, p - 1 | stage-1 exponent
  pm1_impl n b1 b2 same l         every prime factor of n misses the same prime l
  pm1_impl n b1 b2 sep p1 p2 l1 l2  n = p1*p2, both out of reach of stage 1, polynomial stage 2; l1 = (q-1)*d1 - 1 is the grid value that the
                                  LAST baby step r = d1 + 1 produces at the multiplier q (and r = 1 at q - 1), l2 = (q-1)*d1 - r2 is produced at q - 1
                                  only: p1 enters the running product one evaluation point before p2, so gcd_factors must return both (family `sep/`)
  pm1_impl n b1 b2 free           no promise (small orders of 2: the `g == 1` exit; strong n: nothing found)
  pm1_quick_full n one p l / pm1_only_full n one p l / .. free
  pm1_polyeval n b2 g             pm1_stage2_polyeval alone on the residue g (hook vh_pm1_stage2_polyeval)
The helper module `H` is props/c16.py (number theory, constructed primes, coverage as the oracle reads it from the loops).
"""
import math
from vlib.pipeline import Case

OPS = ("pm1_impl", "pm1_quick_full", "pm1_only_full", "pm1_polyeval")
BLOCK = 65536


def _strong(H, rng, bits):
    return H.big_q(rng, bits)


def _smooth_prime(H, rng, b1, top, tries=4000):
    """p prime, p - 1 = 2 * top * s with s | stage-1 exponent of min(b1, 500), `top` (a prime <= b1) dividing ord_p(2)"""
    for s_ in range(1, tries):
        c = 2 * top * s_ + 1
        if H.is_prime(c) and H.divides_stage1(2 * s_, min(b1, 500)) and s_ % top != 0 and pow(2, (c - 1) // top, c) != 1:
            return c
    return None


def _stage1_exp(H, b1):
    E = 1
    for r in H.small_primes(b1):
        c = r
        while c * r < b1:
            c *= r
        E *= c
    return E


def _case(req, tag):
    return Case(req, tag=tag, timeout=60.0)


def walk_ls(H, rng, b1, b2):
    first = H.next_prime(b1)
    last_in = H.prev_prime(b2 + 1)
    over = H.next_prime(max(b2, first))
    out = [("stop-prime", first), ("second", H.next_prime(first)), ("last<=b2", last_in), ("first>b2", over),
           ("outside", H.next_prime(over)), ("random", H.prev_prime(rng.randrange(first + 2, max(first + 4, b2))))]
    if b2 > BLOCK:
        out += [("block0-last", H.prev_prime(BLOCK)), ("block1-first", H.next_prime(BLOCK))]
    return out


def poly_ls(H, rng, b1, b2):
    _, d1, d2 = H.nearest("pm1", b2)
    eff = H.pm1_eff(d1, d2)
    l_hi = H.prev_prime(eff + 1)
    while math.gcd(l_hi, d1) != 1:
        l_hi = H.prev_prime(l_hi)
    first = H.next_prime(b1)
    while math.gcd(first, d1) != 1:
        first = H.next_prime(first)
    out = [("first>b1", first), ("last-covered", l_hi), ("random", H.prev_prime(rng.randrange(first + 2, eff)))]
    w = H.next_prime((d2 + 2) * d1)
    out.append(("outside", w))
    return out


def sep_ls(H, b2, rows=1):
    """Deterministic: (q, l1, l2) with l1 = (q-1)*d1 - 1 and l2 = (q-1)*d1 - r2 both prime, 3 <= r2 <= d1 - 1 a baby value, q as large
    as possible (q = qmax is the top giant multiplier: l1 is then the value of the last baby step at the first evaluation point read).
    Both exceed eff/2, so no multiple of them is on the grid: l1 is met at q (r = d1 + 1) and q - 1 (r = 1), l2 at q - 1 only."""
    _, d1, d2 = H.nearest("pm1", b2)
    qmax = H.pm1_qmax(d1, d2)
    out = []
    for q in range(qmax, qmax // 2 + 2, -1):
        l1 = (q - 1) * d1 - 1
        if not H.is_prime(l1):
            continue
        for r2 in range(3, d1, 2):
            l2 = (q - 1) * d1 - r2
            if math.gcd(r2, d1) == 1 and H.is_prime(l2):
                out.append((q, l1, l2))
                break
        if len(out) >= rows:
            break
    return out


def hit_qs(H, d1, d2, l):
    """the multipliers q in [0, qmax] at which a multiple of l is a value |q*d1 - r|, r odd in [1, d1 + 1] coprime to d1
    (read off the loops of pm1_stage2_polyeval, like H.pm1_is_grid, but keeping the evaluation point)"""
    qmax = H.pm1_qmax(d1, d2)
    qs = set()
    k = 1
    while k * l <= (qmax + 1) * d1:
        m = k * l
        for r in ((-m) % d1, (-m) % d1 + d1):
            if 1 <= r <= d1 + 1 and math.gcd(r, d1) == 1 and (m + r) // d1 <= qmax:
                qs.add((m + r) // d1)
        if 1 <= m <= d1 + 1 and math.gcd(m, d1) == 1 and qmax >= 0:
            qs.add(0)
        k += 1
    return qs


def cases(tier, rng, H, extended=False):
    quick = tier == "quick" and not extended
    q96 = lambda: _strong(H, rng, 96)
    # --- the last baby step r = d1 + 1: the prime l1 = (q-1)*d1 - 1 enters the running product at the multiplier q through r = d1 + 1 only,
    #     one evaluation point before l2 = (q-1)*d1 - r2; n = p1*p2 is completely factored exactly because of that baby step.
    #     Top multiplier q = qmax downwards, for every polynomial row within reach (the row of 1.9e6 has l1 prime at q = qmax itself).
    sep_runs = [(600, 100000), (1000, 200000), (2000, 450000), (3000, 1900000)] + ([] if quick else [(2000, 980000), (3000, 4000000)])
    for (b1, b2) in sep_runs:
        for (q, l1, l2) in sep_ls(H, b2, rows=1 if quick else 3):
            p1, p2 = H.make_pm1_prime(rng, b1, l1), H.make_pm1_prime(rng, b1, l2)
            if not (p1 and p2) or p1 == p2:
                continue
            n = p1 * p2
            yield _case(f"pm1_impl {n} {b1} {b2} sep {p1} {p2} {l1} {l2}", "sep/last-baby")
            yield _case(f"pm1_impl {p1 * q96()} {b1} {b2} one {p1} {l1}", "sep/last-baby-one")
            yield _case(f"pm1_polyeval {n} {b2} {pow(2, _stage1_exp(H, b1), n)}", "polyeval/sep")
    # --- one prime, prime walk: first prime above B1 (the stop prime of stage 1), last ones, both sieve blocks
    walk_runs = [(20, 40000), (200, 40000), (600, 70000), (2000, 80000)] + ([] if quick else [(600, 40000), (5000, 79999), (64000, 70000)])
    for (b1, b2) in walk_runs:
        for name, l in walk_ls(H, rng, b1, b2):
            p = H.make_pm1_prime(rng, b1, l)
            if p:
                yield _case(f"pm1_impl {p * q96()} {b1} {b2} one {p} {l}", f"walk/{name}")
    # --- one prime, polynomial stage 2 (80001 selects the row of 60e3 by label but takes the polynomial path)
    poly_runs = [(600, 80001), (100, 100000), (2000, 450000)] + ([] if quick else [(600, 200000), (3000, 1000000), (30000, 1900000), (2000, 8300000)])
    for (b1, b2) in poly_runs:
        for name, l in poly_ls(H, rng, b1, b2):
            if l <= b1:
                continue
            p = H.make_pm1_prime(rng, b1, l)
            if p:
                yield _case(f"pm1_impl {p * q96()} {b1} {b2} one {p} {l}", f"poly/{name}")
    # --- a stage-1 factor AND a stage-2 factor: both must be returned, stage-1 factor first
    for (b1, b2) in [(600, 40000), (600, 100000), (2000, 450000), (70000, 200000)] + ([] if quick else [(70000, 79000), (300, 80001)]):
        ls = walk_ls(H, rng, b1, b2) if b2 <= H.THRESHOLD else poly_ls(H, rng, b1, b2)
        for name, l in (ls[:1] + ls[-2:] if quick else ls):
            if l <= b1:
                continue
            p1 = _smooth_prime(H, rng, b1, H.prev_prime(min(b1, 60000)))
            p2 = H.make_pm1_prime(rng, b1, l)
            if p1 and p2 and p1 != p2:
                yield _case(f"pm1_impl {p1 * p2 * q96()} {b1} {b2} two {p1} {p2} {l}", f"two/{'walk' if b2 <= H.THRESHOLD else 'poly'}/{name}")
    # --- stage-1 factors found by the gcd checks of different sieve blocks (largeblocks mode: b1 >= 65536)
    for (b1, b2) in [(70000, 40000), (140000, 300000)]:
        p1 = _smooth_prime(H, rng, b1, H.prev_prime(60000 - rng.randrange(0, 2000)))
        p2 = _smooth_prime(H, rng, b1, H.prev_prime(b1 - rng.randrange(0, 1000)))
        p3 = _smooth_prime(H, rng, b1, H.next_prime(BLOCK + rng.randrange(0, 1000)))
        if p1 and p2 and p3:
            yield _case(f"pm1_impl {p1 * p2 * q96()} {b1} {b2} blocks {p1} {p2}", "blocks/2")
            yield _case(f"pm1_impl {p1 * p3 * p2} {b1} {b2} free", "blocks/complete")
    # --- a square factor
    for (b1, b2) in [(600, 40000), (2000, 100000)]:
        p = _smooth_prime(H, rng, b1, H.prev_prime(b1 - rng.randrange(0, b1 // 2)))
        if p:
            yield _case(f"pm1_impl {p * p * q96()} {b1} {b2} sq {p}", "square")
            yield _case(f"pm1_impl {p * p} {b1} {b2} free", "square-only")
    # --- every factor caught by the same value / by the same batch
    for (b1, b2) in [(600, 40000), (600, 100000)]:
        top = H.pm1_eff(*H.nearest("pm1", b2)[1:]) if b2 > H.THRESHOLD else b2
        l = H.prev_prime(rng.randrange(b1 + 2, top))
        pa, pb = H.make_pm1_prime(rng, b1, l), H.make_pm1_prime(rng, b1, l)
        if pa and pb and pa != pb:
            yield _case(f"pm1_impl {pa * pb} {b1} {b2} same {l}", "same/stage2")
        l2 = H.next_prime(l)
        pc = H.make_pm1_prime(rng, b1, l2)
        if pa and pc and pa != pc:
            yield _case(f"pm1_impl {pa * pc} {b1} {b2} free", "batch/stage2")       # same batch, different values: complete factorisation
        pa, pb = _smooth_prime(H, rng, b1, 577), _smooth_prime(H, rng, b1, 587)
        if pa and pb:
            yield _case(f"pm1_impl {pa * pb} {b1} {b2} free", "batch/stage1")
    # --- small orders of 2 (the `g == 1` exit of stage 1), alone and with a strong cofactor
    small_ord = [683, 2731, 43691, 174763, 2089, 1103, 233, 223, 13367, 431, 9719, 2351, 4513, 6361, 69431, 179951, 3033169, 599479]
    for (b1, b2) in [(600, 40000), (20000, 100000), (70000, 200000)]:
        for k in (2, 3, 5):
            ps = rng.sample(small_ord, k)
            n = math.prod(ps)
            yield _case(f"pm1_impl {n} {b1} {b2} free", "g=1/complete")
        ps = rng.sample(small_ord, 2)
        yield _case(f"pm1_impl {math.prod(ps) * q96()} {b1} {b2} free", "small-orders+strong")
    # --- nothing to find
    for (b1, b2) in [(600, 40000), (600, 100000)]:
        yield _case(f"pm1_impl {q96() * _strong(H, rng, 80)} {b1} {b2} free", "nothing")
    # --- panic sites of the entry: b1 <= 3, even n
    yield _case(f"pm1_impl {q96() * _strong(H, rng, 80)} 3 40000 free", "b1<=3")
    yield _case(f"pm1_impl {2 * q96()} 600 40000 free", "even")
    # --- the strategy functions: whole value for the arms within reach
    for fn, op in (("pm1_quick", "pm1_quick_full"), ("pm1_only", "pm1_only_full")):
        for (lo, hi, b1, b2) in H.arm_table(fn):
            if b1 > (70000 if quick else 300000) or b2 > (1e7 if quick else 3.1e8):
                continue
            ls = walk_ls(H, rng, b1, b2) if b2 <= H.THRESHOLD else poly_ls(H, rng, b1, b2)
            for name, l in ls[:1] + ls[-2:]:
                if l <= b1:
                    continue
                p = H.make_pm1_prime(rng, b1, l)
                if not p:
                    continue
                for want in {max(lo, min(hi, p.bit_length() + 64)), hi}:
                    q = H.exact_q(rng, p, want, +1, floor=8 * b2, ok=lambda q, Q: pow(2, (q - 1) // Q, q) != 1)
                    if q:
                        yield _case(f"{op} {p * q} one {p} {l}", f"{fn}/{lo}..{hi}/{name}")
    yield _case(f"pm1_quick_full {_strong(H, rng, 40) * _strong(H, rng, 44)} free", "pm1_quick/0..84")
    # --- pm1_stage2_polyeval alone: g = 2^E for a constructed p (covered / outside), and degenerate residues
    for (b1, b2) in [(600, 100000), (600, 450000)]:
        for name, l in poly_ls(H, rng, b1, b2):
            p = H.make_pm1_prime(rng, b1, l)
            if p:
                n = p * q96()
                yield _case(f"pm1_polyeval {n} {b2} {pow(2, _stage1_exp(H, b1), n)}", f"polyeval/{name}")
        n = q96() * _strong(H, rng, 80)
        yield _case(f"pm1_polyeval {n} {b2} 1", "polyeval/g=1")
        yield _case(f"pm1_polyeval {n} {b2} {n - 1}", "polyeval/g=-1")


def arm_bounds(H, op, n):
    fn = "pm1_quick" if op == "pm1_quick_full" else "pm1_only"
    for (lo, hi, b1, b2) in H.arm_table(fn):
        if lo <= n.bit_length() <= hi:
            return b1, int(b2)
    return None


def _ann_ok(H, n, b1, p, l):
    if not (n % p == 0 and H.is_prime(p) and H.is_prime(l) and l > b1 and (p - 1) % l == 0):
        return False
    o = H.order_of_2(p, b1, l)
    return o is not None and o % l == 0 and H.divides_stage1(o // l, b1)


def oracle(case, ans, H):
    op, a = case.op, case.args
    if op == "pm1_polyeval":
        n = int(a[0])
        if ans in ("panic", "abort", "hang", "?"):
            return f"no answer ({ans})"
        t = ans.split(" ")
        fs = [] if t[0] == "-" else [int(x) for x in t[0].split(",")]
        rest = int(t[1])
        if math.prod(fs) * rest != n or any(f <= 1 for f in fs):
            return "gcd_factors result does not multiply to the modulus / trivial part"
        return None
    n = int(a[0])
    if op == "pm1_impl":
        b1, b2 = int(a[1]), int(a[2])
        kind, ann = a[3], [int(x) for x in a[4:]]
    else:
        kind, ann = a[1], [int(x) for x in a[2:]]
        bb = arm_bounds(H, op, n)
        if bb is None:
            return None if ans == "none" else "pm1_quick must ignore numbers of at most 84 bits"
        b1, b2 = bb
    if ans == "panic":
        if b1 <= 3 or n % 2 == 0:
            return None                          # assert!(b1 > 3), ZmodN::new(even)
        return "panic on an odd n with b1 > 3"
    if ans in ("abort", "hang", "?"):
        return f"no answer ({ans})"
    msg = H.check_split(n, ans)
    if msg:
        return msg
    r = H.parse_split(ans)
    fs, rest = r if r else ([], n)
    if kind == "one":
        p, l = ann
        if not _ann_ok(H, n, b1, p, l):
            return None
        if H.covered("pm1", b1, b2, l) and p not in fs:
            return f"P-1 (B1={b1}, B2={b2}) must separate p = {p}: p - 1 = (stage-1 part) * {l} and {l} is covered by stage 2"
    elif kind == "two":
        p1, p2, l = ann
        if p1 not in fs:
            return f"the stage-1 factor {p1} (p1 - 1 divides the stage-1 exponent) is not returned"
        if _ann_ok(H, n, b1, p2, l) and H.covered("pm1", b1, b2, l) and p2 not in fs:
            return f"the stage-2 factor {p2} (missing prime {l} covered) is not returned"
    elif kind == "sep":
        p1, p2, l1, l2 = ann
        if b2 <= H.THRESHOLD or p1 == p2 or n != p1 * p2 or not (_ann_ok(H, n, b1, p1, l1) and _ann_ok(H, n, b1, p2, l2)):
            return None
        _, d1, d2 = H.nearest("pm1", b2)
        qs1, qs2 = hit_qs(H, d1, d2, l1), hit_qs(H, d1, d2, l2)
        # the running product goes through q = qmax, qmax - 1, .., 0: p_i divides it from the point max(qs_i) on
        if qs1 and qs2 and max(qs1) != max(qs2) and not (p1 in fs and p2 in fs):
            return (f"P-1 (B1={b1}, B2={b2}) must split n = {p1} * {p2}: {l1} is met first at the multiplier {max(qs1)} "
                    f"(baby step r = {max(qs1) * d1 - l1}), {l2} at {max(qs2)}: different evaluation points, gcd_factors separates them")
    elif kind == "blocks":
        p1, p2 = ann
        if p1 not in fs or p2 not in fs:
            return "a factor whose order divides the stage-1 exponent is not returned"
    elif kind == "sq":
        (p,) = ann
        if rest % p == 0 or not any(f % p == 0 for f in fs):
            return f"p = {p} (p - 1 divides the stage-1 exponent) is not separated from the cofactor"
    return None


def klass(case, ans):
    short = ans.split(" ")[0] if ans else ""
    if case.op == "pm1_polyeval":
        return f"{case.op}/{case.tag}/{'panic' if short == 'panic' else 'facs' + str(0 if short == '-' else short.count(',') + 1)}"
    nf = ans.split(" ")[1].count(",") + 1 if short == "some" else 0
    return f"{case.op}/{case.tag}/{short}{nf if nf else ''}"
