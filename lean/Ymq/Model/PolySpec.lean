/-
Schoolbook specifications of the polynomial operations of src/arith_poly.rs and
src/arith_fft.rs over Z/nZ (property C10). Everything here is a *definition of the expected
result* (quadratic time, no cleverness), executable, and used
* by the Lean driver as the reference answer for the public entry points (K stream), and
* by the theorems of Props/C10 as the right-hand side of every statement.

Conventions
* a polynomial is the `Array Nat` of its coefficients (index = degree), plain integers
  `< n` (NOT Montgomery form: the harness converts with `ZmodN::from_int/to_int`);
  `coef p i` is `0` beyond the end;
* finite sums are `sumTo m f = f 0 + … + f (m-1)`;
* the sums are formed over `Nat` and reduced modulo `n` once (this is the schoolbook value).
No Mathlib import: this file is linked into the native driver.
-/
namespace Ymq.PolySpec

/-- `sumTo m f = Σ_{a < m} f a` -/
def sumTo : Nat → (Nat → Nat) → Nat
  | 0, _ => 0
  | m + 1, f => sumTo m f + f m

/-- coefficient `i` of `p` (zero beyond the end) -/
def coef (p : Array Nat) (i : Nat) : Nat := p.getD i 0

/-- coefficient `k` of the plain product: `Σ_{a ≤ k} f a · g (k - a)` -/
def mulCoef (f g : Nat → Nat) (k : Nat) : Nat := sumTo (k + 1) fun a => f a * g (k - a)

/-- coefficient `k < size` of the cyclic product modulo `X^size - 1`:
`Σ_{a < size} f a · g ((k - a) mod size)`, i.e. the sum of `f a · g b` over `a, b < size`,
`a + b ≡ k (mod size)` -/
def cycCoef (size : Nat) (f g : Nat → Nat) (k : Nat) : Nat :=
  sumTo size fun a => f a * g ((k + size - a) % size)

/-- `convolve_modn(zn, size, p, q, res, offset)` / `convolve_modn_ntt`: `res[i]` is coefficient
`offset + i` of `p·q mod (X^size - 1)`; entries with `offset + i ≥ size` stay zero. -/
def convolve (n size offset reslen : Nat) (p q : Array Nat) : Array Nat :=
  Array.ofFn (n := reslen) fun i =>
    if offset + i.val < size then cycCoef size (coef p) (coef q) (offset + i.val) % n else 0

/-- plain product, `|p| + |q| - 1` coefficients -/
def mul (n : Nat) (p q : Array Nat) : Array Nat :=
  if p.size = 0 ∨ q.size = 0 then #[]
  else Array.ofFn (n := p.size + q.size - 1) fun k => mulCoef (coef p) (coef q) k.val % n

/-- zero-padding / truncation to `len` coefficients -/
def resize (p : Array Nat) (len : Nat) : Array Nat := Array.ofFn (n := len) fun i => coef p i.val

/-- middle product: for `|q| = m`, `|p| = 2m - 1` the `m` coefficients `m-1 … 2m-2` of `p·q` -/
def middle (n : Nat) (p q : Array Nat) : Array Nat :=
  Array.ofFn (n := q.size) fun i => mulCoef (coef p) (coef q) (q.size - 1 + i.val) % n

/-! ### modular inverse of the constant term (extended Euclid on `Int`) -/

def xgcdAux : Nat → Int → Int → Int → Int → Int × Int
  | 0, a, _, u, _ => (a, u)
  | f + 1, a, b, u, v => if b = 0 then (a, u) else xgcdAux f b (a % b) v (u - (a / b) * v)

/-- the `i < n` with `i·x ≡ 1 (mod n)`, `none` when `gcd(x, n) ≠ 1` -/
def invMod (x n : Nat) : Option Nat :=
  let r := xgcdAux (2 * n.log2 + 4) (x % n : Nat) (n : Nat) 1 0
  if r.1 = 1 then some (r.2 % (n : Int)).toNat else none

/-! ### power series -/

/-- next coefficient of `p / q mod x^k` given the first `i = z.size` ones:
`z_i = u · (p_i - Σ_{j < i} q_{j+1} z_{i-1-j})`, `u = q_0⁻¹` -/
def divStep (n u : Nat) (p q : Nat → Nat) (z : Array Nat) : Array Nat :=
  let i := z.size
  let s := sumTo i (fun j => q (j + 1) * coef z (i - 1 - j)) % n
  z.push (u * ((p i % n + n - s) % n) % n)

def divAux (n u : Nat) (p q : Nat → Nat) : Nat → Array Nat → Array Nat
  | 0, z => z
  | f + 1, z => divAux n u p q f (divStep n u p q z)

/-- `p / q mod (x^k, n)` (`k` coefficients); `none` when `q_0` is not invertible modulo `n` -/
def divSeries (n k : Nat) (p q : Array Nat) : Option (Array Nat) :=
  match invMod (coef q 0) n with
  | none => none
  | some u => some (divAux n u (coef p) (coef q) k #[])

/-- `1 / p mod (x^k, n)` -/
def invSeries (n k : Nat) (p : Array Nat) : Option (Array Nat) :=
  divSeries n k #[1 % n] p

/-! ### roots and evaluation -/

/-- multiply by `(x - r)` -/
def mulLinear (n r : Nat) (p : Array Nat) : Array Nat :=
  Array.ofFn (n := p.size + 1) fun i =>
    ((if i.val = 0 then 0 else coef p (i.val - 1)) + (n - r % n) * coef p i.val) % n

/-- `∏ (x - r_i)`, `|roots| + 1` coefficients -/
def fromRoots (n : Nat) (roots : Array Nat) : Array Nat :=
  roots.foldl (fun p r => mulLinear n r p) #[1 % n]

/-- Horner evaluation of `p` at `x` modulo `n` -/
def eval (n : Nat) (p : Array Nat) (x : Nat) : Nat :=
  p.foldr (fun c acc => (acc * x + c) % n) 0

/-- `p` evaluated on a list of points -/
def multiEval (n : Nat) (p pts : Array Nat) : Array Nat := pts.map (eval n p)

/-- `∏_i (x - a_i)` evaluated at `x` -/
def evalRootsAt (n : Nat) (a : Array Nat) (x : Nat) : Nat :=
  a.foldl (fun acc r => acc * ((x % n + n - r % n) % n) % n) (1 % n)

/-- `Poly::roots_eval(zn, a, b)`: the values `∏_i (b_j - a_i)` -/
def rootsEval (n : Nat) (a b : Array Nat) : Array Nat := b.map (evalRootsAt n a)

/-! ### generated operands (same generator in the harness and in the Python oracle) -/

def W64 : Nat := 18446744073709551616

def genHash (seed i : Nat) : Nat :=
  ((seed + i + 1) % W64 * 6364136223846793005 + 1442695040888963407) % W64

def genCoef (n seed i : Nat) (kind : String) : Option Nat :=
  let h := genHash seed i
  if kind = "r" then some (h ^ 9 % n)
  else if kind = "m" then some (n - 1)
  else if kind = "o" then some (1 % n)
  else if kind = "s" then some (if h % 8 = 0 then h ^ 9 % n else 0)
  else if kind = "b" then some (if h % 2 = 0 then n - 1 else 0)
  else if kind = "t" then some (if h % 2048 = 0 then h ^ 9 % n else 0)
  else none

end Ymq.PolySpec
