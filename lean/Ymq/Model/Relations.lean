/-
Model of the relation store and of the final combination step (src/relations.rs):
`Relation`, `Relation::verify`, `RelationSet::{new, add, add_cycle, combine, combine_single,
combine_double, walk_doubles}`, `PackedRelation::{pack, unpack}`, the free functions `combine`
(chunked products), `try_factor`, and the part of `final_step` that turns kernel vectors (an INPUT
here; the kernel solvers are property C14) into divisors.

Conventions
* `Uint` (bnum U1024), `Int` and `num_integer::gcd` are modelled as mathematical `Nat`/`Int`
  arithmetic; a `Uint` subtraction that would underflow is an `.overflow` error. The 1024-bit
  width itself is not modelled (all operands of `*` are `< 2^512` under the stated contracts).
* `u64`/`i64`/`u32` fields are `Nat`/`Int`; every `+`/`*` on them that can overflow in the checked
  profile is an explicit `.overflow` error, every `as` cast is an explicit wrap.
* outcome type `M = Except Err`:
    `.panic`    assert!/assert_eq!/unwrap/index/unreachable!/division by zero (both profiles)
    `.debug`    debug_assert! (checked profile only; the release build goes on)
    `.overflow` arithmetic overflow (checked profile only; the release build wraps)
    `.fuel`     model artefact: recursion fuel exhausted (theorem: never with the fuel `add` uses)
  The driver prints all four as `panic`.
* `HashMap`/`BTreeMap`/`BTreeSet` are association lists kept in KEY ORDER (`BTreeMap::range`
  = `filter` on the ordered list, same iteration order); the `HashMap` is never iterated by the
  code, its order is immaterial.
* usize statistics counters (`n_partials`, ...) are unbounded `Nat`s (they grow by one per call).
No Mathlib import: linked into the native driver.
-/

namespace Ymq.Relations

inductive Err
  | panic | debug | overflow | fuel
  deriving DecidableEq, Repr

abbrev M := Except Err

/-- 2^64 -/
def W64 : Nat := 18446744073709551616
/-- 2^63 -/
def I63 : Nat := 9223372036854775808
/-- 2^32 -/
def W32 : Nat := 4294967296

/-- `v as i64` for a `u64` value -/
def toI64 (v : Nat) : Int := if v < I63 then (v : Int) else (v : Int) - (W64 : Int)

/-- `p as u64` for an `i64` value -/
def toU64 (p : Int) : Nat := (p % (W64 : Int)).toNat

structure Relation where
  x : Nat
  cofactor : Nat
  cyclelen : Nat
  factors : List (Int × Nat)      -- (-1, k) for the sign
  deriving DecidableEq, Repr, Inhabited

/-! ### `Relation::verify` -/

/-- loop of `arith::pow_mod` -/
def powModLoop (p : Nat) : Nat → Nat → Nat → Nat → Nat
  | 0, res, _, _ => res
  | f + 1, res, nn, k =>
    if k = 0 then res
    else powModLoop p f (if k % 2 = 1 then res * nn % p else res) (nn * nn % p) (k / 2)

/-- `pow_mod(b, k, p)` for a 64-bit exponent (`p = 0` is a division by zero: guarded by callers) -/
def powMod (b k p : Nat) : Nat := powModLoop p 64 1 (b % p) k

def verifyLoop (n len : Nat) : List (Int × Nat) → Nat → M Nat
  | [], prod => pure prod
  | (p, k) :: fs, prod =>
    if p = -1 then
      if k % 2 = 1 then
        if n < prod then throw .overflow            -- `n - prod`
        else verifyLoop n len fs (n - prod)
      else verifyLoop n len fs prod
    else if p > 0 ∨ (p = 0 ∧ len = 1) then
      if n = 0 then throw .panic                    -- `% n`
      else verifyLoop n len fs (prod * powMod (toU64 p) k n % n)
    else throw .panic                               -- assert!(p > 0 || ...)

def verify (n : Nat) (r : Relation) : M Bool := do
  let prod ← verifyLoop n r.factors.length r.factors r.cofactor
  if n = 0 then throw .panic
  pure (r.x * r.x % n == prod)

/-! ### `RelationSet::combine` -/

def hasPrime (p : Int) (fs : List (Int × Nat)) : Bool := fs.any (fun f => f.1 == p)

/-- `f.1 += k` on the first entry with prime `p` -/
def bump (p : Int) (k : Nat) : List (Int × Nat) → M (List (Int × Nat))
  | [] => pure []
  | (p', k') :: t =>
    if p' = p then
      if k' + k < W64 then pure ((p', k' + k) :: t) else throw .overflow
    else do
      let t' ← bump p k t
      pure ((p', k') :: t')

/-- the `'iter2` loop -/
def mergeFactors : List (Int × Nat) → List (Int × Nat) → M (List (Int × Nat))
  | acc, [] => pure acc
  | acc, (p, k) :: t =>
    if hasPrime p acc then do
      let acc' ← bump p k acc
      mergeFactors acc' t
    else mergeFactors (acc ++ [(p, k)]) t

def combine (n : Nat) (r1 r2 : Relation) : M Relation := do
  let factors ← mergeFactors r1.factors r2.factors
  if r2.cofactor = 0 then throw .panic                        -- r1.cofactor % r2.cofactor
  else if r1.cofactor % r2.cofactor = 0 then
    if n = 0 then throw .panic
    else if r1.cyclelen + r2.cyclelen < W64 then
      pure { x := r1.x * r2.x % n, cofactor := r1.cofactor / r2.cofactor,
             cyclelen := r1.cyclelen + r2.cyclelen,
             factors := factors ++ [(toI64 r2.cofactor, 2)] }
    else throw .overflow
  else if r1.cofactor = 0 then throw .panic                   -- r2.cofactor % r1.cofactor
  else if r2.cofactor % r1.cofactor ≠ 0 then throw .panic     -- assert!
  else if n = 0 then throw .panic
  else if r1.cyclelen + r2.cyclelen < W64 then
    pure { x := r1.x * r2.x % n, cofactor := r2.cofactor / r1.cofactor,
           cyclelen := r1.cyclelen + r2.cyclelen,
           factors := factors ++ [(toI64 r1.cofactor, 2)] }
  else throw .overflow

/-! ### `PackedRelation` -/

/-- `64 - leading_zeros(v)` -/
def bitlen (v : Nat) : Nat := if v = 0 then 0 else Nat.log2 v + 1

def lebLen (v : Nat) : Nat := max 1 ((bitlen v + 6) / 7)

/-- continuation bytes `j = len-m .. len-1` (flag 0x80 set) -/
def lebCont (v : Nat) : Nat → List Nat
  | 0 => []
  | m + 1 => ((v >>> (7 * m)) % 128 + 128) :: lebCont v m

/-- one integer, most significant 7-bit group first, only the first byte has the high bit clear -/
def lebEnc (v : Nat) : List Nat :=
  ((v >>> (7 * (lebLen v - 1))) % 128) :: lebCont v (lebLen v - 1)

/-- the decoding loop of `unpack`; `first` = (`i == 0`) -/
def lebDec : List Nat → Nat → Bool → List Nat
  | [], cur, _ => [cur]
  | b :: bs, cur, first =>
    if b < 128 then
      if first then lebDec bs b false else cur :: lebDec bs b false
    else lebDec bs (cur * 128 % W64 + b % 128) false

def packFactors : List (Int × Nat) → M (List Nat)
  | [] => pure []
  | (p, k) :: t =>
    if p = -1 then
      if k % 2 = 0 then packFactors t
      else do
        let l ← packFactors t
        pure (0 :: l)
    else if ¬ (p > 0 ∧ p < (W32 : Int) ∧ k > 0) then throw .panic
    else
      let p' : Nat := if p = 2 then 1 else p.toNat
      if p' % 2 ≠ 1 then throw .panic
      else do
        let l ← packFactors t
        if k > 1 then pure (2 * p' :: k :: l) else pure (p' :: l)

/-- `x.digits()[..8]` -/
def digits8 (x : Nat) : List Nat :=
  [x % W64, x / W64 % W64, x / W64 ^ 2 % W64, x / W64 ^ 3 % W64, x / W64 ^ 4 % W64,
   x / W64 ^ 5 % W64, x / W64 ^ 6 % W64, x / W64 ^ 7 % W64]

def packInts (r : Relation) : M (List Nat) := do
  let l ← packFactors r.factors
  pure (digits8 r.x ++ r.cofactor :: r.cyclelen :: l)

def encInts : List Nat → List Nat
  | [] => []
  | v :: t => lebEnc v ++ encInts t

/-- `PackedRelation::pack` : the blob as a list of bytes -/
def pack (r : Relation) : M (List Nat) := do
  let ints ← packInts r
  pure (encInts ints)

/-- factor decoding loop; `pend = some p` : the next integer is the exponent of `p` -/
def unpackFactors : List Nat → Option Int → M (List (Int × Nat))
  | [], none => pure []
  | [], some _ => throw .panic                       -- ints[idx + 1] out of range
  | v :: t, some p => do
    let l ← unpackFactors t none
    pure ((p, v) :: l)
  | v :: t, none =>
    if v = 0 then do
      let l ← unpackFactors t none
      pure ((-1, 1) :: l)
    else if v % 2 = 1 then do
      let l ← unpackFactors t none
      pure ((toI64 (if v = 1 then 2 else v), 1) :: l)
    else unpackFactors t (some (toI64 (if v = 2 then 2 else v / 2)))

def unpackInts : List Nat → M Relation
  | x0 :: x1 :: x2 :: x3 :: x4 :: x5 :: x6 :: x7 :: cof :: clen :: rest => do
    let fs ← unpackFactors rest none
    pure { x := x0 + x1 * W64 + x2 * W64 ^ 2 + x3 * W64 ^ 3 + x4 * W64 ^ 4 + x5 * W64 ^ 5
                + x6 * W64 ^ 6 + x7 * W64 ^ 7,
           cofactor := cof, cyclelen := clen, factors := fs }
  | _ => throw .panic                                -- unreachable!("corrupted relation data")

/-- `PackedRelation::unpack` -/
def unpack (blob : List Nat) : M Relation := unpackInts (lebDec blob 0 true)

/-! ### ordered association lists -/

def ltPair (a b : Nat × Nat) : Bool := a.1 < b.1 || (a.1 == b.1 && a.2 < b.2)

section AList
variable {κ β : Type} [DecidableEq κ]

def alookup (k : κ) : List (κ × β) → Option β
  | [] => none
  | (k', v) :: t => if k' = k then some v else alookup k t

def aerase (k : κ) (l : List (κ × β)) : List (κ × β) := l.filter (fun e => e.1 ≠ k)

def ainsertOrd (lt : κ → κ → Bool) (k : κ) (v : β) : List (κ × β) → List (κ × β)
  | [] => [(k, v)]
  | (k', v') :: t => if lt k k' then (k, v) :: (k', v') :: t else (k', v') :: ainsertOrd lt k v t

/-- `map.insert(k, v)` (replaces an existing entry; key order kept) -/
def ainsert (lt : κ → κ → Bool) (k : κ) (v : β) (l : List (κ × β)) : List (κ × β) :=
  ainsertOrd lt k v (aerase k l)

end AList

def sinsertOrd (a : Nat × Nat) : List (Nat × Nat) → List (Nat × Nat)
  | [] => [a]
  | b :: t => if ltPair a b then a :: b :: t else b :: sinsertOrd a t

/-- `BTreeSet::insert` -/
def sinsert (a : Nat × Nat) (l : List (Nat × Nat)) : List (Nat × Nat) :=
  sinsertOrd a (l.filter (· ≠ a))

/-- `BTreeSet::remove` -/
def serase (a : Nat × Nat) (l : List (Nat × Nat)) : List (Nat × Nat) := l.filter (· ≠ a)

/-! ### the store -/

structure Store where
  n : Nat
  fbsize : Nat
  maxlarge : Nat
  cycles : List Relation                          -- push order
  partials : List (Nat × List Nat)                 -- `partial`: p ↦ packed relation
  doubles : List ((Nat × Nat) × List Nat)          -- (p, q) ↦ packed relation, key order
  doublesRev : List (Nat × Nat)                    -- (q, p), set order
  nPartials : Nat
  nDoubles : Nat
  nCombined12 : Nat
  nCycles : List Nat                               -- [usize; 8]
  deriving DecidableEq, Repr

/-- `RelationSet::new` -/
def Store.new (n fbsize maxlarge : Nat) : Store :=
  { n, fbsize, maxlarge, cycles := [], partials := [], doubles := [], doublesRev := [],
    nPartials := 0, nDoubles := 0, nCombined12 := 0, nCycles := [0, 0, 0, 0, 0, 0, 0, 0] }

def ltNat (a b : Nat) : Bool := a < b

def Store.setPartial (s : Store) (p : Nat) (b : List Nat) : Store :=
  { s with partials := ainsert ltNat p b s.partials }

def bumpAt : Nat → List Nat → List Nat
  | _, [] => []
  | 0, c :: t => (c + 1) :: t
  | i + 1, c :: t => c :: bumpAt i t

/-- `add_cycle` -/
def addCycle (r : Relation) (s : Store) : M Store :=
  if r.cofactor ≠ 1 then throw .panic                         -- assert_eq!(r.cofactor, 1)
  else if r.cyclelen = 0 then throw .panic                    -- `min(8, 0) - 1`: overflow / index
  else pure { s with nCycles := bumpAt (min 8 r.cyclelen - 1) s.nCycles, cycles := s.cycles ++ [r] }

/-- `combine_single` -/
def combineSingle (r : Relation) (s : Store) : M (Bool × Store) :=
  match alookup r.cofactor s.partials with
  | none => pure (false, s)
  | some blob => do
    let r0 ← unpack blob
    let rr ← combine s.n r r0
    if rr.factors.all (fun f => f.2 % 2 == 0) then pure (false, s)
    else
      match verify s.n rr with                                -- debug_assert!(rr.verify(&self.n))
      | .ok true => do
        let s1 ← addCycle rr s
        if r.cyclelen < r0.cyclelen then do
          let b ← pack r
          pure (true, s1.setPartial r.cofactor b)
        else pure (true, s1)
      | _ => throw .debug

/-- `combine_double`; `walk` is the recursive `walk_doubles` (open recursion over the fuel) -/
def combineDouble (walk : Nat → Store → M Store) (r : Relation) (p q : Nat) (s : Store) :
    M (Bool × Store) :=
  if p = q then do
    let s1 ← addCycle { r with cofactor := 1, factors := r.factors ++ [(toI64 p, 2)] } s
    pure (true, s1)
  else
    match alookup p s.partials, alookup q s.partials with
    | some bp, some bq => do
      let rp ← unpack bp
      let rq ← unpack bq
      let r1 ← combine s.n r rp
      let r2 ← combine s.n r1 rq
      let s1 ← addCycle r2 s
      -- the two u64 sums below cannot overflow: both are bounded by r2.cyclelen, computed above
      if rp.cyclelen + r.cyclelen < rq.cyclelen then do
        let rpq ← combine s.n r rp
        if rpq.cofactor ≠ q then throw .panic
        else do
          let b ← pack rpq
          pure (true, s1.setPartial q b)
      else if rq.cyclelen + r.cyclelen < rp.cyclelen then do
        let rqp ← combine s.n r rq
        if rqp.cofactor ≠ p then throw .panic
        else do
          let b ← pack rqp
          pure (true, s1.setPartial p b)
      else pure (true, s1)
    | some bp, none => do
      let rp ← unpack bp
      let rq ← combine s.n r rp
      if rq.cofactor ≠ q then throw .panic
      else do
        let b ← pack rq
        let s1 ← walk (q % W32) ({ s with nCombined12 := s.nCombined12 + 1 }.setPartial q b)
        pure (true, s1)
    | none, some bq => do
      let rq ← unpack bq
      let rp ← combine s.n r rq
      if rp.cofactor ≠ p then throw .panic
      else do
        let b ← pack rp
        let s1 ← walk (p % W32) ({ s with nCombined12 := s.nCombined12 + 1 }.setPartial p b)
        pure (true, s1)
    | none, none => pure (false, s)

/-- body shared by the two removal loops of `walk_doubles`: `(p, q)` is the key of `doubles` -/
def walkStep (walk : Nat → Store → M Store) (p q : Nat) (s : Store) : M Store :=
  match alookup (p, q) s.doubles with
  | none => pure s                                            -- `else { continue }`
  | some blob => do
    let s1 := { s with doubles := aerase (p, q) s.doubles, doublesRev := serase (q, p) s.doublesRev }
    let r ← unpack blob
    let res ← combineDouble walk r p q s1
    if res.1 then pure res.2 else throw .panic                -- assert!(ok)

def walkLoop1 (walk : Nat → Store → M Store) : List (Nat × Nat) → Store → M Store
  | [], s => pure s
  | (p, q) :: t, s => do
    let s1 ← walkStep walk p q s
    walkLoop1 walk t s1

def walkLoop2 (walk : Nat → Store → M Store) : List (Nat × Nat) → Store → M Store
  | [], s => pure s
  | (q, p) :: t, s => do
    let s1 ← walkStep walk p q s
    walkLoop2 walk t s1

/-- the two trailing loops: `assert_eq!(first, root); self.walk_doubles(second)` -/
def walkRec (walk : Nat → Store → M Store) (root : Nat) : List (Nat × Nat) → Store → M Store
  | [], s => pure s
  | (a, b) :: t, s =>
    if a ≠ root then throw .panic
    else do
      let s1 ← walk b s
      walkRec walk root t s1

/-- `walk_doubles(root)`. Since fix e402536 the code keeps an explicit stack of `WalkFrame`s (one per
call of the former recursive function, same keys collected on entry, same order of its four loops);
the model keeps the recursive formulation, which performs the same steps in the same order. Stack
depth itself is not modelled. -/
def walkDoubles : Nat → Nat → Store → M Store
  | 0, _, _ => throw .fuel
  | fuel + 1, root, s =>
    -- `root + 1`: u32 overflow panic in the checked profile; the release build wraps to 0 and
    -- `BTreeMap::range` then panics (start > end) unless the map is empty. Classified `.panic`
    -- (unreachable inside the contract: `add_no_panic`); `.overflow` is reserved for the u64
    -- exponent / cycle-length counters
    if root + 1 ≥ W32 then throw .panic
    else do
      let pqs := (s.doubles.filter (fun e => e.1.1 = root)).map (fun e => e.1)
      let qps := s.doublesRev.filter (fun e => e.1 = root)
      let s1 ← walkLoop1 (walkDoubles fuel) pqs s
      let s2 ← walkLoop2 (walkDoubles fuel) qps s1
      let s3 ← walkRec (walkDoubles fuel) root pqs s2
      walkRec (walkDoubles fuel) root qps s3

/-- recursion depth that always suffices (theorem `add_no_panic`): every non-leaf call removes a
stored double before recursing -/
def Store.fuel (s : Store) : Nat := s.doubles.length + 1

/-- `RelationSet::add` -/
def add (r : Relation) (pq : Option (Nat × Nat)) (s : Store) : M Store :=
  if ¬ r.x < s.n then throw .debug                            -- debug_assert!(&r.x < &self.n)
  else if r.cofactor = 1 then addCycle r s
  else if r.cofactor < s.maxlarge then do
    let res ← combineSingle r { s with nPartials := s.nPartials + 1 }
    if res.1 then pure res.2
    else do
      let b ← pack r
      let s1 := res.2.setPartial r.cofactor b
      if r.cofactor ≥ W32 then throw .panic                   -- assert!(p >> 32 == 0)
      else walkDoubles s1.fuel r.cofactor s1
  else
    match pq with
    | none => pure s
    | some (p, q) =>
      if p ≥ W32 ∨ q ≥ W32 then throw .panic
      else do
        let s0 := { s with nDoubles := s.nDoubles + 1 }
        let res ← combineDouble (walkDoubles s0.fuel) r p q s0
        if res.1 then pure res.2
        else do
          let key := if p < q then (p, q) else (q, p)
          let b ← pack r
          pure { res.2 with doubles := ainsert ltPair key b res.2.doubles,
                            doublesRev := sinsert (key.2, key.1) res.2.doublesRev }

/-- a history: the store after a sequence of `add`s from `RelationSet::new` -/
def runHistory : List (Relation × Option (Nat × Nat)) → Store → M Store
  | [], s => pure s
  | (r, pq) :: t, s => do
    let s1 ← add r pq s
    runHistory t s1

/-! ### `try_factor` -/

/-- `Uint::bits()` -/
def bits (n : Nat) : Nat := bitlen n

def splitBy (n g : Nat) : M (Option (Nat × Nat)) :=
  let p := g
  let q := n / p
  if p * q ≠ n then throw .panic                              -- assert!(p * q == *n)
  else if ¬ (bits p > 1 ∧ bits q > 1) then throw .panic       -- assert!(p.bits() > 1 && q.bits() > 1)
  else pure (some (p, q))

/-- `try_factor(n, a, b)` (after fix bf2c32c: `a + b = 0` is skipped) -/
def tryFactor (n a b : Nat) : M (Option (Nat × Nat)) :=
  if a + b ≠ n ∧ a + b ≠ 0 ∧ Nat.gcd n (a + b) > 1 then splitBy n (Nat.gcd n (a + b))
  else if a ≠ b then
    if n + a < b then throw .overflow                         -- `n + a - b`
    else if Nat.gcd n (n + a - b) > 1 then splitBy n (Nat.gcd n (n + a - b))
    else pure none
  else pure none

/-! ### `combine` (free function: a = ∏ xs, b² = ∏ p^k) and the tail of `final_step`

`ZmodN::{one, from_int, mul, to_int}` are modelled as exact arithmetic modulo `n` (property C07
proves this of the word-level code for odd `n < 2^512` and reduced operands). -/

/-- `zn.from_int(x)` = `mul(x, r2)`: `ZmodN::mul` has `debug_assert!(x < n)` -/
def fromInt (n x : Nat) : M Nat := if x < n then pure x else throw .debug

/-- `for &x in xs { a = zn.mul(&a, &zn.from_int(x)) }` -/
def prodXs (n : Nat) : List Nat → Nat → M Nat
  | [], a => pure a
  | x :: t, a => do
    let xm ← fromInt n x
    prodXs n t (a * xm % n)

/-- `for _ in 0..k/2` : returns (b, chunk) -/
def chunkLoop (n maxchunk pu : Nat) : Nat → Nat → Nat → M (Nat × Nat)
  | 0, b, chunk => pure (b, chunk)
  | i + 1, b, chunk =>
    let c := chunk * pu
    if c ≥ W64 then throw .overflow
    else if c ≥ maxchunk then do
      let cm ← fromInt n chunk
      chunkLoop n maxchunk pu i (b * cm % n) pu
    else chunkLoop n maxchunk pu i b c

def factorsLoop (n maxchunk : Nat) : List (Int × Nat) → Nat → Nat → M (Nat × Nat)
  | [], b, chunk => pure (b, chunk)
  | (p, k) :: t, b, chunk =>
    if p = -1 then factorsLoop n maxchunk t b chunk
    else if k % 2 ≠ 0 then throw .panic                       -- assert_eq!(k % 2, 0)
    else do
      let bc ← chunkLoop n maxchunk (toU64 p) (k / 2) b chunk
      factorsLoop n maxchunk t bc.1 bc.2

def maxChunk (n : Nat) : Nat := if bits n ≤ 64 then min W32 (n % W64) else W32

def combineAB (n : Nat) (xs : List Nat) (factors : List (Int × Nat)) : M (Nat × Nat) := do
  let a ← prodXs n xs (1 % n)
  let bc ← factorsLoop n (maxChunk n) factors (1 % n) 1
  let cm ← fromInt n bc.2
  pure (a, bc.1 * cm % n)

/-- exponent accumulation for one kernel vector `eq` (indices into `rels`).
`slots` = the primes that have an accumulator (`occs[idx].0`, in index order; `get_index(f)` is the
position of `f` in it). Returns (xs, factors) as passed to `combine`. -/
def slotIndex (f : Int) : List Int → Option Nat
  | [] => none
  | g :: t => if g = f then some 0 else (slotIndex f t).map (· + 1)

def accFactors (slots : List Int) : List (Int × Nat) → List Nat → List (Int × Nat) →
    M (List Nat × List (Int × Nat))
  | [], exps, extra => pure (exps, extra)
  | (f, k) :: t, exps, extra =>
    match slotIndex f slots with
    | some idx =>
      match exps[idx]? with
      | none => throw .panic
      | some e =>
        if e + k < W64 then accFactors slots t (exps.set idx (e + k)) extra
        else throw .overflow
    | none =>
      if k % 2 ≠ 0 then throw .panic                          -- assert!(k % 2 == 0)
      else accFactors slots t exps (extra ++ [(f, k)])

def accRels (slots : List Int) (rels : List Relation) : List Nat → List Nat → List Nat →
    List (Int × Nat) → M (List Nat × List Nat × List (Int × Nat))
  | [], xs, exps, extra => pure (xs, exps, extra)
  | i :: t, xs, exps, extra =>
    match rels[i]? with
    | none => throw .panic                                    -- filt_rels[i]
    | some r => do
      let ee ← accFactors slots r.factors exps extra
      accRels slots rels t (xs ++ [r.x]) ee.1 ee.2

def expFactors : List Int → List Nat → M (List (Int × Nat))
  | f :: fs, e :: es =>
    if e > 0 then
      if e % 2 ≠ 0 then throw .panic                          -- assert!(exp % 2 == 0)
      else do
        let l ← expFactors fs es
        pure ((f, e) :: l)
    else expFactors fs es
  | _, _ => pure []

/-- one iteration of the `for eq in k` loop up to and including `try_factor` -/
def kernelStep (n : Nat) (slots : List Int) (rels : List Relation) (eq : List Nat) :
    M (Nat × Nat × Option (Nat × Nat)) := do
  let acc ← accRels slots rels eq [] (slots.map (fun _ => 0)) []
  let fs ← expFactors slots acc.2.1
  let ab ← combineAB n acc.1 (acc.2.2 ++ fs)
  if ab.1 * ab.1 % n ≠ ab.2 * ab.2 % n then throw .panic       -- assert_eq!((a*a) % n, (b*b) % n)
  else do
    let d ← tryFactor n ab.1 ab.2
    pure (ab.1, ab.2, d)

/-! ### `final_step` around the kernel solver

`finalStep n fb rels kernel isPrime`: `fb` = the primes of the factor base in index order
(`fb.idx(p)` = position), `kernel` = the vectors returned by `kernel_gauss`/`kernel_lanczos` as
lists of indices into the filtered relations (an INPUT: the solvers are property C14),
`isPrime` = `crate::pseudoprime` (property C06). Returns (slots, number of filtered relations,
divisors). -/

/-- `fb.idx(f as u32)` -/
def fbIdx (fb : List Nat) (f : Int) : Option Nat :=
  let v := (f % (W32 : Int)).toNat
  let rec go : List Nat → Nat → Option Nat
    | [], _ => none
    | p :: t, i => if p = v then some i else go t (i + 1)
  go fb 0

def modifyAt {α : Type} (f : α → α) : Nat → List α → List α
  | _, [] => []
  | 0, a :: t => f a :: t
  | i + 1, a :: t => a :: modifyAt f i t

/-- registration of one factor in `occs` -/
def occStep (fb : List Nat) (occs : List (Int × Nat)) (f : Int) (k : Nat) : M (List (Int × Nat)) :=
  if f = -1 then pure (modifyAt (fun o => (-1, if k % 2 = 1 then o.2 + 1 else o.2)) 0 occs)
  else
    match fbIdx fb f with
    | some i => pure (modifyAt (fun o => (f, if k % 2 = 1 then o.2 + 1 else o.2)) (i + 1) occs)
    | none => if k % 2 = 0 then pure occs else throw .panic     -- assert!(k % 2 == 0, ..)

def occFactors (fb : List Nat) : List (Int × Nat) → List (Int × Nat) → M (List (Int × Nat))
  | [], occs => pure occs
  | (f, k) :: t, occs => do
    let o ← occStep fb occs f k
    occFactors fb t o

def occRels (fb : List Nat) : List Relation → List (Int × Nat) → M (List (Int × Nat))
  | [], occs => pure occs
  | r :: t, occs => do
    let o ← occFactors fb r.factors occs
    occRels fb t o

/-- stable insertion for `sort_by_key(|&(_, k)| -(k as i64))` : decreasing count, ties in order -/
def insertOcc (x : Int × Nat) : List (Int × Nat) → List (Int × Nat)
  | [] => [x]
  | y :: t => if y.2 ≥ x.2 then y :: insertOcc x t else x :: y :: t

def sortOccs (l : List (Int × Nat)) : List (Int × Nat) := l.foldl (fun acc x => insertOcc x acc) []

def findPos {α : Type} (p : α → Bool) : List α → Nat → Option Nat
  | [], _ => none
  | a :: t, i => if p a then some i else findPos p t (i + 1)

/-- the closure `get_index` (idxs default to 0; `debug_assert!(occs[i].0 == f)`) -/
def getIndex (fb : List Nat) (occs : List (Int × Nat)) (f : Int) : M (Option Nat) :=
  let look : M (Option Nat) :=
    let i := (findPos (fun o => o.1 == f) occs 0).getD 0
    match occs[i]? with
    | none => throw .panic                                     -- occs[i]
    | some o => if o.1 = f then pure (some i) else throw .debug
  if f = -1 then look
  else match fbIdx fb f with
    | none => pure none
    | some _ => look

/-- one relation of the `'skiprel` loop: `none` = skipped -/
def filterFactors (fb : List Nat) (occs : List (Int × Nat)) (nfactors : Nat) :
    List (Int × Nat) → M Bool
  | [] => pure true
  | (f, k) :: t =>
    if k % 2 = 0 then filterFactors fb occs nfactors t
    else do
      let i ← getIndex fb occs f
      match i with
      | none => throw .panic                                   -- get_index(f).unwrap()
      | some idx => if idx < nfactors then filterFactors fb occs nfactors t else pure false

def filterRels (n : Nat) (fb : List Nat) (occs : List (Int × Nat)) (nfactors : Nat) :
    List Relation → M (List Relation)
  | [] => pure []
  | r :: t => do
    let keep ← filterFactors fb occs nfactors r.factors
    let rest ← filterRels n fb occs nfactors t
    if keep then pure ({ r with x := if r.x ≥ n then r.x % n else r.x } :: rest) else pure rest

def checkRels (n : Nat) : List Relation → M Unit
  | [] => pure ()
  | r :: t =>
    match verify n r with                                      -- debug_assert!(r.verify(n))
    | .ok true => checkRels n t
    | _ => throw .debug

def kernelLoop (n : Nat) (slots : List Int) (rels : List Relation) (isPrime : Nat → Bool) :
    List (List Nat) → List Nat → M (List Nat)
  | [], divs => pure divs
  | eq :: t, divs => do
    let r ← kernelStep n slots rels eq
    match r.2.2 with
    | none => kernelLoop n slots rels isPrime t divs
    | some (p, q) =>
      if isPrime p && isPrime q then pure (divs ++ [p, q])
      else kernelLoop n slots rels isPrime t (divs ++ [p, q])

def insertNat (x : Nat) : List Nat → List Nat
  | [] => [x]
  | y :: t => if x < y then x :: y :: t else if x = y then y :: t else y :: insertNat x t

/-- `sort_unstable(); dedup()` -/
def sortDedup (l : List Nat) : List Nat := l.foldl (fun acc x => insertNat x acc) []

def finalStep (n : Nat) (fb : List Nat) (rels : List Relation) (kernel : List (List Nat))
    (isPrime : Nat → Bool) : M (List Int × Nat × List Nat) := do
  checkRels n rels
  let occs0 ← occRels fb rels ((List.range (fb.length + 1)).map fun _ => ((0 : Int), 0))
  let occs := sortOccs (occs0.filter fun o => o.1 != 0)
  let nfactors := (findPos (fun o => decide (o.2 ≤ 1)) occs 0).getD occs.length
  let filt ← filterRels n fb occs nfactors rels
  -- kernel computation happens here (input)
  if n % 2 = 0 ∨ bits n > 512 then throw .panic               -- ZmodN::new(*n)
  else do
    let slots := occs.map (·.1)
    let divs ← kernelLoop n slots filt isPrime kernel []
    pure (slots, filt.length, sortDedup divs)

end Ymq.Relations
