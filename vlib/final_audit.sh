#!/bin/bash
# Consistency audit of the committed state of /verif (run before the last commit):
# tracked imports / modules, evidence and manifest schemas, /repo clean, hook audit, fix commits exist.
cd "$(dirname "$0")/.." || exit 2
rc=0
say() { echo "AUDIT: $*"; rc=1; }
for f in lean/Ymq.lean lean/Ymq/Drv/All.lean; do
  for m in $(grep "^import Ymq" $f | awk '{print $2}'); do
    p=lean/$(echo $m | tr . /).lean
    git ls-files --error-unmatch "$p" >/dev/null 2>&1 || say "$f imports untracked $p"
  done
done
for m in $(grep "^mod ops_" harness/src/handlers.rs | sed 's/mod \(.*\);/\1/'); do
  git ls-files --error-unmatch harness/src/$m.rs >/dev/null 2>&1 || say "handlers.rs uses untracked harness/src/$m.rs"
done
for f in props/*.py translate/*.py vlib/*.py vlib/*.sh corpus/*/*; do
  [ -f "$f" ] || continue
  git ls-files --error-unmatch "$f" >/dev/null 2>&1 || say "untracked file $f"
done
for f in evidence/*.json; do
  b=$(basename $f .json)
  echo "$b" | grep -qE '^C(0[1-9]|1[0-9]|20)$' || say "stray evidence file $f"
done
python3-vt - <<'PY' || rc=1
import json, jsonschema, glob, sys
bad = 0
m = json.load(open('MANIFEST.json'))
try:
    jsonschema.validate(m, json.load(open('/root/.vp/MANIFEST.schema.json')))
except Exception as e:
    print("AUDIT: MANIFEST invalid:", str(e)[:200]); bad = 1
sch = json.load(open('/root/.vp/EVIDENCE.schema.json'))
for f in sorted(glob.glob('evidence/C*.json')):
    e = json.load(open(f))
    try:
        jsonschema.validate(e, sch)
    except Exception as ex:
        print("AUDIT:", f, "invalid:", str(ex)[:200]); bad = 1
    c = e.get('coverage', {})
    if c.get('discharged') != c.get('obligations') or not c.get('obligations'):
        print("AUDIT:", f, "obligations", c.get('obligations'), "discharged", c.get('discharged')); bad = 1
    if e.get('tier', 'quick') != 'quick':
        print("AUDIT:", f, "is not from a quick run:", e.get('tier')); bad = 1
k = json.load(open('known_findings.json'))
import subprocess
log = subprocess.run(["git", "-C", "/repo", "log", "--format=%h %s"], capture_output=True, text=True).stdout
for fx in k['fixed']:
    for c in fx['commit'].replace('+', ' ').split():
        if c.strip() and c.strip()[:7] not in log:
            print("AUDIT: fixed entry names a commit that is not in /repo:", c); bad = 1
fixes = [l.split()[0] for l in log.splitlines() if l.split(" ", 1)[1].startswith("fix:")]
listed = " ".join(fx['commit'] for fx in k['fixed'])
for c in fixes:
    if c[:7] not in listed:
        print("AUDIT: fix commit of /repo not recorded in known_findings.json:", c); bad = 1
sys.exit(bad)
PY
[ -z "$(git -C /repo status --short | grep -v '^??')" ] || say "/repo has uncommitted changes"
python3 vlib/hook_audit.py >/dev/null 2>&1 || say "hook audit fails"
grep -rnE '\b(sorry|admit|native_decide|bv_decide)\b|^axiom |implemented_by|maxHeartbeats 0' lean/Ymq --include=*.lean | grep -v -- '--' | grep -vE '/-|^\S+:\d+:\s*(--|/-)' | head -5 | while read l; do echo "AUDIT(grep, may be inside a comment): $l"; done
[ $rc -eq 0 ] && echo "AUDIT: ok"
exit $rc
