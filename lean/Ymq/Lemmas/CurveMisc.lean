/-
Light curve identities of C15 proved by unfolding the translated formulas (Gen/Curves.lean):
ecm128 formulas = twisted ecm formulas, fused double-add, negation, curve constructors, Suyama
generator. Heavy identities live in the generated modules Curve*Closed / Curve*Add* / CurveSuyama.
-/
import Ymq.Lemmas.CurveDefs

namespace Ymq.Curve
open Ymq.Gen.Curves
variable {R : Type} [CommRing R]

/-! ### ecm128 = ecm with a = -1 (syntactic after translation) -/

theorem e128_add_eq (g : Pt R) (d : R) (p q : Ext R) : e128Add g p q = ecmAddext d true p q := by
  simp only [e128Add, ecmAddext, ecmAddextAux, Bool.false_eq_true, ↓reduceIte]

theorem e128_dblext_eq (g : Pt R) (d : R) (p : Pt R) : e128Dblext g p = ecmDblext d true p := by
  simp only [e128Dblext, ecmDblext, ↓reduceIte]

theorem e128_double_eq (g : Pt R) (d : R) (p : Pt R) : e128Double g p = ecmDouble d true p := by
  simp only [e128Double, ecmDouble, ↓reduceIte]

theorem e128_ext_eq (g : Pt R) (d : R) (p : Pt R) : e128Ext g p = ecmToExtended d true p := by
  simp only [e128Ext, ecmToExtended]

/-- `dbladd(p, q) = add(dblext(p), q)` without the last coordinate -/
theorem e128_dbladd_eq (g : Pt R) (p : Pt R) (q : Ext R) :
    e128Dbladd g p q = (e128Add g (e128Dblext g p) q).toProj := by
  simp only [e128Dbladd, e128Add, Ext.toProj]

/-- ecm128's validity test (same quadric as the generator) follows from the curve equation with the
`d` of the generator's curve. -/
theorem e128_is_valid_of (g : Pt R) (d : R) (p : Ext R) (hg : ecmIsValidext d true (e128Ext g g))
    (hp : ecmIsValidext d true p) : e128IsValid g p := by
  obtain ⟨gx, gy, gz⟩ := g
  obtain ⟨x, y, z, t⟩ := p
  simp only [e128IsValid, e128IsValidSides, e128Ext, ecmIsValidext, ecmIsValidextSides, ↓reduceIte] at hg hp ⊢
  linear_combination (t * t) * hg - (gx * gy * (gx * gy)) * hp

/-! ### negation and subtraction -/

theorem subextproj_eq (d : R) (tw : Bool) (p q : Ext R) :
    ecmSubextproj d tw p q = ecmAddextproj d tw p (negExt q) := by
  simp only [ecmSubextproj, negExt, zero_sub]

theorem negExt_valid (d : R) (tw : Bool) (q : Ext R) (h : ecmIsValidext d tw q) (hq : OnQuadric q) :
    ecmIsValidext d tw (negExt q) ∧ OnQuadric (negExt q) := by
  obtain ⟨x, y, z, t⟩ := q
  cases tw <;>
  · simp only [ecmIsValidext, ecmIsValidextSides, negExt, OnQuadric, Bool.false_eq_true, ↓reduceIte] at h hq ⊢
    exact ⟨by linear_combination h, by linear_combination -hq⟩

/-- dropping `t` of a valid extended point on the quadric gives a valid projective point -/
theorem toProj_valid (d : R) (tw : Bool) (p : Ext R) (h : ecmIsValidext d tw p) (hq : OnQuadric p) :
    ecmIsValid d tw p.toProj := by
  obtain ⟨x, y, z, t⟩ := p
  cases tw <;>
  · simp only [ecmIsValidext, ecmIsValidextSides, ecmIsValid, ecmIsValidSides, Ext.toProj, OnQuadric,
      Bool.false_eq_true, ↓reduceIte] at h hq ⊢
    linear_combination (z * z) * h + d * (t * z + x * y) * hq

/-- `addextproj` computes the first three coordinates of `addext` -/
theorem addextproj_eq (d : R) (tw : Bool) (p q : Ext R) :
    ecmAddextproj d tw p q = (ecmAddext d tw p q).toProj := by
  simp only [ecmAddextproj, ecmAddext, ecmAddextAux, Ext.toProj]

/-- the extended addition is not unified: on equal arguments it returns the zero quadruple (a = ±1,
no hypothesis needed). `scalar64_chainmul` therefore returns `(0,0,0)` whenever a double-add step
meets `2 Q = ± i P` — e.g. on points of order 4, or when a chain prefix `m` has `2 m ≡ ± i` modulo the
order of `P`. -/
theorem addext_self (d : R) (tw : Bool) (p : Ext R) : ecmAddext d tw p p = ⟨0, 0, 0, 0⟩ := by
  obtain ⟨x, y, z, t⟩ := p
  cases tw <;>
  · simp only [ecmAddext, ecmAddextAux, Bool.false_eq_true, ↓reduceIte, Ext.mk.injEq]
    exact ⟨by ring, by ring, by ring, by ring⟩

/-- `params`: `(σ + 1)(3x + z) = 72 z` and `r (3x + z)² = 432 y z` when `(3x+z)²` is invertible -/
theorem suyama_params_rel (inv : R → R) (a b gx gy : R) (pt : Pt R)
    (hinv : ((pt.z + pt.x + (pt.x + pt.x)) * (pt.z + pt.x + (pt.x + pt.x))) *
      inv ((pt.z + pt.x + (pt.x + pt.x)) * (pt.z + pt.x + (pt.x + pt.x))) = 1) :
    ((suyamaParams inv a b gx gy pt).1 + 1) * (3 * pt.x + pt.z) = 72 * pt.z ∧
    (suyamaParams inv a b gx gy pt).2 * ((3 * pt.x + pt.z) * (3 * pt.x + pt.z)) = 432 * (pt.y * pt.z) := by
  obtain ⟨x, y, z⟩ := pt
  simp only [suyamaParams] at hinv ⊢
  push_cast
  generalize inv ((z + x + (x + x)) * (z + x + (x + x))) = w at hinv ⊢
  constructor
  · linear_combination (72 * z) * hinv
  · linear_combination (432 * y * z) * hinv

/-! ### curve constructors -/

/-- `twisted_from_point`: the generator lies on the curve with the `d` it computes (when `x²y²` is
invertible, i.e. when the constructor does not return an unexpected factor) -/
theorem twisted_from_point_valid (inv : R → R) (d0 : R) (tw0 : Bool) (g : Pt R)
    (hinv : (g.x * g.x * (g.y * g.y)) * inv (g.x * g.x * (g.y * g.y)) = 1) :
    ecmIsValid (ecmTwistedFromPoint inv d0 tw0 g) true g := by
  obtain ⟨x, y, z⟩ := g
  simp only [ecmIsValid, ecmIsValidSides, ecmTwistedFromPoint, ↓reduceIte] at hinv ⊢
  linear_combination (-(z * z * (y * y - x * x - z * z))) * hinv

/-- `from_point(x, y)`: `(x, y, 1)` lies on the a = +1 curve with the `d` it computes -/
theorem from_point_valid (inv : R → R) (x y : R) (h1 : (1 : R) * inv 1 = 1) (hxy : (x * y) * inv (x * y) = 1) :
    ecmIsValid (ecmFromPoint inv x y).1 false (ecmFromPoint inv x y).2 := by
  simp only [ecmIsValid, ecmIsValidSides, ecmFromPoint, Bool.false_eq_true, ↓reduceIte]
  have h1' : inv (1 : R) = 1 := by simpa using h1
  rw [h1']
  linear_combination (-(x * x + y * y - 1) * (x * y * inv (x * y) + 1)) * hxy

/-- the generator (12 - 1/3, 24) of `Suyama11::new` lies on `y² = x³ - 361/3 x + 10582/27` -/
theorem suyama_generator_valid (t : R) (h3 : ((3 : Nat) : R) * t = 1) :
    suyamaIsValid (suyamaConsts t).1 (suyamaConsts t).2.1 (suyamaConsts t).2.2.1 (suyamaConsts t).2.2.2
      ⟨(suyamaConsts t).2.2.1, (suyamaConsts t).2.2.2, 1⟩ := by
  simp only [suyamaIsValid, suyamaIsValidSides, suyamaConsts]
  push_cast at h3 ⊢
  linear_combination (-3527 * t ^ 2 - 1308 * t + 1152 : R) * h3

end Ymq.Curve
