/-
The two `debug_assert!`s of `pm1_stage2_polyeval` on canonical residues (Model/Pm1Impl.lean `expCheckPanics`):
`exp_modn` returns a reduced residue (`expModn_lt`), so an assertion `x == exp_modn(g, e)` holds as soon as `x ≡ g^e`
(`expCheckPanics_false`); the giant loop holds `h^(i²)` / `h^(2i+1)` (`giantLoop_heads`), hence the second assertion
(`gexp == g^(d2²·d1/2)`) never fails (`giant_assert_holds`); the baby loop ends with `bg ≡ g^bexp` reduced
(`babyLoop_last`), hence the first one never fails either (`baby_assert_holds`).
-/
import Ymq.Lemmas.Pm1Baby
import Ymq.Lemmas.Stage2Pm1
import Mathlib.Data.List.Sort

namespace Ymq.Pm1Impl
open Ymq.ExpModn Ymq.Stage2 Ymq.Gen

theorem expModn_lt {m g e x : Nat} (hm : 0 < m) (hg : g < m) (h : expModn (mulm m) (onem m) g e = some x) : x < m := by
  have hnat := expModn_natural (fun a : Nat => a % m) (mulm m) (mulm m)
    (by intro a b; simp [mulm, Nat.mul_mod]) (onem m) g e
  simp only [onem, Nat.mod_mod, Nat.mod_eq_of_lt hg] at hnat
  simp only [onem] at h
  rw [h] at hnat
  simp only [Option.map_some, Option.some.injEq] at hnat
  rw [← hnat]
  exact Nat.mod_lt _ hm

/-- a `debug_assert!(x == exp_modn(g, e))` on canonical residues holds as soon as `x ≡ g^e` -/
theorem expCheckPanics_false {m g x e : Nat} (hm : 0 < m) (hg : g < m) (hx : x < m) (he : e < 2 ^ 64)
    (hmod : x ≡ g ^ e [MOD m]) : expCheckPanics m g x e = false := by
  unfold expCheckPanics
  obtain ⟨y, hy, hymod⟩ := expModn_mod (m := m) g e he
  rw [hy]
  have hylt := expModn_lt hm hg hy
  have : x = y := by
    have h := hmod.trans hymod.symm
    unfold Nat.ModEq at h
    rwa [Nat.mod_eq_of_lt hx, Nat.mod_eq_of_lt hylt] at h
  simp [this]

/-- heads of the two lists of the giant loop: `steps` holds `h^(i²)`, `gaps` holds `h^(2i+1)` -/
theorem giantLoop_heads {m h ddg : Nat} (hdd : ddg ≡ h ^ 2 [MOD m]) :
    ∀ (k i gexp dg : Nat) (sR gR : List Nat), gexp ≡ h ^ (i * i) [MOD m] → dg ≡ h ^ (2 * i + 1) [MOD m] →
      ∃ s d sT gT, giantLoop m ddg (k + 1) gexp dg sR gR = (s :: sT, d :: gT) ∧
        s ≡ h ^ ((i + k) * (i + k)) [MOD m] ∧ d ≡ h ^ (2 * (i + k) + 1) [MOD m] ∧ (0 < m → s < m ∨ (k = 0 ∧ s = gexp))
  | 0, i, gexp, dg, sR, gR, hge, hdg => ⟨gexp, dg, sR, gR, rfl, by simpa using hge, by simpa using hdg, fun _ => Or.inr ⟨rfl, rfl⟩⟩
  | k + 1, i, gexp, dg, sR, gR, hge, hdg => by
    rw [giantLoop]
    have h1 : mulm m gexp dg ≡ h ^ ((i + 1) * (i + 1)) [MOD m] := by
      unfold mulm
      refine (Nat.mod_modEq _ _).trans ?_
      have := hge.mul hdg
      rw [← pow_add] at this
      rw [show (i + 1) * (i + 1) = i * i + (2 * i + 1) by ring]
      exact this
    have h2 : mulm m dg ddg ≡ h ^ (2 * (i + 1) + 1) [MOD m] := by
      unfold mulm
      refine (Nat.mod_modEq _ _).trans ?_
      have := hdg.mul hdd
      rw [← pow_add] at this
      rw [show 2 * (i + 1) + 1 = 2 * i + 1 + 2 by ring]
      exact this
    obtain ⟨s, d, sT, gT, e1, e2, e3, e4⟩ := giantLoop_heads hdd k (i + 1) _ _ (gexp :: sR) (dg :: gR) h1 h2
    refine ⟨s, d, sT, gT, e1, ?_, ?_, fun hm => ?_⟩
    · rw [show i + (k + 1) = i + 1 + k by omega]; exact e2
    · rw [show i + (k + 1) = i + 1 + k by omega]; exact e3
    · rcases e4 hm with h | ⟨_, h⟩
      · exact Or.inl h
      · left; rw [h]; exact Nat.mod_lt _ hm

theorem giant_assert_holds {m g d1 d2 dg : Nat} (hm : 0 < m) (hg : g < m) (hd1 : d1 % 2 = 0) (hd2 : 1 ≤ d2)
    (hfit : d2 * d2 * d1 < 2 ^ 64) (hdg : expModn (mulm m) (onem m) g (d1 / 2) = some dg) :
    expCheckPanics m g (gexpEnd m (giantLoop m (mulm m dg dg) d2 (onem m) dg [] [])) (d2 * d2 * d1 / 2) = false := by
  have hd1le : d1 ≤ d2 * d2 * d1 := Nat.le_mul_of_pos_left _ (Nat.mul_pos hd2 hd2)
  obtain ⟨y, hy, hymod⟩ := expModn_mod (m := m) g (d1 / 2) (by omega)
  rw [hdg] at hy
  simp only [Option.some.injEq] at hy
  subst hy
  obtain ⟨k, rfl⟩ : ∃ k, d2 = k + 1 := ⟨d2 - 1, by omega⟩
  obtain ⟨s, d, sT, gT, e1, e2, e3, _⟩ := giantLoop_heads (m := m) (h := dg) (g2_modEq m dg) k 0 (onem m) dg [] []
    (by unfold onem; simpa using Nat.mod_modEq 1 m) (by simp; exact Nat.ModEq.refl _)
  rw [e1]
  have hval : gexpEnd m (s :: sT, d :: gT) = mulm m s d := rfl
  rw [hval]
  refine expCheckPanics_false hm hg (Nat.mod_lt _ hm) (by omega) ?_
  unfold mulm
  refine (Nat.mod_modEq _ _).trans ?_
  have h1 := e2.mul e3
  rw [← pow_add] at h1
  refine h1.trans ?_
  have h2 := hymod.pow ((0 + k) * (0 + k) + (2 * (0 + k) + 1))
  rw [← pow_mul] at h2
  have he : d1 / 2 * ((0 + k) * (0 + k) + (2 * (0 + k) + 1)) = (k + 1) * (k + 1) * d1 / 2 := by
    obtain ⟨c, rfl⟩ : ∃ c, d1 = 2 * c := ⟨d1 / 2, by omega⟩
    rw [show (k + 1) * (k + 1) * (2 * c) = 2 * ((k + 1) * (k + 1) * c) by ring]
    rw [Nat.mul_div_cancel_left _ (by decide : 0 < 2), Nat.mul_div_cancel_left _ (by decide : 0 < 2)]
    ring
  rw [he] at h2
  exact h2

theorem babyLoop_last {m g g2 d1 : Nat} (hm : 0 < m) (hg2 : g2 ≡ g ^ 2 [MOD m]) :
    ∀ (f b bexp bg : Nat) (gaps vT : List Nat), b % 2 = 1 → bexp % 2 = 1 → bexp ≤ b → b ≤ d1 + 1 →
      d1 + 3 ≤ b + 2 * f → bg ≡ g ^ bexp [MOD m] → bg < m → GInv m g gaps →
      ∃ vs X, babyLoop m d1 g2 f b bexp bg gaps (bg :: vT) = some vs ∧ vs.getLast? = some X ∧ X < m ∧
        X ≡ g ^ (babyLastExp d1 f b bexp) [MOD m]
  | 0, b, _, _, _, _, _, _, _, hb, hf, _, _, _ => by omega
  | f + 1, b, bexp, bg, gaps, vT, hbo, heo, hle, hb, hf, hbg, hlt', hgaps => by
    rw [babyLoop, babyLastExp]
    split
    · rename_i hlt
      simp only
      split
      · exact babyLoop_last hm hg2 f (b + 2) bexp bg gaps vT (by omega) heo (by omega) (by omega) (by omega) hbg hlt' hgaps
      · obtain ⟨gaps', hext, hlen, hg'⟩ :=
          extendGaps_spec hg2 ((b + 2 - bexp) / 2 + 1) gaps ((b + 2 - bexp) / 2) hgaps (by omega)
        rw [hext]
        simp only
        rw [if_neg (by omega)]
        have hidx : (b + 2 - bexp) / 2 - 1 < gaps'.length := by omega
        rw [List.getElem?_eq_getElem hidx]
        simp only
        have hgp := hg'.2 _ _ (List.getElem?_eq_getElem hidx)
        have hbg' : mulm m bg gaps'[(b + 2 - bexp) / 2 - 1] ≡ g ^ (b + 2) [MOD m] := by
          unfold mulm
          refine (Nat.mod_modEq _ _).trans ?_
          have := hbg.mul hgp
          rw [← pow_add] at this
          have hpe : bexp + (2 * ((b + 2 - bexp) / 2 - 1) + 2) = b + 2 := by omega
          rw [hpe] at this
          exact this
        exact babyLoop_last hm hg2 f (b + 2) (b + 2) _ gaps' (bg :: vT) (by omega) (by omega) le_rfl (by omega) (by omega)
          hbg' (Nat.mod_lt _ hm) hg'
    · exact ⟨_, bg, rfl, by simp, hlt', hbg⟩

/-- the first `debug_assert!` of `pm1_stage2_polyeval` (`bg == exp_modn(g, bexp)`) never fails -/
theorem baby_assert_holds {m g d1 : Nat} (hm : 0 < m) (hg : g < m) (hd : d1 + 1 < 2 ^ 64) :
    ∃ vs, babySteps m d1 g = some vs ∧
      expCheckPanics m g (vs.getLast?.getD g) (babyLastExp d1 (d1 + 2) 1 1) = false := by
  have hG : GInv m g [mulm m g g] := by
    refine ⟨by simp, fun i v hv => ?_⟩
    match i, hv with
    | 0, hv =>
      simp only [List.getElem?_cons_zero, Option.some.injEq] at hv
      subst hv
      exact g2_modEq m g
    | i + 1, hv => simp at hv
  obtain ⟨vs, X, h1, h2, h3, h4⟩ := babyLoop_last (d1 := d1) hm (g2_modEq m g) (d1 + 2) 1 1 g [mulm m g g] []
    (by decide) (by decide) le_rfl (by omega) (by omega) (by rw [pow_one]) hg hG
  refine ⟨vs, h1, ?_⟩
  rw [h2]
  simp only [Option.getD_some]
  refine expCheckPanics_false hm hg h3 ?_ h4
  have : ∀ f b bexp, bexp ≤ b → b ≤ d1 + 1 → babyLastExp d1 f b bexp ≤ d1 + 1 := by
    intro f
    induction f with
    | zero => intro b bexp h1 h2; simp only [babyLastExp]; omega
    | succ f ih =>
      intro b bexp h1 h2
      rw [babyLastExp]
      split
      · simp only
        split
        · exact ih _ _ (by omega) (by omega)
        · exact ih _ _ le_rfl (by omega)
      · omega
  have := this (d1 + 2) 1 1 le_rfl (by omega)
  omega

theorem mulLinear_length (m r : Nat) (c : List Nat) : (mulLinear m r c).length = c.length + 1 := by
  simp [mulLinear]

theorem fromRoots_length (m : Nat) (roots : List Nat) : (fromRoots m roots).length = roots.length + 1 := by
  unfold fromRoots
  have : ∀ (rs c : List Nat), (rs.foldl (fun c r => mulLinear m r c) c).length = c.length + rs.length := by
    intro rs
    induction rs with
    | nil => intro c; simp
    | cons r rs ih => intro c; rw [List.foldl_cons, ih, mulLinear_length]; simp; omega
  rw [this]; simp; omega

theorem polyVals_isSome {m g d1 d2 : Nat} (hm : 0 < m) (hg : g < m) (h6 : d1 % 6 = 0) (hd : d1 + 1 < 2 ^ 64)
    (hpow : d2 = 2 ^ Nat.log2 d2) (h56 : 56 ≤ d2)
    (hlen : ∀ vs, babySteps m d1 g = some vs → vs.length + 1 ≤ d2) : (polyVals m d1 d2 g).isSome = true := by
  obtain ⟨vs, hvs, hassert⟩ := baby_assert_holds (d1 := d1) hm hg hd
  obtain ⟨dg, hdg, _⟩ := expModn_mod (m := m) g (d1 / 2) (by omega)
  have hl := hlen vs hvs
  unfold polyVals
  rw [if_neg (by omega), hvs]
  simp only
  rw [hassert]
  simp only [Bool.false_eq_true, if_false, hdg]
  have hgiant : ¬ (d2 * d2 * d1 < 2 ^ 64 ∧
      expCheckPanics m g (gexpEnd m (giantLoop m (mulm m dg dg) d2 (onem m) dg [] [])) (d2 * d2 * d1 / 2) = true) := by
    rintro ⟨hfit, hc⟩
    rw [giant_assert_holds hm hg (by omega) (by omega) hfit hdg] at hc
    exact absurd hc (by simp)
  cases hgl : giantLoop m (mulm m dg dg) d2 (onem m) dg [] [] with
  | mk sR gR =>
    rw [hgl] at hgiant
    simp only
    have h2 : ¬ (d2 = 0 ∨ d2 ≠ 2 ^ Nat.log2 d2) := by
      intro h
      rcases h with h | h
      · omega
      · exact h hpow
    have h3 : ¬ d2 / 2 < 28 := by omega
    have h4 : ¬ (fromRoots m vs).length > d2 := by rw [fromRoots_length]; omega
    have hpos : 1 ≤ vs.length := by
      obtain ⟨vs', idx, e1, e2, e3, _⟩ := babySteps_spec m g d1
      rw [hvs] at e1
      simp only [Option.some.injEq] at e1
      subst e1
      rw [e2.length_eq]
      exact List.length_pos_of_mem ((e3 1).mpr (Or.inl rfl))
    have h5 : ¬ (fromRoots m vs).length < 2 := by rw [fromRoots_length]; omega
    rw [if_neg hgiant, if_neg h2, if_neg h3, if_neg h4, if_neg h5]
    rfl

theorem babySteps_spec_idx (m g : Nat) {d1 : Nat} (h6 : 6 ∣ d1) (hd : 0 < d1) :
    ∃ vs idx, babySteps m d1 g = some vs ∧ List.Forall₂ (fun v r => v ≡ g ^ r [MOD m]) vs idx ∧
      (∀ r, r ∈ idx ↔ isPm1Baby d1 r = true) ∧ idx.Pairwise (· < ·) := by
  obtain ⟨vs, idx, h1, h2, h3, h4⟩ := babySteps_spec m g d1
  refine ⟨vs, idx, h1, h2, fun r => ?_, h4⟩
  rw [h3, pm1Baby_iff h6 hd]
  obtain ⟨k, rfl⟩ := h6
  constructor
  · rintro (rfl | ⟨a1, a2, _, _, a5⟩)
    · exact ⟨by omega, by omega, by simp⟩
    · exact ⟨by omega, a2, a5⟩
  · rintro ⟨a1, a2, a3⟩
    by_cases hr : r = 1
    · exact Or.inl hr
    · refine Or.inr ⟨by omega, a2, ?_, ?_, a3⟩
      · rcases Nat.mod_two_eq_zero_or_one r with h | h
        · exfalso
          have : 2 ∣ Nat.gcd r (6 * k) := Nat.dvd_gcd (Nat.dvd_of_mod_eq_zero h) ⟨3 * k, by ring⟩
          rw [a3] at this; omega
        · exact h
      · intro h
        have : 3 ∣ Nat.gcd r (6 * k) := Nat.dvd_gcd (Nat.dvd_of_mod_eq_zero h) ⟨2 * k, by ring⟩
        rw [a3] at this; omega

/-- the number of baby steps is `pm1Deg d1` (the degree of the polynomial `from_roots` builds) -/
theorem babySteps_length {m g d1 : Nat} (h6 : 6 ∣ d1) (hd : 0 < d1) {vs : List Nat} (h : babySteps m d1 g = some vs) :
    vs.length = pm1Deg d1 := by
  obtain ⟨vs', idx, e1, e2, e3, e4⟩ := babySteps_spec_idx m g h6 hd
  rw [h] at e1
  simp only [Option.some.injEq] at e1
  subst e1
  rw [e2.length_eq]
  unfold pm1Deg
  congr 1
  refine List.Pairwise.eq_of_mem_iff e4 (List.Pairwise.sublist List.filter_sublist List.pairwise_lt_range) fun r => ?_
  rw [e3, List.mem_filter, List.mem_range]
  constructor
  · intro hb
    have := ((pm1Baby_iff h6 hd).mp hb).2.1
    refine ⟨?_, hb⟩
    delta Stage2Arms.pm1Baby
    simp only
    omega
  · exact fun h => h.2

/-- the baby steps are the `g^r` over exactly the list `pm1_found` multiplies over -/
theorem babySteps_exact (m g : Nat) {d1 : Nat} (h6 : 6 ∣ d1) (hd : 0 < d1) :
    ∃ vs, babySteps m d1 g = some vs ∧
      List.Forall₂ (fun v r => v ≡ g ^ r [MOD m]) vs ((List.range (d1 + 2)).filter (isPm1Baby d1)) := by
  obtain ⟨vs, idx, e1, e2, e3, e4⟩ := babySteps_spec_idx m g h6 hd
  refine ⟨vs, e1, ?_⟩
  have : idx = (List.range (d1 + 2)).filter (isPm1Baby d1) := by
    refine List.Pairwise.eq_of_mem_iff e4 (List.Pairwise.sublist List.filter_sublist List.pairwise_lt_range) fun r => ?_
    rw [e3, List.mem_filter, List.mem_range]
    constructor
    · intro hb
      have := ((pm1Baby_iff h6 hd).mp hb).2.1
      exact ⟨by omega, hb⟩
    · exact fun h => h.2
  rw [← this]
  exact e2

theorem polyVals_isSome_deg {m g d1 d2 : Nat} (hm : 0 < m) (hg : g < m) (h6 : 6 ∣ d1) (hd0 : 0 < d1) (hd : d1 + 1 < 2 ^ 64)
    (hpow : d2 = 2 ^ Nat.log2 d2) (h56 : 56 ≤ d2) (hdeg : pm1Deg d1 + 1 ≤ d2) : (polyVals m d1 d2 g).isSome = true :=
  polyVals_isSome hm hg (Nat.mod_eq_zero_of_dvd h6) hd hpow h56 (fun vs hvs => by rw [babySteps_length h6 hd0 hvs]; exact hdeg)

end Ymq.Pm1Impl
