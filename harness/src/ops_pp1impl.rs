//! Williams P+1 as a whole (C16): `pp1::pp1` on the real code; the Lean side answers with the whole-function
//! model (lean/Ymq/Model/Pp1Impl.lean).  A result is printed as `none` or `some f1,f2,.. rest` with the
//! factors IN THE ORDER RETURNED.  Trailing arguments of the request are annotations read by the oracle only.
use crate::util::*;
use yamaquasi::pp1;
use yamaquasi::{Uint, Verbosity};

fn show(r: Option<(Vec<Uint>, Uint)>) -> String {
    match r {
        None => "none".to_string(),
        Some((fs, rest)) => format!("some {} {}", show_list(&fs), rest),
    }
}

pub fn handle(op: &str, a: &[&str]) -> Option<String> {
    match (op, a) {
        ("pp1_impl", [n, seed, b1, b2, ..]) => {
            let n = uint_of(n)?;
            Some(show(pp1::pp1(n, u64_of(seed)?, u64_of(b1)?, u64_of(b2)? as f64, Verbosity::Silent)))
        }
        _ => None,
    }
}
