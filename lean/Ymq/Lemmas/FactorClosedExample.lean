/-
A concrete oracle assembled from the MODEL functions of the other properties (state `Unit`):
`perfectPower` (C08), `pseudoprime` (C06), `rho64` (C16), `finalStep` (C11, on two fixed
relations modulo 15). All other sub-algorithms answer `None`. Used by the non-vacuity examples of
Props/C01Closed.lean.
-/
import Ymq.Lemmas.FactorClosed
import Ymq.Lemmas.FactorExample
import Ymq.Model.Pseudoprime

namespace Ymq.Factor.Closed

open Ymq.Factor

/-- 7² ≡ 2² and 2² = 2² (mod 15): the two relations of the C11 example -/
def rels15 : List Ymq.Relations.Relation :=
  [{ x := 7, cofactor := 1, cyclelen := 1, factors := [(2, 2)] },
   { x := 2, cofactor := 1, cyclelen := 1, factors := [(2, 2)] }]

def sieveOf : Ymq.Relations.M (List Int × Nat × List Nat) → SieveRes
  | .ok (_, _, ds) => .divs ds
  | .error _ => .divs []

def rhoOf : Option (Option (Nat × Nat)) → Option (List Nat × Nat)
  | some (some (a, b)) => some ([a], b)
  | _ => none

def modelOracle : Oracle Unit where
  pp := fun s n => ((Ymq.Arith.perfectPower n).join, s)
  prime := fun s m => (Ymq.Pseudoprime.pseudoprime m == some true, s)
  rho := fun s n => (rhoOf (Ymq.ExpModn.rho64 n 1 128), s)
  pm1q := fun s _ => (none, s)
  ecmauto := fun s _ => (none, s)
  pm1 := fun s _ => (none, s)
  ecm := fun s _ => (none, s)
  ecm128 := fun s _ => (none, s)
  qs64 := fun s _ => (none, s)
  squfof := fun s _ => (none, s)
  abort := fun s _ => (false, s)
  sieve := fun s _ n =>
    (sieveOf (Ymq.Relations.finalStep n [2] rels15 [[0, 1]] (fun _ => true)), s)

theorem model_pp : UsesPerfectPower modelOracle := by
  intro t n r h
  simp only [modelOracle] at h
  cases hp : Ymq.Arith.perfectPower n with
  | none => rw [hp] at h; simp at h
  | some v =>
    rw [hp] at h
    simp only [Option.join_some] at h
    rw [h]

theorem model_finalStep : UsesFinalStep modelOracle := by
  intro t alg n ds h
  simp only [modelOracle] at h
  cases hf : Ymq.Relations.finalStep n [2] rels15 [[0, 1]] (fun _ => true) with
  | error e =>
    rw [hf] at h
    simp only [sieveOf] at h
    injection h with h
    exact Or.inl h.symm
  | ok v =>
    obtain ⟨slots, cnt, ds'⟩ := v
    rw [hf] at h
    simp only [sieveOf] at h
    injection h with h
    subst h
    exact Or.inr ⟨[2], rels15, [[0, 1]], fun _ => true, slots, cnt, hf⟩

theorem model_qs64 : UsesQs64 modelOracle := by
  intro t n a b h; simp [modelOracle] at h

theorem model_rho : UsesRho64 modelOracle := by
  intro t n as b h
  simp only [modelOracle] at h
  cases hr : Ymq.ExpModn.rho64 n 1 128 with
  | none => rw [hr] at h; simp [rhoOf] at h
  | some v =>
    cases v with
    | none => rw [hr] at h; simp [rhoOf] at h
    | some ab =>
      obtain ⟨a, b'⟩ := ab
      rw [hr] at h
      simp only [rhoOf] at h
      injection h with h
      injection h with h1 h2
      subst h1 h2
      exact ⟨1, 128, a, hr, rfl⟩

theorem model_pm1 : UsesPm1 modelOracle :=
  ⟨by intro t n as b h; simp [modelOracle] at h, by intro t n as b h; simp [modelOracle] at h⟩

theorem model_ecm : UsesEcmExits modelOracle :=
  ⟨by intro t n a b h; simp [modelOracle] at h, by intro t n a b h; simp [modelOracle] at h,
    by intro t n a b h; simp [modelOracle] at h⟩

theorem model_squfof : UsesSqufofExit modelOracle := by
  intro t n a b h; simp [modelOracle] at h

theorem model_sieve_not_unexpected (t : Unit) (alg : Algo) (n d : Nat) :
    (modelOracle.sieve t alg n).1 ≠ .unexpected d := by
  intro h
  simp only [modelOracle] at h
  cases hf : Ymq.Relations.finalStep n [2] rels15 [[0, 1]] (fun _ => true) with
  | error e => rw [hf] at h; simp [sieveOf] at h
  | ok v => obtain ⟨slots, cnt, ds'⟩ := v; rw [hf] at h; simp [sieveOf] at h

theorem model_unexpected : UsesUnexpectedFactor modelOracle :=
  fun t alg n d h => absurd h (model_sieve_not_unexpected t alg n d)

theorem model_residual : ResidualOK modelOracle where
  unexpectedNotWhole := fun s alg n d _ h => absurd h (model_sieve_not_unexpected s alg n d)

end Ymq.Factor.Closed
