/-
The invariant of the square-form cycle and its preservation by the common loop body
(squfof.rs:37-44 / 68-75, `Ymq.Squfof.step`).

With `N = n·k` not a perfect square and `s = ⌊√N⌋`, the state `(p_prev, q_prev, q) = (P, Q', Q)`
satisfies
    P² + Q'·Q = N,   1 ≤ P ≤ s,   s < P + Q'                                   (`Inv`)
(the principal cycle of reduced forms: `0 < P < √N`, `√N − P < Q' `). From it:
`Q ≥ 1` (no division by zero), `Q ≤ s + P` (so `b ≥ 1`), `b·Q > P` (no underflow), every
intermediate value `< N < 2^64` (no overflow), `q_prev − b·(p − p_prev) > 0` (no underflow), and
the next state `(p, Q, qnext)` satisfies `Inv` again.
-/
import Ymq.Model.Squfof
import Mathlib.Tactic.Ring
import Mathlib.Tactic.Linarith
import Mathlib.Tactic.LinearCombination
import Mathlib.Tactic.Zify
import Mathlib.Tactic.Positivity

namespace Ymq.Squfof

/-- `N < 2^64` is not a perfect square and `s` is its floor square root -/
structure Ctx (N s : Nat) : Prop where
  lt : N < W
  lo : s * s < N
  hi : N < (s + 1) * (s + 1)

/-- the loop invariant on `(p_prev, q_prev, q)` -/
structure Inv (N s P Q' Q : Nat) : Prop where
  norm : P * P + Q' * Q = N
  ppos : 1 ≤ P
  ple : P ≤ s
  red : s < P + Q'

theorem Ctx.s_lt {N s : Nat} (c : Ctx N s) : s < 4294967296 := by
  by_contra h
  have : 4294967296 * 4294967296 ≤ s * s := Nat.mul_le_mul (by omega) (by omega)
  have := c.lt; have := c.lo
  unfold W at *
  omega

theorem Ctx.s_pos {N s : Nat} (c : Ctx N s) : 1 ≤ s := by
  rcases Nat.eq_zero_or_pos s with h | h
  · subst h; have := c.hi; have := c.lo; omega
  · exact h

section
variable {N s P Q' Q : Nat}

theorem Inv.sq_lt (c : Ctx N s) (h : Inv N s P Q' Q) : P * P < N :=
  Nat.lt_of_le_of_lt (Nat.mul_le_mul h.ple h.ple) c.lo

theorem Inv.qpos (c : Ctx N s) (h : Inv N s P Q' Q) : 1 ≤ Q := by
  rcases Nat.eq_zero_or_pos Q with h0 | h0
  · subst h0
    have := h.norm; have := h.sq_lt c
    simp at *; omega
  · exact h0

theorem Inv.qprev_pos (h : Inv N s P Q' Q) : 1 ≤ Q' := by
  have := h.ple; have := h.red; omega

theorem Inv.q_le (c : Ctx N s) (h : Inv N s P Q' Q) : Q ≤ N := by
  have h1 : Q ≤ Q' * Q := Nat.le_mul_of_pos_left Q h.qprev_pos
  have := h.norm; omega

theorem Inv.qprev_le (c : Ctx N s) (h : Inv N s P Q' Q) : Q' ≤ N := by
  have h1 : Q' ≤ Q' * Q := Nat.le_mul_of_pos_right Q' (h.qpos c)
  have := h.norm; omega

/-- `Q < √N + P`: the quotient `b` is at least 1 -/
theorem Inv.q_le_sp (c : Ctx N s) (h : Inv N s P Q' Q) : Q ≤ s + P := by
  by_contra hc
  obtain ⟨d, hd⟩ := Nat.exists_eq_add_of_le h.ple           -- s = P + d
  obtain ⟨a, ha⟩ := Nat.exists_eq_add_of_le (Nat.succ_le_of_lt h.red)   -- P + Q' = s + 1 + a
  obtain ⟨e, he⟩ := Nat.exists_eq_add_of_le (Nat.succ_le_of_lt (Nat.lt_of_not_le hc))
  have hQ' : Q' = d + 1 + a := by omega
  have hQ : Q = 2 * P + d + 1 + e := by omega
  have hn := h.norm
  have hi := c.hi
  subst hd hQ' hQ
  have : (P + d + 1) * (P + d + 1) ≤ P * P + (d + 1 + a) * (2 * P + d + 1 + e) := by
    have e1 : P * P + (d + 1 + a) * (2 * P + d + 1 + e)
        = (P + d + 1) * (P + d + 1) + ((d + 1) * e + a * (2 * P + d + 1 + e)) := by ring
    omega
  omega

end

/-- the body with the quotient named and the first four panic sites discharged -/
theorem step_eq (s P Q' Q b : Nat) (hb : b = (s + P) / Q) (h1 : s + P < W) (hQ : Q ≠ 0)
    (h2 : b * Q < W) (h3 : P ≤ b * Q) :
    step s P Q' Q =
      if P > b * Q - P then
        if b * (P - (b * Q - P)) ≥ W then none
        else if Q' + b * (P - (b * Q - P)) ≥ W then none
        else some (b * Q - P, Q' + b * (P - (b * Q - P)))
      else
        if b * (b * Q - P - P) ≥ W then none
        else if Q' < b * (b * Q - P - P) then none
        else some (b * Q - P, Q' - b * (b * Q - P - P)) := by
  subst hb
  unfold step
  have a1 : ¬ s + P ≥ W := by omega
  have a2 : ¬ (s + P) / Q * Q ≥ W := by omega
  have a3 : ¬ (s + P) / Q * Q < P := by omega
  simp only [if_neg a1, if_neg hQ, if_neg a2, if_neg a3]

/-- **the loop body never panics on a reduced state and keeps the invariant** -/
theorem step_ok {N s P Q' Q : Nat} (c : Ctx N s) (h : Inv N s P Q' Q) :
    ∃ p qn, step s P Q' Q = some (p, qn) ∧ Inv N s p Q qn := by
  have hs := c.s_lt
  have hQ := h.qpos c
  have hQle := h.q_le_sp c
  have hple := h.ple
  have hred := h.red
  have hnorm := h.norm
  have hQ'N := h.qprev_le c
  have hNW := c.lt
  -- the quotient
  obtain ⟨b, hb⟩ : ∃ b, b = (s + P) / Q := ⟨_, rfl⟩
  have hb1 : b * Q ≤ s + P := by rw [hb]; exact Nat.div_mul_le_self _ _
  have hb2 : s + P < b * Q + Q := by
    have := Nat.lt_mul_div_succ (s + P) (show 0 < Q by omega)
    rw [← hb] at this
    have e : Q * (b + 1) = b * Q + Q := by ring
    omega
  have hbpos : 1 ≤ b := by rw [hb]; exact Nat.div_pos hQle (by omega)
  have hbQ : Q ≤ b * Q := Nat.le_mul_of_pos_left Q hbpos
  have hPlt : P + 1 ≤ b * Q := by
    rcases Nat.lt_or_ge s Q with hq | hq <;> omega
  rw [step_eq s P Q' Q b hb (by unfold W; omega) (by omega) (by unfold W; omega) (by omega)]
  -- p = b Q - P
  obtain ⟨p, hp⟩ : ∃ p, p = b * Q - P := ⟨_, rfl⟩
  rw [← hp]
  have hp1 : 1 ≤ p := by omega
  have hps : p ≤ s := by omega
  have hpred : s < p + Q := by omega
  have hpp : p * p < N := Nat.lt_of_le_of_lt (Nat.mul_le_mul hps hps) c.lo
  have hpI : (p : Int) = (b : Int) * Q - P := by
    have : p + P = b * Q := by omega
    have : ((p + P : Nat) : Int) = ((b * Q : Nat) : Int) := by rw [this]
    push_cast at this
    linarith
  have hnI : (P : Int) * P + Q' * Q = N := by exact_mod_cast hnorm
  by_cases hcase : P > p
  · rw [if_pos hcase]
    -- qnext = Q' + b (P - p)
    have hqn : p * p + Q * (Q' + b * (P - p)) = N := by
      zify [show p ≤ P by omega]
      linear_combination hnI + ((p : Int) - P) * hpI
    have hle : Q' + b * (P - p) ≤ Q * (Q' + b * (P - p)) := Nat.le_mul_of_pos_left _ hQ
    have a1 : ¬ b * (P - p) ≥ W := by omega
    have a2 : ¬ Q' + b * (P - p) ≥ W := by omega
    rw [if_neg a1, if_neg a2]
    exact ⟨p, _, rfl, ⟨hqn, hp1, hps, hpred⟩⟩
  · rw [if_neg hcase]
    have hPp : P ≤ p := by omega
    -- Q (Q' - t) = N - p² > 0 over the integers
    have key : (Q : Int) * (Q' - b * (p - P)) = N - p * p := by
      linear_combination hnI + ((p : Int) - P) * hpI
    have hpos : (0 : Int) < N - p * p := by
      have : ((p * p : Nat) : Int) < (N : Int) := by exact_mod_cast hpp
      push_cast at this; linarith
    have hQI : (0 : Int) < Q := by exact_mod_cast hQ
    have hlt : (b : Int) * (p - P) < Q' := by
      by_contra hc
      have : (Q : Int) * (Q' - b * (p - P)) ≤ 0 :=
        mul_nonpos_of_nonneg_of_nonpos hQI.le (by linarith)
      linarith
    have hltN : b * (p - P) < Q' := by
      zify [hPp]; exact hlt
    have hqn : p * p + Q * (Q' - b * (p - P)) = N := by
      zify [hPp, hltN.le]
      linarith
    have a1 : ¬ b * (p - P) ≥ W := by omega
    have a2 : ¬ Q' < b * (p - P) := by omega
    rw [if_neg a1, if_neg a2]
    exact ⟨p, _, rfl, ⟨hqn, hp1, hps, hpred⟩⟩

/-- values produced by the body are `u64`s (needed to apply the seed hypothesis) -/
theorem step_lt {s P Q' Q p qn : Nat} (hQ' : Q' < W) (h : step s P Q' Q = some (p, qn)) :
    p < W ∧ qn < W := by
  unfold step at h
  simp only [] at h
  split_ifs at h with h1 h2 h3 h4 h5 h6 h7 h8 h9
  all_goals injection h with h; injection h with ha hb; subst ha hb
  · constructor <;> omega
  · constructor <;> omega

end Ymq.Squfof
