/-
Model of the GF(2) kernel solvers of src/matrix/gf2.rs (property C14).

* `kernelGauss`  : `kernel_gauss` (lines 54-108) on columns given as bit lists
  (`List Bool`, index 0 first, exactly the indexing of `bitvec_simd::BitVec`).
* `qsOptimize`   : `qs_optimize` (dense 64-row block + coordinate list).
* `optMul`       : `impl Mul<&Block> for &SparseMatOpt` (dense block product, copy of the first 64
  rows, coordinate list), `spMul`: `impl Mul<&Block> for &SparseMat`, `blockDot`: `&Block * &Block`.
* `lanczosFinal` : the final stage of `kernel_lanczos` (from `let by = b * &y;` to the end):
  B·Y, bit columns, `kernel_gauss`, Y·K, removal of the null vectors with `swap_remove`.
  The randomised Lanczos iteration itself is NOT modelled: it is an arbitrary producer of `Y`.

Conventions: machine words are `Nat`; every panic site (assert, debug_assert, index out of
range) returns `none`; loops take fuel. No Mathlib import (linked into the native driver).

Representation choices (checked by the correspondence stream, see props/c14.py):
* the three parallel vectors `zeros`, `coefs`, `cols` of `kernel_gauss` are one list of records
  `Col`; the prefix `[..done]` (never touched again by the code) is the list `pre`, the suffix
  `[done..]` the list `rest`;
* `sort_unstable_by_key` in `qs_optimize` only permutes the coordinate list; the model keeps the
  unsorted list (`optMul_perm` in Lemmas/Gf2Sparse.lean: the product does not depend on the order);
* the block product `&Block * &Block` is modelled twice: `blockDotRot` follows the code (rotation
  trick, transposition), `blockDot` is its defining sum, used by `optMul`; they are equal on 64-bit
  words (`blockDotRot_eq` in Lemmas/Gf2Rot.lean).
-/
namespace Ymq.Gf2

abbrev BVec := List Bool

/-- number of leading `false` entries -/
def lzAux : List Bool → Nat
  | [] => 0
  | true :: _ => 0
  | false :: t => lzAux t + 1

/-- `BitVec::leading_zeros`: number of zero entries above the highest set index
(`nbits` when no bit is set). -/
def lzTop (v : BVec) : Nat := lzAux v.reverse

/-- entrywise xor (the code's `xor_inplace` asserts equal lengths, see `elim`) -/
def vxor (a b : BVec) : BVec := List.zipWith xor a b

/-- `BitVec::zeros(n)` with bit `i` set -/
def unitVec (n i : Nat) : BVec := (List.range n).map (fun j => j == i)

/-- `BitVec::none()` -/
def isZero (v : BVec) : Bool := v.all (fun b => b == false)

/-- `M · v` over GF(2): xor of the columns of `M` selected by `v` (`size` = number of rows). -/
def mulVec (size : Nat) : List BVec → BVec → BVec
  | c :: M, b :: v => if b then vxor c (mulVec size M v) else mulVec size M v
  | _, _ => List.replicate size false

/-- one position of the three parallel vectors of `kernel_gauss` -/
structure Col where
  z : Nat          -- zeros[j]
  coef : BVec      -- coefs[j]
  col : BVec       -- cols[j]
deriving Repr, DecidableEq

/-- position and value of the first minimum (`Iterator::min_by_key` returns the first of
several equal minima); `(0, 0)` for the empty list (not reached). -/
def firstMin : List Nat → Nat × Nat
  | [] => (0, 0)
  | [x] => (0, x)
  | x :: y :: t =>
    let r := firstMin (y :: t)
    if x ≤ r.2 then (0, x) else (r.1 + 1, r.2)

/-- the three `swap(i, done)` calls: exchange the head of `[done..]` with position `p`. -/
def swapHead (x : Col) (t : List Col) : Nat → Col × List Col
  | 0 => (x, t)
  | q + 1 =>
    match t[q]? with
    | some y => (y, t.set q x)
    | none => (x, t)

/-- body of the elimination loop for one later column. `none`: the `assert_eq!` on lengths of
`xor_inplace` fails. -/
def elim (pivot e : Col) : Option Col :=
  if e.z = pivot.z then
    if e.col.length = pivot.col.length ∧ e.coef.length = pivot.coef.length then
      let c := vxor e.col pivot.col
      some { z := lzTop c, coef := vxor e.coef pivot.coef, col := c }
    else none
  else some e

def elimAll (pivot : Col) : List Col → Option (List Col)
  | [] => some []
  | e :: es =>
    match elim pivot e, elimAll pivot es with
    | some e', some es' => some (e' :: es')
    | _, _ => none

/-- `zeros[..done].iter().max().unwrap_or(&0)` -/
def maxZ (pre : List Col) : Nat := pre.foldl (fun m e => max m e.z) 0

inductive Step where
  | done (result : List BVec)
  | next (pre rest : List Col)
  | panic
deriving Repr

/-- one evaluation of the loop condition `done < ncols` and, when it holds, of the loop body;
when it does not hold, the code after the loop. `pre = [..done]`, `rest = [done..]`. -/
def gaussStep (size : Nat) (pre : List Col) : List Col → Step
  | [] =>
    -- after the loop: `if ncols > 0 && zeros[ncols - 1] == size`
    match pre.getLast? with
    | some e => if e.z = size then .done [e.coef] else .done []
    | none => .done []
  | x :: t =>
    let r := firstMin ((x :: t).map (·.z))
    if ¬ (maxZ pre ≤ r.2) then .panic                      -- first debug_assert
    else if x.z ≠ lzTop x.col then .panic                   -- second debug_assert
    else if r.2 = size then .done ((x :: t).map (·.coef))   -- return coefs[done..]
    else
      let (pivot, others) := swapHead x t r.1
      match elimAll pivot others with
      | none => .panic
      | some others' => .next (pre ++ [pivot]) others'

def gaussLoop (size : Nat) : Nat → List Col → List Col → Option (List BVec)
  | 0, _, _ => none
  | fuel + 1, pre, rest =>
    match gaussStep size pre rest with
    | .done r => some r
    | .panic => none
    | .next pre' rest' => gaussLoop size fuel pre' rest'

def initCols (ncols : Nat) : Nat → List BVec → List Col
  | _, [] => []
  | i, c :: cs => { z := lzTop c, coef := unitVec ncols i, col := c } :: initCols ncols (i + 1) cs

/-- `kernel_gauss(columns)` -/
def kernelGauss (columns : List BVec) : Option (List BVec) :=
  match columns with
  | [] => some []
  | c0 :: _ =>
    let size := c0.length
    if columns.all (fun c => c.length == size) then
      gaussLoop size (columns.length + 1) [] (initCols columns.length 0 columns)
    else none                                              -- assert!(all same length)

/-! ### sparse matrices, blocks of 64 vectors -/

/-- `SparseMatOpt` -/
structure SparseOpt where
  nx : Nat
  ny : Nat
  block : List Nat               -- one 64-bit word per column: rows 0..63
  xy : List (Nat × Nat)          -- (row, column) of the other entries
deriving Repr

def U32 : Nat := 4294967296

/-- dense word of one column: `dense.0[j] ^= 1 << i` for every `i < 64` of the column
(repeated indices cancel in pairs, as in every other product of the file) -/
def denseWord (col : List Nat) : Nat :=
  col.foldl (fun d i => if i < 64 then d ^^^ (1 <<< i) else d) 0

/-- `coords.push((i as u32, j as u32))` for every `i ≥ 64` of column `j` -/
def coordsOf (j : Nat) (col : List Nat) : List (Nat × Nat) :=
  (col.filter (fun i => ¬ i < 64)).map (fun i => (i % U32, j % U32))

def coordsFrom : Nat → List (List Nat) → List (Nat × Nat)
  | _, [] => []
  | j, col :: cols => coordsOf j col ++ coordsFrom (j + 1) cols

/-- `qs_optimize` (without the final sort of the coordinate list, see the header) -/
def qsOptimize (k : Nat) (cols : List (List Nat)) : SparseOpt :=
  { nx := k, ny := cols.length, block := cols.map denseWord, xy := coordsFrom 0 cols }

/-- `&Block * &Block`: word `i` is the xor of the `y` words whose `x` word has bit `i`. -/
def blockDot (x y : List Nat) : Option (List Nat) :=
  if x.length = y.length then
    some ((List.range 64).map (fun i =>
      (List.zip x y).foldl (fun acc p => if p.1.testBit i then acc ^^^ p.2 else acc) 0))
  else none                                                -- assert_eq!

/-! ### the rotation trick of `impl Mul<&Block> for &Block` (word level) -/

/-- `u64::rotate_right(r)` for a 64-bit word -/
def rotr64 (y r : Nat) : Nat := ((y >>> (r % 64)) ||| (y <<< (64 - r % 64))) % 2 ^ 64

/-- `u64::rotate_left(r)` for a 64-bit word -/
def rotl64 (y r : Nat) : Nat := ((y <<< (r % 64)) ||| (y >>> (64 - r % 64))) % 2 ^ 64

/-- `SmallMat::transpose`: bit `j` of row `i` is bit `i` of row `j` -/
def transposeW (m : List Nat) : List Nat :=
  (List.range 64).map (fun i =>
    (List.range 64).foldl (fun row j => if (m.getD j 0).testBit i then row ||| (1 <<< j) else row) 0)

/-- `&Block * &Block` as the code computes it: `m[r] ^= x & y.rotate_right(r)` over the rows,
transposition, then row `r` rotated left by `r`. -/
def blockDotRot (x y : List Nat) : Option (List Nat) :=
  if x.length = y.length then
    let m := (List.range 64).map (fun r =>
      (List.zip x y).foldl (fun acc p => acc ^^^ (p.1 &&& rotr64 p.2 r)) 0)
    let mt := transposeW m
    some ((List.range 64).map (fun r => rotl64 (mt.getD r 0) r))
  else none                                                -- assert_eq!

/-- `out[i] ^= rhs[j]` for every coordinate; `none` = index out of range -/
def applyCoords (rhs : Array Nat) : List (Nat × Nat) → Array Nat → Option (Array Nat)
  | [], out => some out
  | (i, j) :: cs, out =>
    match rhs[j]? with
    | none => none
    | some row => if i < out.size then applyCoords rhs cs (out.modify i (· ^^^ row)) else none

/-- `impl Mul<&Block> for &SparseMatOpt` -/
def optMul (a : SparseOpt) (rhs : List Nat) : Option (List Nat) :=
  if a.ny ≠ rhs.length then none                           -- assert_eq!
  else
    match blockDot a.block rhs with
    | none => none
    | some dense =>
      if a.nx < 64 then none                               -- out.0[i] = dense.0[i], i < 64
      else
        match applyCoords rhs.toArray a.xy (dense ++ List.replicate (a.nx - 64) 0).toArray with
        | none => none
        | some out => some out.toList

/-- `impl Mul<&Block> for &SparseMat`: `out[i] ^= rhs[j]` for every `i` of column `j`. -/
def spMulAux (rhs : Array Nat) : Nat → List (List Nat) → Array Nat → Option (Array Nat)
  | _, [], out => some out
  | j, col :: cols, out =>
    match applyCoords rhs (col.map (fun i => (i, j))) out with
    | none => none
    | some out' => spMulAux rhs (j + 1) cols out'

def spMul (k : Nat) (cols : List (List Nat)) (rhs : List Nat) : Option (List Nat) :=
  if cols.length ≠ rhs.length then none
  else (spMulAux rhs.toArray 0 cols (List.replicate k 0).toArray).map (·.toList)

/-- bit columns of a block: column `j` lists bit `j` of every word -/
def byBits (blk : List Nat) : List BVec :=
  (List.range 64).map (fun j => blk.map (fun w => w.testBit j))

/-- parity of `w & k` where `k` is read as a word (bit `t` of the word = `k[t]`) -/
def dotBits : Nat → BVec → Bool
  | _, [] => false
  | w, b :: k => xor (b && w % 2 == 1) (dotBits (w / 2) k)

/-- `Vec::swap_remove(i)` -/
def swapRemove {α} (l : List α) (i : Nat) : List α :=
  match l.getLast? with
  | none => l
  | some last => (l.dropLast).set i last

/-- `for i in 0..dimker { let i = dimker - 1 - i; if basis[i].none() { basis.swap_remove(i); } }`
(the argument counts the indices still to visit) -/
def popNull : Nat → List BVec → List BVec
  | 0, basis => basis
  | i + 1, basis =>
    match basis[i]? with
    | some v => if isZero v then popNull i (swapRemove basis i) else popNull i basis
    | none => popNull i basis

/-- final stage of `kernel_lanczos` for the matrix `(k, cols)` and the block `y` -/
def lanczosFinal (k : Nat) (cols : List (List Nat)) (y : List Nat) : Option (List BVec) :=
  match optMul (qsOptimize k cols) y with
  | none => none
  | some blk =>
    match kernelGauss (byBits blk) with
    | none => none
    | some ker =>
      let basis := ker.map (fun kv => y.map (fun w => dotBits w kv))
      some (popNull ker.length basis)

end Ymq.Gf2
