/-
Closing the oracle contract of the `Factor` control-flow model, second pass: the hypotheses
`UsesQs64` and `UsesSqufofExit` of Ymq/Lemmas/FactorClosed.lean (which mention abstract relations
resp. the named fact `0 < p_prev < n`) are replaced by "the field answers as the MODEL of the whole
function does" (`Qs64Model`: Ymq/Model/Qsieve64.lean; `SqufofModel`: Ymq/Model/Squfof.lean).

The models return a proper split only for arguments that are not tiny (`qsieve(6) = (1, 6)`,
`squfof(p) = (p, 1)` for the primes `p ≤ 47`), so the contract `OracleOK` — quantified over ALL
`n ≥ 2` — is false for them. What holds is the contract AT THE CALL SITES of `factor_impl`:
`factor` strips the 46 primes `≤ 199` first, every recursive argument divides the stripped value,
hence every argument of `qsieve` / `squfof` is `≥ 211` and (the arms assert it) at most 64 bits long.

Technique: `guardOracle o` answers `None` for `qs64`/`squfof` outside `Guard n := 51 ≤ n ∧ bits n ≤ 64`
and is `o` otherwise. (1) `factor o = factor (guardOracle o)` on every input (`factor_guard_eq`:
by induction, all call sites satisfy the guard — this threads `NoSmall` through the recursion);
(2) `OracleOK (guardOracle o)` follows from the models (`oracleOK_guard`). The old theorems are
untouched.
-/
import Ymq.Lemmas.FactorClosed
import Ymq.Props.C03Qs64
import Ymq.Props.C03Squfof

namespace Ymq.Factor

variable {σ : Type}
open Ymq.Gen.Primality (smallPrimes)

/-! ### numbers without prime factor `≤ 199` -/

/-- no prime of `SMALL_PRIMES` divides `n` -/
def NoSmall (n : Nat) : Prop := ∀ p ∈ smallPrimes, ¬ p ∣ n

theorem NoSmall.dvd {m n : Nat} (h : NoSmall n) (hd : m ∣ n) : NoSmall m :=
  fun p hp hpm => h p hp (Nat.dvd_trans hpm hd)

theorem small_has_small_factor : ∀ q, q < 211 → 2 ≤ q → ∃ p ∈ smallPrimes, p ∣ q := by
  decide +kernel

theorem NoSmall.ne_zero {n : Nat} (h : NoSmall n) : n ≠ 0 := by
  intro h0; subst h0
  exact h 2 (by decide) (Nat.dvd_zero 2)

theorem NoSmall.ge {n : Nat} (h : NoSmall n) (h1 : n ≠ 1) : 211 ≤ n := by
  by_contra hlt
  have h0 := h.ne_zero
  obtain ⟨p, hp, hd⟩ := small_has_small_factor n (by omega) (by omega)
  exact h p hp hd

/-! ### trial division removes every small prime -/

theorem trialGo_noSmall (p : Nat) (hp : 2 ≤ p) : ∀ (k nred : Nat) (fs : List Nat), nred ≠ 0 →
    nred < 2 ^ k →
    ¬ p ∣ (trialDivideBy.go p k nred fs).1 ∧ (trialDivideBy.go p k nred fs).1 ∣ nred ∧
      (trialDivideBy.go p k nred fs).1 ≠ 0 := by
  intro k
  induction k with
  | zero => intro nred fs h0 hlt; simp at hlt; omega
  | succ k ih =>
    intro nred fs h0 hlt
    rw [trialDivideBy.go]
    split
    · rename_i hmod
      have hdv : p ∣ nred := Nat.dvd_of_mod_eq_zero hmod
      have hq0 : nred / p ≠ 0 := by
        have := Nat.div_pos (Nat.le_of_dvd (by omega) hdv) (by omega)
        omega
      have hqlt : nred / p < 2 ^ k := by
        rw [Nat.div_lt_iff_lt_mul (by omega)]
        have : 2 ^ (k + 1) = 2 ^ k * 2 := pow_succ 2 k
        have : 2 ^ k * 2 ≤ 2 ^ k * p := Nat.mul_le_mul_left _ hp
        omega
      obtain ⟨g1, g2, g3⟩ := ih (nred / p) (fs ++ [p]) hq0 hqlt
      exact ⟨g1, Nat.dvd_trans g2 (Nat.div_dvd_of_dvd hdv), g3⟩
    · rename_i hmod
      exact ⟨fun hd => hmod (Nat.mod_eq_zero_of_dvd hd), dvd_refl _, h0⟩

theorem trialGo_dvd (p : Nat) : ∀ (k nred : Nat) (fs : List Nat),
    (trialDivideBy.go p k nred fs).1 ∣ nred := by
  intro k
  induction k with
  | zero => intro nred fs; rw [trialDivideBy.go]
  | succ k ih =>
    intro nred fs
    rw [trialDivideBy.go]
    split
    · rename_i hmod
      exact Nat.dvd_trans (ih _ _) (Nat.div_dvd_of_dvd (Nat.dvd_of_mod_eq_zero hmod))
    · exact dvd_refl _

theorem trialDivideBy_noSmall (fuel : Nat) : ∀ (ps : List Nat) (nred : Nat) (fs : List Nat),
    (∀ p ∈ ps, 2 ≤ p) → nred ≠ 0 → nred < 2 ^ fuel →
    (∀ p ∈ ps, ¬ p ∣ (trialDivideBy fuel ps nred fs).1) ∧ (trialDivideBy fuel ps nred fs).1 ∣ nred := by
  intro ps
  induction ps with
  | nil => intro nred fs _ _ _; rw [trialDivideBy]; exact ⟨fun p hp => (by cases hp), dvd_refl _⟩
  | cons p ps ih =>
    intro nred fs hps h0 hlt
    rw [trialDivideBy]
    obtain ⟨g1, g2, g3⟩ := trialGo_noSmall p (hps p List.mem_cons_self) fuel nred fs h0 hlt
    have hle : (trialDivideBy.go p fuel nred fs).1 ≤ nred := Nat.le_of_dvd (by omega) g2
    obtain ⟨h1, h2⟩ := ih (trialDivideBy.go p fuel nred fs).1 (trialDivideBy.go p fuel nred fs).2
      (fun q hq => hps q (List.mem_cons_of_mem _ hq)) g3 (by omega)
    refine ⟨?_, Nat.dvd_trans h2 g2⟩
    intro q hq
    rcases List.mem_cons.mp hq with rfl | hq
    · exact fun hd => g1 (Nat.dvd_trans hd h2)
    · exact h1 q hq

theorem lt_two_pow_of_bits {n k : Nat} (h : bits n ≤ k) : n < 2 ^ k := by
  unfold bits at h
  split at h
  · rename_i h0; subst h0; exact Nat.two_pow_pos k
  · rename_i h0
    have h1 : n < 2 ^ (Nat.log2 n + 1) := Nat.lt_log2_self
    exact lt_of_lt_of_le h1 (Nat.pow_le_pow_right (by decide) h)

/-- the value `factor` hands to `factor_impl` has no prime factor `≤ 199` -/
theorem trialDiv_noSmall {n : Nat} (h0 : n ≠ 0) (hb : bits n ≤ 500) : NoSmall (trialDiv n).1 := by
  have hlt : n < 2 ^ 1100 :=
    lt_of_lt_of_le (lt_two_pow_of_bits hb) (Nat.pow_le_pow_right (by omega) (by omega))
  have := (trialDivideBy_noSmall 1100 smallPrimes n [] smallPrimes_ge_two h0 hlt).1
  unfold NoSmall
  rw [trialDiv_def]
  exact this

/-! ### the guarded oracle -/

/-- what holds at every call of `qsieve64::qsieve` / `squfof::squfof` inside `factor_impl` -/
def Guard (n : Nat) : Prop := 51 ≤ n ∧ bits n ≤ 64

instance : DecidablePred Guard := fun n => by unfold Guard; infer_instance

/-- `o` with the `qs64` and `squfof` fields silenced outside `Guard` (the oracle state moves on as
in `o`) -/
def guardOracle (o : Oracle σ) : Oracle σ :=
  { o with
    qs64 := fun t n => if Guard n then o.qs64 t n else (none, (o.qs64 t n).2)
    squfof := fun t n => if Guard n then o.squfof t n else (none, (o.squfof t n).2) }

theorem guard_of_noSmall {n : Nat} (hns : NoSmall n) (h1 : n ≠ 1) (hb : ¬ bits n > 64) : Guard n :=
  ⟨by have := hns.ge h1; omega, by omega⟩

/-! ### congruence of one level in the recursive call -/

section congr
variable {o : Oracle σ} {rec rec' : Nat → St σ → Res (St σ)} {n : Nat}

theorem bindList_congr_dvd (hrec : ∀ m, m ∣ n → ∀ s, rec m s = rec' m s) :
    ∀ (L : List Nat) (s : St σ), (∀ m ∈ L, m ∣ n) →
    bindList (fun s m => rec m s) L s = bindList (fun s m => rec' m s) L s := by
  intro L
  induction L with
  | nil => intro s _; rfl
  | cons a as ih =>
    intro s hL
    simp only [bindList]
    rw [hrec a (hL a List.mem_cons_self)]
    cases rec' a s with
    | ok s' => exact ih s' (fun m hm => hL m (List.mem_cons_of_mem _ hm))
    | panic e => rfl
    | fuel => rfl

theorem split_congr (hok : OracleOK (guardOracle o)) (hn : 2 ≤ n)
    (hrec : ∀ m, m ∣ n → ∀ s, rec m s = rec' m s) {L : List Nat} (hL : IsSplit (guardOracle o) n L)
    (s : St σ) :
    bindList (fun s m => rec m s) L s = bindList (fun s m => rec' m s) L s :=
  bindList_congr_dvd hrec L s (fun m hm => (hL.parts hok hn m hm).2.1)

theorem autoRho_congr (hok : OracleOK (guardOracle o)) (hn : 2 ≤ n)
    (hrec : ∀ m, m ∣ n → ∀ s, rec m s = rec' m s) (s : St σ) :
    autoRho o rec n s = autoRho (guardOracle o) rec' n s := by
  unfold autoRho
  show (if bits n < 52 then
      match (o.rho s.os n).1 with
      | some (as, b) => Sum.inl (splitManyR rec { s with os := (o.rho s.os n).2 } as b)
      | none => Sum.inr { s with os := (o.rho s.os n).2 }
    else Sum.inr s) =
    (if bits n < 52 then
      match (o.rho s.os n).1 with
      | some (as, b) => Sum.inl (splitManyR rec' { s with os := (o.rho s.os n).2 } as b)
      | none => Sum.inr { s with os := (o.rho s.os n).2 }
    else Sum.inr s)
  split
  · split
    · rename_i as b hr
      rw [splitManyR_eq, splitManyR_eq,
        split_congr hok hn hrec (IsSplit.rho (o := guardOracle o) s.os as b hr)]
    · rfl
  · rfl

theorem autoPm1_congr (hok : OracleOK (guardOracle o)) (hn : 2 ≤ n)
    (hrec : ∀ m, m ∣ n → ∀ s, rec m s = rec' m s) (s : St σ) :
    autoPm1 o rec n s = autoPm1 (guardOracle o) rec' n s := by
  unfold autoPm1
  show (if bits n > 64 ∧ (!s.pm1done) = true then
      match (o.pm1q s.os n).1 with
      | some (as, b) => Sum.inl (splitManyR rec { s with os := (o.pm1q s.os n).2, pm1done := true } as b)
      | none => Sum.inr { s with os := (o.pm1q s.os n).2, pm1done := true }
    else Sum.inr s) =
    (if bits n > 64 ∧ (!s.pm1done) = true then
      match (o.pm1q s.os n).1 with
      | some (as, b) => Sum.inl (splitManyR rec' { s with os := (o.pm1q s.os n).2, pm1done := true } as b)
      | none => Sum.inr { s with os := (o.pm1q s.os n).2, pm1done := true }
    else Sum.inr s)
  split
  · split
    · rename_i as b hr
      rw [splitManyR_eq, splitManyR_eq,
        split_congr hok hn hrec (IsSplit.pm1q (o := guardOracle o) s.os as b hr)]
    · rfl
  · rfl

theorem autoEcm_congr (hok : OracleOK (guardOracle o)) (hn : 2 ≤ n)
    (hrec : ∀ m, m ∣ n → ∀ s, rec m s = rec' m s) (s : St σ) :
    autoEcm o rec n s = autoEcm (guardOracle o) rec' n s := by
  unfold autoEcm
  show (match (o.ecmauto s.os n).1 with
      | some (a, b) => Sum.inl (splitTwoR rec { s with os := (o.ecmauto s.os n).2 } a b)
      | none => Sum.inr (if bits n ≤ 80 then Algo.ecm128 else Algo.siqs, { s with os := (o.ecmauto s.os n).2 })) =
    (match (o.ecmauto s.os n).1 with
      | some (a, b) => Sum.inl (splitTwoR rec' { s with os := (o.ecmauto s.os n).2 } a b)
      | none => Sum.inr (if bits n ≤ 80 then Algo.ecm128 else Algo.siqs, { s with os := (o.ecmauto s.os n).2 }))
  split
  · rename_i a b hr
    rw [splitTwoR_eq, splitTwoR_eq,
      split_congr hok hn hrec (IsSplit.ecmauto (o := guardOracle o) s.os a b hr)]
  · rfl

theorem autoPhase_congr (hok : OracleOK (guardOracle o)) (hn : 2 ≤ n)
    (hrec : ∀ m, m ∣ n → ∀ s, rec m s = rec' m s) (alg : Algo) (s : St σ) :
    autoPhase o rec n alg s = autoPhase (guardOracle o) rec' n alg s := by
  unfold autoPhase
  split
  · rw [autoRho_congr hok hn hrec]
    cases autoRho (guardOracle o) rec' n s with
    | inl r => rfl
    | inr s1 =>
      simp only
      rw [autoPm1_congr hok hn hrec]
      cases autoPm1 (guardOracle o) rec' n s1 with
      | inl r => rfl
      | inr s2 => exact autoEcm_congr hok hn hrec s2
  · rfl

theorem armMany_congr (hrec : ∀ m, m ∣ n → ∀ s, rec m s = rec' m s) (s : St σ)
    (r : Option (List Nat × Nat) × σ)
    (hparts : ∀ as b, r.1 = some (as, b) → ∀ m ∈ as ++ [b], m ∣ n) :
    armMany rec n s r = armMany rec' n s r := by
  unfold armMany
  split
  · rename_i as b hr
    rw [splitManyR_eq, splitManyR_eq, bindList_congr_dvd hrec _ _ (hparts as b hr)]
  · rfl

theorem armTwo_congr (hrec : ∀ m, m ∣ n → ∀ s, rec m s = rec' m s) (s : St σ)
    (r : Option (Nat × Nat) × σ)
    (hparts : ∀ a b, r.1 = some (a, b) → ∀ m ∈ [a, b], m ∣ n) :
    armTwo rec n s r = armTwo rec' n s r := by
  unfold armTwo
  split
  · rename_i a b hr
    rw [splitTwoR_eq, splitTwoR_eq, bindList_congr_dvd hrec _ _ (hparts a b hr)]
  · rfl

theorem armPhase_congr (hok : OracleOK (guardOracle o)) (hns : NoSmall n) (h1 : n ≠ 1)
    (hrec : ∀ m, m ∣ n → ∀ s, rec m s = rec' m s) (algReal : Algo) (s : St σ) :
    armPhase o rec n algReal s = armPhase (guardOracle o) rec' n algReal s := by
  have hn : 2 ≤ n := by have := hns.ge h1; omega
  cases algReal with
  | auto => rfl
  | pm1 =>
    exact armMany_congr hrec s _ (fun as b hr =>
      fun m hm => ((IsSplit.pm1 (o := guardOracle o) s.os as b hr).parts hok hn m hm).2.1)
  | ecm =>
    exact armTwo_congr hrec s _ (fun a b hr =>
      fun m hm => ((IsSplit.ecm (o := guardOracle o) s.os a b hr).parts hok hn m hm).2.1)
  | ecm128 =>
    exact armTwo_congr hrec s _ (fun a b hr =>
      fun m hm => ((IsSplit.ecm128 (o := guardOracle o) s.os a b hr).parts hok hn m hm).2.1)
  | qs64 =>
    show (if bits n > 64 then Sum.inl (Res.panic "assert!(n.bits() <= 64)")
        else armTwo rec n s (o.qs64 s.os n)) =
      (if bits n > 64 then Sum.inl (Res.panic "assert!(n.bits() <= 64)")
        else armTwo rec' n s (if Guard n then o.qs64 s.os n else (none, (o.qs64 s.os n).2)))
    split
    · rfl
    · rename_i hb
      have hg := guard_of_noSmall hns h1 hb
      rw [if_pos hg]
      refine armTwo_congr hrec s _ (fun a b hr => fun m hm => ?_)
      have hr' : ((guardOracle o).qs64 s.os n).1 = some (a, b) := by
        show (if Guard n then o.qs64 s.os n else (none, (o.qs64 s.os n).2)).1 = some (a, b)
        rw [if_pos hg]; exact hr
      exact ((IsSplit.qs64 (o := guardOracle o) s.os a b hr').parts hok hn m hm).2.1
  | rho =>
    show (if bits n > 64 then Sum.inl (Res.panic "assert!(n.bits() <= 64)")
        else armMany rec n s (o.rho s.os n)) =
      (if bits n > 64 then Sum.inl (Res.panic "assert!(n.bits() <= 64)")
        else armMany rec' n s (o.rho s.os n))
    split
    · rfl
    · exact armMany_congr hrec s _ (fun as b hr =>
        fun m hm => ((IsSplit.rho (o := guardOracle o) s.os as b hr).parts hok hn m hm).2.1)
  | squfof =>
    show (if bits n > 64 then Sum.inl (Res.panic "assert!(n.bits() <= 64)")
        else armTwo rec n s (o.squfof s.os n)) =
      (if bits n > 64 then Sum.inl (Res.panic "assert!(n.bits() <= 64)")
        else armTwo rec' n s (if Guard n then o.squfof s.os n else (none, (o.squfof s.os n).2)))
    split
    · rfl
    · rename_i hb
      have hg := guard_of_noSmall hns h1 hb
      rw [if_pos hg]
      refine armTwo_congr hrec s _ (fun a b hr => fun m hm => ?_)
      have hr' : ((guardOracle o).squfof s.os n).1 = some (a, b) := by
        show (if Guard n then o.squfof s.os n else (none, (o.squfof s.os n).2)).1 = some (a, b)
        rw [if_pos hg]; exact hr
      exact ((IsSplit.squfof (o := guardOracle o) s.os a b hr').parts hok hn m hm).2.1
  | qs => rfl
  | mpqs => rfl
  | siqs => rfl

theorem finalStep_congr (hrec : ∀ m, m ∣ n → ∀ s, rec m s = rec' m s) (s : St σ) (f : Nat)
    (hf : f ∣ n) : finalStep o rec n s f = finalStep (guardOracle o) rec' n s f := by
  unfold finalStep
  show (if f = n then Res.ok (s.giveup f)
      else if (!(o.prime s.os f).1) = true then rec f { s with os := (o.prime s.os f).2 }
      else Res.ok ({ s with os := (o.prime s.os f).2 }.push f)) =
    (if f = n then Res.ok (s.giveup f)
      else if (!(o.prime s.os f).1) = true then rec' f { s with os := (o.prime s.os f).2 }
      else Res.ok ({ s with os := (o.prime s.os f).2 }.push f))
  rw [hrec f hf]

theorem bindList_finalStep_congr (hrec : ∀ m, m ∣ n → ∀ s, rec m s = rec' m s) :
    ∀ (L : List Nat) (s : St σ), (∀ f ∈ L, f ∣ n) →
    bindList (finalStep o rec n) L s = bindList (finalStep (guardOracle o) rec' n) L s := by
  intro L
  induction L with
  | nil => intro s _; rfl
  | cons a as ih =>
    intro s hL
    simp only [bindList]
    rw [finalStep_congr hrec s a (hL a List.mem_cons_self)]
    cases finalStep (guardOracle o) rec' n s a with
    | ok s' => exact ih s' (fun m hm => hL m (List.mem_cons_of_mem _ hm))
    | panic e => rfl
    | fuel => rfl

theorem sieveResult_congr (hrec : ∀ m, m ∣ n → ∀ s, rec m s = rec' m s) (s : St σ) (r : SieveRes)
    (hun : ∀ d, r = .unexpected d → d ∣ n) :
    sieveResult o rec n s r = sieveResult (guardOracle o) rec' n s r := by
  cases r with
  | unexpected d =>
    have hd := hun d rfl
    show (if d = 0 then Res.panic "division by zero (n / d)" else splitTwoR rec s d (n / d)) =
      (if d = 0 then Res.panic "division by zero (n / d)" else splitTwoR rec' s d (n / d))
    split
    · rfl
    · rw [splitTwoR_eq, splitTwoR_eq]
      refine bindList_congr_dvd hrec _ _ (fun m hm => ?_)
      simp only [List.mem_cons, List.not_mem_nil, or_false] at hm
      rcases hm with rfl | rfl
      · exact hd
      · exact Nat.div_dvd_of_dvd hd
  | divs ds =>
    cases ds with
    | nil => rfl
    | cons d ds =>
      show (match combineDivs [n] (d :: ds) with
        | .panic e => Res.panic e
        | .fuel => Res.fuel
        | .ok facs => bindList (finalStep o rec n) facs s) =
        (match combineDivs [n] (d :: ds) with
        | .panic e => Res.panic e
        | .fuel => Res.fuel
        | .ok facs => bindList (finalStep (guardOracle o) rec' n) facs s)
      cases hc : combineDivs [n] (d :: ds) with
      | panic e => rfl
      | fuel => rfl
      | ok facs =>
        exact bindList_finalStep_congr hrec facs s (fun f hf => ((combineDivs_single hc).2 f hf).1)

theorem sievePhase_congr (hok : OracleOK (guardOracle o)) (hn : 2 ≤ n)
    (hrec : ∀ m, m ∣ n → ∀ s, rec m s = rec' m s) (algReal : Algo) (s : St σ) :
    sievePhase o rec n algReal s = sievePhase (guardOracle o) rec' n algReal s := by
  unfold sievePhase
  show (if (o.abort s.os n).1 = true then Res.ok ({ s with os := (o.abort s.os n).2 }.giveup n)
      else if algReal ≠ .qs ∧ algReal ≠ .mpqs ∧ algReal ≠ .siqs then Res.panic "unreachable!(impossible)"
      else sieveResult o rec n { s with os := (o.sieve (o.abort s.os n).2 algReal n).2 }
        (o.sieve (o.abort s.os n).2 algReal n).1) =
    (if (o.abort s.os n).1 = true then Res.ok ({ s with os := (o.abort s.os n).2 }.giveup n)
      else if algReal ≠ .qs ∧ algReal ≠ .mpqs ∧ algReal ≠ .siqs then Res.panic "unreachable!(impossible)"
      else sieveResult (guardOracle o) rec' n { s with os := (o.sieve (o.abort s.os n).2 algReal n).2 }
        (o.sieve (o.abort s.os n).2 algReal n).1)
  split
  · rfl
  · split
    · rfl
    · refine sieveResult_congr hrec _ _ (fun d hd => ?_)
      exact (hok.sieveUnexpected (o.abort s.os n).2 algReal n d hn hd).1

theorem factorStep_congr (hok : OracleOK (guardOracle o)) (hns : NoSmall n)
    (hrec : ∀ m, m ∣ n → ∀ s, rec m s = rec' m s) (alg : Algo) (s : St σ) :
    factorStep o rec n alg s = factorStep (guardOracle o) rec' n alg s := by
  unfold factorStep
  by_cases h1 : n = 1
  · rw [if_pos h1, if_pos h1]
  · rw [if_neg h1, if_neg h1]
    have hn : 2 ≤ n := by have := hns.ge h1; omega
    show (match (o.pp s.os n).1 with
      | some (p, k) => ppResult s k (rec p { s with os := (o.pp s.os n).2, factors := [] })
      | none =>
        if (o.prime (o.pp s.os n).2 n).1 = true then
          Res.ok ({ s with os := (o.prime (o.pp s.os n).2 n).2 }.push n)
        else compositePhase o rec n alg { s with os := (o.prime (o.pp s.os n).2 n).2 }) =
      (match (o.pp s.os n).1 with
      | some (p, k) => ppResult s k (rec' p { s with os := (o.pp s.os n).2, factors := [] })
      | none =>
        if (o.prime (o.pp s.os n).2 n).1 = true then
          Res.ok ({ s with os := (o.prime (o.pp s.os n).2 n).2 }.push n)
        else compositePhase (guardOracle o) rec' n alg { s with os := (o.prime (o.pp s.os n).2 n).2 })
    split
    · rename_i p k hpp
      obtain ⟨hpk, hk, _⟩ := hok.pp s.os n p k hn hpp
      have hd : p ∣ n := by rw [← hpk]; exact dvd_pow_self p (by omega)
      rw [hrec p hd]
    · split
      · rfl
      · unfold compositePhase
        rw [autoPhase_congr hok hn hrec]
        cases autoPhase (guardOracle o) rec' n alg
            { s with os := (o.prime (o.pp s.os n).2 n).2 } with
        | inl r => rfl
        | inr p =>
          obtain ⟨algReal, s1⟩ := p
          simp only
          rw [armPhase_congr hok hns h1 hrec]
          cases armPhase (guardOracle o) rec' n algReal s1 with
          | inl r => rfl
          | inr s2 => exact sievePhase_congr hok hn hrec algReal s2

end congr

/-- on arguments without small prime factor the guarded oracle is indistinguishable from `o` -/
theorem factorImpl_guard_eq (o : Oracle σ) (hok : OracleOK (guardOracle o)) (alg : Algo) :
    ∀ (fuel n : Nat) (s : St σ), NoSmall n →
      factorImpl o fuel n alg s = factorImpl (guardOracle o) fuel n alg s := by
  intro fuel
  induction fuel with
  | zero => intro n s _; rw [factorImpl_zero, factorImpl_zero]
  | succ fuel ih =>
    intro n s hns
    rw [factorImpl_succ, factorImpl_succ]
    exact factorStep_congr hok hns (fun m hm s' => ih m s' (hns.dvd hm)) alg s

/-- `factor` itself does not see the guard: trial division comes first -/
theorem factor_guard_eq (o : Oracle σ) (hok : OracleOK (guardOracle o)) (fuel n : Nat) (alg : Algo)
    (os : σ) : factor o fuel n alg os = factor (guardOracle o) fuel n alg os := by
  rw [factor_eq, factor_eq]
  by_cases h0 : n = 0
  · rw [if_pos h0, if_pos h0]
  · rw [if_neg h0, if_neg h0]
    by_cases hb : bits n > 500
    · rw [if_pos hb, if_pos hb]
    · rw [if_neg hb, if_neg hb]
      unfold factorRun
      rw [factorImpl_guard_eq o hok alg fuel _ _ (trialDiv_noSmall h0 (by omega))]
      rfl

/-! ### the models as oracle fields -/

/-- the `qs64` field answers `Some((a, b))` only as the MODEL of `qsieve64::qsieve`
(Ymq/Model/Qsieve64.lean) does, for SOME multiplier inside the contract of `select_multiplier`
(`k < 30`; f64 scores not modelled), SOME kernel vectors (C14) and primality answers (C06).
No side condition on `n`. -/
def Qs64Model (o : Oracle σ) : Prop :=
  ∀ t n a b, (o.qs64 t n).1 = some (a, b) →
    ∃ k kernel isPrime, k < 30 ∧ Ymq.Qsieve64.qsieve n k kernel isPrime = .ok (some (a, b))

/-- the `squfof` field answers `Some((a, b))` only as the MODEL of `squfof::squfof`
(Ymq/Model/Squfof.lean) does. No side condition on `n`. -/
def SqufofModel (seed : Nat → Nat) (o : Oracle σ) : Prop :=
  ∀ t n a b, (o.squfof t n).1 = some (a, b) → Ymq.Squfof.squfof seed n = some (some (a, b))

theorem bits_le_64 {n : Nat} (h : bits n ≤ 64) : n < 2 ^ 64 := lt_two_pow_of_bits h

/-- **the contract at the call sites, from the models** -/
theorem oracleOK_guard {o : Oracle σ} {seed : Nat → Nat} (hseed : Ymq.Squfof.SeedOK seed)
    (hpp : UsesPerfectPower o) (hfs : UsesFinalStep o) (hqs : Qs64Model o) (hrho : UsesRho64 o)
    (hpm1 : UsesPm1 o) (hecm : UsesEcmExits o) (hsq : SqufofModel seed o)
    (hun : UsesUnexpectedFactor o) (hres : ResidualOK o) : OracleOK (guardOracle o) where
  pp := pp_clause (o := guardOracle o) hpp
  rho := rho_clause (o := guardOracle o) hrho
  pm1q := (pm1_clauses (o := guardOracle o) hpm1).1
  pm1 := (pm1_clauses (o := guardOracle o) hpm1).2
  ecmauto := fun s n a b hn h => (hecm.1 s n a b h).pairOK hn
  ecm := fun s n a b hn h => (hecm.2.1 s n a b h).pairOK hn
  ecm128 := fun s n a b hn h => (hecm.2.2 s n a b h).pairOK hn
  qs64 := by
    intro s n a b _ h
    change (if Guard n then o.qs64 s n else (none, (o.qs64 s n).2)).1 = some (a, b) at h
    by_cases hg : Guard n
    · rw [if_pos hg] at h
      obtain ⟨k, kernel, isPrime, hk, hm⟩ := hqs s n a b h
      obtain ⟨h1, h2, h3⟩ := Ymq.C03Qs64.qs64_proper n k kernel isPrime a b (bits_le_64 hg.2) hk
        (by have := hg.1; omega) hm
      exact ⟨h1, h2, h3⟩
    · rw [if_neg hg] at h; simp at h
  squfof := by
    intro s n a b hn h
    change (if Guard n then o.squfof s n else (none, (o.squfof s n).2)).1 = some (a, b) at h
    by_cases hg : Guard n
    · rw [if_pos hg] at h
      exact (Ymq.C03Squfof.squfof_exit hseed hg.1 (hsq s n a b h)).pairOK hn
    · rw [if_neg hg] at h; simp at h
  sieveDivs := sieveDivs_clause (o := guardOracle o) hfs
  sieveUnexpected := sieveUnexpected_clause (o := guardOracle o) hun ⟨hres.unexpectedNotWhole⟩

end Ymq.Factor
