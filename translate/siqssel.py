#!/usr/bin/env python3
"""Constants of siqs::select_siqs_factors / siqs::select_a (property C12): generator seed and shifts, loop constants,
thresholds of the exhaustive branch, floor of the target."""
import re, sys, os
sys.path.insert(0, os.path.dirname(os.path.abspath(__file__)))
from common import *
from rustexpr import find_fn


def run():
    src_ = src("src/siqs.rs")
    sa = find_fn(src_, "select_a")
    sf = find_fn(src_, "select_siqs_factors")
    seed = int_lit(must(r"let mut rng: u64 = (0x[0-9a-fA-F_]+);", sa, "select_a seed").group(1))
    m = must(r"rng \^= rng << (\d+);\s*rng \^= rng >> (\d+);\s*rng \^= rng << (\d+);\s*rng % fb as u64", sa, "select_a xorshift")
    shifts = [int(x) for x in m.groups()]
    m = must(r"while iters < (\d+) \* want \|\| candidates\.len\(\) < want \{\s*iters \+= 1;\s*"
             r"if iters % \((\d+) \* want\) == 0 && candidates\.len\(\) < want \{", sa, "select_a loop head")
    loop_iters, widen_every = int(m.group(1)), int(m.group(2))
    must(r"div = max\(div, 1\) - 1;\s*if div == 0 \{\s*amin = f\.target >> 2;\s*amax = f\.target << 2;\s*\} else \{\s*"
         r"amin = f\.target - f\.target / div as u64;\s*amax = f\.target \+ f\.target / div as u64;", sa, "select_a widening")
    m = must(r"if candidates\.len\(\) > (\d+) \* want && iters % (\d+) == 0 \{", sa, "select_a early exit")
    early_mult, early_every = int(m.group(1)), int(m.group(2))
    m = must(r"if f\.nfacs <= (\d+) && f\.target\.bits\(\) <= (\d+) \{\s*assert!\(f\.target\.bits\(\) < (\d+) \|\| f\.factors\[0\]\.p > (\d+)\);",
             sa, "select_a exhaustive branch")
    small_nf, small_bits, small_tbits, small_p0 = (int(x) for x in m.groups())
    must(r"max\(2, idx\) - 2\.\.min\(idx \+ 3, f\.factors\.len\(\)\)", sa, "select_a j range")
    mask_bits = int(must(r"let mut mask = 0u(\d+);", sa, "select_a mask type").group(1))
    must(r"if mask & \(1 << g\) == 0 \{\s*mask \|= 1 << g;", sa, "select_a mask update")
    must(r"\.filter\(\|g\| mask & \(1 << g\) == 0\)", sa, "select_a mask filter")
    must(r"assert!\(div >= 3\);", sa, "select_a divisor assertion")
    floor = int_lit(must(r"let target = max\(\s*Uint::from\((\d+)u64\),", sf, "target floor").group(1))
    must(r"for i in 1\.\.min\(fb\.len\(\), 2 \* idx \+ 4 \* nfacs\) \{", sf, "pool range")
    must(r"let selected_idx = if idx \+ 4 \* nfacs >= pool\.len\(\) \{.*?max\(pool\.len\(\), 4 \* nfacs\) - 4 \* nfacs\.\.pool\.len\(\)\s*\} else \{\s*"
         r"let imin = max\(idx, 2 \* nfacs\) - 2 \* nfacs;\s*imin\.\.imin \+ 4 \* nfacs\s*\};", sf, "selection window")
    must(r"assert!\(\s*selected_idx\.len\(\) > nfacs,", sf, "window assertion")
    out = ["namespace Ymq.Gen.SiqsSel", "",
           "/-- seed of the generator of `select_a` -/", f"def seed : Nat := {seed}", "",
           "/-- `rng ^= rng << a; rng ^= rng >> b; rng ^= rng << c` -/",
           f"def shiftA : Nat := {shifts[0]}", f"def shiftB : Nat := {shifts[1]}", f"def shiftC : Nat := {shifts[2]}", "",
           "/-- `while iters < loopIters * want || …` -/", f"def loopIters : Nat := {loop_iters}",
           "/-- `iters % (widenEvery * want) == 0`: the tolerance is widened -/", f"def widenEvery : Nat := {widen_every}",
           "/-- `candidates.len() > earlyMult * want && iters % earlyEvery == 0`: early exit -/",
           f"def earlyMult : Nat := {early_mult}", f"def earlyEvery : Nat := {early_every}", "",
           "/-- exhaustive branch: `nfacs <= smallNf && target.bits() <= smallBits`; assertion `target.bits() < smallTBits || p0 > smallP0` -/",
           f"def smallNf : Nat := {small_nf}", f"def smallBits : Nat := {small_bits}",
           f"def smallTBits : Nat := {small_tbits}", f"def smallP0 : Nat := {small_p0}", "",
           "/-- `max(2000, …)` in `select_siqs_factors` -/", f"def targetFloor : Nat := {floor}", "",
           "/-- width of the integer type of `mask` in `select_a`: `1 << g` overflows for `g ≥` this -/",
           f"def maskBits : Nat := {mask_bits}", "",
           "end Ymq.Gen.SiqsSel", ""]
    write_gen("SiqsSel", "\n".join(out), ["src/siqs.rs"])
    return f"seed={seed:#x} shifts={shifts} loop={loop_iters},{widen_every},{early_mult},{early_every}"


if __name__ == "__main__":
    main(run)
