/-
C14 "small", helper lemmas part 11 (Mathlib): matrix semantics of `mul_aab_opt` (`mulAabOpt`):
its output is `Bᵗ·(B·y)` (dense 64-row part through `comb`, the other rows through the transposed
coordinate list); hence the Gram matrix of `genblock` is `yᵗ (BᵗB)³ y` and its rank is at most
`rank (BᵗB)³`.
-/
import Ymq.Lemmas.Gf2SmallHang

namespace Ymq.Gf2Small
open Ymq.Gf2 Ymq.Gf2Genblock
open scoped Matrix

/-! ### `comb` is linear in its selector -/

theorem comb_zero (B : Mat) : ∀ k0, comb 0 B k0 = 0 := by
  induction B with
  | nil => intro k0; rfl
  | cons b B ih => intro k0; simp [comb, ih]

theorem xor3a (x p q : Nat) : x ^^^ (p ^^^ q) = p ^^^ (x ^^^ q) := by
  apply Nat.eq_of_testBit_eq; intro i; simp only [Nat.testBit_xor]
  cases x.testBit i <;> cases p.testBit i <;> cases q.testBit i <;> rfl

theorem xor3b (x p q : Nat) : p ^^^ q = x ^^^ (p ^^^ (x ^^^ q)) := by
  apply Nat.eq_of_testBit_eq; intro i; simp only [Nat.testBit_xor]
  cases x.testBit i <;> cases p.testBit i <;> cases q.testBit i <;> rfl

theorem comb_xor (a b : Nat) (B : Mat) : ∀ k0, comb (a ^^^ b) B k0 = comb a B k0 ^^^ comb b B k0 := by
  induction B with
  | nil => intro k0; simp [comb]
  | cons x B ih =>
    intro k0
    simp only [comb, ih, Nat.testBit_xor]
    cases a.testBit k0 <;> cases b.testBit k0 <;> simp
    · exact xor3a _ _ _
    · exact (Nat.xor_assoc _ _ _).symm
    · rw [Nat.xor_assoc]; exact xor3b _ _ _

theorem comb_unit (a : Nat) (B : Mat) : ∀ k0, k0 ≤ a → comb (1 <<< a) B k0 = B.getD (a - k0) 0 := by
  induction B with
  | nil => intro k0 _; simp [comb]
  | cons x B ih =>
    intro k0 hk
    rw [comb, testBit_one_shiftLeft]
    by_cases e : a = k0
    · subst e
      have hz : comb (1 <<< a) B (a + 1) = 0 := by
        -- no bit of the selector is at or above a + 1
        have : ∀ (B : Mat) k1, a < k1 → comb (1 <<< a) B k1 = 0 := by
          intro B
          induction B with
          | nil => intro k1 _; rfl
          | cons y B ih2 =>
            intro k1 hk1
            rw [comb, testBit_one_shiftLeft, ih2 (k1 + 1) (by omega)]
            have : (a == k1) = false := by simp; omega
            simp [this]
        exact this B (a + 1) (by omega)
      simp [hz]
    · have hne : (a == k0) = false := by simp [e]
      rw [hne, ih (k0 + 1) (by omega)]
      have : a - k0 = (a - (k0 + 1)) + 1 := by omega
      rw [this]
      simp

/-- the dense part of `mul_aab_opt`: the rows below 64 listed in the column, with repetitions -/
theorem comb_denseWord (col : List Nat) (B : Mat) :
    comb (denseWord col) B 0 = (col.filter (fun a => a < 64)).foldl (fun acc a => acc ^^^ B.getD a 0) 0 := by
  unfold denseWord
  have key : ∀ (col : List Nat) (d acc : Nat), comb d B 0 = acc →
      comb (col.foldl (fun d a => if a < 64 then d ^^^ (1 <<< a) else d) d) B 0 =
        (col.filter (fun a => a < 64)).foldl (fun acc a => acc ^^^ B.getD a 0) acc := by
    intro col
    induction col with
    | nil => intro d acc h; simpa using h
    | cons a col ih =>
      intro d acc h
      simp only [List.foldl_cons, List.filter_cons]
      by_cases ha : a < 64
      · simp only [ha, if_true, decide_true, List.foldl_cons]
        apply ih
        rw [comb_xor, h, comb_unit a B 0 (Nat.zero_le _), Nat.sub_zero]
      · simp only [ha, if_false, decide_false, Bool.false_eq_true]
        exact ih d acc h
  exact key col 0 0 (comb_zero B 0)

theorem testBit_foldl_xor (l : List Nat) (val : Nat → Nat) (w t : Nat) :
    (l.foldl (fun acc a => acc ^^^ val a) w).testBit t = (w.testBit t ^^ xsum (l.map (fun a => (val a).testBit t))) := by
  induction l generalizing w with
  | nil => simp
  | cons a l ih =>
    simp only [List.foldl_cons, ih, List.map_cons, xsum_cons, Nat.testBit_xor, Bool.xor_assoc]

theorem xsum_filter_split (l : List Nat) (f : Nat → Bool) :
    (xsum ((l.filter (fun a => a < 64)).map f) ^^ xsum ((l.filter (fun a => ¬ a < 64)).map f)) = xsum (l.map f) := by
  induction l with
  | nil => rfl
  | cons a l ih =>
    by_cases ha : a < 64
    · simp only [List.filter_cons, ha, decide_true, if_true, not_true_eq_false, decide_false, Bool.false_eq_true,
        if_false, List.map_cons, xsum_cons, ← ih, Bool.xor_assoc]
    · simp only [List.filter_cons, ha, decide_false, Bool.false_eq_true, if_false, not_false_eq_true, decide_true,
        if_true, List.map_cons, xsum_cons, ← ih]
      cases f a <;> cases xsum ((l.filter (fun a => a < 64)).map f) <;> simp

/-! ### the transposed coordinate list -/

theorem xsum_coordsOf_T (tmp : Array Nat) (c t j k : Nat) (col : List Nat) (hk : k ≤ U32) (hj : j < U32)
    (hwf : ∀ a ∈ col, a < k) :
    xsum ((coordsOf j col).map (fun p => (p.2 == c && (cell tmp p.1).testBit t))) =
      (decide (j = c) && xsum ((col.filter (fun a => ¬ a < 64)).map (fun a => (cell tmp a).testBit t))) := by
  unfold coordsOf
  rw [List.map_map]
  have hcongr : (col.filter (fun a => ¬ a < 64)).map
        ((fun p : Nat × Nat => (p.2 == c && (cell tmp p.1).testBit t)) ∘ fun a => (a % U32, j % U32)) =
      (col.filter (fun a => ¬ a < 64)).map (fun a => (decide (j = c) && (cell tmp a).testBit t)) := by
    apply List.map_congr_left
    intro a ha
    have ha' : a < k := hwf a (List.mem_filter.mp ha).1
    simp only [Function.comp_def, Nat.mod_eq_of_lt hj, Nat.mod_eq_of_lt (show a < U32 by omega)]
    by_cases e : j = c <;> simp [e]
  rw [hcongr, xsum_map_and]

theorem xsum_coordsFrom_T (tmp : Array Nat) (c t k : Nat) (cols : List (List Nat)) (hk : k ≤ U32)
    (hwf : ∀ col ∈ cols, ∀ a ∈ col, a < k) : ∀ j, j + cols.length ≤ U32 →
    xsum ((coordsFrom j cols).map (fun p => (p.2 == c && (cell tmp p.1).testBit t))) =
      (decide (j ≤ c) && xsum (((cols.getD (c - j) []).filter (fun a => ¬ a < 64)).map
        (fun a => (cell tmp a).testBit t))) := by
  induction cols with
  | nil => intro j _; simp [coordsFrom]
  | cons col cols ih =>
    intro j hj
    simp only [coordsFrom, List.map_append, xsum_append]
    rw [xsum_coordsOf_T tmp c t j k col hk (by simp at hj; omega) (hwf col (by simp)),
      ih (fun c hc => hwf c (by simp [hc])) (j + 1) (by simp at hj ⊢; omega)]
    rcases Nat.lt_trichotomy j c with h | h | h
    · have h1 : ¬ j = c := by omega
      have h2 : c - j = (c - (j + 1)) + 1 := by omega
      simp [h1, h2, show j + 1 ≤ c by omega, show j ≤ c by omega]
    · subst h
      simp
    · have h1 : ¬ j = c := by omega
      simp [h1, show ¬ j + 1 ≤ c by omega, show ¬ j ≤ c by omega]

/-! ### bits of `mul_aab_opt` -/

theorem cell_toArray (l : List Nat) (i : Nat) : cell l.toArray i = l.getD i 0 := by
  simp [cell, List.getD_eq_getElem?_getD]

theorem getD_take64 (l : List Nat) {a : Nat} (ha : a < 64) : (l.take 64).getD a 0 = l.getD a 0 := by
  simp [List.getD_eq_getElem?_getD, List.getElem?_take, ha]

/-- bit `t` of word `c` of `mul_aab_opt(B, y)`: the xor of the words `tmp[a]`, `tmp = B·y`, over the
row indices `a` listed in column `c` (with repetitions) -/
theorem mulAabOpt_bits (k : Nat) (cols : List (List Nat)) (y tmp ay : List Nat)
    (hk : k ≤ U32) (hn : cols.length ≤ U32) (hwf : ∀ col ∈ cols, ∀ a ∈ col, a < k)
    (ht : optMul (qsOptimize k cols) y = some tmp) (h : mulAabOpt (qsOptimize k cols) y = some ay) :
    ay.length = cols.length ∧ ∀ c, c < cols.length → ∀ t,
      (ay.getD c 0).testBit t = xsum ((cols.getD c []).map (fun a => (tmp.getD a 0).testBit t)) := by
  unfold mulAabOpt at h
  rw [ht] at h
  simp only [] at h
  cases ha : applyCoords tmp.toArray (List.map (fun p => (p.2, p.1)) (qsOptimize k cols).xy)
      (List.map (fun r => comb r (List.take 64 tmp) 0) (qsOptimize k cols).block).toArray with
  | none => rw [ha] at h; cases h
  | some out' =>
    rw [ha] at h
    simp only [Option.map_some, Option.some.injEq] at h
    subst h
    obtain ⟨hsize, hbits⟩ := applyCoords_spec _ _ _ _ ha
    refine ⟨by simp [hsize, qsOptimize], ?_⟩
    intro c hc t
    have e1 : out'.toList.getD c 0 = cell out' c := by
      simp [cell, List.getD_eq_getElem?_getD]
    rw [e1, hbits c t, cell_toArray]
    -- dense part
    have hd : ((List.map (fun r => comb r (List.take 64 tmp) 0) (qsOptimize k cols).block).getD c 0).testBit t =
        xsum (((cols.getD c []).filter (fun a => a < 64)).map (fun a => (tmp.getD a 0).testBit t)) := by
      have hget : (List.map (fun r => comb r (List.take 64 tmp) 0) (qsOptimize k cols).block).getD c 0 =
          comb (denseWord (cols.getD c [])) (List.take 64 tmp) 0 := by
        simp [qsOptimize, List.getD_eq_getElem?_getD, List.getElem?_map, List.getElem?_eq_getElem hc]
      rw [hget, comb_denseWord, testBit_foldl_xor]
      simp only [Nat.zero_testBit, Bool.false_xor]
      congr 1
      apply List.map_congr_left
      intro a ha'
      have : a < 64 := by simpa using (List.mem_filter.mp ha').2
      rw [getD_take64 tmp this]
    -- coordinate part
    have hcoord : xsum (List.map (fun c' : Nat × Nat => (c'.1 == c && (cell tmp.toArray c'.2).testBit t))
        (List.map (fun p => (p.2, p.1)) (qsOptimize k cols).xy)) =
        xsum (((cols.getD c []).filter (fun a => ¬ a < 64)).map (fun a => (tmp.getD a 0).testBit t)) := by
      rw [List.map_map]
      have := xsum_coordsFrom_T tmp.toArray c t k cols hk hwf 0 (by omega)
      simp only [Nat.zero_le, decide_true, Bool.true_and, Nat.sub_zero] at this
      simp only [Function.comp_def, qsOptimize]
      rw [this]
      congr 1
      apply List.map_congr_left
      intro a _
      rw [cell_toArray]
    rw [hd, hcoord, xsum_filter_split]

/-! ### matrix form -/

theorem colParity_cons (a : Nat) (col : List Nat) (i : Nat) :
    colParity (a :: col) i = ((a == i) ^^ colParity col i) := by simp [colParity]

/-- histogram identity: a sum over the listed indices is the sum over all rows weighted by the parity -/
theorem toZ_xsum_col (k : Nat) (col : List Nat) (f : Nat → Bool) (hwf : ∀ a ∈ col, a < k) :
    toZ (xsum (col.map f)) = ∑ i : Fin k, toZ (colParity col i.1) * toZ (f i.1) := by
  induction col with
  | nil => simp [colParity]
  | cons a col ih =>
    rw [List.map_cons, xsum_cons, toZ_xor, ih (fun a' h => hwf a' (by simp [h]))]
    have ha : a < k := hwf a (by simp)
    have hsplit : ∀ i : Fin k, toZ (colParity (a :: col) i.1) * toZ (f i.1) =
        toZ (a == i.1) * toZ (f i.1) + toZ (colParity col i.1) * toZ (f i.1) := by
      intro i; rw [colParity_cons, toZ_xor, add_mul]
    rw [Finset.sum_congr rfl (fun i _ => hsplit i), Finset.sum_add_distrib]
    congr 1
    rw [Finset.sum_eq_single (⟨a, ha⟩ : Fin k)]
    · simp
    · intro i _ hne
      have : (a == i.1) = false := by
        simp only [beq_eq_false_iff_ne, ne_eq]
        intro e; exact hne (Fin.ext e.symm)
      rw [this]; simp
    · intro h; exact absurd (Finset.mem_univ _) h

/-- `B·y` of the model as a matrix product -/
theorem cellMat_optMul (k : Nat) (cols : List (List Nat)) (y tmp : List Nat)
    (hk : k ≤ U32) (hn : cols.length ≤ U32) (hwf : ∀ col ∈ cols, ∀ a ∈ col, a < k)
    (h : optMul (qsOptimize k cols) y = some tmp) :
    cellMat tmp.toArray k = sparseMat k cols * cellMat y.toArray cols.length := by
  obtain ⟨hy, hk64⟩ := optMul_some_inv k cols y tmp h
  obtain ⟨blk, hb, _, hbits⟩ := optMul_spec k cols y hk64 hk hn hy hwf
  rw [h] at hb
  injection hb with hb
  subst hb
  funext r t
  rw [Matrix.mul_apply]
  show toZ ((cell tmp.toArray r.1).testBit t.1) = _
  rw [cell_toArray, hbits r.1 t.1]
  simp only [r.2, decide_true, Bool.true_and]
  rw [toZ_prodBitFrom]
  apply Finset.sum_congr rfl
  intro j _
  rw [Nat.zero_add]
  rfl

/-- `mul_aab_opt(B, y) = Bᵗ·(B·y)` -/
theorem cellMat_mulAabOpt (k : Nat) (cols : List (List Nat)) (y ay : List Nat)
    (hk : k ≤ U32) (hn : cols.length ≤ U32) (hwf : ∀ col ∈ cols, ∀ a ∈ col, a < k)
    (h : mulAabOpt (qsOptimize k cols) y = some ay) :
    ay.length = cols.length ∧
    cellMat ay.toArray cols.length =
      (sparseMat k cols)ᵀ * (sparseMat k cols * cellMat y.toArray cols.length) := by
  cases ht : optMul (qsOptimize k cols) y with
  | none => unfold mulAabOpt at h; rw [ht] at h; cases h
  | some tmp =>
    obtain ⟨hl, hbits⟩ := mulAabOpt_bits k cols y tmp ay hk hn hwf ht h
    refine ⟨hl, ?_⟩
    rw [← cellMat_optMul k cols y tmp hk hn hwf ht]
    funext c t
    rw [Matrix.mul_apply]
    show toZ ((cell ay.toArray c.1).testBit t.1) = _
    rw [cell_toArray, hbits c.1 c.2 t.1,
      toZ_xsum_col k (cols.getD c.1 []) (fun a => (tmp.getD a 0).testBit t.1) (by
        intro a ha
        have hm : cols.getD c.1 [] ∈ cols := by
          simp [List.getD_eq_getElem?_getD, List.getElem?_eq_getElem c.2]
        exact hwf _ hm a ha)]
    apply Finset.sum_congr rfl
    intro i _
    show _ = toZ (colParity cols[c.1] i.1) * toZ ((cell tmp.toArray i.1).testBit t.1)
    rw [cell_toArray]
    congr 3
    simp [List.getD_eq_getElem?_getD, List.getElem?_eq_getElem c.2]

theorem gramMat_of_len (bay : List Nat) (k : Nat) (hlen : bay.length = k) :
    (blockMat bay)ᵀ * blockMat bay = (cellMat bay.toArray k)ᵀ * cellMat bay.toArray k := by
  subst hlen
  have : blockMat bay = cellMat bay.toArray bay.length := by
    funext r t
    show toZ (bay[r.1].testBit t.1) = toZ ((cell bay.toArray r.1).testBit t.1)
    rw [cell_toArray, List.getD_eq_getElem?_getD, List.getElem?_eq_getElem r.2]
    rfl
  rw [this]

/-- `A = BᵗB` -/
def gramA (k : Nat) (cols : List (List Nat)) : Matrix (Fin cols.length) (Fin cols.length) (ZMod 2) :=
  (sparseMat k cols)ᵀ * sparseMat k cols

/-- the Gram matrix tested by `genblock` is `yᵗ (BᵗB)³ y` -/
theorem gram_eq_cube (k : Nat) (cols : List (List Nat)) (y g : List Nat)
    (hk : k ≤ U32) (hn : cols.length ≤ U32) (hwf : ∀ col ∈ cols, ∀ a ∈ col, a < k)
    (h : gramOf (qsOptimize k cols) y = some g) :
    toMat 64 g = (cellMat y.toArray cols.length)ᵀ *
      ((gramA k cols * gramA k cols * gramA k cols) * cellMat y.toArray cols.length) := by
  unfold gramOf at h
  cases h1 : mulAabOpt (qsOptimize k cols) y with
  | none => rw [h1] at h; cases h
  | some ay =>
    rw [h1] at h
    simp only [] at h
    cases h2 : optMul (qsOptimize k cols) ay with
    | none => rw [h2] at h; cases h
    | some bay =>
      rw [h2] at h
      simp only [] at h
      obtain ⟨_, hay⟩ := cellMat_mulAabOpt k cols y ay hk hn hwf h1
      have hbay := cellMat_optMul k cols ay bay hk hn hwf h2
      obtain ⟨hy', hk64⟩ := optMul_some_inv k cols ay bay h2
      obtain ⟨blk, hb, hlen, _⟩ := optMul_spec k cols ay hk64 hk hn hy' hwf
      rw [h2] at hb
      injection hb with hb
      subst hb
      obtain ⟨_, hmat, _⟩ := toMat_blockDot_self bay g h
      rw [hmat, gramMat_of_len bay k hlen, hbay, hay]
      simp only [gramA, Matrix.transpose_mul, Matrix.transpose_transpose, Matrix.mul_assoc]

/-- `rank(Gram) ≤ rank (BᵗB)³`: the oracle's exact hang rule -/
theorem gram_rank_le_cube (k : Nat) (cols : List (List Nat)) (y g : List Nat)
    (hk : k ≤ U32) (hn : cols.length ≤ U32) (hwf : ∀ col ∈ cols, ∀ a ∈ col, a < k)
    (h : gramOf (qsOptimize k cols) y = some g) :
    (toMat 64 g).rank ≤ (gramA k cols * gramA k cols * gramA k cols).rank := by
  rw [gram_eq_cube k cols y g hk hn hwf h]
  exact Nat.le_trans (Matrix.rank_mul_le_right _ _) (Matrix.rank_mul_le_left _ _)

theorem genblock_refuses_all_cube (dbg : Bool) (k : Nat) (cols : List (List Nat)) (ys : List (List Nat))
    (hk64 : 64 ≤ k) (hk : k ≤ U32) (hn : cols.length ≤ U32) (hwf : ∀ col ∈ cols, ∀ a ∈ col, a < k)
    (hrank : (gramA k cols * gramA k cols * gramA k cols).rank < 64)
    (hys : ∀ y ∈ ys, y.length = cols.length ∧ ∀ w ∈ y, w < 2 ^ 64) :
    ∀ y ∈ ys, ∃ g rk mk, gramOf (qsOptimize k cols) y = some g ∧ rank 64 dbg g = some (rk, mk) ∧ rk ≠ 64 := by
  intro y hy
  obtain ⟨hyl, hy64⟩ := hys y hy
  obtain ⟨g, hg⟩ := gramOf_total k cols y hk64 hk hn hwf hyl
  obtain ⟨hlt, _⟩ := gram_rank_le k cols y g hk hn hwf hy64 hg
  have hle := gram_rank_le_cube k cols y g hk hn hwf hg
  obtain ⟨rk, mk, hr, hF⟩ := rank_spec_aux dbg hlt
  refine ⟨g, rk, mk, hg, hr, ?_⟩
  have := hF.matrix_rank
  omega

end Ymq.Gf2Small
