/-
Totality of the model of `CRelationSet` (Ymq/Model/ClassGroup.lean): the recursion of
`update_tree` terminates within the fuel the wrappers provide, `paths.get(&p).unwrap()` never
fails, so a history of `add` calls can only stop at the two documented panic sites:
`assert!(p != q)` and the `q + 1` of the range query for `q = u32::MAX`.
-/
import Ymq.Lemmas.ClassGroupStore

namespace Ymq.ClassGroup

/-- all vertices (large primes, and the root 1) mentioned by the stored edges and the reverse index -/
def verts (s : CSet) : List Nat :=
  s.doubles.flatMap (fun e => [e.1.1, e.1.2]) ++ s.doublesRev.flatMap (fun e => [e.1, e.2])

def hasKey (paths : List (Nat × List Nat)) (v : Nat) : Bool := (paths.lookup v).isSome

/-- number of mentioned vertices that are not yet in the tree (with multiplicity) -/
def mu (s : CSet) : Nat := ((verts s).filter (fun v => !hasKey s.paths v)).length

theorem verts_length (s : CSet) : (verts s).length = 2 * s.doubles.length + 2 * s.doublesRev.length := by
  unfold verts
  rw [List.length_append]
  have h1 : ∀ l : List ((Nat × Nat) × Rel), (l.flatMap (fun e => [e.1.1, e.1.2])).length = 2 * l.length := by
    intro l; induction l with
    | nil => simp
    | cons x t ih => simp only [List.flatMap_cons, List.length_append, ih, List.length_cons, List.length_nil]; omega
  have h2 : ∀ l : List (Nat × Nat), (l.flatMap (fun e => [e.1, e.2])).length = 2 * l.length := by
    intro l; induction l with
    | nil => simp
    | cons x t ih => simp only [List.flatMap_cons, List.length_append, ih, List.length_cons, List.length_nil]; omega
  rw [h1, h2]

theorem mu_le (s : CSet) : mu s ≤ 2 * s.doubles.length + 2 * s.doublesRev.length := by
  rw [← verts_length]
  exact List.length_filter_le _ _

theorem hasKey_pathInsert (k : Nat) (v : List Nat) (l : List (Nat × List Nat)) (x : Nat) :
    hasKey (pathInsert k v l) x = (x == k || hasKey l x) := by
  induction l with
  | nil =>
    simp only [pathInsert, hasKey, List.lookup]
    by_cases h : x = k
    · subst h; simp
    · have : (x == k) = false := by simpa using h
      simp [this]
  | cons y t ih =>
    obtain ⟨k', v'⟩ := y
    simp only [pathInsert]
    split
    · rename_i hk
      subst hk
      simp only [hasKey, List.lookup]
      by_cases h : x = k
      · subst h; simp
      · have : (x == k) = false := by simpa using h
        simp [this]
    · split
      · simp only [hasKey, List.lookup]
        by_cases h : x = k
        · subst h; simp
        · have : (x == k) = false := by simpa using h
          simp [this]
      · simp only [hasKey, List.lookup] at ih ⊢
        by_cases h' : x = k'
        · subst h'; simp
        · have : (x == k') = false := by simpa using h'
          simp only [this]
          exact ih

theorem filter_length_mono {α} (p q : α → Bool) (hpq : ∀ a, p a = true → q a = true) :
    ∀ l : List α, (l.filter p).length ≤ (l.filter q).length
  | [] => by simp
  | x :: t => by
    have ih := filter_length_mono p q hpq t
    by_cases hp : p x = true
    · rw [List.filter_cons_of_pos hp, List.filter_cons_of_pos (hpq x hp)]
      simp only [List.length_cons]; omega
    · rw [List.filter_cons_of_neg hp]
      by_cases hq : q x = true
      · rw [List.filter_cons_of_pos hq]; simp only [List.length_cons]; omega
      · rw [List.filter_cons_of_neg hq]; exact ih

theorem filter_length_lt {α} (p q : α → Bool) (hpq : ∀ a, p a = true → q a = true) (a : α) :
    ∀ l : List α, a ∈ l → q a = true → p a = false → (l.filter p).length < (l.filter q).length
  | [], h, _, _ => by simp at h
  | x :: t, h, hq, hp => by
    have mono := filter_length_mono p q hpq t
    rcases List.mem_cons.1 h with rfl | h
    · rw [List.filter_cons_of_neg (by simp [hp]), List.filter_cons_of_pos hq]
      simp only [List.length_cons]; omega
    · have ih := filter_length_lt p q hpq a t h hq hp
      by_cases hpx : p x = true
      · rw [List.filter_cons_of_pos hpx, List.filter_cons_of_pos (hpq x hpx)]
        simp only [List.length_cons]; omega
      · rw [List.filter_cons_of_neg hpx]
        by_cases hqx : q x = true
        · rw [List.filter_cons_of_pos hqx]; simp only [List.length_cons]; omega
        · rw [List.filter_cons_of_neg hqx]; exact ih

/-- `s'` has the same edges as `s` and at least its tree vertices -/
def Ext (s s' : CSet) : Prop :=
  s'.doubles = s.doubles ∧ s'.doublesRev = s.doublesRev ∧ ∀ x, hasKey s.paths x = true → hasKey s'.paths x = true

theorem Ext.refl (s : CSet) : Ext s s := ⟨rfl, rfl, fun _ h => h⟩

theorem Ext.trans {a b c : CSet} (h1 : Ext a b) (h2 : Ext b c) : Ext a c :=
  ⟨h2.1.trans h1.1, h2.2.1.trans h1.2.1, fun x h => h2.2.2 x (h1.2.2 x h)⟩

theorem Ext.verts {s s' : CSet} (h : Ext s s') : verts s' = verts s := by
  unfold ClassGroup.verts; rw [h.1, h.2.1]

theorem Ext.mu_le {s s' : CSet} (h : Ext s s') : mu s' ≤ mu s := by
  unfold mu
  rw [h.verts]
  apply filter_length_mono
  intro v hv
  simp only [Bool.not_eq_true'] at hv ⊢
  by_contra hc
  have := h.2.2 v (by simpa using hc)
  rw [this] at hv
  exact absurd hv (by simp)

/-- a fold of `updateTree` calls over neighbours extends the state -/
theorem fold_ext {fuel q} (hstep : ∀ s q2 s', updateTree fuel s q q2 = some s' → Ext s s') :
    ∀ (l : List Nat) (s0 s1 : CSet),
      List.foldlM (fun st q2 => updateTree fuel st q q2) s0 l = some s1 → Ext s0 s1 := by
  intro l
  induction l with
  | nil => intro s0 s1 h; simp only [List.foldlM_nil, Option.pure_def, Option.some.injEq] at h; subst h; exact Ext.refl _
  | cons x t ih =>
    intro s0 s1 h
    simp only [List.foldlM_cons, Option.bind_eq_bind] at h
    cases hx : updateTree fuel s0 q x with
    | none => simp [hx] at h
    | some sx =>
      simp only [hx, Option.bind_some] at h
      exact (hstep s0 x sx hx).trans (ih sx s1 h)

theorem updateTree_ext : ∀ (fuel : Nat) (s : CSet) (p q : Nat) (s' : CSet),
    updateTree fuel s p q = some s' → Ext s s' ∧ hasKey s'.paths q = true
  | 0, s, p, q, s', h => by simp [updateTree] at h
  | fuel + 1, s, p, q, s', h => by
    rw [updateTree] at h
    split at h
    · rename_i hq
      simp only [Option.some.injEq] at h; subst h
      exact ⟨Ext.refl _, hq⟩
    · split at h
      · simp at h
      · rename_i vp hvp
        simp only at h
        split at h
        · simp at h
        · have hs1 : Ext s { s with
              nCombined12 := if (vp ++ [q]).length > 2 then s.nCombined12 + 1 else s.nCombined12,
              paths := pathInsert q (vp ++ [q]) s.paths } := by
            refine ⟨rfl, rfl, ?_⟩
            intro x hx
            simp only [hasKey_pathInsert, hx, Bool.or_true]
          have hf := fold_ext (fuel := fuel) (q := q)
            (fun s q2 s' h => (updateTree_ext fuel s q q2 s' h).1) _ _ _ h
          refine ⟨hs1.trans hf, ?_⟩
          apply hf.2.2
          simp [hasKey_pathInsert]

/-- `update_tree` succeeds: the parent is in the tree, all vertices are below `u32::MAX`, and the
fuel exceeds the number of mentioned vertices outside the tree -/
theorem updateTree_some : ∀ (fuel : Nat) (s : CSet) (p q : Nat),
    hasKey s.paths p = true → (∀ v ∈ verts s, v + 1 < 2 ^ 32) → q + 1 < 2 ^ 32 → mu s < fuel →
    ∃ s', updateTree fuel s p q = some s'
  | 0, _, _, _, _, _, _, hm => by omega
  | fuel + 1, s, p, q, hp, hv, hq, hm => by
    rw [updateTree]
    split
    · exact ⟨s, rfl⟩
    · rename_i hnq
      have hp' : ∃ vp, s.paths.lookup p = some vp := by
        unfold hasKey at hp
        exact Option.isSome_iff_exists.1 hp
      obtain ⟨vp, hvp⟩ := hp'
      simp only [hvp]
      rw [if_neg (by omega)]
      -- neighbours are mentioned vertices
      have hnb : ∀ q2 ∈ (s.doubles.filter (fun e => e.1.1 = q)).map (fun e => e.1.2) ++
          (s.doublesRev.filter (fun e => e.1 = q)).map (fun e => e.2), q ∈ verts s ∧ q2 ∈ verts s := by
        intro q2 hq2
        rcases List.mem_append.1 hq2 with h | h
        · obtain ⟨e, he, rfl⟩ := List.mem_map.1 h
          obtain ⟨he1, he2⟩ := List.mem_filter.1 he
          have he2' : e.1.1 = q := by simpa using he2
          unfold verts
          refine ⟨List.mem_append_left _ (List.mem_flatMap.2 ⟨e, he1, by simp [he2']⟩),
            List.mem_append_left _ (List.mem_flatMap.2 ⟨e, he1, by simp⟩)⟩
        · obtain ⟨e, he, rfl⟩ := List.mem_map.1 h
          obtain ⟨he1, he2⟩ := List.mem_filter.1 he
          have he2' : e.1 = q := by simpa using he2
          unfold verts
          refine ⟨List.mem_append_right _ (List.mem_flatMap.2 ⟨e, he1, by simp [he2']⟩),
            List.mem_append_right _ (List.mem_flatMap.2 ⟨e, he1, by simp⟩)⟩
      generalize hnbl : ((s.doubles.filter (fun e => e.1.1 = q)).map (fun e => e.1.2) ++
          (s.doublesRev.filter (fun e => e.1 = q)).map (fun e => e.2)) = nb at hnb
      -- the state after inserting q
      have hext : Ext s ({ s with
          nCombined12 := if (vp ++ [q]).length > 2 then s.nCombined12 + 1 else s.nCombined12,
          paths := pathInsert q (vp ++ [q]) s.paths } : CSet) :=
        ⟨rfl, rfl, fun x hx => by simp only [hasKey_pathInsert, hx, Bool.or_true]⟩
      have hdrop : q ∈ verts s → mu ({ s with
          nCombined12 := if (vp ++ [q]).length > 2 then s.nCombined12 + 1 else s.nCombined12,
          paths := pathInsert q (vp ++ [q]) s.paths } : CSet) < mu s := by
        intro hqv
        unfold mu
        rw [hext.verts]
        simp only
        apply filter_length_lt _ _ _ q _ hqv
        · have : hasKey s.paths q = false := Bool.eq_false_iff.2 hnq
          simp [this]
        · simp [hasKey_pathInsert]
        · intro v hv
          simp only [Bool.not_eq_true', hasKey_pathInsert, Bool.or_eq_false_iff] at hv ⊢
          exact hv.2
      have hq1 : hasKey ({ s with
          nCombined12 := if (vp ++ [q]).length > 2 then s.nCombined12 + 1 else s.nCombined12,
          paths := pathInsert q (vp ++ [q]) s.paths } : CSet).paths q = true := by
        simp [hasKey_pathInsert]
      generalize ({ s with
          nCombined12 := if (vp ++ [q]).length > 2 then s.nCombined12 + 1 else s.nCombined12,
          paths := pathInsert q (vp ++ [q]) s.paths } : CSet) = s1 at hext hdrop hq1 ⊢
      have hv1 : ∀ v ∈ verts s1, v + 1 < 2 ^ 32 := by rw [hext.verts]; exact hv
      -- generic fold lemma
      have key : ∀ (l : List Nat) (s0 : CSet), Ext s1 s0 → (∀ q2 ∈ l, q2 ∈ verts s) → mu s0 < fuel →
          ∃ s', List.foldlM (fun st q2 => updateTree fuel st q q2) s0 l = some s' := by
        intro l
        induction l with
        | nil => intro s0 _ _ _; exact ⟨s0, rfl⟩
        | cons x t ih =>
          intro s0 he hl hmu
          simp only [List.foldlM_cons, Option.bind_eq_bind]
          obtain ⟨sx, hsx⟩ := updateTree_some fuel s0 q x (he.2.2 q hq1)
            (by rw [he.verts]; exact hv1)
            (hv x (hl x List.mem_cons_self)) hmu
          rw [hsx]
          simp only [Option.bind_some]
          have hex := (updateTree_ext fuel s0 q x sx hsx).1
          exact ih sx (he.trans hex) (fun q2 h => hl q2 (List.mem_cons_of_mem _ h))
            (Nat.lt_of_le_of_lt hex.mu_le hmu)
      cases nb with
      | nil => exact ⟨s1, rfl⟩
      | cons q2 t =>
        have hqv : q ∈ verts s := (hnb q2 List.mem_cons_self).1
        have := hdrop hqv
        exact key _ s1 (Ext.refl _) (fun q2 h => (hnb q2 h).2) (by omega)

/-! ### whole histories -/

def VertsOk (s : CSet) : Prop := ∀ v ∈ verts s, v + 1 < 2 ^ 32

/-- the large primes of a relation are below `u32::MAX` and, when there are two, distinct -/
def RelOk (r : Rel) : Prop :=
  (∀ pe, r.large1 = some pe → pe.1 + 1 < 2 ^ 32) ∧ (∀ pe, r.large2 = some pe → pe.1 + 1 < 2 ^ 32) ∧
    (∀ pe qe, r.large1 = some pe → r.large2 = some qe → pe.1 ≠ qe.1)

theorem mem_setInsert {k e : Nat × Nat} {l : List (Nat × Nat)} (h : e ∈ setInsert k l) : e = k ∨ e ∈ l := by
  induction l with
  | nil => simp [setInsert] at h; exact Or.inl h
  | cons x t ih =>
    simp only [setInsert] at h
    split at h
    · exact Or.inr h
    · split at h
      · simp only [List.mem_cons] at h ⊢
        rcases h with h | h | h
        · exact Or.inl h
        · exact Or.inr (Or.inl h)
        · exact Or.inr (Or.inr h)
      · simp only [List.mem_cons] at h ⊢
        rcases h with h | h
        · exact Or.inr (Or.inl h)
        · rcases ih h with h | h
          · exact Or.inl h
          · exact Or.inr (Or.inr h)

theorem mem_verts {s : CSet} {v : Nat} : v ∈ verts s ↔
    (∃ e ∈ s.doubles, v = e.1.1 ∨ v = e.1.2) ∨ (∃ e ∈ s.doublesRev, v = e.1 ∨ v = e.2) := by
  unfold verts
  simp only [List.mem_append, List.mem_flatMap, List.mem_cons, List.not_mem_nil, or_false]

theorem emit_vertsOk {s r n} (h : VertsOk s) : VertsOk (emit s r n) := h

theorem emitPath_vertsOk : ∀ (path : List Nat) (s : CSet), VertsOk s → VertsOk (emitPath s path)
  | [], s, h => by simpa [emitPath] using h
  | [_], s, h => by simpa [emitPath] using h
  | p :: q :: t, s, h => by
    rw [emitPath]
    apply emitPath_vertsOk (q :: t)
    split
    · apply emit_vertsOk
      intro v hv
      apply h v
      rw [mem_verts] at hv ⊢
      rcases hv with ⟨e, he, hv⟩ | ⟨e, he, hv⟩
      · exact Or.inl ⟨e, mem_mapErase he, hv⟩
      · exact Or.inr ⟨e, he, hv⟩
    · exact h

theorem extendTree_some {s1 : CSet} {hasp hasq : Bool} {p q : Nat} (hv : VertsOk s1)
    (hp : p + 1 < 2 ^ 32) (hq : q + 1 < 2 ^ 32)
    (h1 : hasp = true → hasKey s1.paths p = true) (h2 : hasq = true → hasKey s1.paths q = true) :
    ∃ s', extendTree s1 hasp hasq p q = some s' ∧ VertsOk s' := by
  unfold extendTree
  have hfuel : ∀ s : CSet, mu s < treeFuel s := fun s => by
    have := mu_le s; unfold treeFuel; omega
  -- first call
  have step1 : ∃ s2, (if hasp = true then updateTree (treeFuel s1) s1 p q else some s1) = some s2 ∧ Ext s1 s2 := by
    by_cases hh : hasp = true
    · rw [if_pos hh]
      obtain ⟨s2, hs2⟩ := updateTree_some (treeFuel s1) s1 p q (h1 hh) hv hq (hfuel s1)
      exact ⟨s2, hs2, (updateTree_ext _ _ _ _ _ hs2).1⟩
    · rw [if_neg hh]; exact ⟨s1, rfl, Ext.refl _⟩
  obtain ⟨s2, hs2, he2⟩ := step1
  rw [hs2]
  simp only
  have hv2 : VertsOk s2 := by intro v hvv; rw [he2.verts] at hvv; exact hv v hvv
  by_cases hh : hasq = true
  · rw [if_pos hh]
    obtain ⟨s3, hs3⟩ := updateTree_some (treeFuel s2) s2 q p (he2.2.2 q (h2 hh)) hv2 hp (hfuel s2)
    refine ⟨s3, hs3, ?_⟩
    intro v hvv
    rw [(updateTree_ext _ _ _ _ _ hs3).1.verts] at hvv
    exact hv2 v hvv
  · rw [if_neg hh]; exact ⟨s2, rfl, hv2⟩

theorem addPathSorted_some {s : CSet} {p q : Nat} {r : Rel} (hv : VertsOk s)
    (hp : p + 1 < 2 ^ 32) (hq : q + 1 < 2 ^ 32) :
    ∃ s', addPathSorted s p q r = some s' ∧ VertsOk s' := by
  unfold addPathSorted
  split
  · exact ⟨_, rfl, emit_vertsOk (emitPath_vertsOk _ _ (emitPath_vertsOk _ _ hv))⟩
  · rename_i hpo hqo _
    apply extendTree_some
    · intro v hvv
      rw [mem_verts] at hvv
      simp only at hvv
      rcases hvv with ⟨e, he, hve⟩ | ⟨e, he, hve⟩
      · rcases mem_mapInsert he with he | he
        · rw [he] at hve; simp only at hve; rcases hve with rfl | rfl <;> assumption
        · exact hv v (mem_verts.2 (Or.inl ⟨e, he, hve⟩))
      · rcases mem_setInsert he with he | he
        · rw [he] at hve; simp only at hve; rcases hve with rfl | rfl <;> assumption
        · exact hv v (mem_verts.2 (Or.inr ⟨e, he, hve⟩))
    · exact hp
    · exact hq
    · intro h; simpa [hasKey] using h
    · intro h; simpa [hasKey] using h

theorem addPath_some {s : CSet} {p q : Nat} {r : Rel} (hv : VertsOk s)
    (hp : p + 1 < 2 ^ 32) (hq : q + 1 < 2 ^ 32) :
    ∃ s', addPath s p q r = some s' ∧ VertsOk s' := by
  unfold addPath
  split
  · exact addPathSorted_some hv hp hq
  · exact addPathSorted_some hv hq hp

theorem add_some {s : CSet} {r : Rel} (hv : VertsOk s) (hr : RelOk r) :
    ∃ s', add s r = some s' ∧ VertsOk s' := by
  unfold add
  split
  · exact ⟨_, rfl, emit_vertsOk hv⟩
  · rename_i p e h1 h2
    split
    · exact addPath_some (s := { s with nPartials := s.nPartials + 1 }) hv (by omega) (hr.1 _ h1)
    · exact ⟨s, rfl, hv⟩
  · rename_i p e q e' h1 h2
    rw [if_neg (hr.2.2 _ _ h1 h2)]
    exact addPath_some (s := { s with nDoubles := s.nDoubles + 1 }) hv (hr.1 _ h1) (hr.2.1 _ h2)
  · exact ⟨s, rfl, hv⟩

theorem run_some : ∀ (rs : List Rel) (s : CSet), VertsOk s → (∀ r ∈ rs, RelOk r) →
    ∃ s', run s rs = some s'
  | [], s, _, _ => ⟨s, rfl⟩
  | r :: rs, s, hv, hr => by
    rw [run]
    obtain ⟨s1, hs1, hv1⟩ := add_some hv (hr r List.mem_cons_self)
    rw [hs1]
    exact run_some rs s1 hv1 (fun x hx => hr x (List.mem_cons_of_mem _ hx))

end Ymq.ClassGroup
