/-
The arithmetic context the native driver runs (`finCtx n`, Model/Suyama.lean: canonical residues `Fin n` with the
core operations, inverse by extended Euclid) satisfies the laws `Ctx.Lawful` that every theorem of
Props/C15Suyama.lean assumes. (`Fin n` is the commutative ring `Z/n`: Mathlib's `Fin.instCommRing`.)
-/
import Ymq.Lemmas.CurveBuild
import Mathlib.Data.ZMod.Basic

namespace Ymq.Suyama
open Ymq.Gen.Curves
open scoped Fin.CommRing

/-- Bézout invariant of the extended Euclid loop, read modulo `n` -/
theorem xgcdAux_bezout (n : Nat) (a : ZMod n) : ∀ (f : Nat) (r0 r1 s0 s1 : Int),
    (s0 : ZMod n) * a = (r0 : ZMod n) → (s1 : ZMod n) * a = (r1 : ZMod n) →
    (((xgcdAux f r0 r1 s0 s1).2 : Int) : ZMod n) * a = (((xgcdAux f r0 r1 s0 s1).1 : Int) : ZMod n) := by
  intro f
  induction f with
  | zero => intro r0 r1 s0 s1 h0 _; simpa [xgcdAux] using h0
  | succ f ih =>
    intro r0 r1 s0 s1 h0 h1
    simp only [xgcdAux]
    split
    · exact h0
    · apply ih _ _ _ _ h1
      push_cast
      rw [sub_mul, mul_assoc, h0, h1]

/-- with fuel above the second remainder the loop returns the gcd -/
theorem xgcdAux_gcd : ∀ (f : Nat) (r0 r1 : Nat) (s0 s1 : Int), r1 < f →
    (xgcdAux f r0 r1 s0 s1).1 = (Nat.gcd r0 r1 : Int) := by
  intro f
  induction f with
  | zero => intro r0 r1 s0 s1 h; omega
  | succ f ih =>
    intro r0 r1 s0 s1 h
    simp only [xgcdAux]
    split
    · rename_i h0
      have : r1 = 0 := by exact_mod_cast h0
      simp [this]
    · rename_i h0
      have h0' : r1 ≠ 0 := by intro h'; exact h0 (by exact_mod_cast h')
      have hr : (r0 : Int) - (r0 : Int) / r1 * r1 = ((r0 % r1 : Nat) : Int) := by
        rw [Int.natCast_mod, Int.emod_def, Int.mul_comm]
      rw [hr, ih r1 (r0 % r1) _ _ (by have := Nat.mod_lt r0 (Nat.pos_of_ne_zero h0'); omega)]
      congr 1
      rw [Nat.gcd_comm r1, ← Nat.gcd_rec, Nat.gcd_comm]

theorem invNat_some (n : Nat) [NeZero n] (a i : Nat) (h : invNat a n = some i) :
    (a : ZMod n) * (i : ZMod n) = 1 := by
  unfold invNat at h
  simp only at h
  split at h
  · rename_i hg
    cases h
    have hb := xgcdAux_bezout n (a : ZMod n) (n + 1) ((a % n : Nat) : Int) n 1 0
      (by simp) (by simp)
    rw [Int.natCast_mod, hg] at hb
    have hnn : 0 ≤ (xgcdAux (n + 1) ((a : Int) % n) n 1 0).2 % (n : Int) :=
      Int.emod_nonneg _ (by exact_mod_cast NeZero.ne n)
    have hz : ∀ z : Int, 0 ≤ z → ((z.toNat : Nat) : ZMod n) = ((z : Int) : ZMod n) := by
      intro z hz0
      obtain ⟨m, rfl⟩ := Int.eq_ofNat_of_zero_le hz0
      simp
    rw [hz _ hnn, ZMod.intCast_mod, mul_comm]
    simpa using hb
  · cases h

theorem invNat_none (n : Nat) [NeZero n] (a : Nat) (h : invNat a n = none) : Nat.gcd n a ≠ 1 := by
  unfold invNat at h
  simp only at h
  split at h
  · cases h
  · rename_i hg
    intro h1
    apply hg
    have := xgcdAux_gcd (n + 1) (a % n) n 1 0 (Nat.lt_succ_self n)
    rw [show (((a % n : Nat) : Int)) = ((a : Int) % (n : Int)) from Int.natCast_mod a n] at this
    rw [this, ← Nat.gcd_rec]
    exact_mod_cast h1

/-- the laws of the context the driver runs -/
theorem finCtx_lawful (n : Nat) [NeZero n] : (finCtx n).Lawful := by
  obtain ⟨k, rfl⟩ := Nat.exists_eq_succ_of_ne_zero (NeZero.ne n)
  have hcast : ∀ j : Nat, Fin.ofNat (k + 1) j = ((j : ZMod (k + 1)) : Fin (k + 1)) := fun j => rfl
  have hval : ∀ x : Fin (k + 1), ((x.val : ZMod (k + 1)) : Fin (k + 1)) = x := fun x =>
    ZMod.natCast_zmod_val (n := k + 1) x
  have hunit : ∀ x : Fin (k + 1), Nat.gcd (k + 1) x.val = 1 → IsUnit x := by
    intro x h
    have := (ZMod.isUnit_iff_coprime x.val (k + 1)).mpr (Nat.coprime_comm.mp h)
    rw [hval] at this
    exact this
  refine ⟨?_, ?_, fun x => Nat.gcd_dvd_left _ _, hunit, ?_, ?_, fun j => hcast j⟩
  · intro x i h
    simp only [finCtx, Option.map_eq_some_iff] at h
    obtain ⟨j, hj, rfl⟩ := h
    have := invNat_some (k + 1) x.val j hj
    rw [hval] at this
    rw [hcast]; exact this
  · intro x h hu
    simp only [finCtx, Option.map_eq_none_iff] at h
    apply invNat_none (k + 1) x.val h
    have := (ZMod.isUnit_iff_coprime x.val (k + 1)).mp (by rw [hval]; exact hu)
    exact Nat.coprime_comm.mp this
  · intro j
    show Nat.gcd (k + 1) (j % (k + 1)) = Nat.gcd (k + 1) j
    rw [Nat.gcd_comm (k + 1) (j % (k + 1)), ← Nat.gcd_rec]
  · intro x y
    simp [finCtx, Fin.ext_iff]

end Ymq.Suyama
