/-
Model of the prime enumerators of src/fbase.rs:

* `primes n`              — `fbase::primes` (fbase.rs:325-355): odd-only sieve of Eratosthenes over
                            `bound/2` flags, `bound = max(100, n * bitlen n)` computed in `u32`;
* `PrimeSieve.new / next` — `fbase::PrimeSieve::{new, next}` (fbase.rs:362-427): segmented sieve of
                            2^16-wide blocks with one rolling offset per small prime.

Conventions: see Ymq/Model/Mg64.lean.  Numbers are `Nat`; `none` = a panic site of the Rust code
(u32 overflow of `n * bitlen n`, the `assert_eq!` of `PrimeSieve::new`, the u32 underflow of
`o as u32 - 65536`).  The flag arrays are `Array Bool` (compiled: updated in place); the loops
take fuel equal to the array size, which the lemmas in Ymq/Lemmas/Primes*.lean show to be
sufficient (the step is ≥ 1).  No Mathlib import: this file is linked into the native driver.
-/
namespace Ymq.Primes

/-- `32 - n.leading_zeros()` -/
def bitlen (n : Nat) : Nat := if n = 0 then 0 else Nat.log2 n + 1

/-- `max(100, n * (32 - n.leading_zeros()))` in `u32`; `none` = the product overflows `u32`
(panic in the checked profile; the release profile wraps and sieves a wrong, smaller range). -/
def bound (n : Nat) : Option Nat :=
  if n * bitlen n < 2 ^ 32 then some (max 100 (n * bitlen n)) else none

/-- `while k < sieve.len() { sieve[k] = true; k += p }` -/
def markFrom : Nat → Array Bool → Nat → Nat → Array Bool
  | 0, s, _, _ => s
  | f + 1, s, k, p => if k < s.size then markFrom f (s.setIfInBounds k true) (k + p) p else s

/-- `for i in 1..sieve.len() { ... }` of `primes`, from index `i` on; `acc` = the vector `primes`.
Returns at the `break` (`primes.len() == n`) or when the range is exhausted. -/
def primesLoop (n bnd : Nat) : Nat → Nat → Array Bool → Array Nat → Array Nat
  | 0, _, _, acc => acc
  | f + 1, i, s, acc =>
    if i < s.size then
      if s[i]! = false then
        let p := 2 * i + 1
        let acc := acc.push p
        if acc.size = n then acc                                           -- break
        else if p * p > bnd then primesLoop n bnd f (i + 1) s acc          -- continue
        else primesLoop n bnd f (i + 1) (markFrom s.size s (p + p / 2) p) acc
      else primesLoop n bnd f (i + 1) s acc
    else acc

/-- `fbase::primes(n)` -/
def primes (n : Nat) : Option (List Nat) :=
  match bound n with
  | none => none
  | some bnd =>
    let s := Array.replicate (bnd / 2) false
    some ((primesLoop n bnd (bnd / 2) 1 s #[2]).toList.take n)

/-! ### PrimeSieve -/

structure PrimeSieve where
  smalls : List Nat
  offsets : List Nat
  bc : Nat
  deriving Repr

/-- `PrimeSieve::new()` -/
def PrimeSieve.new : Option PrimeSieve :=
  match primes 6542 with
  | none => none
  | some sm =>
    if sm.getLast? = some 65521 then
      some { smalls := sm, offsets := sm.map (fun p => p - 1 - 65535 % p), bc := 0 }
    else none                                                              -- assert_eq!

/-- the 3-way unrolled marking loop: marks `o, o+p, o+2p` while `o + 3p < len` -/
def mark3 : Nat → Array Bool → Nat → Nat → Array Bool × Nat
  | 0, s, o, _ => (s, o)
  | f + 1, s, o, p =>
    if o + 3 * p ≥ s.size then (s, o)
    else mark3 f (((s.setIfInBounds o true).setIfInBounds (o + p) true).setIfInBounds (o + 2 * p) true)
      (o + 3 * p) p

/-- `while o < len { sieve[o] = true; o += p }` -/
def mark1 : Nat → Array Bool → Nat → Nat → Array Bool × Nat
  | 0, s, o, _ => (s, o)
  | f + 1, s, o, p => if o < s.size then mark1 f (s.setIfInBounds o true) (o + p) p else (s, o)

/-- `for (&p, off) in smallprimes.iter().zip(offsets.iter_mut())`: marks the multiples of every
small prime in the current block and moves the offsets to the next block. -/
def sieveStep (s : Array Bool) : List Nat → List Nat → Option (Array Bool × List Nat)
  | p :: ps, o :: os =>
    let r3 := mark3 s.size s o p
    let r1 := mark1 r3.1.size r3.1 r3.2 p
    if r1.2 < 65536 then none                                              -- o as u32 - 65536
    else
      match sieveStep r1.1 ps os with
      | none => none
      | some (s', os') => some (s', (r1.2 - 65536) :: os')
  | _, os => some (s, os)

/-- values `base + idx` for the unmarked indices, in increasing order -/
def collect (s : Array Bool) (base : Nat) : List Nat :=
  ((List.range s.size).filter (fun i => s[i]! = false)).map (fun i => base + i)

/-- `PrimeSieve::next()`: the block returned and the new state. -/
def PrimeSieve.next (ps : PrimeSieve) : Option (List Nat × PrimeSieve) :=
  if ps.bc = 65536 then some ([], ps)
  else if ps.bc = 0 then some (ps.smalls, { ps with bc := 1 })
  else
    match sieveStep (Array.replicate 65536 false) ps.smalls ps.offsets with
    | none => none
    | some (s, offs) =>
      some (collect s (ps.bc * 65536), { ps with offsets := offs, bc := ps.bc + 1 })

/-- state after `k` calls of `next` together with the last block returned -/
def PrimeSieve.nth : Nat → PrimeSieve → Option (List Nat × PrimeSieve)
  | 0, ps => ps.next
  | k + 1, ps =>
    match ps.next with
    | none => none
    | some (_, ps') => PrimeSieve.nth k ps'

/-- the offsets a sieve about to produce block `b ≥ 1` holds: for every small prime `p` the least
`o` with `p ∣ 65536·b + o` (theorem `Ymq.C17.offsets_invariant`).  Used by the driver to answer
`primesieve_block b` for large `b` without walking `b` blocks. -/
def offsetsAt (smalls : List Nat) (b : Nat) : List Nat :=
  smalls.map (fun p => (p - 65536 * b % p) % p)

/-- block `b` of the sieve whose fresh state is `ps`, computed from `offsetsAt` -/
def blockOf (ps : PrimeSieve) (b : Nat) : Option (List Nat) :=
  if b = 0 then some ps.smalls
  else if b ≥ 65536 then some []
  else
    match sieveStep (Array.replicate 65536 false) ps.smalls (offsetsAt ps.smalls b) with
    | none => none
    | some (s, _) => some (collect s (b * 65536))

/-- block `b` of a fresh `PrimeSieve`, computed from `offsetsAt` -/
def blockAt (b : Nat) : Option (List Nat) :=
  match PrimeSieve.new with
  | none => none
  | some ps => blockOf ps b

end Ymq.Primes
