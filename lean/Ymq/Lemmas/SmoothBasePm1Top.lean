/-
The stage-1 exponent stream of `pm1_impl` over the blocks of the `PrimeSieve` model (C17).
-/
import Ymq.Lemmas.SmoothBasePm1
import Ymq.Lemmas.PrimesStream

namespace Ymq.Pm1
open Ymq.Primes Ymq.SmoothBase

set_option maxRecDepth 1000000 in
/-- the largest prime below 2^32 -/
theorem prime_4294967291 : Nat.Prime 4294967291 := by norm_num

theorem primesFrom_bounds {p c : Nat} (hc : c < 65536) (hp : p ∈ primesFrom (65536 * c) 65536) :
    2 ≤ p ∧ p < 2 ^ 32 := by
  rw [mem_primesFrom] at hp
  exact ⟨hp.2.two_le, by omega⟩

/-- **Outer loop.** `P` is any prime with `b1 < P < 2^32`; the loop is at block `c`, everything
below `65536·c` has been consumed without reaching a number `> b1`. -/
theorem outer_spec (thr b1 P : Nat) (hthr : thr + 64 ≤ 1024) (hthr1 : 1 ≤ thr)
    (hP : P.Prime) (hbP : b1 < P) (hP32 : P < 2 ^ 32) :
    ∀ d c f (ps : PrimeSieve) (st : St), c + d = P / 65536 → d < f → Good ps (c + 1) →
      Inv thr st → st.pPrev ≤ b1 →
      (∀ p, p.Prime → p < 65536 * c →
        p ≤ b1 ∧ p ∣ total st ∧ ∀ k, p ^ k < b1 → p ^ k ∣ total st) →
      ∃ evs, outer thr b1 f ps (primesFrom (65536 * c) 65536) st = some evs ∧
        (∀ e ∈ evs, EvOK e) ∧
        ∀ p, p.Prime → p ≤ b1 → p ∣ evProd evs ∧ ∀ k, p ^ k < b1 → p ^ k ∣ evProd evs := by
  have hb32 : b1 < 2 ^ 32 := by omega
  have hmod : b1 % 2 ^ 32 = b1 := Nat.mod_eq_of_lt hb32
  have hPdiv : P / 65536 < 65536 := by omega
  intro d
  induction d with
  | zero =>
    intro c f ps st hcd hf hgood hinv hpp hold
    obtain ⟨f, rfl⟩ : ∃ f', f = f' + 1 := ⟨f - 1, by omega⟩
    have hc : c < 65536 := by omega
    obtain ⟨st', fl, hblk, hinv', hdvd, hall, hT, hF⟩ :=
      block_spec thr b1 hthr hthr1 hb32 (primesFrom (65536 * c) 65536) st hinv
        (fun p hp => primesFrom_bounds hc hp) (primesFrom_sorted _ _) hpp
    have hPin : P ∈ primesFrom (65536 * c) 65536 := by
      rw [mem_primesFrom]
      have := Nat.div_add_mod P 65536
      have := Nat.mod_lt P (by decide : 65536 > 0)
      exact ⟨⟨by omega, by omega⟩, hP⟩
    cases fl with
    | false =>
      exfalso
      have := (hF rfl).2 P hPin
      omega
    | true =>
      obtain ⟨he, hl, hprev, q, hq, hqb⟩ := hT rfl
      rw [outer, hblk]
      simp only
      rw [hmod, if_pos hprev]
      have htot : evProd st'.evs.reverse = total st' := by
        rw [evProd_reverse, total, he, hl]; ring
      refine ⟨_, rfl, fun e he' => hinv'.ev_ok e (List.mem_reverse.mp he'), ?_⟩
      intro p hp hpb
      rw [htot]
      by_cases hlt : p < 65536 * c
      · obtain ⟨_, h2, h3⟩ := hold p hp hlt
        exact ⟨dvd_trans h2 hdvd, fun k hk => dvd_trans (h3 k hk) hdvd⟩
      · have hq' := (mem_primesFrom.mp hq).1
        have hpin : p ∈ primesFrom (65536 * c) 65536 := by
          rw [mem_primesFrom]; exact ⟨⟨by omega, by omega⟩, hp⟩
        exact hall p hpin hpb
  | succ d ih =>
    intro c f ps st hcd hf hgood hinv hpp hold
    obtain ⟨f, rfl⟩ : ∃ f', f = f' + 1 := ⟨f - 1, by omega⟩
    have hc : c < 65536 := by omega
    obtain ⟨st', fl, hblk, hinv', hdvd, hall, hT, hF⟩ :=
      block_spec thr b1 hthr hthr1 hb32 (primesFrom (65536 * c) 65536) st hinv
        (fun p hp => primesFrom_bounds hc hp) (primesFrom_sorted _ _) hpp
    cases fl with
    | true =>
      obtain ⟨he, hl, hprev, q, hq, hqb⟩ := hT rfl
      rw [outer, hblk]
      simp only
      rw [hmod, if_pos hprev]
      have htot : evProd st'.evs.reverse = total st' := by
        rw [evProd_reverse, total, he, hl]; ring
      refine ⟨_, rfl, fun e he' => hinv'.ev_ok e (List.mem_reverse.mp he'), ?_⟩
      intro p hp hpb
      rw [htot]
      by_cases hlt : p < 65536 * c
      · obtain ⟨_, h2, h3⟩ := hold p hp hlt
        exact ⟨dvd_trans h2 hdvd, fun k hk => dvd_trans (h3 k hk) hdvd⟩
      · have hq' := (mem_primesFrom.mp hq).1
        have hpin : p ∈ primesFrom (65536 * c) 65536 := by
          rw [mem_primesFrom]; exact ⟨⟨by omega, by omega⟩, hp⟩
        exact hall p hpin hpb
    | false =>
      obtain ⟨hprev, hallle⟩ := hF rfl
      obtain ⟨ps', hnext, hgood'⟩ := next_spec ps (c + 1) hgood (by omega) (by omega)
      rw [outer, hblk]
      simp only
      rw [hmod, if_neg (by omega), hnext]
      simp only
      have e : 65536 * (c + 1) = 65536 * c + 65536 := by ring
      apply ih (c + 1) f ps' st' (by omega) (by omega) hgood' hinv' hprev
      intro p hp hlt
      by_cases hlt' : p < 65536 * c
      · obtain ⟨h1, h2, h3⟩ := hold p hp hlt'
        exact ⟨h1, dvd_trans h2 hdvd, fun k hk => dvd_trans (h3 k hk) hdvd⟩
      · have hpin : p ∈ primesFrom (65536 * c) 65536 := by
          rw [mem_primesFrom]; exact ⟨⟨by omega, by omega⟩, hp⟩
        have hle := hallle p hpin
        obtain ⟨h2, h3⟩ := hall p hpin hle
        exact ⟨hle, h2, h3⟩

/-- **Stage 1 of P−1.** For every flush threshold `thr ≤ 960`, every `b1 ≥ 4` below a prime
`P < 2^32`: no panic site is reached (no `u64`/`U1024` overflow), every exponent fits its type and
every prime `p ≤ b1` and every prime power `p^k < b1` divides the product of the exponents. -/
theorem stage1_spec (thr b1 P : Nat) (hthr : thr + 64 ≤ 1024) (hthr1 : 1 ≤ thr) (h4 : 4 ≤ b1)
    (hP : P.Prime) (hbP : b1 < P) (hP32 : P < 2 ^ 32)
    (HSmall : primes 6542 = some (primesBelow 65536)) :
    ∃ evs, stage1 thr b1 = some evs ∧ (∀ e ∈ evs, EvOK e) ∧
      ∀ p, p.Prime → p ≤ b1 → p ∣ evProd evs ∧ ∀ k, p ^ k < b1 → p ^ k ∣ evProd evs := by
  obtain ⟨ps0, ps1, hnew, hnext, hgood⟩ := new_spec HSmall
  unfold stage1
  rw [if_neg (by omega), hnew]
  simp only
  rw [hnext]
  simp only
  have e0 : primesBelow 65536 = primesFrom (65536 * 0) 65536 := by
    have := primesBelow_append 0 65536
    simpa [primesBelow] using this
  rw [e0]
  have hd : P / 65536 < 65600 := by omega
  apply outer_spec thr b1 P hthr hthr1 hP hbP hP32 (P / 65536) 0 65600 ps1 st0 (by omega) hd
    hgood (inv_st0 thr hthr1) (by show 1 ≤ b1; omega)
  intro p _ hlt
  omega

end Ymq.Pm1
