import Ymq.Props.C03
import Ymq.Props.C03Qs64
import Ymq.Props.C03Squfof
import Ymq.Props.C03Rho
#print axioms Ymq.C03.factor_total
#print axioms Ymq.C03.factorImpl_total
#print axioms Ymq.C03.factor_total_of_input
#print axioms Ymq.C03Qs64.qs64_relations_valid
#print axioms Ymq.C03Qs64.qs64_relations_finalRel
#print axioms Ymq.C03Qs64.qs64_uses_final_step
#print axioms Ymq.C03Qs64.qs64_proper
#print axioms Ymq.C03Qs64.qs64_improper_when_n_eq_k
#print axioms Ymq.C03Qs64.admissible_not_square
#print axioms Ymq.C03Qs64.admissible_of_guards
#print axioms Ymq.C03Qs64.qs64_no_panic_of_nonsquare
#print axioms Ymq.C03Qs64.qs64_no_panic
#print axioms Ymq.C03Qs64.qs64_square_nk_counterexample
#print axioms Ymq.C03Qs64.usesQs64_of_model
#print axioms Ymq.C03Squfof.isqrt_total
#print axioms Ymq.C03Squfof.squfof_seed_irrelevant
#print axioms Ymq.C03Squfof.squfof_sound
#print axioms Ymq.C03Squfof.squfof_no_panic
#print axioms Ymq.C03Squfof.attempt_no_panic
#print axioms Ymq.C03Squfof.attempt_skips_square
#print axioms Ymq.C03Squfof.squfof_exit
#print axioms Ymq.C03Squfof.squfof_proper
#print axioms Ymq.C03Squfof.squfof_trivial_split_small_primes
#print axioms Ymq.C03Squfof.squfof_uses_exit
#print axioms Ymq.C03Squfof.sqOracle_uses_exit
#print axioms Ymq.C03Rho.rho64_no_panic
#print axioms Ymq.C03Rho.rho_no_panic
#print axioms Ymq.C03Rho.rho_no_panic_call_site
#print axioms Ymq.C03Rho.rho_proper
#print axioms Ymq.C03Rho.rho_uses_rho64
#print axioms Ymq.C03Rho.rho_large_none
#print axioms Ymq.C03Rho.rho_prime_none
#print axioms Ymq.C03Rho.rho_prime_square
#print axioms Ymq.C03Rho.rho_semiprime_no_panic
#print axioms Ymq.C03Rho.rho_semiprime_proper
#print axioms Ymq.C03Rho.noSmall_below_top
