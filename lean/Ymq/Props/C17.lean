/-
C17 — Prime enumeration is exact and smoothness exponents cover every prime power.
Only property theorems live here (helper lemmas: Ymq/Lemmas/Primes*.lean, SmoothBase*.lean).

Reading guide.  All theorems are about the executable models of Ymq/Model/Primes.lean
(`primes` = `fbase::primes`, `PrimeSieve.new/next/nth` = `fbase::PrimeSieve`) and
Ymq/Model/SmoothBase.lean (`SmoothBase.new` = `ecm::SmoothBase::new`, `PM1Base.new`,
`Pm1.stage1 thr b1` = the exponents that stage 1 of `pm1_impl` hands to `exp_modn` /
`exp_modn_large`, with the flush threshold of the 1024-bit block as a parameter).
`f … = some r` means: the Rust routine returns `r` without reaching any panic site (overflow
check of either integer type, assertion, index check) — in particular no value ever wraps.
`primesBelow m` is the increasing list of all primes `< m`, `primesFrom a n` that of the primes
in `[a, a + n)` (Ymq/Lemmas/PrimesSieve.lean, PrimesStream.lean), both defined with Mathlib's
`Nat.Prime`.

Facts that earlier drafts took as hypotheses and that are now proved inside Lean:
* `HSmall` — block 0 of the sieve model, `primes 6542`, is the list of all primes below 2^16:
  theorem `Ymq.Primes.primes_6542` (correctness of the sieve model + π(65536) = 6542 computed in
  the kernel with a verified trial-division test);
* `HGap` for `B1 ≤ 2^24` — each of the first 258 blocks contains a prime (`Ymq.Primes.gap_257`).
Remaining named hypotheses: `HRosser` (theorem `primes_exact`) and `HGap` beyond 2^24
(theorem `smoothbase_divides`).
-/
import Ymq.Lemmas.PrimesSmall
import Ymq.Lemmas.PrimesGap
import Ymq.Lemmas.PrimesRosser
import Ymq.Lemmas.SmoothBaseTop
import Ymq.Lemmas.SmoothBasePm1Base
import Ymq.Lemmas.SmoothBasePm1Witness
import Mathlib.Data.Nat.Prime.Nth
import Mathlib.NumberTheory.Bertrand

namespace Ymq.C17
open Ymq.Primes

/-! ### fbase::primes -/

/-- **Soundness of `primes`.** Whenever the bound `max(100, n·bitlen n)` fits a `u32`, `primes n`
returns — without panic — the increasing list of *all* primes below `2·⌊bound/2⌋` (the range the
odd-only sieve covers), truncated to `n` entries.  (Eratosthenes: an odd number in range is left
unmarked iff it is prime; the `p² > bound` shortcut and the first marked multiple `3p` lose
nothing; the early `break` returns the same prefix.) -/
theorem primes_sound (n bnd : Nat) (h : bound n = some bnd) :
    primes n = some ((primesBelow (2 * (bnd / 2))).take n) :=
  primes_eq n bnd h

/-- the bound in closed form; outside this domain (`n·bitlen n ≥ 2^32`, i.e. `n ≥ 153 391 690`) the
checked profile panics on the `u32` multiplication and the model returns `none` -/
theorem primes_sound_domain (n : Nat) :
    (n * bitlen n < 2 ^ 32 →
      primes n = some ((primesBelow (2 * (max 100 (n * bitlen n) / 2))).take n)) ∧
    (¬ n * bitlen n < 2 ^ 32 → primes n = none) := by
  constructor
  · intro h
    exact primes_eq n _ (by unfold bound; rw [if_pos h])
  · intro h
    unfold primes bound
    rw [if_neg h]

/-- **Length.** `primes n` has exactly `n` entries whenever there are at least `n` primes below the
sieve bound (true for every `n` under `HRosser`, see `primes_exact`). -/
theorem primes_len (n bnd : Nat) (h : bound n = some bnd)
    (hpi : n ≤ (primesBelow (2 * (bnd / 2))).length) :
    ∃ l, primes n = some l ∧ l.length = n :=
  ⟨_, primes_eq n bnd h, by rw [List.length_take]; omega⟩

/-- Rosser-type bound used by the code ("the n-th prime is always less than n·bitlen(n) except for
n = 1"), up to `K`: the `k`-th prime (1-based) is below `k·bitlen k` for `2 ≤ k ≤ K`. -/
def HRosserUpTo (K : Nat) : Prop := ∀ k, 2 ≤ k → k ≤ K → Nat.nth Nat.Prime (k - 1) < k * bitlen k

/-- … for every `k ≥ 2`.  Literature fact (`p_k < k(ln k + ln ln k)` for `k ≥ 6`,
Rosser–Schoenfeld 1962, and `log₂ k < bitlen k`); a *hypothesis* of `primes_exact`, not an axiom. -/
def HRosser : Prop := ∀ K, HRosserUpTo K

/-- exactness for one `k`, from the bound up to `k` -/
theorem primes_exact_upto (k : Nat) (hR : HRosserUpTo k) (hk : k * bitlen k < 2 ^ 32) :
    primes k = some ((List.range k).map (Nat.nth Nat.Prime)) := by
  rw [(primes_sound_domain k).1 hk]
  apply congrArg
  apply take_primesBelow
  by_cases h0 : k = 0
  · exact Or.inl h0
  · right
    have hlt : Nat.nth Nat.Prime (k - 1) < max 100 (k * bitlen k) := by
      by_cases h1 : k = 1
      · subst h1
        rw [show 1 - 1 = 0 from rfl, Nat.nth_prime_zero_eq_two]
        omega
      · have := hR k (by omega) (Nat.le_refl k)
        omega
    have hp : (Nat.nth Nat.Prime (k - 1)).Prime := Nat.prime_nth_prime _
    -- an odd bound loses its last (even) number only
    by_contra hge
    have heq : Nat.nth Nat.Prime (k - 1) = 2 * (max 100 (k * bitlen k) / 2) := by omega
    have := Nat.Prime.eq_one_or_self_of_dvd hp 2 ⟨_, heq⟩
    omega

/-- **Exactness.** Under `HRosser`, for every `k` in the domain (`k·bitlen k < 2^32`), `primes k`
is exactly the list of the first `k` primes `[nth Prime 0, …, nth Prime (k-1)]`. -/
theorem primes_exact (hR : HRosser) (k : Nat) (hk : k * bitlen k < 2 ^ 32) :
    primes k = some ((List.range k).map (Nat.nth Nat.Prime)) :=
  primes_exact_upto k (hR k) hk

/-- **Exactness, unconditionally, for every `k ≤ 564`** (all primes below 4096): the bound
`p_k < k·bitlen k` is checked in the kernel on the list of primes computed with a verified
primality test, so `HRosser` is not contradictory on the range where it can be checked here. -/
theorem primes_small_exact (k : Nat) (hk : k ≤ 564) :
    primes k = some ((List.range k).map (Nat.nth Nat.Prime)) := by
  have hk32 : k * bitlen k < 2 ^ 32 := by
    have : bitlen k ≤ 10 := Ymq.SmoothBase.bitlen_le_of_lt (by omega)
    have : k * bitlen k ≤ 564 * 10 := Nat.mul_le_mul hk this
    omega
  exact primes_exact_upto k (fun j h2 hj => rosser_564 j h2 (by omega)) hk32

/-- non-vacuity of the hypothesis of `primes_exact` on the checked range -/
example : HRosserUpTo 564 := fun k h2 hk => rosser_564 k h2 hk

/-- non-vacuity of `primes_sound` / `primes_len`: the bound exists for every n in the domain, and
`primes 5` is what one expects -/
example : bound 5 = some 100 ∧ primes 5 = some [2, 3, 5, 7, 11] := by decide +kernel

/-- F2 (fixed by commit 2c6d400): `primes(0)` and `primes(1)` are now truncated -/
theorem primes_zero_one : primes 0 = some [] ∧ primes 1 = some [2] := by decide +kernel

/-! ### fbase::PrimeSieve -/

/-- **Offsets invariant.** After `b + 1` calls of `next` (`b < 65536`) on a fresh sieve the state
holds all primes below 2^16 as small primes, block counter `b + 1`, and for every small prime `p`
the offset `(p − 65536·(b+1) mod p) mod p`: the distance from the start of the next block to the
next multiple of `p`. -/
theorem offsets_invariant (b : Nat) (hb : b < 65536) :
    ∃ ps0 blk ps', PrimeSieve.new = some ps0 ∧ PrimeSieve.nth b ps0 = some (blk, ps') ∧
      ps'.smalls = primesBelow 65536 ∧ ps'.offsets = offsetsAt ps'.smalls (b + 1) ∧
      ps'.bc = b + 1 := by
  obtain ⟨ps0, ps1, hnew, hnext, hgood⟩ := new_spec primes_6542
  cases b with
  | zero =>
    exact ⟨ps0, primesBelow 65536, ps1, hnew, hnext, hgood.smalls,
      by rw [offsetsAt_eq]; exact hgood.offsets, hgood.bc⟩
  | succ b =>
    obtain ⟨ps', hn, hg⟩ := nth_spec b 1 ps1 hgood (by omega) (by omega)
    have e : 1 + b + 1 = b + 1 + 1 := by omega
    rw [e] at hg
    refine ⟨ps0, primesFrom (65536 * (1 + b)) 65536, ps', hnew, ?_, hg.smalls,
      by rw [offsetsAt_eq]; exact hg.offsets, hg.bc⟩
    rw [PrimeSieve.nth, hnext]; exact hn

/-- **Block specification.** Call number `b + 1` (`b ∈ [0, 65535]`) of `next` on a fresh sieve
returns — without panic — exactly the primes of `[65536·b, 65536·(b+1))` in increasing order
(block 0 is the list of all primes below 2^16: `HSmall`, proved).  Every composite below 2^32 has
a prime factor below 2^16, so sieving with the small primes is complete. -/
theorem block_spec (b : Nat) (hb : b < 65536) :
    ∃ ps0 ps', PrimeSieve.new = some ps0 ∧
      PrimeSieve.nth b ps0 = some (primesFrom (65536 * b) 65536, ps') := by
  obtain ⟨ps0, ps1, hnew, hnext, hgood⟩ := new_spec primes_6542
  cases b with
  | zero =>
    refine ⟨ps0, ps1, hnew, ?_⟩
    rw [Nat.mul_zero, ← primesBelow_eq_primesFrom_zero]; exact hnext
  | succ b =>
    obtain ⟨ps', hn, _⟩ := nth_spec b 1 ps1 hgood (by omega) (by omega)
    refine ⟨ps0, ps', hnew, ?_⟩
    rw [PrimeSieve.nth, hnext]
    simp only
    rw [hn, Nat.add_comm 1 b]

/-- the blocks are strictly increasing lists of primes and consecutive blocks tile `[0, 2^32)`:
together they enumerate every prime below 2^32 exactly once, in increasing order -/
theorem blocks_tile (b : Nat) :
    primesBelow (65536 * (b + 1)) = primesBelow (65536 * b) ++ primesFrom (65536 * b) 65536 ∧
    (primesFrom (65536 * b) 65536).Pairwise (· < ·) ∧
    ∀ p, p ∈ primesFrom (65536 * b) 65536 ↔ (65536 * b ≤ p ∧ p < 65536 * (b + 1)) ∧ p.Prime := by
  refine ⟨by rw [show 65536 * (b + 1) = 65536 * b + 65536 by ring, primesBelow_append],
    primesFrom_sorted _ _, fun p => ?_⟩
  rw [mem_primesFrom, show 65536 * (b + 1) = 65536 * b + 65536 by ring]

/-- **End of the stream.** From call number 65537 on, `next` returns the empty block forever. -/
theorem sieve_end (b : Nat) (hb : 65536 ≤ b) :
    ∃ ps0 ps', PrimeSieve.new = some ps0 ∧ PrimeSieve.nth b ps0 = some ([], ps') := by
  obtain ⟨ps0, ps1, hnew, hnext, hgood⟩ := new_spec primes_6542
  obtain ⟨psE, hn, hg⟩ := nth_spec 65534 1 ps1 hgood (by omega) (by omega)
  -- psE: state after 65536 calls
  have hadd : ∀ (a : Nat) (ps : PrimeSieve) blk ps', PrimeSieve.nth a ps = some (blk, ps') →
      ∀ k, PrimeSieve.nth (a + 1 + k) ps = PrimeSieve.nth k ps' := by
    intro a
    induction a with
    | zero =>
      intro ps blk ps' h k
      rw [show 0 + 1 + k = k + 1 by omega, PrimeSieve.nth]
      rw [PrimeSieve.nth] at h
      rw [h]
    | succ a ih =>
      intro ps blk ps' h k
      rw [PrimeSieve.nth] at h
      rw [show a + 1 + 1 + k = (a + 1 + k) + 1 by omega, PrimeSieve.nth]
      cases hnx : ps.next with
      | none => rw [hnx] at h; simp at h
      | some r =>
        obtain ⟨b0, ps1'⟩ := r
        rw [hnx] at h
        simp only at h ⊢
        exact ih ps1' blk ps' h k
  have h65535 : PrimeSieve.nth 65535 ps0 = some (primesFrom (65536 * (1 + 65534)) 65536, psE) := by
    rw [show (65535 : Nat) = 65534 + 1 from rfl, PrimeSieve.nth, hnext]; exact hn
  refine ⟨ps0, psE, hnew, ?_⟩
  rw [show b = 65535 + 1 + (b - 65536) by omega, hadd 65535 ps0 _ psE h65535]
  exact nth_end _ psE (by rw [hg.bc])

/-- the driver's shortcut `blockAt b = blockOf ps0 b` (offsets computed from `offsetsAt` instead of
walking `b` blocks) returns the same block as the sequential model (`block_spec`, `sieve_end`) -/
theorem blockAt_spec (b : Nat) (ps0 : PrimeSieve) (hnew : PrimeSieve.new = some ps0) :
    blockOf ps0 b = some (if b < 65536 then primesFrom (65536 * b) 65536 else []) := by
  obtain ⟨ps0', hnew', hsm0'⟩ := new_smalls primes_6542
  have hsm0 : ps0.smalls = primesBelow 65536 := by
    rw [hnew] at hnew'
    rw [Option.some.inj hnew']; exact hsm0'
  unfold blockOf
  by_cases h0 : b = 0
  · subst h0
    rw [if_pos rfl, if_pos (by decide), hsm0, Nat.mul_zero, ← primesBelow_eq_primesFrom_zero]
  · rw [if_neg h0]
    by_cases hge : b ≥ 65536
    · rw [if_pos hge, if_neg (by omega)]
    · rw [if_neg hge, if_pos (by omega)]
      have hsm : ∀ p ∈ ps0.smalls, 0 < p ∧ p ≤ 65536 := by
        intro p hp
        rw [hsm0, mem_primesBelow] at hp
        exact ⟨hp.2.pos, by omega⟩
      obtain ⟨s', hs', hsz', hfl'⟩ :=
        sieveStep_spec b ps0.smalls (Array.replicate 65536 false) (by simp) hsm
      rw [offsetsAt_eq, hs']
      simp only
      rw [collect_spec s' b hsz' (by omega) (by omega)]
      intro i hi
      rw [hfl' i hi, flag_replicate 65536 i hi, hsm0]
      simp

/-! ### ecm::SmoothBase::new -/

open Ymq.SmoothBase in
/-- **Packing.** On every strictly increasing list of numbers `≥ 2` and every `b1 < 2^32` the
packing loop of `SmoothBase::new` reaches no panic site (no `u64` overflow of `pow * p`,
`pow *= 16`, `buffer *= pow`; no `U1024` overflow of `buffer_lg *= buffer`), every `u64` block is
`< 2^64`, every large block `< 2^1024`, and for every list element `p < b1` each power
`p^k < b1` divides the product of all blocks. -/
theorem smoothbase_pack_divides (b1 : Nat) (useLarge : Bool) (ps : List Nat) (hb : b1 < 2 ^ 32)
    (hps : ∀ p ∈ ps, 2 ≤ p) (hsort : ps.Pairwise (· < ·)) :
    ∃ f l, pack b1 useLarge ps = some (f, l) ∧ (∀ x ∈ f, x < 2 ^ 64) ∧
      (∀ x ∈ l, x < 2 ^ 1024) ∧
      ∀ p ∈ ps, p < b1 → ∀ k, p ^ k < b1 → p ^ k ∣ f.prod * l.prod :=
  pack_spec b1 useLarge ps hb hps hsort

/-- every 2^16-wide block that `SmoothBase::new(b1, _)` reads before it sees a prime `> b1`
contains a prime (the maximal prime gap below 2^32 is 336: literature fact; proved here for the
first 258 blocks, `HGap_16M`) -/
def HGap (b1 : Nat) : Prop := ∀ c, c ≤ b1 / 65536 + 1 → primesFrom (65536 * c) 65536 ≠ []

theorem HGap_16M (b1 : Nat) (hb : b1 ≤ 2 ^ 24) : HGap b1 := by
  intro c hc
  exact gap_257 c (by omega)

/-- **SmoothBase.** For every `b1 < 65536·65535` (with `HGap b1` when `b1 ≥ 65536`) and both values
of `use_large`: `SmoothBase::new` does not panic (no empty block is indexed, nothing overflows),
every `u64` block is `< 2^64`, every large block `< 2^1024`, and **every prime power `q < b1`
divides the product of all blocks**. -/
theorem smoothbase_divides (b1 : Nat) (useLarge : Bool) (hb : b1 < 4294901760)
    (hgap : 65536 ≤ b1 → HGap b1) :
    ∃ f l, Ymq.SmoothBase.new b1 useLarge = some (f, l) ∧ (∀ x ∈ f, x < 2 ^ 64) ∧
      (∀ x ∈ l, x < 2 ^ 1024) ∧
      ∀ p k, p.Prime → p ^ k < b1 → p ^ k ∣ f.prod * l.prod := by
  by_cases hsm : b1 < 65536
  · obtain ⟨l, hl, hsrc⟩ := Ymq.SmoothBase.sbPrimes_small b1 hsm
    exact Ymq.SmoothBase.new_of_source b1 useLarge (by omega) l hl hsrc
  · obtain ⟨l, hl, hsrc⟩ := Ymq.SmoothBase.sbPrimes_large b1 (by omega) hb primes_6542
      (hgap (by omega))
    exact Ymq.SmoothBase.new_of_source b1 useLarge (by omega) l hl hsrc

/-- … unconditionally for every `b1 ≤ 2^24 = 16 777 216` (covers the property's range `B1 ≤ 10^6`
and the thorough tier's `10^7`) -/
theorem smoothbase_divides_16M (b1 : Nat) (useLarge : Bool) (hb : b1 ≤ 2 ^ 24) :
    ∃ f l, Ymq.SmoothBase.new b1 useLarge = some (f, l) ∧ (∀ x ∈ f, x < 2 ^ 64) ∧
      (∀ x ∈ l, x < 2 ^ 1024) ∧
      ∀ p k, p.Prime → p ^ k < b1 → p ^ k ∣ f.prod * l.prod :=
  smoothbase_divides b1 useLarge (by omega) (fun _ => HGap_16M b1 hb)

/-- non-vacuity: a concrete instance, evaluated on the model -/
example : Ymq.SmoothBase.new 100 true = some ([43589145600, 10131543907, 25828479029, 293391909323], []) := by
  decide +kernel

/-! ### pollard_pm1: stage-1 exponent stream and PM1Base -/

open Ymq.Pm1 in
/-- **Inner loop of P−1 stage 1** over one strictly increasing list of numbers `2 ≤ p < 2^32`,
for any flush threshold `thr` with `thr + 64 ≤ 1024`: no panic (in particular the `U1024`
product `expblock_lg *= expblock` never overflows), and for every list element `p ≤ b1` both `p`
and every power `p^k < b1` divide the accumulated exponent. -/
theorem pm1_block_divides (thr b1 : Nat) (hthr : thr + 64 ≤ 1024) (hthr1 : 1 ≤ thr)
    (hb : b1 < 2 ^ 32) (ps : List Nat) (st : St) (hst : Inv thr st)
    (hps : ∀ p ∈ ps, 2 ≤ p ∧ p < 2 ^ 32) (hsort : ps.Pairwise (· < ·)) (hprev : st.pPrev ≤ b1) :
    ∃ st' fl, block thr b1 ps st = some (st', fl) ∧ Inv thr st' ∧ total st ∣ total st' ∧
      ∀ p ∈ ps, p ≤ b1 → p ∣ total st' ∧ ∀ k, p ^ k < b1 → p ^ k ∣ total st' := by
  obtain ⟨st', fl, h1, h2, h3, h4, _, _⟩ :=
    Ymq.Pm1.block_spec thr b1 hthr hthr1 hb ps st hst hps hsort hprev
  exact ⟨st', fl, h1, h2, h3, h4⟩

open Ymq.Pm1 in
/-- **P−1 stage 1.** For the threshold of the code (`1024 − 64`) and every `4 ≤ B1 < 4294967291`
(the largest prime below 2^32): stage 1 of `pm1_impl` reaches no panic site — no `u64` and no
`U1024` overflow — every exponent handed to `exp_modn` is `< 2^64`, every exponent handed to
`exp_modn_large` is `< 2^1024`, and **every prime `p ≤ B1` and every prime power `p^k < B1`
divides the product of the exponents** (the accumulated exponent of 2). -/
theorem pm1_stage1_divides (b1 : Nat) (h4 : 4 ≤ b1) (hb : b1 < 4294967291) :
    ∃ evs, stage1 THR b1 = some evs ∧ (∀ e ∈ evs, EvOK e) ∧
      ∀ p, p.Prime → p ≤ b1 → p ∣ evProd evs ∧ ∀ k, p ^ k < b1 → p ^ k ∣ evProd evs :=
  stage1_spec THR b1 4294967291 (by decide) (by decide) h4 prime_4294967291 hb (by decide)
    primes_6542

open Ymq.Pm1 in
/-- the same for every flush threshold `1 ≤ thr ≤ 960` of the parametrised model: `1024 − 64` is
the largest threshold for which the no-overflow argument goes through -/
theorem pm1_stage1_divides_thr (thr b1 : Nat) (hthr : thr + 64 ≤ 1024) (hthr1 : 1 ≤ thr)
    (h4 : 4 ≤ b1) (hb : b1 < 4294967291) :
    ∃ evs, stage1 thr b1 = some evs ∧ (∀ e ∈ evs, EvOK e) ∧
      ∀ p, p.Prime → p ≤ b1 → p ∣ evProd evs ∧ ∀ k, p ^ k < b1 → p ^ k ∣ evProd evs :=
  stage1_spec thr b1 4294967291 hthr hthr1 h4 prime_4294967291 hb (by decide) primes_6542

open Ymq.Pm1 in
/-- **Counter-witness for the old threshold (commit 2a39e49).** With the flush threshold
`1024 − 32` that `pm1_impl` had before the fix, `B1 = 65536` reaches the `U1024` overflow site of
`expblock_lg *= expblock` while consuming the first 90 primes — whatever follows them: the release
profile silently wraps (prime powers are lost from the exponent), the checked profile panics. -/
theorem pm1_stage1_overflow_992 (rest : List Nat) :
    block (1024 - 32) 65536 (first90 ++ rest) st0 = none ∧
    (block (1024 - 64) 65536 first90 st0).isSome = true :=
  ⟨block_none_append 992 65536 first90 rest st0 witness_prefix, witness_prefix_960⟩

open Ymq.Pm1 in
/-- … and on the complete model: `stage1` with threshold `1024 − 32` fails for `B1 = 65536`,
while it succeeds with `1024 − 64` (`pm1_stage1_divides`). -/
theorem pm1_stage1_overflow_992_model :
    stage1 (1024 - 32) 65536 = none ∧ (stage1 (1024 - 64) 65536).isSome = true := by
  refine ⟨stage1_992_overflow, ?_⟩
  obtain ⟨evs, h, _⟩ := pm1_stage1_divides 65536 (by decide) (by decide)
  rw [show (1024 - 64 : Nat) = THR from rfl, h]; rfl

/-- **PM1Base.** `PM1Base::new()` does not panic, every compact block fits a `u32`, and for every
prime `p < 500` each power `p^k < 1024` divides the product of the blocks. -/
theorem pm1base_divides :
    ∃ f l, Ymq.PM1Base.new = some (f, l) ∧ (∀ x ∈ f, x < 2 ^ 32) ∧
      ∀ p k, p.Prime → p < 500 → p ^ k < 1024 → p ^ k ∣ f.prod :=
  Ymq.PM1Base.new_spec

end Ymq.C17
