"""C16 — group-order methods (P-1, P+1, ECM, Pollard rho) find every factor their bounds promise,
and nothing false.

Request lines: see harness/src/ops_stage2.rs and lean/Ymq/Drv/Stage2.lean.

Constructed inputs: n = p*q where the group order attached to p (p-1, p+1 with a suitable seed, or
the order of the curve point modulo p) is s*l with s | (stage-1 exponent for B1) and l a prime > B1
that exactly divides the order of the *element*; q is "strong" (its group orders have a huge prime
factor).  For such n the run returns p iff stage 2 tests a multiple of l, so the answer is a function
of the index structure alone: the Lean model predicts it (K) and the oracle below recomputes it from
its own reading of the loops (O: p MUST be found when l is covered; outside coverage nothing is
required; whatever is returned must multiply back to n with parts > 1).
"""
# SIZE AUDIT (quick tier), measured on cases('quick', Random(1)) + corpus/C16 before the boundary family was added: bit length of n per op
#   op                      quick max     thorough max  code supports                      boundary classes reached in quick (before the audit)
#   s2_pm1 / s2_pp1         160 (corpus   170 / 162     ZmodN: odd n < 2^512, factor()     127,128,129 by chance (3..22 cases); nothing at 63..65 (one word),
#                           pm1: 351)                   refuses > 500; polynomial stage 2  255..257, 320, 384, 447..449, 499, 500: MISSING in both tiers
#                                                       (convolve_modn_ntt) <= 500 bits
#   s2_pm1x                 259           265           same                               none deterministically
#   s2_pm1_only/_quick      161 / 281     202 / 312     bands to 471.. bits; quick caps    interior sizes of the bands with B1 <= 2^20, B2 <= 1.3e9 only (larger
#                                                       bits_max = 310                     bands cost seconds..minutes per run); band edges are parameter choices
#                                                                                          read from the source by model and oracle alike (tables: C20)
#   s2_ecm                  77            78            ZmodN as above; roots_eval arm     63,64,65 (3 each + corpus 30..41); 127.. 500: MISSING in both tiers
#                                                       for d1 >= 4000
#   s2_ecm128               67 (corpus    70            u128: odd n < 2^128, two-word      63,64 (corpus 11..15 each), 65..71; 126,127,128: MISSING in both tiers
#                           71)                         Montgomery form above 2^64
#   s2_rho64                64            64            u64                                31..33, 63, 64 (45 cases at 64 bits): reached
#   s2_rho_impl             125           125           ZmodN (<= 512)                     64 (4 cases); 127.. 500: MISSING
#   s2_gcdf/s2_cgf/s2_cgf1  365/327/251   416/364/339   Uint n, raw 512-bit words          31..33, 63..65, 127..129 by chance (1..4 cases); 255..257, 448, 500: MISSING
#                           values 428                                                     (pseudoprime / big_gcd never saw a part above ~360 bits)
#   s2_expmodn/cheb/_large  500           500           ZmodN; e: u64 / U1024              moduli 61,64,127,151,216,500 bits; exponents 31..33,63,64 / 63..65,127..129,
#                                                                                          1019..1024 bits: reached (ring sizes in between are C07's)
#   s2_pm1base              61            61            u64 argument, SOUND BELOW 2^63     62,63: MISSING (now 6 cases at 63 bits); see the note below
#   s2_sel / s2_walk        B2 to 2^53    same          f64 labels < 2^53                  B2 around 2^32: 14..24 cases each; every row, midpoint +-1: reached
#   B1 / B2 of full runs    B1 <= 2^20,   B1 <= 7e6,    B1 < 2^32 (u32 primes), B2 f64;    no type boundary in reach: the u32 casts (`p > b2 as u32`) sit on the
#                           B2 <= 1.2e9   B2 <= 1.8e10  d2^2*d1 > 2^64 above 1e13          prime walk (B2 <= 8e4); d2^2*d1 overflow needs B2 > 1e13 (hours)
# Added: boundary_cases (first in both tiers): P-1 (prime walk, polynomial stage 2), P+1, ECM (both arms), rho_impl at n of exactly
# 63,64,65 (P-1/P+1), 127,128,129,255,256,257,320,384,447,448,449,499,500 bits; ecm128 at 65,96,126,127,128 bits; gcd_factors /
# check_gcd_factor(s) at 255,256,257,448,500 bits; PM1Base at 63 bits. Not added: n of 501..512 bits (outside factor()'s range; a
# 512-bit n makes ecm_curve panic in `invalid point` because ZmodN::add is wrong for 512-bit moduli = C07 add_512bit_counterexample).
# NOTE (found by the audit; repaired in /repo by fix 7e3b2f6, after which the 64-bit cases joined the family and the corpus):
#   PM1Base::factor(n: u64, ..) computed `xr + minus_one_r` (and `h + minus_one_r`) in u64; both terms are < n, so for n > 2^65/3 the
#   sum can exceed 2^64: release wraps (the gcd is taken with a wrong value: the factor is missed), the checked profile panics.
#   `s2_pm1base 15797939067124976089 4000 33923 2423 264`: release `none` (33923 - 1 = 2*7*2423, large prime number 264 < budget -
#   1000: must be found), chk panic at pollard_pm1.rs:144 `attempt to add with overflow`. Callers in /repo (benches, tests) stay
#   below 2^56; the signature admits every odd u64.
import math, os, re, json, random
from vlib.pipeline import Case
from vlib import gen
from props import c16_pm1 as pmx          # Pollard P-1 end to end (whole-function model): cases / oracle / klass
from props import c16_pp1 as ppx          # Williams P+1 end to end (whole-function model): cases / oracle / klass
import sys as _sys

PID = "C16"
GEN = ["params", "stage2"]
LEAN = ["Ymq.Props.C16", "Ymq.Props.C16Pm1", "Ymq.Props.C16Pp1"]
AUDIT = "Ymq.Audit.C16"
PROFILES = ["release", "chk"]
TIMEOUT = 60.0
REPO = os.environ.get("YMQ_REPO", "/repo")
ROOT = os.path.dirname(os.path.dirname(os.path.abspath(__file__)))

THEOREMS = ["Ymq.C16." + t for t in (
    "ecm_cover ecm128_cover pp1_cover pm1_cover ecm_grid_exact ecm128_grid_exact pp1_grid_exact pm1_grid_exact ecm_hits_exact pp1_hits_exact pm1_hits_exact ecm_nothing_above pp1_nothing_above pm1_nothing_above pm1_hit chirpz_coeff pp1_hit ecm_hit chebyshev_recurrence chebyshev_spec exp_modn_spec exp_modn_large_spec gcd_factors_prod rho64_proper guard_proper cumulative_products_chain check_gcd_factors_inv pm1_polyeval_inv pm1_result_proper shrink_ring_consistent check_gcd_factor_proper rho_impl_proper ynorm_spec ynorm_compare pm1base_full_stage1 pm1base_cover pm1base_hit pm1_found pp1_found ecm_found rows_ok pm1_degree pm1_rows_eff pm1_poly_rows reported_le_effective_ecm_counter reported_le_effective_pp1_counter reported_le_effective_pm1_counter ecm_badRows pp1_badRows pm1_badRows bad_rows_miss_a_value bad_row_witnesses_prime reported_le_effective_partial_ecm reported_le_effective_partial_pp1 reported_le_effective_partial_pm1 ecm128_arms_exact walk_reported_counter walk_reported_arms arms_contiguous_ecm arms_contiguous_ecm128 arms_contiguous_pp1 arms_d1_primes_below_b1 ecm_arm_covers ecm128_arm_covers "
    # Pollard P-1 end to end (Props/C16Pm1.lean)
    "pm1_gcd_factors_sound pm1_check_gcd_factors_sound pm1_impl_proper pm1_impl_complete_two_parts pm1_quick_proper pm1_only_proper pm1_quick_ignores_small pm1_arms_total pm1_impl_entry_panics pm1_walk_includes_stop_prime pm1_walk_product_accumulates").split()]
THEOREMS += ["Ymq.C16." + t for t in (
    # Williams P+1 end to end (Props/C16Pp1.lean)
    "pp1_proper pp1_stage2_proper pp1_giant_range pp1_giant_values pp1_baby_values pp1_stage2_found_partial pp1_entry_panics").split()]
LEAN += ["Ymq.Props.C16Pm1b"]
THEOREMS += ["Ymq.C16." + t for t in (
    # second pass on both whole-function models (Props/C16Pm1b.lean)
    "pp1_baby_complete pp1_baby_exact pp1_stage2_found pp1_stage2_product_zero "
    "pm1_exp_modn_residues pm1_gap_table_in_range pm1_walk_block_no_panic pm1_walk_stop_prime_found pm1_walk_found_partial pm1_baby_complete pm1_walk_stop_prime_kept pm1_polyeval_giant_assert_holds pm1_polyeval_baby_assert_holds pm1_polyeval_no_panic_partial pm1_polyeval_no_panic pp1_stage1_block_no_panic pp1_stage2_vals_no_panic pm1_exp_modn_large_residues pm1_apply_ev_no_panic").split()]
HYPOTHESES = [
    "C17 (stage-1 exponent coverage): the exponent E accumulated by stage 1 is divisible by every prime power below B1 "
    "(and by every prime <= B1 for P-1/P+1); enters pm1_hit / pp1_hit / ecm_hit as the premise `group order of p divides E*m`",
    "HNorm (pp1_hit): for a prime p and a seed a with a^2-4 a non-residue mod p there is an extension ring with x*y = 1, "
    "x + y = a and x^(p+1) = 1 (norm-one subgroup of F_{p^2}); the theorem takes x, y and x^(E*m) = 1 as premises",
    "C15: the curve operations implement an abelian group law in which (x, y) -> (-x, y) is negation (ecm_hit is stated for an "
    "abstract additive group with an even coordinate function); C10: roots_eval / convolve_modn_ntt compute the products and the "
    "cyclic convolution they document",
]
RULE = ("first, in BOTH tiers, a deterministic boundary family: P-1 (prime walk and polynomial stage 2), P+1, ECM (both stage-2 arms), rho_impl at "
        "n of exactly 63..65 (P-1/P+1), 127..129, 255..257, 320, 384, 447..449, 499, 500 bits, ecm128 at 65, 96, 126..128 bits, gcd_factors / "
        "check_gcd_factor(s) at 255..257, 448, 500 bits, PM1Base at 63 bits (cofactor chosen so that n has exactly that length); then: "
        "constructed n = p*q (p: prescribed order structure s*l, s | stage-1 exponent incl. maximal prime powers; q strong), "
        "for every table row reachable in the tier and every hard-wired (B1,B2) within reach: l at the first covered prime, at the "
        "last covered value, at grid edges a*d1 +- b, just outside coverage, random; every table row as an s2_row request; "
        "exponent/Lucas ladders on boundary exponent patterns; gcd_factors on increasing gcd chains; rho64 on 64-bit composites; "
        "non-trivial = the run reaches stage 2 or the exponent is > 1; distinct by request line")
MODELLED = [
    "index structure (tested exponent sets) of ecm::ecm_curve, ecm128::ecm_curve, pp1::pp1 stage 2, pollard_pm1::pm1_stage2_polyeval "
    "(chirp-z coefficient range) and the P-1 prime walk (Ymq/Model/Stage2.lean; loop bounds regenerated from the source into "
    "Ymq/Gen/Stage2Arms.lean, tables and hard-wired arms in Ymq/Gen/Stage2.lean)",
    "pollard_pm1::exp_modn (3-bit windows on the reversed exponent), exp_modn_large (6-bit windows), pp1::chebyshev_modn (binary Lucas ladder) over abstract ring "
    "operations, arith_montgomery::gcd_factors/find_factors over an abstract gcd oracle, pollard_rho::rho64 word-exact on the C07 "
    "Montgomery model (Ymq/Model/ExpModn.lean)",
]
MODELLED += [
    "pollard_pm1::pm1_impl as a whole (stage-1 loop over sieve blocks with the flushes of Model/SmoothBase applied to g, the g == 1 exit, "
    "check_gcd_factors per block, ring shrink, prime walk with its gap table, pm1_stage2_polyeval with from_roots / the convolution at "
    "their C10 specification, the f2.contains(n) guard, assembly of (factors, cofactor)), pm1_quick / pm1_only "
    "(Ymq/Model/Pm1Impl.lean; requests pm1_impl, pm1_quick_full, pm1_only_full, pm1_polyeval compare the complete returned value)",
]
MODELLED += [
    "pp1::pp1 as a whole (starting value, stage-1 loop over sieve blocks with one Lucas ladder per prime power, the g == 1 and p > b1 exits, "
    "check_gcd_factors per block, ring shrink with the constant 2 recomputed (fix 0bd0aa9), baby steps, giant steps i = 1..d2 with ghost indices, "
    "roots_eval at its C10 specification, cumulative products, last check_gcd_factors, assembly of (factors, cofactor)) "
    "(Ymq/Model/Pp1Impl.lean; request pp1_impl compares the complete returned value)",
]
UNMODELLED = [
    "stage-1 exponent streams (SmoothBase, pm1 blocks): property C17, premise of the *_hit theorems",
    "ZmodN arithmetic (C07), curve formulas and addition chains (C15), Poly::roots_eval / convolve_modn_ntt (C10), big_gcd (C09): "
    "taken as exact; the constructed-input runs exercise them end to end",
    "PM1Base::factor: stage-2 exponent set and stage-1 block count modelled; the large-prime table is a hypothesis of pm1base_cover "
    "(checked on the real table by the request s2_pm1base_data); outcome compared with the model for budgets >= 1024 only",
    "y-normalisation of ecm_curve: modelled (ynorm) and proved (ynorm_spec, ynorm_compare); tied to the code by the translator's "
    "pattern check of the two loops in both files and end to end by the constructed-order ECM runs (no separate request: the block is inline)",
    "bad-row prime witnesses: primality is proved in Lean from Pratt certificates generated by the translator "
    "(bad_row_witnesses_prime; Lucas criterion from Mathlib, kernel evaluation of the certificate table)",
]
CLAIM = ("Lean theorems: for arbitrary d1, d2 (6 | d1) every l coprime to d1 up to the stated upper end is a value i*d1 +- b (ECM, ECM128, "
         "P+1) resp. q*d1 - r (P-1 polynomial evaluation) of the grid the code walks, and nothing above the upper end is; the algebra that "
         "turns a grid value divisible by the missing prime into a vanishing factor (P-1, Lucas/Chebyshev incl. the ladder of "
         "chebyshev_modn and exp_modn = g^e, ECM in an abstract group); gcd_factors returns parts > 1 multiplying to gcd_last/gcd_first; "
         "rho64 only returns proper splits. Table theorems (decided on the tables regenerated from the source): which rows report a B2 "
         "above their effective B2 (exact list, exact shortfall) and that every other row, and every hard-wired (B1,B2), is covered "
         "contiguously from B1. Model and code are tied by constructed-order runs in both profiles.")
LEVEL_NOTE = ("Trusted: Lean kernel (+propext, Classical.choice, Quot.sound); the translators; the correspondence of the index model to the "
              "code (checked by constructed-order runs at first/last/edge/outside values of every reachable row, not proved); C17, C15, C10, "
              "C07 as named premises. The rows whose label exceeds the grid are findings (listed in known_findings.json), not repaired.")
TECHNIQUE = "Lean 4 proof about a translated + hand model, differential correspondence on constructed inputs, spec oracle"

# ---------------------------------------------------------------- number theory (plain Python)

_MR = (2, 3, 5, 7, 11, 13, 17, 19, 23, 29, 31, 37)


def is_prime(n):
    if n < 2:
        return False
    for p in _MR:
        if n % p == 0:
            return n == p
    d, s = n - 1, 0
    while d % 2 == 0:
        d //= 2
        s += 1
    for a in _MR:
        x = pow(a, d, n)
        if x in (1, n - 1):
            continue
        for _ in range(s - 1):
            x = x * x % n
            if x == n - 1:
                break
        else:
            return False
    return True


def next_prime(n):
    n += 1
    while not is_prime(n):
        n += 1
    return n


def prev_prime(n):
    n -= 1
    while n >= 2 and not is_prime(n):
        n -= 1
    return n


def lucas_v(a, k, n):
    """V_k(a) mod n with V_0 = 2, V_1 = a, V_{j+1} = a V_j - V_{j-1} (plain recurrence doubling)"""
    if k == 0:
        return 2 % n
    vk, vk1 = 2 % n, a % n
    for bit in bin(k)[2:]:
        if bit == "1":
            vk, vk1 = (vk * vk1 - a) % n, (vk1 * vk1 - 2) % n
        else:
            vk, vk1 = (vk * vk - 2) % n, (vk * vk1 - a) % n
    return vk


def jacobi(a, n):
    a %= n
    r = 1
    while a:
        while a % 2 == 0:
            a //= 2
            if n % 8 in (3, 5):
                r = -r
        a, n = n, a
        if a % 4 == 3 and n % 4 == 3:
            r = -r
        a %= n
    return r if n == 1 else 0


_SP_CACHE = {}


def small_primes(b):
    """primes <= b"""
    if b not in _SP_CACHE:
        sieve = bytearray([1]) * (b + 1)
        sieve[0:2] = b"\0\0"
        for i in range(2, int(b ** 0.5) + 1):
            if sieve[i]:
                sieve[i * i::i] = bytearray(len(sieve[i * i::i]))
        _SP_CACHE[b] = [i for i in range(2, b + 1) if sieve[i]]
    return _SP_CACHE[b]


# strong primes q: q-1 = 2*Q1, q+1 = (2000-smooth)*Q2 with Q1, Q2 prime, Q2 > 2^48
STRONG_Q = [3744433922360000959367, 781745924952196364716859, 64289843657947005848808474947]

# ---------------------------------------------------------------- tables (own reading of the source)


def _table(path):
    s = re.sub(r"//[^\n]*", "", open(os.path.join(REPO, path)).read())
    m = re.search(r"const STAGE2_PARAMS: &\[\(f64, u64, u64\)\] = &\[(.*?)\];", s, re.S)
    rows = []
    for a, b, c in re.findall(r"\(\s*([0-9.e_]+)\s*,\s*(\d+)\s*,\s*(\d+)\s*\)", m.group(1)):
        rows.append((int(round(float(a.replace("_", "")))), int(b), int(c)))
    return rows


_TABLES = {}


def table(consumer):
    key = "pm1" if consumer in ("pm1", "pm1walk") else "ecm"
    if key not in _TABLES:
        _TABLES[key] = _table("src/pollard_pm1.rs" if key == "pm1" else "src/params.rs")
    return _TABLES[key]


def nearest(consumer, b2):
    best = None
    for r in table(consumer):
        if best is None or abs(r[0] - b2) < abs(best[0] - b2):
            best = r
    return best


def _threshold():
    """MULTIEVAL_THRESHOLD, read from the source like the translator does (a retune must not look like a defect)"""
    m = re.search(r"const MULTIEVAL_THRESHOLD: f64 = ([0-9.e_]+);", open(os.path.join(REPO, "src/pollard_pm1.rs")).read())
    return int(round(float(m.group(1).replace("_", ""))))


THRESHOLD = _threshold()   # also compared with the real value by the `s2_threshold` request


def phi(n):
    r, m, p = n, n, 2
    while p * p <= m:
        if m % p == 0:
            while m % p == 0:
                m //= p
            r -= r // p
        p += 1
    if m > 1:
        r -= r // m
    return r


# ---------------------------------------------------------------- the grids, read off the Rust loops

def sym_is_grid(d1, d2, m, first=1):
    """ECM / ECM128 / P+1: m = i*d1 +- b, i in [first, first + d2), 1 <= b < d1/2, gcd(b, d1) = 1"""
    r = m % d1
    k = m // d1
    if 1 <= r < d1 // 2 and math.gcd(r, d1) == 1 and first <= k < first + d2:
        return True
    b = d1 - r
    return 1 <= b < d1 // 2 and math.gcd(b, d1) == 1 and first <= k + 1 < first + d2


def sym_eff(d1, d2):
    return d2 * d1 + d1 // 2 - 1


def pm1_qmax(d1, d2):
    deg = phi(d1) + 1                     # baby steps: r in [1, d1+1] coprime to d1
    return d2 - 1 - deg                   # coefficients k in [deg, d2) evaluate P at g^((d2-1-k) d1)


def pm1_is_grid(d1, d2, m):
    """m = |q*d1 - r|, 0 <= q <= qmax, r odd in [1, d1+1] coprime to d1"""
    qmax = pm1_qmax(d1, d2)
    if qmax < 0:
        return False
    for r in {(-m) % d1, (-m) % d1 + d1, m, m + d1}:
        if 1 <= r <= d1 + 1 and math.gcd(r, d1) == 1:
            if (m + r) % d1 == 0 and (m + r) // d1 <= qmax:
                return True
            if r >= m and (r - m) % d1 == 0 and (r - m) // d1 <= qmax:
                return True
    return False


def pm1_eff(d1, d2):
    return pm1_qmax(d1, d2) * d1 - 1


def hits(is_grid, maxv, l):
    """some positive multiple of l is a grid value"""
    k = 1
    while k * l <= maxv:
        if is_grid(k * l):
            return True
        k += 1
    return False


def covered(consumer, b1, b2, l):
    """does stage 2 of the consumer test a multiple of the prime l (b2 integral)"""
    if consumer == "pm1":
        if b2 > THRESHOLD:
            _, d1, d2 = nearest("pm1", b2)
            return hits(lambda m: pm1_is_grid(d1, d2, m), (d2 + 1) * d1, l)
        first = next_prime(b1)
        return is_prime(l) and first <= l <= next_prime(max(b2, first))
    _, d1, d2 = nearest(consumer, b2)
    return hits(lambda m: sym_is_grid(d1, d2, m), (d2 + 1) * d1, l)


def row_eff(consumer, row):
    lab, d1, d2 = row
    return pm1_eff(d1, d2) if consumer == "pm1" else sym_eff(d1, d2)


def poly_rows():
    t = table("pm1")
    return [r for r in t if not any(r[0] < q[0] and r[0] + q[0] <= 2 * THRESHOLD for q in t)]


def _selftest():
    # the residue decisions above against plain enumeration of the loops, on the small rows
    for (lab, d1, d2) in table("ecm")[:6]:
        bs = [b for b in range(1, d1 // 2) if math.gcd(b, d1) == 1]
        grid = {i * d1 + s * b for i in range(1, d2 + 1) for b in bs for s in (1, -1)}
        assert all((m in grid) == sym_is_grid(d1, d2, m) for m in range(0, (d2 + 2) * d1))
        assert max(l for l in range((d2 + 2) * d1) if all(m in grid for m in range(d1 // 2 + 1, l + 1) if math.gcd(m, d1) == 1)) \
            >= sym_eff(d1, d2)
        assert sym_eff(d1, d2) + 1 not in grid or math.gcd(sym_eff(d1, d2) + 1, d1) != 1
    for (d1, d2) in ((120, 64), (210, 128)):
        rs = [1]
        b = 1
        while b < d1:
            b += 2
            if b % 3 == 0 or math.gcd(b, d1) != 1:
                continue
            rs.append(b)
        assert len(rs) == phi(d1) + 1
        plen = len(rs) + 1
        qs = [d2 - 1 - k for k in range(plen - 2 + 1, d2)]
        grid = {abs(q * d1 - r) for q in qs for r in rs}
        assert all((m in grid) == pm1_is_grid(d1, d2, m) for m in range(0, (d2 + 2) * d1))


_selftest()

# ---------------------------------------------------------------- constructed primes


def smooth_part(rng, b1, strict, want_bits):
    """product of prime powers: every prime power < b1 (a prime equal to b1 allowed when not strict), random
    subset, about want_bits bits; with probability 1/3 contains a maximal prime power"""
    ps = small_primes(b1 if not strict else b1 - 1)
    s = 2
    if rng.randrange(3) == 0:
        p = rng.choice(ps[:8])
        pw = p
        while pw * p < b1:
            pw *= p
        s = s * pw // math.gcd(s, pw) if p != 2 else pw
    guard = 0
    while s.bit_length() < want_bits and guard < 200:
        guard += 1
        p = rng.choice(ps)
        pw = p
        while pw * p < b1 and rng.randrange(3) == 0:
            pw *= p
        t = s
        e = 0
        while t % p == 0:
            t //= p
            e += 1
        # keep the total power of p below b1
        tot = p ** e * pw
        if tot < b1 or (e == 0 and pw == p):
            s *= pw
    return s


def make_pm1_prime(rng, b1, l, tries=4000):
    """p prime, p - 1 = s*l, s | E(b1), l | ord_p(2)"""
    for _ in range(tries):
        s = smooth_part(rng, b1, False, rng.choice([8, 16, 24]))
        p = s * l + 1
        if p.bit_length() > 120 or not is_prime(p):
            continue
        if pow(2, (p - 1) // l, p) == 1:
            continue
        return p
    return None


def make_pp1_prime(rng, b1, l, tries=6000):
    """(p, seed): p prime, p + 1 = s*l, seed^2 - 4 a non-residue mod p, l | order of the seed's Lucas element"""
    for _ in range(tries):
        s = smooth_part(rng, b1, False, rng.choice([8, 16, 24]))
        p = s * l - 1
        if p.bit_length() > 120 or p < 7 or not is_prime(p):
            continue
        for seed in (3, 5, 6, 7, 9, 10, 11, 13):
            if jacobi(seed * seed - 4, p) == -1 and lucas_v(seed, (p + 1) // l, p) != 2:
                return p, seed
    return None


def interesting_ls(rng, consumer, b1, b2, count, light=False):
    """primes l > b1 at the places the property names: first/last covered, grid edges, just outside, random"""
    if consumer == "pm1" and b2 <= THRESHOLD:
        first = next_prime(b1)
        top = next_prime(max(b2, first))
        out = [first, next_prime(first), prev_prime(b2 + 1) if b2 > first else first, top, next_prime(top), next_prime(next_prime(top))]
        out += [next_prime(rng.randrange(first, max(top, first + 2))) for _ in range(count)]
        return [l for l in dict.fromkeys(out) if l > b1]
    lab, d1, d2 = nearest(consumer, b2)
    eff = pm1_eff(d1, d2) if consumer == "pm1" else sym_eff(d1, d2)
    lo = b1 if consumer in ("ecm", "ecm128") else b1 + 1
    if light:
        # big rows (each run costs about a second): the two ends of the cover and the label only
        top = pm1_qmax(d1, d2) if consumer == "pm1" else d2
        out = [next_prime(lo - 1), prev_prime(eff + 1), next_prime(eff), prev_prime(lab + 1), next_prime(lab),
               next_prime(top * d1 - d1 // 2), prev_prime((top - 1) * d1 + d1 // 2), next_prime(rng.randrange(lo, eff))]
        return [l for l in dict.fromkeys(out) if l >= lo and l > 3]
    out = [next_prime(lo - 1), next_prime(next_prime(lo - 1))]
    # last covered values and the first ones outside
    l = prev_prime(eff + 1)
    for _ in range(3):
        out.append(l)
        l = prev_prime(l)
    l = next_prime(eff)
    for _ in range(3):
        out.append(l)
        l = next_prime(l)
    out += [prev_prime(lab + 1), next_prime(lab)]
    # grid edges: a*d1 +- b for a at both ends, b minimal / maximal
    tops = [d2, d2 - 1, 1, 2] if consumer != "pm1" else [pm1_qmax(d1, d2), pm1_qmax(d1, d2) - 1, 1, 2]
    for a in tops:
        for off in (1, -1, d1 // 2 - 1, -(d1 // 2 - 1), d1 // 2 + 1, -(d1 // 2 + 1)):
            c = a * d1 + off
            if c > lo:
                out.append(next_prime(c - 1))
                out.append(prev_prime(c + 1))
    # around d1/2 (start of the direct cover)
    if d1 // 2 > lo:
        out += [prev_prime(d1 // 2), next_prime(d1 // 2)]
    for _ in range(count):
        out.append(next_prime(rng.randrange(lo, eff + d1)))
    return [l for l in dict.fromkeys(out) if l >= lo and l > 3]


def pm1_case(rng, b1, b2, l, tag):
    p = make_pm1_prime(rng, b1, l)
    if p is None:
        return None
    q = rng.choice(STRONG_Q)
    return Case(f"s2_pm1 {p * q} {b1} {b2} {p} {l}", tag=tag)


def pp1_case(rng, b1, b2, l, tag):
    r = make_pp1_prime(rng, b1, l)
    if r is None:
        return None
    p, seed = r
    q = rng.choice(STRONG_Q)
    return Case(f"s2_pp1 {p * q} {seed} {b1} {b2} {p} {l}", tag=tag)


def arms():
    """hard-wired (B1, B2) of the P-1 strategy functions and the test-suite calls (own reading of the source)"""
    s = open(os.path.join(REPO, "src/pollard_pm1.rs")).read()
    out = []
    for a, b in re.findall(r"pm1_impl\(n, ([0-9_ <]+), ([0-9.e]+), v\)", s):
        a = a.replace("_", "")
        if "<<" in a:
            x, y = a.split("<<")
            a = int(x) << int(y)
        out.append((int(a), int(round(float(b)))))
    return out


def reach(tier, extended):
    return (7.0e8 if tier == "quick" else 4.0e10) * (4 if extended else 1)


def constructed_cases(tier, rng, extended=False):
    lim = reach(tier, extended)
    per = 2 if tier == "quick" else 10
    if extended:
        per *= 3
    # P-1: every reachable row (b2 = label) with a small B1, and the hard-wired arms within reach
    plans = [(600, r[0]) for r in table("pm1") if r[0] <= lim and r[0] > THRESHOLD]
    plans += [(1000, 30000), (600, 40000), (200, 80000), (200, 60000), (200, 45001), (16384, 40000), (20, 450000), (4, 100000)]
    plans += [(b1, b2) for (b1, b2) in arms() if b2 <= lim and b1 <= 3000000]
    for (b1, b2) in dict.fromkeys(plans):
        for l in interesting_ls(rng, "pm1", b1, b2, per, light=b2 > 3e9):
            c = pm1_case(rng, b1, b2, l, f"pm1/{b1}/{b2}")
            if c:
                yield c
    # P+1: every reachable row of params::STAGE2_PARAMS and the test-suite calls
    plans = [(max(600, 0), r[0]) for r in table("pp1") if r[0] <= lim]
    plans = [(b1 if r >= 13200 else 16 if r == 660 else 40 if r == 1080 else 100, r) for (b1, r) in plans]
    plans += [(1500, 30000), (2000, 28000000), (80000, 28000000), (30, 660), (50, 1920)]
    for (b1, b2) in dict.fromkeys(plans):
        for l in interesting_ls(rng, "pp1", b1, b2, per, light=b2 > 3e9):
            c = pp1_case(rng, b1, b2, l, f"pp1/{b1}/{b2}")
            if c:
                yield c



# ---------------------------------------------------------------- ECM: curves with independently computed point order

def _inv(x, p):
    return pow(x, -1, p)


def ed_add(P, Q, a, d, p):
    """affine addition on a x^2 + y^2 = 1 + d x^2 y^2 (complete when a is a square and d is not)"""
    x1, y1 = P
    x2, y2 = Q
    t = d * x1 * x2 % p * y1 % p * y2 % p
    return ((x1 * y2 + y1 * x2) * _inv(1 + t, p) % p, (y1 * y2 - a * x1 * x2) * _inv(1 - t, p) % p)


def ed_mul(k, P, a, d, p):
    R = (0, 1)
    while k:
        if k & 1:
            R = ed_add(R, P, a, d, p)
        P = ed_add(P, P, a, d, p)
        k >>= 1
    return R


def curve_d(x, y, a, p):
    den = x * x % p * y % p * y % p
    if den == 0:
        return None
    return (a * x * x + y * y - 1) * _inv(den, p) % p


def factor_td(m):
    fs = {}
    for r in small_primes(1 << 21):
        if r * r > m:
            break
        while m % r == 0:
            fs[r] = fs.get(r, 0) + 1
            m //= r
    if m > 1:
        fs[m] = fs.get(m, 0) + 1
    return fs


def point_order(x, y, a, p):
    """order of (x, y) on the (twisted) Edwards curve through it modulo the prime p, by baby-step giant-step over the
    Hasse interval; None unless the curve is complete (a square, d non-square: then the affine law has no exceptions)"""
    d = curve_d(x, y, a, p)
    if d is None or d in (0, 1) or jacobi(d, p) != -1:
        return None
    if a == -1 and p % 4 != 1:
        return None
    G = (x % p, y % p)
    w = math.isqrt(4 * p) + 2
    lo = p + 1 - w
    Q = ed_mul(lo, G, a, d, p)
    s = math.isqrt(2 * w) + 1
    baby = {}
    R = (0, 1)
    for j in range(s):
        baby.setdefault(R, j)
        R = ed_add(R, G, a, d, p)
    msG = ((-R[0]) % p, R[1])
    T = ((-Q[0]) % p, Q[1])
    m = None
    for i in range(s + 2):
        if T in baby:
            m = lo + i * s + baby[T]
            break
        T = ed_add(T, msG, a, d, p)
    if not m or ed_mul(m, G, a, d, p) != (0, 1):
        return None
    for r in list(factor_td(m)):
        while m % r == 0 and ed_mul(m // r, G, a, d, p) == (0, 1):
            m //= r
    return m


def split_order(o, b1):
    """o = s*l with s | (SmoothBase exponent for b1: prime powers < b1, times 2^4 and 3) and l a prime >= b1: l (1 if o | E), else None"""
    m = o
    for r in small_primes(b1 - 1):
        cap = r
        while cap * r < b1:
            cap *= r
        cap *= 16 if r == 2 else 3 if r == 3 else 1
        c = 1
        while m % r == 0 and cap % (c * r) == 0:
            m //= r
            c *= r
        if m % r == 0:
            return None
    if m == 1:
        return 1
    return m if is_prime(m) and m >= b1 else None


ECM_POINTS = {1: [(2, 3), (5, 13), (2, 5), (3, 31), (4, 9)], -1: [(5, 13), (2, 5), (11, 7), (3, 31), (3, 7)]}
ECM128_PLANS = [(16, 660), (40, 1080), (50, 1920), (60, 1920), (100, 3000), (180, 7700), (350, 13200), (600, 20000),
                (1000, 53000), (1500, 81000)]
ECM_PLANS = [(200, 7700), (600, 20000), (2000, 81000), (100, 3000), (50, 1920), (2500, 126000), (2000, 323000),
             (5000, 2300000), (10000, 4700000), (10000, 9500000)]     # the last three take the roots_eval arm (d1 >= 4000)
_ECM_Q = {}


def ecm_strong_q(rng, a, pt):
    """a prime q = 1 mod 4 for which the point has an order with a prime factor > 10^7 (beyond every grid used here)"""
    if (a, pt) not in _ECM_Q:
        found = []
        while len(found) < 2:
            q = next_prime(rng.getrandbits(40) | (1 << 39))
            if q % 4 != 1:
                continue
            o = point_order(pt[0], pt[1], a, q)
            if o is None:
                continue
            big = max(factor_td(o))
            if big > 10 ** 7 and is_prime(big):
                found.append(q)
        _ECM_Q[(a, pt)] = found
    return rng.choice(_ECM_Q[(a, pt)])


def ecm_search(rng, attempts, per_class=4):
    """search primes p for which the order of a fixed small point is (stage-1 smooth) * l with l at the interesting places"""
    want = {}
    for _ in range(attempts):
        a = rng.choice([1, -1])
        b1, b2 = rng.choice(ECM128_PLANS if a == -1 else ECM_PLANS)
        lab, d1, d2 = nearest("ecm", b2)
        eff = sym_eff(d1, d2)
        place = rng.choice(["first", "mid", "last", "out", "gap"])
        pt = rng.choice(ECM_POINTS[a])
        sbits = rng.choice([8, 10, 12, 14])
        if place == "first":
            L = b1 + rng.randrange(0, max(4, b1 // 2))
        elif place == "gap":
            L = rng.randrange(b1, max(b1 + 2, d1 // 2 + 10))
        elif place == "mid":
            L = rng.randrange(b1, eff)
        elif place == "last":
            L = eff - rng.randrange(0, max(8, eff // 12))
        else:
            L = eff + rng.randrange(1, max(8, eff // 10))
        p = next_prime((L << sbits) + rng.getrandbits(sbits))
        if (a == -1 and p % 4 != 1) or p > 1 << 40:
            continue
        o = point_order(pt[0], pt[1], a, p)
        if o is None:
            continue
        l = split_order(o, b1)
        if l is None or l == 1 or l > 1.25 * eff:
            continue
        cls = ("first" if l < 1.5 * b1 else "gap" if l <= d1 // 2 else "last" if eff * 11 // 12 <= l <= eff else
               "out" if l > eff else "mid")
        if cls == "out" and o % 2 == 0:
            # with a point of even order the non-unified additions of stage 1 can hit an exceptional case modulo p
            # (difference of the operands = 2-torsion point): the factor then shows up by accident, which is allowed
            # but not predictable from the index structure; keep the "must not be required" cases exact
            continue
        key = (a, b1, b2, cls)
        if want.get(key, 0) >= per_class:
            continue
        q = ecm_strong_q(rng, a, pt)
        if p == q:
            continue
        want[key] = want.get(key, 0) + 1
        op = "s2_ecm" if a == 1 else "s2_ecm128"
        yield Case(f"{op} {p * q} {pt[0]} {pt[1]} {b1} {b2} {p} {l}", tag=f"ecm/{cls}")


def divides_stage1(s_, b1):
    """s_ divides the stage-1 exponent of P-1 / P+1 for b1: every prime <= b1, every prime power < b1"""
    m = s_
    for r in small_primes(b1):
        if m == 1:
            return True
        if r * r > m:
            # m is prime (or 1): a single prime <= b1 always divides the exponent
            return m <= b1 and is_prime(m)
        cap = r
        while cap * r < b1:
            cap *= r
        c = 1
        while m % r == 0 and cap % (c * r) == 0:
            m //= r
            c *= r
        if m % r == 0:
            return False
    return m == 1


def order_of_2(p, b1, l):
    """multiplicative order of 2 modulo the prime p, given that (p - 1) / l is b1-smooth; None otherwise"""
    m = (p - 1) // l
    fs = [l]
    for r in small_primes(b1):
        if m == 1:
            break
        if r * r > m:
            fs.append(m)
            m = 1
            break
        if m % r == 0:
            fs.append(r)
            while m % r == 0:
                m //= r
    if m != 1 or any(f > max(b1, l) for f in fs):
        return None
    o = p - 1
    for f in fs:
        while o % f == 0 and pow(2, o // f, p) == 1:
            o //= f
    return o


def pm1_annotation_ok(case):
    """p | n prime, ord_p(2) = s*l with l a prime > b1 and s dividing the stage-1 exponent"""
    n, b1, b2, p, l = (int(v) for v in case.args[:5])
    if not (n % p == 0 and is_prime(p) and is_prime(l) and l > b1 and (p - 1) % l == 0):
        return False
    o = order_of_2(p, b1, l)
    return o is not None and o % l == 0 and divides_stage1(o // l, b1)


def pp1_annotation_ok(case):
    n, seed, b1, b2, p, l = (int(v) for v in case.args[:6])
    if is_prime(l) and l <= b1 and (p + 1) % l == 0 and divides_stage1(p + 1, b1):
        return n % p == 0 and is_prime(p) and jacobi(seed * seed - 4, p) == -1          # fully smooth: found in stage 1
    return (n % p == 0 and is_prime(p) and is_prime(l) and l > b1 and (p + 1) % l == 0 and divides_stage1((p + 1) // l, b1)
            and jacobi(seed * seed - 4, p) == -1 and lucas_v(seed, (p + 1) // l, p) != 2)


def edge_targets(d1, d2):
    """primes l reached through exactly one (giant, baby) pair at the rim of the grid: {class: [l, ..]}.
    Uniqueness: no multiple k*l (k > 1 coprime to d1) fits under the grid, i.e. l > maxv / kmin."""
    bs = [b for b in range(1, d1 // 2) if math.gcd(b, d1) == 1]
    bmax = bs[-1]
    kmin = 2
    while math.gcd(kmin, d1) != 1:
        kmin += 1
    maxv = d2 * d1 + d1 // 2
    lo_i = maxv // kmin // d1 + 1
    out = {"b1": [], "bmax": [], "i1": [], "id2": [], "id2m1": []}
    for i in range(lo_i, d2 + 1):
        for sg in (1, -1):
            for name, b in (("b1", 1), ("bmax", bmax)):
                l = i * d1 + sg * b
                if l * kmin > maxv and is_prime(l):
                    out[name].append(l)
    for name, i in (("i1", 1), ("id2", d2), ("id2m1", d2 - 1)):
        for b in bs:
            for sg in (1, -1):
                l = i * d1 + sg * b
                if is_prime(l) and (i == 1 or l * kmin > maxv):
                    out[name].append(l)
    return out


ECM_EDGE_PLANS = {1: [(200, 7700), (600, 20000), (2000, 81000), (5000, 2300000), (10000, 4700000), (10000, 9500000)],
                  -1: [(16, 660), (50, 1920), (180, 7700), (600, 20000), (1500, 81000)]}


def ecm_edge_search(rng, a, plan, per, attempts):
    """directed ECM cases: the missing prime l sits on the rim of the grid of the row (first/last baby step, first/last
    giant steps) and is reached through that single pair only; p is searched near small multiples of l (Hasse interval)"""
    b1, b2 = plan
    lab, d1, d2 = nearest("ecm", b2)
    tg = {k: [l for l in v if l >= b1] for k, v in edge_targets(d1, d2).items()}
    got = {k: 0 for k in tg}
    for _ in range(attempts):
        open_ = [k for k in tg if tg[k] and got[k] < per]
        if not open_:
            break
        cls = rng.choice(open_)
        l = rng.choice(tg[cls])
        c = rng.choice([4, 4, 8, 8, 12, 16, 20, 24]) * l
        w = 2 * math.isqrt(c)
        p = next_prime(c - w + rng.randrange(2 * w))
        if a == -1 and p % 4 != 1:
            continue
        for pt in ECM_POINTS[a]:
            o = point_order(pt[0], pt[1], a, p)
            if o is None or o % l or split_order(o, b1) != l:
                continue
            q = ecm_strong_q(rng, a, pt)
            if p == q:
                continue
            got[cls] += 1
            op = "s2_ecm" if a == 1 else "s2_ecm128"
            yield Case(f"{op} {p * q} {pt[0]} {pt[1]} {b1} {b2} {p} {l}", tag=f"ecm/edge-{cls}")
            break



def ecm_annotation_ok(case):
    """the annotations of an ECM request, recomputed: p | n prime, order of the point mod p = s*l as claimed"""
    n, x, y, b1, b2, p, l = (int(v) for v in case.args[:7])
    a = 1 if case.op == "s2_ecm" else -1
    if n % p or not is_prime(p):
        return False
    o = point_order(x, y, a, p)
    return o is not None and split_order(o, b1) == l and is_prime(l)


# ---------------------------------------------------------------- large B1: the end of the stage-1 exponent stream


def arm_table(fn):
    """[(lo_bits, hi_bits, b1, b2)] of pm1_quick / pm1_only (own reading of the source)"""
    src_ = re.sub(r"//[^\n]*", "", open(os.path.join(REPO, "src/pollard_pm1.rs")).read())
    body = src_[src_.index(f"pub fn {fn}("):]
    body = body[:body.index("\n}\n")]
    out = []
    for lo, hi, a, b in re.findall(r"(\d+)\.\.(?:=(\d+))? => pm1_impl\(n, ([0-9_ <]+), ([0-9.e]+), v\)", body):
        a = a.replace("_", "")
        if "<<" in a:
            x, y = a.split("<<")
            a = int(x) << int(y)
        out.append((int(lo), int(hi) if hi else 1024, int(a), int(round(float(b)))))
    return out


def big_q(rng, bits, qbits=62):
    """prime q with `bits` bits (or one less), q - 1 = 2*k*Q, Q a prime of about qbits bits (above every B2 in reach), Q | ord_q(2)"""
    qbits = max(8, min(qbits, bits - 8))
    for _ in range(200):
        Q = next_prime(rng.getrandbits(qbits) | (1 << (qbits - 1)))
        for _ in range(400):
            k = rng.randrange(1 << max(0, bits - qbits - 3), 1 << max(1, bits - qbits - 1))
            q = 2 * k * Q + 1
            if q.bit_length() in (bits - 1, bits) and is_prime(q) and pow(2, (q - 1) // Q, q) != 1:
                return q
    return None


def end_of_stream_parts(b1):
    """prime powers that stage 1 handles last / at the limit: the largest prime <= b1, the one before, the largest
    power of 2 and of 3 below b1"""
    r1 = prev_prime(b1 + 1)
    r2 = prev_prime(r1)
    p2 = 2
    while p2 * 2 < b1:
        p2 *= 2
    p3 = 3
    while p3 * 3 < b1:
        p3 *= 3
    return [("last-prime", 2 * r1), ("prev-prime", 2 * r2), ("pow2", 2 * p2), ("pow3", 2 * p3)]


def make_end_prime(rng, part, l, tries=3000):
    """p prime, p - 1 = part * s * l with a small s; every prime power of `part` exactly divides the order of 2"""
    for s_ in range(1, tries):
        if math.gcd(s_, part) != 1 and part % 2 == 0 and s_ % 2 == 0:
            continue                                     # keep the power of 2 exact
        if s_ % 3 == 0 and part % 3 == 0:
            continue
        p = part * s_ * l + 1
        if not is_prime(p):
            continue
        ok = pow(2, (p - 1) // l, p) != 1
        m = part
        if m % 4 == 0:
            # 2 is a square modulo p = 1 mod 8: the order of 2 has one factor 2 less than p - 1; `part` = 2 * 2^k
            ok = ok and pow(2, (p - 1) // 4, p) != 1
        while m % 2 == 0:
            m //= 2
        if m % 3 == 0:
            ok = ok and pow(2, (p - 1) // 3, p) != 1
            while m % 3 == 0:
                m //= 3
        if m > 1:
            ok = ok and pow(2, (p - 1) // m, p) != 1
        if ok and divides_stage1(s_, 1000):
            return p
    return None


def big_b1_cases(tier, rng, extended=False):
    direct = [(65536, 8000000), (262144, 300000000), (500000, 300000000), (1 << 20, 1200000000)]
    bits_max = 310 if tier == "quick" else 340
    if tier != "quick":
        direct += [(2000000, 5000000000), (4 << 20, 8000000000), (7000000, 18000000000)]
    for (b1, b2) in direct:
        lab, d1, d2 = nearest("pm1", b2)
        eff = pm1_eff(d1, d2)
        for name, part in end_of_stream_parts(b1):
            for l in ([prev_prime(eff // 3)] if tier == "quick" and not extended else [prev_prime(eff // 3), prev_prime(eff + 1), next_prime(b1)]):
                p = make_end_prime(rng, part, l)
                if p:
                    yield Case(f"s2_pm1 {p * big_q(rng, 96)} {b1} {b2} {p} {l}", tag=f"bigb1/{name}")
    # three and more factors: p1 falls out in stage 1, the ring shrinks (check_gcd_factors + ZmodN::new(nred)), stage 1
    # continues modulo n/p1 when B1 spans several sieve blocks, p2 falls out in stage 2
    for (b1, b2) in [(600, 100000), (262144, 300000000)] + ([(65536, 8000000), (1 << 20, 1200000000)] if tier != "quick" else []):
        lab, d1, d2 = nearest("pm1", b2)
        eff = pm1_eff(d1, d2)
        for l in (prev_prime(eff // 2), next_prime(eff)):
            p2 = make_end_prime(rng, 2 * prev_prime(b1 + 1), l)
            p1 = None
            for s_ in range(1, 4000):
                c = 2 * prev_prime(min(b1, 60000)) * s_ + 1            # p1 - 1 smooth, largest prime in the first sieve block
                if is_prime(c) and divides_stage1(s_, 500) and pow(2, (c - 1) // prev_prime(min(b1, 60000)), c) != 1:
                    p1 = c
                    break
            if p1 and p2 and p1 != p2:
                yield Case(f"s2_pm1x {p1 * p2 * big_q(rng, 90) * big_q(rng, 100)} {b1} {b2} {p1} {p2} {l}", tag="shrink")
    # every prime factor caught at the same step: nothing may be returned (n itself is not a factor)
    yield Case("s2_pm1same 26881623424511 100 200000 100003", tag="same")           # commit 9b94f92
    yield Case("s2_pm1same 26881623424511 100 40000 100003", tag="same")
    for (b1, b2) in [(600, 100000), (600, 40000), (2000, 8300000)]:
        if b2 > THRESHOLD:
            lab, d1, d2 = nearest("pm1", b2)
            top = pm1_eff(d1, d2)
        else:
            top = b2
        for _ in range(2 if tier == "quick" else 6):
            l = prev_prime(rng.randrange(b1 + 2, top))
            pa, pb = make_pm1_prime(rng, b1, l), make_pm1_prime(rng, b1, l)
            if pa and pb and pa != pb:
                yield Case(f"s2_pm1same {pa * pb} {b1} {b2} {l}", tag="same")
    for fn, op in (("pm1_only", "s2_pm1_only"), ("pm1_quick", "s2_pm1_quick")):
        for (lo, hi, b1, b2) in arm_table(fn):
            if lo > bits_max or b1 < 10000 or b1 > (1 << 20 if tier == "quick" else 8000000) or \
                    b2 > (1.3e9 if tier == "quick" else 2e10):
                continue
            if b2 <= THRESHOLD:
                continue
            lab, d1, d2 = nearest("pm1", b2)
            eff = pm1_eff(d1, d2)
            for name, part in end_of_stream_parts(b1)[:1 if tier == "quick" else 4]:
                l = prev_prime(rng.randrange(eff // 4, eff))
                p = make_end_prime(rng, part, l)
                if not p:
                    continue
                want = max(lo + 1, min(hi, p.bit_length() + 70))
                qb = want - p.bit_length() + 1
                if qb - 8 < (8 * b2).bit_length():
                    continue                                 # no room for a cofactor that is safely out of reach
                q = big_q(rng, qb)
                if q is None:
                    continue
                n = p * q
                if lo <= n.bit_length() <= hi:
                    yield Case(f"{op} {n} {p} {l}", tag=f"bigb1/{fn}/{name}")

# ---------------------------------------------------------------- helper routines


def exp_cases(rng, N):
    mods = [1000003, 2 ** 61 - 1, 2 ** 64 - 59, 2 ** 127 - 1, (2 ** 127 - 1) * (2 ** 89 - 1), 3, 15, 2 ** 500 - 863 * 2 + 1 | 1,
            STRONG_Q[0] * STRONG_Q[1]]
    es = [0, 1, 2, 3, 4, 5, 6, 7, 8, 9, 15, 16, 17, 2 ** 63, 2 ** 64 - 1, 2 ** 63 + 1, 2 ** 64 - 2, 5 << 61, 7 << 61, 3 << 62,
          1 << 62, 1 << 61, 1 << 60, (1 << 60) + 1, 0x5555555555555555, 0xAAAAAAAAAAAAAAAA, 0x9249249249249249,
          0xDB6DB6DB6DB6DB6D, 0xB6DB6DB6DB6DB6DB]
    for e in es:
        n = rng.choice(mods)
        yield Case(f"s2_expmodn {n} {rng.randrange(2, n)} {e}", tag="exp")
    for i in range(N):
        n = rng.choice(mods)
        bits = rng.randrange(1, 65)
        e = rng.getrandbits(bits) | (1 << (bits - 1))
        if i % 5 == 0:                                # runs of ones / zeros
            e = ((1 << bits) - 1) ^ (rng.getrandbits(bits) & rng.getrandbits(bits) & rng.getrandbits(bits))
            e |= 1 << (bits - 1)
        if i % 7 == 0:
            e = (rng.choice([1, 3, 5, 7]) << rng.randrange(0, 62)) & (2 ** 64 - 1) or 1
        yield Case(f"s2_expmodn {n} {rng.randrange(0, n)} {e}", tag="exp")
    # Lucas ladder
    for k in es[:17] + [2 ** 63, 2 ** 64 - 1, 2 ** 32, 2 ** 32 - 1]:
        n = rng.choice(mods)
        yield Case(f"s2_cheb {n} {rng.randrange(0, n)} {k}", tag="cheb")
    for i in range(N):
        n = rng.choice(mods)
        bits = rng.randrange(1, 65)
        k = rng.getrandbits(bits) | (1 << (bits - 1))
        yield Case(f"s2_cheb {n} {rng.randrange(0, n)} {k}", tag="cheb")
    # 6-bit windows
    for i in range(N // 2):
        n = rng.choice(mods)
        bits = rng.choice([1, 2, 63, 64, 65, 66, 70, 71, 127, 128, 129, 130, 640, 1000, 1019, 1020, 1021, 1022, 1023, 1024,
                           rng.randrange(65, 1025)])
        e = rng.getrandbits(bits) | (1 << (bits - 1))
        if i % 4 == 0:
            e = (1 << bits) - 1
        if i % 4 == 1:
            e = 1 << (bits - 1)
        if i % 9 == 2:
            e = (1 << (bits - 1)) | (rng.choice([1, 33, 63, 32]) << rng.randrange(0, max(1, bits - 7)))
        yield Case(f"s2_expmodn_large {n} {rng.randrange(0, n)} {e}", tag="explarge")


def gcdf_cases(rng, N):
    pool = [3, 5, 7, 11, 13, 1009, 65537, 1000003, 2 ** 31 - 1, 2 ** 61 - 1, 1000000007, 998244353, 2 ** 89 - 1]
    for i in range(N):
        k = rng.randrange(1, 6)
        ps = rng.sample(pool, k)
        n = 1
        for p in ps:
            n *= p
        if rng.randrange(4) == 0:
            n *= rng.choice(ps)                       # a square factor
        cof = rng.choice([1, 1, 2 ** 107 - 1])
        n *= cof
        length = rng.choice([1, 2, 3, 4, 5, 8, 9, 17, 40])
        # increasing chain of divisors of n
        steps = sorted(rng.randrange(0, length) for _ in ps)
        vals = []
        for j in range(length):
            g = 1
            for p, st in zip(ps, steps):
                if st <= j:
                    g *= p
            junk = rng.getrandbits(rng.choice([1, 64, 200])) | 1
            while math.gcd(junk, n) != 1:
                junk += 2
            vals.append(g * junk % (1 << 500))
            if math.gcd(vals[-1], n) != g:
                vals[-1] = g
        if rng.randrange(6) == 0 and length > 1:
            vals[0] = vals[0] * rng.choice(ps)         # gcd_first > 1
            if rng.randrange(2):
                vals[0] = 0
        if is_chain(n, vals):
            yield Case(f"s2_gcdf {n} {','.join(map(str, vals))}", tag="gcdf")
        else:
            # outside the documented precondition: only the checked profile (debug_assert) is modelled
            yield Case(f"s2_gcdf {n} {','.join(map(str, vals))}", o=False, profiles=["chk"], tag="gcdf")


def cgf_cases(rng, N):
    """check_gcd_factors (state = factors found so far, reduced modulus, values) and ecm's check_gcd_factor"""
    pool = [3, 5, 7, 11, 13, 1009, 65537, 1000003, 2 ** 31 - 1, 2 ** 61 - 1, 1000000007, 998244353, 2 ** 89 - 1, 2 ** 107 - 1]
    for i in range(N):
        ps = rng.sample(pool, rng.randrange(2, 6))
        if rng.randrange(5) == 0:
            ps.append(ps[0])
        n = 1
        for p in ps:
            n *= p
        nfound = rng.randrange(0, len(ps) - 1)
        found, rest = ps[:nfound], ps[nfound:]
        nred = 1
        for p in rest:
            nred *= p
        length = rng.choice([1, 2, 3, 4, 5, 8, 9, 17])
        steps = sorted(rng.randrange(0, length + 1) for _ in rest)      # step = length: never caught
        vals = []
        for j in range(length):
            g = 1
            for p, st in zip(rest, steps):
                if st <= j:
                    g *= p
            junk = rng.getrandbits(rng.choice([1, 64, 200])) | 1
            while math.gcd(junk, nred) != 1:
                junk += 2
            vals.append(g * junk % (1 << 500) if math.gcd(g * junk % (1 << 500), nred) == g else g)
        if rng.randrange(8) == 0:
            vals[-1] = 0                                           # everything at once: gcd = nred
        chain = is_chain(nred, vals)
        kw = {} if chain else {"o": False, "profiles": ["chk"]}
        yield Case(f"s2_cgf {n} {','.join(map(str, found)) or '-'} {nred} {','.join(map(str, vals))}", tag="cgf", **kw)
        if nfound == 0:
            yield Case(f"s2_cgf1 {n} {','.join(map(str, vals))}", tag="cgf1", **kw)


def is_chain(n, vals):
    gs = [math.gcd(n, v) for v in vals]
    return all(gs[j] % gs[i] == 0 for i in range(len(gs)) for j in range(i, len(gs)))


def rho_cases(rng, N):
    ps = [1000003, 15485863, 2147483647, 4294967291, 65537, 257, 1009, 1000033, 3037000493, 4294967279]
    for i in range(N):
        c = rng.randrange(6)
        if c == 0:
            n = rng.choice(ps) * rng.choice(ps)
        elif c == 1:
            n = next_prime(rng.getrandbits(rng.randrange(8, 32))) * next_prime(rng.getrandbits(rng.randrange(8, 32)))
        elif c == 2:
            n = next_prime(rng.getrandbits(rng.randrange(10, 64)))                 # prime
        elif c == 3:
            p = next_prime(rng.getrandbits(rng.randrange(4, 21)))
            n = p * p * rng.choice([1, p, 3])
        elif c == 4:
            n = (rng.getrandbits(64) | 1 | (1 << 63))
        else:
            n = next_prime(rng.getrandbits(12)) * next_prime(rng.getrandbits(20)) * next_prime(rng.getrandbits(24))
        if n >= 1 << 64 or n < 9 or n % 2 == 0:
            continue
        yield Case(f"s2_rho64 {n} {rng.randrange(1, 10)} {rng.choice([2, 128, 512, 700, 2048, 4096])}", tag="rho64")
        if i % 8 == 0:
            yield Case(f"s2_rho_impl {n * rng.choice([1, 2 ** 61 - 1])} {rng.randrange(1, min(n, 50))} {rng.choice([64, 500])}",
                       tag="rho_impl")


_LARGES = None


def larges_index(l):
    """index of the prime l in PM1Base::larges (primes >= 500 in increasing order, at most 65536 of them), or None"""
    global _LARGES
    if _LARGES is None:
        ps = [p for p in small_primes(900000) if p >= 500][:64 * 1024]
        _LARGES = {p: i for i, p in enumerate(ps)}
    return _LARGES.get(l)


def pm1base_cases(rng, N):
    """PM1Base::factor(n, budget): p - 1 = s*l, s | (powers < 1024 of primes < 500), l among the large primes"""
    made = 0
    larges_index(503)
    by_index = {i: p for p, i in _LARGES.items()}
    for i in range(20 * N):
        if made >= N:
            break
        budget = rng.choice([500, 1000, 1001, 1024, 1500, 4000, 20000, 66000])
        l = next_prime(rng.randrange(500, rng.choice([600, 5000, 50000, 800000])))
        if i % 4 == 0 and budget >= 1024:
            # the last tested large prime, the first one that is not, and their neighbours
            l = by_index.get(budget - 1000 + rng.choice([-2, -1, 0, 1]), l)
        smax = (1 << 31) // l
        s = 2
        for _ in range(rng.randrange(0, 4)):
            r = rng.choice([2, 2, 3, 3, 5, 7, 11, 13, 29, 97, 499])
            if s * r <= smax and 1024 % 1 == 0:
                e = 0
                t = s
                while t % r == 0:
                    t //= r
                    e += 1
                if r ** (e + 1) < 1024:
                    s *= r
        p = s * l + 1
        if p >= 1 << 31 or not is_prime(p) or pow(2, (p - 1) // l, p) == 1:
            continue
        r = next_prime(rng.getrandbits(29) | (1 << 28))
        qq = 2 * r + 1
        while not is_prime(qq):
            r = next_prime(r)
            qq = 2 * r + 1
        n = p * qq
        if n >= 1 << 63 or p == qq:
            continue
        made += 1
        j = larges_index(l)
        if j is None:
            continue
        # the model predicts the outcome when the whole of stage 1 runs (budget >= 1024)
        yield Case(f"s2_pm1base {n} {budget} {p} {l} {j}", k=budget >= 1024, tag="pm1base")
    yield Case("s2_pm1base_data", k=False, tag="pm1base")


def table_cases():
    for consumer in ("ecm", "pp1", "pm1"):
        for i in range(len(table(consumer)) + 1):
            yield Case(f"s2_row {consumer} {i}", tag="row")
        yield Case(f"s2_rows {consumer}", tag="row")
    yield Case("s2_threshold", tag="row")


def sel_cases(rng, N):
    for consumer in ("ecm", "pm1"):
        t = table(consumer)
        bs = [0, 1, 659, 660, 661, 79999, 80000, 80001, 45000, 44999, 45001, 10 ** 14, 2 ** 52]
        for a, b in zip(t, t[1:]):
            mid = (a[0] + b[0]) // 2
            bs += [mid - 1, mid, mid + 1, a[0], a[0] - 1, a[0] + 1]
        bs += [b2 for (_, b2) in arms()]
        bs += [7700, 20000, 80000, 126000, 554000, 1370000, 19000000, 38000000, 2600000000, 32000000000, 81000, 156000000,
               10000000000, 136000000000, 1500000000000, 49000000000000, 1080, 1920, 3000, 13200, 53000, 181000]
        bs += [rng.randrange(1, 6 * 10 ** 13) for _ in range(N)] + [rng.randrange(1, 10 ** rng.randrange(3, 14)) for _ in range(N)]
        for b2 in dict.fromkeys(bs):
            yield Case(f"s2_sel {consumer} {b2}", tag="sel")
    for b2 in (40000, 30000, 45000, 60000, 80000, 10000, 50000):
        yield Case(f"s2_walk {b2}", tag="walk")


# ---------------------------------------------------------------- boundary size classes (size audit)


def _fork(rng, label):
    """own stream for the boundary family: depends on the run's seed, leaves the stream of the older families untouched"""
    return random.Random(f"{label}:{rng.getstate()[1][:4]}")


def exact_q(rng, p, bits, sign, floor=0, ok=None):
    """prime q with p*q of EXACTLY `bits` bits; sign = +1 / -1: q - sign = k*Q with Q a prime above `floor` (the group order
    attached to q is out of reach of every bound used), `ok(q, Q)` = final filter; sign = 0: any prime = 1 mod 4"""
    lo, hi = -(-(1 << (bits - 1)) // p), ((1 << bits) - 1) // p
    if sign == 0:
        for _ in range(20000):
            q = (rng.randrange(lo, hi + 1) | 3) - 2
            if lo <= q <= hi and q != p and is_prime(q):
                return q
        return None
    Qb = max(floor.bit_length() + 1, min(62, hi.bit_length() - 9))
    for _ in range(100):
        Q = next_prime(rng.getrandbits(Qb) | (1 << (Qb - 1)))
        if hi // Q - lo // Q < 16:
            return None
        for _ in range(800):
            q = (rng.randrange(lo // Q + 1, hi // Q) & ~1) * Q + sign
            if lo <= q <= hi and q != p and is_prime(q) and (ok is None or ok(q, Q)):
                return q
    return None


# bit lengths of n straddling the word boundaries of ZmodN (k = 1, 2, 4, 5, 6, 7, 8 words) and the end of the supported range:
# factor() refuses above 500 bits (ZmodN::new admits 512, but ZmodN::add is wrong for 512-bit moduli: C07 add_512bit_counterexample;
# ecm_curve on a 512-bit n ends in the `invalid point` assert for that reason)
S2_BOUNDARY_BITS = [63, 64, 65, 127, 128, 129, 255, 256, 257, 320, 384, 447, 448, 449, 499, 500]


def chain_values(rng, n, ps, length):
    """raw words v_0..v_{length-1} < 2^512 with gcd(n, v_j) = product of the p in ps caught at a step <= j (increasing chain)"""
    steps = sorted(rng.randrange(0, length) for _ in ps)
    vals = []
    for j in range(length):
        g = 1
        for p, st in zip(ps, steps):
            if st <= j:
                g *= p
        junk = rng.getrandbits(rng.choice([1, 11])) | 1
        while math.gcd(junk, n) != 1:
            junk += 2
        vals.append(g * junk)
    return vals


def boundary_cases(rng, tier):
    """the routines that take a multiprecision n, in BOTH tiers, at every boundary size of n (constructed orders as in the older
    families, the cofactor chosen so that n has exactly the wanted bit length); ecm128 up to its u128 limit; PM1Base just
    below its 2^63 limit"""
    reps = 1 if tier == "quick" else 3
    for rep in range(reps):
        # ---- P-1 (polynomial evaluation above MULTIEVAL_THRESHOLD, prime walk below) and P+1 (always roots_eval)
        for bits in S2_BOUNDARY_BITS:
            plans = [("pm1", 600, 100000), ("pm1", 600, 40000), ("pp1", 600, 20000)]
            if bits in (256, 257, 448, 500):
                plans += [("pm1", 1000, 1900000), ("pp1", 1500, 126000)]
            for consumer, b1, b2 in plans:
                poly = consumer == "pp1" or b2 > THRESHOLD
                lab, d1, d2 = nearest(consumer, b2)
                eff = row_eff(consumer, (lab, d1, d2)) if poly else b2
                floor = max(b1, 2 * b2, (d2 + 2) * d1)
                for l in (prev_prime(eff + 1), prev_prime(rng.randrange(b1 + 2, eff))):
                    for _ in range(40):
                        if consumer == "pm1":
                            p, seed = make_pm1_prime(rng, b1, l), None
                        else:
                            p, seed = make_pp1_prime(rng, b1, l) or (None, None)
                        if not p or p.bit_length() > bits - 28:
                            continue
                        if consumer == "pm1":
                            q = exact_q(rng, p, bits, 1, floor, lambda q, Q: pow(2, (q - 1) // Q, q) != 1)
                        else:
                            q = exact_q(rng, p, bits, -1, floor, lambda q, Q: jacobi(seed * seed - 4, q) == -1
                                        and lucas_v(seed, (q + 1) // Q, q) != 2)
                        if q:
                            break
                    else:
                        continue
                    assert (p * q).bit_length() == bits
                    if consumer == "pm1":
                        yield Case(f"s2_pm1 {p * q} {b1} {b2} {p} {l}", tag=f"edge{bits}")
                    else:
                        yield Case(f"s2_pp1 {p * q} {seed} {b1} {b2} {p} {l}", tag=f"edge{bits}")
        # ---- ECM: the constructed (p, point, l) of ecm_search with a prime cofactor that brings n to the boundary size (a
        # prime of 80+ bits: the point's order modulo it is out of reach of these bounds, smooth with probability < 1e-9)
        base = {"s2_ecm": [], "s2_ecm128": []}
        for c in ecm_search(rng, 1200, per_class=3):
            if c.tag != "ecm/out":
                base[c.op].append(c)

        def resized(c, bits):
            p = int(c.args[5])
            return Case(f"{c.op} {p * exact_q(rng, p, bits, 0)} {' '.join(c.args[1:])}", tag=f"edge{bits}")
        small = [c for c in base["s2_ecm"] if int(c.args[4]) < 2000000]      # d1 < 4000: plain products
        big = [c for c in base["s2_ecm"] if int(c.args[4]) >= 2000000]       # roots_eval arm
        for bits in S2_BOUNDARY_BITS[3:]:
            for c in rng.sample(small, 2) + rng.sample(big, 2):
                yield resized(c, bits)
        for bits in (65, 96, 126, 127, 128):                                  # ecm128: n is a u128
            for c in rng.sample(base["s2_ecm128"], 4 if bits >= 127 else 1):
                yield resized(c, bits)
        # ---- rho_impl (multiprecision ring), gcd_factors / check_gcd_factors (big_gcd, pseudoprime of a large part)
        pool = [1009, 65537, 1000003, 2 ** 31 - 1, 1000000007, 2 ** 61 - 1, 2 ** 89 - 1, 2 ** 107 - 1]
        for bits in S2_BOUNDARY_BITS[3:]:
            n0 = rng.choice([1009, 65537]) * rng.choice([1000033, 15485863, 2147483647])
            yield Case(f"s2_rho_impl {n0 * exact_q(rng, n0, bits, 0)} {rng.randrange(1, 50)} {rng.choice([500, 2000])}", tag=f"edge{bits}")
        for bits in (255, 256, 257, 448, 500):
            ps = rng.sample(pool, 3)
            ps.append(exact_q(rng, ps[0] * ps[1] * ps[2], bits, 0))
            n = ps[0] * ps[1] * ps[2] * ps[3]
            yield Case(f"s2_gcdf {n} {','.join(map(str, chain_values(rng, n, ps, rng.choice([3, 5, 9]))))}", tag=f"edge{bits}")
            rng.shuffle(ps)
            nred = ps[1] * ps[2] * ps[3]
            vals = ",".join(map(str, chain_values(rng, nred, ps[1:], rng.choice([2, 4, 8]))))
            yield Case(f"s2_cgf {n} {ps[0]} {nred} {vals}", tag=f"edge{bits}")
            yield Case(f"s2_cgf1 {nred} {vals}", tag=f"edge{bits}")
        # ---- PM1Base::factor takes any odd u64; it used to compute xr + (n - R mod n) in u64, which wraps above 2^65/3
        # (fix 7e3b2f6): 63-bit and 64-bit n, the latter up to the top of the type
        larges_index(503)
        for top, tag in ((63, "edge63"), (64, "edge64")):
            made = 0
            while made < 6:
                l = next_prime(rng.randrange(500, 5000))
                p = 2 * rng.choice([1, 3, 5, 7, 9, 15]) * l + 1
                if not is_prime(p) or pow(2, (p - 1) // l, p) == 1:
                    continue
                lo, hi = -(-(1 << (top - 1)) // p), ((1 << top) - 1) // p
                if made == 5 and top == 64:
                    lo = ((1 << 64) - (1 << 58)) // p       # next to 2^64
                qq = 2 * next_prime(rng.randrange(lo // 2, hi // 2)) + 1
                if is_prime(qq) and lo <= qq <= hi:
                    made += 1
                    yield Case(f"s2_pm1base {p * qq} {rng.choice([1024, 1600, 4000, 7000, 7000])} {p} {l} {larges_index(l)}", tag=tag)


def cases(tier, rng, extended=False):
    scale = 1 if tier == "quick" else 20
    if extended:
        scale *= 5
    yield from boundary_cases(_fork(rng, "C16-boundary"), tier)
    yield from pmx.cases(tier, _fork(rng, "C16-pm1impl"), _sys.modules[__name__], extended)
    yield from ppx.cases(tier, _fork(rng, "C16-pp1impl"), _sys.modules[__name__], extended)
    yield from table_cases()
    yield from sel_cases(rng, 60 * scale)
    yield from constructed_cases(tier, rng, extended)
    yield from big_b1_cases(tier, rng, extended)
    yield from exp_cases(rng, 400 * scale)
    yield from gcdf_cases(rng, 300 * scale)
    yield from cgf_cases(rng, 150 * scale)
    yield from rho_cases(rng, 250 * scale)
    yield from pm1base_cases(rng, 300 * scale)
    yield from ecm_search(rng, (600 if tier == "quick" else 120000) * (3 if extended else 1), per_class=2 if tier == "quick" else 16)
    # directed rim cases (b = 1, b_max, i = 1, d2 - 1, d2): small rows here, every row class in corpus/C16/ecm_edges.txt
    for a_, plans in ECM_EDGE_PLANS.items():
        for plan in (plans[:1] if tier == "quick" and not extended else plans):
            yield from ecm_edge_search(rng, a_, plan, 1 if tier == "quick" else 3, 20000 if tier == "quick" else 300000)


def corpus_case(line):
    if line[0] in "[{":
        # corpus/C16/proposed_findings.json (one line of JSON, kept next to the seeds): not a request
        return Case("s2_threshold", tag="skip")
    if line.startswith("!nok "):
        return Case(line[5:], k=False)
    return Case(line)


# ---------------------------------------------------------------- oracle


def parse_split(ans):
    """`some f1,f2 rest` / `some a b` -> (list, rest); `none` -> None; else raises"""
    if ans == "none":
        return None
    t = ans.split(" ")
    if len(t) != 3 or t[0] != "some":
        raise ValueError(ans)
    fs = [] if t[1] == "-" else [int(x) for x in t[1].split(",")]
    return fs, int(t[2])


def check_split(n, ans, pair=False):
    """every returned pair/list multiplies to n with parts > 1 (cofactor 1 only for a complete list of >= 2 parts)"""
    try:
        r = parse_split(ans)
    except ValueError:
        return f"no split returned ({ans})"
    if r is None:
        return None
    fs, rest = r
    prod = rest
    for f in fs:
        prod *= f
    if prod != n:
        return f"returned parts multiply to {prod}, not to n"
    if not fs or any(f <= 1 or f >= n for f in fs):
        return "a returned part is trivial (<= 1 or = n)"
    if rest < 1 or (rest == 1 and (pair or len(fs) < 2)):
        return "trivial cofactor"
    return None


def required(case):
    """(n, p, must_find) for a constructed request"""
    a = case.args
    op = case.op
    if op == "s2_pm1":
        n, b1, b2, p, l = (int(x) for x in a[:5])
        return n, p, covered("pm1", b1, b2, l)
    if op in ("s2_pm1_only", "s2_pm1_quick"):
        n, p, l = (int(x) for x in a[:3])
        for (lo, hi, b1, b2) in arm_table(op[3:]):
            if lo <= n.bit_length() <= hi:
                return n, p, covered("pm1", b1, b2, l)
        return n, p, False
    if op == "s2_pp1":
        n, seed, b1, b2, p, l = (int(x) for x in a[:6])
        return n, p, covered("pp1", b1, b2, l)
    if op in ("s2_ecm", "s2_ecm128"):
        n, x, y, b1, b2, p, l = (int(v) for v in a[:7])
        return n, p, covered("ecm", b1, b2, l)
    return None


_dyn_bad = set()


def row_key(consumer, row):
    return f"stage2-label:{consumer}:{row[0]}:{row_eff(consumer, row)}"


def oracle(case, ans):
    op, a = case.op, case.args
    if op in pmx.OPS:
        return pmx.oracle(case, ans, _sys.modules[__name__])
    if op in ppx.OPS:
        return ppx.oracle(case, ans, _sys.modules[__name__])
    if ans in ("panic", "abort", "hang", "?") and op not in ("s2_gcdf",):
        return f"no answer ({ans})"
    if op == "s2_row":
        consumer, i = a[0], int(a[1])
        t = table(consumer)
        want = "none" if i >= len(t) else "%d %d %d" % t[i]
        if ans != want:
            return f"row differs from the source text: {want}"
        if i >= len(t):
            return None
        if consumer == "pm1" and t[i] not in poly_rows():
            return None                                  # only used by the prime walk: label checked by s2_walk
        lab, d1, d2 = t[i]
        if d1 % 6 != 0:
            return "6 does not divide d1"
        eff = row_eff(consumer, t[i])
        if lab > eff:
            _dyn_bad.add(row_key(consumer, t[i]))
            w = next_prime(eff)
            while math.gcd(w, d1) != 1:
                w = next_prime(w)
            return (f"{consumer}: row ({lab}, {d1}, {d2}) reports B2 = {lab} but its grid ends at {eff} "
                    f"(shortfall {lab - eff}; e.g. the prime {w} <= B2 is never tested)")
        return None
    if op == "s2_rows":
        return None if ans == str(len(table(a[0]))) else "table length"
    if op == "s2_threshold":
        return None if ans == str(THRESHOLD) else "MULTIEVAL_THRESHOLD changed"
    if op == "s2_sel":
        r = nearest(a[0], int(a[1]))
        return None if ans == "%d %d %d" % r else f"not the nearest row {r}"
    if op == "s2_walk":
        b2 = int(a[0])
        lab = nearest("pm1", b2)[0]
        if ans.split(" ")[0] != str(lab):
            return f"not the nearest row label {lab}"
        if lab > b2 and b2 <= THRESHOLD:
            _dyn_bad.add(f"stage2-label:pm1walk:{lab}:{b2}")
            return (f"pm1_impl(b2 = {b2}) reports B2 = {lab} but the prime walk stops at the first prime above {b2}")
        return None
    if op == "s2_pm1same":
        return check_split(int(a[0]), ans)           # refuses [n] as a "factor"; a genuine split would be fine too
    if op == "s2_pm1x":
        n, b1, b2, p1, p2, l = (int(x) for x in a[:6])
        msg = check_split(n, ans)
        if msg:
            return msg
        if n % (p1 * p2) or not pm1_annotation_ok(Case(f"s2_pm1 {n} {b1} {b2} {p2} {l}")) or not is_prime(p1) \
                or not divides_stage1(p1 - 1, b1):
            return "test construction error: the claimed order structure does not check"
        r = parse_split(ans)
        if r is None or p1 not in r[0]:
            return f"p1 = {p1} (p1 - 1 divides the stage-1 exponent) was not separated"
        if covered("pm1", b1, b2, l) and p2 not in r[0]:
            return f"p2 = {p2} (covered) was not separated after the ring shrank to n / p1"
        return None
    if op in ("s2_pm1_only", "s2_pm1_quick"):
        n, p, l = (int(x) for x in a[:3])
        msg = check_split(n, ans)
        if msg:
            return msg
        n, p, must = required(case)
        arm = [t for t in arm_table(op[3:]) if t[0] <= n.bit_length() <= t[1]]
        if not arm or not pm1_annotation_ok(Case(f"s2_pm1 {n} {arm[0][2]} {arm[0][3]} {p} {l}")):
            return "test construction error: the claimed order structure does not check"
        r = parse_split(ans)
        if must and not (r is not None and (p in r[0] or r[1] == p)):
            return f"p = {p} (p - 1 = (part of the stage-1 exponent for B1 = {arm[0][2]}) * {l}) was not separated by {op[3:]}"
        return None
    if op in ("s2_pm1", "s2_pp1", "s2_ecm", "s2_ecm128"):
        n = int(a[0])
        msg = check_split(n, ans, pair=op in ("s2_ecm", "s2_ecm128"))
        if msg:
            return msg
        req = required(case) if len(a) >= 5 else None
        if req and not {"s2_ecm": ecm_annotation_ok, "s2_ecm128": ecm_annotation_ok, "s2_pm1": pm1_annotation_ok,
                        "s2_pp1": pp1_annotation_ok}[op](case):
            return "test construction error: the claimed order structure does not check"
        if req:
            n, p, must = req
            r = parse_split(ans)
            found = r is not None and (p in r[0] or (r[1] == p))
            if must and not found:
                return f"p = {p} (order = smooth * {a[-1]}, covered by the reported bounds) was not separated"
        return None
    if op == "s2_pm1base_data":
        # the table PM1Base::new builds meets the hypotheses of theorem pm1base_cover
        want = "503 65536 true true"
        t = ans.split(" ")
        got = f"{t[0]} {t[1]} {t[3]} {t[4]}" if len(t) == 6 else ans
        if got != want or int(t[2]) > 128:
            return f"PM1Base large-prime table: expected first 503, 65536 entries, odd, increasing, gaps <= 128; got {ans}"
        return None
    if op == "s2_pm1base":
        n, budget, p, l = (int(v) for v in a[:4])
        msg = check_split(n, ans, pair=True)
        if msg:
            return msg
        j = larges_index(l)
        if len(a) > 4 and (j is None or int(a[4]) != j or n % p or (p - 1) % l or pow(2, (p - 1) // l, p) == 1):
            return "test construction error: index of the large prime / order structure does not check"
        if budget >= 1024 and j is not None and j < budget - 1000 and ans == "none":
            return f"p = {p} (p - 1 = small part * {l}, large prime number {j} < budget - 1000) was not found"
        return None
    if op == "s2_expmodn" or op == "s2_expmodn_large":
        n, g, e = int(a[0]), int(a[1]), int(a[2])
        return None if ans == str(pow(g, e, n)) else "result != g^e mod n"
    if op == "s2_cheb":
        n, v, k = int(a[0]), int(a[1]), int(a[2])
        return None if ans == str(lucas_v(v, k, n)) else "result != V_k(v) mod n"
    if op == "s2_gcdf":
        n = int(a[0])
        vals = [int(x) for x in a[1].split(",")]
        if not is_chain(n, vals):
            return None                                   # outside the documented precondition
        if ans in ("panic", "abort", "hang", "?"):
            return f"no answer ({ans})"
        fs_s, rest = ans.split(" ")
        fs = [] if fs_s == "-" else [int(x) for x in fs_s.split(",")]
        g0, g1 = math.gcd(n, vals[0]), math.gcd(n, vals[-1])
        prod = 1
        for f in fs:
            prod *= f
        if prod * g0 != g1:
            return "product of the factors != gcd_last / gcd_first"
        if prod * int(rest) != n:
            return "factors * rest != n"
        if any(f <= 1 for f in fs):
            return "a factor <= 1"
        # separation: prime factors caught at DIFFERENT steps must not be returned merged — every returned
        # part is a prime or (part of) the increment of a single step
        gs = [math.gcd(n, v) for v in vals]
        incs = [gs[0]] + [gs[j] // gs[j - 1] for j in range(1, len(gs))]
        for f in fs:
            if gen.is_prime(f):
                continue
            if not any(inc % f == 0 for inc in incs[1:]):
                return f"factor {f} merges prime factors caught at different steps (step increments {[i for i in incs[1:] if i > 1][:6]})"
        return None
    if op == "s2_cgf":
        n, nred = int(a[0]), int(a[2])
        f0 = [] if a[1] == "-" else [int(x) for x in a[1].split(",")]
        vals = [int(x) for x in a[3].split(",")]
        t = ans.split(" ")
        if len(t) != 4 or t[0] not in ("true", "false"):
            return f"no answer ({ans})"
        f1 = [] if t[1] == "-" else [int(x) for x in t[1].split(",")]
        nred1 = int(t[2])
        v1 = [int(x) for x in t[3].split(",")]
        prod = nred1
        for f in f1:
            prod *= f
        if prod != n:
            return "factors * nred != n after check_gcd_factors"
        if f1[:len(f0)] != f0 or any(f <= 1 for f in f1) or n in f1[len(f0):]:
            return "recorded factors changed / trivial / equal to n"
        g0, g1 = math.gcd(nred, vals[0]), math.gcd(nred, vals[-1])
        new = 1
        for f in f1[len(f0):]:
            new *= f
        if new != 1 and new * g0 != g1:
            return "new factors do not multiply to gcd_last / gcd_first"
        if new == 1 and g1 // g0 not in (1, n):
            return "a non-trivial gcd increment was dropped"
        if t[0] == "false" and v1 != [vals[-1]]:
            return "value list not cut down to its last element"
        if t[0] == "false" and (nred1 == 1 or (new != 1 and gen.is_prime(nred1))):
            return "run not stopped although the cofactor is 1 or prime"
        return None
    if op == "s2_cgf1":
        n = int(a[0])
        vals = [int(x) for x in a[1].split(",")]
        q = math.gcd(n, vals[-1]) // math.gcd(n, vals[0])
        if ans == "none":
            return None if q in (1, n) else "a proper factor was available but none returned"
        d = int(ans.split(" ")[1]) if ans.startswith("some ") else 0
        return None if 1 < d < n and n % d == 0 and q % d == 0 else "returned value is not a proper divisor caught by the values"
    if op == "s2_rho64":
        return check_split(int(a[0]), ans, pair=True)
    if op == "s2_rho_impl":
        msg = check_split(int(a[0]), ans)
        if msg is None and ans != "none" and int(ans.split(" ")[2]) in (1, int(a[0])):
            return "rho_impl returned a trivial cofactor"
        return msg
    return "unknown op"


def finding_key(case, ans, profile):
    op, a = case.op, case.args
    if op == "s2_row":
        t = table(a[0])
        i = int(a[1])
        if i < len(t):
            return row_key(a[0], t[i])
    if op == "s2_walk":
        return f"stage2-label:pm1walk:{nearest('pm1', int(a[0]))[0]}:{a[0]}"
    return None


def static_bad():
    """every (key, text) that is bad on the tables as they are in the source now"""
    out = []
    for consumer in ("ecm", "pp1", "pm1"):
        rows = poly_rows() if consumer == "pm1" else table(consumer)
        for r in rows:
            eff = row_eff(consumer, r)
            if r[0] > eff:
                out.append((row_key(consumer, r), f"{consumer} row {r}: label {r[0]} > effective B2 {eff}"))
    for b2 in (10000, 50000):
        lab = nearest("pm1", b2)[0]
        if lab > b2:
            out.append((f"stage2-label:pm1walk:{lab}:{b2}", f"pm1 prime walk: b2 = {b2} reported as {lab}"))
    return out


def static_findings(listed):
    """one line per listed row that is still bad and was not already reported through a failing request of this run"""
    lines = []
    for key, text in static_bad():
        if key in listed and key not in _dyn_bad:
            lines.append(f"{listed[key].get('what', text)} [key={key}, static]")
    return lines


# ---------------------------------------------------------------- distribution


def klass(case, ans):
    op = case.op
    if op in pmx.OPS:
        return pmx.klass(case, ans)
    if op in ppx.OPS:
        return ppx.klass(case, ans)
    tag = case.tag or ""
    short = ans.split(" ")[0] if ans else ""
    if op == "s2_pm1x":
        return f"s2_pm1x/B1={case.args[1]}/{short}/{ans.count(',') + 1 if short == 'some' else 0}"
    if op in ("s2_pm1_only", "s2_pm1_quick"):
        return f"{op}/bits{(int(case.args[0]).bit_length() + 39) // 40 * 40}/{tag.split('/')[-1]}/{short}"
    if op == "s2_pm1" and tag.startswith("bigb1"):
        return f"s2_pm1/B1={case.args[1]}/{tag.split('/')[-1]}/{short}"
    if op in ("s2_pm1", "s2_pp1", "s2_ecm", "s2_ecm128") and len(case.args) >= 5:
        req = required(case)
        cov = "covered" if req and req[2] else "outside"
        a = case.args
        b2 = int(a[2] if op == "s2_pm1" else a[3] if op == "s2_pp1" else a[4])
        return f"{op}/B2~1e{len(str(b2)) - 1}/{cov}/{short}"
    if op == "s2_row":
        return f"s2_row/{case.args[0]}"
    if op in ("s2_expmodn", "s2_cheb", "s2_expmodn_large"):
        e = int(case.args[2])
        return f"{op}/{'e=0' if e == 0 else 'e<8' if e < 8 else 'bits' + str((e.bit_length() + 15) // 16 * 16)}" + \
            ("" if ans.isdigit() else "/" + short)
    if op == "s2_gcdf":
        n = int(case.args[0])
        vals = [int(x) for x in case.args[1].split(",")]
        nf = "panic" if not ans[0].isdigit() and ans[0] != "-" else str(0 if ans.startswith("-") else ans.split(" ")[0].count(",") + 1)
        return f"s2_gcdf/len{min(len(vals), 9)}/{'chain' if is_chain(n, vals) else 'nochain'}/facs{nf}"
    return f"{op}/{short}"


def nontrivial(case, ans):
    op = case.op
    if op in ("s2_expmodn", "s2_cheb", "s2_expmodn_large"):
        return int(case.args[2]) > 1
    return True
