-- Root of the `Ymq` library: everything that `lake build` must check.
import Ymq.Drv.All
