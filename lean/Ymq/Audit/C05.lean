import Ymq.Props.C05
import Ymq.Props.C05Sched
import Ymq.Props.C04Shape
#print axioms Ymq.C05.abort_never_wrong_product
#print axioms Ymq.C05.abort_consistent
#print axioms Ymq.C05.abort_stops
#print axioms Ymq.C05.abort_bounded
#print axioms Ymq.C05.abort_before_start
#print axioms Ymq.C05.abort_consistent_of_input
#print axioms Ymq.C04Shape.abort_bounded_shape
#print axioms Ymq.C04Shape.source_shapes_ok
#print axioms Ymq.C04Shape.source_mt_poll_first
#print axioms Ymq.C04Shape.siqs_mt_abort_bounded
#print axioms Ymq.C04Shape.mpqs_mt_abort_bounded
#print axioms Ymq.C04Shape.siqs_st_abort_bounded
#print axioms Ymq.C04Shape.mpqs_st_abort_bounded
#print axioms Ymq.C04Shape.source_ecm_shape_ok
#print axioms Ymq.C04Shape.ecm_abort_bounded
#print axioms Ymq.C04Shape.ecm_unit_length
#print axioms Ymq.C04Shape.qs_abort_bounded
#print axioms Ymq.C04Shape.qs_unit_length
#print axioms Ymq.C04Shape.cg_mt_abort_bounded
#print axioms Ymq.C04Shape.cg_st_abort_bounded
#print axioms Ymq.C04Shape.ecm_unit_abort_bounded
#print axioms Ymq.C04Shape.source_named_ok
#print axioms Ymq.C04Shape.source_fork_ok
#print axioms Ymq.C04Shape.source_ecm_unit_ok
#print axioms Ymq.C04Shape.abort_unit_bounded
#print axioms Ymq.C04Shape.ecm_unit_abort_faithful
