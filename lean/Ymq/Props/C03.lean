/-
C03 — factoring is total: it answers or fails cleanly, never crashes.
Only property theorems live here (helper lemmas: Ymq/Lemmas/Factor*.lean).

Scope: the control flow of `factor` / `factor_impl` / `check_factors` (src/lib.rs) around the
sub-algorithms, which are oracle fields constrained by `OracleOK`
(Ymq/Lemmas/FactorOracle.lean). Panic sites covered: `assert!(n.bits() <= 64)` ×3,
`unreachable!("impossible")` ×2, `n / d` with `d = 0`, `residue /= gcd` with `gcd = 0`,
`assert!(residue.is_one())`, `assert_eq!(n, p)` and `assert_eq!(*n, product)` in
`check_factors`; termination: every recursive call is on a proper divisor, so the recursion
depth is at most `bits n` (the model's `.fuel` outcome cannot occur with `fuel ≥ bits n`).
Panics inside the sub-algorithms themselves are the business of the other properties.
-/
import Ymq.Lemmas.FactorExample

namespace Ymq.C03
open Ymq.Factor

variable {σ : Type}

/-- **Counter-witness to the full statement** (`factor_total` below): selector `Rho`, an oracle
satisfying the whole contract whose `rho` returns `None` on the composite 47053 = 211·223
(n = 188212 = 2²·47053; 18 bits, precondition `bits ≤ 64` met, fuel ample, abort never
requested). In lib.rs the `Algo::Rho` arm then neither returns nor pushes: control leaves the
`match`, passes `prefs.abort()`, and reaches `_ => unreachable!("impossible")` (lib.rs:486). -/
theorem rho_fallthrough_panics :
    OracleOK Toy.toyNoRho ∧ SelectorPre .rho 188212 ∧ bits 188212 ≤ 20 ∧
      factor Toy.toyNoRho 20 188212 .rho () = .panic "unreachable!(impossible)" :=
  ⟨Toy.toyNoRho_ok, fun _ => by decide +kernel, by decide +kernel, by decide +kernel⟩

/-- **`factor_total_partial`**. Under the oracle contract, for every `n` (inputs above 510 bits
are refused with the declared failure), every selector whose size precondition is met
(`SelectorPre`: Qs64/Rho/Squfof need `bits n ≤ 64`), every `prime` and `abort` behaviour and
fuel `≥ bits n`: `factor` returns a list (whose product is `n`) or the declared failure value —
never a panic site of lib.rs, never fuel exhaustion (= the recursion terminates, depth ≤ bits n).

PARTIAL: the hypothesis `hrho` excludes exactly the case exhibited by
`rho_fallthrough_panics`: selector `Rho` and `pollard_rho::rho` returning `None` on a number
that `pseudoprime` has just rejected (`RhoNeverFails`, stated with the exact oracle states).
The FULL statement is

  theorem factor_total (o : Oracle σ) (hok : OracleOK o) (fuel n : Nat) (alg : Algo) (os : σ)
      (hsel : SelectorPre alg n) (hfuel : bits n ≤ fuel) :
      (∃ l, factor o fuel n alg os = .ok l ∧ l.prod = n) ∨ factor o fuel n alg os = .failure

and is FALSE for the code as it is (`rho_fallthrough_panics`). What is missing is on the code
side: the `Algo::Rho` arm must `factors.push(n); return` when `rho` fails. -/
theorem factor_total_partial (o : Oracle σ) (hok : OracleOK o) (fuel n : Nat) (alg : Algo)
    (os : σ) (hsel : SelectorPre alg n) (hfuel : bits n ≤ fuel)
    (hrho : alg = .rho → RhoNeverFails o) :
    (∃ l, factor o fuel n alg os = .ok l ∧ l.prod = n) ∨ factor o fuel n alg os = .failure :=
  factor_total_aux hok fuel n alg os hsel hfuel hrho

/-- the full statement holds for the nine selectors other than `Rho` (no extra hypothesis) -/
theorem factor_total_not_rho (o : Oracle σ) (hok : OracleOK o) (fuel n : Nat) (alg : Algo)
    (os : σ) (halg : alg ≠ .rho) (hsel : SelectorPre alg n) (hfuel : bits n ≤ fuel) :
    (∃ l, factor o fuel n alg os = .ok l ∧ l.prod = n) ∨ factor o fuel n alg os = .failure :=
  factor_total_aux hok fuel n alg os hsel hfuel (fun h => absurd h halg)

/-- the inner recursion: `factor_impl(n)` with `n ≥ 1` ends with `.ok` under the same
hypotheses (fuel `bits n` suffices: each recursive call is on a proper divisor). -/
theorem factorImpl_total_partial (o : Oracle σ) (hok : OracleOK o) (fuel n : Nat) (alg : Algo)
    (s : St σ) (hn : 1 ≤ n) (hsel : SelectorPre alg n) (hfuel : bits n ≤ fuel)
    (hrho : alg = .rho → RhoNeverFails o) : ∃ s', factorImpl o fuel n alg s = .ok s' :=
  factorImpl_total_aux hok alg hrho fuel n s hn hfuel hsel

/-! ### non-vacuity -/

open Ymq.Factor.Toy

/-- hypotheses satisfiable with selector Rho (an oracle whose `rho` never fails on what its
`prime` rejects), and the conclusion is the non-trivial disjunct -/
example : (∃ l, factor toyR 18 188212 .rho () = .ok l ∧ l.prod = 188212) ∨
    factor toyR 18 188212 .rho () = .failure :=
  factor_total_partial toyR toyR_ok 18 188212 .rho () (fun _ => by decide +kernel)
    (by decide +kernel) (fun _ => toyR_rho)

example : factor toyR 18 188212 .rho () = .ok [2, 2, 211, 223] := by decide +kernel

/-- the `.failure` disjunct is reachable too: a single composite left unsplit -/
example : factor toy 26 (211 * 211 * 223) .qs () = .failure := by decide +kernel

example : (∃ l, factor toy 18 188212 .siqs () = .ok l ∧ l.prod = 188212) ∨
    factor toy 18 188212 .siqs () = .failure :=
  factor_total_not_rho toy toy_ok 18 188212 .siqs () (by decide) (fun h => by simp at h)
    (by decide +kernel)

example : ∃ s', factorImpl toy 16 47053 .ecm (initSt () [2, 2]) = .ok s' :=
  factorImpl_total_partial toy toy_ok 16 47053 .ecm _ (by decide) (fun h => by simp at h)
    (by decide +kernel) (fun h => by simp at h)

end Ymq.C03
