import Ymq.Drv.Util
import Ymq.Model.Chain

/-!
Driver for C15: the addition-chain builders (Model/Chain.lean) and the translated curve
formulas (Gen/Curves.lean) evaluated over Z/n, composed by the chain interpreters of the model.
-/
namespace Ymq.Drv
open Ymq.Chain Ymq.Gen.Curves

/-- residues modulo `n` (canonical representative) -/
structure Zn (n : Nat) where
  v : Nat

namespace Zn
variable {n : Nat}
instance : Add (Zn n) := ⟨fun a b => ⟨(a.v + b.v) % n⟩⟩
instance : Sub (Zn n) := ⟨fun a b => ⟨(a.v + (n - b.v % n)) % n⟩⟩
instance : Mul (Zn n) := ⟨fun a b => ⟨a.v * b.v % n⟩⟩
instance : Zero (Zn n) := ⟨⟨0⟩⟩
instance : One (Zn n) := ⟨⟨1 % n⟩⟩
instance : NatCast (Zn n) := ⟨fun k => ⟨k % n⟩⟩
def mk' (n x : Nat) : Zn n := ⟨x % n⟩
end Zn

def showChain : Option (List Int) → String
  | none => "panic"
  | some c => s!"{c.length} {showList c}"

def showPt {n} (p : Pt (Zn n)) : String := s!"{p.x.v} {p.y.v} {p.z.v}"
def showExt {n} (p : Ext (Zn n)) : String := s!"{p.x.v} {p.y.v} {p.z.v} {p.t.v}"
def showOptPt {n} : Option (Pt (Zn n)) → String
  | none => "panic"
  | some p => showPt p
def sidesEq {n} (s : Zn n × Zn n) : String := showBool (s.1.v == s.2.v)

def parseBool : String → Option Bool
  | "true" => some true
  | "1" => some true
  | "false" => some false
  | "0" => some false
  | _ => none

def negExt {n} (g : Ext (Zn n)) : Ext (Zn n) := ⟨0 - g.x, g.y, g.z, 0 - g.t⟩

/-- `Suyama11::new`: `one_third` as the code selects it, then the translated constants (a, b, gx, gy) -/
def suyamaNew (n : Nat) : Option (Zn n × Zn n × Zn n × Zn n) :=
  let t? : Option Nat := if n % 3 = 1 then some (n - n / 3) else if n % 3 = 2 then some (n / 3 + 1) else none
  t?.map fun t => suyamaConsts (⟨t % n⟩ : Zn n)

def handleChain : Handler
  | ["chain64", k] => do
    let k ← parseNat k
    if k ≥ W then none else some (showChain (makeChain k))
  | ["chain1024", k] => do
    let k ← parseNat k
    if k ≥ 2 ^ 1024 then none else some (showChain (makeChainLong k))
  | ["ed_ops", n, tw, d, x1, y1, z1, x2, y2, z2] => do
    let n ← parseNat n; let tw ← parseBool tw
    let r := fun s => (parseNat s).map (Zn.mk' n)
    let d ← r d
    let p : Pt (Zn n) := ⟨← r x1, ← r y1, ← r z1⟩
    let q : Pt (Zn n) := ⟨← r x2, ← r y2, ← r z2⟩
    let pe := ecmToExtended d tw p
    let qe := ecmToExtended d tw q
    some (" ; ".intercalate [
      showPt (ecmAdd d tw p q), showPt (ecmDouble d tw p), showExt (ecmDblext d tw p), showExt pe,
      showExt (ecmAddext d tw pe qe), showPt (ecmAddextproj d tw pe qe), showPt (ecmSubextproj d tw pe qe),
      s!"{sidesEq (ecmIsValidSides d tw p)} {sidesEq (ecmIsValidSides d tw q)}"])
  | ["ed128_ops", n, x1, y1, z1, x2, y2, z2] => do
    let n ← parseNat n
    let r := fun s => (parseNat s).map (Zn.mk' n)
    let p : Pt (Zn n) := ⟨← r x1, ← r y1, ← r z1⟩
    let q : Pt (Zn n) := ⟨← r x2, ← r y2, ← r z2⟩
    let pe := e128Ext p p
    let qe := e128Ext p q
    some (" ; ".intercalate [
      showExt (e128Add p pe qe), showPt (e128Dbladd p p qe), showPt (e128Double p p), showExt (e128Dblext p p),
      showExt pe, s!"{sidesEq (e128IsValidSides p pe)} {sidesEq (e128IsValidSides p qe)}"])
  | ["suyama_ops", n, x, y, z] => do
    let n ← parseNat n
    let r := fun s => (parseNat s).map (Zn.mk' n)
    let p : Pt (Zn n) := ⟨← r x, ← r y, ← r z⟩
    match suyamaNew n with
    | none => some "err 3"
    | some (a, b, gx, gy) =>
      some (" ; ".intercalate [s!"{a.v} {b.v} {gx.v} {gy.v}", showPt (suyamaAddG a b gx gy p),
        showPt (suyamaDouble a b gx gy p), sidesEq (suyamaIsValidSides a b gx gy p)])
  | ["ed_chainmul", n, tw, d, x, y, z, k] => do
    let n ← parseNat n; let tw ← parseBool tw; let k ← parseNat k
    let r := fun s => (parseNat s).map (Zn.mk' n)
    let d ← r d
    let p : Pt (Zn n) := ⟨← r x, ← r y, ← r z⟩
    if k ≥ W then none else
    let zero : Pt (Zn n) := ⟨0, 1, 1⟩
    let r1 := scalar64Chainmul zero (ecmToExtended d tw) Ext.toProj (ecmDouble d tw) (ecmDblext d tw)
      (ecmAddext d tw) (ecmAddextproj d tw) (ecmSubextproj d tw) k p
    let r2 := scalar64MulDbladd zero (ecmAdd d tw) (ecmDouble d tw) k p
    some s!"{showOptPt r1} ; {showOptPt r2}"
  | ["ed_chainmul1024", n, tw, d, x, y, z, k] => do
    let n ← parseNat n; let tw ← parseBool tw; let k ← parseNat k
    let r := fun s => (parseNat s).map (Zn.mk' n)
    let d ← r d
    let p : Pt (Zn n) := ⟨← r x, ← r y, ← r z⟩
    if k ≥ 2 ^ 1024 then none else
    let zero : Pt (Zn n) := ⟨0, 1, 1⟩
    some (showOptPt (scalar1024Chainmul zero (ecmToExtended d tw) Ext.toProj (ecmDouble d tw) (ecmDblext d tw)
      (ecmAddext d tw) (ecmAddextproj d tw) (ecmSubextproj d tw) k p))
  | ["ed128_chainmul", n, x, y, z, k] => do
    let n ← parseNat n; let k ← parseNat k
    let r := fun s => (parseNat s).map (Zn.mk' n)
    let p : Pt (Zn n) := ⟨← r x, ← r y, ← r z⟩
    if k ≥ W then none else
    let zero : Pt (Zn n) := ⟨0, 1, 1⟩
    some (showOptPt (scalar64Mul128 zero (e128Ext p) Ext.toProj (e128Double p) (e128Dblext p) (e128Add p)
      (e128Dbladd p) negExt k p))
  | _ => none

end Ymq.Drv
