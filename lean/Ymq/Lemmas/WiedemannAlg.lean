/-
The algebraic heart of Wiedemann's determinant algorithm (`SparseMat::_detp4`), over a field:
Cayley–Hamilton makes the reversed characteristic polynomial a connection polynomial of every
scalar Krylov sequence `s_k = w M^k v`.
-/
import Mathlib.LinearAlgebra.Matrix.Charpoly.Coeff
import Mathlib.Algebra.Polynomial.Reverse
import Mathlib.Algebra.BigOperators.Intervals
import Mathlib.Algebra.BigOperators.NatAntidiagonal

namespace Ymq.Wied
open Polynomial Matrix

variable {F : Type*} [CommRing F] [Nontrivial F] {n : ℕ}

/-- the scalar Krylov sequence `s_k = w · M^k · v` (`w` a row, `v` a column; `_detp4` uses
`w = e_0` and the Fibonacci start vector) -/
def krylovSeq (M : Matrix (Fin n) (Fin n) F) (w : Matrix (Fin 1) (Fin n) F)
    (v : Matrix (Fin n) (Fin 1) F) (k : ℕ) : F := (w * M ^ k * v) 0 0

/-- Cayley–Hamilton on the sequence: `Σ_m χ_m s_{k+m} = 0`. -/
theorem charpoly_annihilates (M : Matrix (Fin n) (Fin n) F) (w : Matrix (Fin 1) (Fin n) F)
    (v : Matrix (Fin n) (Fin 1) F) (k : ℕ) :
    ∑ m ∈ Finset.range (n + 1), M.charpoly.coeff m * krylovSeq M w v (k + m) = 0 := by
  have h := Matrix.aeval_self_charpoly M
  rw [aeval_eq_sum_range, charpoly_natDegree_eq_dim, Fintype.card_fin] at h
  have e : w * (M ^ k * ∑ m ∈ Finset.range (n + 1), M.charpoly.coeff m • M ^ m) * v =
      ∑ m ∈ Finset.range (n + 1), M.charpoly.coeff m • (w * M ^ (k + m) * v) := by
    rw [Matrix.mul_sum, Matrix.mul_sum, Matrix.sum_mul]
    apply Finset.sum_congr rfl
    intro m _
    rw [Matrix.mul_smul, Matrix.mul_smul, Matrix.smul_mul, pow_add]
  rw [h, Matrix.mul_zero, Matrix.mul_zero, Matrix.zero_mul] at e
  have e0 := congrFun (congrFun e 0) 0
  rw [Matrix.sum_apply] at e0
  simp only [Matrix.zero_apply, Matrix.smul_apply, smul_eq_mul] at e0
  exact e0.symm

/-- In connection-polynomial form: the reversed characteristic polynomial `T = x^n χ(1/x)`
(`T_0 = 1`, `deg T ≤ n`) annihilates any `S` that carries the first `2n` terms, at every index
`n ≤ i < 2n`. -/
theorem reverse_charpoly_annihilates (M : Matrix (Fin n) (Fin n) F)
    (w : Matrix (Fin 1) (Fin n) F) (v : Matrix (Fin n) (Fin 1) F) (S : F[X])
    (hS : ∀ k, k < 2 * n → S.coeff k = krylovSeq M w v k) (i : ℕ) (h1 : n ≤ i) (h2 : i < 2 * n) :
    (M.charpoly.reverse * S).coeff i = 0 := by
  have hdeg : M.charpoly.natDegree = n := by
    rw [charpoly_natDegree_eq_dim, Fintype.card_fin]
  rw [coeff_mul, Finset.Nat.sum_antidiagonal_eq_sum_range_succ
    (fun a b => M.charpoly.reverse.coeff a * S.coeff b) i]
  -- split the range at n + 1
  have hsplit : Finset.range (i + 1) = Finset.range (n + 1) ∪ Finset.Ico (n + 1) (i + 1) := by
    ext a; simp only [Finset.mem_range, Finset.mem_union, Finset.mem_Ico]; omega
  have hdisj : Disjoint (Finset.range (n + 1)) (Finset.Ico (n + 1) (i + 1)) := by
    rw [Finset.disjoint_left]; intro a ha hb
    simp only [Finset.mem_range, Finset.mem_Ico] at ha hb; omega
  rw [hsplit, Finset.sum_union hdisj]
  have hhi : ∑ a ∈ Finset.Ico (n + 1) (i + 1), M.charpoly.reverse.coeff a * S.coeff (i - a) = 0 := by
    apply Finset.sum_eq_zero
    intro a ha
    simp only [Finset.mem_Ico] at ha
    have : M.charpoly.reverse.coeff a = 0 :=
      coeff_eq_zero_of_natDegree_lt (lt_of_le_of_lt (reverse_natDegree_le _) (by omega))
    rw [this, zero_mul]
  rw [hhi, add_zero]
  have hlo : ∀ a ∈ Finset.range (n + 1),
      M.charpoly.reverse.coeff a * S.coeff (i - a) =
        M.charpoly.coeff (n + 1 - 1 - a) * krylovSeq M w v ((i - n) + (n + 1 - 1 - a)) := by
    intro a ha
    have ha' := Finset.mem_range.mp ha
    rw [coeff_reverse, hdeg, revAt_le (by omega), hS (i - a) (by omega)]
    have e1 : n + 1 - 1 - a = n - a := by omega
    have e2 : i - n + (n - a) = i - a := by omega
    rw [e1, e2]
  rw [Finset.sum_congr rfl hlo,
    Finset.sum_range_reflect (fun m => M.charpoly.coeff m * krylovSeq M w v ((i - n) + m)) (n + 1)]
  exact charpoly_annihilates M w v (i - n)

theorem reverse_charpoly_coeff_zero (M : Matrix (Fin n) (Fin n) F) :
    M.charpoly.reverse.coeff 0 = 1 := by
  rw [coeff_zero_reverse]; exact (charpoly_monic M)

theorem reverse_charpoly_natDegree_le (M : Matrix (Fin n) (Fin n) F) :
    M.charpoly.reverse.natDegree ≤ n := by
  have := reverse_natDegree_le M.charpoly
  rwa [charpoly_natDegree_eq_dim, Fintype.card_fin] at this

/-- the coefficient of `x^n` in the reversed characteristic polynomial is `(-1)^n det M` -/
theorem reverse_charpoly_coeff_top (M : Matrix (Fin n) (Fin n) F) :
    M.det = (-1) ^ n * M.charpoly.reverse.coeff n := by
  have hdeg : M.charpoly.natDegree = n := by
    rw [charpoly_natDegree_eq_dim, Fintype.card_fin]
  rw [coeff_reverse, hdeg, revAt_le (le_refl n), Nat.sub_self, det_eq_sign_charpoly_coeff,
    Fintype.card_fin]

end Ymq.Wied
