/-
Lemmas for the mechanism models of the product tree (Ymq/Model/PolyTree.lean, property C10): the
merge step `(x^d + a)(x^d + b)` in its three forms, linked layers, the chain of layers, and
`from_roots = ∏ (x - r_i)`.
-/
import Ymq.Model.PolyTree
import Ymq.Lemmas.PolyMiddle

namespace Ymq.PolyMul
open Polynomial Finset

variable {α : Type} {R : Type} [CommRing R]

/-- the monic polynomial `x^d + a` represented by its `d = |a|` low coefficients -/
noncomputable def mon (φ : α → R) (a : List α) : R[X] := poly (a.map φ) + X ^ a.length

theorem poly_eq_of_coeff (l : List R) (G : R[X]) (hG : ∀ k, l.length ≤ k → G.coeff k = 0)
    (h : ∀ k, k < l.length → l.getD k 0 = G.coeff k) : poly l = G := by
  ext k
  rw [coeff_poly]
  by_cases hk : k < l.length
  · exact h k hk
  · rw [getD_ge _ _ _ (by omega), hG k (by omega)]

theorem mergeMonic_spec {o : Ops α} {φ : α → R} (h : Hom o φ) (c : Ctx) (i tmplen : Nat) (a b : List α)
    (hi : 1 ≤ i) (ha : a.length = 2 ^ (i - 1)) (hb : b.length = 2 ^ (i - 1)) (hd62 : a.length ≤ 2 ^ 62)
    (ht : 3 * a.length ≤ tmplen) (hfit : Fits c a.length) :
    ∃ m, mergeMonic c o i tmplen a b = some m ∧ m.length = 2 ^ i ∧ mon φ m = mon φ a * mon φ b := by
  unfold mergeMonic
  by_cases h1 : i = 1
  · subst h1
    rw [if_pos rfl]
    simp only [Nat.sub_self, pow_zero] at ha hb
    match a, b, ha, hb with
    | [a0], [b0], _, _ =>
      refine ⟨_, rfl, rfl, ?_⟩
      simp only [mon, List.map_cons, List.map_nil, poly_cons, poly_nil, List.length_cons, List.length_nil,
        List.getD_cons_zero, h.mul, h.add, map_mul, map_add]
      ring
  · rw [if_neg h1]
    by_cases h2 : i = 2
    · subst h2
      rw [if_pos rfl]
      simp only [show 2 - 1 = 1 from rfl, pow_one] at ha hb
      match a, b, ha, hb with
      | [a0, a1], [b0, b1], _, _ =>
        refine ⟨_, rfl, rfl, ?_⟩
        simp only [mon, List.map_cons, List.map_nil, poly_cons, poly_nil, List.length_cons, List.length_nil,
          List.getD_cons_zero, List.getD_cons_succ, h.mul, h.add, map_mul, map_add]
        ring
    · rw [if_neg h2]
      simp only
      set d := a.length with hd
      have hd1 : 1 ≤ d := by rw [ha]; exact Nat.one_le_two_pow
      have hbig : (2 : Nat) ^ 62 ≤ 20 * 2 ^ 63 := by norm_num
      obtain ⟨lm, elm, llm, hlm⟩ := longmul_spec h c (2 * d) tmplen a b (by rw [hb, ← ha]) hd1 (by omega)
        (le_refl _) ht hfit
      rw [elm]
      simp only
      have ldrop : (lm.drop d).length = d := by rw [List.length_drop, llm]; omega
      rw [zipOp_eq o.add _ _ (by rw [ldrop])]
      simp only
      have ls1 : (List.zipWith o.add (lm.drop d) a).length = d := by
        rw [List.length_zipWith, ldrop, Nat.min_self]
      rw [zipOp_eq o.add _ _ (by rw [ls1, hb, ← ha])]
      simp only
      have hpi : 2 ^ i = 2 * d := by
        rw [ha, ← pow_succ']; congr 1; omega
      refine ⟨_, rfl, ?_, ?_⟩
      · rw [List.length_append, List.length_take, List.length_zipWith, ls1, llm, hb, ← ha, hpi]; omega
      · -- poly lm = A·B
        have plm : poly (lm.map φ) = poly (a.map φ) * poly (b.map φ) := by
          apply poly_eq_of_coeff
          · intro k hk
            rw [List.length_map, llm] at hk
            exact coeff_poly_mul_zero _ _ k (by rw [List.length_map, List.length_map, hb, ← ha]; omega)
          · intro k hk
            rw [List.length_map, llm] at hk
            rw [getD_map_hom h, hlm k hk]
        have lb : b.length = d := by rw [hb, ← ha]
        have hsplit := poly_take_drop (lm.map φ) d (by rw [List.length_map, llm]; omega)
        have hlen : (lm.take d ++ List.zipWith o.add (List.zipWith o.add (lm.drop d) a) b).length = 2 * d := by
          rw [List.length_append, List.length_take, List.length_zipWith, ls1, llm, lb]; omega
        have ltk : ((lm.take d).map φ).length = d := by rw [List.length_map, List.length_take, llm]; omega
        have e2 : X ^ (2 * d) = (X ^ d * X ^ d : R[X]) := by rw [← pow_add]; congr 1; omega
        have pz : poly ((List.zipWith o.add (List.zipWith o.add (lm.drop d) a) b).map φ) =
            poly ((lm.drop d).map φ) + poly (a.map φ) + poly (b.map φ) := by
          rw [map_zipWith_add h, map_zipWith_add h,
            poly_zipWith_add _ _ (by rw [List.length_zipWith, List.length_map, List.length_map, List.length_map,
              ldrop, lb, ← hd, Nat.min_self]),
            poly_zipWith_add _ _ (by rw [List.length_map, List.length_map, ldrop, ← hd])]
        unfold mon
        rw [hlen, lb, ← hd, List.map_append, poly_append, ltk, pz, e2]
        have hAB : poly (a.map φ) * poly (b.map φ) =
            poly ((lm.take d).map φ) + X ^ d * poly ((lm.drop d).map φ) := by
          rw [← plm, hsplit, List.map_take, List.map_drop]
        have : (poly (a.map φ) + X ^ d) * (poly (b.map φ) + X ^ d) =
            poly (a.map φ) * poly (b.map φ) + X ^ d * (poly (a.map φ) + poly (b.map φ)) + X ^ d * X ^ d := by ring
        rw [this, hAB]
        ring


/-- layer `hi` is obtained from layer `lo` (nodes of `d` low coefficients) by multiplying neighbours -/
def Linked (φ : α → R) (lo hi : List (List α)) (d : Nat) : Prop :=
  lo.length = 2 * hi.length ∧ (∀ a ∈ lo, a.length = d) ∧ (∀ a ∈ hi, a.length = 2 * d) ∧
  ∀ j, j < hi.length → mon φ (hi.getD j []) = mon φ (lo.getD (2 * j) []) * mon φ (lo.getD (2 * j + 1) [])

theorem Linked.prod {φ : α → R} : ∀ (lo hi : List (List α)) (d : Nat), Linked φ lo hi d →
    (hi.map (mon φ)).prod = (lo.map (mon φ)).prod := by
  intro lo hi
  induction hi generalizing lo with
  | nil =>
    intro d ⟨h1, _, _, _⟩
    have : lo = [] := List.length_eq_zero_iff.1 (by simpa using h1)
    rw [this]
  | cons m ms ih =>
    intro d ⟨h1, h2, h3, h4⟩
    match lo, h1 with
    | a :: b :: rest, h1 =>
      have hl : Linked φ rest ms d := by
        refine ⟨by simp at h1; omega, fun x hx => h2 x (by simp [hx]), fun x hx => h3 x (by simp [hx]), ?_⟩
        intro j hj
        have := h4 (j + 1) (by simp; omega)
        simpa [Nat.mul_add, List.getD_cons_succ] using this
      have h0 := h4 0 (by simp)
      simp only [Nat.mul_zero, List.getD_cons_zero, Nat.zero_add, List.getD_cons_succ] at h0
      simp only [List.map_cons, List.prod_cons, ih rest d hl, h0]
      ring

theorem mergeLayer_spec {o : Ops α} {φ : α → R} (h : Hom o φ) (c : Ctx) (i tmplen : Nat) (hi : 1 ≤ i)
    (h62 : 2 ^ (i - 1) ≤ 2 ^ 62) (ht : 3 * 2 ^ (i - 1) ≤ tmplen) (hfit : Fits c (2 ^ (i - 1))) :
    ∀ (m : Nat) (l : List (List α)), l.length = 2 * m → (∀ a ∈ l, a.length = 2 ^ (i - 1)) →
      ∃ res, mergeLayer c o i tmplen l = some res ∧ res.length = m ∧ Linked φ l res (2 ^ (i - 1)) := by
  intro m
  induction m with
  | zero =>
    intro l hl _
    have : l = [] := List.length_eq_zero_iff.1 (by simpa using hl)
    subst this
    exact ⟨[], rfl, rfl, rfl, by simp, by simp, by simp⟩
  | succ m ih =>
    intro l hl hall
    match l, hl with
    | a :: b :: rest, hl =>
      have ha := hall a (by simp)
      have hb := hall b (by simp)
      obtain ⟨mm, em, lmm, hmm⟩ := mergeMonic_spec h c i tmplen a b hi ha hb (by rw [ha]; exact h62)
        (by rw [ha]; exact ht) (by rw [ha]; exact hfit)
      obtain ⟨res, er, lr, hr⟩ := ih rest (by simp at hl; omega) (fun x hx => hall x (by simp [hx]))
      unfold mergeLayer
      rw [em, er]
      have hpi : 2 ^ i = 2 * 2 ^ (i - 1) := by rw [← pow_succ']; congr 1; omega
      refine ⟨mm :: res, rfl, by simp [lr], by simp [lr]; omega, hall, ?_, ?_⟩
      · intro x hx
        rcases List.mem_cons.1 hx with rfl | hx
        · rw [lmm, hpi]
        · exact hr.2.2.1 x hx
      · intro j hj
        rcases j with _ | j
        · simpa using hmm
        · have := hr.2.2.2 j (by simp at hj; omega)
          simpa [Nat.mul_add, List.getD_cons_succ] using this

/-- a chain of linked layers, the first with nodes of `d` low coefficients -/
def Chain (φ : α → R) : Nat → List (List (List α)) → Prop
  | _, [] => True
  | d, [l] => ∀ a ∈ l, a.length = d
  | d, l1 :: l2 :: rest => Linked φ l1 l2 d ∧ Chain φ (2 * d) (l2 :: rest)

theorem buildLayers_spec {o : Ops α} {φ : α → R} (h : Hom o φ) (c : Ctx) (tmplen : Nat) :
    ∀ (cnt i : Nat) (prev : List (List α)), 1 ≤ i → i - 1 + cnt ≤ 62 → 3 * 2 ^ (i - 1 + cnt) ≤ 2 * tmplen →
      Fits c (2 ^ (i - 1 + cnt)) → prev.length = 2 ^ cnt → (∀ a ∈ prev, a.length = 2 ^ (i - 1)) →
      ∃ ls, buildLayers c o tmplen cnt i prev = some ls ∧ ls.length = cnt ∧
        Chain φ (2 ^ (i - 1)) (prev :: ls) ∧
        ∃ top, (prev :: ls).getLast? = some [top] ∧ top.length = 2 ^ (i - 1 + cnt) ∧
          mon φ top = (prev.map (mon φ)).prod := by
  intro cnt
  induction cnt with
  | zero =>
    intro i prev hi _ _ _ hlen hall
    match prev, hlen with
    | [top], _ =>
      refine ⟨[], rfl, rfl, hall, top, rfl, by simpa using hall top (by simp), by simp⟩
  | succ cnt ih =>
    intro i prev hi h62 ht hfit hlen hall
    have hpow : 2 ^ (cnt + 1) = 2 * 2 ^ cnt := by rw [pow_succ]; ring
    have hle : 2 ^ (i - 1) ≤ 2 ^ (i - 1 + (cnt + 1)) := Nat.pow_le_pow_right (by decide) (by omega)
    have hlt : 2 * 2 ^ (i - 1) ≤ 2 ^ (i - 1 + (cnt + 1)) := by
      rw [← pow_succ']; exact Nat.pow_le_pow_right (by decide) (by omega)
    obtain ⟨cur, ec, lc, hlk⟩ := mergeLayer_spec (φ := φ) h c i tmplen hi
      (Nat.pow_le_pow_right (by decide) (by omega)) (by omega) (hfit.mono hle) (2 ^ cnt) prev
      (by rw [hlen, hpow]) hall
    have hi' : i + 1 - 1 + cnt = i - 1 + (cnt + 1) := by omega
    have hd' : 2 ^ (i + 1 - 1) = 2 * 2 ^ (i - 1) := by
      rw [← pow_succ']; congr 1; omega
    obtain ⟨ls, el, ll, hch, top, htop, ltop, hmon⟩ := ih (i + 1) cur (by omega) (by omega)
      (by rw [hi']; exact ht) (by rw [hi']; exact hfit) lc (by rw [hd']; exact hlk.2.2.1)
    unfold buildLayers
    rw [ec]
    simp only
    rw [el]
    refine ⟨cur :: ls, rfl, by simp [ll], ⟨hlk, by rw [← hd']; exact hch⟩, top, ?_, by rw [ltop, hi'], ?_⟩
    · rw [List.getLast?_cons_cons]; exact htop
    · rw [hmon, hlk.prod]


/-- `∏ (X - r)` over the roots -/
noncomputable def rootsPoly (φ : α → R) (roots : List α) : R[X] := (roots.map fun r => X - C (φ r)).prod

theorem leaves_prod {o : Ops α} {φ : α → R} (h : Hom o φ) (roots : List α) (n : Nat) :
    (((List.range n).map fun i =>
      if i < roots.length then [o.sub o.zero (roots.getD i o.zero)] else [o.zero]).map (mon φ)).prod =
      rootsPoly φ (roots.take n) * X ^ (n - roots.length) := by
  induction n with
  | zero => simp [rootsPoly]
  | succ n ih =>
    rw [List.range_succ, List.map_append, List.map_append, List.prod_append, ih]
    simp only [List.map_cons, List.map_nil, List.prod_cons, List.prod_nil, mul_one]
    by_cases hn : n < roots.length
    · rw [if_pos hn]
      have htk : roots.take (n + 1) = roots.take n ++ [roots.getD n o.zero] := by
        rw [List.take_succ, List.getD_eq_getElem?_getD, List.getElem?_eq_getElem hn]; rfl
      have h0 : n - roots.length = 0 := by omega
      have h1 : n + 1 - roots.length = 0 := by omega
      rw [htk, h0, h1]
      simp only [rootsPoly, mon, List.map_append, List.map_cons, List.map_nil, List.prod_append, List.prod_cons,
        List.prod_nil, poly_cons, poly_nil, List.length_cons, List.length_nil, h.sub, h.zero]
      simp only [pow_zero, mul_one, zero_sub, map_neg, mul_zero, add_zero, Nat.zero_add, pow_one]
      ring
    · rw [if_neg hn]
      have htk : roots.take (n + 1) = roots.take n := by
        rw [List.take_of_length_le (by omega), List.take_of_length_le (by omega)]
      have h1 : n + 1 - roots.length = (n - roots.length) + 1 := by omega
      rw [htk, h1, pow_succ]
      simp only [mon, List.map_cons, List.map_nil, poly_cons, poly_nil, List.length_cons, List.length_nil,
        h.zero, map_zero, mul_zero, add_zero, Nat.zero_add, pow_one, zero_add]
      ring

/-- **`_product_tree`**: for `1 ≤ |roots|`, `n = 2^bitlen(|roots| - 1) ≤ 2^62` leaves and a large enough
NTT context, the layers are a chain of pairwise products starting from the leaves `x - r_i` (padded
with `x`), and the top node is `x^(n - |roots|)·∏(x - r_i)` -/
theorem productTree_spec {o : Ops α} {φ : α → R} (h : Hom o φ) (c : Ctx) (roots : List α)
    (h1 : 1 ≤ roots.length) (h62 : Ymq.Checked.bitlen (roots.length - 1) ≤ 62)
    (hfit : Fits c (2 ^ Ymq.Checked.bitlen (roots.length - 1))) :
    ∃ layers, productTree c o roots = some layers ∧
      layers.length = Ymq.Checked.bitlen (roots.length - 1) + 1 ∧ Chain φ 1 layers ∧
      ∃ top, layers.getLast? = some [top] ∧ top.length = 2 ^ Ymq.Checked.bitlen (roots.length - 1) ∧
        mon φ top = rootsPoly φ roots * X ^ (2 ^ Ymq.Checked.bitlen (roots.length - 1) - roots.length) := by
  unfold productTree
  rw [if_neg (by omega)]
  simp only
  set logn := Ymq.Checked.bitlen (roots.length - 1) with hlogn
  set n := 2 ^ logn with hn
  set layer0 := (List.range n).map fun i =>
    if i < roots.length then [o.sub o.zero (roots.getD i o.zero)] else [o.zero] with hl0
  have hnlen : roots.length ≤ n := by
    have := bitlen_lt (roots.length - 1)
    rw [← hlogn, ← hn] at this; omega
  obtain ⟨ls, el, ll, hch, top, htop, ltop, hmon⟩ := buildLayers_spec (φ := φ) h c (6 * n) logn 1 layer0
    (le_refl _) (by omega) (by simp only [Nat.sub_self, Nat.zero_add]; omega)
    (by simpa using hfit) (by simp [hl0, hn]) (by
      intro a ha
      rw [hl0, List.mem_map] at ha
      obtain ⟨i, _, rfl⟩ := ha
      split_ifs <;> rfl)
  rw [el]
  simp only [Nat.sub_self, Nat.zero_add, pow_zero] at hch ltop
  refine ⟨layer0 :: ls, rfl, by simp [ll], hch, top, htop, ltop, ?_⟩
  rw [hmon, hl0, leaves_prod h roots n, List.take_of_length_le hnlen]

/-- **`Poly::from_roots` is `∏ (x - r_i)`**: `|roots| + 1` coefficients, over any commutative ring
image of the coefficient operations. -/
theorem fromRoots_spec {o : Ops α} {φ : α → R} (h : Hom o φ) (c : Ctx) (roots : List α)
    (h1 : 1 ≤ roots.length) (h62 : Ymq.Checked.bitlen (roots.length - 1) ≤ 62)
    (hfit : Fits c (2 ^ Ymq.Checked.bitlen (roots.length - 1))) :
    ∃ z, fromRoots c o roots = some z ∧ z.length = roots.length + 1 ∧
      poly (z.map φ) = rootsPoly φ roots := by
  obtain ⟨layers, el, _, _, top, htop, ltop, hmon⟩ := productTree_spec h c roots h1 h62 hfit
  unfold fromRoots
  rw [el]
  simp only
  rw [htop]
  simp only
  set n := 2 ^ Ymq.Checked.bitlen (roots.length - 1) with hn
  have hnlen : roots.length ≤ n := by
    have := bitlen_lt (roots.length - 1)
    rw [← hn] at this; omega
  refine ⟨_, rfl, by rw [List.length_drop, List.length_append, ltop]; simp; omega, ?_⟩
  have hfull : poly ((top ++ [o.one]).map φ) = rootsPoly φ roots * X ^ (n - roots.length) := by
    rw [← hmon, mon, List.map_append, poly_append, List.length_map]
    simp [h.one]
  ext k
  rw [List.map_drop, coeff_poly_drop, hfull, ltop, mul_comm, coeff_X_pow_mul', if_pos (by omega),
    Nat.add_sub_cancel_left]

end Ymq.PolyMul
