import Ymq.Drv.Util
import Ymq.Model.Pseudoprime

namespace Ymq.Drv
open Ymq.Pseudoprime

def handlePseudoprime : Handler
  | ["pseudoprime", p] => do
    let p ← parseNat p
    -- the harness parses `p` as a 1024-bit `Uint`: anything larger is a malformed request there
    if p ≥ 2 ^ 1024 then some "?" else
    some (match pseudoprime p with | none => "panic" | some b => showBool b)
  | _ => none

end Ymq.Drv
