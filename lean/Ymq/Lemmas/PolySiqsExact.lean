/-
SIQS root tables (C12): exactness of the table entries — the quadratic case (`p ∤ A`), the
linear case (`p ∣ A`), the prime 2 for type 2 polynomials, and exactness of the stored `C`.
-/
import Ymq.Lemmas.PolySiqs
namespace Ymq.PolySiqs
open Ymq.SiqsPoly Ymq.PolyInv Ymq.PolyBits Ymq.PolyRoots

/-- the value of the polynomial at `y`: `A y² + 2B y + C` (type 1), `A y² + B y + C` (type 2) -/
def polyVal (pol : Poly) (y : Int) : Int :=
  pol.a * y ^ 2 + (if pol.type2 then pol.b else 2 * pol.b) * y + pol.c

/-- the stored coefficients are the exact ones: `a = A` and `C = (B² − n)/A` resp. `(B² − n)/(4A)` -/
def Exact (pol : Poly) (A : Nat) : Prop :=
  pol.a = (A : Int) ∧ polyM pol.type2 A * pol.c = pol.b * pol.b - pol.n

theorem rootInv_modEq {a2a : Nat} {so : Int} {q : Prime} {b : Int} {r12 : Nat × Nat}
    (h : RootInv a2a so q b r12) :
    r12.1 < q.p ∧ r12.2 < q.p ∧
    (a2a : Int) * ((r12.1 : Int) + so) + b ≡ -(q.r : Int) [ZMOD q.p] ∧
    (a2a : Int) * ((r12.2 : Int) + so) + b ≡ (q.r : Int) [ZMOD q.p] := by
  obtain ⟨h1, h2, e1, e2⟩ := h
  refine ⟨h1, h2, ?_, ?_⟩
  · apply (ZMod.intCast_eq_intCast_iff _ _ _).mp
    push_cast; exact e1
  · apply (ZMod.intCast_eq_intCast_iff _ _ _).mp
    push_cast; exact e2

theorem not_dvd_of_mod_ne {a p : Nat} (h : a % p ≠ 0) : ¬ ((p : Int) ∣ (a : Int)) := by
  intro hd
  exact h (Nat.mod_eq_zero_of_dvd (Int.natCast_dvd_natCast.mp hd))

/-- exactness for a prime that does not divide `a2a` -/
theorem exact_generic {n : Int} {fb : List Prime} {pa : APrep} {so : Int} {pol : Poly}
    (hw : WalkInv n fb pa so pol) (hex : Exact pol pa.a)
    (i : Nat) (h1 : i < fb.length) (h2 : i < pol.rs.length) (hprime : Nat.Prime fb[i].p)
    (hp31 : fb[i].p < 2 ^ 31) (hnd : a2aOf n pa.a % fb[i].p ≠ 0)
    (hsq : (fb[i].r : Int) * fb[i].r ≡ n [ZMOD fb[i].p]) (x : Int) :
    (fb[i].p : Int) ∣ polyVal pol (x + so) ↔
      (x ≡ (pol.rs[i].1 : Int) [ZMOD fb[i].p] ∨ x ≡ (pol.rs[i].2 : Int) [ZMOD fb[i].p]) := by
  obtain ⟨_, ht, hn, _, hroot⟩ := hw
  obtain ⟨_, _, e1, e2⟩ := rootInv_modEq (hroot i h1 h2 hprime hp31 hnd)
  obtain ⟨ha, hc⟩ := hex
  have hL : ¬ ((fb[i].p : Int) ∣ ((a2aOf n pa.a : Nat) : Int)) := not_dvd_of_mod_ne hnd
  rw [hn] at hc
  by_cases htyp : isType2 n = true
  · -- type 2
    have ha2 : a2aOf n pa.a = 2 * pa.a := by unfold a2aOf; rw [if_pos htyp]
    have hM : ¬ ((fb[i].p : Int) ∣ polyM pol.type2 pa.a) := by
      rw [ht, polyM, if_pos htyp]
      intro hd
      have e : (4 : Int) * (pa.a : Int) = 2 * ((2 * pa.a : Nat) : Int) := by push_cast; ring
      rw [e] at hd
      rcases int_prime_dvd_mul hprime hd with h | h
      · apply hL; rw [ha2]
        have : (fb[i].p : Int) ∣ 2 * (pa.a : Int) := Dvd.dvd.mul_right h _
        simpa using this
      · apply hL; rw [ha2]; exact h
    refine quad_roots_iff hprime (L := ((a2aOf n pa.a : Nat) : Int)) (M := polyM pol.type2 pa.a)
      (n := n) (r := (fb[i].r : Int)) (b := pol.b) ?_ hM hL hsq e1 e2
    unfold polyVal
    rw [ht, if_pos htyp, ha, ha2]
    rw [ht, polyM, if_pos htyp] at hc
    rw [polyM, if_pos htyp]
    push_cast
    linear_combination hc
  · have ha2 : a2aOf n pa.a = pa.a := by unfold a2aOf; rw [if_neg htyp]
    have hM : ¬ ((fb[i].p : Int) ∣ polyM pol.type2 pa.a) := by
      rw [ht, polyM, if_neg htyp]; rw [ha2] at hL; exact hL
    refine quad_roots_iff hprime (L := ((a2aOf n pa.a : Nat) : Int)) (M := polyM pol.type2 pa.a)
      (n := n) (r := (fb[i].r : Int)) (b := pol.b) ?_ hM hL hsq e1 e2
    unfold polyVal
    rw [ht, if_neg htyp, ha, ha2]
    rw [ht, polyM, if_neg htyp] at hc
    rw [polyM, if_neg htyp]
    linear_combination hc

theorem first_finish {s : Sieve} {pa : APrep} {pol : Poly} (h : first s pa = some pol)
    (hne : pa.factors.isEmpty = false) :
    ∃ pol0, finish s pa pol0 = some pol ∧ pol0.type2 = isType2 s.n ∧ pol0.n = s.n ∧ pol0.a = (pa.a : Int) := by
  unfold first at h
  dsimp only at h
  rw [hne] at h
  simp only [Bool.false_eq_true, if_false] at h
  split at h
  · cases h
  · split at h
    · cases h
    · exact ⟨_, h, rfl, rfl, rfl⟩

theorem next_finish {s : Sieve} {pa : APrep} {pol pol' : Poly} (h : next s pa pol = some pol') :
    ∃ pol0, finish s pa pol0 = some pol' ∧ pol0.type2 = pol.type2 ∧ pol0.n = pol.n ∧ pol0.a = pol.a := by
  unfold next at h
  dsimp only at h
  split at h
  · cases h
  · split at h
    · cases h
    · split at h
      · cases h
      · split at h
        · cases h
        · split at h
          · split at h
            · cases h
            · split at h
              · cases h
              · exact ⟨_, h, rfl, rfl, rfl⟩
          · split at h
            · cases h
            · split at h
              · cases h
              · split at h
                · cases h
                · exact ⟨_, h, rfl, rfl, rfl⟩

/-- every polynomial of a family with at least one factor comes out of `_finish_polynomial` -/
theorem polyAt_finish {n : Int} {mm : Nat} {pa : APrep} (hne : pa.factors.isEmpty = false) :
    ∀ (idx : Nat) (pol : Poly), polyAt (mkSieve n mm) pa idx = some pol →
      ∃ pol0, finish (mkSieve n mm) pa pol0 = some pol ∧ pol0.type2 = isType2 n ∧ pol0.n = n ∧
        pol0.a = (pa.a : Int) := by
  intro idx
  induction idx with
  | zero => intro pol h; exact first_finish h hne
  | succ i ih =>
    intro pol h
    simp only [polyAt] at h
    split at h
    · cases h
    · rename_i prev hprev
      obtain ⟨p0, hp0, ht0, hn0, ha0⟩ := ih prev hprev
      obtain ⟨_, _, _, _, _, _, _, ht, ha, hn⟩ := finish_some hp0
      obtain ⟨q0, hq0, ht1, hn1, ha1⟩ := next_finish h
      exact ⟨q0, hq0, by rw [ht1, ht, ht0], by rw [hn1, hn, hn0], by rw [ha1, ha, ha0]⟩

/-- exactness for an odd prime of the factor base that divides `A`: one root, stored twice -/
theorem exact_div {n : Int} {fb : List Prime} {mm : Nat} {pa : APrep} {B0 : Nat} {ds : List Nat}
    {pol0 pol : Poly} (fam : Fam n fb (mkSieve n mm).startOffset pa B0 ds)
    (hfin : finish (mkSieve n mm) pa pol0 = some pol) (hex : Exact pol pa.a)
    (i : Nat) (h1 : i < fb.length) (h2 : i < pol.rs.length) (hprime : Nat.Prime fb[i].p)
    (hdiv : a2aOf n pa.a % fb[i].p = 0) (hp2 : fb[i].p ≠ 2) (x : Int) :
    pol.rs[i].1 = pol.rs[i].2 ∧ pol.rs[i].1 < fb[i].p ∧
    ((fb[i].p : Int) ∣ polyVal pol (x + (mkSieve n mm).startOffset) ↔
      x ≡ (pol.rs[i].1 : Int) [ZMOD fb[i].p]) := by
  obtain ⟨hbpos, ha0, hdvd, _, hrs, hb, _, ht, _, hn⟩ := finish_some hfin
  obtain ⟨hl, hget⟩ := allSome_getElem hrs
  have hipp : i < pa.pps.length := by rw [fam.len]; exact h1
  obtain ⟨_, hpp, _, hdivA⟩ := mkPP_basic (fam.pp i h1 hipp)
  have hdivA' : pa.pps[i].divA = true := by rw [hdivA]; simp [hdiv, hp2]
  have hfin_i := hget i (by rw [hl]; exact h2) h2
  unfold finishRoots at hfin_i
  rw [List.getElem_zipWith, withIdx_getElem] at hfin_i
  obtain ⟨heq, hlt, hroot, hnd⟩ := finishRoot_div (hpp ▸ hprime) hdivA' hfin_i
  rw [hpp] at hlt hroot hnd
  refine ⟨heq, hlt, ?_⟩
  obtain ⟨ha, hc⟩ := hex
  -- the exact C
  set M := polyM pol0.type2 pa.a with hM
  have hM0 : M ≠ 0 := by
    rw [hM, polyM]; split <;> (have : (pa.a : Int) ≠ 0 := by exact_mod_cast ha0) <;> omega
  have hcex : pol.c = Int.tdiv (((pol0.b.toNat * pol0.b.toNat : Nat) : Int) - pol0.n) M := by
    have h3 : M * Int.tdiv (((pol0.b.toNat * pol0.b.toNat : Nat) : Int) - pol0.n) M
        = ((pol0.b.toNat * pol0.b.toNat : Nat) : Int) - pol0.n := Int.mul_tdiv_cancel' hdvd
    have hbn : ((pol0.b.toNat * pol0.b.toNat : Nat) : Int) = pol.b * pol.b := by
      rw [hb]; push_cast; rw [Int.toNat_of_nonneg (le_of_lt hbpos)]
    rw [ht, hn, ← hbn, ← h3] at hc
    exact mul_left_cancel₀ hM0 (by rw [hM]; exact hc)
  have hbN : ((pol0.b.toNat : Nat) : Int) = pol.b := by rw [hb, Int.toNat_of_nonneg (le_of_lt hbpos)]
  -- p divides A
  have hpa : (fb[i].p : Int) ∣ (pa.a : Int) := by
    have hd : fb[i].p ∣ a2aOf n pa.a := Nat.dvd_of_mod_eq_zero hdiv
    unfold a2aOf at hd
    split at hd
    · rcases (Nat.Prime.dvd_mul hprime).mp hd with h | h
      · exact absurd ((Nat.prime_dvd_prime_iff_eq hprime Nat.prime_two).mp h) hp2
      · exact Int.natCast_dvd_natCast.mpr h
    · exact Int.natCast_dvd_natCast.mpr hd
  set mult : Nat := if pol0.type2 = true then 1 else 2 with hmult
  have hLc : (if pol.type2 then pol.b else 2 * pol.b) = ((mult * pol0.b.toNat : Nat) : Int) := by
    rw [ht, hmult]; push_cast; rw [hbN]; split <;> simp
  refine lin_root_iff hprime (Lc := ((mult * pol0.b.toNat : Nat) : Int)) (C := pol.c)
    (so := (mkSieve n mm).startOffset) ?_ ?_ ?_
  · unfold polyVal
    rw [hLc]
    apply Int.modEq_iff_dvd.mpr
    have e : ((mult * pol0.b.toNat : Nat) : Int) * (x + (mkSieve n mm).startOffset) + pol.c
        - (pol.a * (x + (mkSieve n mm).startOffset) ^ 2
          + ((mult * pol0.b.toNat : Nat) : Int) * (x + (mkSieve n mm).startOffset) + pol.c)
        = -(pa.a : Int) * (x + (mkSieve n mm).startOffset) ^ 2 := by rw [ha]; ring
    rw [e]
    exact Dvd.dvd.mul_right (Int.dvd_neg.mpr hpa) _
  · intro hd; exact hnd (Int.natCast_dvd_natCast.mp hd)
  · apply (ZMod.intCast_eq_intCast_iff _ _ _).mp
    rw [hcex]
    push_cast
    push_cast at hroot
    exact hroot

theorem bitlen_lt {m k : Nat} (h : bitlen m < k) : m < 2 ^ (k - 1) := by
  unfold bitlen at h
  split at h
  · subst_vars; positivity
  · have := Nat.lt_log2_self (n := m)
    calc m < 2 ^ (m.log2 + 1) := this
      _ ≤ 2 ^ (k - 1) := Nat.pow_le_pow_right (by norm_num) (by omega)

theorem wrap256_eq {x : Int} (h : -P255 ≤ x ∧ x < P255) : wrap256 x = x := by
  unfold wrap256 P256; unfold P255 at *; omega

/-- the stored `C` is the exact one whenever the exact one fits in an `I256` -/
theorem finish_exact {s : Sieve} {pa : APrep} {pol0 pol : Poly} (h : finish s pa pol0 = some pol)
    (ha : pol0.a = (pa.a : Int))
    (hfit : -P255 ≤ (pol.b * pol.b - pol.n) / polyM pol.type2 pa.a ∧
      (pol.b * pol.b - pol.n) / polyM pol.type2 pa.a < P255) : Exact pol pa.a := by
  obtain ⟨hbpos, ha0, hdvd, hc, _, hb, _, ht, ha', hn⟩ := finish_some h
  have hbn : ((pol0.b.toNat * pol0.b.toNat : Nat) : Int) = pol.b * pol.b := by
    rw [hb]; push_cast; rw [Int.toNat_of_nonneg (le_of_lt hbpos)]
  rw [hbn, ← hn, ← ht] at hc hdvd
  have e : Int.tdiv (pol.b * pol.b - pol.n) (polyM pol.type2 pa.a)
      = (pol.b * pol.b - pol.n) / polyM pol.type2 pa.a := by
    obtain ⟨k, hk⟩ := hdvd
    have hM0 : polyM pol.type2 pa.a ≠ 0 := by
      rw [polyM]; split <;> (have : (pa.a : Int) ≠ 0 := by exact_mod_cast ha0) <;> omega
    rw [hk, Int.mul_tdiv_cancel_left _ hM0, Int.mul_ediv_cancel_left _ hM0]
  rw [e, wrap256_eq hfit] at hc
  refine ⟨by rw [ha', ha], ?_⟩
  rw [hc]
  exact Int.mul_ediv_cancel' hdvd

/-- entry `i` of the table after `_finish_polynomial` -/
theorem finish_getElem {s : Sieve} {pa : APrep} {pol0 pol : Poly} (h : finish s pa pol0 = some pol)
    (i : Nat) (h1 : i < pa.pps.length) (h2 : i < pol0.rs.length) (h3 : i < pol.rs.length) :
    finishRoot s pol0.type2 pol0.b.toNat
      (Int.tdiv (((pol0.b.toNat * pol0.b.toNat : Nat) : Int) - pol0.n) (polyM pol0.type2 pa.a))
      (i == 0) pa.pps[i] pol0.rs[i] = some pol.rs[i] := by
  obtain ⟨_, _, _, _, hrs, _⟩ := finish_some h
  obtain ⟨hl, hget⟩ := allSome_getElem hrs
  have hfin_i := hget i (by rw [hl]; exact h3) h3
  unfold finishRoots at hfin_i
  rw [List.getElem_zipWith, withIdx_getElem] at hfin_i
  simpa using hfin_i

theorem finish_len {s : Sieve} {pa : APrep} {pol0 pol : Poly} (h : finish s pa pol0 = some pol) :
    pol.rs.length = min pa.pps.length pol0.rs.length := by
  obtain ⟨_, _, _, _, hrs, _⟩ := finish_some h
  obtain ⟨hl, _⟩ := allSome_getElem hrs
  rw [← hl]; unfold finishRoots
  rw [List.length_zipWith, withIdx_length]

theorem finishRoot_two {s : Sieve} {b : Nat} {c : Int} {pp : PP} {r12 : Nat × Nat}
    (hdiv : pp.divA = false) (hp : pp.p = 2) :
    finishRoot s true b c true pp r12 = some (if c.natAbs % 2 = 0 then (0, 1) else r12) := by
  unfold finishRoot
  simp only [hdiv, hp, Bool.false_eq_true, if_false]
  by_cases hc : c.natAbs % 2 = 0 <;> simp [hc]

/-- type 2, `p = 2`: the table holds a superset of the roots (`A` odd) -/
theorem exact_two {n : Int} {fb : List Prime} {mm : Nat} {pa : APrep} {B0 : Nat} {ds : List Nat}
    {pol0 pol : Poly} (fam : Fam n fb (mkSieve n mm).startOffset pa B0 ds)
    (hfin : finish (mkSieve n mm) pa pol0 = some pol) (ht0 : pol0.type2 = true)
    (hex : Exact pol pa.a) (hbodd : pol.b % 2 = 1) (haodd : pa.a % 2 = 1)
    (h1 : 0 < fb.length) (h2 : 0 < pol.rs.length) (hp2 : fb[0].p = 2) (x : Int) :
    (2 : Int) ∣ polyVal pol (x + (mkSieve n mm).startOffset) →
      (x ≡ (pol.rs[0].1 : Int) [ZMOD 2] ∨ x ≡ (pol.rs[0].2 : Int) [ZMOD 2]) := by
  obtain ⟨hbpos, ha0, hdvd, _, _, hb, _, ht, _, hn⟩ := finish_some hfin
  have hipp : 0 < pa.pps.length := by rw [fam.len]; exact h1
  obtain ⟨_, hpp, _, hdivA⟩ := mkPP_basic (fam.pp 0 h1 hipp)
  have hdivA' : pa.pps[0].divA = false := by rw [hdivA]; simp [hp2]
  have h0 : 0 < pol0.rs.length := by have := finish_len hfin; omega
  have hfin_i := finish_getElem hfin 0 hipp h0 h2
  obtain ⟨ha, hc⟩ := hex
  -- the exact C
  set M := polyM pol0.type2 pa.a with hM
  have hM0 : M ≠ 0 := by
    rw [hM, polyM]; split <;> (have : (pa.a : Int) ≠ 0 := by exact_mod_cast ha0) <;> omega
  have hcex : pol.c = Int.tdiv (((pol0.b.toNat * pol0.b.toNat : Nat) : Int) - pol0.n) M := by
    have h3 : M * Int.tdiv (((pol0.b.toNat * pol0.b.toNat : Nat) : Int) - pol0.n) M
        = ((pol0.b.toNat * pol0.b.toNat : Nat) : Int) - pol0.n := Int.mul_tdiv_cancel' hdvd
    have hbn : ((pol0.b.toNat * pol0.b.toNat : Nat) : Int) = pol.b * pol.b := by
      rw [hb]; push_cast; rw [Int.toNat_of_nonneg (le_of_lt hbpos)]
    rw [ht, hn, ← hbn, ← h3] at hc
    exact mul_left_cancel₀ hM0 (by rw [hM]; exact hc)
  intro hdv
  rw [ht0] at hfin_i
  simp only [beq_self_eq_true] at hfin_i
  rw [finishRoot_two hdivA' (by rw [hpp, hp2])] at hfin_i
  by_cases hce : pol.c.natAbs % 2 = 0
  · -- repaired: (0, 1)
    rw [hcex] at hce
    rw [if_pos hce] at hfin_i
    have hr : pol.rs[0] = (0, 1) := (Option.some.inj hfin_i).symm
    simp only [hr]
    have : x % 2 = 0 ∨ x % 2 = 1 := by omega
    rcases this with h | h
    · left; exact h
    · right; exact h
  · -- C odd: no root
    exfalso
    unfold polyVal at hdv
    rw [ht, ht0, if_pos rfl, ha] at hdv
    have hcodd : pol.c % 2 = 1 := by omega
    have haodd' : (pa.a : Int) % 2 = 1 := by omega
    set y := x + (mkSieve n mm).startOffset with hy
    have : ((pa.a : Int) * y ^ 2 + pol.b * y + pol.c) % 2 = 1 := by
      have e : (pa.a : Int) * y ^ 2 + pol.b * y + pol.c
          = y * ((pa.a : Int) * y + pol.b) + pol.c := by ring
      rw [e]
      rcases Int.emod_two_eq_zero_or_one y with hy0 | hy1
      · have : (y * ((pa.a : Int) * y + pol.b)) % 2 = 0 := by
          rw [Int.mul_emod, hy0]; simp
        omega
      · have h4 : ((pa.a : Int) * y + pol.b) % 2 = 0 := by
          have : ((pa.a : Int) * y) % 2 = 1 := by rw [Int.mul_emod, haodd', hy1]; rfl
          omega
        have : (y * ((pa.a : Int) * y + pol.b)) % 2 = 0 := by
          rw [Int.mul_emod, h4]; simp
        omega
    omega

end Ymq.PolySiqs
