/-
C10: the hypothesis `ExactCyc` of the Kronecker model (Ymq/Lemmas/KroneckerModel.lean) is met by the
word-level model of `mulfft` (Ymq/Model/FInt.lean) for every transform word count of the dispatch
table of `convolve_modn` (`N = 2^a ≤ 256`).
-/
import Ymq.Lemmas.FIntFft
import Ymq.Lemmas.KroneckerModel

namespace Ymq.Kronecker
open Ymq.PolySpec Ymq.FInt Finset

theorem W_eq_limbs : W = Ymq.Limbs.W := rfl

theorem value_le {N : Nat} (x : FI) (hw : WfN N x) (hn : Norm x) : x.value < Fmod N := by
  unfold FI.value Fmod
  have h := Ymq.Limbs.val_lt hw.2
  rw [hw.1] at h ⊢
  rcases hn with h0 | ⟨h1, h0⟩
  · rw [h0]; omega
  · rw [h1, h0]; omega

/-- **the word-level `mulfft` is an exact cyclic product** (hypothesis `ExactCyc` of the Kronecker
model) for every `N = 2^a ≤ 256` -/
theorem cycFft_exact (N a : Nat) (hNa : N = 2 ^ a) (hN : N ≤ 256) : ExactCyc N (cycFft N) := by
  intro x y hxy hpos hle ⟨m, hm⟩ hx hy
  have hN0 : 0 < N := by rw [hNa]; exact Nat.pow_pos (by decide)
  set p1 := x.toList.map fun v => FI.mk (Ymq.Limbs.ofNat N v) 0 with hp1
  set p2 := y.toList.map fun v => FI.mk (Ymq.Limbs.ofNat N v) 0 with hp2
  have l1 : p1.length = 2 ^ m := by rw [hp1, List.length_map, Array.length_toList, hm]
  have l2 : p2.length = 2 ^ m := by rw [hp2, List.length_map, Array.length_toList, ← hxy, hm]
  have hgood : ∀ (r : Array Nat), Good N (r.toList.map fun v => FI.mk (Ymq.Limbs.ofNat N v) 0) := by
    intro r e he
    obtain ⟨v, _, rfl⟩ := List.mem_map.1 he
    exact ⟨⟨Ymq.Limbs.ofNat_length N v, Ymq.Limbs.ofNat_Wf N v⟩, Or.inl rfl⟩
  have hm16 : m ≤ 16 := by
    have : 2 ^ m ≤ 2 ^ 16 := by rw [← hm]; omega
    exact (Nat.pow_le_pow_iff_right (by decide)).1 this
  have hb : 128 * 2 ^ m * N < 2 ^ 32 := by
    have h1 : 2 ^ m ≤ 256 * 256 := by rw [← hm]; omega
    have h2 : 128 * 2 ^ m * N ≤ 128 * (256 * 256) * 256 :=
      Nat.mul_le_mul (Nat.mul_le_mul_left _ h1) hN
    omega
  have hdiv : 2 ^ m ∣ 128 * N ∨ 2 ^ m = 256 * N := by
    have h256 : 256 * N = 2 ^ (a + 8) := by rw [hNa, pow_add]; ring
    have h128 : 128 * N = 2 ^ (a + 7) := by rw [hNa, pow_add]; ring
    have hma : m ≤ a + 8 := by
      have : 2 ^ m ≤ 2 ^ (a + 8) := by rw [← hm, ← h256]; exact hle
      exact (Nat.pow_le_pow_iff_right (by decide)).1 this
    by_cases h : m = a + 8
    · right; rw [h, h256]
    · left; rw [h128]; exact pow_dvd_pow 2 (by omega)
  have hkk : kOk KFUEL N = true := by
    rw [hNa]
    exact kOk_mono (a + 1) KFUEL _ (by
      have : 2 ^ a ≤ 2 ^ 8 := by rw [← hNa]; exact hN
      have := (Nat.pow_le_pow_iff_right (by decide : 1 < 2)).1 this
      unfold KFUEL; omega) (kOk_pow2 a)
  obtain ⟨out, e, lo, go, ho⟩ := mulfft_spec hN0 hkk default m p1 p2 l1 l2 (hgood x) (hgood y) (by omega) hb hdiv
  refine ⟨(out.map FI.value).toArray, ?_, by simp [lo, hm], ?_⟩
  · unfold cycFft
    rw [← hp1, ← hp2, e]; rfl
  · intro i hi
    have hi' : i < 2 ^ m := by rw [← hm]; exact hi
    have hci : coef (out.map FI.value).toArray i = (out.getD i default).value := by
      unfold coef
      simp [Array.getD, lo, hi', List.getD_eq_getElem?_getD]
    rw [hci]
    obtain ⟨hwo, hno⟩ := go (out.getD i default) (by
      rw [List.getD_eq_getElem?_getD, List.getElem?_eq_getElem (by rw [lo]; exact hi')]
      simp)
    have hlt := value_le _ hwo hno
    have hval : ∀ (r : Array Nat), r.size = 2 ^ m → (∀ j, coef r j < W ^ N) → ∀ j, j < 2 ^ m →
        vz N ((r.toList.map fun v => FI.mk (Ymq.Limbs.ofNat N v) 0).getD j default) =
          ((coef r j : ℕ) : ZMod (Fmod N)) := by
      intro r hr hb j hj
      have hjr : j < r.size := by rw [hr]; exact hj
      have : (r.toList.map fun v => FI.mk (Ymq.Limbs.ofNat N v) 0).getD j default =
          FI.mk (Ymq.Limbs.ofNat N (coef r j)) 0 := by
        unfold coef
        simp [List.getD_eq_getElem?_getD, Array.getD, hjr]
      rw [this]
      unfold vz FI.value
      simp only [Nat.mul_zero, Nat.add_zero]
      rw [Ymq.Limbs.val_ofNat_of_lt (by rw [← W_eq_limbs]; exact hb j)]
    have hv := ho i hi'
    have hcast : ((cycCoef x.size (coef x) (coef y) i : ℕ) : ZMod (Fmod N)) =
        Ymq.Dft.cyc (2 ^ m) (fun j => vz N (p1.getD j default)) (fun j => vz N (p2.getD j default)) i := by
      rw [cycCoef_eq, hm]
      unfold cycSum Ymq.Dft.cyc
      push_cast
      apply Finset.sum_congr rfl
      intro u hu
      have hp : 0 < 2 ^ m := Nat.pow_pos (by decide)
      rw [hval x hm hx u (by simpa using hu), hval y (by rw [← hxy, hm]) hy _ (Nat.mod_lt _ hp)]
    rw [← hcast] at hv
    have hmod := (ZMod.natCast_eq_natCast_iff _ _ _).1 hv
    unfold Nat.ModEq at hmod
    rw [Nat.mod_eq_of_lt hlt] at hmod
    rw [hmod]
    rfl

theorem mem_of_lookup (k v : Nat) : ∀ l : List (Nat × Nat), l.lookup k = some v → (k, v) ∈ l
  | [], h => by simp [List.lookup] at h
  | (k', v') :: l, h => by
    rw [List.lookup_cons] at h
    by_cases hk : k == k'
    · rw [hk] at h
      simp only [Option.some.injEq] at h
      have : k = k' := by simpa using hk
      rw [this, ← h]; exact List.mem_cons_self
    · have hk' : (k == k') = false := by simpa using hk
      rw [hk'] at h
      exact List.mem_cons_of_mem _ (mem_of_lookup k v l h)

/-- every `FInt` word count of the dispatch table (regenerated from the source) is a power of two `≤ 256` -/
theorem fsize_table_ok (fsize N : Nat) (h : Ymq.Gen.Params.CONVOLVE_FSIZE_N.lookup fsize = some N) :
    (∃ a, N = 2 ^ a) ∧ N ≤ 256 := by
  have hall : ∀ r ∈ Ymq.Gen.Params.CONVOLVE_FSIZE_N, r.2 = 2 ^ r.2.log2 ∧ r.2 ≤ 256 := by decide
  obtain ⟨h1, h2⟩ := hall _ (mem_of_lookup fsize N _ h)
  exact ⟨⟨_, h1⟩, h2⟩

end Ymq.Kronecker
