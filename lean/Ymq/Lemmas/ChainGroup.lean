/-
The chain interpreters of Model/Chain.lean over an additive commutative group:
a well-formed chain `c` computes `evalChain c • P`; double-and-add computes `k • P`.
-/
import Ymq.Lemmas.Chain
import Mathlib.Algebra.Group.Basic
import Mathlib.Tactic.Ring

namespace Ymq.Chain

section Generic
variable {P E D : Type}

theorem foldOps_append (step : P → Int → Option P) (ops : List Int) (op : Int) (q : P) :
    foldOps step (ops ++ [op]) q = (foldOps step ops q).bind (fun q' => step q' op) := by
  induction ops generalizing q with
  | nil =>
    simp only [List.nil_append, foldOps, Option.bind_some]
    cases step q op <;> rfl
  | cons a r ih =>
    simp only [List.cons_append, foldOps]
    cases step q a with
    | none => rfl
    | some q' => exact ih q'

/-- the interpreter applies `chain[0]` last -/
theorem runChain_cons (toProj : E → P) (double : P → P) (dblx : P → D) (addp subp : D → E → P)
    (gaps : List E) (op : Int) (rest : List Int) (h : rest ≠ []) :
    runChain toProj double dblx addp subp gaps (op :: rest) =
      (runChain toProj double dblx addp subp gaps rest).bind
        (fun q => stepOp double dblx addp subp gaps q op) := by
  unfold runChain
  rw [List.reverse_cons]
  cases hr : rest.reverse with
  | nil => exact absurd (List.reverse_eq_nil_iff.mp hr) h
  | cons i ops =>
    simp only [List.cons_append]
    by_cases hi : i < 0
    · simp [hi]
    · simp only [hi, if_false]
      cases gaps[i.toNat / 2]? with
      | none => rfl
      | some g => exact foldOps_append _ _ _ _

theorem mkGaps_get (addext : E → E → E) (p2 : E) : ∀ (cnt : Nat) (g : E) (j : Nat), j < cnt →
    (mkGaps addext p2 cnt g)[j]? = some (Nat.rec g (fun _ x => addext x p2) j) := by
  intro cnt
  induction cnt with
  | zero => intro g j h; omega
  | succ n ih =>
    intro g j h
    cases j with
    | zero => simp [mkGaps]
    | succ j =>
      simp only [mkGaps, List.getElem?_cons_succ]
      rw [ih (addext g p2) j (by omega)]
      congr 1
      induction j with
      | zero => rfl
      | succ j ihj => simp only [ihj (by omega)]

end Generic

section Group
variable {G : Type} [AddCommGroup G]

/-- doubling as the code does it for the group law: `x + x` -/
def dbl (x : G) : G := x + x

theorem iter_dbl (n : Nat) (e : Int) (P : G) : iter dbl n (e • P) = ((2 : Int) ^ n * e) • P := by
  induction n generalizing e with
  | zero => simp [iter]
  | succ n ih =>
    have : dbl (e • P) = (2 * e) • P := by unfold dbl; rw [two_mul, add_zsmul]
    rw [iter, this, ih]
    congr 1; ring

/-- `gaps[x / 2] = x P` for every odd `x` in `[1, m]` -/
def GapsOk (gaps : List G) (P : G) (m : Int) : Prop :=
  ∀ x : Int, x % 2 = 1 → 1 ≤ x → x ≤ m → gaps[x.toNat / 2]? = some (x • P)

theorem runChain_spec (gaps : List G) (P : G) (m : Int) (hg : GapsOk gaps P m) :
    ∀ c, WF m c →
      runChain id dbl dbl (fun a b => a + b) (fun a b => a - b) gaps c = some (evalChain c • P) := by
  intro c
  induction c with
  | nil => intro h; exact absurd h (by simp [WF])
  | cons op rest ih =>
    intro hwf
    cases rest with
    | nil =>
      obtain ⟨h1, h2, h3⟩ := hwf
      have hneg : ¬ (op < 0) := by omega
      have hev : evalChain [op] = op := by unfold evalChain; omega
      simp only [runChain, List.reverse_cons, List.reverse_nil, List.nil_append, hneg, if_false,
        hg op h1 h2 h3, foldOps, id, hev]
    | cons a r =>
      have hne : (a :: r) ≠ [] := by simp
      obtain ⟨hop, hrest⟩ := (WF_cons op hne).mp hwf
      rw [runChain_cons _ _ _ _ _ _ _ _ hne, ih hrest, Option.bind_some, evalChain_cons _ hne]
      generalize evalChain (a :: r) = e
      rcases hop with ⟨h1, h2, h3⟩ | ⟨h1, h2, h3⟩
      · -- odd opcode
        have hodd : ¬ (op % 2 = 0) := by omega
        simp only [stepOp, hodd, if_false]
        by_cases hpos : op > 0
        · simp only [hpos, if_true, hg op h1 (by omega) h3]
          congr 1
          unfold dbl
          rw [add_zsmul, two_mul, add_zsmul]
        · have h128 : ¬ (op = -128) := by omega
          simp only [hpos, h128, if_false, hg (-op) (by omega) (by omega) (by omega)]
          congr 1
          unfold dbl
          rw [add_zsmul, two_mul, add_zsmul, neg_zsmul, sub_neg_eq_add]
      · -- even opcode
        simp only [stepOp, h1, if_true]
        rw [Int.tdiv_eq_ediv_of_nonneg (by omega), iter_dbl]

/-- the table of odd multiples built by `scalar64_chainmul` / `scalar1024_chainmul` -/
theorem gapsOk_mkGaps (P : G) (cnt : Nat) :
    GapsOk (mkGaps (fun a b => a + b) (dbl P) cnt (id P)) P (2 * (cnt : Int) - 1) := by
  intro x h1 h2 h3
  have hj : x.toNat / 2 < cnt := by omega
  rw [mkGaps_get _ _ _ _ _ hj]
  congr 1
  have key : ∀ j : Nat, (Nat.rec (id P) (fun _ y => y + dbl P) j : G) = ((2 * (j : Int) + 1)) • P := by
    intro j
    induction j with
    | zero => simp
    | succ j ih =>
      simp only [ih]
      have : (2 * ((j + 1 : Nat) : Int) + 1) = (2 * (j : Int) + 1) + 1 + 1 := by push_cast; ring
      rw [this]
      generalize (2 * (j : Int) + 1) = A
      rw [add_zsmul, add_zsmul, one_zsmul, add_assoc]
      rfl
  rw [key]
  congr 1
  omega

theorem dblAddLoop_spec (P : G) : ∀ (f k : Nat) (r s : Int), k < 2 ^ f →
    dblAddLoop (fun a b => a + b) dbl (f + 1) k (r • P) (s • P) = some ((r + k * s) • P) := by
  intro f
  induction f with
  | zero =>
    intro k r s hk
    have : k = 0 := by simpa using hk
    subst this
    simp [dblAddLoop]
  | succ f ih =>
    intro k r s hk
    rw [dblAddLoop]
    by_cases h0 : k = 0
    · subst h0; simp
    · simp only [h0, if_false]
      have hk2 : k / 2 < 2 ^ f := by rw [Nat.pow_succ] at hk; omega
      have hd : dbl (s • P) = (2 * s) • P := by unfold dbl; rw [two_mul, add_zsmul]
      have hkk : (k : Int) = 2 * ((k / 2 : Nat) : Int) + ((k % 2 : Nat) : Int) := by omega
      by_cases hodd : k % 2 = 1
      · simp only [hodd, if_true, hd]
        rw [← add_zsmul, ih (k / 2) (r + s) (2 * s) hk2]
        congr 2
        rw [hkk, hodd]; push_cast; ring
      · have h2 : k % 2 = 0 := by omega
        simp only [hodd, if_false, hd]
        rw [ih (k / 2) r (2 * s) hk2]
        congr 2
        rw [hkk, h2]; push_cast; ring

end Group

end Ymq.Chain
