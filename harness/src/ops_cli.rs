//! The command-line program `ymqs` itself (C03 observes "process exit status of factor() and ymqs"): the shipped
//! binary, built from the repository WITHOUT the verification cfg, run as a child process.
//!
//! `cli_build <release|chk>`            builds src/bin/ymqs.rs (chk = release + overflow checks + debug assertions)
//!                                      answer: `ok` | `build-failed <last line>`
//! `clscli_build`, `clscli <release|chk> <secs> <args...>`: the same for `ymcls` (the argument OUT = a fresh output directory;
//!                                      answer has ` files=<name:content;...>` appended)
//! `cli <release|chk> <secs> <args...>` runs it; answer: `exit=<code|sig> out=<stdout lines joined by ,|-> err=<kind>`
//!   kind = `-` (no panic) | `refused-size` (its own size panic) | `refused-parse` | `failure` (unwrap of the declared
//!          FactoringFailure) | `refused-args:<msg>` (another panic raised in src/bin/ymqs.rs itself) | `panic:<sanitised message>`
//!          (a panic raised anywhere else) | `timeout`
use std::io::Read;
use std::path::PathBuf;
use std::process::{Command, Stdio};
use std::time::{Duration, Instant};

fn repo() -> String {
    std::env::var("YMQ_REPO").unwrap_or_else(|_| "/repo".to_string())
}

fn target_dir(profile: &str) -> PathBuf {
    // <target>/<profile>/ymqh -> <target>/cli-<profile>
    let exe = std::env::current_exe().unwrap_or_else(|_| PathBuf::from("/verif/harness/target/release/ymqh"));
    let target = exe.parent().and_then(|p| p.parent()).map(|p| p.to_path_buf()).unwrap_or_else(|| PathBuf::from("/verif/harness/target"));
    target.join(format!("cli-{profile}"))
}

pub fn handle(op: &str, a: &[&str]) -> Option<String> {
    match op {
        "cli_build" | "clscli_build" => {
            let profile = *a.first()?;
            if profile != "release" && profile != "chk" {
                return None;
            }
            let bin = if op == "cli_build" { "ymqs" } else { "ymcls" };
            let mut c = Command::new("cargo");
            c.args(["build", "--release", "--offline", "--locked", "--bin", bin, "--manifest-path"])
                .arg(format!("{}/Cargo.toml", repo()))
                .env("CARGO_TARGET_DIR", target_dir(profile))
                .env("CARGO_NET_OFFLINE", "true")
                .env("RUSTFLAGS", "")
                .env_remove("CARGO_ENCODED_RUSTFLAGS")
                .current_dir("/")
                .stdout(Stdio::null())
                .stderr(Stdio::piped());
            if profile == "chk" {
                c.env("CARGO_PROFILE_RELEASE_OVERFLOW_CHECKS", "true").env("CARGO_PROFILE_RELEASE_DEBUG_ASSERTIONS", "true");
            }
            let out = c.output().ok()?;
            if out.status.success() {
                Some("ok".into())
            } else {
                let e = String::from_utf8_lossy(&out.stderr);
                Some(format!("build-failed {}", e.lines().last().unwrap_or("").replace(' ', "_")))
            }
        }
        "cli" | "clscli" => {
            let profile = *a.first()?;
            let secs: u64 = a.get(1)?.parse().ok()?;
            let bin = target_dir(profile).join("release").join(if op == "cli" { "ymqs" } else { "ymcls" });
            if !bin.exists() {
                return Some("not-built".into());
            }
            // `clscli`: the literal argument OUT is replaced by a fresh output directory, whose files are reported
            static COUNTER: std::sync::atomic::AtomicU64 = std::sync::atomic::AtomicU64::new(0);
            let mut outdir: Option<PathBuf> = None;
            let mut argv: Vec<String> = vec![];
            for x in &a[2..] {
                if op == "clscli" && *x == "OUT" {
                    let d = target_dir(profile).join(format!(
                        "clsout-{}-{}",
                        std::process::id(),
                        COUNTER.fetch_add(1, std::sync::atomic::Ordering::SeqCst)
                    ));
                    let _ = std::fs::remove_dir_all(&d);
                    std::fs::create_dir_all(&d).ok()?;
                    argv.push(d.to_string_lossy().to_string());
                    outdir = Some(d);
                } else {
                    argv.push(x.to_string());
                }
            }
            let mut child = Command::new(bin)
                .args(&argv)
                .env("RUST_BACKTRACE", "0")
                .stdin(Stdio::null())
                .stdout(Stdio::piped())
                .stderr(Stdio::piped())
                .spawn()
                .ok()?;
            // drain the pipes in threads so that a chatty child cannot block
            let mut so = child.stdout.take()?;
            let mut se = child.stderr.take()?;
            let t1 = std::thread::spawn(move || {
                let mut s = String::new();
                let _ = so.read_to_string(&mut s);
                s
            });
            let t2 = std::thread::spawn(move || {
                let mut s = Vec::new();
                let _ = se.read_to_end(&mut s);
                String::from_utf8_lossy(&s).to_string()
            });
            let start = Instant::now();
            let status = loop {
                match child.try_wait().ok()? {
                    Some(st) => break Some(st),
                    None => {
                        if start.elapsed() > Duration::from_secs(secs) {
                            let _ = child.kill();
                            let _ = child.wait();
                            break None;
                        }
                        std::thread::sleep(Duration::from_millis(5));
                    }
                }
            };
            let out = t1.join().ok()?;
            let err = t2.join().ok()?;
            let lines: Vec<&str> = out.lines().map(|l| l.trim()).filter(|l| !l.is_empty()).collect();
            let mut outs = if lines.is_empty() { "-".to_string() } else { lines.join(",").replace(' ', "_") };
            if let Some(d) = &outdir {
                // files of the output directory: name:content with newlines as `,` and spaces as `_` (relations.sieve: line count)
                let mut files = vec![];
                let mut names: Vec<_> = std::fs::read_dir(d).ok()?.filter_map(|e| e.ok()).map(|e| e.file_name().to_string_lossy().to_string()).collect();
                names.sort();
                for nm in names {
                    let content = std::fs::read_to_string(d.join(&nm)).unwrap_or_default();
                    if nm == "group.structure" || nm == "classnumber" {
                        let c: Vec<&str> = content.lines().map(|l| l.trim()).filter(|l| !l.is_empty()).collect();
                        files.push(format!("{nm}:{}", c.join(",").replace(' ', "_")));
                    } else {
                        files.push(format!("{nm}:{}lines", content.lines().count()));
                    }
                }
                let _ = std::fs::remove_dir_all(d);
                outs = format!("{outs} files={}", if files.is_empty() { "-".to_string() } else { files.join(";") });
            }
            let Some(status) = status else {
                return Some(format!("exit=timeout out={outs} err=timeout"));
            };
            let code = match status.code() {
                Some(c) => c.to_string(),
                None => {
                    use std::os::unix::process::ExitStatusExt;
                    format!("sig{}", status.signal().unwrap_or(0))
                }
            };
            // the panic message, if any: the text after "panicked at <loc>:" (next line in recent Rust)
            let mut kind = "-".to_string();
            if let Some(pos) = err.find("panicked at") {
                let rest = &err[pos..];
                let msg: String = rest.lines().skip(1).next().unwrap_or("").trim().to_string();
                let first = rest.lines().next().unwrap_or("");
                let text = if msg.is_empty() { first.to_string() } else { msg };
                kind = if text.contains("exceeds") && text.contains("bits limit") {
                    "refused-size".into()
                } else if text.contains("Discriminant must be 0 or 1 mod 4") {
                    "refused-mod4".into()
                } else if text.contains("could not read decimal number") || text.contains("could not read input number") {
                    "refused-parse".into()
                } else if text.contains("FactoringFailure") {
                    "failure".into()
                } else {
                    let s: String = text.chars().map(|c| if c.is_ascii_alphanumeric() { c } else { '_' }).take(80).collect();
                    // a panic raised by the program's own argument handling (src/bin/ymqs.rs) is a refusal of its
                    // arguments; a panic raised anywhere else is a crash of the library
                    if first.contains("src/bin/ymqs.rs") || first.contains("src/bin/ymcls.rs") {
                        format!("refused-args:{s}")
                    } else {
                        format!("panic:{s}")
                    }
                };
            } else if err.contains("stack overflow") {
                kind = "panic:stack_overflow".into();
            }
            Some(format!("exit={code} out={outs} err={kind}"))
        }
        _ => None,
    }
}
