/- Predicates used in the statements of C20 (consumer requirements read from the Rust code),
with their decision procedures.  No Mathlib. -/
import Ymq.Model.Checked
import Ymq.Gen.Params
import Ymq.Gen.Stage2

namespace Ymq.C20
open Ymq.Checked Ymq.Gen Ymq.Gen.Params

/-- what `FBase::new(n, size)` computes from `size`: `primes(2 * size + 40)` (`u32`), the sieve
bound `n * (32 - n.leading_zeros())` (`u32`) inside `primes`, and `size + 7` (`u32`). -/
def FbRequestOk (size : Nat) : Prop :=
  (Holds (fbase.candidate_count size) fun n => Holds (fbase.primes_bound n) fun _ => True) ∧
  Holds (cadd 32 size 7) fun _ => True

instance (size : Nat) : Decidable (FbRequestOk size) := by unfold FbRequestOk; infer_instance

/-- a row `(B2, d1, d2)` is usable by ECM (ecm.rs, ecm128.rs) and P+1 (pp1.rs): `6 ∣ d1`
(`assert!(d1 % 6 == 0)` in pp1; even gaps between the `b` coprime to `d1` in ecm), `bs[0] = 1`
exists (`1 < d1 / 2`), at least the two giant steps that are pushed unconditionally. -/
def RowOk (r : Nat × Nat × Nat) : Prop := r.2.1 % 6 = 0 ∧ 1 < r.2.1 / 2 ∧ 2 ≤ r.2.2

instance (r : Nat × Nat × Nat) : Decidable (RowOk r) := by unfold RowOk; infer_instance

/-- a row is usable by `pm1_stage2_polyeval`: `assert!(d1 % 6 == 0)`, `assert!(d2 & (d2 - 1) == 0)`
without underflow, `PolyRing::new(zn, d2 / 2).mzp().unwrap()` (needs `d2 / 2 ≥ FFT_THRESHOLD`),
`negsteps[i]` for `i < p.len()`: `p` has one coefficient more than there are baby steps
`b ∈ {1, 3, …, d1 + 1}` with `3 ∤ b` and `gcd(b, d1) = 1`, i.e. at most `d1 / 3 + 2` (two residues
mod 6 per block of 6, plus `d1 + 1`), which must not exceed `d2`; the NTT context built for
`d2 / 2` has `k = bitlen(d2 / 2 - 1) + 1 ≤ 32` and covers the convolution of size `d2`
(`assert!(mzp.k >= logsize)`). -/
def Pm1RowOk (r : Nat × Nat × Nat) : Prop :=
  r.2.1 % 6 = 0 ∧ 0 < r.2.2 ∧ r.2.2 &&& (r.2.2 - 1) = 0 ∧ FFT_THRESHOLD ≤ r.2.2 / 2 ∧
  r.2.1 / 3 + 2 ≤ r.2.2 ∧ bitlen (r.2.2 / 2 - 1) + 1 ≤ NTT_ROOT_LOG ∧
  Nat.log2 r.2.2 ≤ bitlen (r.2.2 / 2 - 1) + 1

instance (r : Nat × Nat × Nat) : Decidable (Pm1RowOk r) := by unfold Pm1RowOk; infer_instance

/-- requirements of `_convolve_modn::<N>(zn, size, logpack, stride, ..)` and `mulfft::<N>` on a
dispatch result `(fsize, logpack, stride)` for `bits`-bit coefficients and `size = 2^k`
(read from the code):
* `fsize` is one of the instantiated word sizes and `N = fsize / 64`;
* FFT length `l = size >> logpack`: `l ≥ 1` (`l - 1` in `mulfft`), `l ≤ 256 N` (roots available);
* unpacked (`stride = 0`): a coefficient of the product is below `size · n² < 2^(2 bits + k)`; it must
  fit the `16` words read back and the `64 N` bits of an FFT word; `16 < 3·MINT_WORDS` (`redc_large`);
* packed: each of the `2A - 1` digits of a product (`A = 2^logpack`) is below `2^(2 bits + k)` and
  must fit `stride` words; `(2A - 1) · stride ≤ N` words; the copy `stride·j .. stride·j + MINT_WORDS`
  for `j < A` stays inside the word; `stride < 3·MINT_WORDS` (`redc_large`). -/
def DispatchOk (bits k : Nat) (r : Nat × Nat × Nat) : Prop :=
  let N := r.1 / 64
  let A := 2 ^ r.2.1
  (r.1, N) ∈ CONVOLVE_FSIZE_N ∧ N * 64 = r.1 ∧
  1 ≤ 2 ^ k / A ∧ 2 ^ k / A ≤ FFT_ROOTS_PER_WORD * N ∧
  (if r.2.2 = 0 then r.2.1 = 0 ∧ 2 * bits + k ≤ 64 * 16 ∧ 2 * bits + k ≤ 64 * N ∧ 16 < 3 * MINT_WORDS
   else 2 * bits + k ≤ 64 * r.2.2 ∧ (2 * A - 1) * r.2.2 ≤ N ∧ (A - 1) * r.2.2 + MINT_WORDS ≤ N ∧
     r.2.2 < 3 * MINT_WORDS)

instance (bits k : Nat) (r : Nat × Nat × Nat) : Decidable (DispatchOk bits k r) := by
  unfold DispatchOk; infer_instance

/-- SIQS polynomials fit 256 bits (`_finish_polynomial`: `assert!(a.a.bits() + 2 * mlog < 255)`,
`assert!(pol.b.bits() + mlog < 255)`, `assert!(pol.c.abs().bits() < 255)`) for an `sz`-bit `n·k`
and interval `M`, read from the code: with `X = isqrt(2n)` (type 1; type 2 uses `isqrt(n/2)`,
smaller), `bits X = (sz + 2) / 2`; the target is `T = max(2000, X / (M/2))`, so
`bits T ≤ max(11, bits X - bits(M/2) + 1)`; `select_a` keeps `T - T/div < A < T + T/div`,
`div ≥ 3`, so `bits T - 1 ≤ bits A ≤ bits T + 1`; `0 ≤ B < A`; `|C| ≤ n / A`.
First conjunct: the bound on `A` (it implies the one on `B`); second: the bound on `C`. -/
def SiqsPolyFits (sz M : Nat) : Prop :=
  max 11 ((sz + 2) / 2 + 1 - bitlen (M / 2)) + 1 + 2 * bitlen M < 255 ∧
  sz + 2 - ((sz + 2) / 2 - bitlen (M / 2) - 1) < 255

instance (sz M : Nat) : Decidable (SiqsPolyFits sz M) := by unfold SiqsPolyFits; infer_instance

end Ymq.C20
