/-
Mechanism models of the product tree and of multipoint evaluation in src/arith_poly.rs (property
C10): `Poly::_product_tree`, `Poly::from_roots`, `Poly::_multi_eval` (Bernstein's scaled
remainder tree: `P/Q` as a series in `1/x`, then one middle product per tree edge),
`Poly::multi_eval` and `Poly::roots_eval`.

Level of detail: value level, on top of Ymq/Model/PolySeries.lean. A monic node polynomial of
degree `d` is the list of its `d` low coefficients (the code stores them in a block of `2d` slots
followed by an explicit `one`; the remaining slots hold stale data that no routine reads). A layer
is the list of its node polynomials; the remainder-tree state is the list of its blocks. Buffer
sizes enter through the scratch lengths passed to `_longmul`/`_middlemul`/`_div_mod_xn`; every
assert, slice and index of the code is a panic site (`none`).
No Mathlib import: this file is linked into the native driver.
-/
import Ymq.Model.PolySeries

namespace Ymq.PolyMul

variable {α : Type}

/-- product of the monic polynomials `x^d + a`, `x^d + b` at tree layer `i` (`d = 2^(i-1) = |a| = |b|`):
the `2d` low coefficients. `i = 1`, `i = 2` are written out in the code; above, `_longmul` of the low
parts plus `x^d·(a + b)`. -/
def mergeMonic (c : Ctx) (o : Ops α) (i tmplen : Nat) (a b : List α) : Option (List α) :=
  if i = 1 then
    some [o.mul (a.getD 0 o.zero) (b.getD 0 o.zero), o.add (a.getD 0 o.zero) (b.getD 0 o.zero)]
  else if i = 2 then
    some [o.mul (a.getD 0 o.zero) (b.getD 0 o.zero),
          o.add (o.mul (a.getD 0 o.zero) (b.getD 1 o.zero)) (o.mul (a.getD 1 o.zero) (b.getD 0 o.zero)),
          o.add (o.add (a.getD 0 o.zero) (b.getD 0 o.zero)) (o.mul (a.getD 1 o.zero) (b.getD 1 o.zero)),
          o.add (a.getD 1 o.zero) (b.getD 1 o.zero)]
  else
    let d := a.length
    match longmul c o (2 * d) tmplen a b with
    | none => none
    | some lm =>
      match zipOp o.add (lm.drop d) a with
      | none => none
      | some s1 =>
        match zipOp o.add s1 b with
        | none => none
        | some s2 => some (lm.take d ++ s2)

/-- merge the nodes of a layer pairwise -/
def mergeLayer (c : Ctx) (o : Ops α) (i tmplen : Nat) : List (List α) → Option (List (List α))
  | a :: b :: rest =>
    match mergeMonic c o i tmplen a b, mergeLayer c o i tmplen rest with
    | some m, some ms => some (m :: ms)
    | _, _ => none
  | _ => some []

/-- layers `i, i+1, …, logn` given layer `i - 1` -/
def buildLayers (c : Ctx) (o : Ops α) (tmplen : Nat) : Nat → Nat → List (List α) → Option (List (List (List α)))
  | 0, _, _ => some []
  | cnt + 1, i, prev =>
    match mergeLayer c o i tmplen prev with
    | none => none
    | some cur =>
      match buildLayers c o tmplen cnt (i + 1) cur with
      | none => none
      | some ls => some (cur :: ls)

/-- `Poly::_product_tree(zr, roots, true)`: layers `0 … logn`, `n = 2^logn ≥ |roots|` leaves
(`x - r_i`, padded with `x`) -/
def productTree (c : Ctx) (o : Ops α) (roots : List α) : Option (List (List (List α))) :=
  if roots.length = 0 then none                                     -- roots.len() - 1
  else
    let logn := Ymq.Checked.bitlen (roots.length - 1)
    let n := 2 ^ logn
    let layer0 := (List.range n).map fun i =>
      if i < roots.length then [o.sub o.zero (roots.getD i o.zero)] else [o.zero]
    (buildLayers c o (6 * n) logn 1 layer0).map fun ls => layer0 :: ls

/-- `Poly::from_roots(r, roots)`: `∏ (x - r_i)`, `|roots| + 1` coefficients -/
def fromRoots (c : Ctx) (o : Ops α) (roots : List α) : Option (List α) :=
  match productTree c o roots with
  | none => none
  | some layers =>
    match layers.getLast? with
    | some [top] =>
      -- product[n - deg .. n + 1]: the top block holds x^(n - deg)·∏(x - r_i)
      some ((top ++ [o.one]).drop (top.length - roots.length))
    | _ => none

end Ymq.PolyMul
