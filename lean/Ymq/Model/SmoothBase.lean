/-
Model of the smoothness exponent builders:

* `SmoothBase.new b1 useLarge` — `ecm::SmoothBase::new` (ecm.rs:505-579): prime source
  (`primes(b1/2)` below 65536, `PrimeSieve` blocks above), prime powers packed into `u64`
  blocks (`factors`) and 1024-bit blocks (`larges`) with the three flush rules;
* `PM1Base.new`                — `pollard_pm1::PM1Base::new` (pollard_pm1.rs:74-107);
* `Pm1.stage1 thr b1`          — the exponent blocks that stage 1 of `pollard_pm1::pm1_impl`
  (pollard_pm1.rs:276-309) passes to `exp_modn` / `exp_modn_large`, parametrised by the flush
  threshold `thr` of the 1024-bit block (the code has `1024 - 64`; before commit 2a39e49 it had
  `1024 - 32`).  The two data-dependent exits of that loop (`g == 1`, a factor found by
  `check_gcd_factors`) are not modelled: the stream is the one produced for a modulus for which
  they never fire.

`none` = a panic site of the checked profile: `u64` overflow of `pow * p`, `pow *= 16`,
`buffer *= pow`, `U1024` overflow of `buffer_lg *= buffer` (bnum panics in the checked profile and
wraps in the release profile), `1 << 64`, indexing an empty block, `assert!(b1 > 3)`.
Casts `b1 as u32` are modelled as `b1 % 2^32`.  No Mathlib import (linked into the driver).
-/
import Ymq.Model.Primes

namespace Ymq.SmoothBase
open Ymq.Primes

/-- `let mut pow = p; while pow * p < b1 { pow *= p }` in `u64`, entered with `pow = p` -/
def powBelow : Nat → Nat → Nat → Nat → Option Nat
  | 0, _, _, _ => none
  | f + 1, pow, p, b1 =>
    if pow * p ≥ 2 ^ 64 then none
    else if pow * p < b1 then powBelow f (pow * p) p b1 else some pow

/-! ### SmoothBase::new -/

/-- the `loop { let b = s.next(); primes.extend_from_slice(b); if b[b.len()-1] > b1 as u32 { break } }` -/
def sbPrimesLarge : Nat → Nat → PrimeSieve → List Nat → Option (List Nat)
  | 0, _, _, _ => none
  | f + 1, b32, ps, acc =>
    match ps.next with
    | none => none
    | some (blk, ps') =>
      match blk.getLast? with
      | none => none                                   -- b[b.len() - 1] on an empty block
      | some l => if l > b32 then some (acc ++ blk) else sbPrimesLarge f b32 ps' (acc ++ blk)

/-- the vector `primes` of `SmoothBase::new` -/
def sbPrimes (b1 : Nat) : Option (List Nat) :=
  if b1 < 65536 then primes (b1 % 2 ^ 32 / 2)
  else
    match PrimeSieve.new with
    | none => none
    | some ps => sbPrimesLarge 65537 (b1 % 2 ^ 32) ps []

/-- `factors`, `factors_lg` (most recent first), `buffer`, `buffer_lg` -/
structure St where
  factors : List Nat
  larges : List Nat
  buffer : Nat
  bufferLg : Nat
  deriving Repr

/-- `pow` after the `while` loop and the extra factors 16 (p = 2) and 3 (p = 3) -/
def powOf (b1 p : Nat) : Option Nat :=
  match powBelow 64 p p b1 with
  | none => none
  | some pow0 =>
    let pow := if p = 2 then pow0 * 16 else if p = 3 then pow0 * 3 else pow0
    if pow < 2 ^ 64 then some pow else none

/-- rule 1: `if p < 256 && buffer > 1 << 32 { factors.push(buffer); buffer = 1 }` -/
def flushSmallPrime (p : Nat) (st : St) : St :=
  if p < 256 ∧ st.buffer > 2 ^ 32 then
    { st with factors := st.buffer :: st.factors, buffer := 1 }
  else st

/-- rule 2: `if 1 << buffer.leading_zeros() <= pow { ... }` -/
def flushFull (p pow : Nat) (useLarge : Bool) (st : St) : Option St :=
  if st.buffer = 0 then none                                               -- 1 << 64
  else if 2 ^ (64 - bitlen st.buffer) ≤ pow then
    if p < 4096 ∨ useLarge = false then
      some { st with factors := st.buffer :: st.factors, buffer := 1 }
    else if st.bufferLg * st.buffer < 2 ^ 1024 then
      some { st with bufferLg := st.bufferLg * st.buffer, buffer := 1 }
    else none
  else some st

/-- rule 3: `if buffer_lg.bits() > 1024 - 64 { factors_lg.push(buffer_lg); buffer_lg = 1 }` -/
def flushLarge (st : St) : St :=
  if bitlen st.bufferLg > 1024 - 64 then
    { st with larges := st.bufferLg :: st.larges, bufferLg := 1 }
  else st

/-- `buffer *= pow` -/
def mulBuffer (pow : Nat) (st : St) : Option St :=
  if st.buffer * pow < 2 ^ 64 then some { st with buffer := st.buffer * pow } else none

/-- body of `for p in primes` after the `break` test -/
def step (b1 : Nat) (useLarge : Bool) (st : St) (p : Nat) : Option St :=
  match powOf b1 p with
  | none => none
  | some pow =>
    match flushFull p pow useLarge (flushSmallPrime p st) with
    | none => none
    | some st2 => mulBuffer pow (flushLarge st2)

def packLoop (b1 : Nat) (useLarge : Bool) : List Nat → St → Option St
  | [], st => some st
  | p :: ps, st =>
    if p ≥ b1 % 2 ^ 32 then some st                                        -- break
    else
      match step b1 useLarge st p with
      | none => none
      | some st' => packLoop b1 useLarge ps st'

/-- the code after the loop; returns (`factors`, `larges`) in push order -/
def finish (b1 : Nat) (useLarge : Bool) (st : St) : Option (List Nat × List Nat) :=
  let st1 : Option St :=
    if st.buffer > 1 then
      if b1 < 4096 ∨ useLarge = false then some { st with factors := st.buffer :: st.factors }
      else if st.bufferLg * st.buffer < 2 ^ 1024 then
        some { st with bufferLg := st.bufferLg * st.buffer }
      else none
    else some st
  match st1 with
  | none => none
  | some st1 =>
    let lg := if st1.bufferLg > 1 then st1.bufferLg :: st1.larges else st1.larges
    some (st1.factors.reverse, lg.reverse)

def st0 : St := { factors := [], larges := [], buffer := 1, bufferLg := 1 }

/-- the packing part of `SmoothBase::new` on a given list of primes -/
def pack (b1 : Nat) (useLarge : Bool) (ps : List Nat) : Option (List Nat × List Nat) :=
  match packLoop b1 useLarge ps st0 with
  | none => none
  | some st => finish b1 useLarge st

/-- `SmoothBase::new(b1, use_large)`: (`factors`, `larges`) -/
def new (b1 : Nat) (useLarge : Bool) : Option (List Nat × List Nat) :=
  match sbPrimes b1 with
  | none => none
  | some ps => pack b1 useLarge ps

end Ymq.SmoothBase

namespace Ymq.PM1Base
open Ymq.Primes Ymq.SmoothBase

/-- `factors`, `larges` (most recent first), `larges.len()`, `buffer` -/
structure St where
  factors : List Nat
  larges : List Nat
  nl : Nat
  buffer : Nat
  deriving Repr

def step (st : St) (p : Nat) : Option St :=
  if p < 500 then
    match powBelow 64 p p 1024 with
    | none => none
    | some pow =>
      if st.buffer * pow ≥ 2 ^ 64 then none
      else
        let st := if st.buffer * pow ≥ 2 ^ 32 then
            { st with factors := st.buffer % 2 ^ 32 :: st.factors, buffer := 1 }
          else st
        some { st with buffer := st.buffer * pow }
  else if st.nl < 64 * 1024 then some { st with larges := p :: st.larges, nl := st.nl + 1 }
  else some st

def loop : List Nat → St → Option St
  | [], st => some st
  | p :: ps, st =>
    match step st p with
    | none => none
    | some st' => loop ps st'

/-- the loop and final flush of `PM1Base::new` on a given list of primes -/
def pack (ps : List Nat) : Option (List Nat × List Nat) :=
  match loop ps { factors := [], larges := [], nl := 0, buffer := 1 } with
  | none => none
  | some st =>
    let f := if st.buffer > 1 then st.buffer % 2 ^ 32 :: st.factors else st.factors
    some (f.reverse, st.larges.reverse)

/-- `PM1Base::new()`: (`factors`, `larges`) -/
def new : Option (List Nat × List Nat) :=
  match primes 70000 with
  | none => none
  | some ps => pack ps

end Ymq.PM1Base

namespace Ymq.Pm1
open Ymq.Primes Ymq.SmoothBase

/-- an exponent handed to `exp_modn` (`small`, a `u64`) or `exp_modn_large` (`large`, a `U1024`) -/
inductive Ev where
  | small (e : Nat)
  | large (e : Nat)
  deriving Repr, DecidableEq

def Ev.val : Ev → Nat
  | .small e => e
  | .large e => e

/-- `expblock`, `expblock_lg`, the exponents used so far (most recent first), `p_prev` -/
structure St where
  expblock : Nat
  lg : Nat
  evs : List Ev
  pPrev : Nat
  deriving Repr

/-- "process exponent block": `if stop || 1 << expblock.leading_zeros() <= pow { ... }` -/
def flushSmall (b1 pow : Nat) (stop : Bool) (st : St) : Option St :=
  if stop = false ∧ st.expblock = 0 then none                              -- 1 << 64
  else if stop = true ∨ 2 ^ (64 - bitlen st.expblock) ≤ pow then
    if b1 < 65536 then
      some { st with evs := .small st.expblock :: st.evs, expblock := 1 }
    else if st.lg * st.expblock < 2 ^ 1024 then
      some { st with lg := st.lg * st.expblock, expblock := 1 }
    else none                                                              -- U1024 overflow
  else some st

/-- `if stop || expblock_lg.bits() > thr { exp_modn_large(expblock_lg); expblock_lg = 1 }` -/
def flushLg (thr : Nat) (stop : Bool) (st : St) : St :=
  if stop = true ∨ bitlen st.lg > thr then
    { st with evs := .large st.lg :: st.evs, lg := 1 }
  else st

/-- body of `for &p in block`; the flag says whether the loop was left by `if stop { break }` -/
def step (thr b1 : Nat) (st : St) (p : Nat) : Option (St × Bool) :=
  match powBelow 64 p p b1 with
  | none => none
  | some pow =>
    let stop := decide (p > b1)
    match flushSmall b1 pow stop st with
    | none => none
    | some st1 =>
      let st2 := flushLg thr stop st1
      let st3 := { st2 with pPrev := p % 2 ^ 32 }
      if stop then some (st3, true)
      else if st3.expblock * pow < 2 ^ 64 then
        some ({ st3 with expblock := st3.expblock * pow }, false)
      else none

def block (thr b1 : Nat) : List Nat → St → Option (St × Bool)
  | [], st => some (st, false)
  | p :: ps, st =>
    match step thr b1 st p with
    | none => none
    | some (st', true) => some (st', true)
    | some (st', false) => block thr b1 ps st'

/-- the outer `loop` over sieve blocks; running out of fuel stands for the real loop spinning
forever on the empty blocks that follow block 65535 (only when no prime `> b1` exists below 2^32) -/
def outer (thr b1 : Nat) : Nat → PrimeSieve → List Nat → St → Option (List Ev)
  | 0, _, _, _ => none
  | f + 1, ps, blk, st =>
    match block thr b1 blk st with
    | none => none
    | some (st', _) =>
      if st'.pPrev > b1 % 2 ^ 32 then some st'.evs.reverse
      else
        match ps.next with
        | none => none
        | some (blk', ps') => outer thr b1 f ps' blk' st'

def st0 : St := { expblock := 1, lg := 1, evs := [], pPrev := 1 }

/-- exponents used by stage 1 of `pm1_impl(n, b1, ..)`, in order, for flush threshold `thr` -/
def stage1 (thr b1 : Nat) : Option (List Ev) :=
  if b1 ≤ 3 then none                                                      -- assert!(b1 > 3)
  else
    match PrimeSieve.new with
    | none => none
    | some ps =>
      match ps.next with
      | none => none
      | some (blk, ps') => outer thr b1 65600 ps' blk st0

/-- the threshold in the code: `1024 - 64` -/
def THR : Nat := 1024 - 64

end Ymq.Pm1
