/-
Model of `berlekamp_massey` (src/matrix/intsparse.rs:578-701) and `berlekamp_massey_big`
(src/matrix/intsparse.rs:706-800): the linear-recurrence finder (truncated Euclid on power series)
behind the Wiedemann determinant `SparseMat::_detp4` / `detz` and the kernel `ker_pbig`.

The two Rust functions share one loop; they differ in the four closures `mulp`, `dotp`, `invp`,
`subp`, in the final scaling factor and in the presence of the two-term quotient step.  The model
follows that structure: `core` is the loop, parameterised by a record `Ops` of the closures;
`bm` instantiates it with the 64-bit Montgomery closures (Ymq/Model/Mg64.lean, Mg64Inv.lean: the
same models C06/C07 prove things about), `bmBig` with the `%`-closures over `U256`/`U512` and
`arith_gcd::inv_mod::<4>` (Ymq/Model/Gcd.lean, property C09).

Conventions: vectors are `List Nat` of length `n`; every Rust panic site (index out of range,
`unwrap` of `None`, `assert!`/`assert_eq!`/`debug_assert!`, `unreachable!()`, overflow/underflow in
the checked profile) is `none`.  Loops whose trip count is known on entry are structural
recursions on that count; the main `for _ in 0..2 * n` loop has fuel `2 * n` and running out of
it is the `unreachable!()` panic.  No Mathlib import: linked into the native driver.

Lines that differ in `berlekamp_massey_big` (everything else is the same text):
* 582-591 (`pinv`, `r`, `r2`, the `debug_assert!`) do not exist; `mulp` is `(a*b) % p` in `UU`,
  `invp` is `inv_mod(a, p).unwrap()` on `U256`, `subp` is `a - b` / `a + p - b` in `U`
  (the sum `a + p` is formed first, so it can overflow `U` when `p >= 2^255`);
* 642 `let q = invp(u[0])` (no `mg_redc`);
* 649-678: there is no two-term quotient step, only the `else` branch (679-694).
-/
import Ymq.Model.Mg64Inv
import Ymq.Model.Gcd

namespace Ymq.BM
open Ymq.Mg64

/-- the closures of the Rust function (`none` = panic) -/
structure Ops where
  /-- `mulp(a, b)` -/
  mul : Nat → Nat → Option Nat
  /-- `dotp(a, b, c, d)` -/
  dot : Nat → Nat → Nat → Nat → Option Nat
  /-- `invp(a)` -/
  inv : Nat → Option Nat
  /-- `subp(&mut a, b)`: the new value of `a` -/
  sub : Nat → Nat → Option Nat
  /-- the scaling factor `q` computed from `u[0]` at the return (line 642) -/
  fin : Nat → Option Nat
  /-- does the two-term quotient step (lines 649-677) exist -/
  two : Bool

/-- `while l[d] == 0 && d > 0 { d -= 1 }` (the index is checked on every turn) -/
def lowerDeg (l : List Nat) : Nat → Option Nat
  | 0 => do
    let _ ← l[0]?
    some 0
  | d + 1 => do
    let x ← l[d + 1]?
    if x = 0 then lowerDeg l d else some (d + 1)

/-- `subp(&mut a[i], b)` -/
def subAt (o : Ops) (a : List Nat) (i b : Nat) : Option (List Nat) := do
  let x ← a[i]?
  let y ← o.sub x b
  some (a.set i y)

/-- `for i in i0..i0+cnt { subp(&mut a[i + d], term(i)) }` -/
def axLoop (o : Ops) (term : Nat → Option Nat) (d : Nat) : Nat → Nat → List Nat → Option (List Nat)
  | 0, _, a => some a
  | c + 1, i, a => do
    let t ← term i
    let a' ← subAt o a (i + d) t
    axLoop o term d c (i + 1) a'

/-- `for i in i0..i0+cnt { if v[i] != 0 { dv = i } }` -/
def scanDeg (v : List Nat) : Nat → Nat → Nat → Option Nat
  | 0, _, dv => some dv
  | c + 1, i, dv => do
    let x ← v[i]?
    scanDeg v c (i + 1) (if x ≠ 0 then i else dv)

structure St where
  u : List Nat
  v : List Nat
  f : List Nat
  g : List Nat
  du : Nat
  dv : Nat
  df : Nat
  dg : Nat
  deriving Repr, DecidableEq

/-- lines 629-634 -/
def swapIf (s : St) : St :=
  if s.df > s.dg then
    { u := s.v, v := s.u, f := s.g, g := s.f, du := s.dv, dv := s.du, df := s.dg, dg := s.df }
  else s

/-- lines 641-646: normalise and return -/
def finish (o : Ops) (u : List Nat) : Option (List Nat) := do
  let u0 ← u[0]?
  if u0 = 0 then none                         -- assert!(u[0] != 0)
  else
    let q ← o.fin u0
    u.mapM (fun x => o.mul x q)

/-- the shape shared by lines 660-664 (`src = f`, `dst = g`, `deg = df`, where `d + df + 1 = dg`)
and 668-672 (`src = u`, `dst = v`, `deg = du`): `dst -= (q1 x + q0) x^d src` -/
def updTwo (o : Ops) (src dst : List Nat) (d deg q0 q1 : Nat) : Option (List Nat) := do
  let s0 ← src[0]?
  let t0 ← o.mul s0 q0
  let a1 ← subAt o dst d t0                    -- subp(&mut dst[d], mulp(src[0], q0))
  let a2 ← axLoop o (fun i => do               -- for i in 1..=deg
      let a ← src[i]?
      let b ← src[i - 1]?
      o.dot a q0 b q1) d deg 1 a1
  let sd ← src[deg]?
  let tl ← o.mul sd q1
  subAt o a2 (d + deg + 1) tl                  -- subp(&mut dst[d + deg + 1], mulp(src[deg], q1))

/-- the shape shared by lines 682-684 and 687-689: `dst -= q x^d src` -/
def updOne (o : Ops) (src dst : List Nat) (d deg q : Nat) : Option (List Nat) :=
  axLoop o (fun i => do                        -- for i in 0..=deg
      let a ← src[i]?
      o.mul q a) d (deg + 1) 0 dst

/-- lines 650-677: `g -= (q1 x + q0) x^d f`, `v -= (q1 x + q0) x^d u` (reached with `dg > df > 1`) -/
def stepTwo (o : Ops) (s : St) : Option St := do
  let fdf ← s.f[s.df]?
  let invf0 ← o.inv fdf
  let fdf1 ← s.f[s.df - 1]?
  let invf1 ← o.mul fdf1 invf0
  let gdg ← s.g[s.dg]?
  let q1 ← o.mul gdg invf0
  let gdg1 ← s.g[s.dg - 1]?
  let q0a ← o.mul gdg1 invf0
  let t ← o.mul q1 invf1
  let q0 ← o.sub q0a t
  let d := s.dg - s.df - 1
  let g3 ← updTwo o s.f s.g d s.df q0 q1
  let z ← g3[s.dg]?
  if z ≠ 0 then none else                      -- assert_eq!(g[dg], 0)
  let z1 ← g3[s.dg - 1]?
  if z1 ≠ 0 then none else                     -- assert_eq!(g[dg - 1], 0)
  let v3 ← updTwo o s.u s.v d s.du q0 q1
  let dv ← scanDeg v3 (s.du + d + 2 - s.dv) s.dv s.dv   -- for i in dv..=(du + d + 1)
  some { s with g := g3, v := v3, dv := dv }

/-- lines 679-694: `g -= q x^d f`, `v -= q x^d u` -/
def stepOne (o : Ops) (s : St) : Option St := do
  let gdg ← s.g[s.dg]?
  let fdf ← s.f[s.df]?
  let i0 ← o.inv fdf
  let q ← o.mul gdg i0
  let d := s.dg - s.df
  let g1 ← updOne o s.f s.g d s.df q
  let z ← g1[s.dg]?
  if z ≠ 0 then none else                      -- assert_eq!(g[dg], 0)
  let v1 ← updOne o s.u s.v d s.du q
  let dv ← scanDeg v1 (s.du + d + 1 - s.dv) s.dv s.dv   -- for i in dv..=(du + d)
  some { s with g := g1, v := v1, dv := dv }

/-- the division step followed by lines 696-698 -/
def step (o : Ops) (s : St) : Option St := do
  let s' ← if o.two ∧ s.dg > s.df ∧ s.df > 1 then stepTwo o s else stepOne o s
  let dg ← lowerDeg s'.g s'.dg
  some { s' with dg := dg }

/-- the loop `for _ in 0..2 * n` (lines 628-699) followed by `unreachable!()` -/
def mainLoop (o : Ops) (n : Nat) : Nat → St → Option (List Nat)
  | 0, _ => none                               -- unreachable!()
  | k + 1, s0 =>
    let s := swapIf s0
    if s.df < n / 2 then finish o s.u
    else
      match step o s with
      | none => none
      | some s' => mainLoop o n k s'

/-- lines 602-627: initial state; `some none` = an early `return vec![]` -/
def initSt (seq : List Nat) : Option (Option St) := do
  let n := seq.length
  let u := List.replicate n 0
  if n = 0 then none else                      -- u[0] = 1 on an empty vector
  let u := u.set 0 1
  let f := seq
  let df ← lowerDeg f (n - 1)
  let fdf ← f[df]?
  if fdf = 0 then some none else
  let v := List.replicate n 0
  if n ≤ n - df then none else                 -- v[n - df] = 1 (out of range when df = 0)
  let v := v.set (n - df) 1
  let dv := n - df
  let g := List.replicate (n - df) 0 ++ f.take df
  let dg ← lowerDeg g (n - 1)
  let gdg ← g[dg]?
  if gdg = 0 then some none else
  some (some { u, v, f, g, du := 0, dv, df, dg })

/-- lines 602-701 -/
def core (o : Ops) (seq : List Nat) : Option (List Nat) :=
  match initSt seq with
  | none => none
  | some none => some []
  | some (some s) => mainLoop o seq.length (2 * seq.length) s

/-! ### `berlekamp_massey`: Montgomery closures -/

def U128 : Nat := 340282366920938463463374607431768211456

/-- `invp = |a| mg_inv(p, pinv, r2, a).unwrap()` -/
def mgInvp (p pinv r2 a : Nat) : Option Nat :=
  match mgInv p pinv r2 a with
  | some (some r) => some r
  | _ => none

/-- `subp` of lines 592-598 on `u64` -/
def mgSubp (p a b : Nat) : Option Nat :=
  if b ≤ a then some (a - b)
  else if p < b then none                      -- p - b underflows
  else if a + (p - b) ≥ W then none            -- *a += overflows
  else some (a + (p - b))

/-- `dotp` of lines 586-589 -/
def mgDotp (p pinv a b c d : Nat) : Option Nat :=
  let s := a * b + c * d
  if s ≥ U128 then none else mgRedc p pinv s   -- u128 addition overflows

def mgOps (p pinv r2 : Nat) : Ops where
  mul := mgMul p pinv
  dot := mgDotp p pinv
  inv := mgInvp p pinv r2
  sub := mgSubp p
  fin := fun a => do
    let i ← mgInvp p pinv r2 a
    mgRedc p pinv i
  two := true

/-- `berlekamp_massey(p, seq)` in the checked profile -/
def bm (p : Nat) (seq : List Nat) : Option (List Nat) := do
  let pinv ← mg2adicInv p
  if p = 0 then none else                      -- rem_euclid by zero
  let r := W % p
  let r2 := r * r % p
  let o := mgOps p pinv r2
  let i2 ← o.inv 2                             -- debug_assert!(mulp(2, invp(2)) == r)
  let m2 ← o.mul 2 i2
  if m2 ≠ r then none else
  core o seq

/-! ### `berlekamp_massey_big::<U256, U512>` -/

def U256 : Nat := 2 ^ 256

def bigSubp (p a b : Nat) : Option Nat :=
  if a ≥ b then some (a - b)
  else if a + p ≥ U256 then none               -- *a + p overflows U
  else some (a + p - b)

def bigInvp (p a : Nat) : Option Nat :=
  match Ymq.Gcd.invMod 4 a p with
  | some (.ok x) => some x
  | _ => none                                   -- assert in inv_mod, or unwrap of Err

def bigOps (p : Nat) : Ops where
  mul := fun a b => if p = 0 then none else some (a * b % p)
  dot := fun _ _ _ _ => none                    -- not used (two = false)
  inv := bigInvp p
  sub := bigSubp p
  fin := bigInvp p
  two := false

/-- `berlekamp_massey_big::<U256, U512>(p, seq)` in the checked profile -/
def bmBig (p : Nat) (seq : List Nat) : Option (List Nat) := core (bigOps p) seq

/-! ### branch trace (driver only: evidence of branch coverage) -/

/-- number of swaps, one-term steps, two-term steps, and whether the return happened in the
first turn, along the run (stops at the first panic) -/
def trace (o : Ops) (n : Nat) : Nat → St → (Nat × Nat × Nat) → (Nat × Nat × Nat)
  | 0, _, acc => acc
  | k + 1, s0, (sw, one, two) =>
    let s := swapIf s0
    let sw' := if s0.df > s0.dg then sw + 1 else sw
    if s.df < n / 2 then (sw', one, two)
    else
      let isTwo : Bool := o.two ∧ s.dg > s.df ∧ s.df > 1
      match step o s with
      | none => (sw', one, two)
      | some s' => trace o n k s' (sw', if isTwo then one else one + 1, if isTwo then two + 1 else two)

end Ymq.BM
