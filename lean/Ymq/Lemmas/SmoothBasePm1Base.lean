/-
`PM1Base::new` (C17): the compact `u32` blocks hold, for every prime `p < 500` of the input list,
the largest power of `p` below 1024; nothing overflows.
-/
import Ymq.Lemmas.SmoothBaseTop
import Ymq.Lemmas.PrimesTop

namespace Ymq.PM1Base
open Ymq.Primes Ymq.SmoothBase

structure Inv (st : St) : Prop where
  buf_pos : 1 ≤ st.buffer
  buf_lt : st.buffer < 2 ^ 32
  f_lt : ∀ x ∈ st.factors, x < 2 ^ 32

def total (st : St) : Nat := st.factors.prod * st.buffer

theorem step_spec (st : St) (p : Nat) (h : Inv st) (hp : 2 ≤ p) (hp32 : p < 2 ^ 32) :
    ∃ st', step st p = some st' ∧ Inv st' ∧ total st ∣ total st' ∧
      (p < 500 → ∀ k, p ^ k < 1024 → p ^ k ∣ total st') := by
  unfold step
  by_cases h500 : p < 500
  · rw [if_pos h500]
    obtain ⟨j, hj, hj2, hj3⟩ := powBelow_start p 1024 hp hp32 (by norm_num)
    rw [hj]
    simp only
    have hpow : p ^ (j + 1) < 1024 := by
      rcases hj3 with h0 | h0
      · subst h0; simpa using (by omega : p < 1024)
      · exact h0
    have hpos : 1 ≤ p ^ (j + 1) := Nat.one_le_pow _ _ (by omega)
    have hmul : st.buffer * p ^ (j + 1) < 2 ^ 64 := by
      have : st.buffer * p ^ (j + 1) < 2 ^ 32 * 1024 := Nat.mul_lt_mul'' h.buf_lt hpow
      omega
    rw [if_neg (by omega)]
    have hdvd : ∀ k, p ^ k < 1024 → p ^ k ∣ p ^ (j + 1) := fun k hk => pow_dvd_of_lt hp hj2 hk
    by_cases hfl : st.buffer * p ^ (j + 1) ≥ 2 ^ 32
    · rw [if_pos hfl]
      refine ⟨_, rfl, ⟨?_, ?_, ?_⟩, ?_, ?_⟩
      · show 1 ≤ 1 * p ^ (j + 1); omega
      · show 1 * p ^ (j + 1) < 2 ^ 32; omega
      · intro x hx
        simp only [List.mem_cons] at hx
        rcases hx with rfl | hx
        · exact Nat.mod_lt _ (by norm_num)
        · exact h.f_lt x hx
      · simp only [total, List.prod_cons, Nat.mod_eq_of_lt h.buf_lt]
        exact ⟨p ^ (j + 1), by ring⟩
      · intro _ k hk
        simp only [total, List.prod_cons]
        exact Dvd.dvd.mul_left (Dvd.dvd.mul_left (hdvd k hk) 1) _
    · rw [if_neg hfl]
      refine ⟨_, rfl, ⟨?_, by show st.buffer * p ^ (j + 1) < 2 ^ 32; omega, h.f_lt⟩, ?_, ?_⟩
      · show 1 ≤ st.buffer * p ^ (j + 1)
        have : 1 * 1 ≤ st.buffer * p ^ (j + 1) := Nat.mul_le_mul h.buf_pos hpos
        simpa using this
      · simp only [total]
        exact ⟨p ^ (j + 1), by ring⟩
      · intro _ k hk
        simp only [total]
        exact Dvd.dvd.mul_left (Dvd.dvd.mul_left (hdvd k hk) _) _
  · rw [if_neg h500]
    split
    · exact ⟨_, rfl, ⟨h.buf_pos, h.buf_lt, h.f_lt⟩, dvd_refl _, fun hc => absurd hc h500⟩
    · exact ⟨_, rfl, h, dvd_refl _, fun hc => absurd hc h500⟩

theorem loop_spec : ∀ (ps : List Nat) (st : St), Inv st → (∀ p ∈ ps, 2 ≤ p ∧ p < 2 ^ 32) →
    ∃ st', loop ps st = some st' ∧ Inv st' ∧ total st ∣ total st' ∧
      ∀ p ∈ ps, p < 500 → ∀ k, p ^ k < 1024 → p ^ k ∣ total st' := by
  intro ps
  induction ps with
  | nil => intro st h _; exact ⟨st, rfl, h, dvd_refl _, by simp⟩
  | cons p ps ih =>
    intro st h hps
    obtain ⟨st1, hs1, hi1, hd1, hp1⟩ := step_spec st p h (hps p (by simp)).1 (hps p (by simp)).2
    obtain ⟨st', hs', hi', hd', hall⟩ := ih st1 hi1 (fun q hq => hps q (by simp [hq]))
    rw [loop, hs1]
    simp only
    refine ⟨st', hs', hi', dvd_trans hd1 hd', ?_⟩
    intro q hq hq500 k hk
    simp only [List.mem_cons] at hq
    rcases hq with rfl | hq
    · exact dvd_trans (hp1 hq500 k hk) hd'
    · exact hall q hq hq500 k hk

/-- the packing of `PM1Base::new` on a list of numbers `2 ≤ p < 2^32` -/
theorem pack_spec (ps : List Nat) (hps : ∀ p ∈ ps, 2 ≤ p ∧ p < 2 ^ 32) :
    ∃ f l, pack ps = some (f, l) ∧ (∀ x ∈ f, x < 2 ^ 32) ∧
      ∀ p ∈ ps, p < 500 → ∀ k, p ^ k < 1024 → p ^ k ∣ f.prod := by
  obtain ⟨st, hs, hi, _, hall⟩ := loop_spec ps { factors := [], larges := [], nl := 0, buffer := 1 }
    ⟨Nat.le_refl 1, by norm_num, by simp⟩ hps
  unfold pack
  rw [hs]
  simp only
  refine ⟨_, _, rfl, ?_, ?_⟩
  · intro x hx
    have hx := List.mem_reverse.mp hx
    split at hx
    · simp only [List.mem_cons] at hx
      rcases hx with rfl | hx
      · exact Nat.mod_lt _ (by norm_num)
      · exact hi.f_lt x hx
    · exact hi.f_lt x hx
  · intro p hp h500 k hk
    have := hall p hp h500 k hk
    rw [List.prod_reverse]
    split
    · rw [List.prod_cons, Nat.mod_eq_of_lt hi.buf_lt, Nat.mul_comm]; exact this
    · have hb : st.buffer = 1 := by have := hi.buf_pos; omega
      simpa [total, hb] using this

/-- **`PM1Base::new()`**: no panic, every block fits a `u32`, and for every prime `p < 500` each
power `p^k < 1024` divides the product of the blocks. -/
theorem new_spec :
    ∃ f l, PM1Base.new = some (f, l) ∧ (∀ x ∈ f, x < 2 ^ 32) ∧
      ∀ p k, p.Prime → p < 500 → p ^ k < 1024 → p ^ k ∣ f.prod := by
  have hb : bound 70000 = some 1190000 := by decide +kernel
  have hpr := primes_eq 70000 1190000 hb
  have hsrc : ∀ p ∈ (primesBelow (2 * (1190000 / 2))).take 70000, 2 ≤ p ∧ p < 2 ^ 32 := by
    intro p hp
    have := List.mem_of_mem_take hp
    rw [mem_primesBelow] at this
    exact ⟨this.2.two_le, by omega⟩
  obtain ⟨f, l, hpack, hf, hall⟩ := pack_spec _ hsrc
  refine ⟨f, l, by unfold PM1Base.new; rw [hpr]; exact hpack, hf, ?_⟩
  intro p k hp h500 hk
  apply hall p _ h500 k hk
  -- p is among the first 70000 primes below the bound
  rw [show 2 * (1190000 / 2) = 500 + 1189500 from rfl, primesBelow_append, List.take_append]
  apply List.mem_append_left
  have hlen := length_primesBelow_le 500
  rw [List.take_of_length_le (by omega), mem_primesBelow]
  exact ⟨h500, hp⟩

end Ymq.PM1Base
