/-
C13 helper lemmas: what `Sieve::new` and `rehash` establish — initial cursors, and bucket tables
that contain every hit `o + k·p` below the interval end of every large prime (up to the counted
overflows), starting from fresh or recycled (reset) tables.
-/
import Ymq.Lemmas.SieveCursor

namespace Ymq.Sieve

theorem modifyM_spec {α} [Inhabited α] {a a' : Array α} {i : Nat} {f : α → Option α}
    (h : modifyM a i f = some a') :
    ∃ x y, a[i]? = some x ∧ f x = some y ∧ a'.size = a.size ∧ a'[i]? = some y ∧
      ∀ j, j ≠ i → a'[j]? = a[j]? := by
  unfold modifyM at h
  split at h
  · simp at h
  rename_i x hx
  have hi : i < a.size := (Array.getElem?_eq_some_iff.1 hx).1
  split at h
  · simp at h
  rename_i y hy
  simp only [Option.some.injEq] at h
  subst h
  refine ⟨x, y, hx, hy, by simp, ?_, ?_⟩
  · simp [Array.getElem?_setIfInBounds, hi]
  · intro j hj
    rw [Array.getElem?_setIfInBounds_ne (fun e => hj e.symm), Array.getElem?_setIfInBounds_ne (fun e => hj e.symm)]

/-! ### initial cursors -/

/-- the value `new` stores in cursor slot `k`. -/
def initSlot (r1 r2 : Array Nat) (k : Nat) (v : Nat) : Prop :=
  ∃ o1 o2, r1[k / 2]? = some o1 ∧ r2[k / 2]? = some o2 ∧
    v = (if k % 2 = 0 then o1 % 65536 else if o1 ≠ o2 then o2 % 65536 else NONE)

theorem newSmallStep_spec {r1 r2 offs offs' : Array Nat} {idx : Nat}
    (h : newSmallStep r1 r2 offs idx = some offs') :
    offs.size = 2 * idx ∧ offs'.size = 2 * idx + 2 ∧ (∀ (k v : Nat), offs[k]? = some v → offs'[k]? = some v) ∧
    (∃ v, offs'[2 * idx]? = some v ∧ initSlot r1 r2 (2 * idx) v) ∧
    (∃ v, offs'[2 * idx + 1]? = some v ∧ initSlot r1 r2 (2 * idx + 1) v) := by
  unfold newSmallStep at h
  simp only [Option.bind_eq_bind, Option.bind_eq_some_iff] at h
  obtain ⟨o1, h1, o2, h2, h⟩ := h
  generalize hv : (if o1 ≠ o2 then o2 % 65536 else NONE) = v2 at h
  by_cases hsz : ((offs.push (o1 % 65536)).push v2).size ≠ 2 * idx + 2
  · simp at h
    simp only [Array.size_push] at hsz
    omega
  simp only [hsz, if_false, Option.some.injEq] at h
  subst h
  simp only [Array.size_push, ne_eq, not_not] at hsz
  have hs : offs.size = 2 * idx := by omega
  have e0 : (2 * idx) / 2 = idx := by omega
  have e1 : (2 * idx + 1) / 2 = idx := by omega
  refine ⟨hs, by simp; omega, ?_, ?_, ?_⟩
  · intro k v hk
    have hlt : k < offs.size := (Array.getElem?_eq_some_iff.1 hk).1
    rw [Array.getElem?_push, Array.getElem?_push]
    simp only [Array.size_push]
    rw [if_neg (by omega), if_neg (by omega)]
    exact hk
  · refine ⟨o1 % 65536, ?_, o1, o2, by rw [e0]; exact h1, by rw [e0]; exact h2, by simp⟩
    rw [Array.getElem?_push, Array.getElem?_push]
    simp only [Array.size_push]
    rw [if_neg (by omega), if_pos (by omega)]
  · refine ⟨v2, ?_, o1, o2, by rw [e1]; exact h1, by rw [e1]; exact h2, ?_⟩
    · rw [Array.getElem?_push]
      simp only [Array.size_push]
      rw [if_pos (by omega)]
    · have : ¬ ((2 * idx + 1) % 2 = 0) := by omega
      simp only [this, if_false]
      exact hv.symm

section New
variable {fb : FB} {r1 r2 : Array Nat} {interval : Nat}

/-- `newStep` never changes an existing cursor slot, and keeps the array within `2·nS` slots. -/
theorem newStep_offs (hfb : fb.WF) {nS : Nat} (hnS : fb.ibl[16]? = some nS)
    {st st' : Array Nat × Array Table × Array LTable} {log : Nat}
    (h : newStep fb r1 r2 interval st log = some st') :
    (∀ (k v : Nat), st.1[k]? = some v → st'.1[k]? = some v) ∧ (st.1.size ≤ 2 * nS → st'.1.size ≤ 2 * nS) ∧
    (∀ k, k < 2 * nS → (∀ p, fb.primes[k / 2]? = some p → bitlen p = log) →
      ∃ v, st'.1[k]? = some v ∧ initSlot r1 r2 k v) := by
  obtain ⟨offs, tables, ltables⟩ := st
  unfold newStep at h
  simp only [Option.bind_eq_bind, Option.bind_eq_some_iff] at h
  obtain ⟨idx1, h1, idx2, h2, h⟩ := h
  by_cases hass : ¬ (idx2 ≤ r1.size ∧ idx2 ≤ r2.size ∧ idx2 ≤ fb.primes.size)
  · simp [hass] at h
  simp only [hass, if_false, Option.pure_def, Option.bind_some] at h
  by_cases hl : log < LARGE_LOG
  · simp only [hl, if_true, Option.bind_eq_some_iff, Option.some.injEq] at h
    obtain ⟨offs', hf, rfl⟩ := h
    simp only
    have hl16 : log + 1 ≤ 16 := by simp only [LARGE_LOG] at hl; omega
    have hidx2 : idx2 ≤ nS := hfb.ibl_mono hl16 h2 hnS
    have hm : ∀ i ∈ List.range' idx1 (idx2 - idx1), idx1 ≤ i ∧ i < idx2 := by
      intro i hi; have := List.mem_range'_1.1 hi; omega
    refine ⟨?_, ?_, ?_⟩
    · intro k v hk
      exact foldlM_inv (newSmallStep r1 r2) (fun a => a[k]? = some v)
        (fun s x s' hp hs => (newSmallStep_spec hs).2.2.1 k v hp) _ _ _ hk hf
    · intro hle
      exact foldlM_inv_mem (newSmallStep r1 r2) _ (fun a => a.size ≤ 2 * nS)
        (fun s x s' hx _ hs => by
          have := (newSmallStep_spec hs).2.1
          have := (hm x hx).2
          omega) _ _ hle hf
    · intro k hk hbl
      obtain ⟨p, hp⟩ := hfb.prime_at (i := k / 2) (by have := hfb.ibl_le _ _ hnS; omega)
      have hcl := (hfb.class_of hp h1 h2).2 (hbl p hp)
      have hmem : k / 2 ∈ List.range' idx1 (idx2 - idx1) := List.mem_range'_1.2 ⟨hcl.1, by omega⟩
      refine foldlM_reach (newSmallStep r1 r2) (fun _ => True) (fun a => ∃ v, a[k]? = some v ∧ initSlot r1 r2 k v)
        (k / 2) _ hmem (fun _ _ _ _ _ _ => trivial) ?_ ?_ _ _ trivial hf
      · intro s s' _ hs
        obtain ⟨_, _, _, a0, a1⟩ := newSmallStep_spec hs
        have : k = 2 * (k / 2) ∨ k = 2 * (k / 2) + 1 := by omega
        rcases this with e | e
        · rw [← e] at a0; exact a0
        · rw [← e] at a1; exact a1
      · intro x _ s s' _ ⟨v, hv, hi⟩ hs
        exact ⟨v, (newSmallStep_spec hs).2.2.1 k v hv, hi⟩
  · simp only [hl, if_false] at h
    have hoffs : st'.1 = offs := by
      split at h
      · simp only [Option.bind_eq_some_iff, Option.some.injEq] at h
        obtain ⟨_, _, rfl⟩ := h; rfl
      · simp only [Option.bind_eq_some_iff, Option.some.injEq] at h
        obtain ⟨_, _, rfl⟩ := h; rfl
    rw [hoffs]
    refine ⟨fun _ _ h => h, fun h => h, ?_⟩
    intro k hk hbl
    exfalso
    obtain ⟨p, hp⟩ := hfb.prime_at (i := k / 2) (by have := hfb.ibl_le _ _ hnS; omega)
    have := (hfb.ibl_spec 16 (k / 2) nS p hnS hp).1 (by omega)
    have := hbl p hp
    simp only [LARGE_LOG] at hl
    omega

/-! ### bucket tables -/

/-- the hits of prime index `pidx` (prime `p`, roots from `r1`, `r2`) below `interval`. -/
def IsHit (fb : FB) (r1 r2 : Array Nat) (interval : Nat) (pidx x : Nat) : Prop :=
  ∃ p o, fb.primes[pidx]? = some p ∧ (r1[pidx]? = some o ∨ r2[pidx]? = some o) ∧ x < interval ∧ ∃ k, x = o + k * p

theorem newLargeStep_rec {t t' : Table} {pidx : Nat} (hwf : t.WF)
    (h : newLargeStep fb r1 r2 interval t pidx = some t') :
    Table.Rec t t' (fun a => a.2 = pidx % 2 ^ 32 ∧ IsHit fb r1 r2 interval pidx a.1) := by
  unfold newLargeStep at h
  simp only [Option.bind_eq_bind, Option.bind_eq_some_iff] at h
  obtain ⟨o1, h1, o2, h2, p, hp, h⟩ := h
  split at h
  · simp at h
  simp only [Option.pure_def, Option.bind_some, Option.bind_eq_some_iff] at h
  obtain ⟨offsets, ho, hf⟩ := h
  obtain ⟨c1, c2, _⟩ := largeOffsets_spec ho
  refine (Table.foldl_add_rec _ _ _ _ hwf hf).mono ?_
  rintro ⟨x, q⟩ ⟨hq, p', o, hp', hor, hx, k, hk⟩
  simp only at hq hx hk ⊢
  rw [hp] at hp'
  have := Option.some.inj hp'; subst this
  refine ⟨?_, hq⟩
  subst hk
  rcases hor with e | e
  · rw [h1] at e; have := Option.some.inj e; subst this; exact c1 k hx
  · rw [h2] at e; have := Option.some.inj e; subst this; exact c2 k hx

theorem rehashAdd_rec {t t' : Table} {pidx p : Nat} (hwf : t.WF) (hp : fb.primes[pidx]? = some p)
    (h : (do
      let o1 ← r1[pidx]?
      let o2 ← r2[pidx]?
      let offsets ← vlargeOffsets interval p o1 o2
      offsets.foldlM (fun t off => t.add off (pidx % 2 ^ 32)) t) = some t') :
    Table.Rec t t' (fun a => a.2 = pidx % 2 ^ 32 ∧ IsHit fb r1 r2 interval pidx a.1) := by
  simp only [Option.bind_eq_bind, Option.bind_eq_some_iff] at h
  obtain ⟨o1, h1, o2, h2, offsets, ho, hf⟩ := h
  obtain ⟨c1, c2, _⟩ := vlargeOffsets_spec ho
  refine (Table.foldl_add_rec _ _ _ _ hwf hf).mono ?_
  rintro ⟨x, q⟩ ⟨hq, p', o, hp', hor, hx, k, hk⟩
  simp only at hq hx hk ⊢
  rw [hp] at hp'
  have := Option.some.inj hp'; subst this
  refine ⟨?_, hq⟩
  subst hk
  rcases hor with e | e
  · rw [h1] at e; have := Option.some.inj e; subst this; exact c1 k hx
  · rw [h2] at e; have := Option.some.inj e; subst this; exact c2 k hx

/-- large tables: everything visible stays visible and the pairs of `S` are visible. -/
def LTable.Rec (t t' : LTable) (S : Nat × Nat → Prop) : Prop :=
  t'.WF ∧ (∀ o p, t.Has o p → t'.Has o p) ∧ ∀ a, S a → t'.Has a.1 (a.2 % 65536)

theorem LTable.Rec.refl (t : LTable) (h : t.WF) : LTable.Rec t t (fun _ => False) :=
  ⟨h, fun _ _ h => h, fun _ h => h.elim⟩

theorem LTable.Rec.trans {t t1 t2 : LTable} {S1 S2 : Nat × Nat → Prop}
    (h1 : LTable.Rec t t1 S1) (h2 : LTable.Rec t1 t2 S2) : LTable.Rec t t2 (fun a => S1 a ∨ S2 a) := by
  refine ⟨h2.1, fun o p h => h2.2.1 o p (h1.2.1 o p h), ?_⟩
  rintro a (ha | ha)
  · exact h2.2.1 _ _ (h1.2.2 a ha)
  · exact h2.2.2 a ha

theorem LTable.Rec.mono {t t' : LTable} {S S' : Nat × Nat → Prop} (h : LTable.Rec t t' S)
    (hs : ∀ a, S' a → S a) : LTable.Rec t t' S' :=
  ⟨h.1, h.2.1, fun a ha => h.2.2 a (hs a ha)⟩

theorem vlargeAdd_rec {t t' : LTable} {pidx p : Nat} (hwf : t.WF) (hp : fb.primes[pidx]? = some p)
    {o1 o2 : Nat} (h1 : r1[pidx]? = some o1) (h2 : r2[pidx]? = some o2) {offsets : List Nat}
    (ho : vlargeOffsets interval p o1 o2 = some offsets)
    (hf : offsets.foldlM (fun t off => t.add off pidx) t = some t') :
    LTable.Rec t t' (fun a => a.2 = pidx ∧ IsHit fb r1 r2 interval pidx a.1) := by
  obtain ⟨c1, c2, _⟩ := vlargeOffsets_spec ho
  obtain ⟨w, m, n, _⟩ := LTable.foldl_add_spec pidx offsets t t' hwf hf
  refine ⟨w, m, ?_⟩
  rintro ⟨x, q⟩ ⟨hq, p', o, hp', hor, hx, k, hk⟩
  simp only at hq hx hk ⊢
  subst hq
  rw [hp] at hp'
  have := Option.some.inj hp'; subst this
  subst hk
  rcases hor with e | e
  · rw [h1] at e; have := Option.some.inj e; subst this; exact n _ (c1 k hx)
  · rw [h2] at e; have := Option.some.inj e; subst this; exact n _ (c2 k hx)

theorem newVLargeStep_rec {t t' : LTable} {pidx : Nat} (hwf : t.WF)
    (h : newVLargeStep fb r1 r2 interval t pidx = some t') :
    LTable.Rec t t' (fun a => a.2 = pidx ∧ IsHit fb r1 r2 interval pidx a.1) := by
  unfold newVLargeStep at h
  simp only [Option.bind_eq_bind, Option.bind_eq_some_iff] at h
  obtain ⟨o1, h1, o2, h2, p, hp, h⟩ := h
  split at h
  · simp at h
  simp only [Option.pure_def, Option.bind_some, Option.bind_eq_some_iff] at h
  obtain ⟨offsets, ho, hf⟩ := h
  exact vlargeAdd_rec hwf hp h1 h2 ho hf

/-- fold of a `Rec`-step over a list of prime indices. -/
theorem foldl_rec (step : Table → Nat → Option Table) (S : Nat → Nat × Nat → Prop)
    (hstep : ∀ t t' pidx, t.WF → step t pidx = some t' → Table.Rec t t' (S pidx)) :
    ∀ (l : List Nat) (t t' : Table), t.WF → l.foldlM step t = some t' →
      Table.Rec t t' (fun a => ∃ pidx ∈ l, S pidx a) := by
  intro l
  induction l with
  | nil =>
    intro t t' hwf h
    simp at h; subst h
    exact (Table.Rec.refl t hwf).mono (by simp)
  | cons x xs ih =>
    intro t t' hwf h
    rw [List.foldlM_cons] at h
    simp only [bind, Option.bind_eq_some_iff] at h
    obtain ⟨t1, h1, h2⟩ := h
    have r1 := hstep t t1 x hwf h1
    have r2 := ih t1 t' r1.1 h2
    refine (r1.trans r2).mono ?_
    rintro a ⟨pidx, hmem, hs⟩
    rcases List.mem_cons.1 hmem with rfl | hmem
    · exact Or.inl hs
    · exact Or.inr ⟨pidx, hmem, hs⟩

theorem foldl_lrec (step : LTable → Nat → Option LTable) (S : Nat → Nat × Nat → Prop)
    (hstep : ∀ t t' pidx, t.WF → step t pidx = some t' → LTable.Rec t t' (S pidx)) :
    ∀ (l : List Nat) (t t' : LTable), t.WF → l.foldlM step t = some t' →
      LTable.Rec t t' (fun a => ∃ pidx ∈ l, S pidx a) := by
  intro l
  induction l with
  | nil =>
    intro t t' hwf h
    simp at h; subst h
    exact (LTable.Rec.refl t hwf).mono (by simp)
  | cons x xs ih =>
    intro t t' hwf h
    rw [List.foldlM_cons] at h
    simp only [bind, Option.bind_eq_some_iff] at h
    obtain ⟨t1, h1, h2⟩ := h
    have r1 := hstep t t1 x hwf h1
    have r2 := ih t1 t' r1.1 h2
    refine (r1.trans r2).mono ?_
    rintro a ⟨pidx, hmem, hs⟩
    rcases List.mem_cons.1 hmem with rfl | hmem
    · exact Or.inl hs
    · exact Or.inr ⟨pidx, hmem, hs⟩

/-- tables relative to the starting tables `T0`, `L0`: table `ti` recovers the hits of the primes of
bit length `ti + 16` whose class is in `done`; large table `li` those of bit length `li + 19`. -/
def TabRel (fb : FB) (r1 r2 : Array Nat) (interval : Nat) (T0 : Array Table) (L0 : Array LTable)
    (done : Nat → Nat → Prop) (tables : Array Table) (ltables : Array LTable) : Prop :=
  tables.size = T0.size ∧ ltables.size = L0.size ∧
  (∀ (ti : Nat) (t0 : Table), T0[ti]? = some t0 → ∃ t, tables[ti]? = some t ∧
    Table.Rec t0 t (fun a => ∃ pidx p, fb.primes[pidx]? = some p ∧ bitlen p = ti + 16 ∧ done (ti + 16) pidx ∧
      a.2 = pidx % 2 ^ 32 ∧ IsHit fb r1 r2 interval pidx a.1)) ∧
  (∀ (li : Nat) (t0 : LTable), L0[li]? = some t0 → ∃ t, ltables[li]? = some t ∧
    LTable.Rec t0 t (fun a => ∃ pidx p, fb.primes[pidx]? = some p ∧ bitlen p = li + 19 ∧ done (li + 19) pidx ∧
      a.2 = pidx ∧ IsHit fb r1 r2 interval pidx a.1))

theorem TabRel.init (T0 : Array Table) (L0 : Array LTable) (hT : ∀ (ti : Nat) (t : Table), T0[ti]? = some t → t.WF)
    (hL : ∀ (li : Nat) (t : LTable), L0[li]? = some t → t.WF) :
    TabRel fb r1 r2 interval T0 L0 (fun _ _ => False) T0 L0 := by
  refine ⟨rfl, rfl, ?_, ?_⟩
  · intro ti t0 h
    exact ⟨t0, h, (Table.Rec.refl t0 (hT ti t0 h)).mono (by rintro a ⟨_, _, _, _, hf, _⟩; exact hf)⟩
  · intro li t0 h
    exact ⟨t0, h, (LTable.Rec.refl t0 (hL li t0 h)).mono (by rintro a ⟨_, _, _, _, hf, _⟩; exact hf)⟩

theorem TabRel.mono_done {T0 : Array Table} {L0 : Array LTable} {d d' : Nat → Nat → Prop}
    {tables : Array Table} {ltables : Array LTable}
    (h : TabRel fb r1 r2 interval T0 L0 d tables ltables) (hd : ∀ l i, 16 ≤ l → d' l i → d l i) :
    TabRel fb r1 r2 interval T0 L0 d' tables ltables := by
  obtain ⟨s1, s2, hT, hL⟩ := h
  refine ⟨s1, s2, ?_, ?_⟩
  · intro ti t0 h0
    obtain ⟨t, ht, hr⟩ := hT ti t0 h0
    exact ⟨t, ht, hr.mono (by rintro a ⟨pidx, p, h1, h2, h3, h4⟩; exact ⟨pidx, p, h1, h2, hd _ _ (by omega) h3, h4⟩)⟩
  · intro li t0 h0
    obtain ⟨t, ht, hr⟩ := hL li t0 h0
    exact ⟨t, ht, hr.mono (by rintro a ⟨pidx, p, h1, h2, h3, h4⟩; exact ⟨pidx, p, h1, h2, hd _ _ (by omega) h3, h4⟩)⟩

/-- updating table `ti` by a `Rec` step whose pairs all belong to primes of bit length `ti + 16`. -/
theorem TabRel.update_table {T0 : Array Table} {L0 : Array LTable} {d d' : Nat → Nat → Prop}
    {tables tables' : Array Table} {ltables : Array LTable} {ti : Nat} {t t' : Table} {S : Nat × Nat → Prop}
    (h : TabRel fb r1 r2 interval T0 L0 d tables ltables) (hti3 : ti < 3)
    (hsz : tables'.size = tables.size) (hti : tables[ti]? = some t) (hti' : tables'[ti]? = some t')
    (hne : ∀ j, j ≠ ti → tables'[j]? = tables[j]?)
    (hrec : t.WF → Table.Rec t t' S)
    (hS : ∀ a, (∃ pidx p, fb.primes[pidx]? = some p ∧ bitlen p = ti + 16 ∧ d' (ti + 16) pidx ∧ ¬ d (ti + 16) pidx ∧
      a.2 = pidx % 2 ^ 32 ∧ IsHit fb r1 r2 interval pidx a.1) → S a)
    (hd' : ∀ l i, d' l i → ¬ d l i → l = ti + 16) :
    TabRel fb r1 r2 interval T0 L0 d' tables' ltables := by
  obtain ⟨s1, s2, hT, hL⟩ := h
  refine ⟨hsz.trans s1, s2, ?_, ?_⟩
  · intro tj t0 h0
    obtain ⟨tt, htt, hr⟩ := hT tj t0 h0
    by_cases hj : tj = ti
    · subst hj
      rw [hti] at htt
      have := Option.some.inj htt; subst this
      refine ⟨t', hti', (hr.trans (hrec hr.1)).mono ?_⟩
      rintro a ⟨pidx, p, h1, h2, h3, h4⟩
      by_cases hdd : d (tj + 16) pidx
      · exact Or.inl ⟨pidx, p, h1, h2, hdd, h4⟩
      · exact Or.inr (hS a ⟨pidx, p, h1, h2, h3, hdd, h4⟩)
    · refine ⟨tt, by rw [hne tj hj]; exact htt, hr.mono ?_⟩
      rintro a ⟨pidx, p, h1, h2, h3, h4⟩
      refine ⟨pidx, p, h1, h2, ?_, h4⟩
      by_contra hdd
      have := hd' _ _ h3 hdd
      omega
  · intro li t0 h0
    obtain ⟨tt, htt, hr⟩ := hL li t0 h0
    refine ⟨tt, htt, hr.mono ?_⟩
    rintro a ⟨pidx, p, h1, h2, h3, h4⟩
    refine ⟨pidx, p, h1, h2, ?_, h4⟩
    by_contra hdd
    have := hd' _ _ h3 hdd
    omega

theorem TabRel.update_ltable {T0 : Array Table} {L0 : Array LTable} {d d' : Nat → Nat → Prop}
    {tables : Array Table} {ltables ltables' : Array LTable} {li : Nat} {t t' : LTable} {S : Nat × Nat → Prop}
    (h : TabRel fb r1 r2 interval T0 L0 d tables ltables) (hT3 : T0.size ≤ 3)
    (hsz : ltables'.size = ltables.size) (hli : ltables[li]? = some t) (hli' : ltables'[li]? = some t')
    (hne : ∀ j, j ≠ li → ltables'[j]? = ltables[j]?)
    (hrec : t.WF → LTable.Rec t t' S)
    (hS : ∀ a, (∃ pidx p, fb.primes[pidx]? = some p ∧ bitlen p = li + 19 ∧ d' (li + 19) pidx ∧ ¬ d (li + 19) pidx ∧
      a.2 = pidx ∧ IsHit fb r1 r2 interval pidx a.1) → S a)
    (hd' : ∀ l i, d' l i → ¬ d l i → l = li + 19) :
    TabRel fb r1 r2 interval T0 L0 d' tables ltables' := by
  obtain ⟨s1, s2, hT, hL⟩ := h
  refine ⟨s1, hsz.trans s2, ?_, ?_⟩
  · intro tj t0 h0
    have htj : tj < 3 := by
      have := (Array.getElem?_eq_some_iff.1 h0).1
      omega
    obtain ⟨tt, htt, hr⟩ := hT tj t0 h0
    refine ⟨tt, htt, hr.mono ?_⟩
    rintro a ⟨pidx, p, h1, h2, h3, h4⟩
    refine ⟨pidx, p, h1, h2, ?_, h4⟩
    by_contra hdd
    have := hd' _ _ h3 hdd
    omega
  · intro lj t0 h0
    obtain ⟨tt, htt, hr⟩ := hL lj t0 h0
    by_cases hj : lj = li
    · subst hj
      rw [hli] at htt
      have := Option.some.inj htt; subst this
      refine ⟨t', hli', (hr.trans (hrec hr.1)).mono ?_⟩
      rintro a ⟨pidx, p, h1, h2, h3, h4⟩
      by_cases hdd : d (lj + 19) pidx
      · exact Or.inl ⟨pidx, p, h1, h2, hdd, h4⟩
      · exact Or.inr (hS a ⟨pidx, p, h1, h2, h3, hdd, h4⟩)
    · refine ⟨tt, by rw [hne lj hj]; exact htt, hr.mono ?_⟩
      rintro a ⟨pidx, p, h1, h2, h3, h4⟩
      refine ⟨pidx, p, h1, h2, ?_, h4⟩
      by_contra hdd
      have := hd' _ _ h3 hdd
      omega

/-- the primes of class `log` (index range given by `idx_by_log`). -/
def InClass (fb : FB) (log i : Nat) : Prop :=
  ∃ v v', fb.ibl[log]? = some v ∧ fb.ibl[log + 1]? = some v' ∧ v ≤ i ∧ i < v'

theorem newStep_tab {T0 : Array Table} {L0 : Array LTable} (hT3 : T0.size ≤ 3) {d : Nat → Nat → Prop}
    {st st' : Array Nat × Array Table × Array LTable} {log : Nat}
    (hrel : TabRel fb r1 r2 interval T0 L0 d st.2.1 st.2.2)
    (h : newStep fb r1 r2 interval st log = some st') :
    TabRel fb r1 r2 interval T0 L0 (fun l i => d l i ∨ (l = log ∧ InClass fb log i)) st'.2.1 st'.2.2 := by
  obtain ⟨offs, tables, ltables⟩ := st
  simp only at hrel
  unfold newStep at h
  simp only [Option.bind_eq_bind, Option.bind_eq_some_iff] at h
  obtain ⟨idx1, h1, idx2, h2, h⟩ := h
  by_cases hass : ¬ (idx2 ≤ r1.size ∧ idx2 ≤ r2.size ∧ idx2 ≤ fb.primes.size)
  · simp [hass] at h
  simp only [hass, if_false, Option.pure_def, Option.bind_some] at h
  by_cases hl : log < LARGE_LOG
  · simp only [hl, if_true, Option.bind_eq_some_iff, Option.some.injEq] at h
    obtain ⟨offs', _, rfl⟩ := h
    simp only
    refine hrel.mono_done ?_
    rintro l i hl16 (hd | ⟨rfl, _⟩)
    · exact hd
    · simp only [LARGE_LOG] at hl; omega
  · simp only [hl, if_false] at h
    by_cases hv : log < VLARGE_LOG
    · simp only [hv, if_true, Option.bind_eq_some_iff, Option.some.injEq] at h
      obtain ⟨tables', hm, rfl⟩ := h
      simp only
      obtain ⟨x, y, hx, hf, hsz, hy, hne⟩ := modifyM_spec hm
      simp only [LARGE_LOG, VLARGE_LOG] at hl hv
      have hrec : x.WF → Table.Rec x y (fun a => ∃ pidx ∈ List.range' idx1 (idx2 - idx1),
          a.2 = pidx % 2 ^ 32 ∧ IsHit fb r1 r2 interval pidx a.1) :=
        fun hwf => foldl_rec (newLargeStep fb r1 r2 interval) _
          (fun t t' pidx hw hs => newLargeStep_rec hw hs) _ _ _ hwf hf
      refine hrel.update_table (ti := log - LARGE_LOG) (by simp only [LARGE_LOG]; omega) hsz hx hy hne hrec ?_ ?_
      · rintro a ⟨pidx, p, hp, hb, hd', hnd, ha⟩
        have e : log - LARGE_LOG + 16 = log := by simp only [LARGE_LOG]; omega
        rw [e] at hd'
        rcases hd' with hd' | ⟨_, v, v', hv1, hv2, hle, hlt⟩
        · rw [e] at hnd; exact absurd hd' hnd
        · rw [h1] at hv1; rw [h2] at hv2
          have := Option.some.inj hv1; subst this
          have := Option.some.inj hv2; subst this
          exact ⟨pidx, List.mem_range'_1.2 ⟨hle, by omega⟩, ha⟩
      · rintro l i (hd' | ⟨rfl, _⟩) hnd
        · exact absurd hd' hnd
        · simp only [LARGE_LOG]; omega
    · simp only [hv, if_false, Option.bind_eq_some_iff, Option.some.injEq] at h
      obtain ⟨ltables', hm, rfl⟩ := h
      simp only
      obtain ⟨x, y, hx, hf, hsz, hy, hne⟩ := modifyM_spec hm
      simp only [LARGE_LOG, VLARGE_LOG] at hl hv
      have hrec : x.WF → LTable.Rec x y (fun a => ∃ pidx ∈ List.range' idx1 (idx2 - idx1),
          a.2 = pidx ∧ IsHit fb r1 r2 interval pidx a.1) :=
        fun hwf => foldl_lrec (newVLargeStep fb r1 r2 interval) _
          (fun t t' pidx hw hs => newVLargeStep_rec hw hs) _ _ _ hwf hf
      refine hrel.update_ltable (li := log - VLARGE_LOG) hT3 hsz hx hy hne hrec ?_ ?_
      · rintro a ⟨pidx, p, hp, hb, hd', hnd, ha⟩
        have e : log - VLARGE_LOG + 19 = log := by simp only [VLARGE_LOG]; omega
        rw [e] at hd'
        rcases hd' with hd' | ⟨_, v, v', hv1, hv2, hle, hlt⟩
        · rw [e] at hnd; exact absurd hd' hnd
        · rw [h1] at hv1; rw [h2] at hv2
          have := Option.some.inj hv1; subst this
          have := Option.some.inj hv2; subst this
          exact ⟨pidx, List.mem_range'_1.2 ⟨hle, by omega⟩, ha⟩
      · rintro l i (hd' | ⟨rfl, _⟩) hnd
        · exact absurd hd' hnd
        · simp only [VLARGE_LOG]; omega

/-- tables after the whole loop over size classes. -/
theorem newFold_tab {T0 : Array Table} {L0 : Array LTable} (hT3 : T0.size ≤ 3)
    (hT : ∀ (ti : Nat) (t : Table), T0[ti]? = some t → t.WF) (hL : ∀ (li : Nat) (t : LTable), L0[li]? = some t → t.WF)
    {n : Nat} {offs0 : Array Nat} {st' : Array Nat × Array Table × Array LTable}
    (h : (List.range' 0 n).foldlM (newStep fb r1 r2 interval) (offs0, T0, L0) = some st') :
    TabRel fb r1 r2 interval T0 L0 (fun l i => l < n ∧ InClass fb l i) st'.2.1 st'.2.2 := by
  have := foldlM_prefix (newStep fb r1 r2 interval)
    (fun pre st => TabRel fb r1 r2 interval T0 L0 (fun l i => l ∈ pre ∧ InClass fb l i) st.2.1 st.2.2)
    (List.range' 0 n)
    (fun pre x s s' _ hp hs => (newStep_tab hT3 hp hs).mono_done (by
      rintro l i _ ⟨hm, hc⟩
      rcases List.mem_append.1 hm with hm | hm
      · exact Or.inl ⟨hm, hc⟩
      · simp only [List.mem_singleton] at hm
        subst hm; exact Or.inr ⟨rfl, hc⟩))
    (List.range' 0 n) (fun _ h => h) [] (offs0, T0, L0) st'
    ((TabRel.init T0 L0 hT hL).mono_done (by rintro l i _ ⟨hm, _⟩; simp at hm)) h
  refine this.mono_done ?_
  rintro l i _ ⟨hl, hc⟩
  exact ⟨by simp only [List.nil_append]; exact List.mem_range'_1.2 ⟨by omega, by omega⟩, hc⟩

end New

end Ymq.Sieve
