/-
Root sets of quadratic / linear polynomials modulo a prime (generic part of C12):
used by the SIQS, MPQS and classical-sieve exactness theorems.
-/
import Mathlib.Tactic.Ring
import Mathlib.Tactic.Linarith
import Mathlib.Tactic.LinearCombination
import Mathlib.Data.Int.ModEq
import Mathlib.Data.Nat.Prime.Basic
import Mathlib.Data.Nat.Prime.Int

namespace Ymq.PolyRoots

theorem int_prime_dvd_mul {p : Nat} (hp : Nat.Prime p) {a b : Int} (h : (p : Int) ∣ a * b) :
    (p : Int) ∣ a ∨ (p : Int) ∣ b :=
  (Nat.prime_iff_prime_int.mp hp).dvd_or_dvd h

/-- Root set of a quadratic whose `M`-multiple is a difference of squares:
`M·Pv = (L·(x+so)+b)² − n`, `p ∤ M`, `p ∤ L`, `r² ≡ n`; the table entries satisfy
`L(r1+so)+b ≡ −r`, `L(r2+so)+b ≡ r`.  Then `p ∣ Pv ⟺ x ≡ r1 ∨ x ≡ r2 (mod p)`. -/
theorem quad_roots_iff {p : Nat} (hp : Nat.Prime p) {L M n r Pv x r1 r2 so b : Int}
    (hLP : M * Pv = (L * (x + so) + b) ^ 2 - n)
    (hM : ¬ (p : Int) ∣ M) (hL : ¬ (p : Int) ∣ L)
    (hr : r * r ≡ n [ZMOD p])
    (h1 : L * (r1 + so) + b ≡ -r [ZMOD p]) (h2 : L * (r2 + so) + b ≡ r [ZMOD p]) :
    (p : Int) ∣ Pv ↔ (x ≡ r1 [ZMOD p] ∨ x ≡ r2 [ZMOD p]) := by
  have hn : (p : Int) ∣ n - r * r := Int.modEq_iff_dvd.mp hr
  have d1 : (p : Int) ∣ -r - (L * (r1 + so) + b) := Int.modEq_iff_dvd.mp h1
  have d2 : (p : Int) ∣ r - (L * (r2 + so) + b) := Int.modEq_iff_dvd.mp h2
  constructor
  · intro h
    have h3 : (p : Int) ∣ (L * (x + so) + b - r) * (L * (x + so) + b + r) := by
      have e : (L * (x + so) + b - r) * (L * (x + so) + b + r) = M * Pv + (n - r * r) := by
        rw [hLP]; ring
      rw [e]; exact Int.dvd_add (Dvd.dvd.mul_left h _) hn
    rcases int_prime_dvd_mul hp h3 with h4 | h4
    · right
      have : (p : Int) ∣ L * (x - r2) := by
        have e : L * (x - r2) = (L * (x + so) + b - r) + (r - (L * (r2 + so) + b)) := by ring
        rw [e]; exact Int.dvd_add h4 d2
      rcases int_prime_dvd_mul hp this with h5 | h5
      · exact absurd h5 hL
      · exact (Int.modEq_iff_dvd.mpr h5).symm
    · left
      have : (p : Int) ∣ L * (x - r1) := by
        have e : L * (x - r1) = (L * (x + so) + b + r) + (-r - (L * (r1 + so) + b)) := by ring
        rw [e]; exact Int.dvd_add h4 d1
      rcases int_prime_dvd_mul hp this with h5 | h5
      · exact absurd h5 hL
      · exact (Int.modEq_iff_dvd.mpr h5).symm
  · intro h
    have h3 : (p : Int) ∣ M * Pv := by
      rcases h with h | h
      · have hx : (p : Int) ∣ r1 - x := Int.modEq_iff_dvd.mp h
        have h4 : (p : Int) ∣ L * (x + so) + b + r := by
          have e : L * (x + so) + b + r = -(L * (r1 - x)) - (-r - (L * (r1 + so) + b)) := by ring
          rw [e]; exact Int.dvd_sub (Int.dvd_neg.mpr (Dvd.dvd.mul_left hx _)) d1
        have e : M * Pv = (L * (x + so) + b + r) * (L * (x + so) + b - r) - (n - r * r) := by
          rw [hLP]; ring
        rw [e]; exact Int.dvd_sub (Dvd.dvd.mul_right h4 _) hn
      · have hx : (p : Int) ∣ r2 - x := Int.modEq_iff_dvd.mp h
        have h4 : (p : Int) ∣ L * (x + so) + b - r := by
          have e : L * (x + so) + b - r = -(L * (r2 - x)) - (r - (L * (r2 + so) + b)) := by ring
          rw [e]; exact Int.dvd_sub (Int.dvd_neg.mpr (Dvd.dvd.mul_left hx _)) d2
        have e : M * Pv = (L * (x + so) + b - r) * (L * (x + so) + b + r) - (n - r * r) := by
          rw [hLP]; ring
        rw [e]; exact Int.dvd_sub (Dvd.dvd.mul_right h4 _) hn
    rcases int_prime_dvd_mul hp h3 with h5 | h5
    · exact absurd h5 hM
    · exact h5

/-- Root of a polynomial that is linear modulo `p`: `Pv ≡ Lc·(x+so) + C (mod p)`, `p ∤ Lc`,
`Lc·(r+so) + C ≡ 0`.  Then `p ∣ Pv ⟺ x ≡ r (mod p)`. -/
theorem lin_root_iff {p : Nat} (hp : Nat.Prime p) {Lc C Pv x r so : Int}
    (hP : Pv ≡ Lc * (x + so) + C [ZMOD p]) (hL : ¬ (p : Int) ∣ Lc)
    (h0 : Lc * (r + so) + C ≡ 0 [ZMOD p]) :
    (p : Int) ∣ Pv ↔ x ≡ r [ZMOD p] := by
  have d0 : (p : Int) ∣ Lc * (r + so) + C := by
    have := Int.modEq_iff_dvd.mp h0.symm; simpa using this
  have dP : (p : Int) ∣ Lc * (x + so) + C - Pv := Int.modEq_iff_dvd.mp hP
  constructor
  · intro h
    have : (p : Int) ∣ Lc * (r - x) := by
      have e : Lc * (r - x) = (Lc * (r + so) + C) - ((Lc * (x + so) + C - Pv) + Pv) := by ring
      rw [e]; exact Int.dvd_sub d0 (Int.dvd_add dP h)
    rcases int_prime_dvd_mul hp this with h5 | h5
    · exact absurd h5 hL
    · exact Int.modEq_iff_dvd.mpr h5
  · intro h
    have hx : (p : Int) ∣ r - x := Int.modEq_iff_dvd.mp h
    have e : Pv = (Lc * (r + so) + C) - Lc * (r - x) - (Lc * (x + so) + C - Pv) := by ring
    rw [e]; exact Int.dvd_sub (Int.dvd_sub d0 (Dvd.dvd.mul_left hx _)) dP

end Ymq.PolyRoots
