#!/usr/bin/env python3
"""seeded/<id>/meta.json: add verdict / caught_by from seeded/<id>/check_output.txt (and an optional note)."""
import json, sys, re, os
ROOT = os.path.dirname(os.path.dirname(os.path.abspath(__file__)))
sid = sys.argv[1]; note = sys.argv[2] if len(sys.argv) > 2 else ""
d = os.path.join(ROOT, "seeded", sid)
m = json.load(open(os.path.join(d, "meta.json")))
out = open(os.path.join(d, "check_output.txt")).read()
verd = []
for blk in out.split("=== mutant check ")[1:]:
    pid = blk.split()[0]
    if "no-failing-input-found" in blk:
        v = "VIOLATION no-failing-input-found"
    elif "VIOLATION" in blk:
        v = "VIOLATION with failing input"
    elif re.search(r"^OK ", blk, re.M):
        v = "MISSED (check passed)"
    else:
        v = "?"
    rep = [l for l in blk.splitlines()[1:] if l and not l.startswith(("#", "===", "---", "VIOLATION", "OK ", "KNOWN"))]
    why = [l for l in blk.splitlines() if l.startswith("# ") and "property" not in l]
    verd.append((pid, v, (rep[0][:160] if rep else ""), (why[1][:160] if len(why) > 1 else (why[0][:160] if why else ""))))
m["verdict"] = "; ".join(f"{p}: {v}" for p, v, _, _ in verd)
m["caught_by"] = " | ".join(f"{p}: replay `{r}` {w}" for p, v, r, w in verd if "VIOLATION" in v) + ((" | " + note) if note else "")
json.dump(m, open(os.path.join(d, "meta.json"), "w"), indent=1)
print(sid, m["verdict"], "::", m["caught_by"][:300])
