import Ymq.Drv.Util
import Ymq.Model.Gf2Small
import Ymq.Model.Gf2Genblock
import Ymq.Model.Gf2Lanczos

/-!
Driver for the 64x64 core of matrix/gf2.rs (C14 "small"). Formats as in harness/src/ops_gf2small.rs:
a SmallMat is 64 comma separated hexadecimal words (row 0 first), a lane one hexadecimal word.
Ops `sm_*` answer with the model of the checked profile (`debug_assert!` active), ops `smr_*` with
the model of the release profile; the harness answers both spellings with the real code.
-/
namespace Ymq.Drv
open Ymq.Gf2Small

private def hexDigitS (c : Char) : Option Nat :=
  if '0' ≤ c ∧ c ≤ '9' then some (c.toNat - '0'.toNat)
  else if 'a' ≤ c ∧ c ≤ 'f' then some (c.toNat - 'a'.toNat + 10)
  else none

private def parseHexS (s : String) : Option Nat :=
  if s.isEmpty then none
  else do
    let w ← s.toList.foldlM (fun acc c => do let d ← hexDigitS c; pure (acc * 16 + d)) 0
    if w ≥ 2 ^ 64 then none else some w

private def parseWordsS (s : String) : Option (List Nat) :=
  if s = "-" then some [] else (s.splitOn ",").mapM parseHexS

private def parseMat (s : String) : Option Mat := do
  let ws ← parseWordsS s
  if ws.length = 64 then some ws else none

private def showHexS (n : Nat) : String := String.ofList (Nat.toDigits 16 n)

private def showMat (l : List Nat) : String :=
  if l.isEmpty then "-" else ",".intercalate (l.map showHexS)

private def showOMat : Option Mat → String
  | none => "panic"
  | some m => showMat m

private def showRank : Option (Nat × Nat) → String
  | none => "panic"
  | some (rk, mk) => s!"{rk} {showHexS mk}"

/-- `sm_x` ↦ `(x, true)`, `smr_x` ↦ `(x, false)` -/
private def splitOp (op : String) : Option (String × Bool) :=
  if op.startsWith "sm_" then some ((op.drop 3).toString, true)
  else if op.startsWith "smr_" then some ((op.drop 4).toString, false)
  else none

private def natOfBitsS (v : List Bool) : Nat := v.foldr (fun b acc => 2 * acc + b.toNat) 0

private def showVecsS (vs : List (List Bool)) : String :=
  if vs.isEmpty then "-" else ",".intercalate (vs.map (fun v => showHexS (natOfBitsS v)))

private def parseSparseS (ncols : Nat) (s : String) : Option (List (List Nat)) :=
  if ncols = 0 then (if s = "-" then some [] else none)
  else do
    let cols ← (s.splitOn ";").mapM (fun c => parseNatList c)
    if cols.length = ncols then some cols else none

def handleGf2Small : Handler
  | op :: args => do
    let (o, dbg) ← splitOp op
    match o, args with
    | "lz", [w] => do let w ← parseHexS w; some (toString (lz 64 w))
    | "revlane", [w] => do let w ← parseHexS w; some (showHexS (reverseLane 64 w))
    | "identity", [] => some (showMat (identity 64))
    | "symmetric", [m] => do let m ← parseMat m; some (showBool (symmetric 64 m))
    | "transpose", [m] => do let m ← parseMat m; some (showMat (transpose 64 m))
    | "reverse", [m] => do let m ← parseMat m; some (showMat (reverse 64 m))
    | "mask", [m, k] => do let m ← parseMat m; let k ← parseHexS k; some (showOMat (mask 64 dbg m k))
    | "submatrix", [m] => do let m ← parseMat m; some (showOMat (submatrix 64 dbg m))
    | "rank", [m] => do let m ← parseMat m; some (showRank (rank 64 dbg m))
    | "rank_reverse", [m] => do let m ← parseMat m; some (showRank (rankReverse 64 dbg m))
    | "pinv", [m] => do let m ← parseMat m; some (showOMat (pseudoinverse 64 dbg m))
    | "inverse", [m] => do
      let m ← parseMat m
      match inverse 64 dbg m with
      | none => some "panic"
      | some none => some "none"
      | some (some w) => some (showMat w)
    | "mul", [a, b] => do let a ← parseMat a; let b ← parseMat b; some (showMat (mul a b))
    | "pipeline", [m, dir] => do
      -- the call site in kernel_lanczos: rank / rank_reverse, mask, pseudoinverse, debug_assert on the rank
      let m ← parseMat m
      let rev ← if dir = "fwd" then some false else if dir = "rev" then some true else none
      match Ymq.Gf2Genblock.pipeline 64 dbg rev m with
      | none => some "panic"
      | some (rk, mk, w) => some s!"{rk} {showHexS mk} {showMat w}"
    | "genblock_replay", [nrows, ncols, data, ys] => do
      let nrows ← parseNat nrows; let ncols ← parseNat ncols
      let cols ← parseSparseS ncols data
      let ys ← (ys.splitOn ";").mapM parseWordsS
      match Ymq.Gf2Genblock.genblock dbg (Ymq.Gf2.qsOptimize nrows cols) ys with
      | .panic => some "panic"
      | .exhausted k => some s!"limit {k}"
      | .accepted k _ => some s!"ok {k + 1}"
    | "lanczos_replay", [nrows, ncols, data, y0] => do
      -- the initial block and the main loop of kernel_lanczos from the block returned by genblock
      let nrows ← parseNat nrows; let ncols ← parseNat ncols
      let cols ← parseSparseS ncols data
      let y0 ← parseWordsS y0
      let b := Ymq.Gf2.qsOptimize nrows cols
      match Ymq.Gf2Lanczos.lanczosInit dbg b y0 with
      | none => some "panic"
      | some (st, ay) =>
        match Ymq.Gf2Lanczos.lanczosLoop dbg b ay 100000 st [] with
        | none => some "panic"
        | some (st', its) =>
          -- then the final stage on the final Y: the whole of `kernelLanczos`
          let fin := match Ymq.Gf2.lanczosFinal nrows cols st'.y with
            | none => "panic"
            | some vs => showVecsS vs
          some ("|".intercalate (its.map (fun it => s!"{showHexS it.1}/{showMat it.2.1}/{showMat it.2.2}") ++ [showMat st'.y])
            ++ "#" ++ fin)
    | _, _ => none
  | _ => none

end Ymq.Drv
