/-
Driver for the sieving-polynomial models (C12).  The requests are built by props/c12.py from the
header of the harness answer (factor base, square roots, selection of A factors, A); the answers
reproduce the body of the harness answer (harness/src/ops_poly.rs) byte for byte.
-/
import Ymq.Drv.Util
import Ymq.Model.SiqsPoly
import Ymq.Model.MpqsPoly
import Ymq.Model.QsRoots
import Ymq.Model.SiqsSelect

namespace Ymq.Drv
open Ymq.SiqsPoly

def mkFb (ps rs : List Nat) : List Prime := List.zipWith (fun p r => { p, r : Prime }) ps rs

def showPairs (l : List (Nat × Nat)) : String :=
  if l.isEmpty then "-" else ",".intercalate (l.map fun (a, b) => s!"{a}:{b}")

/-- the five evaluation points of a dumped polynomial (same rule in ops_poly.rs) -/
def evalPoints (so : Int) (idx : Nat) : List Int := [so, -1, 0, 1 + (idx : Int), -so - 1]

def showEvals {β} [ToString β] (f : Int → Option (Int × β)) (xs : List Int) : Option String := do
  let vs ← xs.mapM fun x => (f x).map fun (v, y) => s!"{x}:{v}:{y}"
  some (",".intercalate vs)

def showA (pa : APrep) : String :=
  let nf := pa.roots.length
  let fidx := (withIdx 0 pa.pps).filterMap fun (i, pp) => if pp.divA then some i else none
  let roots := if pa.roots.isEmpty then "-"
    else ",".intercalate (pa.roots.map fun (a, b) => s!"{a}:{b}")
  let deltas := if nf = 0 then "-"
    else ";".intercalate ((List.range nf).map fun j => showList (pa.pps.map fun pp => pp.deltas.getD j 0))
  s!"A {pa.a} af={showList (pa.factors.map (·.p))} fidx={showList fidx} roots={roots} deltas={deltas} " ++
  s!"root0={showList (pa.pps.map (·.root0))} rp={showList (pa.pps.map (·.rp))}"

def showPoly (so : Int) (pol : Poly) : Option String := do
  let ev ← showEvals (eval pol) (evalPoints so pol.idx)
  some (s!" P {pol.idx} {if pol.type2 then 2 else 1} {pol.b} {pol.c} {pol.root} " ++
        s!"{showList (pol.rs.map (·.1))} {showList (pol.rs.map (·.2))} {ev}")

/-- walk `idx = cur .. total-1`; `pol` is the polynomial number `cur`. -/
def walkLoop (s : Sieve) (pa : APrep) (so : Int) (step tail total : Nat) :
    Nat → Nat → Poly → String → String
  | 0, _, _, acc => acc
  | fuel + 1, cur, pol, acc =>
    let dump := cur % (max step 1) = 0 ∨ cur + tail ≥ total
    match (if dump then showPoly so pol else some "") with
    | none => acc ++ " panic"
    | some txt =>
      let acc := acc ++ txt
      if cur + 1 ≥ total then acc
      else
        match next s pa pol with
        | none => acc ++ " panic"
        | some pol' => walkLoop s pa so step tail total fuel (cur + 1) pol' acc

def siqsWalk (n : Int) (mm : Nat) (so : Int) (fb sel : List Prime) (a step tail maxpolys : Nat) : String :=
  match mkFactors n sel with
  | none => "panic"
  | some f =>
    let s := mkSieve n mm
    match prepareA f a fb so with
    | none => "panic"
    | some pa =>
      let acc := showA pa
      let nf := pa.factors.length
      let total := min (if nf = 0 then 1 else 2 ^ (nf - 1)) (max maxpolys 1)
      match first s pa with
      | none => acc ++ " panic"
      | some pol => walkLoop s pa so step tail total total 0 pol acc

open Ymq.MpqsPoly in
def mpqsPoly (n : Nat) (d r : Nat) (so : Int) (fb : List Prime) : String :=
  match makePoly n d r with
  | none => "panic"
  | some pol =>
    let dinvs := fb.map fun q => dinvModp d q.p
    let acc := s!"M {pol.a} {pol.b} {pol.c} {pol.bb} {pol.d} {pol.dinv} dinv={showList dinvs}"
    match allSome (List.zipWith (fun (q : Prime) di => preparePrime pol q.p q.r di so) fb dinvs) with
    | none => acc ++ " panic"
    | some roots =>
      let acc := acc ++ s!" roots={showPairs roots}"
      match showEvals (MpqsPoly.eval pol) (evalPoints so 0) with
      | none => acc ++ " panic"
      | some ev => acc ++ s!" ev={ev}"

open Ymq.MpqsPoly in
/-- one block of MPQS polynomials: the list of `sieve_for_polys`, then for the first `maxpolys` of them the polynomial
of `make_poly` and the root table of `prepare_prime` with the inverses `batch_inversion` provides -/
def mpqsBlock (n : Nat) (so : Int) (fb : List Prime) (dbase dstride maxpolys : Nat) : String :=
  let drs := sieveForPolys n dbase dstride
  let acc := s!"drs={showPairs drs}"
  (drs.take maxpolys).foldl (fun acc (dr : Nat × Nat) =>
    if acc.endsWith "panic" then acc
    else
      match makePoly n dr.1 dr.2 with
      | none => acc ++ " panic"
      | some pol =>
        let dinvs := fb.map fun q => dinvModp dr.1 q.p
        match allSome (List.zipWith (fun (q : Prime) di => preparePrime pol q.p q.r di so) fb dinvs) with
        | none => acc ++ " panic"
        | some roots =>
          acc ++ s!" M {pol.a} {pol.b} {pol.c} {pol.bb} {pol.d} {pol.dinv} roots={showPairs roots}") acc

open Ymq.QsRoots in
def qsRoots (n : Nat) (fb : List Prime) : String :=
  match QsRoots.new n with
  | none => "panic"
  | some q =>
    match allSome (fb.map (prepareFwd q)), allSome (fb.map (prepareBck q)) with
    | some fwd, some bck =>
      s!"Q {q.nsqrt} {q.n2mn} {showBool q.onlyOdds} {nblocks q} mods={showList (fb.map fun p => nsqrtMod q p.p)} " ++
      s!"fwd={showPairs fwd} bck={showPairs bck}"
    | _, _ => "panic"

open Ymq.SiqsSelect in
def siqsSelect (n : Int) (nfacs mm want fuel : Nat) (fb : List Prime) : String :=
  match selectFactors fb n nfacs mm with
  | none => "sel-panic"
  | some (tgt, sel) =>
    let acc := s!"tgt={tgt} sel={showList (sel.map (·.p))}"
    match selectA n tgt nfacs want (sel.map (·.p)) fuel with
    | none => acc ++ " a-panic"
    | some as => acc ++ s!" as={showList as}"

open Ymq.SiqsSelect in
/-- outcome of the selection in the terms of the `siqs_walk` op: `sel-panic` (either function panics or does not
terminate within the fuel), `no-a` (empty list), `ok` -/
def siqsSelectClass (n : Int) (nfacs mm want fuel : Nat) (fb : List Prime) : String :=
  match selectFactors fb n nfacs mm with
  | none => "sel-panic"
  | some (tgt, sel) =>
    match selectA n tgt nfacs want (sel.map (·.p)) fuel with
    | none => "sel-panic"
    | some as => if as.isEmpty then "no-a" else "ok"

def handlePoly : Handler
  | ["siqs_walk_m", n, mm, so, fb, sq, sel, selr, a, step, tail, maxpolys] => do
    let n ← parseInt n; let mm ← parseNat mm; let so ← parseInt so
    let fb ← parseNatList fb; let sq ← parseNatList sq
    let sel ← parseNatList sel; let selr ← parseNatList selr
    let a ← parseNat a; let step ← parseNat step; let tail ← parseNat tail
    let maxpolys ← parseNat maxpolys
    some (siqsWalk n mm so (mkFb fb sq) (mkFb sel selr) a step tail maxpolys)
  | ["mpqs_poly_m", n, d, r, so, fb, sq] => do
    let n ← parseNat n; let d ← parseNat d; let r ← parseNat r; let so ← parseInt so
    let fb ← parseNatList fb; let sq ← parseNatList sq
    some (mpqsPoly n d r so (mkFb fb sq))
  | ["mpqs_block_m", n, so, fb, sq, dbase, dstride, maxpolys] => do
    let n ← parseNat n; let so ← parseInt so; let fb ← parseNatList fb; let sq ← parseNatList sq
    let dbase ← parseNat dbase; let dstride ← parseNat dstride; let maxpolys ← parseNat maxpolys
    some (mpqsBlock n so (mkFb fb sq) dbase dstride maxpolys)
  | ["mpqs_batchinv_m", ds, fb] => do
    let ds ← parseNatList ds; let fb ← parseNatList fb
    some (" ".intercalate (ds.map fun d => showList (fb.map fun p => MpqsPoly.dinvModp d p)))
  | ["siqs_select_m", n, nfacs, mm, want, fuel, fb, sq] => do
    let n ← parseInt n; let nfacs ← parseNat nfacs; let mm ← parseNat mm; let want ← parseNat want
    let fuel ← parseNat fuel; let fb ← parseNatList fb; let sq ← parseNatList sq
    some (siqsSelect n nfacs mm want fuel (mkFb fb sq))
  | ["siqs_select_class_m", n, nfacs, mm, want, fuel, fb, sq] => do
    let n ← parseInt n; let nfacs ← parseNat nfacs; let mm ← parseNat mm; let want ← parseNat want
    let fuel ← parseNat fuel; let fb ← parseNatList fb; let sq ← parseNatList sq
    some (siqsSelectClass n nfacs mm want fuel (mkFb fb sq))
  | ["qs_roots_m", n, fb, sq] => do
    let n ← parseNat n; let fb ← parseNatList fb; let sq ← parseNatList sq
    some (qsRoots n (mkFb fb sq))
  | _ => none

end Ymq.Drv
