/-
Model of `Inverter` (src/arith.rs:377-481): Kaliski "almost inverse" followed by a multiplication
with a precomputed `-2^-(8j+8) mod p`.

`u32`/`i64`/`u64` semantics are explicit; every panic site of the checked profile
(assert, debug_assert, overflow, shift amount) returns `none`; the `loop` takes fuel
(`none` when it runs out). No Mathlib import.
-/
import Ymq.Model.Dividers

namespace Ymq.Inverter
open Ymq.Limbs (W)
open Ymq.Dividers (Div divmod64)

/-- 2^32 -/
def W32 : Nat := 4294967296

/-- `trailing_zeros` of a non-zero word of at most `fuel` bits. -/
def tzAux : Nat → Nat → Nat
  | 0, _ => 0
  | f + 1, n => if n % 2 = 1 then 0 else 1 + tzAux f (n / 2)

/-- `u32::trailing_zeros` (also `i64::trailing_zeros` of a value with |x| < 2^32, x ≠ 0). -/
def tz (n : Nat) : Nat := tzAux 64 n

/-- body of `for k in 0..=64` in `Inverter::new`; the table is built by appending, which is what
the writes `invpow2[k / 8 - 1] = p - x` at k = 8, 16, …, 64 amount to. -/
def newLoop (p : Nat) : Nat → Nat → Nat → List Nat → Option (List Nat)
  | 0, _, _, tab => some tab
  | f + 1, k, x, tab =>
    let tab? : Option (List Nat) :=
      if k ≥ 8 ∧ k % 8 = 0 then (if p < x then none else some (tab ++ [p - x])) else some tab
    match tab? with
    | none => none
    | some tab' =>
      if x % 2 = 0 then newLoop p f (k + 1) (x / 2) tab'
      else if x + p ≥ W32 then none
      else newLoop p f (k + 1) ((x + p) / 2) tab'

/-- `Inverter::new(p)`: the array `invpow2`. -/
def new (p : Nat) : Option (List Nat) :=
  if p = 2 then some (List.replicate 8 0)
  else if p / 2 ^ 28 ≠ 0 then none                  -- debug_assert!(p >> 28 == 0)
  else newLoop p 65 0 1 []

/-- code after the `loop` of `invert`. -/
def finish (tab : List Nat) (d : Div) (u r k : Nat) : Option Nat :=
  if u ≠ 1 then none                                -- debug_assert!(u == 1)
  else if r > 2 * d.p then none                     -- debug_assert!(r <= 2 * p)
  else
    let powidx := k / 8
    if powidx ≥ 8 then none                         -- debug_assert!(powidx < 8)
    else
      let r' := r * 2 ^ (8 - k % 8) % W             -- (r as u64) << (8 - k % 8)
      let n := r' * tab.getD powidx 0
      if n ≥ W then none
      else (divmod64 d n).map (fun qr => qr.2 % W32)

/-- the `loop` of `invert` -/
def invLoop (tab : List Nat) (d : Div) (x : Nat) : Nat → Nat → Nat → Nat → Nat → Nat → Option Nat
  | 0, _, _, _, _, _ => none
  | f + 1, u, v, r, s, k =>
    if u = v then finish tab d u r k
    else
      let ad := if u > v then u - v else v - u      -- |diff|
      let dtz := tz ad
      let k' := k + dtz
      if k' ≥ W32 then none
      else if dtz = 0 then none                     -- debug_assert!(dtz > 0)
      else if dtz ≥ 32 then none                    -- u32 shift amount
      else if r + s ≥ W32 then none                 -- r + s
      else
        let u' := if u > v then ad / 2 ^ dtz else u
        let v' := if u > v then v else ad / 2 ^ dtz
        let r' := if u > v then r + s else r * 2 ^ dtz % W32
        let s' := if u > v then s * 2 ^ dtz % W32 else r + s
        -- debug_assert!(((r as u64) * (x as u64) + ((u as u64) << k)) % div.p as u64 == 0)
        if k' ≥ 64 then none
        else
          let t := u' * 2 ^ k' % W
          if r' * x + t ≥ W then none
          else if d.p = 0 then none
          else if (r' * x + t) % d.p ≠ 0 then none
          else invLoop tab d x f u' v' r' s' k'

/-- `Inverter::invert(x, div)`, `x : u32`, with `fuel` loop iterations allowed. -/
def invertFuel (fuel : Nat) (tab : List Nat) (d : Div) (x : Nat) : Option Nat :=
  if d.p = 2 then some (x % 2)
  else if d.p / 2 ^ 28 ≠ 0 then none                -- debug_assert!(div.p >> 28 == 0)
  else if x = 0 then none                           -- assert!(x != 0)
  else
    let vtz := if x % 2 = 0 then tz x else 0
    -- (v, r) = (v >> vtz, r << vtz) with r = 0; k += vtz
    invLoop tab d x fuel d.p (x / 2 ^ vtz) 0 1 vtz

/-- `invert` with the fuel the theorems show to be sufficient: `u + v` strictly decreases. -/
def invert (tab : List Nat) (d : Div) (x : Nat) : Option Nat :=
  invertFuel (d.p + x + 1) tab d x

end Ymq.Inverter
