/-
Witness of the early termination of `SparseMat::detz` (kernel evaluation of the model).

`advMat` is the 15 × 15 matrix with first column `d_0 … d_14`, diagonal `B = 16384` (rows ≥ 1) and
superdiagonal `-1`; its determinant is `Σ d_i B^(14-i) = 108 · p_0 p_1 p_2 p_3` where `p_0 … p_3`
are the first four moduli `select_crtprimes` picks for its norm 24576
(= 2142584058999773599800257773214217008184610623453022075082868; exact value by fraction-free elimination in props/c19.py).
The first CRT reconstruction is 0 = the initial value of `res.det`, and `detz` returns 0.
-/
import Ymq.Model.Wiedemann
import Ymq.Model.Arith

namespace Ymq.Wied

def advMat : Mat := [
  [(0, 21), (1, -1)],
  [(0, 5461), (1, 16384), (2, -1)],
  [(0, 5461), (2, 16384), (3, -1)],
  [(0, 4926), (3, 16384), (4, -1)],
  [(0, 8192), (4, 16384), (5, -1)],
  [(5, 16384), (6, -1)],
  [(0, 4645), (6, 16384), (7, -1)],
  [(0, -2432), (7, 16384), (8, -1)],
  [(0, -1), (8, 16384), (9, -1)],
  [(0, 535), (9, 16384), (10, -1)],
  [(0, -1832), (10, 16384), (11, -1)],
  [(0, 684), (11, 16384), (12, -1)],
  [(0, -5528), (12, 16384), (13, -1)],
  [(0, -5929), (13, 16384), (14, -1)],
  [(0, 6260), (14, 16384)]]

def advPrimes : List Nat := [375299968947389, 375299968947089, 375299968946789, 375299968946759, 375299968946729, 375299968946699, 375299968946579, 375299968946519, 375299968946489, 375299968946159, 375299968945859, 375299968945679, 375299968945379, 375299968945199, 375299968945079]

set_option maxRecDepth 100000 in
theorem adv_valid : mkMat advMat = some advMat := by decide +kernel

set_option maxRecDepth 100000 in
theorem adv_primes : selectPrimes Ymq.Mg64.isprime64 advMat = some advPrimes := by decide +kernel

set_option maxRecDepth 100000 in
theorem adv_loop : detzLoop Ymq.Arith.invMod64 advMat 16 advPrimes [] [] 0 = some 0 := by
  decide +kernel

/-- the residues of the true determinant `108 · p_0 p_1 p_2 p_3` modulo the first block vanish,
modulo the fifth modulus they do not -/
theorem adv_det_residues :
    (2142584058999773599800257773214217008184610623453022075082868 : Int) % 375299968947389 = 0 ∧ (2142584058999773599800257773214217008184610623453022075082868 : Int) % 375299968946759 = 0 ∧
    (2142584058999773599800257773214217008184610623453022075082868 : Int) % 375299968946729 ≠ 0 := by decide +kernel

end Ymq.Wied
