/-
C10: `Poly::roots_eval` with a single evaluation point (`|b| = 1`, tree size `n = 1`, always the chunked branch):
`rootsEval_unit_spec`. The Barrett round degenerates (`barrettStep1_spec`: the quotient slice is empty, the
third `_longmul` runs on an empty operand and writes zeros, the `debug_assert!` compares two zeros).
-/
import Ymq.Lemmas.PolyBarrett

namespace Ymq.PolyMul
open Polynomial Finset

variable {α : Type} {R : Type} [CommRing R] [Nontrivial R]

omit [CommRing R] [Nontrivial R] in
theorem longmul_nil_left (c : Ctx) (hc : c.mzp = none) (o : Ops α) (t : α) :
    longmul c o 2 6 [] [t, o.one] = some [o.zero, o.zero] := by
  unfold longmul
  rw [hc]
  show (karatsuba o (63 + 1) _ _ _ _).map _ = _
  unfold karatsuba
  simp [basicMul, rowsLoop]

/-- one round of the chunk loop of `roots_eval` for `n = 1` (a single point `b`): constants multiply -/
theorem barrettStep1_spec {o : Ops α} {φ : α → R} (h : HomC o φ) (c : Ctx) (hc : c.mzp = none)
    (t : α) (qinv pm chk : List α) (lqi : qinv.length = 2) (lpm : pm.length = 1) (lchk : chk.length = 1) :
    ∃ r, barrettStep c o 1 ([t] ++ [o.one]) qinv.reverse pm chk = some r ∧ r.length = 1 ∧
      mon φ [t] ∣ poly (r.map φ) - rootsPoly φ chk * poly (pm.map φ) := by
  have hfit : ∀ m, Fits c m := fun m k hk => by rw [hc] at hk; cases hk
  obtain ⟨pi0, e1, lpi, ppi⟩ := fromRoots_spec h.toHom c chk (by omega) (by rw [lchk]; decide) (hfit _)
  obtain ⟨hmon, hdeg⟩ := rootsPoly_monic φ chk
  obtain ⟨pic, e2, lpic, ppic⟩ := reduceTop_spec h 1 pi0 [t] (by omega) rfl (by
    intro _
    have hcn := hmon.coeff_natDegree
    rw [hdeg, lchk, ← ppi, coeff_poly, getD_map_hom h.toHom] at hcn
    exact hcn)
  set P := poly (pic.map φ) * poly (pm.map φ) with hP
  obtain ⟨pp, e3, lpp, cpp⟩ := longmul_spec h.toHom c 2 6 pic pm (by rw [lpic, lpm]) (by omega) (by rw [lpic]; norm_num)
    (by omega) (by omega) (hfit _)
  rw [← hP] at cpp
  obtain ⟨quo, e4, lquo, _⟩ := longmul_spec h.toHom c 2 6 (pp.drop 1) (qinv.reverse.drop 1)
    (by simp [lpp, lqi]) (by simp [lpp]) (by simp [lpp]) (by simp [lpp]) (by simp [lpp]) (hfit _)
  have hP1 : P.coeff 1 = 0 :=
    coeff_mul_vanish _ _ 1 1 1 (fun i hi => natDegree_poly_lt _ _ (by rw [List.length_map, lpic]; exact hi))
      (fun i hi => natDegree_poly_lt _ _ (by rw [List.length_map, lpm]; exact hi)) (by omega)
  have hPhigh : ∀ k, 1 ≤ k → P.coeff k = 0 := fun k hk =>
    coeff_mul_vanish _ _ 1 1 k (fun i hi => natDegree_poly_lt _ _ (by rw [List.length_map, lpic]; exact hi))
      (fun i hi => natDegree_poly_lt _ _ (by rw [List.length_map, lpm]; exact hi)) (by omega)
  have e5 := longmul_nil_left c hc o t
  have hall : ((List.range 1).all fun i => o.eq (pp.getD (1 + i) o.zero) (([o.zero, o.zero] : List α).getD (1 + i) o.zero))
      = true := by
    simp only [List.range_one, List.all_cons, List.all_nil, Bool.and_true, Nat.add_zero]
    apply h.eq_complete
    rw [cpp 1 (by omega), hP1]
    simp [h.zero]
  refine ⟨List.zipWith o.sub (pp.take 1) [o.zero], ?_, by simp [lpp], ?_⟩
  · unfold barrettStep
    simp only [e1]
    show (match reduceTop o 1 pi0 ([t] ++ [o.one]) with | none => none | some pic => _) = _
    rw [e2]
    simp only [e3, e4, Nat.sub_self, List.drop_zero, List.take_zero]
    show (match longmul c o 2 6 [] [t, o.one] with | none => none | some pq => _) = _
    rw [e5]
    simp only [hall, Bool.not_true, Bool.false_eq_true, if_false, List.take_succ_cons, List.take_zero]
    exact zipOp_eq _ _ _ (by simp [lpp])
  · have hr : poly ((List.zipWith o.sub (pp.take 1) [o.zero]).map φ) = P := by
      apply poly_eq_of_coeff
      · intro k hk
        simp [lpp] at hk
        exact hPhigh k hk
      · intro k hk
        simp [lpp] at hk
        subst hk
        rw [getD_map_hom h.toHom, getD_zipWith_sub _ _ _ (by simp [lpp]) (by simp), h.sub]
        rw [List.getD_eq_getElem?_getD, List.getElem?_take_of_lt (by omega), ← List.getD_eq_getElem?_getD,
          cpp 0 (by omega)]
        simp [h.zero]
    rw [hr, hP, ← ppi]
    rcases ppic with hp | hp
    · rw [hp, sub_self]; exact dvd_zero _
    · rw [hp]; exact ⟨-poly (pm.map φ), by ring⟩


theorem barrettFold1_spec {o : Ops α} {φ : α → R} (h : HomC o φ) (c : Ctx) (hc : c.mzp = none)
    (t : α) (qinv : List α) (lqi : qinv.length = 2) :
    ∀ (cs : List (List α)) (pm : List α) (A : R[X]), pm.length = 1 →
      (∀ chk ∈ cs, chk.length = 1) → mon φ [t] ∣ poly (pm.map φ) - A →
      ∃ r, cs.foldlM (barrettStep c o 1 ([t] ++ [o.one]) qinv.reverse) pm = some r ∧ r.length = 1 ∧
        mon φ [t] ∣ poly (r.map φ) - A * rootsPoly φ cs.flatten := by
  intro cs
  induction cs with
  | nil =>
    intro pm A lpm _ hdiv
    refine ⟨pm, rfl, lpm, ?_⟩
    simpa [rootsPoly] using hdiv
  | cons chk rest ih =>
    intro pm A lpm hall hdiv
    obtain ⟨r1, e1, lr1, d1⟩ := barrettStep1_spec h c hc t qinv pm chk lqi lpm (hall chk List.mem_cons_self)
    have d2 : mon φ [t] ∣ poly (r1.map φ) - A * rootsPoly φ chk := by
      have : poly (r1.map φ) - A * rootsPoly φ chk =
          (poly (r1.map φ) - rootsPoly φ chk * poly (pm.map φ)) + rootsPoly φ chk * (poly (pm.map φ) - A) := by ring
      rw [this]
      exact dvd_add d1 (Dvd.dvd.mul_left hdiv _)
    obtain ⟨r, e2, lr, d3⟩ := ih r1 (A * rootsPoly φ chk) lr1 (fun x hx => hall x (List.mem_cons_of_mem _ hx)) d2
    refine ⟨r, ?_, lr, ?_⟩
    · rw [List.foldlM_cons, e1]; exact e2
    · rw [List.flatten_cons, rootsPoly_append, ← mul_assoc]; exact d3

/-- **`Poly::roots_eval(a, [b])`, a single evaluation point** (`n = 1`, always the chunked branch): no panic
site and the value is `∏_i (b - a_i)` -/
theorem rootsEval_unit_spec {o : Ops α} {φ : α → R} (h : HomC o φ) (a : List α) (b0 : α)
    (ha1 : 1 ≤ a.length) (hinv : ∃ i, o.inv o.one = some i) :
    ∃ vals, rootsEval o a [b0] = some vals ∧ vals.length = 1 ∧
      φ (vals.getD 0 o.zero) = (a.map fun r => φ b0 - φ r).prod := by
  have hbl : Ymq.Checked.bitlen (([b0] : List α).length - 1) = 0 := by simp [Ymq.Checked.bitlen]
  set c := Ctx.new ([b0] : List α).length with hcdef
  have hc : c.mzp = none := by rw [hcdef]; simp [Ctx.new, Ymq.Gen.Params.FFT_THRESHOLD]
  have hfit : ∀ m, Fits c m := fun m k hk => by rw [hc] at hk; cases hk
  obtain ⟨layers, el, llen, hch, top, htop, ltop, hmon⟩ := productTree_spec h.toHom c [b0] (by simp) (by rw [hbl]; decide)
    (hfit _)
  have hleaves := productTree_leaves c [b0] layers el
  rw [hbl] at llen ltop hmon hleaves
  simp only [pow_zero] at ltop hmon hleaves
  obtain ⟨t, rfl⟩ : ∃ t, top = [t] := by
    match top, ltop with
    | [t], _ => exact ⟨t, rfl⟩
  set Q := mon φ [t] with hQ
  -- the inverse of the reversed top node
  have hrev : revTop o 1 ([t] ++ [o.one]) = [o.one, o.zero] := by
    simp [revTop, List.range_succ]
  have hinvx : invModXn c o FUEL [o.one, o.zero] (6 * 1) = some [o.one, o.sub o.zero o.zero] := by
    show invModXn c o (63 + 1) _ _ = _
    unfold invModXn
    simp [h.eq_complete o.one o.one rfl]
  -- the chunks
  obtain ⟨hflat, hchk⟩ := chunks_spec a.length 1 a (by omega) le_rfl
  have hane : a ≠ [] := by intro h0; rw [h0] at ha1; simp at ha1
  obtain ⟨c0, cs, ecs⟩ : ∃ c0 cs, chunks a.length 1 a = c0 :: cs := by
    cases ha : a with
    | nil => exact absurd ha hane
    | cons x xs =>
      exact ⟨(x :: xs).take 1, chunks xs.length 1 ((x :: xs).drop 1), by simp only [List.length_cons, chunks]⟩
  rw [ecs] at hflat hchk
  have lall : ∀ chk ∈ c0 :: cs, chk.length = 1 := fun chk hm => by have := hchk chk hm; omega
  have lc0 := lall c0 List.mem_cons_self
  obtain ⟨p0, ep0, lp0, pp0⟩ := fromRoots_spec h.toHom c c0 (by omega) (by rw [lc0]; decide) (hfit _)
  obtain ⟨hmon0, hdeg0⟩ := rootsPoly_monic φ c0
  obtain ⟨pm0, epm0, lpm0, ppm0⟩ := reduceTop_spec h 1 p0 [t] (by omega) rfl (by
    intro _
    have hcn := hmon0.coeff_natDegree
    rw [hdeg0, lc0, ← pp0, coeff_poly, getD_map_hom h.toHom] at hcn
    exact hcn)
  have d0 : Q ∣ poly (pm0.map φ) - rootsPoly φ c0 := by
    rcases ppm0 with hp | hp
    · rw [hp, pp0, sub_self]; exact dvd_zero _
    · rw [hp, pp0]; exact ⟨-1, by ring⟩
  obtain ⟨pmodq, ef, lpmq, dq⟩ := barrettFold1_spec h c hc t [o.one, o.sub o.zero o.zero] rfl cs pm0
    (rootsPoly φ c0) lpm0 (fun x hx => lall x (List.mem_cons_of_mem _ hx)) d0
  rw [← rootsPoly_append, ← List.flatten_cons, hflat] at dq
  obtain ⟨vals, ev, lv, hv⟩ := multiEvalTree_spec h.toHomE c pmodq layers [t] hch htop
    (by rw [llen]; rfl) (by simp) (by simp) (by omega) (by rw [lpmq]; simp) (hfit _) hinv
  have hlv : vals.length = 1 := by rw [lv, hleaves]; simp
  refine ⟨vals.take 1, ?_, by rw [List.length_take]; omega, ?_⟩
  · unfold rootsEval
    simp only
    rw [← hcdef, el]
    simp only
    rw [htop]
    simp only [List.length_cons, List.length_nil]
    rw [if_neg (by omega)]
    unfold rootsEvalLong
    simp only [List.length_cons, List.length_nil, Nat.zero_add]
    rw [hrev, hinvx]
    simp only [List.getD_cons_zero, h.eq_complete o.one o.one rfl, Bool.not_true, Bool.false_eq_true, if_false]
    rw [ecs]
    simp only
    rw [ep0]
    simp only
    rw [epm0]
    simp only
    rw [ef]
    simp only
    rw [ev]
    simp only
    rw [if_neg (by omega)]
  · rw [List.getD_eq_getElem?_getD, List.getElem?_take_of_lt (by omega), ← List.getD_eq_getElem?_getD,
      hv 0 (by rw [hleaves]; simp)]
    have hleaf : (layers.getD 0 []).getD 0 [] = [o.sub o.zero b0] := by rw [hleaves]; simp
    rw [hleaf, List.getD_cons_zero, h.sub, h.zero, zero_sub, neg_neg]
    obtain ⟨K, hK⟩ := dq
    have hpm : poly (pmodq.map φ) = rootsPoly φ a + Q * K := by rw [← hK]; ring
    rw [hpm, eval_add, eval_mul, eval_rootsPoly]
    have hQ0 : Q.eval (φ b0) = 0 := by
      rw [hmon, eval_mul, eval_rootsPoly]; simp
    rw [hQ0, zero_mul, add_zero]

end Ymq.PolyMul
