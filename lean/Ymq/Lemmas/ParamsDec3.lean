/- C20: one of the large finite checks, in its own module so that lake checks them in parallel.
Restated as a property theorem in Ymq/Props/C20.lean. -/
import Ymq.Lemmas.ParamsDefs

namespace Ymq.C20.Dec
open Ymq.Checked Ymq.Gen Ymq.Gen.Params Ymq.C20

theorem mzp_new : ∀ bits, bits ≤ 512 → ∀ logsize, logsize ≤ 32 →
    Holds (arith_fft.mzp_w bits logsize) fun w =>
      1 ≤ w ∧ w ≤ NTT_PRIMES_LEN ∧ 2 * bits + logsize < 58 * w := by decide +kernel

end Ymq.C20.Dec
