#!/usr/bin/env python3
"""Shape of the worker protocol of the multi-threaded sieves (properties C04, C05): WHERE, in a work unit of
siqs() (one A value, `sieve_a`) and of mpqs() (one block of polynomials, `process_poly_block`), the source

  * polls the caller's abort predicate            `prefs.abort()`                       -> K.poll
  * reads a completion flag (may be stale)        `.done.load(` / `.gap.load(`          -> K.check
  * adds relations under the write lock           call of siqs_sieve_poly / mpqs_poly   -> K.add
    (the callee must reach `rels.write().unwrap().add(` and contain no other protocol action)
  * decides completion and publishes it           `.done.store(true`                    -> K.publish
    (`s.finished()` of mpqs.rs is inlined: its own tokens, in source order)

in source order, split into: what runs once before the per-polynomial loop (`pre`), the loop body (`body`),
what runs after it (`post`); the driver's own tokens around the call of the unit function are put in front of
`pre` / behind `post`. One shape for the thread-pool branch and one for the sequential branch of each driver.
The shapes are emitted as data (Ymq/Gen/SchedShape.lean); Props/C04Shape.lean proves the protocol theorems for
EVERY shape and discharges, by `decide` on the generated data, the side conditions that matter (a unit polls the
abort predicate outside its polynomial loop; relations are added in the loop body only, once per polynomial;
the loop body publishes completion). Moving or deleting one of these actions in the source changes the
generated data and breaks the corresponding obligation."""
import re, sys, os
sys.path.insert(0, os.path.dirname(os.path.abspath(__file__)))
from common import *
from rustexpr import find_fn, _match_brace, strip_comments

TOK = re.compile(
    r"(?P<poll>\bprefs\s*\.\s*abort\s*\(\s*\))"
    r"|(?P<check>\b(?:done|gap)\s*\.\s*load\s*\()"
    r"|(?P<publish>\bdone\s*\.\s*store\s*\(\s*true\b)"
    r"|(?P<call>\b(?P<callee>[A-Za-z_][A-Za-z_0-9]*)\s*\()"
)

# anything else that touches the shared state must be known to the translator
OTHER_SHARED = re.compile(r"\bdone\s*\.\s*(?!load\b|store\b)[a-z_]+\s*\(|\bdone\s*\.\s*store\s*\(\s*(?!true\b)"
                          r"|\brels\s*\.\s*write\s*\(")


def strip_hooks(s):
    """remove `#[cfg(yamaquasi_verif)]` + the single statement it guards (observers, audited by vlib/hook_audit.py)"""
    return re.sub(r"#\[cfg\(yamaquasi_verif\)\]\s*[^;{]*;", "", s)


def reacts(text, pos, what):
    """the token at `pos` must sit in the condition of an `if` whose block starts by leaving the unit (`return` / `break`):
    the model's Act.poll / Act.check END the worker's unit when they see `true`; a poll whose answer is ignored, or used for
    something else, is not the modelled action"""
    i = text.rfind("if ", 0, pos)
    if i < 0 or re.search(r"[{};]", text[i:pos]):
        raise ExtractError(f"{what}: a poll / flag read that is not the condition of an `if`")
    depth, j = 0, pos
    while j < len(text):
        ch = text[j]
        if ch == "(":
            depth += 1
        elif ch == ")":
            depth -= 1
        elif ch == "{" and depth <= 0:
            break
        elif ch == ";" and depth <= 0:
            raise ExtractError(f"{what}: a poll / flag read whose `if` has no block")
        j += 1
    blk = text[j:_match_brace(text, j)]
    if not re.match(r"\{\s*(return\b|break\b)", blk):
        raise ExtractError(f"{what}: the block guarded by a poll / flag read does not start with `return` or `break`")


def tokens(text, inline, what, check_reaction=True):
    """protocol tokens of `text` in source order; calls of functions named in `inline` are replaced by the
    entry of `inline` (a list of tokens or a marker string)"""
    out = []
    for m in TOK.finditer(text):
        if m.group("poll"):
            if check_reaction:
                reacts(text, m.start(), what)
            out.append("poll")
        elif m.group("check"):
            if check_reaction:
                reacts(text, m.start(), what)
            out.append("check")
        elif m.group("publish"):
            out.append("publish")
        else:
            c = m.group("callee")
            if c in inline:
                v = inline[c]
                if isinstance(v, list) and check_reaction and any(t in ("poll", "check") for t in v):
                    reacts(text, m.start(), what)      # e.g. `if s.finished() { return; }`
                out.extend(v if isinstance(v, list) else [v])
    if OTHER_SHARED.search(text):
        raise ExtractError(f"{what}: an access to the shared flags / store that the translator does not know")
    return out


def block_after(text, pattern, what):
    """(start, end) of the `{...}` block that follows the unique match of `pattern`"""
    ms = list(re.finditer(pattern, text, flags=re.S))
    if len(ms) != 1:
        raise ExtractError(f"{what}: {len(ms)} matches (exactly one expected)")
    b = text.index("{", ms[0].end() - 1) if text[ms[0].end() - 1] == "{" else text.index("{", ms[0].end())
    return b, _match_brace(text, b)


def adder(source, fname, what):
    """the function `fname` adds relations: it reaches `rels.write().unwrap().add(` (directly or through
    sieve_block_poly) and performs no other protocol action"""
    f = strip_hooks(find_fn(source, fname))
    inner = strip_hooks(find_fn(source, "sieve_block_poly"))
    for name, t in ((fname, f), ("sieve_block_poly", inner)):
        toks = [m.lastgroup for m in TOK.finditer(t) if m.lastgroup in ("poll", "check", "publish")]
        if toks:
            raise ExtractError(f"{what}: {name} performs protocol actions {toks}")
    if not re.search(r"\bsieve_block_poly\s*\(", f):
        raise ExtractError(f"{what}: {fname} no longer calls sieve_block_poly")
    n = len(re.findall(r"\brels\s*\.\s*write\s*\(\s*\)\s*\.\s*unwrap\s*\(\s*\)\s*\.\s*add\s*\(", inner))
    if n != 1:
        raise ExtractError(f"{what}: sieve_block_poly has {n} locked adds (1 expected)")


def unit_shape(fn_text, add_callee, inline, what):
    """(pre, body, post) of a unit function: `body` is the innermost `for` loop that contains the add call"""
    t = strip_hooks(fn_text)
    calls = [m for m in re.finditer(r"\b" + add_callee + r"\s*\(", t)]
    calls = [m for m in calls if not re.match(r"fn\s", t[max(0, m.start() - 3):m.start()])]
    if len(calls) != 1:
        raise ExtractError(f"{what}: {len(calls)} calls of {add_callee} (1 expected)")
    pos = calls[0].start()
    # innermost enclosing for-loop
    best = None
    for m in re.finditer(r"\bfor\b[^{;]*\{", t):
        b = m.end() - 1
        e = _match_brace(t, b)
        if b < pos < e and (best is None or b > best[0]):
            best = (b, e, m.start())
    if best is None:
        raise ExtractError(f"{what}: the call of {add_callee} is not inside a for loop")
    b, e, fs = best
    inl = dict(inline)
    inl[add_callee] = "add"
    # loops nested around the body loop must not carry protocol actions of their own
    outer_before, outer_after = t[:fs], t[e:]
    body = tokens(t[b:e], inl, what + " (loop body)")
    pre = tokens(outer_before, inl, what + " (before the loop)")
    post = tokens(outer_after, inl, what + " (after the loop)")
    for m in re.finditer(r"\bfor\b[^{;]*\{", t):
        b2 = m.end() - 1
        e2 = _match_brace(t, b2)
        if b2 < b and e2 >= e:      # an enclosing loop
            if tokens(t[b2:fs], inl, what) or tokens(t[e:e2], inl, what):
                raise ExtractError(f"{what}: protocol actions in a loop around the polynomial loop")
    if "add" in pre or "add" in post:
        raise ExtractError(f"{what}: add outside the loop")
    return pre, body, post


def driver_shapes(fn_text, pool_pat, closure_pat, seq_loop_pat, unit_callee, unit, what):
    t = strip_hooks(fn_text)
    b, e = block_after(t, pool_pat, what + ": thread-pool branch")
    mt = t[b:e]
    m = re.match(r"\s*else\s*\{", t[e:])
    if not m:
        raise ExtractError(f"{what}: no sequential branch after the thread-pool branch")
    sb = e + m.end() - 1
    st = t[sb:_match_brace(t, sb)]
    cb, ce = block_after(mt, closure_pat, what + ": worker closure")
    closure = mt[cb:ce]
    if tokens(mt[:cb], {}, what) or tokens(mt[ce:], {}, what):
        raise ExtractError(f"{what}: protocol actions in the thread-pool branch outside the worker closure")
    lb, le = block_after(st, seq_loop_pat, what + ": sequential loop")
    if tokens(st[:lb], {}, what) or tokens(st[le:], {}, what):
        raise ExtractError(f"{what}: protocol actions in the sequential branch outside its loop")

    def assemble(region, w):
        toks = tokens(region, {unit_callee: "UNIT", **FIN}, w)
        if toks.count("UNIT") != 1:
            raise ExtractError(f"{w}: {toks.count('UNIT')} calls of {unit_callee} (1 expected)")
        i = toks.index("UNIT")
        return toks[:i] + unit[0], unit[1], unit[2] + toks[i + 1:]

    return assemble(closure, what + " worker closure"), assemble(st[lb:le], what + " sequential loop")


def leave_kind(text, pos, in_closure, what):
    """what the `if` around the poll at `pos` does when the answer is true: 'unit' = `return` out of a per-unit closure
    (the surrounding iteration goes on to the next unit, which polls again), 'loop' = `break` of the unit loop or `return`
    out of the driver function itself"""
    reacts(text, pos, what)
    j = text.index("{", pos)
    while True:          # the `{` that opens the guarded block: first one outside parentheses
        seg = text[pos:j]
        if seg.count("(") <= seg.count(")"):
            break
        j = text.index("{", j + 1)
    m = re.match(r"\{\s*(return|break)\b", text[j:])
    if not m:
        raise ExtractError(f"{what}: cannot read the reaction to the poll")
    if m.group(1) == "break":
        return "loop"
    return "unit" if in_closure else "loop"


def poll_leave(region, in_closure, what):
    ms = [m for m in TOK.finditer(region) if m.group("poll")]
    if len(ms) != 1:
        raise ExtractError(f"{what}: {len(ms)} abort polls (exactly one expected)")
    return leave_kind(region, ms[0].start(), in_closure, what)


def driver_regions(fn_text, pool_pat, closure_pat, seq_loop_pat, what):
    """(worker closure text, sequential loop text) as cut by driver_shapes"""
    t = strip_hooks(fn_text)
    b, e = block_after(t, pool_pat, what + ": thread-pool branch")
    mt = t[b:e]
    m = re.match(r"\s*else\s*\{", t[e:])
    sb = e + m.end() - 1
    st = t[sb:_match_brace(t, sb)]
    cb, ce = block_after(mt, closure_pat, what + ": worker closure")
    lb, le = block_after(st, seq_loop_pat, what + ": sequential loop")
    return mt[cb:ce], st[lb:le], t[_match_brace(t, sb):]


def cg_adder(source, what):
    """classgroup.rs: siqs_sieve_poly adds through sieve_block_poly, whose single locked add is followed by the store's own
    completion test (`if rels.done() { break; }`), and itself stops sieving blocks once the store is complete: the relations
    of a polynomial that reach the store are a PREFIX of what the polynomial yields, cut by the store (not by a flag)"""
    f = strip_hooks(find_fn(source, "siqs_sieve_poly"))
    inner = strip_hooks(find_fn(source, "sieve_block_poly"))
    for name, t in (("siqs_sieve_poly", f), ("sieve_block_poly", inner)):
        toks = [m.lastgroup for m in TOK.finditer(t) if m.lastgroup in ("poll", "check", "publish")]
        if toks:
            raise ExtractError(f"{what}: {name} performs protocol actions {toks}")
    if len(re.findall(r"\bsieve_block_poly\s*\(", f)) != 2:
        raise ExtractError(f"{what}: siqs_sieve_poly no longer calls sieve_block_poly twice (empty interval / block loop)")
    if len(re.findall(r"if\s+s\s*\.\s*rels\s*\.\s*read\(\)\s*\.\s*unwrap\(\)\s*\.\s*done\(\)\s*\{\s*break\s*;\s*\}", f)) != 1:
        raise ExtractError(f"{what}: siqs_sieve_poly: the store-complete exit of the block loop is not of the known form")
    if len(re.findall(r"\brels\s*\.\s*write\s*\(", inner)) != 1 or len(re.findall(r"\brels\s*\.\s*write\s*\(", f)) != 0:
        raise ExtractError(f"{what}: the add callee does not take the write lock exactly once")
    if not re.search(r"let\s+mut\s+rels\s*=\s*s\s*\.\s*rels\s*\.\s*write\(\)\s*\.\s*unwrap\(\)\s*;\s*rels\s*\.\s*add\s*\(\s*rel\s*\)\s*;"
                     r"\s*if\s+rels\s*\.\s*done\(\)\s*\{\s*break\s*;\s*\}", inner):
        raise ExtractError(f"{what}: sieve_block_poly: locked add followed by the store-complete exit not of the known form")


def qsieve_shapes(qs):
    """classical QS (qsieve.rs::qsieve): ONE coordinating loop over large blocks. A unit = one large block PAIR: the forward and the
    backward arm (closures do_sieve_fwd / do_sieve_bck: `nblocks` calls of sieve_block each, every call adding its relations under
    the write lock), run as `rayon::join` with a pool and one after the other without; after the join the coordinator polls the
    abort predicate (`return vec![]`), then reads the store (`rels.gap`) and leaves the loop when the gap is 0.
    Returned: (forked?, arms, after) for the pool branch and for the sequential branch."""
    fn = strip_hooks(find_fn(qs, "qsieve"))
    lb, le = block_after(fn, r"\bfor large_blk_idx in 1\.\. \{", "qsieve(): loop over large blocks")
    if tokens(fn[:lb], {}, "qsieve() before the loop") or tokens(fn[le:], {}, "qsieve() after the loop"):
        raise ExtractError("qsieve(): protocol actions outside the loop over large blocks")
    loop = fn[lb:le]
    sb = strip_hooks(find_fn(qs, "sieve_block"))
    if [m.lastgroup for m in TOK.finditer(sb) if m.lastgroup in ("poll", "check", "publish")]:
        raise ExtractError("qsieve: sieve_block performs protocol actions")
    if len(re.findall(r"\brels\s*\.\s*write\s*\(\s*\)\s*\.\s*unwrap\s*\(\s*\)\s*\.\s*add\s*\(", sb)) != 1:
        raise ExtractError("qsieve: sieve_block does not have exactly one locked add")
    arms, ends = [], []
    for name in ("do_sieve_fwd", "do_sieve_bck"):
        cb, ce = block_after(loop, r"let mut " + name + r" = \|\| \{", f"qsieve(): closure {name}")
        c = loop[cb:ce]
        if tokens(c, {}, f"qsieve::{name}"):
            raise ExtractError(f"qsieve(): closure {name} performs protocol actions of its own")
        fb, fe = block_after(c, r"\bfor _ in 0\.\.qs\.nblocks\(\) \{", f"qsieve::{name}: loop over blocks")
        if len(re.findall(r"\bsieve_block\s*\(", c)) != 1 or len(re.findall(r"\bsieve_block\s*\(", c[fb:fe])) != 1:
            raise ExtractError(f"qsieve::{name}: sieve_block is not called exactly once, inside the loop over blocks")
        arms.append(["add"])
        ends.append(ce)
    rest = loop[max(ends):]
    m = re.match(r"\s*;\s*if let Some\(pool\) = tpool \{", rest)
    if not m:
        raise ExtractError("qsieve(): the fork-join / sequential branch does not follow the two closures")
    b = m.end() - 1
    e = _match_brace(rest, b)
    mt = rest[b:e]
    m2 = re.match(r"\s*else\s*\{", rest[e:])
    if not m2:
        raise ExtractError("qsieve(): no sequential branch")
    sb2 = e + m2.end() - 1
    se = _match_brace(rest, sb2)
    st = rest[sb2:se]
    if not re.search(r"pool\s*\.\s*install\(\s*\|\|\s*rayon::join\(\s*do_sieve_fwd\s*,\s*do_sieve_bck\s*\)\s*\)\s*;", mt) or \
            re.search(r"do_sieve_(fwd|bck)\s*\(", mt):
        raise ExtractError("qsieve(): the pool branch is not `pool.install(|| rayon::join(do_sieve_fwd, do_sieve_bck))`")
    if not re.match(r"\{\s*do_sieve_fwd\(\)\s*;\s*do_sieve_bck\(\)\s*;", st) or "rayon" in st:
        raise ExtractError("qsieve(): the sequential branch is not `do_sieve_fwd(); do_sieve_bck();`")
    if tokens(mt, {}, "qsieve() pool branch") or tokens(st, {}, "qsieve() sequential branch"):
        raise ExtractError("qsieve(): protocol actions inside the fork-join / sequential branch")
    after_text = rest[se:]
    if re.search(r"do_sieve_(fwd|bck)|sieve_block\s*\(", after_text):
        raise ExtractError("qsieve(): sieving after the join")
    # after the join: poll (must lead to `return`), then the completion test on the store itself
    TEST = re.compile(r"(?P<poll>\bprefs\s*\.\s*abort\s*\(\s*\))|(?P<gap>\brels\s*\.\s*gap\s*\()")
    after = []
    for m in TEST.finditer(after_text):
        if m.group("poll"):
            if leave_kind(after_text, m.start(), False, "qsieve() after the join") != "loop":
                raise ExtractError("qsieve(): the poll does not leave the loop")
            if not re.match(r"\{\s*return\s+vec!\[\]\s*;", after_text[after_text.index("{", m.end()):]):
                raise ExtractError("qsieve(): an abort request does not return the empty divisor list")
            after.append("poll")
        else:
            tail = after_text[m.end():]
            mm = re.match(r"[^;{}]*;\s*if\s+gap\s*==\s*0\s*\{", tail)
            if not mm:
                raise ExtractError("qsieve(): the completion test `if gap == 0` does not follow the read of the gap")
            blk = tail[mm.end() - 1:_match_brace(tail, mm.end() - 1)]
            if not re.search(r"\bbreak\s*;\s*\}$", blk):
                raise ExtractError("qsieve(): a zero gap does not `break` the loop")
            after += ["publish", "check"]      # decide completion on the store, then act on the decision (same thread)
    if OTHER_SHARED.search(loop):
        raise ExtractError("qsieve(): an access to the store that the translator does not know")
    return (True, arms, after), (False, arms, after)


USE = re.compile(r"\bdone\b")


def ecm_unit_read(ecm):
    """ecm.rs::ecm: a unit = one curve (closure do_curve). Entry: `if done.load() || prefs.abort() { return None; }` before any
    work; every exit that reports a factor is `done.store(true); return <Some>` (the found-factor flag), the other exits return
    None; the flag `done` is used nowhere else. Returns (entry tokens, exit tokens of a curve that found a factor, uses of `done`)."""
    efn = strip_hooks(find_fn(ecm, "ecm", params=r"\s*\("))
    cb, ce = block_after(efn, r"let do_curve = \|seed: u32\| \{", "ecm(): do_curve closure")
    c = efn[cb:ce]
    toks = [(m.lastgroup, m.start()) for m in TOK.finditer(c) if m.lastgroup in ("poll", "check", "publish")]
    kinds = [k for k, _ in toks]
    if kinds[:2] != ["check", "poll"] or "check" in kinds[2:] or "poll" in kinds[2:]:
        raise ExtractError(f"ecm::do_curve: protocol actions {kinds} (check, poll first and only once expected)")
    if not re.search(r"if\s+done\s*\.\s*load\([^)]*\)\s*\|\|\s*prefs\s*\.\s*abort\(\)\s*\{\s*return\s+None\s*;\s*\}", c):
        raise ExtractError("ecm::do_curve: entry test is not `if done.load(..) || prefs.abort() { return None; }`")
    if leave_kind(c, toks[1][1], True, "ecm::do_curve") != "unit":
        raise ExtractError("ecm::do_curve: the poll does not return from the curve")
    # nothing expensive before the entry test: only the seed assertion (and hooks, stripped)
    head = c[1:c.index("if", 1)]
    if not re.fullmatch(r"\s*assert!\(seed >= 2\);\s*", head):
        raise ExtractError("ecm::do_curve: statements before the entry test")
    # every `return` that is not `return None` is preceded by `done.store(true, ..);`, and every store is followed by such a return
    rets = [m for m in re.finditer(r"\breturn\b\s*([^;]*);", c)]
    found_exits = []
    for m in rets:
        if m.group(1).strip() == "None":
            continue
        before = c[:m.start()].rstrip()
        if not re.search(r"done\s*\.\s*store\(\s*true\s*,[^;]*\)\s*;$", before):
            raise ExtractError("ecm::do_curve: a factor is returned without setting the found-factor flag just before")
        found_exits.append(["add", "publish"])
    if len(found_exits) != kinds.count("publish") or not found_exits:
        raise ExtractError("ecm::do_curve: a `done.store(true)` that is not followed by the return of a factor")
    if not re.search(r";\s*None\s*\}$", c.rstrip()) and not re.search(r"\}\s*None\s*\}$", c.rstrip()):
        raise ExtractError("ecm::do_curve: the closure does not end with `None`")
    if any(x != found_exits[0] for x in found_exits):
        raise ExtractError("ecm::do_curve: found-factor exits differ")
    # classification of every use of `done` in ecm()
    uses = []
    for m in USE.finditer(efn):
        after, before = efn[m.end():], efn[:m.start()]
        if re.search(r"let\s+$", before) and re.match(r"\s*=\s*AtomicBool::new\(false\)\s*;", after):
            uses.append("decl")
        elif re.match(r"\s*\.\s*load\s*\(", after):
            reacts(efn, m.start(), "ecm(): read of the found-factor flag")
            uses.append("exitCond")
        elif re.match(r"\s*\.\s*store\s*\(\s*true\b", after):
            uses.append("setTrue")
        else:
            uses.append("other")
    rest = efn[:cb] + efn[ce:]
    if tokens(rest, {}, "ecm() outside do_curve"):
        raise ExtractError("ecm(): protocol actions outside the do_curve closure")
    if not re.search(r"for s in seeds \{\s*if let Some\(res\) = do_curve\(s\) \{\s*return Some\(res\);\s*\}\s*\}", rest):
        raise ExtractError("ecm(): the sequential loop does not return at the first curve that reports a factor")
    if not re.search(r"for r in results \{\s*if r\.is_some\(\) \{\s*return r;\s*\}\s*\}", rest):
        raise ExtractError("ecm(): the pool branch does not return the first reported factor in seed order")
    return ["check", "poll"], found_exits[0], uses


FIN = {}


def lean_shape(name, sh, doc):
    f = lambda ks: "[" + ", ".join("K." + k for k in ks) + "]"
    return (f"/-- {doc} -/\ndef {name} : Shape :=\n  {{ pre := {f(sh[0])}, body := {f(sh[1])}, post := {f(sh[2])} }}\n")


def run():
    global FIN
    siqs = src("src/siqs.rs")
    mpqs = src("src/mpqs.rs")
    # ---- siqs
    FIN = {}
    adder(siqs, "siqs_sieve_poly", "siqs")
    unit = unit_shape(find_fn(siqs, "sieve_a"), "siqs_sieve_poly", {}, "siqs::sieve_a")
    siqs_mt, siqs_st = driver_shapes(
        find_fn(siqs, "siqs"), r"if let Some\(pool\) = tpool\.as_ref\(\) \{", r"\.par_iter\(\)\s*\.for_each\(\s*\|[^|]*\|\s*\{",
        r"\bfor a_int in a_ints \{", "sieve_a", unit, "siqs()")
    # ---- mpqs: finished() = read `done`; else look at the store and maybe publish
    fin = tokens(strip_hooks(find_fn(mpqs, "finished")), {}, "SieveMPQS::finished")
    if fin != ["check", "publish"]:
        raise ExtractError(f"SieveMPQS::finished: protocol actions {fin} ([check, publish] expected)")
    FIN = {"finished": fin}
    adder(mpqs, "mpqs_poly", "mpqs")
    unit = unit_shape(find_fn(mpqs, "process_poly_block"), "mpqs_poly", FIN, "mpqs::process_poly_block")
    mfn = find_fn(mpqs, "mpqs")
    # the nested unit function is not part of the driver's own control flow
    nested = find_fn(mpqs, "process_poly_block")
    mfn_own = strip_hooks(mfn).replace(strip_hooks(nested), "")
    if "fn process_poly_block" in mfn_own:
        raise ExtractError("mpqs(): cannot separate the nested process_poly_block")
    mpqs_mt, mpqs_st = driver_shapes(
        mfn_own, r"if let Some\(pool\) = tpool \{", r"\.into_par_iter\(\)\s*\.for_each\(\s*\|[^|]*\|\s*\{",
        r"\bfor blkno in 0\.\. \{", "process_poly_block", unit, "mpqs()")
    # ---- ecm: a work unit is one curve (closure `do_curve`), no shared store; both branches map do_curve over the seeds
    ecm = src("src/ecm.rs")
    efn = strip_hooks(find_fn(ecm, "ecm", params=r"\s*\("))
    cb, ce = block_after(efn, r"let do_curve = \|seed: u32\| \{", "ecm(): do_curve closure")
    ecm_unit = tokens(efn[cb:ce], {}, "ecm::do_curve")
    rest = efn[:cb] + efn[ce:]
    if tokens(rest, {}, "ecm() outside do_curve"):
        raise ExtractError("ecm(): protocol actions outside the do_curve closure")
    if len(re.findall(r"\bdo_curve\s*\(", rest)) != 2:
        raise ExtractError("ecm(): do_curve is not called exactly once per branch")
    if not re.search(r"seeds\s*\.\s*par_iter\(\)\s*\.\s*map\(\s*\|&k\|\s*do_curve\(k\)\s*\)", rest) or \
       not re.search(r"for s in seeds \{\s*if let Some\(res\) = do_curve\(s\)", rest):
        raise ExtractError("ecm(): the two loops over the seeds no longer have the known form")
    ecm_shape = (ecm_unit, [], [])
    # ---- classgroup.rs: same worker structure as siqs (sieve_a units), its own store
    cg = src("src/classgroup.rs")
    FIN = {}
    cg_adder(cg, "classgroup")
    cunit = unit_shape(find_fn(cg, "sieve_a"), "siqs_sieve_poly", {}, "classgroup::sieve_a")
    CG_PATS = (r"if let Some\(pool\) = tpool\.as_ref\(\) \{", r"\.par_iter\(\)\s*\.for_each\(\s*\|[^|]*\|\s*\{", r"\bfor a_int in a_ints \{")
    cg_mt, cg_st = driver_shapes(find_fn(cg, "classgroup"), *CG_PATS, "sieve_a", cunit, "classgroup()")
    cg_clo, cg_loop, cg_tail = driver_regions(find_fn(cg, "classgroup"), *CG_PATS, "classgroup()")
    # after both branches: a last poll; an aborted computation returns None (never a group built from an incomplete store)
    if not re.match(r"\s*if\s+prefs\s*\.\s*abort\(\)\s*\{\s*return\s+None\s*;\s*\}", cg_tail):
        raise ExtractError("classgroup(): the poll after the sieve (`if prefs.abort() { return None; }`) is not of the known form")
    if len([m for m in TOK.finditer(cg_tail) if m.lastgroup in ("poll", "check", "publish")]) != 1:
        raise ExtractError("classgroup(): protocol actions after the sieve other than the final poll")
    # ---- how a true poll leaves: the unit only (closure `return`: the next unit polls again) or the whole loop
    SIQS_PATS = (r"if let Some\(pool\) = tpool\.as_ref\(\) \{", r"\.par_iter\(\)\s*\.for_each\(\s*\|[^|]*\|\s*\{", r"\bfor a_int in a_ints \{")
    MPQS_PATS = (r"if let Some\(pool\) = tpool \{", r"\.into_par_iter\(\)\s*\.for_each\(\s*\|[^|]*\|\s*\{", r"\bfor blkno in 0\.\. \{")
    s_clo, s_loop, _ = driver_regions(find_fn(siqs, "siqs"), *SIQS_PATS, "siqs()")
    m_clo, m_loop, _ = driver_regions(mfn_own, *MPQS_PATS, "mpqs()")
    leaves = [("siqs-mt", poll_leave(s_clo, True, "siqs() worker closure")), ("siqs-st", poll_leave(s_loop, False, "siqs() sequential loop")),
              ("mpqs-mt", poll_leave(m_clo, True, "mpqs() worker closure")), ("mpqs-st", poll_leave(m_loop, False, "mpqs() sequential loop")),
              ("cg-mt", poll_leave(cg_clo, True, "classgroup() worker closure")), ("cg-st", poll_leave(cg_loop, False, "classgroup() sequential loop")),
              ("qs-mt", "loop"), ("qs-st", "loop"), ("ecm", "unit")]
    # ---- classical QS
    qsrc = src("src/qsieve.rs")
    qs_mt, qs_st = qsieve_shapes(qsrc)
    # ---- ecm, second reading: entry / found-factor exit / uses of the flag
    e_entry, e_found, e_uses = ecm_unit_read(ecm)
    ecm_unit_shape = (e_entry, e_found, [])
    kl = lambda ks: "[" + ", ".join("K." + k for k in ks) + "]"
    fork = lambda name, f, doc: (f"/-- {doc} -/\ndef {name} : ForkShape :=\n  {{ forked := {'true' if f[0] else 'false'}, "
                                 f"arms := [{', '.join(kl(a) for a in f[1])}], after := {kl(f[2])} }}\n")
    body = ("namespace Ymq.Gen.SchedShape\n\n"
            "/-- kinds of protocol actions found in the source -/\n"
            "inductive K | poll | check | add | publish\n  deriving DecidableEq, Repr\n\n"
            "/-- a work unit: `pre`, then `body` once per polynomial, then `post` -/\n"
            "structure Shape where\n  pre : List K\n  body : List K\n  post : List K\n  deriving Repr\n\n"
            + lean_shape("siqsMt", siqs_mt, "siqs.rs, thread pool: the par_iter closure over the A values, around sieve_a") + "\n"
            + lean_shape("siqsSt", siqs_st, "siqs.rs, sequential: the `for a_int in a_ints` loop, around sieve_a") + "\n"
            + lean_shape("mpqsMt", mpqs_mt, "mpqs.rs, thread pool: the into_par_iter closure over block numbers, around process_poly_block") + "\n"
            + lean_shape("mpqsSt", mpqs_st, "mpqs.rs, sequential: the `for blkno in 0..` loop, around process_poly_block") + "\n"
            + lean_shape("ecmCurve", ecm_shape, "ecm.rs: one curve (closure do_curve), mapped over the seeds by both branches; no shared store") + "\n"
            + lean_shape("cgMt", cg_mt, "classgroup.rs, thread pool: the par_iter closure over the A values, around sieve_a") + "\n"
            + lean_shape("cgSt", cg_st, "classgroup.rs, sequential: the `for a_int in a_ints` loop, around sieve_a") + "\n"
            + lean_shape("ecmUnit", ecm_unit_shape, "ecm.rs, one curve read as a unit: entry test (`pre`), then, only for a curve that reports a factor, "
                         "the report and `done.store(true)` (`body`, run once for such a curve and not at all otherwise)") + "\n"
            "def all : List (String × Shape) :=\n"
            "  [(\"siqs-mt\", siqsMt), (\"siqs-st\", siqsSt), (\"mpqs-mt\", mpqsMt), (\"mpqs-st\", mpqsSt), (\"cg-mt\", cgMt), (\"cg-st\", cgSt)]\n\n"
            "/-- classical QS, one large block pair: the arms (forward / backward block sieve; protocol actions per small block), run as a\n"
            "fork-join (`forked`) or one after the other, then `after` in the coordinating thread -/\n"
            "structure ForkShape where\n  forked : Bool\n  arms : List (List K)\n  after : List K\n  deriving Repr\n\n"
            + fork("qsMtFork", qs_mt, "qsieve.rs with a pool: rayon::join(do_sieve_fwd, do_sieve_bck), then poll, then the completion test on the store") + "\n"
            + fork("qsStFork", qs_st, "qsieve.rs without a pool: do_sieve_fwd(); do_sieve_bck(); then poll, then the completion test on the store") + "\n"
            "/-- what a poll answered `true` leaves: `true` = the whole unit loop (`break`, or `return` of the driver), `false` = the unit only\n"
            "(`return` of the per-unit closure: the iteration goes on and every later unit polls again) -/\n"
            "def leavesLoop : List (String × Bool) :=\n  ["
            + ", ".join(f"(\"{n}\", {'true' if k == 'loop' else 'false'})" for n, k in leaves) + "]\n\n"
            "/-- uses of the found-factor flag `done` inside ecm() -/\n"
            "inductive Use | decl | exitCond | setTrue | other\n  deriving DecidableEq, Repr\n\n"
            "def ecmDoneUses : List Use :=\n  [" + ", ".join("Use." + u for u in e_uses) + "]\n\n"
            "end Ymq.Gen.SchedShape\n")
    write_gen("SchedShape", body, ["src/siqs.rs", "src/mpqs.rs", "src/ecm.rs", "src/classgroup.rs", "src/qsieve.rs"])
    return (f"siqs-mt={siqs_mt} siqs-st={siqs_st} mpqs-mt={mpqs_mt} mpqs-st={mpqs_st} ecm={ecm_shape} cg-mt={cg_mt} cg-st={cg_st} "
            f"qs-mt={qs_mt} qs-st={qs_st} ecm-unit={ecm_unit_shape} leaves={leaves} done-uses={e_uses}")


if __name__ == "__main__":
    main(run)
