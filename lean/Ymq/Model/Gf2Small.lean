/-
Model of the 64x64 bit-matrix core of src/matrix/gf2.rs (property C14, part "small"):
`lz`, `reverse_lane` (lines 583-589) and `impl SmallMat` (lines 591-787): `identity`, `symmetric`,
`transpose`, `mask`, `submatrix`, `rank`, `pseudoinverse`, `reverse`, `rank_reverse`, `inverse`;
then `genblock` (lines 337-352) with the random lanes as an input stream.

Conventions.
* A `SmallMat` is the list of its `n` rows (`Lane = u64` as `Nat`, bit `j` of row `i` = entry
  `(i, j)`); the code has `n = LSIZE = 64`; every definition takes `n` as a parameter so that the
  theorems are proved for all sizes and small sizes can be enumerated (`n = 64` in the driver).
* `dbg = true` is the checked profile (`debug_assert!` active), `dbg = false` the release profile.
* Every panic site returns `none`: `unwrap` on a failed `position` (pseudoinverse), every
  `debug_assert!` (only when `dbg`), the shift `1 << idx` of `rank` (idx must be < n), the slice
  `idx[..rk]` (rk ≤ 256).  `inverse` returns `Option (Option Mat)`: outer `none` = panic,
  `some none` = the routine's `None`.
* Parallel arrays that the code swaps/xors in lockstep are one list of pairs: `(m[k], orig_idx[k])`
  in `rank`, `(m[k], minv[k])` in `pseudoinverse` / `inverse`.
* The inner loops `for j in (p+1)..LSIZE { if lz(m[j]) == i { m[j] ^= m[p] } }` touch row `j` only in
  iteration `j` and read row `p < j` only: they are one `mapIdx`; the `debug_assert!(lz(m[j]) > i)`
  of their `else` branch reads `m[j]` before any change: one test over the rows `j > p`.
No Mathlib import (linked into the native driver).
-/
namespace Ymq.Gf2Small

abbrev Mat := List Nat
/-- rows carried in lockstep: `(m[k], orig_idx[k])` or `(m[k], minv[k])` -/
abbrev Rows := List (Nat × Nat)

def LSIZE : Nat := 64

/-- `row m i = m.0[i]` -/
def row (m : Mat) (i : Nat) : Nat := m.getD i 0

def lzFrom : Nat → Nat → Nat → Nat
  | 0, k, _ => k
  | f + 1, k, w => if w.testBit k then k else lzFrom f (k + 1) w

/-- `lz(w) = w.trailing_zeros()` for an `n`-bit lane: index of the lowest set bit, `n` when `w = 0` -/
def lz (n w : Nat) : Nat := lzFrom n 0 w

/-- `for j in 0..k { if f j { acc |= 1 << j } }` starting from 0 -/
def ofBits : Nat → (Nat → Bool) → Nat
  | 0, _ => 0
  | k + 1, f => if f k then ofBits k f ||| (1 <<< k) else ofBits k f

/-- `reverse_lane(l) = l.reverse_bits()` -/
def reverseLane (n l : Nat) : Nat := ofBits n (fun j => l.testBit (n - 1 - j))

/-- `SmallMat::identity` -/
def identity (n : Nat) : Mat := (List.range n).map (fun i => 1 <<< i)

/-- `SmallMat::symmetric` -/
def symmetric (n : Nat) (m : Mat) : Bool :=
  (List.range n).all (fun i => (List.range i).all (fun j => (row m i).testBit j == (row m j).testBit i))

/-- `SmallMat::transpose` -/
def transpose (n : Nat) (m : Mat) : Mat :=
  (List.range n).map (fun i => ofBits n (fun j => (row m j).testBit i))

/-- the loop of `SmallMat::mask` -/
def maskRows (n : Nat) (m : Mat) (mk : Nat) : Mat :=
  (List.range n).map (fun i => if mk.testBit i then row m i &&& mk else 0)

/-- `SmallMat::mask` with its `debug_assert!(!self.symmetric() || m.symmetric())` -/
def mask (n : Nat) (dbg : Bool) (m : Mat) (mk : Nat) : Option Mat :=
  let r := maskRows n m mk
  if dbg && symmetric n m && !symmetric n r then none else some r

/-- `count_ones` of a lane whose bits are below `n` -/
def popcount (n w : Nat) : Nat := ((List.range n).filter (fun i => w.testBit i)).length

/-- `slice.swap(a, b)` -/
def swapAt {α} (l : List α) (a b : Nat) : List α :=
  match l[a]?, l[b]? with
  | some x, some y => (l.set a y).set b x
  | _, _ => l

/-- `m.0.iter().position(|&v| lz(v) == i)` -/
def position (n i : Nat) (rows : Rows) : Option Nat := rows.findIdx? (fun r => lz n r.1 == i)

structure RankSt where
  rows : Rows      -- (m.0[k], orig_idx[k])
  mask : Nat
  rk : Nat
deriving Repr

/-- body of `for i in 0..LSIZE` in `SmallMat::rank` -/
def rankCol (n : Nat) (st : RankSt) (i : Nat) : Option RankSt :=
  match position n i st.rows with
  | none => some st                                              -- `continue`
  | some j =>
    let idx := (st.rows.getD j (0, 0)).2
    if ¬ idx < n then none else                                  -- `1 << idx`
    let rows1 := swapAt st.rows st.rk j
    let p := (rows1.getD st.rk (0, 0)).1
    let rows2 := rows1.mapIdx (fun k r => if st.rk < k ∧ lz n r.1 = i then (r.1 ^^^ p, r.2) else r)
    some { rows := rows2, mask := st.mask ||| (1 <<< idx), rk := st.rk + 1 }

def rankInit (n : Nat) (m : Mat) : RankSt :=
  { rows := (List.range n).map (fun i => (row m i, i)), mask := 0, rk := 0 }

/-- `SmallMat::rank`: `(rank, mask of the original indices of the pivot rows)` -/
def rank (n : Nat) (dbg : Bool) (m : Mat) : Option (Nat × Nat) :=
  match (List.range n).foldlM (rankCol n) (rankInit n m) with
  | none => none
  | some st =>
    if dbg && st.rk != popcount n st.mask then none              -- debug_assert!(rank == count_ones)
    else some (st.rk, st.mask)

/-- `SmallMat::reverse` -/
def reverse (n : Nat) (m : Mat) : Mat :=
  (List.range n).map (fun i => reverseLane n (row m (n - 1 - i)))

/-- `SmallMat::rank_reverse` -/
def rankReverse (n : Nat) (dbg : Bool) (m : Mat) : Option (Nat × Nat) :=
  match rank n dbg (reverse n m) with
  | none => none
  | some (rk, mk) => some (rk, reverseLane n mk)

/-- `SmallMat::submatrix` with its three debug assertions -/
def submatrix (n : Nat) (dbg : Bool) (m : Mat) : Option Mat :=
  if dbg && !symmetric n m then none else
  match rank n dbg m with
  | none => none
  | some (r, mk) =>
    match mask n dbg m mk with
    | none => none
    | some mm =>
      if dbg && !symmetric n mm then none
      else if dbg && rank n dbg mm != some (r, mk) then none
      else some mm

/-- the swap and the elimination loop shared by `pseudoinverse` and `inverse`, once `position` has
returned `j`: `m.swap(i, j); minv.swap(i, j); for j in (i+1)..LSIZE { if lz(m[j]) == i { m[j] ^= m[i];
minv[j] ^= minv[i] } else { debug_assert!(lz(m[j]) > i) } }` -/
def elimCol (n : Nat) (dbg : Bool) (i j : Nat) (rows : Rows) : Option Rows :=
  let rows1 := swapAt rows i j
  let p := rows1.getD i (0, 0)
  if dbg && (List.range n).any (fun k => decide (i < k) && decide (lz n (rows1.getD k (0, 0)).1 < i)) then none
  else some (rows1.mapIdx (fun k r => if i < k ∧ lz n r.1 = i then (r.1 ^^^ p.1, r.2 ^^^ p.2) else r))

/-- `m.0[i] ^= m.0[j]; minv.0[i] ^= minv.0[j]` -/
def xorRow (rows : Rows) (i j : Nat) : Rows :=
  let a := rows.getD i (0, 0)
  let b := rows.getD j (0, 0)
  rows.set i (a.1 ^^^ b.1, a.2 ^^^ b.2)

/-- forward elimination of `pseudoinverse`: `for &i in &idx[..rk]` -/
def pinvForward (n : Nat) (dbg : Bool) : List Nat → Rows → Option Rows
  | [], rows => some rows
  | i :: is, rows =>
    match position n i rows with
    | none => none                                               -- `.unwrap()`
    | some j =>
      match elimCol n dbg i j rows with
      | none => none
      | some rows' => pinvForward n dbg is rows'

/-- body of `for idx1 in 0..rk` ("solve triangular inverse") of `pseudoinverse` -/
def pinvBackStep (n : Nat) (dbg : Bool) (idx : List Nat) (rk : Nat) (rows : Rows) (idx1 : Nat) : Option Rows :=
  let i := idx.getD (rk - 1 - idx1) 0
  let r := (rows.getD i (0, 0)).1
  if dbg && lz n r != i then none else                            -- debug_assert!(lz(m.0[i]) == i)
  match (List.range idx1).foldlM (fun (rows : Rows) idx2 =>
      let j := idx.getD (rk - 1 - idx2) 0
      if dbg && !decide (i < j) then none                         -- debug_assert!(i < j)
      else if r.testBit j then some (xorRow rows i j) else some rows) rows with
  | none => none
  | some rows' =>
    if dbg && (rows'.getD i (0, 0)).1 != 1 <<< i then none        -- debug_assert!(r == 1 << i)
    else some rows'

/-- `SmallMat::pseudoinverse` -/
def pseudoinverse (n : Nat) (dbg : Bool) (m : Mat) : Option Mat :=
  match rank n dbg m with
  | none => none
  | some (rk, mk) =>
    let minv0 : Mat := (identity n).map (fun r => r &&& mk)
    if dbg && rank n dbg minv0 != rank n dbg m then none else     -- debug_assert!(minv.rank() == self.rank())
    -- `idx = [0u8; 256]`, filled with the set bits of `mask` in increasing order
    let sel := (List.range n).filter (fun j => mk.testBit j)
    let idx := sel ++ List.replicate (256 - sel.length) 0
    if ¬ rk ≤ 256 then none else                                  -- `&idx[..rk]`
    let rows0 : Rows := (List.range n).map (fun k => (row m k, row minv0 k))
    match pinvForward n dbg (idx.take rk) rows0 with
    | none => none
    | some rows1 =>
      match (List.range rk).foldlM (pinvBackStep n dbg idx rk) rows1 with
      | none => none
      | some rows2 =>
        let minv : Mat := rows2.map (·.2)
        if dbg && rank n dbg minv != rank n dbg m then none       -- debug_assert!(minv.rank() == self.rank())
        else some minv

/-- forward elimination of `inverse`: `for i in 0..LSIZE`; `some none` = `return None` -/
def invForward (n : Nat) (dbg : Bool) : List Nat → Rows → Option (Option Rows)
  | [], rows => some (some rows)
  | i :: is, rows =>
    match position n i rows with
    | none => some none                                          -- `return None`
    | some j =>
      match elimCol n dbg i j rows with
      | none => none
      | some rows' => invForward n dbg is rows'

/-- body of the second loop of `inverse` for `i = LSIZE - 1 - i'` -/
def invBackStep (n : Nat) (dbg : Bool) (rows : Rows) (i' : Nat) : Option Rows :=
  let i := n - 1 - i'
  let r := (rows.getD i (0, 0)).1
  let rows' := (List.range n).foldl (fun (rows : Rows) j =>
    if i < j ∧ r.testBit j then xorRow rows i j else rows) rows
  if dbg && (rows'.getD i (0, 0)).1 != 1 <<< i then none          -- debug_assert!(m.0[i] == 1 << i)
  else some rows'

/-- `SmallMat::inverse`: `none` = panic, `some none` = `None`, `some (some w)` = `Some(w)` -/
def inverse (n : Nat) (dbg : Bool) (m : Mat) : Option (Option Mat) :=
  let rows0 : Rows := (List.range n).map (fun k => (row m k, 1 <<< k))
  match invForward n dbg (List.range n) rows0 with
  | none => none
  | some none => some none
  | some (some rows1) =>
    match (List.range n).foldlM (invBackStep n dbg) rows1 with
    | none => none
    | some rows2 => some (some (rows2.map (·.2)))

/-- `&SmallMat * &SmallMat` / `&Block * &SmallMat` as the defining sum (the code's rotation trick is
`muladd`; equality is sampled by the request `sm_mul`): row `a` of the left factor selects rows of `b` -/
def comb (a : Nat) : Mat → Nat → Nat
  | [], _ => 0
  | b :: bs, k => (if a.testBit k then b else 0) ^^^ comb a bs (k + 1)

def mul (a b : Mat) : Mat := a.map (fun r => comb r b 0)

end Ymq.Gf2Small
