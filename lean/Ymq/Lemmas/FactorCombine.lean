/-
The divisor-combination loop of `factor_impl` (lib.rs:506-535; model: `retainPass`,
`retainDivZero`, `splitPass`, `combineDiv`, `combineDivs`).
-/
import Ymq.Lemmas.FactorBasic
import Mathlib.Data.Nat.GCD.Basic
import Mathlib.Algebra.BigOperators.Group.List.Lemmas

namespace Ymq.Factor

/-- key arithmetic fact behind `assert!(residue.is_one())` -/
theorem div_gcd_dvd_of_dvd_mul {f r m : Nat} (hf : 0 < f) (h : r ∣ f * m) :
    r / Nat.gcd f r ∣ m := by
  have hg : 0 < Nat.gcd f r := Nat.gcd_pos_of_pos_left r hf
  have hcop : Nat.Coprime (f / Nat.gcd f r) (r / Nat.gcd f r) := Nat.coprime_div_gcd_div_gcd hg
  have hr : r = Nat.gcd f r * (r / Nat.gcd f r) := (Nat.mul_div_cancel' (Nat.gcd_dvd_right f r)).symm
  have hf' : f = Nat.gcd f r * (f / Nat.gcd f r) := (Nat.mul_div_cancel' (Nat.gcd_dvd_left f r)).symm
  have h2 : Nat.gcd f r * (r / Nat.gcd f r) ∣ Nat.gcd f r * ((f / Nat.gcd f r) * m) := by
    rw [← Nat.mul_assoc, ← hf', ← hr]; exact h
  have h3 : r / Nat.gcd f r ∣ (f / Nat.gcd f r) * m := Nat.dvd_of_mul_dvd_mul_left hg h2
  exact hcop.symm.dvd_of_dvd_mul_left h3

/-! ### `retainPass` -/

theorem retainPass_cons (f : Nat) (fs : List Nat) (r : Nat) :
    retainPass (f :: fs) r =
      if Nat.gcd f r ≠ f ∧ Nat.gcd f r ≠ 1 then
        ((retainPass fs (r / Nat.gcd f r)).1, f :: (retainPass fs (r / Nat.gcd f r)).2.1,
          (retainPass fs (r / Nat.gcd f r)).2.2)
      else
        (f :: (retainPass fs (r / Nat.gcd f r)).1, (retainPass fs (r / Nat.gcd f r)).2.1,
          (retainPass fs (r / Nat.gcd f r)).2.2) := by
  rw [retainPass]

/-- kept and split elements are exactly the input elements -/
theorem retainPass_perm (facs : List Nat) (r : Nat) :
    ((retainPass facs r).1 ++ (retainPass facs r).2.1).Perm facs := by
  induction facs generalizing r with
  | nil => simp [retainPass]
  | cons f fs ih =>
    rw [retainPass_cons]
    split
    · exact (List.perm_middle).trans (List.Perm.cons f (ih _))
    · exact List.Perm.cons f (ih _)

/-- **`retain_residue_one`**: if all current factors are positive and `d` divides their
product, the residue left by the `retain` pass is 1 and no `residue /= gcd` divides by zero. -/
theorem retainPass_residue_one (facs : List Nat) (d : Nat) (hpos : ∀ f ∈ facs, 0 < f)
    (hd : d ∣ facs.prod) : (retainPass facs d).2.2 = 1 ∧ retainDivZero facs d = false := by
  induction facs generalizing d with
  | nil =>
    simp only [List.prod_nil, Nat.dvd_one] at hd
    simp [retainPass, retainDivZero, hd]
  | cons f fs ih =>
    have hf : 0 < f := hpos f (by simp)
    have hg : 0 < Nat.gcd f d := Nat.gcd_pos_of_pos_left d hf
    have hd' : d / Nat.gcd f d ∣ fs.prod := by
      rw [List.prod_cons] at hd
      exact div_gcd_dvd_of_dvd_mul hf hd
    obtain ⟨ih1, ih2⟩ := ih (d / Nat.gcd f d) (fun x hx => hpos x (by simp [hx])) hd'
    constructor
    · rw [retainPass_cons]; split <;> exact ih1
    · rw [retainDivZero]
      simp only [Bool.or_eq_false_iff, decide_eq_false_iff_not]
      exact ⟨by omega, ih2⟩

/-! ### `splitPass` -/

theorem splitPass_prod (l : List Nat) (r : Nat) : (splitPass l r).prod = l.prod := by
  induction l generalizing r with
  | nil => simp [splitPass]
  | cons f fs ih =>
    rw [splitPass]
    split
    · simp only [List.prod_cons, ih]
      rw [← Nat.mul_assoc, Nat.div_mul_cancel (Nat.gcd_dvd_left f r)]
    · simp only [List.prod_cons, ih]

/-- every element produced by the second loop divides an input element and is 1 only if that
input element is 1 (so: no new 1, no new 0) -/
theorem splitPass_mem (l : List Nat) (r : Nat) :
    ∀ x ∈ splitPass l r, ∃ f ∈ l, x ∣ f ∧ (x = 1 → f = 1) := by
  induction l generalizing r with
  | nil => simp [splitPass]
  | cons f fs ih =>
    rw [splitPass]
    split
    · rename_i hsp
      obtain ⟨hgf, hg1⟩ := hsp
      intro x hx
      simp only [List.mem_cons] at hx
      rcases hx with rfl | rfl | hx
      · refine ⟨f, by simp, Nat.div_dvd_of_dvd (Nat.gcd_dvd_left f r), ?_⟩
        intro h1
        have hdvd := Nat.gcd_dvd_left f r
        have := Nat.div_mul_cancel hdvd
        rw [h1, Nat.one_mul] at this
        exact absurd this hgf
      · exact ⟨f, by simp, Nat.gcd_dvd_left f r, fun h => absurd h hg1⟩
      · obtain ⟨f', hf', h1, h2⟩ := ih _ x hx
        exact ⟨f', by simp [hf'], h1, h2⟩
    · intro x hx
      simp only [List.mem_cons] at hx
      rcases hx with rfl | hx
      · exact ⟨x, by simp, Nat.dvd_refl _, id⟩
      · obtain ⟨f', hf', h1, h2⟩ := ih _ x hx
        exact ⟨f', by simp [hf'], h1, h2⟩

/-! ### `combineDiv`, `combineDivs` -/

theorem combineDiv_eq (facs : List Nat) (d : Nat) :
    combineDiv facs d =
      if retainDivZero facs d then .panic "division by zero in residue /= gcd"
      else if (retainPass facs d).2.2 ≠ 1 then .panic "assert!(residue.is_one())"
      else .ok ((retainPass facs d).1 ++ splitPass (retainPass facs d).2.1 d) := by
  unfold combineDiv
  rfl

/-- **`combineDiv_prod`** (for ANY `d`): a successful combination step keeps the product, and
every new element divides an old one and is 1 only if that old one is 1. -/
theorem combineDiv_ok {facs facs' : List Nat} {d : Nat} (h : combineDiv facs d = .ok facs') :
    facs'.prod = facs.prod ∧ ∀ x ∈ facs', ∃ f ∈ facs, x ∣ f ∧ (x = 1 → f = 1) := by
  rw [combineDiv_eq] at h
  split at h
  · exact absurd h (by simp)
  · split at h
    · exact absurd h (by simp)
    · injection h with h
      subst h
      have hperm := retainPass_perm facs d
      constructor
      · rw [List.prod_append, splitPass_prod, ← List.prod_append]
        exact hperm.prod_eq
      · intro x hx
        rcases List.mem_append.mp hx with hx | hx
        · exact ⟨x, hperm.subset (List.mem_append_left _ hx), Nat.dvd_refl _, id⟩
        · obtain ⟨f, hf, h1, h2⟩ := splitPass_mem _ _ x hx
          exact ⟨f, hperm.subset (List.mem_append_right _ hf), h1, h2⟩

/-- **`combineDiv_no_panic`**: with positive factors and `d` a divisor of their product neither
the division nor `assert!(residue.is_one())` can fail. -/
theorem combineDiv_no_panic (facs : List Nat) (d : Nat) (hpos : ∀ f ∈ facs, 0 < f)
    (hd : d ∣ facs.prod) : ∃ facs', combineDiv facs d = .ok facs' := by
  obtain ⟨h1, h2⟩ := retainPass_residue_one facs d hpos hd
  rw [combineDiv_eq]
  simp [h1, h2]

theorem combineDiv_ne_fuel (facs : List Nat) (d : Nat) : combineDiv facs d ≠ .fuel := by
  rw [combineDiv_eq]
  split
  · simp
  · split <;> simp

theorem combineDivs_ne_fuel (facs ds : List Nat) : combineDivs facs ds ≠ .fuel := by
  induction ds generalizing facs with
  | nil => simp [combineDivs]
  | cons d ds ih =>
    rw [combineDivs]
    split
    · exact ih _
    · simp
    · rename_i h; exact absurd h (combineDiv_ne_fuel _ _)

theorem combineDivs_ok {facs facs' ds : List Nat} (h : combineDivs facs ds = .ok facs') :
    facs'.prod = facs.prod ∧ ∀ x ∈ facs', ∃ f ∈ facs, x ∣ f ∧ (x = 1 → f = 1) := by
  induction ds generalizing facs with
  | nil =>
    simp only [combineDivs] at h
    injection h with h; subst h
    exact ⟨rfl, fun x hx => ⟨x, hx, Nat.dvd_refl _, id⟩⟩
  | cons d ds ih =>
    rw [combineDivs] at h
    split at h
    · rename_i facs1 h1
      obtain ⟨hp1, hm1⟩ := combineDiv_ok h1
      obtain ⟨hp2, hm2⟩ := ih h
      refine ⟨hp2.trans hp1, ?_⟩
      intro x hx
      obtain ⟨f1, hf1, hd1, ho1⟩ := hm2 x hx
      obtain ⟨f, hf, hd, ho⟩ := hm1 f1 hf1
      exact ⟨f, hf, Nat.dvd_trans hd1 hd, fun h => ho (ho1 h)⟩
    · exact absurd h (by simp)
    · exact absurd h (by simp)

theorem combineDivs_no_panic (facs ds : List Nat) (hpos : ∀ f ∈ facs, 0 < f)
    (hd : ∀ d ∈ ds, d ∣ facs.prod) : ∃ facs', combineDivs facs ds = .ok facs' := by
  induction ds generalizing facs with
  | nil => exact ⟨facs, by simp [combineDivs]⟩
  | cons d ds ih =>
    obtain ⟨facs1, h1⟩ := combineDiv_no_panic facs d hpos (hd d (by simp))
    obtain ⟨hp1, hm1⟩ := combineDiv_ok h1
    rw [combineDivs, h1]
    refine ih facs1 ?_ ?_
    · intro x hx
      obtain ⟨f, hf, hdv, _⟩ := hm1 x hx
      exact Nat.pos_of_dvd_of_pos hdv (hpos f hf)
    · intro d' hd'
      rw [hp1]; exact hd d' (by simp [hd'])

/-- the combination loop started from `[n]`: product `n`, every element divides `n`, no 1 unless
`n = 1` -/
theorem combineDivs_single {n : Nat} {ds facs : List Nat} (h : combineDivs [n] ds = .ok facs) :
    facs.prod = n ∧ ∀ x ∈ facs, x ∣ n ∧ (x = 1 → n = 1) := by
  obtain ⟨hp, hm⟩ := combineDivs_ok h
  refine ⟨by simpa using hp, ?_⟩
  intro x hx
  obtain ⟨f, hf, h1, h2⟩ := hm x hx
  simp only [List.mem_singleton] at hf
  subst hf
  exact ⟨h1, h2⟩

end Ymq.Factor
