/-
The entry point `factor`: trial division, the inner run, `check_factors` and sort.
-/
import Ymq.Lemmas.FactorInv
import Mathlib.Tactic.NormNum.Prime

namespace Ymq.Factor

open Ymq.Gen.Primality

variable {σ : Type}

/-! ### trial division -/

theorem trialGo_spec (p : Nat) : ∀ (k nred : Nat) (fs : List Nat),
    (trialDivideBy.go p k nred fs).2.prod * (trialDivideBy.go p k nred fs).1 = fs.prod * nred ∧
    ∃ ext, (trialDivideBy.go p k nred fs).2 = fs ++ ext ∧ ∀ x ∈ ext, x = p := by
  intro k
  induction k with
  | zero => intro nred fs; rw [trialDivideBy.go]; exact ⟨rfl, [], by simp, by simp⟩
  | succ k ih =>
    intro nred fs
    rw [trialDivideBy.go]
    split
    · rename_i hmod
      obtain ⟨h1, ext, h2, h3⟩ := ih (nred / p) (fs ++ [p])
      refine ⟨?_, p :: ext, by rw [h2]; simp, ?_⟩
      · rw [h1, List.prod_append, List.prod_singleton, Nat.mul_assoc,
          Nat.mul_div_cancel' (Nat.dvd_of_mod_eq_zero hmod)]
      · intro x hx
        rcases List.mem_cons.mp hx with rfl | hx
        · rfl
        · exact h3 x hx
    · exact ⟨rfl, [], by simp, by simp⟩

/-- **trial division lemma**: the factors found multiply with the cofactor back to the input,
and all of them come from the list of primes given. -/
theorem trialDivideBy_spec (fuel : Nat) : ∀ (ps : List Nat) (nred : Nat) (fs : List Nat),
    (trialDivideBy fuel ps nred fs).2.prod * (trialDivideBy fuel ps nred fs).1 = fs.prod * nred ∧
    ∃ ext, (trialDivideBy fuel ps nred fs).2 = fs ++ ext ∧ ∀ x ∈ ext, x ∈ ps := by
  intro ps
  induction ps with
  | nil => intro nred fs; rw [trialDivideBy]; exact ⟨rfl, [], by simp, by simp⟩
  | cons p ps ih =>
    intro nred fs
    rw [trialDivideBy]
    obtain ⟨g1, gext, g2, g3⟩ := trialGo_spec p fuel nred fs
    obtain ⟨h1, ext, h2, h3⟩ := ih (trialDivideBy.go p fuel nred fs).1 (trialDivideBy.go p fuel nred fs).2
    refine ⟨by rw [h1, g1], gext ++ ext, by rw [h2, g2, List.append_assoc], ?_⟩
    intro x hx
    rcases List.mem_append.mp hx with hx | hx
    · rw [g3 x hx]; simp
    · exact List.mem_cons_of_mem _ (h3 x hx)

/-- the trial-division step of `factor` -/
def trialDiv (n : Nat) : Nat × List Nat := trialDivideBy 1100 smallPrimes n []

/-- the value handed to `factor_impl` by `factor`: `n` with the 46 small primes divided out -/
theorem trialDiv_def (n : Nat) : trialDiv n = trialDivideBy 1100 smallPrimes n [] := rfl

theorem trialDiv_spec (n : Nat) :
    (trialDiv n).2.prod * (trialDiv n).1 = n ∧ ∀ x ∈ (trialDiv n).2, x ∈ smallPrimes := by
  obtain ⟨h1, ext, h2, h3⟩ := trialDivideBy_spec 1100 smallPrimes n []
  refine ⟨by simpa [trialDiv] using h1, ?_⟩
  intro x hx
  unfold trialDiv at hx
  rw [h2, List.nil_append] at hx
  exact h3 x hx

theorem smallPrimes_prime : ∀ p ∈ smallPrimes, Nat.Prime p := by
  intro p hp
  simp only [smallPrimes, List.mem_cons, List.not_mem_nil, or_false] at hp
  rcases hp with h | h | h | h | h | h | h | h | h | h | h | h | h | h | h | h | h | h | h | h | h |
    h | h | h | h | h | h | h | h | h | h | h | h | h | h | h | h | h | h | h | h | h | h | h | h | h <;>
    (subst h; norm_num)

theorem smallPrimes_ge_two : ∀ p ∈ smallPrimes, 2 ≤ p :=
  fun p hp => (smallPrimes_prime p hp).two_le

theorem trialDiv_cofactor_pos {n : Nat} (hn : n ≠ 0) : 1 ≤ (trialDiv n).1 := by
  have h := (trialDiv_spec n).1
  rcases Nat.eq_zero_or_pos (trialDiv n).1 with h0 | h0
  · rw [h0, Nat.mul_zero] at h; exact absurd h.symm hn
  · exact h0

theorem trialDiv_cofactor_le {n : Nat} (hn : n ≠ 0) : (trialDiv n).1 ≤ n := by
  have h := (trialDiv_spec n).1
  exact Nat.le_of_dvd (by omega) ⟨(trialDiv n).2.prod, by rw [Nat.mul_comm]; exact h.symm⟩

set_option exponentiation.threshold 1100 in
theorem lt_U_of_lt_two_pow {n k : Nat} (h : n < 2 ^ k) (hk : k ≤ 1024) : n < U := by
  have h2 : ∀ m : Nat, k ≤ m → n < 2 ^ m := fun m hm =>
    Nat.lt_of_lt_of_le h (Nat.pow_le_pow_right (Nat.succ_pos 1) hm)
  exact h2 1024 hk

/-! ### the entry point unfolded -/

def initSt (os : σ) (fs : List Nat) : St σ :=
  { os := os, factors := fs, pm1done := false, giveups := [] }

/-- the `factor_impl` call made by `factor` (after trial division) -/
def factorRun (o : Oracle σ) (fuel n : Nat) (alg : Algo) (os : σ) : Res (St σ) :=
  factorImpl o fuel (trialDiv n).1 alg (initSt os (trialDiv n).2)

/-- the give-up log of the `factor_impl` call made by `factor` (empty if it did not succeed) -/
def factorGiveups (o : Oracle σ) (fuel n : Nat) (alg : Algo) (os : σ) : List Nat :=
  match factorRun o fuel n alg os with
  | .ok s => s.giveups
  | _ => []

theorem factor_eq (o : Oracle σ) (fuel n : Nat) (alg : Algo) (os : σ) :
    factor o fuel n alg os =
      if n = 0 then .ok [0]
      else if bits n > 500 then .failure
      else match factorRun o fuel n alg os with
        | .panic e => .panic e
        | .fuel => .fuel
        | .ok s => checkFactors o s.os n s.factors := by
  unfold factor factorRun trialDiv initSt
  generalize trialDivideBy 1100 smallPrimes n [] = td
  obtain ⟨a, b⟩ := td
  rfl

theorem checkProduct_ok {n : Nat} {fs l : List Nat} (h : checkProduct n fs = .ok l) :
    l = sortNat fs ∧ n % U = fs.prod % U := by
  unfold checkProduct at h
  split at h
  · exact absurd h (by simp)
  · rename_i hp
    injection h with h
    exact ⟨h.symm, by simpa using hp⟩

theorem checkFactors_ok {o : Oracle σ} {os : σ} {n : Nat} {fs l : List Nat}
    (h : checkFactors o os n fs = .ok l) : l = sortNat fs ∧ n % U = fs.prod % U := by
  unfold checkFactors at h
  split at h
  · split at h
    · exact absurd h (by simp)
    · split at h
      · exact absurd h (by simp)
      · exact checkProduct_ok h
  · exact checkProduct_ok h

/- from here on `trialDiv` is used only through `trialDiv_spec` (unfolding it on an open term is
costly: 46 primes × fuel 1100) -/
attribute [irreducible] trialDiv

/-- `factor(1)`: trial division finds nothing and `factor_impl(1)` returns at once -/
theorem factorRun_one {o : Oracle σ} {fuel : Nat} {alg : Algo} {os : σ} {s' : St σ}
    (hrun : factorRun o fuel 1 alg os = .ok s') : s'.factors = [] := by
  have hspec := trialDiv_spec 1
  have hc : (trialDiv 1).1 = 1 := Nat.eq_one_of_mul_eq_one_left hspec.1
  have hfs : (trialDiv 1).2 = [] := by
    have hp : (trialDiv 1).2.prod = 1 := Nat.eq_one_of_mul_eq_one_right hspec.1
    cases hl : (trialDiv 1).2 with
    | nil => rfl
    | cons x xs =>
      have hx : x ∈ (trialDiv 1).2 := by rw [hl]; simp
      have h2 := smallPrimes_ge_two x (hspec.2 x hx)
      have hd : x ∣ 1 := hp ▸ List.dvd_prod hx
      have := Nat.le_of_dvd (by omega) hd
      omega
  unfold factorRun at hrun
  rw [hc, hfs] at hrun
  cases fuel with
  | zero => rw [factorImpl_zero] at hrun; exact absurd hrun (by simp)
  | succ fuel =>
    rw [factorImpl_succ, factorStep_one] at hrun
    injection hrun with hrun
    subst hrun
    rfl

/-- when the vector multiplies to `n`, `check_factors` cannot panic -/
theorem checkFactors_of_prod (o : Oracle σ) (os : σ) (n : Nat) (fs : List Nat) (h : fs.prod = n) :
    checkFactors o os n fs = .ok (sortNat fs) ∨ checkFactors o os n fs = .failure := by
  have hcp : checkProduct n fs = .ok (sortNat fs) := by
    unfold checkProduct; simp [h]
  unfold checkFactors
  split
  · rename_i p
    have : n = p := by simpa using h.symm
    subst this
    simp only [ne_eq, not_true_eq_false, if_false]
    split
    · exact Or.inr rfl
    · exact Or.inl hcp
  · exact Or.inl hcp

/-- under the contract the vector after a successful inner run multiplies to exactly `n` -/
theorem factorRun_prod {o : Oracle σ} (hok : OracleOK o) {fuel n : Nat} {alg : Algo} {os : σ}
    {s' : St σ} (h0 : n ≠ 0) (hrun : factorRun o fuel n alg os = .ok s') : s'.factors.prod = n := by
  obtain ⟨new, hf, hp⟩ := factorImpl_mul hok alg fuel _ _ s' (trialDiv_cofactor_pos h0) hrun
  rw [hf, List.prod_append, hp]
  exact (trialDiv_spec n).1

/-- **totality of the entry point** from totality of the inner run. The selector precondition
and the fuel bound are on the value AFTER trial division — the one lib.rs asserts on
(`assert!(n.bits() <= 64)` sits in `factor_impl`). -/
theorem factor_total_aux {o : Oracle σ} (hok : OracleOK o) (fuel n : Nat) (alg : Algo) (os : σ)
    (hsel : SelectorPre alg (trialDiv n).1) (hfuel : bits (trialDiv n).1 ≤ fuel) :
    (∃ l, factor o fuel n alg os = .ok l ∧ l.prod = n) ∨ factor o fuel n alg os = .failure := by
  rw [factor_eq]
  split
  · rename_i h0; exact Or.inl ⟨[0], rfl, by simp [h0]⟩
  · rename_i h0
    split
    · exact Or.inr rfl
    · obtain ⟨s', hs'⟩ := factorImpl_total_aux hok alg fuel (trialDiv n).1
        (initSt os (trialDiv n).2) (trialDiv_cofactor_pos h0) hfuel hsel
      have hrun : factorRun o fuel n alg os = .ok s' := hs'
      rw [hrun]
      have hprod := factorRun_prod hok h0 hrun
      rcases checkFactors_of_prod o s'.os n s'.factors hprod with h | h
      · exact Or.inl ⟨_, h, by rw [sortNat_prod, hprod]⟩
      · exact Or.inr h

/-- the hypotheses on the input `n` imply those on the trial-divided value -/
theorem pre_of_input {alg : Algo} {n fuel : Nat} (hsel : SelectorPre alg n) (hfuel : bits n ≤ fuel) :
    SelectorPre alg (trialDiv n).1 ∧ bits (trialDiv n).1 ≤ fuel := by
  have hle : (trialDiv n).1 ≤ n := by
    by_cases h0 : n = 0
    · subst h0
      have h := (trialDiv_spec 0).1
      rcases Nat.mul_eq_zero.mp h with h1 | h1
      · have hmem : (0 : Nat) ∈ (trialDiv 0).2 := List.prod_eq_zero_iff.mp h1
        have := smallPrimes_ge_two 0 ((trialDiv_spec 0).2 0 hmem)
        omega
      · omega
    · exact trialDiv_cofactor_le h0
  exact ⟨hsel.mono hle, Nat.le_trans (bits_le_of_le hle) hfuel⟩

/-- A successful `factor` call, unfolded: `n = 0` or an accepted size, a successful inner run
whose vector (sorted) is the answer. -/
theorem factor_ok {o : Oracle σ} {fuel n : Nat} {alg : Algo} {os : σ} {l : List Nat}
    (h : factor o fuel n alg os = .ok l) :
    (n = 0 ∧ l = [0]) ∨
    (n ≠ 0 ∧ ∃ s', factorRun o fuel n alg os = .ok s' ∧ l = sortNat s'.factors ∧
      n % U = s'.factors.prod % U) := by
  rw [factor_eq] at h
  split at h
  · rename_i h0
    injection h with h
    exact Or.inl ⟨h0, h.symm⟩
  · rename_i h0
    split at h
    · exact absurd h (by simp)
    · split at h
      · exact absurd h (by simp)
      · exact absurd h (by simp)
      · rename_i s' hs'
        exact Or.inr ⟨h0, s', hs', checkFactors_ok h⟩

end Ymq.Factor
