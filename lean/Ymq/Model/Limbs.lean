/-
Shared limb library: multiword naturals as little-endian lists of 64-bit words.

This file is the executable half (no Mathlib: it is linked into the native driver); the
lemmas are in `Ymq/Lemmas/Limbs.lean`. It is used by the models of `arith_montgomery`
(C07) and is meant to be reused by the gcd / division / convolution models (C08, C09, C10).

Conventions
* a Rust `[u64; N]` / `&[u64]` is a `List Nat` (index 0 = least significant word); the
  value of a list is `val l = Σ l[i]·W^i`, `W = 2^64`. The functions below are *total* on
  arbitrary `Nat` entries; the lemmas assume `Wf l` (every entry `< W`) where they need it.
* a Rust inner loop `for j in 0..sz { (x[j], carry) = f(x[j], y[j], carry) }` is a structural
  recursion over the zipped lists that returns the list of low words and the final carry.
  Callers cut the operands to `sz` words with `List.take`.
* `u128` intermediate values are plain `Nat`s; the lemmas show they never exceed `W^2 - 1`.
-/
namespace Ymq.Limbs

/-- 2^64 -/
def W : Nat := 18446744073709551616

/-- value of a little-endian word list: `val [a0, a1, ...] = a0 + W·a1 + W²·a2 + ...` -/
def val : List Nat → Nat
  | [] => 0
  | a :: as => a + W * val as

/-- every entry is a 64-bit word -/
def Wf (l : List Nat) : Prop := ∀ a ∈ l, a < W

/-- executable form of `Wf` -/
def wfb (l : List Nat) : Bool := l.all (fun a => decide (a < W))

/-- `k` zero words -/
def zeros (k : Nat) : List Nat := List.replicate k 0

/-- the `k` low words of `x` (i.e. `x mod W^k`), little endian: `Uint::digits()[..k]` -/
def ofNat : Nat → Nat → List Nat
  | 0, _ => []
  | k + 1, x => x % W :: ofNat k (x / W)

/-- number of 64-bit words of `x` = `(x.bits() + 63) / 64` (0 for x = 0); fuel = `x` suffices -/
def nwordsAux : Nat → Nat → Nat
  | 0, _ => 0
  | f + 1, x => if x = 0 then 0 else 1 + nwordsAux f (x / W)

def nwords (x : Nat) : Nat := nwordsAux 200 x

/-- bitwise complement of every word: `!y[i]` -/
def compl (l : List Nat) : List Nat := l.map (fun y => W - 1 - y)

/-- add-with-carry row: `t = x[i] + y[i] + carry; x[i] = t as u64; carry = t >> 64`
over the common length of the two lists. Returns (low words, final carry). -/
def addc : List Nat → List Nat → Nat → List Nat × Nat
  | x :: xs, y :: ys, c =>
    let t := x + y + c
    let r := addc xs ys (t / W)
    (t % W :: r.1, r.2)
  | _, _, c => ([], c)

/-- subtract-with-borrow row in the form the Rust code uses: `x + !y + carry`
(initial carry 1 gives `x - y`; a final carry 1 means "no borrow"). -/
def subc (xs ys : List Nat) (c : Nat) : List Nat × Nat := addc xs (compl ys) c

/-- multiply-accumulate row: `t = a*y[j] + z[j] + carry; z[j] = t as u64; carry = t >> 64`
over the common length of `ys` and `zs`. Returns (new low words of `z`, final carry). -/
def macRow (a : Nat) : List Nat → List Nat → Nat → List Nat × Nat
  | y :: ys, z :: zs, c =>
    let t := a * y + z + c
    let r := macRow a ys zs (t / W)
    (t % W :: r.1, r.2)
  | _, _, c => ([], c)

/-- add the word `c` into the first word of `l` and ripple the carry upwards
(`overflowing_add` loop). `none` when a non-zero carry leaves the last word. -/
def addWord : List Nat → Nat → Option (List Nat)
  | l, 0 => some l
  | [], _ + 1 => none
  | a :: as, c + 1 =>
    let t := a + (c + 1)
    match addWord as (t / W) with
    | none => none
    | some r => some (t % W :: r)

/-- big-endian lexicographic "less than" (most significant word first):
`for idx in (0..sz).rev() { if x[idx] == n[idx] { continue }; return x[idx] < n[idx] }; false` -/
def ltBE : List Nat → List Nat → Bool
  | x :: xs, n :: ns => if x = n then ltBE xs ns else decide (x < n)
  | _, _ => false

/-- `x < n` on little-endian lists of equal length, scanning from the top word down -/
def ltWords (xs ns : List Nat) : Bool := ltBE xs.reverse ns.reverse

/-- all entries zero -/
def allZero (l : List Nat) : Bool := l.all (fun a => a == 0)

end Ymq.Limbs
