/-
C02 ∘ C06: the control-flow theorem of C02 with the primality oracle instantiated by the MODEL of
`pseudoprime` (Ymq/Model/Pseudoprime.lean, tied to the code under C06), and C06's soundness of
the 64-bit test. Kept in its own module so that neither property's file depends on the other.
-/
import Ymq.Props.C02
import Ymq.Props.C06

namespace Ymq.C02
open Ymq.Factor Ymq.Pseudoprime Ymq.Mg64

variable {σ : Type}

/-- `auto_complete` with a soundness hypothesis restricted to a class `P` of numbers: with no
give-up event, every appended element of class `P` is prime. -/
theorem auto_complete_on (o : Oracle σ) (P : Nat → Prop)
    (hsound : ∀ t m, P m → (o.prime t m).1 = true → Nat.Prime m)
    (fuel n : Nat) (alg : Algo) (s s' : St σ) (h : factorImpl o fuel n alg s = .ok s')
    (hg : s'.giveups = []) :
    ∃ new, s'.factors = s.factors ++ new ∧ ∀ x ∈ new, P x → Nat.Prime x := by
  obtain ⟨new, gnew, h1, h2, h3⟩ := auto_composite_needs_giveup o fuel n alg s s' h
  rw [hg] at h2
  have hgn : gnew = [] := (List.append_eq_nil_iff.mp h2.symm).2
  refine ⟨new, h1, ?_⟩
  intro x hx hP
  rcases h3 x hx with ⟨t, ht⟩ | hx'
  · exact hsound t x hP ht
  · rw [hgn] at hx'; simp at hx'

/-- an oracle whose primality field is the modelled `pseudoprime` (whatever its other fields do) -/
def UsesPseudoprime (o : Oracle σ) : Prop :=
  ∀ t m, (o.prime t m).1 = (pseudoprime m == some true)

/-- **Auto mode returns primes below 2^64** (model level): if the primality oracle is the modelled
`pseudoprime`, then under the three literature hypotheses of C06 (minimal strong pseudoprimes
ψ₂ = 1373653, ψ₅ = 2152302898747, ψ₁₂ > 2^64 — explicit hypotheses, not axioms), a run of
`factor_impl` that logged no give-up event appends only primes among its elements below 2^64.
Every other behaviour of the sub-algorithms is arbitrary. -/
theorem auto_complete_64 (o : Oracle σ) (hpp : UsesPseudoprime o)
    (Hψ2 : ∀ n, n % 2 = 1 → 1 < n → n < 1373653 → (∀ b ∈ [2, 3], SPRP n b) → Nat.Prime n)
    (Hψ5 : ∀ n, n % 2 = 1 → 1 < n → n < 2152302898747 →
      (∀ b ∈ [2, 3, 5, 7, 11], SPRP n b) → Nat.Prime n)
    (Hψ12 : ∀ n, n % 2 = 1 → 1 < n → n < 2 ^ 64 →
      (∀ b ∈ [2, 3, 5, 7, 11, 13, 17, 19, 23, 29, 31, 37], SPRP n b) → Nat.Prime n)
    (fuel n : Nat) (alg : Algo) (s s' : St σ) (h : factorImpl o fuel n alg s = .ok s')
    (hg : s'.giveups = []) :
    ∃ new, s'.factors = s.factors ++ new ∧ ∀ x ∈ new, x < 2 ^ 64 → Nat.Prime x := by
  refine auto_complete_on o (fun m => m < 2 ^ 64) ?_ fuel n alg s s' h hg
  intro t m hm ht
  rw [hpp t m] at ht
  have hps : pseudoprime m = some true := by
    cases hv : pseudoprime m with
    | none => rw [hv] at ht; simp at ht
    | some b => rw [hv] at ht; cases b <;> simp_all
  rw [C06.pseudoprime_eq_isprime64 m hm] at hps
  exact C06.isprime64_sound Hψ2 Hψ5 Hψ12 m hm hps

end Ymq.C02
