/- Modulus 1: trace of `gcd_internal(n, 1)` (the returned cofactor of `n` is never negative). -/
import Ymq.Lemmas.GcdTerm
namespace Ymq.Gcd

theorem M_half_pos {N : Nat} (hN : 0 < N) : 2 ≤ M N / 2 := by
  unfold M
  have : 2 ^ 64 ≤ 2 ^ (64 * N) := Nat.pow_le_pow_right (by decide) (by omega)
  omega

theorem chkB_small {N : Nat} (hN : 0 < N) {z : Int} (h1 : -1 ≤ z) (h2 : z ≤ 1) : chkB N z = some z := by
  have := M_half_pos hN
  exact chkB_of_range (by omega) (by omega)

theorem chkI64_nat {n : Nat} (hn63 : n < 9223372036854775808) : chkI64 (n : Int) = some (n : Int) := by
  have hI : I63 = 9223372036854775808 := rfl
  exact chkI64_of_range (by rw [hI]; omega) (by rw [hI]; omega)

theorem chkI64_neg_nat {n : Nat} (hn63 : n < 9223372036854775808) :
    chkI64 (-(n : Int)) = some (-(n : Int)) := by
  have hI : I63 = 9223372036854775808 := rfl
  exact chkI64_of_range (by rw [hI]; omega) (by rw [hI]; omega)

theorem egcdLoop_one_aux (f : Nat) (n : Int) (h_n : chkI64 n = some n) (h_0 : chkI64 0 = some 0)
    (h_1 : chkI64 1 = some 1) (h_m : chkI64 (-n) = some (-n)) :
    egcdLoop (f + 2) 1 n 0 1 1 0 = some (1, 0, 1) := by
  simp only [egcdLoop, Int.tdiv_one, mul_one, mul_zero, sub_zero, zero_sub, sub_self, h_n, h_0, h_1, h_m]
  simp

/-- `extended_gcd(n, 1)` on i64 -/
theorem egcdI64_one {n : Nat} (hn63 : n < 9223372036854775808) :
    egcdI64 n 1 = some (1, 0, 1) :=
  egcdLoop_one_aux 198 n (chkI64_nat hn63) (chkI64_nat (n := 0) (by decide))
    (chkI64_nat (n := 1) (by decide)) (chkI64_neg_nat hn63)


theorem bits_one : bits 1 = 1 := by decide

theorem asI64_mod {x : Nat} (h : bits x < 64) : asI64 (x % W) = (x : Int) := by
  have hx := lt_of_bits_lt_64 h
  rw [Nat.mod_eq_of_lt (by unfold W; omega), asI64_small hx]

/-- modulus 1, both operands below 64 bits: the returned cofactor of `n` is 0 or 1 -/
theorem gcdStep_small_one {N K : Nat} (hK : 0 < K) {n : Nat} (hn : 0 < n) (hb : bits n < 64) :
    gcdStep N K true (initSt n 1) = some (.ret 1 (if n = 1 then 1 else 0) (if n = 1 then 0 else 1)) := by
  have hn63 := lt_of_bits_lt_64 hb
  have hbn : bits n ≠ 0 := fun h0 => by have := bits_eq_zero.1 h0; omega
  have c0 : chkB K 0 = some 0 := chkB_small hK (by omega) (by omega)
  have c1 : chkB K 1 = some 1 := chkB_small hK (by omega) (by omega)
  have hW : (W : Int) = 18446744073709551616 := by simp [W]
  by_cases h1 : n = 1
  · subst h1
    have e := egcdI64_one (n := 1) (by decide)
    have ea : asI64 (1 % W) = ((1 : Nat) : Int) := asI64_mod (by decide)
    simp only [Nat.cast_one] at e ea
    simp [gcdStep, swapSt, initSt, bits_one, ea, e, lin2, c0, c1, hW]
  · have hge : ¬ 1 ≥ n := by omega
    have e := egcdI64_one hn63
    have ea : asI64 (n % W) = (n : Int) := asI64_mod hb
    have eb : asI64 (1 % W) = ((1 : Nat) : Int) := asI64_mod (by decide)
    simp only [Nat.cast_one] at eb
    simp [gcdStep, swapSt, initSt, hge, bits_one, hbn, hb, ea, eb, e, lin2, c0, c1, hW, h1]

/-- modulus 1, `n` of at least 64 bits: the iteration is a quotient step that ends in
`(x, y) = (1, 0)` with the row `(0, 1)` for `x` -/
theorem gcdStep_big_one {N : Nat} {n : Nat} (hb : 64 ≤ bits n) {st : Step}
    (h : gcdStep N K true (initSt n 1) = some st) :
    ∃ s', st = .next s' ∧ s'.x = 1 ∧ s'.y = 0 ∧ s'.A = 0 := by
  have hn2 : ¬ 1 ≥ n := by
    intro h1
    have : bits n ≤ bits 1 := bits_mono h1
    rw [bits_one] at this; omega
  have hbn : bits n ≠ 0 := by omega
  have hmax : max (bits n) 1 = bits n := Nat.max_eq_left (by omega)
  simp only [gcdStep, swapSt, initSt, hn2, if_false, bits_one, hbn, hmax] at h
  rw [if_neg (by omega), if_neg (by omega)] at h
  split at h
  · rename_i xtop ytop hxt hyt
    have hfb : (fallbackStep N K true { A := 1, B := 0, C := 0, D := 1, x := n, y := 1 }).map Step.next = some st := by
      split at h
      · exact h
      · rename_i hcond
        exfalso
        apply hcond
        by_cases hw : bits n + 36 ≥ N * 64
        · exact Or.inl hw
        · right; right
          rw [top64_toDigits N 1 (bits n) hb (by omega)] at hyt
          simp only [Option.some.injEq] at hyt
          have : 1 / 2 ^ (bits n - 64) % W ≤ 1 :=
            Nat.le_trans (Nat.mod_le _ _) (Nat.div_le_self _ _)
          omega
    simp only [Option.map_eq_some_iff] at hfb
    obtain ⟨s', hs', rfl⟩ := hfb
    refine ⟨s', rfl, ?_⟩
    unfold fallbackStep at hs'
    simp only [if_true, Nat.div_one, Nat.mul_one] at hs'
    split at hs'
    · simp at hs'
    · rename_i qy hqy
      obtain ⟨rfl, _⟩ := chkU_some hqy
      simp only [Nat.lt_irrefl, if_false, Nat.sub_self, Nat.zero_mul, Nat.zero_mod] at hs'
      rw [if_neg (by omega)] at hs'
      split at hs'
      · simp at hs'; subst hs'; simp
      · simp at hs'
  · simp at h

/-- an iteration in a state `(x, y) = (1, 0)` returns `(1, A, B)` -/
theorem gcdStep_x1_y0 {N : Nat} {ext : Bool} {s : St} (hx : s.x = 1) (hy : s.y = 0) :
    gcdStep N K ext s = some (.ret 1 s.A s.B) := by
  have hsw : swapSt s = s := by unfold swapSt; rw [if_neg (by omega)]
  unfold gcdStep
  simp only [hsw, hx, hy, bits_one]
  simp [bits]

/-- modulus 1: the cofactor of `n` returned by the extended gcd is never negative -/
theorem gcdLoop_one_nonneg {N K : Nat} (hK : 0 < K) {n : Nat} (hn : 0 < n) :
    ∀ (f : Nat) (d : Nat) (u v : Int), gcdLoop N K true f (initSt n 1) = some (d, u, v) → 0 ≤ u := by
  intro f d u v h
  cases f with
  | zero => simp [gcdLoop] at h
  | succ f =>
    unfold gcdLoop at h
    by_cases hb : bits n < 64
    · rw [gcdStep_small_one hK hn hb] at h
      simp only [Option.some.injEq, Prod.mk.injEq] at h
      obtain ⟨_, rfl, _⟩ := h
      split <;> omega
    · split at h
      · simp at h
      · rename_i d' u' v' hst
        obtain ⟨s', hs', _⟩ := gcdStep_big_one (by omega) hst
        simp at hs'
      · rename_i s' hst
        obtain ⟨s'', hs'', hx, hy, hA⟩ := gcdStep_big_one (by omega) hst
        simp only [Step.next.injEq] at hs''
        subst hs''
        cases f with
        | zero => simp [gcdLoop] at h
        | succ f =>
          unfold gcdLoop at h
          rw [gcdStep_x1_y0 hx hy] at h
          simp only [Option.some.injEq, Prod.mk.injEq] at h
          obtain ⟨_, rfl, _⟩ := h
          omega

end Ymq.Gcd
