"""C03 / C01 / C11 helper — qsieve64.rs inside the model (helper module: wired into props/c03.py by its owner).

Ops (harness/src/ops_qsieve64.rs, lean/Ymq/Drv/Qsieve64.lean):
  qs64_rels <n>   harness: k=<k> <body>                    body = early a,b | fb=<p,..> sq=<r,..> rels=<rel;..|-> | panic
                  (k = the multiplier the real select_multiplier chose; rels = what the real qsieve handed to final_step,
                  recorded by the observer of relations::final_step; relation tokens as in props/c11.py)
  qs64 <n>        harness: k=<k> kernel=<i,i;..|-> <result>  result = none | some a b | panic
                  (through qsieve64::qsieve directly; kernel = the vectors the real kernel solver returned)
The model needs k (f64 arithmetic of select_multiplier is not modelled) and, for `qs64`, the kernel vectors (C14): both
are taken from the implementation's answer by `followup`, which asks the Lean driver
  qs64_rels <n> <k>          -> <body>
  qs64 <n> <k> <kernel>      -> <result>
and the pipeline compares (K). The harness answers the 2/3-argument forms too (for file diffs).

Usage from props/c03.py:
    from props import c03_qs64 as q64
    LEAN += q64.LEAN; THEOREMS += q64.THEOREMS (audit: q64.AUDIT); MODELLED += q64.MODELLED; UNMODELLED += q64.UNMODELLED
    cases():     yield from q64.cases(tier, rng, extended)
    oracle():    if case.op in q64.OPS: return q64.oracle(case, ans)      (same for klass / nontrivial / finding_key)
    followup():  if case.op in q64.OPS: return q64.followup(case, ans)
"""
import math
import os
from vlib.pipeline import Case
from vlib import gen

OPS = ("qs64_rels", "qs64")
LEAN = ["Ymq.Props.C03Qs64"]
AUDIT = "Ymq.Audit.C03Qs64"
THEOREMS = [
    "Ymq.C03Qs64.qs64_relations_valid",
    "Ymq.C03Qs64.qs64_relations_finalRel",
    "Ymq.C03Qs64.qs64_uses_final_step",
    "Ymq.C03Qs64.qs64_proper",
    "Ymq.C03Qs64.qs64_improper_when_n_eq_k",
    "Ymq.C03Qs64.admissible_not_square",
    "Ymq.C03Qs64.admissible_of_guards",
    "Ymq.C03Qs64.qs64_no_panic_of_nonsquare",
    "Ymq.C03Qs64.qs64_no_panic",
    "Ymq.C03Qs64.qs64_square_nk_counterexample",
    "Ymq.C03Qs64.usesQs64_of_model",
]
HYPOTHESES = []
MODELLED = ["qsieve64::qsieve from its first line down to the call of relations::final_step and the lines after it (Ymq/Model/Qsieve64.lean): both early exits, "
            "FBase::new64 (sqrt_mod and Dividers::new of C08), the polynomial, every block of the sieve with its u8 accumulator, the i64 candidate arithmetic, "
            "trial division by Dividers::divmod64, the pending-cofactor map with RelationSet::combine (C11), the stop rule; every overflow / underflow / assertion / "
            "division site of the checked profile is an error of the model; final_step is the C11 model with the kernel vectors as input"]
UNMODELLED = ["select_multiplier (f64 scores): the multiplier k is an input of the model with the contract its integer part guarantees (1 <= k < 30, n*k < 2^64); "
              "the real k reaches the model through the follow-up request",
              "num_integer::sqrt is the floor square root (specification function, C08)",
              "no-panic of final_step itself on qsieve's relations (needs genuine kernel vectors: C11/C14) is explored (K/O), not proved"]
RULE = ("qsieve64::qsieve directly on u64: every reachable n (no prime factor <= 199, composite, not a perfect power) below 2*10^5 (quick: the first 30 and every 20th), semiprimes of every "
        "size 17..64 bits and every split, products of 3-4 primes >= 211, numbers next to 2^64/k for k < 30 (checked_add boundary of select_multiplier), squares and "
        "prime powers (early exit), n = s*m^2 with small s (n*k a perfect square: second early exit), numbers divisible by factor-base primes, the unit test's range "
        "2^49.., primes, and unguarded inputs 0..400 and even numbers (panics inside final_step: known findings); K through follow-ups with the real k and the real "
        "kernel; a recorded list of 126 reachable semiprimes of 17..64 bits (24 with n*k >= 2^62) must stay split (deterministic completeness floor); O: every relation handed to final_step is a congruence mod n over the reported factor base, the factor base is exactly the small primes with n*k a "
        "quadratic residue, the result is None or a proper split")
# QS64_ACCEPT_UNGUARDED=1: the three documented behaviours on inputs factor() never passes (finding keys below) are accepted by the oracle
# instead of being reported as (known) findings: for a stand-alone `./check C03_QS64` before the entries exist in known_findings.json
ACCEPT_UNGUARDED = os.environ.get("QS64_ACCEPT_UNGUARDED") == "1"
FINDING_EVEN = "qs64-direct-even-n"
FINDING_TINY = "qs64-direct-tiny-n-unreduced-operand"
FINDING_NK = "qs64-direct-n-equals-k"

W = 1 << 64
# Completeness floor (the oracle otherwise accepts `None`: the 64 blocks do not always suffice - measured on the unchanged code: 75 % / 55 % /
# 25 % of random reachable 62 / 63 / 64-bit semiprimes are split, above 99 % below 56 bits - so no rate is judged). qsieve is deterministic
# (the HashMap is never iterated), hence a FIXED list of reachable semiprimes n = p * q that the code splits today must stay split: two per
# bit length 17..55, four per 56..61, eight per 62..64 with n * k >= 2^62 (nsqrt >= 2^31), balanced and 1:2 splits, k = 1 and k > 1.
# Recorded 2026-09-26 on /repo 9a443f1+f24afb6, both profiles. n -> smaller prime factor.
FIXED_SPLITS = {
    91363: 211, 99653: 227, 145237: 311, 147463: 239,
    360991: 467, 406529: 223, 1034273: 1013, 714269: 223,
    1238053: 661, 1608031: 211, 3145421: 1583, 3758753: 239,
    6879449: 1759, 7504499: 241, 9143951: 2999, 11466163: 233,
    21487877: 3919, 23997241: 211, 44832941: 5503, 48337703: 223,
    127933853: 7927, 84458219: 401, 158032319: 11597, 166441939: 349,
    452427629: 15427, 412890853: 401, 541306393: 21011, 672497249: 967,
    1887442523: 32363, 1641460631: 977, 2484446579: 37967, 2860819063: 1019,
    6777495059: 53069, 6110040383: 1847, 9107683831: 77003, 11501304589: 1523,
    24480221123: 130619, 27178821251: 1637, 35260136479: 166919, 34555922111: 3371,
    113692244363: 259991, 135793221269: 4073, 201542932859: 445321, 227609300993: 3733,
    376759566947: 505907, 332852991719: 5659, 929347116937: 906973, 721404726187: 6607,
    1545779422483: 841931, 1269912913957: 7529, 3464277125461: 1658359, 2215166293133: 8429,
    4931879853289: 1997467, 5406082991999: 10559, 10278517557463: 2962417, 10070841800827: 9787,
    27108536164753: 3967837, 19928130345107: 32719, 35312786084833: 4731487, 46490083922083: 25153,
    97719864267551: 6377461, 83151446403301: 26203, 155656787614651: 9829037, 152740535821283: 37657,
    361399502887681: 13817267, 315467709095009: 39343, 842652075755213: 28451173, 712542758513479: 45589,
    2009795303179003: 32186677, 1655149398474269: 118747, 2664881966436761: 45072761, 2716775709177731: 96167,
    5724521174249561: 50540603, 4787403696376363: 89363, 9353534621834153: 78274463, 9585949382469311: 207569,
    29910395941976699: 130155007, 26561877996427199: 235489, 36699028467458473: 152157487, 42927931673391917: 247853,
    45030580658433949: 169035241, 53550190562104091: 221047, 115433862843738443: 222106987, 83560186150669661: 415631,
    99090013742358451: 255644863, 72737609800424683: 486163, 169800105637624513: 362379601, 225084786044061949: 478481,
    201144141515525111: 409899319, 271481098447003399: 498733, 415828060568946737: 406367317, 493882888209573827: 510121,
    306557140915920277: 455732653, 419834389577849711: 414857, 680473477195971553: 822815899, 610220165223241759: 569321,
    616671688115128097: 742103917, 889309447263758993: 923617, 1514916644209575259: 952284779, 1615863943162887181: 984149,
    1496559844872998803: 750262259, 1362371760754691153: 760841, 3342066241951520507: 1646706829, 2493814944516642863: 1410300449,
    2916601471288734623: 1039817, 2903194499624495567: 1673538553, 2626453759028305243: 752291, 3278436195322817173: 1705258889,
    3311785326733768919: 791311, 2326104200848426213: 1301683363, 8334006125137191689: 1989768733, 4786686093229187491: 1537295231,
    4737186263565676537: 1631731, 5662701515836543049: 1769501, 5059238085763060607: 1938969449, 6014771172042360677: 1905499,
    8338375355075994383: 1943990317, 5027183705019262307: 1511329, 11058119704125463397: 2022187, 13798059805671701737: 1639201,
    17045968099839097273: 4119486799, 17600220409130586509: 2079601, 9853607568917149997: 1867729, 9649689419786198137: 1457483,
    10358073198455825753: 2457161747, 15263568446629202599: 3594329633,
}

SMALL = [p for p in range(2, 200) if all(p % q for q in range(2, p))]


def is_power(n):
    if n < 4:
        return False
    for e in range(2, n.bit_length() + 1):
        r = round(n ** (1.0 / e))
        for c in (r - 1, r, r + 1):
            if c > 1 and c ** e == n:
                return True
    return False


def reachable(n):
    """what factor(n, Algo::Qs64) can hand to qsieve64::qsieve: fits u64, no prime factor <= 199, not a perfect power, composite"""
    return 1 < n < W and all(n % p for p in SMALL) and not is_power(n) and not gen.is_prime(n)


def nonsquare(m):
    return math.isqrt(m) ** 2 != m


# ---------------------------------------------------------------- generators

def cases(tier, rng, extended=False):
    quick = tier == "quick"
    mult = 1 if quick else 6
    if extended:
        mult *= 4
    seen = set()

    def emit(n, tag, both=True):
        if not (0 <= n < W) or n in seen:
            return
        seen.add(n)
        # `qs64_rels`: model and both profiles agree wherever n*k is not a square (theorem: no panic before final_step)
        yield Case(f"qs64_rels {n}", k=False, o=True, tag=tag)
        if both or reachable(n):
            yield Case(f"qs64 {n}", k=False, o=True, tag=tag)
        else:
            # unguarded input: debug assertions inside final_step differ between the profiles; the model is the checked profile
            # (two cases, one per profile: a checked-profile-only panic is accepted on the first only, see _documented)
            yield Case(f"qs64 {n}", k=False, o=True, tag=tag + "/chk", profiles=["chk"])
            yield Case(f"qs64 {n}", k=False, o=True, tag=tag + "/noK", profiles=["release"])

    # 0. the recorded list of the completeness floor (quick: every third below 56 bits, every second of 56..61 bits, all of 62..64 bits)
    for i, n in enumerate(FIXED_SPLITS):
        b = n.bit_length()
        if quick and not extended and ((b < 56 and i % 3) or (56 <= b < 62 and i % 2)):
            continue
        yield from emit(n, "fixed-split")
    # 1. every reachable n below a bound (the smallest is 211 * 223 = 47053)
    bound = 200_000 if not extended else 400_000
    ps = [p for p in range(211, bound // 211 + 1) if gen.is_prime(p)]
    small_reach = sorted({p * q for i, p in enumerate(ps) for q in ps[i + 1:] if p * q < bound})
    if quick and not extended:
        small_reach = small_reach[:30] + small_reach[30::20]
    for n in small_reach:
        yield from emit(n, "reachable-small")
    # 2. semiprimes of every size and split
    for bits in range(17, 65):
        for _ in range(mult):
            lo = max(8, bits // 2 - rng.randint(0, bits // 2 - 8)) if bits >= 18 else 8
            p = gen.rand_prime(rng, lo)
            q = gen.rand_prime(rng, max(bits - lo, 8))
            if p != q:
                yield from emit(p * q, "semiprime" if reachable(p * q) else "semiprime-unguarded", both=reachable(p * q))
    for bits in (62, 63, 64):
        for _ in range(2 * mult):
            p = gen.rand_prime(rng, bits // 2)
            q = gen.rand_prime(rng, bits - bits // 2)
            if p != q and p * q < W:
                yield from emit(p * q, "semiprime")
    # 3. three or four primes >= 211
    for _ in range(12 * mult):
        k = rng.choice([3, 3, 4])
        n = 1
        for _ in range(k):
            n *= gen.rand_prime(rng, rng.randint(8, 64 // k))
        if reachable(n):
            yield from emit(n, "multi-prime")
    # 4. next to 2^64 / k: the checked_add boundary of select_multiplier, n * k as large as possible
    for k in range(1, 30):
        b = (W - 1) // k
        for _ in range(1 if quick else 3):
            p = gen.rand_prime(rng, rng.randint(20, 31))
            for q in (gen.prev_prime(b // p), gen.next_prime(b // p)):
                if p * q < W:
                    yield from emit(p * q, f"mul-boundary", both=reachable(p * q))
    # 5. perfect squares and prime powers (first early exit; not reachable: factor_impl tests perfect powers)
    for r in [211, 883979, gen.prev_prime(1 << 32), (1 << 32) - 1, 211 * 223] + [gen.rand_prime(rng, rng.randint(9, 32)) for _ in range(4 * mult)]:
        yield from emit(r * r, "square", both=False)
    for p in (211, 223, 65537):
        yield from emit(p ** 3, "cube", both=False)
    # 6. n * k a perfect square for a small k: n = s * m^2 (second early exit)
    for s in (2, 3, 5, 6, 7, 10, 11, 13, 14, 15, 17, 19, 21, 22, 23, 26, 29):
        for m in [1, 2, 3, 211, gen.rand_prime(rng, 12), gen.rand_prime(rng, 20)][: (4 if quick else 6)]:
            yield from emit(s * m * m, "nk-square", both=False)
    # 7. numbers divisible by factor-base primes (p | nk: both roots coincide), odd, unguarded
    for _ in range(10 * mult):
        n = 1
        for _ in range(rng.randint(1, 3)):
            n *= rng.choice(SMALL[1:])
        n *= gen.rand_prime(rng, rng.randint(10, 40))
        yield from emit(n, "small-factors", both=False)
    # 8. the range of the repository's unit test
    for d in range(1, 2000, 401 if quick else 37):
        n = (1 << 49) + d
        if n % 2 == 1 and not gen.is_prime(n):
            yield from emit(n, "unit-test-range", both=reachable(n))
    # 9. primes (never passed by factor_impl)
    for bits in (16, 24, 33, 48, 64):
        yield from emit(gen.rand_prime(rng, bits), "prime", both=False)
    # 10. unguarded tiny inputs and even numbers
    for n in (range(0, 400) if not quick else list(range(0, 48)) + list(range(48, 400, 13))):
        yield from emit(n, "tiny", both=False)
    for bits in (12, 20, 33, 50, 63):
        yield from emit(2 * gen.rand_prime(rng, bits), "even", both=False)


# ---------------------------------------------------------------- follow-ups (the model's half of K)

def _split(ans):
    """k=<k> <rest> -> (k, rest) or None"""
    if not ans.startswith("k="):
        return None
    head, _, rest = ans.partition(" ")
    try:
        return int(head[2:]), rest
    except ValueError:
        return None


def followup(case, ans):
    if case.op not in OPS or case.tag.endswith("/noK"):
        return None
    sp = _split(ans)
    if sp is None:
        return None
    k, rest = sp
    n = case.args[0]
    if case.op == "qs64_rels":
        return (f"qs64_rels {n} {k}", rest)
    if not rest.startswith("kernel="):
        return None
    ker, _, res = rest.partition(" ")
    return (f"qs64 {n} {k} {ker[len('kernel='):]}", res)


# ---------------------------------------------------------------- oracle (plain integers)

def parse_rel(tok):
    x, cof, clen, fs = tok.split(":")
    factors = []
    if fs != "-":
        for f in fs.split("*"):
            p, e = f.split("^")
            factors.append((-1 if p == "m1" else int(p), int(e)))
    return int(x), int(cof), int(clen), factors


def is_qr(a, p):
    a %= p
    return any(r * r % p == a for r in range(p))


def check_rels(n, k, body):
    kv = dict(t.split("=", 1) for t in body.split(" "))
    fb = [int(p) for p in kv["fb"].split(",")]
    sq = [int(r) for r in kv["sq"].split(",")]
    nk = n * k
    want = [p for p in SMALL if is_qr(nk, p)]
    if fb != want:
        return f"factor base {fb} is not the set of small primes with n*k a quadratic residue {want}"
    for p, r in zip(fb, sq):
        if not (0 <= r < p and r * r % p == nk % p):
            return f"{r} is not a reduced square root of n*k modulo {p}"
    rels = [] if kv["rels"] == "-" else kv["rels"].split(";")
    for tok in rels:
        x, cof, clen, factors = parse_rel(tok)
        if cof != 1:
            return f"relation with cofactor {cof} handed to final_step: {tok}"
        if clen not in (1, 2):
            return f"cycle length {clen}: {tok}"
        prod = 1
        for p, e in factors:
            if p != -1 and p not in fb and not (e % 2 == 0 and 199 < p < 5000):
                return f"factor {p}^{e} is neither in the factor base nor a squared pending cofactor: {tok}"
            prod *= p ** e
        if n > 0 and (x * x - prod) % n != 0:
            return f"relation is not a congruence modulo {n}: {tok}"
        if n == 0 and x * x != prod:
            return f"relation is not an identity (n = 0): {tok}"
    return None


def _documented(case, ans):
    """one of the documented behaviours on inputs factor() never passes. The oracle is not told the build profile: the two behaviours that
    occur in BOTH profiles (even n, n = k) are accepted on any case; the checked-profile-only one (debug_assert!(x < n) inside final_step for a
    tiny odd n) only on a case that the generator restricted to the checked profile (Case.profiles == ["chk"]) - the same input is also
    generated as a release-only case, where a panic is a failure."""
    if finding_key(case, ans, "release"):
        return True
    only_chk = case.profiles is not None and list(case.profiles) == ["chk"]
    return only_chk and finding_key(case, ans, "chk") == FINDING_TINY


def oracle(case, ans):
    msg = _oracle(case, ans)
    if msg and ACCEPT_UNGUARDED and _documented(case, ans):
        return None
    return msg


def _oracle(case, ans):
    n = int(case.args[0])
    sp = _split(ans)
    if sp is None:
        return f"{case.op}({n}) did not answer: {ans[:80]}"
    k, rest = sp
    if not (1 <= k < 30 and n * k < W):
        return f"select_multiplier({n}) = {k} violates its contract 1 <= k < 30, n*k < 2^64"
    if case.op == "qs64_rels":
        if rest == "panic":
            if nonsquare(n * k):
                return f"qsieve({n}) panicked before final_step although n*k is not a perfect square (contradicts qs64_no_panic_of_nonsquare)"
            return f"qsieve({n}) panicked before final_step: n*k = {n * k} is a perfect square and {k} does not divide its root"
        if rest.startswith("early "):
            a, b = (int(t) for t in rest[6:].split(","))
            if a * b != n:
                return f"early exit ({a}, {b}) of qsieve({n}): product {a * b}"
            if nonsquare(n) and nonsquare(n * k):
                return f"early exit of qsieve({n}) although neither n nor n*k is a square"
            return None
        if rest.startswith("fb="):
            return check_rels(n, k, rest)
        return f"qs64_rels({n}): unexpected answer {rest[:80]}"
    # qs64
    res = rest.partition(" ")[2] if rest.startswith("kernel=") else rest
    if res == "none":
        if n in FIXED_SPLITS:
            p = FIXED_SPLITS[n]
            return (f"qsieve({n}) returned None: completeness floor - the function is deterministic and split this recorded input "
                    f"({p} * {n // p}, {n.bit_length()} bits) when the list was recorded")
        return None
    if res == "panic":
        if reachable(n):
            return f"qsieve({n}) panicked on an input factor(n, Algo::Qs64) can pass"
        if n % 2 == 0:
            return (f"qsieve({n}) panicked: even n, ZmodN::new asserts an odd modulus inside final_step (direct call only; factor() removes the factor 2 first; "
                    f"the unit test skips even n: 'Modular arithmetic will fail')")
        return (f"qsieve({n}) panicked (checked profile): an unreduced operand reaches ZmodN::mul, debug_assert!(x < n): relations::combine starts a new product chunk with a factor-base prime p >= n (x = n itself is reduced since fix 9a443f1); "
                f"direct call on a tiny n only: for inputs of factor() the value n(n-k) has a cofactor >= 211^2 > maxlarge")
    t = res.split(" ")
    if t[0] == "some" and len(t) == 3:
        a, b = int(t[1]), int(t[2])
        if a * b != n:
            return f"qsieve({n}) = ({a}, {b}): product is {a * b}"
        if n < 2:
            return None                                  # 0 = 0 * 0, 1 = 1 * 1: the perfect-square exit
        if not (1 < a < n and 1 < b < n):
            if n < 30 and n == k:
                return (f"qsieve({n}) = ({a}, {b}): improper split; select_multiplier chose k = n, n*k = n^2 takes the second early exit (nsqrt / k, nsqrt) = (1, n) "
                        f"(direct call only: such n have prime factors below 200)")
            return f"qsieve({n}) = ({a}, {b}): not a proper split"
        return None
    return f"qsieve({n}) did not answer: {res[:80]}"


def finding_key(case, ans, profile):
    if case.op != "qs64":
        return None
    n = int(case.args[0])
    if reachable(n):
        return None
    sp = _split(ans)
    if sp is None:
        return None
    k, rest = sp
    res = rest.partition(" ")[2] if rest.startswith("kernel=") else rest
    if res == "panic":
        if n % 2 == 0:
            return FINDING_EVEN
        if profile == "chk" and n < (1 << 22):
            return FINDING_TINY
        return None
    if res.startswith("some 1 ") and n == k and n < 30:
        return FINDING_NK
    return None


def klass(case, ans):
    sp = _split(ans)
    if sp is None:
        return f"{case.op}/{case.tag}/{ans[:12]}"
    k, rest = sp
    n = int(case.args[0])
    kk = "k=1" if k == 1 else "k>1"
    size = "bits<=50" if n.bit_length() <= 50 else "bits>50"
    if case.op == "qs64_rels":
        if rest.startswith("fb="):
            rels = rest.split("rels=")[1]
            toks = [] if rels == "-" else rels.split(";")
            nfb = len(rest.split(" ")[0].split(","))
            comb = "combined" if any(t.split(":")[2] == "2" for t in toks) else "no-combined"
            neg = "sign" if any("m1^" in t for t in toks) else "no-sign"
            stop = "stop-rule" if len(toks) > nfb + 8 else "64-blocks"
            return f"qs64_rels/{case.tag}/{kk}/{size}/{comb}/{neg}/{stop}"
        return f"qs64_rels/{case.tag}/{kk}/{rest.split(' ')[0]}"
    res = rest.partition(" ")[2] if rest.startswith("kernel=") else rest
    return f"qs64/{case.tag}/{kk}/{size}/{res.split(' ')[0]}"


def nontrivial(case, ans):
    return int(case.args[0]) > 3


# --- the module can also be run on its own: ./check C03_QS64 (evidence/C03_QS64.json) ---
PID = "C03_QS64"
GEN = ["primality"]
PROFILES = ["release", "chk"]
TIMEOUT = 60.0
CLAIM = ("Lean theorems about the executable model of qsieve64::qsieve (checked profile): for EVERY n and multiplier k every relation handed to "
         "relations::final_step is a complete congruence x^2 = prod p^e (mod n) in C11's form (qs64_relations_valid), so a returned pair is the head of the "
         "modelled final_step's output (qs64_uses_final_step: the shape of the hypothesis UsesQs64 of the control-flow model, discharged by "
         "usesQs64_of_model) and a proper split for 30 <= n < 2^64, k < 30 (qs64_proper; qs64_improper_when_n_eq_k: qsieve(6) = (1, 6)); and whenever "
         "n*k < 2^64 is not a perfect square - in particular for every n factor_impl can pass (no prime factor <= 199, not a perfect power: "
         "admissible_of_guards, admissible_not_square) and every 1 <= k < 30 - no panic site is reachable before final_step: set-up arithmetic, "
         "FBase::new64, the i64 candidate arithmetic, Dividers, the u8 sieve accumulator (<= 177 < 256), the target computation, termination of trial "
         "division, combine (qs64_no_panic_of_nonsquare, qs64_no_panic); the hypothesis is needed for the model's contract on k "
         "(qs64_square_nk_counterexample). Panics INSIDE final_step on inputs factor() never passes (even n; a factor-base prime >= n for tiny n in the checked profile) "
         "are recorded findings; no-panic of final_step on qsieve's relations is explored, not proved.")
LEVEL_NOTE = ("The theorems are about the model; the K stream (qs64_rels: factor base, square roots and every relation; qs64: the result, the model "
              "being given the real multiplier and the real kernel vectors) ties it to the code in both profiles.")
TECHNIQUE = "Lean 4 proof about a hand model + differential correspondence check through follow-up requests + integer spec oracle"
