/-
The Montgomery-form Miller test of `isprime64` computes the same Boolean as the plain modular
Miller test `Ymq.Pseudoprime.millerBase` (C06).  Uses C07's `mgMul_spec`.
-/
import Ymq.Props.C07
import Ymq.Model.Pseudoprime
import Ymq.Lemmas.MillerTz
import Mathlib.Data.Nat.ModEq
import Mathlib.Data.Nat.Prime.Basic

namespace Ymq.Mg64

/-- Montgomery form of the residue `a` modulo `p` (R = 2^64). -/
def mform (p a : Nat) : Nat := a * W % p

/-- the set-up of a 64-bit Montgomery context is valid -/
structure MontOk (p pinv : Nat) : Prop where
  one_lt : 1 < p
  odd : p % 2 = 1
  lt : p < W
  inv : (p * pinv + 1) % W = 0

theorem coprime_W (p : Nat) (hodd : p % 2 = 1) : Nat.gcd p W = 1 := by
  have h2 : Nat.Coprime p 2 := by
    rw [Nat.coprime_comm, Nat.Prime.coprime_iff_not_dvd Nat.prime_two]; omega
  rw [W_eq]; exact Nat.Coprime.pow_right 64 h2

theorem mform_lt {p : Nat} (hp : 0 < p) (a : Nat) : mform p a < p := Nat.mod_lt _ hp

theorem mform_inj {p : Nat} (hodd : p % 2 = 1) (a b : Nat) :
    mform p a = mform p b ↔ a % p = b % p := by
  unfold mform
  constructor
  · intro h; exact Nat.ModEq.cancel_right_of_coprime (coprime_W p hodd) h
  · intro h; exact Nat.ModEq.mul_right W h

theorem mform_mod (p a : Nat) : mform p (a % p) = mform p a := by
  unfold mform; exact Nat.ModEq.mul_right W (Nat.mod_modEq a p)

theorem mform_one_pos {p : Nat} (h1 : 1 < p) (hodd : p % 2 = 1) : 0 < mform p 1 := by
  rcases Nat.eq_zero_or_pos (mform p 1) with h | h
  · exfalso
    have h0 : mform p 0 = 0 := by simp [mform]
    have := (mform_inj hodd 1 0).1 (by rw [h, h0])
    rw [Nat.mod_eq_of_lt h1, Nat.zero_mod] at this; omega
  · exact h

/-- the Montgomery form of `-1` is `p - R mod p`, the `pm1` of `isprime64`. -/
theorem mform_pm1 {p : Nat} (h1 : 1 < p) (hodd : p % 2 = 1) : p - mform p 1 = mform p (p - 1) := by
  have hp : 0 < p := by omega
  have hv := mform_one_pos h1 hodd
  have hv' := mform_lt hp 1
  have hu := mform_lt hp (p - 1)
  have hsum : (mform p (p - 1) + mform p 1) % p = 0 := by
    unfold mform
    rw [← Nat.add_mod, ← Nat.add_mul]
    have : p - 1 + 1 = p := by omega
    rw [this, Nat.mul_mod_right]
  obtain ⟨k, hk⟩ := Nat.dvd_of_mod_eq_zero hsum
  have : k = 1 := by
    rcases k with _ | _ | k
    · omega
    · rfl
    · exfalso
      have : p * (k + 1 + 1) ≥ 2 * p := by nlinarith
      omega
  subst this; omega

/-- `mg_mul` in terms of plain residues: if `x y ≡ z R (mod p)` the result is `z mod p`. -/
theorem mgMul_eq {p pinv x y : Nat} (h : MontOk p pinv) (hx : x < p) (hy : y < W) (z : Nat)
    (hz : x * y % p = z * W % p) : mgMul p pinv x y = some (z % p) := by
  obtain ⟨r, hr, hlt, hmod⟩ :=
    Ymq.C07.mgMul_spec p pinv x y (by have := h.one_lt; omega) h.lt h.inv hx hy
  rw [hr]
  have : r % p = z % p := by
    have h2 : r * W % p = z * W % p := by rw [hmod, hz]
    exact Nat.ModEq.cancel_right_of_coprime (coprime_W p h.odd) h2
  rw [← this, Nat.mod_eq_of_lt hlt]

/-- product of two Montgomery forms -/
theorem mgMul_mform {p pinv : Nat} (h : MontOk p pinv) (a b : Nat) :
    mgMul p pinv (mform p a) (mform p b) = some (mform p (a * b)) := by
  have hp : 0 < p := by have := h.one_lt; omega
  have := mgMul_eq h (mform_lt hp a) (lt_trans (mform_lt hp b) h.lt) (a * b * W) ?_
  · exact this
  · unfold mform
    rw [← Nat.mul_mod]
    generalize W = R
    congr 1; ring

/-- `r1 = 0.wrapping_sub(p) % p` is the Montgomery form of 1 -/
theorem r1_eq {p : Nat} (hlt : p < W) : (W - p) % p = mform p 1 := by
  unfold mform
  rw [Nat.one_mul, Nat.mod_eq_sub_mod (Nat.le_of_lt hlt)]

/-- entering Montgomery form: `mul(b, r2)` -/
theorem mgMul_r2 {p pinv : Nat} (h : MontOk p pinv) (b : Nat) (hb : b < p) :
    mgMul p pinv b ((W - p) % p * ((W - p) % p) % p) = some (mform p b) := by
  have hp : 0 < p := by have := h.one_lt; omega
  have := mgMul_eq (y := (W - p) % p * ((W - p) % p) % p) h hb
    (lt_trans (Nat.mod_lt _ hp) h.lt) (b * W) ?_
  · rw [this]; rfl
  · rw [r1_eq h.lt]
    unfold mform
    rw [Nat.one_mul]
    have e : (W % p * (W % p) % p) % p = (W * W) % p := by
      rw [Nat.mod_mod, ← Nat.mul_mod]
    calc b * (W % p * (W % p) % p) % p = (b % p) * ((W % p * (W % p) % p) % p) % p := Nat.mul_mod _ _ _
      _ = (b % p) * ((W * W) % p) % p := by rw [e]
      _ = b * (W * W) % p := (Nat.mul_mod _ _ _).symm
      _ = b * W * W % p := by rw [Nat.mul_assoc]

/-- the square-and-multiply loop on Montgomery forms -/
theorem powLoop_mform {p pinv : Nat} (h : MontOk p pinv) :
    ∀ f X S e, e < 2 ^ f →
      powLoop p pinv (f + 1) (mform p X) (mform p S) e = some (mform p (X * S ^ e)) := by
  intro f
  induction f with
  | zero =>
    intro X S e he
    have : e = 0 := by simpa using he
    subst this
    simp [powLoop]
  | succ f ih =>
    intro X S e he
    unfold powLoop
    by_cases h0 : e = 0
    · subst h0; simp
    · simp only [h0, if_false]
      have hlt : e / 2 < 2 ^ f := by rw [pow_succ] at he; omega
      have hsq := mgMul_mform h S S
      by_cases h1 : e % 2 = 1
      · simp only [h1, if_true, mgMul_mform h X S, hsq, Option.bind_eq_bind, Option.bind_some]
        rw [ih _ _ _ hlt]
        have e2 : e = 2 * (e / 2) + 1 := by omega
        generalize e / 2 = k at *
        subst e2
        congr 2
        rw [← pow_two, ← pow_mul, pow_succ]; ring
      · simp only [h1, if_false, hsq, Option.bind_eq_bind, Option.bind_some]
        rw [ih _ _ _ hlt]
        have e2 : e = 2 * (e / 2) := by omega
        generalize e / 2 = k at *
        subst e2
        congr 2
        rw [← pow_two, ← pow_mul]

/-- one turn of the squaring loop, stated on opaque words (keeps the kernel away from `W`). -/
theorem sqLoop_step (n ninv one pm1 t pow pow' : Nat) (ok : Bool)
    (h : mgMul n ninv pow pow = some pow') :
    sqLoop n ninv one pm1 (t + 1) pow ok =
      if pow' = pm1 then some true else if pow' = one then some ok
      else sqLoop n ninv one pm1 t pow' ok := by
  rw [sqLoop, h]; rfl

theorem sqLoopN_step (p t pow : Nat) (ok : Bool) :
    Ymq.Pseudoprime.sqLoop p (t + 1) pow ok =
      if pow * pow % p = p - 1 then true else if pow * pow % p = 1 then ok
      else Ymq.Pseudoprime.sqLoop p t (pow * pow % p) ok := by
  rw [Ymq.Pseudoprime.sqLoop]

/-- the squaring loop on Montgomery forms is the squaring loop on residues -/
theorem sqLoop_mform {p pinv : Nat} (h : MontOk p pinv) :
    ∀ t y ok, y < p →
      sqLoop p pinv (mform p 1) (mform p (p - 1)) t (mform p y) ok =
        some (Ymq.Pseudoprime.sqLoop p t y ok) := by
  intro t
  induction t with
  | zero => intro y ok _; simp [sqLoop, Ymq.Pseudoprime.sqLoop]
  | succ t ih =>
    intro y ok hy
    have hp : 0 < p := by have := h.one_lt; omega
    rw [sqLoop_step _ _ _ _ _ _ _ _ (mgMul_mform h y y), sqLoopN_step]
    have hpm : (p - 1) % p = p - 1 := Nat.mod_eq_of_lt (by omega)
    have h1m : 1 % p = 1 := Nat.mod_eq_of_lt h.one_lt
    have i1 : mform p (y * y) = mform p (p - 1) ↔ y * y % p = p - 1 := by
      rw [mform_inj h.odd, hpm]
    have i2 : mform p (y * y) = mform p 1 ↔ y * y % p = 1 := by
      rw [mform_inj h.odd, h1m]
    by_cases c1 : y * y % p = p - 1
    · rw [if_pos (i1.2 c1), if_pos c1]
    · rw [if_neg (fun e => c1 (i1.1 e)), if_neg c1]
      by_cases c2 : y * y % p = 1
      · rw [if_pos (i2.2 c2), if_pos c2]
      · rw [if_neg (fun e => c2 (i2.1 e)), if_neg c2]
        rw [← mform_mod p (y * y), ih _ _ (Nat.mod_lt _ hp)]

/-- `pow_mod` of the multiprecision test computes `res * x^e mod p`. -/
theorem powMod_spec (p : Nat) (hp : 0 < p) :
    ∀ f res x e, e < 2 ^ f → res < p → Ymq.Pseudoprime.powMod p f res x e = res * x ^ e % p := by
  intro f
  induction f with
  | zero =>
    intro res x e he hres
    have : e = 0 := by simpa using he
    subst this
    simp [Ymq.Pseudoprime.powMod, Nat.mod_eq_of_lt hres]
  | succ f ih =>
    intro res x e he hres
    rw [Ymq.Pseudoprime.powMod]
    by_cases h0 : e = 0
    · subst h0; simp [Nat.mod_eq_of_lt hres]
    · rw [if_neg h0]
      have hlt : e / 2 < 2 ^ f := by rw [pow_succ] at he; omega
      have a2 : (x * x % p) ^ (e / 2) ≡ (x * x) ^ (e / 2) [MOD p] := (Nat.mod_modEq _ _).pow _
      by_cases h1 : e % 2 = 1
      · rw [if_pos h1, ih _ _ _ hlt (Nat.mod_lt _ hp)]
        have a1 : res * x % p ≡ res * x [MOD p] := Nat.mod_modEq _ _
        have a3 := a1.mul a2
        have e2 : e = 2 * (e / 2) + 1 := by omega
        generalize e / 2 = k at *
        subst e2
        have e3 : res * x * (x * x) ^ k = res * x ^ (2 * k + 1) := by
          rw [← pow_two, ← pow_mul, pow_succ]; ring
        rw [e3] at a3; exact a3
      · rw [if_neg h1, ih _ _ _ hlt hres]
        have a3 := (Nat.ModEq.refl res).mul a2
        have e2 : e = 2 * (e / 2) := by omega
        generalize e / 2 = k at *
        subst e2
        have e3 : res * (x * x) ^ k = res * x ^ (2 * k) := by
          rw [← pow_two, ← pow_mul]
        rw [e3] at a3; exact a3

/-- the Miller closure unfolded on opaque words -/
theorem miller_step (c : Ctx) (b bm pow : Nat) (h1 : mgMul c.p c.pinv b c.r2 = some bm)
    (h2 : powLoop c.p c.pinv 65 c.r1 bm c.podd = some pow) :
    miller c b = sqLoop c.p c.pinv c.r1 (c.p - c.r1) c.tz pow (pow = c.r1 || pow = c.p - c.r1) := by
  simp [miller, h1, h2]

theorem millerBase_eq (p s d b : Nat) (hp : 1 < p) (hd : d < 2 ^ 1024) :
    Ymq.Pseudoprime.millerBase p s d b =
      Ymq.Pseudoprime.sqLoop p s (b ^ d % p) (decide (b ^ d % p = 1) || decide (b ^ d % p = p - 1)) := by
  unfold Ymq.Pseudoprime.millerBase
  have : Ymq.Pseudoprime.powMod p 1024 1 (b % p) d = b ^ d % p := by
    rw [powMod_spec p (by omega) 1024 1 (b % p) d hd hp, Nat.one_mul, ← Nat.pow_mod]
  simp only [this]

/-- The Montgomery-form Miller test of `isprime64` returns (without panicking) the Boolean of the
plain modular Miller test. -/
theorem miller_eq_millerBase {p pinv : Nat} (h : MontOk p pinv) (s d b : Nat) (hd : d < 2 ^ 64)
    (hb : b < p) :
    miller { p := p, pinv := pinv, r1 := (W - p) % p, r2 := (W - p) % p * ((W - p) % p) % p,
             tz := s, podd := d } b = some (Ymq.Pseudoprime.millerBase p s d b) := by
  have hp : 0 < p := by have := h.one_lt; omega
  have h2 : powLoop p pinv 65 ((W - p) % p) (mform p b) d = some (mform p (1 * b ^ d)) := by
    rw [r1_eq h.lt]; exact powLoop_mform h 64 1 b d hd
  rw [miller_step _ b _ _ (mgMul_r2 h b hb) h2]
  simp only
  rw [millerBase_eq p s d b h.one_lt (lt_trans hd (Nat.pow_lt_pow_right (by decide) (by decide))), Nat.one_mul, r1_eq h.lt,
    mform_pm1 h.one_lt h.odd, ← mform_mod p (b ^ d), sqLoop_mform h _ _ _ (Nat.mod_lt _ hp)]
  have hpm : (p - 1) % p = p - 1 := Nat.mod_eq_of_lt (by omega)
  have h1m : 1 % p = 1 := Nat.mod_eq_of_lt h.one_lt
  have i1 : mform p (b ^ d % p) = mform p (p - 1) ↔ b ^ d % p = p - 1 := by
    rw [mform_inj h.odd, hpm, Nat.mod_mod]
  have i2 : mform p (b ^ d % p) = mform p 1 ↔ b ^ d % p = 1 := by
    rw [mform_inj h.odd, h1m, Nat.mod_mod]
  congr 2
  rw [decide_eq_decide.2 i1, decide_eq_decide.2 i2]

/-- decomposition `p - 1 = d 2^s` computed by `isprime64` -/
theorem tz_podd_spec (p : Nat) (h3 : 2 < p) (hodd : p % 2 = 1) (hlt : p < W) :
    1 ≤ tz64 (p - 1) ∧ tz64 (p - 1) < 64 ∧ p - 1 = p / 2 ^ tz64 (p - 1) * 2 ^ tz64 (p - 1) ∧
      p / 2 ^ tz64 (p - 1) % 2 = 1 ∧ p / 2 ^ tz64 (p - 1) < 2 ^ 64 := by
  obtain ⟨a, b, c⟩ := tz64_spec (p - 1) (by omega) (by omega)
  generalize tz64 (p - 1) = s at *
  have hs : 1 ≤ s := le_of_pow_dvd_of_odd_quot (p - 1) 1 s (by simp; omega) b c
  have e1 := Nat.div_add_mod (p - 1) (2 ^ s)
  rw [b] at e1
  have h2s : 1 < 2 ^ s := Nat.one_lt_two_pow (by omega)
  have e2 : p / 2 ^ s = (p - 1) / 2 ^ s := by
    have : p = 2 ^ s * ((p - 1) / 2 ^ s) + 1 := by omega
    conv_lhs => rw [this]
    rw [Nat.mul_add_div (by omega), Nat.div_eq_of_lt h2s, Nat.add_zero]
  rw [e2]
  refine ⟨hs, a, by rw [Nat.mul_comm]; omega, c, ?_⟩
  calc (p - 1) / 2 ^ s ≤ p - 1 := Nat.div_le_self _ _
    _ < 2 ^ 64 := by rw [← W_eq]; omega

/-- `isprime64`'s set-up succeeds for every odd `3 ≤ p < 2^64` and yields a valid context. -/
theorem mkCtx_spec (p : Nat) (h3 : 2 < p) (hodd : p % 2 = 1) (hlt : p < W) :
    ∃ pinv, MontOk p pinv ∧
      mkCtx p = some { p := p, pinv := pinv, r1 := (W - p) % p,
                       r2 := (W - p) % p * ((W - p) % p) % p,
                       tz := tz64 (p - 1), podd := p / 2 ^ tz64 (p - 1) } := by
  obtain ⟨v, hv, _, hinv⟩ := mg2adicInv_odd p hodd
  refine ⟨v, ⟨by omega, hodd, hlt, hinv⟩, ?_⟩
  simp [mkCtx, hv]

end Ymq.Mg64
