/-
Completeness of the baby-step loop of `pp1::pp1` (Model/Pp1Impl.lean `babyLoop` / `babySteps`): every index the loop
condition admits (`b = 1`, or `b` odd, `b < d1/2`, `b % 3 ≠ 0`, `gcd(b, d1) = 1`) is pushed, whatever the ring
operations are.  With `Lemmas/Pp1Impl.babySteps_vals` the entry is `(b, V_b(g))`.
-/
import Ymq.Lemmas.Pp1Impl

namespace Ymq.Pp1Impl

theorem babyLoop_acc_subset {α} (mul sub : α → α → α) (g2 : α) (d1 : Nat) :
    ∀ (f exp : Nat) (bprev b : α) (acc : List (Nat × α)) (x : Nat × α), x ∈ acc →
      x ∈ babyLoop mul sub g2 d1 f exp bprev b acc
  | 0, _, _, _, _, _, h => by simpa [babyLoop] using h
  | f + 1, exp, bprev, b, acc, x, h => by
    rw [babyLoop]
    split
    · apply babyLoop_acc_subset mul sub g2 d1 f
      split
      · exact List.mem_cons_of_mem _ h
      · exact h
    · exact h

theorem babyLoop_complete {α} (mul sub : α → α → α) (g2 : α) (d1 : Nat) :
    ∀ (f exp : Nat) (bprev b : α) (acc : List (Nat × α)) (t : Nat), exp < t → (t - exp) % 2 = 0 → t < d1 / 2 →
      t % 3 ≠ 0 → Nat.gcd t d1 = 1 → t ≤ exp + 2 * f →
      ∃ v, (t, v) ∈ babyLoop mul sub g2 d1 f exp bprev b acc
  | 0, exp, _, _, _, t, h1, _, _, _, _, h6 => by omega
  | f + 1, exp, bprev, b, acc, t, h1, h2, h3, h4, h5, h6 => by
    rw [babyLoop]
    have hlt : exp + 2 < d1 / 2 := by omega
    rw [if_pos hlt]
    by_cases ht : t = exp + 2
    · subst ht
      refine ⟨sub (mul b g2) bprev, babyLoop_acc_subset mul sub g2 d1 f _ _ _ _ _ ?_⟩
      rw [if_pos ⟨h4, h5⟩]
      exact List.mem_cons_self
    · exact babyLoop_complete mul sub g2 d1 f (exp + 2) _ _ _ t (by omega) (by omega) h3 h4 h5 (by omega)

theorem babySteps_complete {α} (mul sub : α → α → α) (g g2 : α) (d1 : Nat) {t : Nat}
    (ht : t = 1 ∨ (t % 2 = 1 ∧ t < d1 / 2 ∧ t % 3 ≠ 0 ∧ Nat.gcd t d1 = 1)) :
    ∃ v, (t, v) ∈ babySteps mul sub g g2 d1 := by
  unfold babySteps
  by_cases h1 : t = 1
  · subst h1
    exact ⟨g, List.mem_reverse.mpr (babyLoop_acc_subset mul sub g2 d1 _ _ _ _ _ _ (by simp))⟩
  · rcases ht with ht | ⟨ho, hlt, h3, hg⟩
    · exact absurd ht h1
    · obtain ⟨v, hv⟩ := babyLoop_complete mul sub g2 d1 d1 1 g g [(1, g)] t (by omega) (by omega) hlt h3 hg (by omega)
      exact ⟨v, List.mem_reverse.mpr hv⟩

/-- the index part of `babySteps_vals` for arbitrary operations -/
theorem babyLoop_mem_idx {α} (mul sub : α → α → α) (g2 : α) (d1 : Nat) :
    ∀ (f exp : Nat) (bprev b : α) (acc : List (Nat × α)), exp % 2 = 1 →
      (∀ x ∈ acc, x.1 = 1 ∨ (x.1 % 2 = 1 ∧ x.1 < d1 / 2 ∧ x.1 % 3 ≠ 0 ∧ Nat.gcd x.1 d1 = 1)) →
      ∀ x ∈ babyLoop mul sub g2 d1 f exp bprev b acc,
        x.1 = 1 ∨ (x.1 % 2 = 1 ∧ x.1 < d1 / 2 ∧ x.1 % 3 ≠ 0 ∧ Nat.gcd x.1 d1 = 1)
  | 0, _, _, _, _, _, hacc => by simpa [babyLoop] using hacc
  | f + 1, exp, bprev, b, acc, ho, hacc => by
    rw [babyLoop]
    split
    · rename_i hlt
      apply babyLoop_mem_idx mul sub g2 d1 f (exp + 2) _ _ _ (by omega)
      intro x hx
      split at hx
      · rename_i hc
        rcases List.mem_cons.mp hx with rfl | hx
        · exact Or.inr ⟨by simp only; omega, hlt, hc.1, hc.2⟩
        · exact hacc x hx
      · exact hacc x hx
    · exact hacc

theorem babySteps_mem_idx {α} (mul sub : α → α → α) (g g2 : α) (d1 : Nat) :
    ∀ x ∈ babySteps mul sub g g2 d1,
      x.1 = 1 ∨ (x.1 % 2 = 1 ∧ x.1 < d1 / 2 ∧ x.1 % 3 ≠ 0 ∧ Nat.gcd x.1 d1 = 1) := by
  intro x hx
  unfold babySteps at hx
  rw [List.mem_reverse] at hx
  refine babyLoop_mem_idx mul sub g2 d1 d1 1 g g [(1, g)] (by decide) ?_ x hx
  intro y hy
  simp only [List.mem_singleton] at hy
  subst hy
  exact Or.inl rfl

end Ymq.Pp1Impl
