/-
C06, word level — `pseudoprime` above 64 bits runs on the limb-level Montgomery ring.
Only property theorems live here (helper lemmas: Ymq/Lemmas/PseudoprimeWord.lean).

`Ymq.PseudoprimeWord.pseudoprimeW` is the Miller–Rabin loop of lib.rs `pseudoprime` written over
C07's limb-level model of `ZmodN` (`new`, `from_int`, CIOS `mul` + conditional subtraction, `sub`,
`one`, `zero`, `==` on 8-word `MInt`s), every `assert!`/`debug_assert!`/overflow/index site of
those routines being a `none`.  Props/C06.lean is about `Ymq.Pseudoprime.pseudoprime`, which takes
the ring operations as exact arithmetic on residues.  The theorems below close that gap by
composition with C07 (`mul_spec'`, `sub_spec'`, `fromInt_spec`, `new_valid'`): the two models are
the same function, on every input.  Note that the composition needs no size margin: `pseudoprime`
only uses `mul` (specified for every admitted modulus) and `sub(0, one)` (the case of `sub` that
cannot overflow), so 512-bit moduli — where C07's `add`/`sub` have a counter-example — are covered.

The 64-bit path (`isprime64`) needed nothing: `Ymq.Mg64.isprime64` is already word-exact (`mgRedc`,
`mgMul`, `mg2adicInv` with their overflow/underflow sites), and the theorems of Props/C06.lean
(`isprime64_complete/_sound/_exact/_total/_even`, `miller_iff_sprp`) are about that model.
-/
import Ymq.Props.C06
import Ymq.Lemmas.PseudoprimeWord
import Ymq.Lemmas.PseudoprimeOdd

namespace Ymq.C06
open Ymq.Mg64 Ymq.Pseudoprime Ymq.PseudoprimeWord Ymq.Gen.Primality

/-- **Word-level refinement, every input**: the Miller–Rabin loop over the limb-level `ZmodN`
returns exactly what the residue-level model returns — `some` of the same Boolean for every
`p < 2^512` (so no panic site of `ZmodN::{new, from_int, mul, sub}` is reached, in either build
profile, 8-word moduli included), and `none` (the `assert!` of `ZmodN::new`) for the same odd
`p ≥ 2^512`. -/
theorem pseudoprime_word_eq (p : Nat) : pseudoprimeW p = pseudoprime p := by
  unfold pseudoprimeW pseudoprime
  by_cases h2 : p % 2 = 0
  · rw [if_pos h2, if_pos h2]
  · rw [if_neg h2, if_neg h2]
    by_cases hW : p < Ymq.Mg64.W
    · rw [if_pos hW, if_pos hW]
    · rw [if_neg hW, if_neg hW]
      have hodd : p % 2 = 1 := by omega
      by_cases hbig : p ≥ 2 ^ 512
      · rw [if_pos hbig]
        have : ZmodN.new p = none := by
          unfold ZmodN.new
          rw [if_neg (by omega), if_pos (by simp only [ZmodN.MW]; omega)]
        rw [this]
      · rw [if_neg hbig]
        obtain ⟨c, hc, hv, hn, _⟩ := ZmodN.new_valid' p hodd (by omega)
        have hlow : p % Ymq.Limbs.W ≠ 0 := by
          have h64 : p % Ymq.Limbs.W % 2 = 1 := by
            rw [Nat.mod_mod_of_dvd p (by decide : 2 ∣ Ymq.Limbs.W)]; exact hodd
          intro h0; rw [h0] at h64; omega
        have hWp : Ymq.Mg64.W ≤ p := by omega
        have h1 : 1 < c.n := by rw [hn]; have : 1 < Ymq.Mg64.W := by decide
                                omega
        simp only [hc, if_neg hlow]
        have := basesW_eq hv h1 (tz64 (p % Ymq.Limbs.W - 1))
          (p / 2 ^ tz64 (p % Ymq.Limbs.W - 1)) smallPrimes
          (fun b hb => by rw [hn]; exact lt_of_lt_of_le (smallPrimes_small b hb).2 hWp)
        rw [this, hn]
        rfl

/-- non-vacuity on concrete multiword inputs, computed by the kernel on the limb-level model: the
Miller steps for the first and the last base on the 68-bit prime `12·2^64 + 1` (low word 1:
`s = 64`, even `p >> s = 12`) here, the whole function on the composite `2^128 + 1` (3 words)
below; accepted inputs at all 46 bases and 8-word inputs (e.g. the largest 512-bit prime
`2^512 - 569`) are run through the same definitions by the native driver (op `pseudoprime_word`,
K stream of props/c06.py). -/
example : (ZmodN.new 221360928884514619393).bind
    (fun c => (millerBaseW c 64 12 2).bind fun a => (millerBaseW c 64 12 199).map fun b => (a, b))
    = some (true, true) := by decide +kernel

/-- **No panic at word level**: for every `p < 2^512` (even, one word, 2..8 words) the word-level
model returns; in particular none of the `debug_assert!`s of `ZmodN::mul` / `ZmodN::sub`, the
`debug_assert!(z[i] == 0)` and the `res[SIZE]` write of `_mint_mulmod`, the asserts of `mint_lt` /
`mint_sub`, the 2-adic inverse loop of `ZmodN::new` can fail inside `pseudoprime`. -/
theorem pseudoprime_word_total (p : Nat) (hlt : p < 2 ^ 512) : pseudoprimeW p ≠ none := by
  rw [pseudoprime_word_eq]; exact pseudoprime_total p hlt

example : pseudoprimeW (2 ^ 128 + 1) = some false := by decide +kernel

/-- **The word-level `pseudoprime` never rejects a prime**, at every size the function accepts
(2..8 words; one word goes through `isprime64`). -/
theorem pseudoprime_complete_word (p : Nat) (hp : Nat.Prime p) (hlt : p < 2 ^ 512) :
    pseudoprimeW p = some true := by
  rw [pseudoprime_word_eq]; exact pseudoprime_complete p hp hlt

example : Nat.Prime 221360928884514619393 → pseudoprimeW 221360928884514619393 = some true :=
  fun h => pseudoprime_complete_word _ h (by decide +kernel)

/-- **Even inputs** of any size (0, 2, multiword evens, evens above 512 bits): answer `p = 2`,
decided before any ring is built. -/
theorem pseudoprime_word_even (p : Nat) (heven : p % 2 = 0) :
    pseudoprimeW p = some (decide (p = 2)) := by
  rw [pseudoprime_word_eq]; exact pseudoprime_even p heven

example : pseudoprimeW (2 ^ 700) = some false ∧ pseudoprimeW 2 = some true ∧
    pseudoprimeW 0 = some false ∧ pseudoprimeW (2 ^ 64 + 2) = some false := by
  refine ⟨?_, ?_, ?_, ?_⟩ <;> (rw [pseudoprime_word_even _ (by decide +kernel)]; decide +kernel)

/-- **Below 2** (the quantifier of the property includes 0 and 1): both models answer `false`,
as does `isprime64`. -/
theorem pseudoprime_below_two (p : Nat) (h : p < 2) :
    pseudoprime p = some false ∧ pseudoprimeW p = some false ∧ isprime64 p = some false := by
  have : p = 0 ∨ p = 1 := by omega
  rcases this with rfl | rfl <;> refine ⟨?_, ?_, ?_⟩ <;> decide +kernel

example : pseudoprime 1 = some false := (pseudoprime_below_two 1 (by decide)).1

/-- **Agreement with the 64-bit test** for the word-level model. -/
theorem pseudoprime_word_eq_isprime64 (p : Nat) (hlt : p < 2 ^ 64) :
    pseudoprimeW p = isprime64 p := by
  rw [pseudoprime_word_eq]; exact pseudoprime_eq_isprime64 p hlt

example : pseudoprimeW 1373653 = some false := by
  rw [pseudoprime_word_eq_isprime64 _ (by norm_num)]; decide +kernel

/-- Odd inputs of more than 512 bits: the word-level model stops at the `assert!` of `ZmodN::new`. -/
theorem pseudoprime_word_oversize (p : Nat) (hodd : p % 2 = 1) (hge : 2 ^ 512 ≤ p) :
    pseudoprimeW p = none := by
  rw [pseudoprime_word_eq]; exact pseudoprime_oversize p hodd hge

example : pseudoprimeW (2 ^ 512 + 1) = none :=
  pseudoprime_word_oversize _ (by decide +kernel) (by norm_num)

/-- **What the multiword test decides**: for odd `2^64 ≤ p < 2^512` with `p ≢ 1 (mod 2^65)` the
word-level `pseudoprime` answers `true` exactly when `p` is a strong probable prime (textbook
predicate `SPRP`) to each of the 46 bases of `SMALL_PRIMES`.  For `p ≡ 1 (mod 2^65)` only `←` holds
in general: `s = trailing_zeros(low word - 1)` is capped at 64, `p >> 64` stays even and the chain
starts at `b^(2^j d)` instead of `b^d` (a weaker test, still never rejecting a prime:
`pseudoprime_complete_word`); hence `_partial`. -/
theorem pseudoprime_word_iff_sprp_partial (p : Nat) (hodd : p % 2 = 1) (hW : 2 ^ 64 ≤ p)
    (hlt : p < 2 ^ 512) (h65 : p % 2 ^ 65 ≠ 1) :
    pseudoprimeW p = some true ↔ ∀ b ∈ smallPrimes, SPRP p b := by
  have hd := podd_odd p hodd h65
  have hpd := pp_split p hodd
  have hd' : p / 2 ^ tz64 (p % W - 1) < 2 ^ 1024 :=
    calc p / 2 ^ tz64 (p % W - 1) ≤ p := Nat.div_le_self _ _
      _ < 2 ^ 512 := hlt
      _ < 2 ^ 1024 := Nat.pow_lt_pow_right (by decide) (by decide)
  have h2 : 2 < p := lt_of_lt_of_le (by decide) hW
  rw [pseudoprime_word_eq]
  unfold pseudoprime
  rw [if_neg (by omega), if_neg (by rw [W_eq]; omega), if_neg (by omega)]
  simp only [Option.some.injEq, List.all_eq_true]
  exact ⟨fun h b hb => (millerBase_iff_SPRP p _ _ b h2 hodd hd hpd hd').1 (h b hb),
    fun h b hb => (millerBase_iff_SPRP p _ _ b h2 hodd hd hpd hd').2 (h b hb)⟩

/-- the hypotheses are satisfiable: `2^64 + 13` (the smallest prime above `2^64`; 65 bits, so
`p mod 2^65 = p ≠ 1`) -/
example : pseudoprimeW (2 ^ 64 + 13) = some true ↔ ∀ b ∈ smallPrimes, SPRP (2 ^ 64 + 13) b :=
  pseudoprime_word_iff_sprp_partial _ (by decide) (by decide) (by decide +kernel) (by decide)

/-- **Why `p ≡ 1 (mod 2^65)` is excluded above** (counter-witness at the level of one base): for
`n = 5 · 1010881575239283428557 = 137·2^65 + 1` (73 bits, low word 1) the code takes `s = 64` and
the even exponent `n >> 64 = 274`; for `b = 1010881575239283428556` (a square root of 1 other than
±1) the Miller step of `pseudoprime` answers `true` (`b^274 = 1`) although `n` is not a strong
probable prime to base `b` (`b^137 = b ≠ ±1`, `b^(137·2^r) = 1` for `r ≥ 1`).  `b` is not one of
the 46 bases: no input on which `pseudoprime` itself is fooled this way is known. -/
theorem millerBase_low_word_one_counterexample :
    (5054407876196417142785 : Nat) % 2 ^ 65 = 1 ∧
    tz64 (5054407876196417142785 % W - 1) = 64 ∧
    millerBase 5054407876196417142785 64 (5054407876196417142785 / 2 ^ 64)
      1010881575239283428556 = true ∧
    ¬ SPRP 5054407876196417142785 1010881575239283428556 := by
  refine ⟨by decide +kernel, by decide +kernel, by decide +kernel, ?_⟩
  rw [← millerBase_iff_SPRP 5054407876196417142785 65 137 1010881575239283428556 (by decide)
    (by decide) (by decide) (by decide +kernel)
    (lt_trans (by decide : 137 < 2 ^ 8) (Nat.pow_lt_pow_right (by decide) (by decide)))]
  decide +kernel

end Ymq.C06
