/-
The column phase `reduce_cols` of `SmithNormalForm::reduce` (model `St.reduceCols`) on the `i128`
path: the composition of the `colsub`/`colswap` steps over its loops is an automorphism `φ` of
`(Z/h)^n` that maps the relation module of the input to the relation module of the output and the
identity matrix to `q`: the two presentations define isomorphic groups, and `q` records the
isomorphism.
-/
import Ymq.Lemmas.SnfCols
import Mathlib.LinearAlgebra.Quotient.Basic

namespace Ymq.Snf

/-- `ColEquiv s0 s`: `s` is reachable from `s0` by column operations (tracked in `q`) and row
operations -/
def ColEquiv (s0 s : St) : Prop :=
  s.gens = s0.gens ∧ s.h = s0.h ∧ s.rows.length = s0.rows.length ∧ s.q.length = s0.q.length ∧
  ∃ φ : (Fin s0.gens.length → ZMod s0.h) ≃ₗ[ZMod s0.h] (Fin s0.gens.length → ZMod s0.h),
    RowsMapped s0.h s0.gens.length φ s0.q s.q ∧
    rowSpan s0.h s0.gens.length s.rows = (rowSpan s0.h s0.gens.length s0.rows).map φ.toLinearMap

theorem ColEquiv.refl (s : St) : ColEquiv s s := by
  refine ⟨rfl, rfl, rfl, rfl, LinearEquiv.refl _ _, ⟨rfl, fun r _ _ => rfl⟩, ?_⟩
  simp

theorem RowsMapped.trans {h n : Nat} {f g : (Fin n → ZMod h) → (Fin n → ZMod h)} {A B C : Mat}
    (h1 : RowsMapped h n f A B) (h2 : RowsMapped h n g B C) : RowsMapped h n (g ∘ f) A C := by
  refine ⟨by rw [h2.1, h1.1], ?_⟩
  intro r hr1 hr2
  have hb : r < B.length := by rw [h1.1]; exact hr1
  rw [h2.2 r hb hr2, h1.2 r hr1 hb]
  rfl

/-- one more column step after a chain -/
theorem ColEquiv.step {s0 s s' : St} (h0 : ColEquiv s0 s)
    (hg : s'.gens = s.gens) (hh : s'.h = s.h) (hr : s'.rows.length = s.rows.length)
    (ψ : (Fin s.gens.length → ZMod s.h) ≃ₗ[ZMod s.h] (Fin s.gens.length → ZMod s.h))
    (hq : RowsMapped s.h s.gens.length ψ s.q s'.q)
    (hspan : rowSpan s.h s.gens.length s'.rows = (rowSpan s.h s.gens.length s.rows).map ψ.toLinearMap) :
    ColEquiv s0 s' := by
  obtain ⟨e1, e2, e3, e4, φ, hφq, hφs⟩ := h0
  -- transport ψ to the frame of s0
  revert ψ hq hspan
  rw [e1, e2]
  intro ψ hq hspan
  refine ⟨by rw [hg, e1], by rw [hh, e2], by rw [hr, e3], by rw [hq.1, e4], φ.trans ψ, ?_, ?_⟩
  · have := RowsMapped.trans hφq hq
    exact this
  · rw [hspan, hφs, ← Submodule.map_comp]
    rfl

variable {s0 : St}

/-- the hypotheses under which the steps of `reduce_cols` are covered by the operation theorems -/
structure ColFrame (s0 s : St) : Prop where
  ce : ColEquiv s0 s
  small : s.small = true
  rows_le : s.rows.length ≤ s.gens.length
  q_le : s.q.length ≤ s.gens.length

theorem ColFrame.colsub {s s' : St} (hf : ColFrame s0 s) (i j : Nat) (k : Int) (hi : i < s.gens.length)
    (hj : j < s.gens.length) (hij : i ≠ j) (h : s.colsub i j k = some s') : ColFrame s0 s' := by
  obtain ⟨hg, hh, _, _, _, φ, hr, hq⟩ := colsub_spec s s' i j k hf.small hi hj hij hf.rows_le hf.q_le h
  refine ⟨hf.ce.step hg hh hr.1 φ hq (rowSpan_mapped _ _ _ _ _ hr), ?_, ?_, ?_⟩
  · have := hf.small; unfold St.small at *; rw [hh]; exact this
  · rw [hr.1, hg]; exact hf.rows_le
  · rw [hq.1, hg]; exact hf.q_le

theorem ColFrame.colswap {s s' : St} (hf : ColFrame s0 s) (i j : Nat) (hi : i < s.gens.length)
    (hj : j < s.gens.length) (h : s.colswap i j = some s') : ColFrame s0 s' := by
  obtain ⟨hg, hh, hr, φ, hq, hspan⟩ := colswap_spec s s' i j hf.small hi hj h
  refine ⟨hf.ce.step hg hh hr φ hq hspan, ?_, ?_, ?_⟩
  · have := hf.small; unfold St.small at *; rw [hh]; exact this
  · rw [hr, hg]; exact hf.rows_le
  · rw [hq.1, hg]; exact hf.q_le

theorem colWhile_frame (i j : Nat) (hij : i ≠ j) :
    ∀ (fuel : Nat) (s : St) (ran : Bool) (s' : St) (ran' : Bool), ColFrame s0 s →
      i < s.gens.length → j < s.gens.length →
      s.colWhile i j fuel ran = some (s', ran') → ColFrame s0 s'
  | 0, s, ran, s', ran', _, _, _, h => by simp [St.colWhile] at h
  | fuel + 1, s, ran, s', ran', hf, hi, hj, h => by
    unfold St.colWhile at h
    split at h
    · rename_i rij rii _ _
      split at h
      · have := Option.some.inj h
        simp only [Prod.mk.injEq] at this
        rw [← this.1]; exact hf
      · split at h
        · exact absurd h (by simp)
        · split at h
          · exact absurd h (by simp)
          · rename_i s1 h1
            have hf1 := hf.colsub j i _ hj hi (Ne.symm hij) h1
            have hg1 : s1.gens = s.gens := by
              obtain ⟨hg, _⟩ := colsub_spec s s1 j i _ hf.small hj hi (Ne.symm hij) hf.rows_le hf.q_le h1
              exact hg
            split at h
            · exact absurd h (by simp)
            · rename_i rij' _
              split at h
              · exact absurd h (by simp)
              · rename_i s2 h2
                have hf2 : ColFrame s0 s2 ∧ s2.gens = s1.gens := by
                  by_cases hz : rij' ≠ 0
                  · rw [if_pos hz] at h2
                    refine ⟨hf1.colswap i j (by rw [hg1]; exact hi) (by rw [hg1]; exact hj) h2, ?_⟩
                    exact (colswap_spec s1 s2 i j hf1.small (by rw [hg1]; exact hi) (by rw [hg1]; exact hj) h2).1
                  · rw [if_neg hz] at h2
                    have := Option.some.inj h2
                    rw [← this]; exact ⟨hf1, rfl⟩
                exact colWhile_frame i j hij fuel s2 true s' ran' hf2.1
                  (by rw [hf2.2, hg1]; exact hi) (by rw [hf2.2, hg1]; exact hj) h
    · exact absurd h (by simp)

/-- gens are never changed by the column loops: read off the frame -/
theorem ColFrame.gens {s : St} (hf : ColFrame s0 s) : s.gens = s0.gens := hf.ce.1

theorem colPair_frame (s : St) (more : Bool) (i j : Nat) (hij : i ≠ j) (s' : St) (more' : Bool)
    (hf : ColFrame s0 s) (hi : i < s0.gens.length) (hj : j < s0.gens.length)
    (h : s.colPair more i j = some (s', more')) : ColFrame s0 s' := by
  unfold St.colPair at h
  split at h
  · exact absurd h (by simp)
  · rename_i s1 ran h1
    have hf1 := colWhile_frame i j hij colFuel s false s1 ran hf (by rw [hf.gens]; exact hi)
      (by rw [hf.gens]; exact hj) h1
    split at h
    · split at h
      · split at h
        · exact absurd h (by simp)
        · rename_i s2 h2
          have hf2 := hf1.colsub j i 1 (by rw [hf1.gens]; exact hj) (by rw [hf1.gens]; exact hi) (Ne.symm hij) h2
          cases h3 : s2.colswap i j with
          | none => rw [h3] at h; exact absurd h (by simp)
          | some s3 =>
            rw [h3] at h
            have := Option.some.inj h
            simp only [Prod.mk.injEq] at this
            rw [← this.1]
            exact hf2.colswap i j (by rw [hf2.gens]; exact hi) (by rw [hf2.gens]; exact hj) h3
      · have := Option.some.inj h
        simp only [Prod.mk.injEq] at this
        rw [← this.1]; exact hf1
    · exact absurd h (by simp)

/-- `forM` invariant where the step only has to be justified for members of the list -/
theorem forM_inv_mem {σ α} (P : σ → Prop) (f : σ → α → Option σ) :
    ∀ (l : List α) (s s' : σ), (∀ s a s', a ∈ l → P s → f s a = some s' → P s') → P s →
      forM l s f = some s' → P s'
  | [], s, s', _, hp, h => by
    simp [forM] at h; rw [← h]; exact hp
  | a :: as, s, s', hf, hp, h => by
    unfold forM at h
    split at h
    · exact absurd h (by simp)
    · rename_i s1 h1
      exact forM_inv_mem P f as s1 s' (fun t b t' hb => hf t b t' (by simp [hb]))
        (hf s a s1 (by simp) hp h1) h

theorem mem_rangeFrom {lo hi j : Nat} (h : j ∈ rangeFrom lo hi) : lo ≤ j ∧ j < hi := by
  unfold rangeFrom at h
  obtain ⟨k, hk, rfl⟩ := List.mem_map.mp h
  have := List.mem_range.mp hk
  omega

theorem colPass_frame (s : St) (n : Nat) (hn : n ≤ s0.gens.length) (s' : St) (more' : Bool)
    (hf : ColFrame s0 s) (h : s.colPass n = some (s', more')) : ColFrame s0 s' := by
  unfold St.colPass at h
  refine forM_inv_mem (fun (p : St × Bool) => ColFrame s0 p.1) _ (List.range n) (s, false) (s', more') ?_ hf h
  intro p i p' hi hp hstep
  have hi' : i < n := List.mem_range.mp hi
  obtain ⟨s1, m1⟩ := p
  simp only [] at hstep
  refine forM_inv_mem (fun (p : St × Bool) => ColFrame s0 p.1) _ (rangeFrom (i + 1) n) (s1, m1) p' ?_ hp hstep
  intro q j q' hj hq hstep2
  obtain ⟨hj1, hj2⟩ := mem_rangeFrom hj
  obtain ⟨s2, m2⟩ := q
  obtain ⟨s3, m3⟩ := q'
  simp only [] at hstep2
  exact colPair_frame s2 m2 i j (by omega) s3 m3 hq (by omega) (by omega) hstep2

theorem colPasses_frame (n : Nat) (hn : n ≤ s0.gens.length) :
    ∀ (k : Nat) (s s' : St), ColFrame s0 s → s.colPasses n k = some s' → ColFrame s0 s'
  | 0, s, s', hf, h => by
    simp [St.colPasses] at h; rw [← h]; exact hf
  | k + 1, s, s', hf, h => by
    unfold St.colPasses at h
    split at h
    · exact absurd h (by simp)
    · rename_i s1 more h1
      have hf1 := colPass_frame s n hn s1 more hf h1
      split at h
      · exact colPasses_frame n hn k s1 s' hf1 h
      · have := Option.some.inj h
        rw [← this]; exact hf1

/-- **reduce_cols** (`0 < h < 2^63`, square matrix): there is an automorphism `φ` of `(Z/h)^n` such
that the relation module of the output is the image of the relation module of the input, and the
rows of the output `q` are the images of the rows of the identity matrix (`q` is the matrix of
`φ`). -/
theorem reduceCols_spec (s s' : St) (hs : s.small = true) (hsq : s.rows.length = s.gens.length)
    (h : s.reduceCols = some s') :
    s'.gens = s.gens ∧ s'.h = s.h ∧ s'.rows.length = s.rows.length ∧
    ∃ φ : (Fin s.gens.length → ZMod s.h) ≃ₗ[ZMod s.h] (Fin s.gens.length → ZMod s.h),
      RowsMapped s.h s.gens.length φ (identity s.rows.length) s'.q ∧
      rowSpan s.h s.gens.length s'.rows = (rowSpan s.h s.gens.length s.rows).map φ.toLinearMap := by
  unfold St.reduceCols at h
  simp only [] at h
  set s1 : St := { s with q := identity s.rows.length } with hs1
  have hq1 : s1.q.length = s.rows.length := by simp [s1, identity]
  have hf1 : ColFrame s1 s1 := ⟨ColEquiv.refl s1, hs, by simp [s1, hsq], by rw [hq1]; simp [s1, hsq]⟩
  have hf := colPasses_frame (s0 := s1) s.rows.length (by simp [s1, hsq]) 10 s1 s' hf1 h
  obtain ⟨e1, e2, e3, _, φ, hq, hspan⟩ := hf.ce
  exact ⟨e1, e2, e3, φ, hq, hspan⟩

/-- the two presentations define isomorphic groups -/
theorem reduceCols_quotient_iso (s s' : St) (hs : s.small = true) (hsq : s.rows.length = s.gens.length)
    (h : s.reduceCols = some s') :
    Nonempty (((Fin s.gens.length → ZMod s.h) ⧸ rowSpan s.h s.gens.length s.rows) ≃ₗ[ZMod s.h]
      ((Fin s.gens.length → ZMod s.h) ⧸ rowSpan s.h s.gens.length s'.rows)) := by
  obtain ⟨_, _, _, φ, _, hspan⟩ := reduceCols_spec s s' hs hsq h
  exact ⟨Submodule.Quotient.equiv _ _ φ hspan.symm⟩

end Ymq.Snf
