/-
SIQS root tables (C12): what `prepare_a` establishes for each prime, the invariant of
`Poly::first` / `Poly::next` and its preservation along the Gray walk.
-/
import Mathlib.Tactic.Ring
import Mathlib.Tactic.Linarith
import Mathlib.Tactic.LinearCombination
import Mathlib.Data.Int.ModEq
import Mathlib.Data.ZMod.Basic
import Mathlib.Data.Nat.Prime.Basic
import Ymq.Lemmas.PolyInv
import Ymq.Lemmas.PolyBits
import Ymq.Lemmas.PolyRoots
namespace Ymq.PolySiqs
open Ymq.SiqsPoly Ymq.PolyInv Ymq.PolyBits

/-! ### lists -/

theorem allSome_eq_some {α} : ∀ (l : List (Option α)) (l' : List α),
    allSome l = some l' ↔ l = l'.map some := by
  intro l
  induction l with
  | nil => intro l'; cases l' <;> simp [allSome]
  | cons x xs ih =>
    intro l'
    cases x with
    | none => cases l' <;> simp [allSome]
    | some x =>
      simp only [allSome]
      cases h : allSome xs with
      | none =>
        cases l' with
        | nil => simp
        | cons y ys =>
          simp only [List.map_cons, List.cons.injEq, Option.some.injEq, reduceCtorEq, false_iff, not_and]
          intro _ hxs
          have := (ih ys).mpr hxs
          rw [h] at this; cases this
      | some ys =>
        have := (ih ys).mp h
        cases l' with
        | nil => simp
        | cons y ys' =>
          simp only [Option.some.injEq, List.cons.injEq, List.map_cons]
          constructor
          · rintro ⟨rfl, rfl⟩; exact ⟨rfl, this⟩
          · rintro ⟨rfl, h2⟩
            refine ⟨rfl, ?_⟩
            have h3 := (ih ys').mpr h2
            rw [h] at h3; injection h3

theorem allSome_getElem {α} {l : List (Option α)} {l' : List α} (h : allSome l = some l') :
    l.length = l'.length ∧ ∀ i (h1 : i < l.length) (h2 : i < l'.length), l[i] = some l'[i] := by
  rw [allSome_eq_some] at h
  subst h
  simp

theorem withIdx_length {α} : ∀ (k : Nat) (l : List α), (withIdx k l).length = l.length := by
  intro k l
  induction l generalizing k with
  | nil => rfl
  | cons x xs ih => simp [withIdx, ih]

theorem withIdx_getElem {α} : ∀ (k : Nat) (l : List α) (i : Nat) (h : i < (withIdx k l).length),
    (withIdx k l)[i] = (k + i, l[i]'(by rw [withIdx_length] at h; exact h)) := by
  intro k l
  induction l generalizing k with
  | nil => intro i h; simp [withIdx] at h
  | cons x xs ih =>
    intro i h
    cases i with
    | zero => simp [withIdx]
    | succ i =>
      simp only [withIdx, List.getElem_cons_succ]
      rw [ih (k + 1) i]
      simp; omega

/-! ### per-prime data of prepare_a -/

/-- `start_offset` survives the cast to `i32` -/
def SoOk (so : Int) : Prop := -2147483648 ≤ so ∧ so < 2147483648

theorem wrapI32_eq {so : Int} (h : SoOk so) : wrapI32 so = so := by
  unfold wrapI32; obtain ⟨h1, h2⟩ := h; omega

/-- what `prepare_a` establishes for a prime `q` of the factor base that does not divide `a2a`
(`a2a` = A for type 1, 2A for type 2; `B0` = the first B; `ds[j] = r1ⱼ − r0ⱼ`). -/
structure PPOk (a2a : Nat) (B0 : Nat) (ds : List Nat) (so : Int) (q : Prime) (pp : PP) : Prop where
  hp : pp.p = q.p
  hr : pp.r = q.r
  hdiv : pp.divA = false
  ainv : (a2a : ZMod q.p) * pp.ainv = 1
  rp_lt : pp.rp < q.p
  rp : (pp.rp : ZMod q.p) = pp.ainv * q.r
  deltas : ∀ j (h : j < ds.length), pp.deltas.getD j 0 < q.p ∧
    (pp.deltas.getD j 0 : ZMod q.p) = -((ds[j] : Nat) : ZMod q.p) * pp.ainv
  root0_lt : pp.root0 < q.p
  root0 : (pp.root0 : ZMod q.p) = -(B0 : ZMod q.p) * pp.ainv - pp.rp - (so : ZMod q.p)

theorem mkPP_ok {a2a B0 : Nat} {ds : List Nat} {so : Int} {q : Prime} {pp : PP}
    (hprime : Nat.Prime q.p) (hnd : a2a % q.p ≠ 0) (hso : SoOk so)
    (h : mkPP a2a B0 ds so q = some pp) : PPOk a2a B0 ds so q pp := by
  have hp0 : q.p ≠ 0 := hprime.pos.ne'
  have hppos : 0 < q.p := hprime.pos
  unfold mkPP at h
  simp only [hp0, if_false] at h
  obtain ⟨x, hx, hxlt, hxinv⟩ := invMod_prime (a := a2a % q.p) hprime (by rwa [Nat.mod_mod])
  rw [hx] at h
  simp only [Option.getD_some] at h
  split at h
  · cases h
  · rename_i t ht
    split at h
    · cases h
    · rename_i val hval
      injection h with h
      subst h
      have hainv : (a2a : ZMod q.p) * (x : ZMod q.p) = 1 := by
        have : ((a2a % q.p * x % q.p : Nat) : ZMod q.p) = ((1 : Nat) : ZMod q.p) := by rw [hxinv]
        simpa [ZMod.natCast_mod] using this
      have ht' : t = -((B0 % q.p * x % q.p : Nat) : Int) - ((x * q.r % q.p : Nat) : Int) := by
        unfold chkI32 at ht; split at ht <;> simp_all
      have hval' : val = t - so := by
        unfold chkI32 at hval; rw [wrapI32_eq hso] at hval; split at hval <;> simp_all
      refine ⟨rfl, rfl, ?_, hainv, Nat.mod_lt _ hppos, ?_, ?_, ?_, ?_⟩
      · simp [hnd]
      · simp [ZMod.natCast_mod]
      · intro j hj
        simp only [List.getD_eq_getElem?_getD, List.getElem?_map, List.getElem?_eq_getElem hj,
          Option.map_some, Option.getD_some]
        have hxx : ((ds[j] % q.p * x % q.p : Nat) : ZMod q.p) = (ds[j] : ZMod q.p) * x := by
          simp [ZMod.natCast_mod]
        have hlt : ds[j] % q.p * x % q.p < q.p := Nat.mod_lt _ hppos
        by_cases h0 : ds[j] % q.p * x % q.p = 0
        · rw [if_pos h0]
          refine ⟨hppos, ?_⟩
          rw [h0] at hxx
          simp only [Nat.cast_zero] at hxx ⊢
          rw [neg_mul, ← hxx, neg_zero]
        · rw [if_neg h0]
          refine ⟨by omega, ?_⟩
          rw [Nat.cast_sub (le_of_lt hlt), ZMod.natCast_self, hxx]; ring
      · exact Int.toNat_lt (Int.emod_nonneg _ (by exact_mod_cast hp0)) |>.mpr
          (Int.emod_lt_of_pos _ (by exact_mod_cast hppos))
      · have h1 : (((val % (q.p : Int)).toNat : Nat) : ZMod q.p) = ((val : Int) : ZMod q.p) := by
          have := Int.toNat_of_nonneg (Int.emod_nonneg val (by exact_mod_cast hp0 : (q.p : Int) ≠ 0))
          rw [← Int.cast_natCast, this, ZMod.intCast_mod]
        rw [h1, hval', ht']
        push_cast
        simp [ZMod.natCast_mod]

/-! ### the root invariant -/

/-- the invariant of `Poly::first`/`Poly::next` for one prime: both table entries are reduced and
`a2a·(r1+so) + b ≡ −r`, `a2a·(r2+so) + b ≡ r (mod p)` -/
def RootInv (a2a : Nat) (so : Int) (q : Prime) (b : Int) (r12 : Nat × Nat) : Prop :=
  r12.1 < q.p ∧ r12.2 < q.p ∧
  (a2a : ZMod q.p) * ((r12.1 : ZMod q.p) + (so : ZMod q.p)) + (b : ZMod q.p) = -(q.r : ZMod q.p) ∧
  (a2a : ZMod q.p) * ((r12.2 : ZMod q.p) + (so : ZMod q.p)) + (b : ZMod q.p) = (q.r : ZMod q.p)

theorem first_inv {a2a B0 : Nat} {ds : List Nat} {so : Int} {q : Prime} {pp : PP}
    (hpos : 0 < q.p) (ok : PPOk a2a B0 ds so q pp) : RootInv a2a so q (B0 : Int) (firstRoots pp) := by
  unfold firstRoots RootInv
  rw [ok.hp]
  refine ⟨ok.root0_lt, Nat.mod_lt _ hpos, ?_, ?_⟩
  · simp only [Int.cast_natCast]
    rw [ok.root0, ok.rp]
    linear_combination (-(B0 : ZMod q.p) - (q.r : ZMod q.p)) * ok.ainv
  · simp only [Int.cast_natCast, ZMod.natCast_mod]
    push_cast
    rw [ok.root0, ok.rp]
    linear_combination (-(B0 : ZMod q.p) + (q.r : ZMod q.p)) * ok.ainv

theorem up_inv {a2a B0 : Nat} {ds : List Nat} {so : Int} {q : Prime} {pp : PP} {b : Int}
    {r12 : Nat × Nat} (hp31 : q.p < 2 ^ 31) (ok : PPOk a2a B0 ds so q pp)
    (inv : RootInv a2a so q b r12) (j : Nat) (hj : j < ds.length) :
    RootInv a2a so q (b + (ds[j] : Nat))
      (stepUp pp.p (pp.deltas.getD j 0) r12.1, stepUp pp.p (pp.deltas.getD j 0) r12.2) := by
  obtain ⟨h1, h2, e1, e2⟩ := inv
  obtain ⟨hd, ed⟩ := ok.deltas j hj
  have hpos : 0 < q.p := by omega
  unfold RootInv
  rw [ok.hp, stepUp_eq _ _ _ h1 hd hp31, stepUp_eq _ _ _ h2 hd hp31]
  refine ⟨Nat.mod_lt _ hpos, Nat.mod_lt _ hpos, ?_, ?_⟩
  · simp only [ZMod.natCast_mod]; push_cast; rw [ed]
    linear_combination e1 - ((ds[j] : Nat) : ZMod q.p) * ok.ainv
  · simp only [ZMod.natCast_mod]; push_cast; rw [ed]
    linear_combination e2 - ((ds[j] : Nat) : ZMod q.p) * ok.ainv

theorem down_inv {a2a B0 : Nat} {ds : List Nat} {so : Int} {q : Prime} {pp : PP} {b : Int}
    {r12 : Nat × Nat} (hp31 : q.p < 2 ^ 31) (ok : PPOk a2a B0 ds so q pp)
    (inv : RootInv a2a so q b r12) (j : Nat) (hj : j < ds.length) :
    RootInv a2a so q (b - (ds[j] : Nat))
      (stepDown pp.p (pp.deltas.getD j 0) r12.1, stepDown pp.p (pp.deltas.getD j 0) r12.2) := by
  obtain ⟨h1, h2, e1, e2⟩ := inv
  obtain ⟨hd, ed⟩ := ok.deltas j hj
  have hpos : 0 < q.p := by omega
  unfold RootInv
  rw [ok.hp, stepDown_eq _ _ _ h1 hd hp31, stepDown_eq _ _ _ h2 hd hp31]
  have cast_sub : ∀ r : Nat, r < q.p →
      (((r + q.p - pp.deltas.getD j 0) % q.p : Nat) : ZMod q.p)
        = (r : ZMod q.p) - (pp.deltas.getD j 0 : ZMod q.p) := by
    intro r _
    rw [ZMod.natCast_mod, Nat.cast_sub (by omega), Nat.cast_add, ZMod.natCast_self]; ring
  refine ⟨Nat.mod_lt _ hpos, Nat.mod_lt _ hpos, ?_, ?_⟩
  · rw [cast_sub _ h1]; push_cast; rw [ed]
    linear_combination e1 + ((ds[j] : Nat) : ZMod q.p) * ok.ainv
  · rw [cast_sub _ h2]; push_cast; rw [ed]
    linear_combination e2 + ((ds[j] : Nat) : ZMod q.p) * ok.ainv

/-! ### _finish_polynomial -/

theorem mkPP_basic {a2a B0 : Nat} {ds : List Nat} {so : Int} {q : Prime} {pp : PP}
    (h : mkPP a2a B0 ds so q = some pp) :
    q.p ≠ 0 ∧ pp.p = q.p ∧ pp.r = q.r ∧ pp.divA = (a2a % q.p == 0 && q.p != 2) := by
  unfold mkPP at h
  by_cases hp0 : q.p = 0
  · simp [hp0] at h
  · simp only [hp0, if_false] at h
    split at h
    · cases h
    · split at h
      · cases h
      · injection h with h; subst h; exact ⟨hp0, rfl, rfl, rfl⟩

/-- primes that do not divide `a2a` keep their table entries -/
theorem finishRoot_keep {s : Sieve} {type2 : Bool} {b : Nat} {c : Int} {first : Bool} {pp : PP}
    {r12 : Nat × Nat} (hdiv : pp.divA = false) (h2 : ¬ (type2 = true ∧ pp.p = 2)) :
    finishRoot s type2 b c first pp r12 = some r12 := by
  unfold finishRoot
  have : (first && type2 && pp.p == 2 && c.natAbs % 2 == 0) = false := by
    by_cases ht : type2 = true
    · have : pp.p ≠ 2 := fun h => h2 ⟨ht, h⟩
      simp [this]
    · simp [ht]
  simp [this, hdiv]

/-- primes dividing A: the single root of the polynomial, which is linear modulo `p` -/
theorem finishRoot_div {s : Sieve} {type2 : Bool} {b : Nat} {c : Int} {first : Bool} {pp : PP}
    {r12 r12' : Nat × Nat} (hprime : Nat.Prime pp.p) (hdiv : pp.divA = true)
    (h : finishRoot s type2 b c first pp r12 = some r12') :
    r12'.1 = r12'.2 ∧ r12'.1 < pp.p ∧
    ((if type2 then 1 else 2 : Nat) * b : ZMod pp.p) * ((r12'.1 : ZMod pp.p) + (s.startOffset : ZMod pp.p))
      + (c : ZMod pp.p) = 0 ∧
    ¬ (pp.p ∣ (if type2 then 1 else 2 : Nat) * b) := by
  unfold finishRoot at h
  simp only [hdiv, if_true] at h
  have hppos : 0 < pp.p := hprime.pos
  split at h
  · cases h
  · rename_i binv hbinv
    obtain ⟨hb1, hb2, hg⟩ := invMod_some hppos hbinv
    injection h with h
    set mult : Nat := if type2 = true then 1 else 2 with hmult
    set cp : Nat := if c < 0 then c.natAbs % pp.p else pp.p - c.natAbs % pp.p with hcp
    set r0 : Nat := cp * binv % pp.p with hr0
    have hr0lt : r0 < pp.p := Nat.mod_lt _ hppos
    have hofflt : offModp s pp.p < pp.p := by
      unfold offModp
      exact (Int.toNat_lt (Int.emod_nonneg _ (by exact_mod_cast hppos.ne'))).mpr
        (Int.emod_lt_of_pos _ (by exact_mod_cast hppos))
    have hoff : ((offModp s pp.p : Nat) : ZMod pp.p) = (s.startOffset : ZMod pp.p) := by
      unfold offModp
      have := Int.toNat_of_nonneg (Int.emod_nonneg s.startOffset (by exact_mod_cast hppos.ne' : (pp.p : Int) ≠ 0))
      rw [← Int.cast_natCast, this, ZMod.intCast_mod]
    have hbinv1 : ((mult * b : Nat) : ZMod pp.p) * (binv : ZMod pp.p) = 1 := by
      have : ((mult * (b % pp.p) * binv % pp.p : Nat) : ZMod pp.p) = ((1 % pp.p : Nat) : ZMod pp.p) := by
        rw [hb2]
      simpa [ZMod.natCast_mod] using this
    have hcpz : (cp : ZMod pp.p) = -(c : ZMod pp.p) := by
      have habs : ((c.natAbs : Nat) : ZMod pp.p) = if c < 0 then -(c : ZMod pp.p) else (c : ZMod pp.p) := by
        split
        · rename_i hneg
          have : (c.natAbs : Int) = -c := by omega
          rw [← Int.cast_natCast, this]; simp
        · rename_i hnn
          have : (c.natAbs : Int) = c := by omega
          rw [← Int.cast_natCast, this]
      rw [hcp]
      split
      · rename_i hneg; rw [ZMod.natCast_mod, habs, if_pos hneg]
      · rename_i hnn
        rw [Nat.cast_sub (le_of_lt (Nat.mod_lt _ hppos)), ZMod.natCast_self, ZMod.natCast_mod, habs,
          if_neg hnn]; ring
    have hr0z : (r0 : ZMod pp.p) = -(c : ZMod pp.p) * binv := by
      rw [hr0, ZMod.natCast_mod]; push_cast; rw [hcpz]
    have hnd : ¬ (pp.p ∣ mult * b) := by
      intro hd
      have : ((mult * b : Nat) : ZMod pp.p) = 0 := (ZMod.natCast_eq_zero_iff _ _).mpr hd
      rw [this, zero_mul] at hbinv1
      have : Fact (1 < pp.p) := ⟨hprime.one_lt⟩
      exact zero_ne_one hbinv1
    -- the shifted root
    have key : ∀ r : Nat, (r : ZMod pp.p) = (r0 : ZMod pp.p) - (offModp s pp.p : ZMod pp.p) →
        ((mult : Nat) * b : ZMod pp.p) * ((r : ZMod pp.p) + (s.startOffset : ZMod pp.p)) + (c : ZMod pp.p) = 0 := by
      intro r hr
      rw [hr, hoff, hr0z]
      have := hbinv1
      push_cast at this
      linear_combination (-(c : ZMod pp.p)) * this
    by_cases hge : r0 ≥ offModp s pp.p
    · simp only [hge, if_true] at h
      subst h
      refine ⟨rfl, by simp only; omega, ?_, hnd⟩
      exact key _ (by simp only; rw [Nat.cast_sub hge])
    · simp only [hge, if_false] at h
      subst h
      refine ⟨rfl, by simp only; omega, ?_, hnd⟩
      exact key _ (by simp only; rw [Nat.cast_sub (by omega), Nat.cast_add, ZMod.natCast_self]; ring)

/-- what a successful `_finish_polynomial` returns -/
theorem finish_some {s : Sieve} {pa : APrep} {pol pol' : Poly} (h : finish s pa pol = some pol') :
    0 < pol.b ∧ pa.a ≠ 0 ∧
    polyM pol.type2 pa.a ∣ ((pol.b.toNat * pol.b.toNat : Nat) : Int) - pol.n ∧
    pol'.c = wrap256 (Int.tdiv (((pol.b.toNat * pol.b.toNat : Nat) : Int) - pol.n) (polyM pol.type2 pa.a)) ∧
    allSome (finishRoots s pol.type2 pol.b.toNat
      (Int.tdiv (((pol.b.toNat * pol.b.toNat : Nat) : Int) - pol.n) (polyM pol.type2 pa.a)) pa.pps pol.rs)
        = some pol'.rs ∧
    pol'.b = pol.b ∧ pol'.idx = pol.idx ∧ pol'.type2 = pol.type2 ∧ pol'.a = pol.a ∧ pol'.n = pol.n := by
  unfold finish at h
  dsimp only at h
  split at h
  · cases h
  · rename_i hb
    split at h
    · cases h
    · rename_i ha
      split at h
      · cases h
      · rename_i hdvd
        split at h
        · cases h
        · rename_i rs hrs
          split at h
          · cases h
          · split at h
            · cases h
            · split at h
              · cases h
              · split at h
                · cases h
                · injection h with h
                  subst h
                  refine ⟨by omega, ha, ?_, rfl, hrs, rfl, rfl, rfl, rfl, rfl⟩
                  exact Int.dvd_of_emod_eq_zero (by simpa using hdvd)

/-! ### prepare_a -/

theorem prepareA_some {f : Factors} {a : Nat} {fb : List Prime} {so : Int} {pa : APrep}
    (h : prepareA f a fb so = some pa) :
    ∃ prs : List (Nat × Nat),
      rootPairs f a (afsOf f a) 0 (afsOf f a) = some prs ∧
      pa.a = a ∧ a ≠ 0 ∧ a < 2 ^ 254 ∧ pa.factors = (afsOf f a).map (·.2) ∧
      pa.roots = prs.map (fun pr => ((pr.1 : Int), (pr.2 : Int))) ∧
      ((a : Int) ∣ ((root0Of f.n (afsOf f a).isEmpty prs * root0Of f.n (afsOf f a).isEmpty prs : Nat) : Int) - f.n) ∧
      allSome (fb.map (mkPP (a2aOf f.n a) (root0Of f.n (afsOf f a).isEmpty prs)
        (prs.map fun pr => pr.2 - pr.1) so)) = some pa.pps := by
  unfold prepareA at h
  split at h
  · cases h
  · rename_i ha254
    dsimp only at h
    split at h
    · cases h
    · rename_i prs hprs
      split at h
      · cases h
      · rename_i ha0
        split at h
        · cases h
        · rename_i hdvd
          split at h
          · cases h
          · rename_i pps hpps
            injection h with h
            subst h
            refine ⟨prs, hprs, rfl, ha0, by omega, rfl, rfl, ?_, hpps⟩
            exact Int.dvd_of_emod_eq_zero (by simpa using hdvd)

/-! ### the family of polynomials of one `A` -/

/-- what `prepare_a` provides to the walk -/
structure Fam (n : Int) (fb : List Prime) (so : Int) (pa : APrep) (B0 : Nat) (ds : List Nat) : Prop where
  len : pa.pps.length = fb.length
  pp : ∀ i (h1 : i < fb.length) (h2 : i < pa.pps.length),
    mkPP (a2aOf n pa.a) B0 ds so fb[i] = some pa.pps[i]
  roots_len : pa.roots.length = ds.length
  roots : ∀ j (h1 : j < pa.roots.length) (h2 : j < ds.length),
    pa.roots[j].2 - pa.roots[j].1 = ((ds[j] : Nat) : Int)
  b0 : pa.factors.isEmpty = false → (pa.roots.map (·.1)).sum = (B0 : Int)
  b0' : pa.factors.isEmpty = true → B0 = if isType2 n then 1 else 0
  ds_even : ∀ j (h : j < ds.length), ds[j] % 2 = 0
  nf : pa.roots.length = pa.factors.length

theorem rootPair_le {a i : Nat} {fp : Prime} {c inv : Nat} {pr : Nat × Nat}
    (h : rootPair a i fp c inv = some pr) : pr.1 ≤ pr.2 ∧ (pr.2 - pr.1) % 2 = 0 := by
  unfold rootPair at h
  split at h
  · cases h
  · dsimp only at h
    split at h
    · split at h
      · cases h
      · injection h with h; subst h; simp only; omega
    · split at h
      · cases h
      · split at h
        · rename_i hle
          injection h with h; subst h; simp only at hle ⊢; omega
        · cases h

theorem rootPairs_le {f : Factors} {a : Nat} {afs : List (Nat × Prime)} :
    ∀ (l : List (Nat × Prime)) (i : Nat) (prs : List (Nat × Nat)),
      rootPairs f a afs i l = some prs →
        prs.length = l.length ∧ ∀ pr ∈ prs, pr.1 ≤ pr.2 ∧ (pr.2 - pr.1) % 2 = 0 := by
  intro l
  induction l with
  | nil => intro i prs h; simp [rootPairs] at h; subst h; simp
  | cons x xs ih =>
    intro i prs h
    obtain ⟨idx, fp⟩ := x
    simp only [rootPairs, Option.bind_eq_bind] at h
    cases h1 : crtLoop f idx fp.p afs 1 1 with
    | none => simp [h1] at h
    | some ci =>
      obtain ⟨c, inv⟩ := ci
      simp only [h1, Option.bind_some] at h
      cases h2 : rootPair a i fp c inv with
      | none => simp [h2] at h
      | some pr =>
        simp only [h2, Option.bind_some] at h
        cases h3 : rootPairs f a afs (i + 1) xs with
        | none => simp [h3] at h
        | some tl =>
          simp only [h3, Option.bind_some, Option.some.injEq] at h
          subst h
          obtain ⟨hl, hle⟩ := ih (i + 1) tl h3
          refine ⟨by simp [hl], ?_⟩
          intro pr' hmem
          rcases List.mem_cons.mp hmem with rfl | hmem
          · exact rootPair_le h2
          · exact hle _ hmem

theorem sum_fst_cast (prs : List (Nat × Nat)) :
    ((prs.map fun pr => ((pr.1 : Int), (pr.2 : Int))).map (·.1)).sum = (((prs.map (·.1)).sum : Nat) : Int) := by
  induction prs with
  | nil => simp
  | cons x xs ih => simp only [List.map_cons, List.sum_cons, Nat.cast_add, ih]

theorem prepareA_fam {f : Factors} {a : Nat} {fb : List Prime} {so : Int} {pa : APrep}
    (h : prepareA f a fb so = some pa) :
    ∃ B0 ds, Fam f.n fb so pa B0 ds ∧ pa.a = a ∧ a ≠ 0 ∧ a < 2 ^ 254 := by
  obtain ⟨prs, hprs, ha, ha0, ha254, hfac, hroots, _, hpps⟩ := prepareA_some h
  obtain ⟨hlen, hle⟩ := rootPairs_le _ _ _ hprs
  obtain ⟨hl, hget⟩ := allSome_getElem hpps
  refine ⟨root0Of f.n (afsOf f a).isEmpty prs, prs.map (fun pr => pr.2 - pr.1),
    ⟨?_, ?_, ?_, ?_, ?_, ?_, ?_, ?_⟩, ha, ha0, ha254⟩
  · rw [← hl]; simp
  · intro i h1 h2
    have := hget i (by simp; exact h1) h2
    rw [ha]
    simpa using this
  · rw [hroots]; simp
  · intro j h1 h2
    simp only [hroots, List.getElem_map]
    have hj : j < prs.length := by rw [hroots] at h1; simpa using h1
    have := (hle prs[j] (List.getElem_mem hj)).1
    push_cast [Nat.cast_sub this]
    rfl
  · intro hne
    rw [hfac] at hne
    have hne' : (afsOf f a).isEmpty = false := by simpa using hne
    unfold root0Of
    rw [hne', hroots]
    simp only [Bool.false_and, Bool.false_eq_true, if_false]
    exact sum_fst_cast prs
  · intro he
    rw [hfac] at he
    have he' : (afsOf f a).isEmpty = true := by simpa using he
    have hnil : afsOf f a = [] := List.isEmpty_iff.mp he'
    rw [hnil] at hprs
    simp only [rootPairs, Option.some.injEq] at hprs
    subst hprs
    unfold root0Of
    rw [hnil]
    simp
  · intro j hj
    have hj' : j < prs.length := by simpa using hj
    simp only [List.getElem_map]
    exact (hle prs[j] (List.getElem_mem hj')).2
  · rw [hroots, hfac]; simp [hlen]

/-- the invariant of the whole table: every prime of the factor base that does not divide `a2a`
satisfies `RootInv` for the current `B` -/
def WalkInv (n : Int) (fb : List Prime) (pa : APrep) (so : Int) (pol : Poly) : Prop :=
  pol.rs.length = fb.length ∧ pol.type2 = isType2 n ∧ pol.n = n ∧
  (isType2 n = true → pol.b % 2 = 1) ∧
  ∀ i (h : i < fb.length) (h' : i < pol.rs.length), Nat.Prime fb[i].p → fb[i].p < 2 ^ 31 →
    a2aOf n pa.a % fb[i].p ≠ 0 → RootInv (a2aOf n pa.a) so fb[i] pol.b pol.rs[i]

theorem a2a_type2_two {n : Int} {a p : Nat} (h : a2aOf n a % p ≠ 0) : ¬ (isType2 n = true ∧ p = 2) := by
  rintro ⟨ht, rfl⟩
  apply h
  unfold a2aOf; rw [if_pos ht]; omega

theorem finish_walk {n : Int} {fb : List Prime} {so : Int} {pa : APrep} {B0 : Nat} {ds : List Nat}
    {s : Sieve} {pol0 pol : Poly} (fam : Fam n fb so pa B0 ds) (hso : SoOk so)
    (hinv : WalkInv n fb pa so pol0) (h : finish s pa pol0 = some pol) :
    WalkInv n fb pa so pol := by
  obtain ⟨hlen, ht, hn, hodd, hroot⟩ := hinv
  obtain ⟨_, _, _, _, hrs, hb, _, ht', _, hn'⟩ := finish_some h
  obtain ⟨hl, hget⟩ := allSome_getElem hrs
  have hlen' : pol.rs.length = fb.length := by
    rw [← hl]; unfold finishRoots
    rw [List.length_zipWith, withIdx_length, fam.len, hlen]; simp
  refine ⟨hlen', ht'.trans ht, hn'.trans hn, by rw [hb]; exact hodd, ?_⟩
  intro i h1 h2 hprime hp31 hnd
  have hi0 : i < pol0.rs.length := by omega
  have hipp : i < pa.pps.length := by rw [fam.len]; exact h1
  have hmk := fam.pp i h1 hipp
  have ok := mkPP_ok hprime hnd hso hmk
  have hfin := hget i (by rw [hl]; exact h2) h2
  unfold finishRoots at hfin
  rw [List.getElem_zipWith, withIdx_getElem] at hfin
  have hkeep := finishRoot_keep (s := s) (type2 := pol0.type2) (b := pol0.b.toNat)
    (c := Int.tdiv (((pol0.b.toNat * pol0.b.toNat : Nat) : Int) - pol0.n) (polyM pol0.type2 pa.a))
    (first := (0 + i == 0)) (pp := pa.pps[i]) (r12 := pol0.rs[i]) ok.hdiv
    (by rw [ht, ok.hp]; exact a2a_type2_two hnd)
  rw [hkeep] at hfin
  injection hfin with hfin
  rw [← hfin, hb]
  exact hroot i h1 hi0 hprime hp31 hnd

theorem unitFix_spec' (typ : Bool) (pps : List PP) (rs : List (Nat × Nat)) :
    (unitFix typ pps rs).length = rs.length ∧
    (∀ i (h1 : i < (unitFix typ pps rs).length) (h2 : i < pps.length) (h3 : i < rs.length),
      pps[i].p ≠ 2 ∨ typ = false → (unitFix typ pps rs)[i] = rs[i]) := by
  cases pps with
  | nil => simp [unitFix]
  | cons pp rest =>
    cases rs with
    | nil => simp [unitFix]
    | cons r rs' =>
      obtain ⟨r1, r2⟩ := r
      by_cases hc : (pp.p == 2 && typ) = true
      · have e : unitFix typ (pp :: rest) ((r1, r2) :: rs') = (r1, r1 + 1) :: rs' := by
          simp only [unitFix, hc, if_true]
        simp only [e]
        refine ⟨by simp, ?_⟩
        intro i h1 h2 h3 hor
        cases i with
        | zero =>
          exfalso
          simp only [Bool.and_eq_true, beq_iff_eq] at hc
          simp only [List.getElem_cons_zero] at hor
          rcases hor with hor | hor
          · exact hor hc.1
          · rw [hc.2] at hor; cases hor
        | succ i => simp
      · have e : unitFix typ (pp :: rest) ((r1, r2) :: rs') = (r1, r2) :: rs' := by
          simp only [unitFix, hc]; simp
        simp only [e]
        simp

theorem unitFix_spec (typ : Bool) (pps : List PP) :
    (unitFix typ pps (pps.map firstRoots)).length = pps.length ∧
    (∀ i (h1 : i < (unitFix typ pps (pps.map firstRoots)).length) (h2 : i < pps.length),
      pps[i].p ≠ 2 ∨ typ = false → (unitFix typ pps (pps.map firstRoots))[i] = firstRoots pps[i]) := by
  obtain ⟨hl, hr⟩ := unitFix_spec' typ pps (pps.map firstRoots)
  refine ⟨by rw [hl]; simp, ?_⟩
  intro i h1 h2 hor
  rw [hr i h1 h2 (by simp; exact h2) hor]
  simp

theorem first_walk {n : Int} {fb : List Prime} {mm : Nat} {pa : APrep} {B0 : Nat} {ds : List Nat}
    {pol : Poly} (fam : Fam n fb (mkSieve n mm).startOffset pa B0 ds) (hso : SoOk (mkSieve n mm).startOffset)
    (h : first (mkSieve n mm) pa = some pol) :
    WalkInv n fb pa (mkSieve n mm).startOffset pol ∧ pol.idx = 0 := by
  have hinv0 : ∀ b : Int, b = (B0 : Int) → (isType2 n = true → b % 2 = 1) →
      WalkInv n fb pa (mkSieve n mm).startOffset
        { idx := 0, type2 := isType2 n, a := (pa.a : Int), b := b, c := 0, root := 0,
          rs := pa.pps.map firstRoots, n := n } := by
    intro b hb hodd
    refine ⟨by simp [fam.len], rfl, rfl, hodd, ?_⟩
    intro i h1 h2 hprime hp31 hnd
    have hipp : i < pa.pps.length := by rw [fam.len]; exact h1
    have ok := mkPP_ok hprime hnd hso (fam.pp i h1 hipp)
    simp only [List.getElem_map, hb]
    exact first_inv hprime.pos ok
  unfold first at h
  have hsn : (mkSieve n mm).n = n := rfl
  simp only [hsn] at h
  split at h
  · -- A = 1
    rename_i hempty
    split at h
    · cases h
    · have hB0 := fam.b0' hempty
      have key : ∀ (b c : Int) (rs : List (Nat × Nat)), b = (B0 : Int) →
          (isType2 n = true → b % 2 = 1) →
          rs.length = pa.pps.length →
          (∀ i (h1 : i < rs.length) (h2 : i < pa.pps.length), pa.pps[i].p ≠ 2 ∨ isType2 n = false →
            rs[i] = firstRoots pa.pps[i]) →
          WalkInv n fb pa (mkSieve n mm).startOffset
            { idx := 0, type2 := isType2 n, a := 1, b := b, c := c, root := 0, rs := rs, n := n } := by
        intro b c rs hb hodd hl hrs
        refine ⟨by rw [hl, fam.len], rfl, rfl, hodd, ?_⟩
        intro i h1 h2 hprime hp31 hnd
        have hipp : i < pa.pps.length := by rw [fam.len]; exact h1
        have ok := mkPP_ok hprime hnd hso (fam.pp i h1 hipp)
        have h2' := a2a_type2_two hnd
        have : pa.pps[i].p ≠ 2 ∨ isType2 n = false := by
          rw [ok.hp]
          by_cases ht : isType2 n = true
          · left; intro hp2; exact h2' ⟨ht, hp2⟩
          · right; simpa using ht
        simp only [hrs i h2 hipp this, hb]
        exact first_inv hprime.pos ok
      have hrs : ∀ (rs : List (Nat × Nat)), rs = unitFix (isType2 n) pa.pps (pa.pps.map firstRoots) →
          rs.length = pa.pps.length ∧
          (∀ i (h1 : i < rs.length) (h2 : i < pa.pps.length), pa.pps[i].p ≠ 2 ∨ isType2 n = false →
            rs[i] = firstRoots pa.pps[i]) := by
        intro rs hdef
        subst hdef
        exact unitFix_spec _ _
      split at h
      · injection h with h; subst h
        obtain ⟨hl, hr⟩ := hrs _ rfl
        have ht1 : isType2 n = false := by simpa using ‹¬isType2 n = true›
        refine ⟨?_, rfl⟩
        have := key 0 (-(wrap256 n)) _ (by rw [hB0, ht1]; simp) (by rw [ht1]; intro hh; cases hh) hl hr
        rw [ht1] at this ⊢
        exact this
      · injection h with h; subst h
        obtain ⟨hl, hr⟩ := hrs _ rfl
        have ht1 : isType2 n = true := by simpa using ‹¬¬isType2 n = true›
        refine ⟨?_, rfl⟩
        have := key 1 ((1 - wrap256 n) / 4) _ (by rw [hB0, ht1]; simp) (fun _ => by decide) hl hr
        rw [ht1] at this ⊢
        exact this
  · rename_i hne
    have hne' : pa.factors.isEmpty = false := by simpa using hne
    split at h
    · cases h
    · rename_i b hb
      have hbv : b = (B0 : Int) := by
        unfold chk256 at hb
        split at hb
        · injection hb with hb; rw [← hb]; exact fam.b0 hne'
        · cases hb
      split at h
      · cases h
      · rename_i hoddb
        have hodd : isType2 n = true → b % 2 = 1 := by
          intro ht; by_contra hc; exact hoddb ⟨ht, hc⟩
        have hw := finish_walk fam hso (hinv0 b hbv hodd) h
        obtain ⟨_, _, _, _, _, _, hidx, _⟩ := finish_some h
        exact ⟨hw, hidx⟩

theorem chk256_some {x y : Int} (h : chk256 x = some y) : y = x := by
  unfold chk256 at h
  split at h
  · injection h with h; exact h.symm
  · cases h

theorem next_walk {n : Int} {fb : List Prime} {so : Int} {pa : APrep} {B0 : Nat} {ds : List Nat}
    {s : Sieve} {pol pol' : Poly} (fam : Fam n fb so pa B0 ds) (hso : SoOk so)
    (hinv : WalkInv n fb pa so pol) (h : next s pa pol = some pol') :
    WalkInv n fb pa so pol' ∧ pol'.idx = pol.idx + 1 := by
  obtain ⟨hlen, ht, hn, hodd, hroot⟩ := hinv
  unfold next at h
  dsimp only at h
  split at h
  · cases h
  · split at h
    · cases h
    · split at h
      · cases h
      · split at h
        · cases h
        · rename_i r0 r1 hroots
          set bit := tz64 ((pol.idx ^^^ pol.idx >>> 1) ^^^ (pol.idx + 1 ^^^ (pol.idx + 1) >>> 1)) with hbit
          have hbr : bit < pa.roots.length := by
            by_contra hc
            rw [List.getElem?_eq_none (by omega)] at hroots; cases hroots
          have hbd : bit < ds.length := by rw [← fam.roots_len]; exact hbr
          have hd : r1 - r0 = ((ds[bit] : Nat) : Int) := by
            have := fam.roots bit hbr hbd
            rw [List.getElem?_eq_getElem hbr] at hroots
            injection hroots with hroots
            rw [hroots] at this; exact this
          -- the intermediate polynomial satisfies the invariant
          have step : ∀ (b : Int) (rs : List (Nat × Nat)) (up : Bool),
              b = (if up then pol.b + ((ds[bit] : Nat) : Int) else pol.b - ((ds[bit] : Nat) : Int)) →
              rs = List.zipWith (fun (pp : PP) (r : Nat × Nat) =>
                if up then (stepUp pp.p (pp.deltas.getD bit 0) r.1, stepUp pp.p (pp.deltas.getD bit 0) r.2)
                else (stepDown pp.p (pp.deltas.getD bit 0) r.1, stepDown pp.p (pp.deltas.getD bit 0) r.2))
                pa.pps pol.rs →
              WalkInv n fb pa so { pol with idx := pol.idx + 1, b := b, rs := rs } := by
            intro b rs up hb hrs
            have hev := fam.ds_even bit hbd
            refine ⟨by rw [hrs, List.length_zipWith, fam.len, hlen]; simp, ht, hn, ?_, ?_⟩
            · intro htyp
              have := hodd htyp
              rw [hb]; cases up <;> simp only [if_true, Bool.false_eq_true, if_false] <;> omega
            intro i h1 h2 hprime hp31 hnd
            have hipp : i < pa.pps.length := by rw [fam.len]; exact h1
            have hirs : i < pol.rs.length := by rw [hlen]; exact h1
            have ok := mkPP_ok hprime hnd hso (fam.pp i h1 hipp)
            have inv := hroot i h1 hirs hprime hp31 hnd
            simp only [hrs, List.getElem_zipWith, hb]
            cases up with
            | true => simpa using up_inv hp31 ok inv bit hbd
            | false => simpa using down_inv hp31 ok inv bit hbd
          split at h
          · -- flip 0 → 1
            split at h
            · cases h
            · rename_i t ht1
              split at h
              · cases h
              · rename_i b hb1
                have hb : b = pol.b + ((ds[bit] : Nat) : Int) := by
                  rw [chk256_some hb1, chk256_some ht1, ← hd]; ring
                have hw := step b _ true hb rfl
                have := finish_walk fam hso hw h
                obtain ⟨_, _, _, _, _, _, hidx, _⟩ := finish_some h
                exact ⟨this, hidx⟩
          · split at h
            · cases h
            · rename_i t ht1
              split at h
              · cases h
              · rename_i b hb1
                have hb : b = pol.b - ((ds[bit] : Nat) : Int) := by
                  rw [chk256_some hb1, chk256_some ht1, ← hd]; ring
                split at h
                · cases h
                · have hw := step b _ false hb rfl
                  have := finish_walk fam hso hw h
                  obtain ⟨_, _, _, _, _, _, hidx, _⟩ := finish_some h
                  exact ⟨this, hidx⟩

/-- the root invariant holds for every polynomial of the Gray walk -/
theorem polyAt_walk {n : Int} {fb : List Prime} {mm : Nat} {pa : APrep} {B0 : Nat} {ds : List Nat}
    (fam : Fam n fb (mkSieve n mm).startOffset pa B0 ds) (hso : SoOk (mkSieve n mm).startOffset) :
    ∀ (idx : Nat) (pol : Poly), polyAt (mkSieve n mm) pa idx = some pol →
      WalkInv n fb pa (mkSieve n mm).startOffset pol ∧ pol.idx = idx := by
  intro idx
  induction idx with
  | zero => intro pol h; exact first_walk fam hso h
  | succ i ih =>
    intro pol h
    simp only [polyAt] at h
    split at h
    · cases h
    · rename_i prev hprev
      obtain ⟨hw, hidx⟩ := ih prev hprev
      obtain ⟨hw', hidx'⟩ := next_walk fam hso hw h
      exact ⟨hw', by rw [hidx', hidx]⟩

end Ymq.PolySiqs
