/-
Minimality of the polynomial returned by the Berlekamp–Massey model: when the sequence satisfies
a recurrence of order `L` with `2L ≤ n`, the returned vector has degree at most `L` and
annihilates the sequence from index `L` on (not only on the window `n/2 ≤ i < n`): it is the
connection polynomial of the rational function in lowest terms.
-/
import Ymq.Lemmas.BerlekampMasseySpec
import Mathlib.Algebra.Polynomial.Inductions
import Mathlib.RingTheory.Coprime.Lemmas

namespace Ymq.BM
open Polynomial

variable {p : ℕ} {o : Ops} {κ : ZMod p}

/-- Any `T` with `T(0) ≠ 0`, `deg T ≤ L`, `2L ≤ n` that annihilates the sequence from `L` on is a
polynomial multiple `T = out · A` of the returned vector, and the returned vector annihilates the
sequence from `L - deg A` on. -/
theorem core_minimal_dvd [Fact p.Prime] (ok : OpsOK o p κ) (seq : List ℕ) (hr : Red p seq)
    {i j : ℕ}
    (hij : i < j) (hi : gd seq i ≠ 0) (hj : gd seq j ≠ 0) (T : (ZMod p)[X]) (hT0 : T.coeff 0 ≠ 0)
    (L : ℕ) (hL : 2 * L ≤ seq.length) (hTd : T.natDegree ≤ L)
    (hTa : ∀ i, L ≤ i → i < seq.length → (T * toPoly p seq).coeff i = 0)
    (out : List ℕ) (h : core o seq = some out) :
    ∃ A : (ZMod p)[X], T = toPoly p out * A ∧ (∀ j, L < j → gd out j = 0) ∧
      ∀ i, L ≤ i + A.natDegree → i < seq.length →
        (toPoly p out * toPoly p seq).coeff i = 0 := by
  obtain ⟨hn, s', inv, hdf, e⟩ := core_run ok seq hr hij hi hj
  have hl : 0 < s'.u.length := by rw [inv.lu]; omega
  rw [e] at h
  have hu0 : gd s'.u 0 ≠ 0 := by
    intro hu0; rw [finish_none s'.u hl hu0] at h; simp at h
  obtain ⟨out', c, g1, g2, g3, g4, g5⟩ := finish_some ok s'.u hl inv.ru hu0
  rw [g1] at h
  have : out' = out := Option.some.inj h
  subst this
  obtain ⟨a, b, cc, hc, e1, e2, e3⟩ := inv.gh
  -- abbreviations
  generalize hU : toPoly p s'.u = U at *
  generalize hF : toPoly p s'.f = F at *
  generalize hV : toPoly p s'.v = V at *
  generalize hG : toPoly p s'.g = G at *
  generalize hS : toPoly p seq = S at *
  have hU0 : U.coeff 0 ≠ 0 := by
    rw [← hU, coeff_toPoly]; unfold co
    rw [Ne, cast_eq_zero_of_lt (inv.ru 0)]; exact hu0
  have hUne : U ≠ 0 := fun hh => hU0 (by rw [hh]; simp)
  have hTne : T ≠ 0 := fun hh => hT0 (by rw [hh]; simp)
  -- the low part R of T*S
  have hRc : ∀ d, (∑ i ∈ Finset.range L, C ((T * S).coeff i) * X ^ i : (ZMod p)[X]).coeff d =
      if d < L then (T * S).coeff d else 0 := by
    intro d
    rw [finsetSum_coeff]
    simp only [coeff_C_mul, coeff_X_pow]
    by_cases hd : d < L
    · rw [if_pos hd, Finset.sum_eq_single d]
      · simp
      · intro b _ hb; simp [Ne.symm hb]
      · intro hh; exact absurd (Finset.mem_range.mpr hd) hh
    · rw [if_neg hd]
      apply Finset.sum_eq_zero
      intro b hb
      have := Finset.mem_range.mp hb
      have : d ≠ b := by omega
      simp [this]
  generalize hR : (∑ i ∈ Finset.range L, C ((T * S).coeff i) * X ^ i : (ZMod p)[X]) = R at hRc
  have hdvd : X ^ seq.length ∣ T * S - R := by
    rw [X_pow_dvd_iff]
    intro d hd
    rw [coeff_sub, hRc]
    by_cases h1 : d < L
    · rw [if_pos h1]; ring
    · rw [if_neg h1, hTa d (by omega) hd]; ring
  obtain ⟨Wp, hW⟩ := hdvd
  have key : U * R - T * F = X ^ seq.length * (-(U * Wp + T * a)) := by
    rw [e1]; linear_combination (-U) * hW
  have hdU : U.natDegree ≤ seq.length - seq.length / 2 := by
    rw [natDegree_le_iff_coeff_eq_zero]
    intro N hN
    rw [← hU, coeff_toPoly]
    have := inv.b1; have := inv.hm
    exact co_zero (inv.zu N (by omega))
  have hdF : F.natDegree ≤ seq.length / 2 - 1 := by
    rw [natDegree_le_iff_coeff_eq_zero]
    intro N hN
    rw [← hF, coeff_toPoly]
    exact co_zero (inv.zf N (by omega))
  have hdR : R.natDegree ≤ L - 1 := by
    rw [natDegree_le_iff_coeff_eq_zero]
    intro N hN
    rw [hRc, if_neg (by omega)]
  have hR0 : L = 0 → R = 0 := by
    intro hL0
    ext d
    rw [hRc, if_neg (by omega)]; simp
  have hdeg : (U * R - T * F).natDegree < seq.length := by
    have h1 := natDegree_sub_le (U * R) (T * F)
    have h3 := natDegree_mul_le (p := T) (q := F)
    have : 1 ≤ seq.length / 2 := by omega
    by_cases hL0 : L = 0
    · simp only [hR0 hL0, mul_zero, natDegree_zero] at h1 ⊢
      omega
    · have h2 := natDegree_mul_le (p := U) (q := R)
      omega
  have hzero : U * R - T * F = 0 :=
    eq_zero_of_dvd_of_natDegree_lt ⟨_, key⟩ (by rw [natDegree_X_pow]; exact hdeg)
  have hURTF : T * F = U * R := by linear_combination -hzero
  -- gcd(U, F) = 1
  have hdet : F * V - G * U = C cc * X ^ seq.length := by
    rw [e1, e2]; linear_combination X ^ seq.length * e3
  have hcopX : IsCoprime U X := by
    refine ⟨C (U.coeff 0)⁻¹, -(C (U.coeff 0)⁻¹ * divX U), ?_⟩
    have hd := divX_mul_X_add U
    have hc1 : C (U.coeff 0)⁻¹ * C (U.coeff 0) = (1 : (ZMod p)[X]) := by
      rw [← C_mul, inv_mul_cancel₀ hU0, C_1]
    linear_combination (C (U.coeff 0)⁻¹) * (-hd) + hc1
  obtain ⟨α, β, hαβ⟩ := hcopX.pow_right (n := seq.length)
  have hcc : C cc⁻¹ * C cc = (1 : (ZMod p)[X]) := by rw [← C_mul, inv_mul_cancel₀ hc, C_1]
  have hcop : IsCoprime U F := by
    refine ⟨α - β * C cc⁻¹ * G, β * C cc⁻¹ * V, ?_⟩
    linear_combination hαβ + (β * C cc⁻¹) * hdet + (β * X ^ seq.length) * hcc
  have hUT : U ∣ T := hcop.dvd_of_dvd_mul_right ⟨R, hURTF⟩
  obtain ⟨A, hA⟩ := hUT
  have hAne : A ≠ 0 := fun hh => hTne (by rw [hA, hh, mul_zero])
  have hRAF : R = A * F := by
    have : U * (A * F) = U * R := by rw [← hURTF, hA]; ring
    exact (mul_left_cancel₀ hUne this).symm
  have hdU' : U.natDegree ≤ L := by
    have := natDegree_mul hUne hAne
    rw [← hA] at this
    omega
  have hFz : ∀ i, L ≤ i + A.natDegree → F.coeff i = 0 := by
    intro i hi
    by_cases hF0 : F = 0
    · rw [hF0]; simp
    · have hRne : R ≠ 0 := by rw [hRAF]; exact mul_ne_zero hAne hF0
      have hRlt : R.natDegree < L := by
        by_contra hc'
        have : R.coeff R.natDegree = 0 := by rw [hRc, if_neg hc']
        exact hRne (leadingCoeff_eq_zero.mp this)
      have := natDegree_mul hAne hF0
      rw [← hRAF] at this
      exact coeff_eq_zero_of_natDegree_lt (by omega)
  have hP : toPoly p out' = C c * U := by
    ext k; rw [coeff_C_mul, coeff_toPoly, ← hU, coeff_toPoly, g5]
  have hcne : c ≠ 0 := by
    intro hc0
    have h5 := g5 0
    unfold co at h5
    rw [g4, hc0, zero_mul, Nat.cast_one] at h5
    exact one_ne_zero h5
  have hcinv : C c * C c⁻¹ = (1 : (ZMod p)[X]) := by rw [← C_mul, mul_inv_cancel₀ hcne, C_1]
  refine ⟨C c⁻¹ * A, ?_, ?_, ?_⟩
  · rw [hP, hA]; linear_combination (-(U * A)) * hcinv
  · intro j hj
    rw [← cast_eq_zero_of_lt (g3 j)]
    have h5 := g5 j
    unfold co at h5
    rw [h5]
    have : U.coeff j = 0 := coeff_eq_zero_of_natDegree_lt (by omega)
    rw [← hU, coeff_toPoly] at this
    unfold co at this
    rw [this]; simp
  · intro i hi1 hi2
    have hUS : U * S = F - a * X ^ seq.length := by rw [e1]; ring
    have hdA : (C c⁻¹ * A).natDegree = A.natDegree := natDegree_C_mul (inv_ne_zero hcne)
    rw [hdA] at hi1
    rw [hP, mul_assoc, coeff_C_mul, hUS, coeff_sub, hFz i hi1, coeff_mul_X_pow',
      if_neg (by omega)]
    simp

theorem core_minimal [Fact p.Prime] (ok : OpsOK o p κ) (seq : List ℕ) (hr : Red p seq) {i j : ℕ}
    (hij : i < j) (hi : gd seq i ≠ 0) (hj : gd seq j ≠ 0) (T : (ZMod p)[X]) (hT0 : T.coeff 0 ≠ 0)
    (L : ℕ) (hL : 2 * L ≤ seq.length) (hTd : T.natDegree ≤ L)
    (hTa : ∀ i, L ≤ i → i < seq.length → (T * toPoly p seq).coeff i = 0)
    (out : List ℕ) (h : core o seq = some out) :
    (∀ j, L < j → gd out j = 0) ∧
      ∀ i, L ≤ i → i < seq.length → (toPoly p out * toPoly p seq).coeff i = 0 := by
  obtain ⟨A, _, h1, h2⟩ := core_minimal_dvd ok seq hr hij hi hj T hT0 L hL hTd hTa out h
  exact ⟨h1, fun i hi1 hi2 => h2 i (by omega) hi2⟩


theorem core_minimal_list [Fact p.Prime] (ok : OpsOK o p κ) (seq : List ℕ)
    (hr : ∀ x ∈ seq, x < p) (h2 : TwoTerms seq) (L : ℕ) (taps : List ℕ)
    (hL : 2 * L ≤ seq.length) (h0 : taps.getD 0 0 % p ≠ 0)
    (hd : ∀ j, L < j → taps.getD j 0 % p = 0)
    (hrec : ∀ i, L ≤ i → i < seq.length → convAt taps seq i % p = 0)
    (out : List ℕ) (h : core o seq = some out) :
    (∀ j, L < j → out.getD j 0 = 0) ∧
      ∀ i, L ≤ i → i < seq.length → convAt out seq i % p = 0 := by
  have hp : 0 < p := (Fact.out : p.Prime).pos
  obtain ⟨i, j, hij, hi, hj⟩ := h2
  obtain ⟨m1, m2⟩ := core_minimal ok seq (red_of_mem hp seq hr) hij hi hj (toPoly p taps)
    (by
      rw [coeff_toPoly]; unfold co gd
      rwa [Ne, ← mod_eq_zero_iff_cast])
    L hL
    (by
      rw [natDegree_le_iff_coeff_eq_zero]
      intro N hN
      rw [coeff_toPoly]; unfold co gd
      rw [← mod_eq_zero_iff_cast]
      exact hd N hN)
    (by
      intro i hi1 hi2
      rw [← convAt_cast, ← mod_eq_zero_iff_cast]
      exact hrec i hi1 hi2)
    out h
  refine ⟨m1, fun i hi1 hi2 => ?_⟩
  rw [mod_eq_zero_iff_cast, convAt_cast]
  exact m2 i hi1 hi2

end Ymq.BM
