/-
Model of the iteration of `kernel_lanczos` (src/matrix/gf2.rs lines 117-258): the initial block
(lines 141-158) and ONE iteration of the main loop (lines 162-247) exactly as the code computes it:
`next = A·W_last ^ V_last`, `av = A·next`, the projections on the earlier blocks with the purge of the
blocks whose vectors were all consumed (`mask == 0`), the Gram matrix `(B·next)·(B·next)`, `rank` /
`rank_reverse` (every 2nd block), the exit on `rk == 0`, `W = next & mask`, the pseudo-inverse of the
masked Gram matrix, the update of `Y`; every `debug_assert!` is a panic site when `dbg`.
`A·x` is `mul_aab_opt`, `B·x` is `optMul`, `x·y` is `blockDot`, `&SmallMat * &SmallMat` is `mul`,
`Block::muladd` is `blockMulAdd`. The random block comes from `genblock` (an input here).
No Mathlib import.
-/
import Ymq.Model.Gf2Genblock

namespace Ymq.Gf2Lanczos
open Ymq.Gf2 Ymq.Gf2Small Ymq.Gf2Genblock

/-- `!0` -/
def M64 : Nat := 2 ^ 64 - 1

def zeros64 : Mat := List.replicate 64 0

/-- `Block::muladd(self, m, b)`: `self[k] ^= Σ_j b[k,j]·m[j]` (`assert_eq!` on the lengths) -/
def blockMulAdd (self : List Nat) (m : Mat) (b : List Nat) : Option (List Nat) :=
  if self.length = b.length then some (List.zipWith (fun s w => s ^^^ comb w m 0) self b) else none

structure LState where
  vs : List (List Nat)
  ws : List (List Nat)       -- `[]` = purged (`ws[j].0 = vec![]`)
  invgs : List Mat
  masks : List Nat
  y : List Nat
deriving Repr, DecidableEq

/-- lines 141-158: first block `A·Y`; returns the state and `ay` -/
def lanczosInit (dbg : Bool) (b : SparseOpt) (y0 : List Nat) : Option (LState × List Nat) :=
  match mulAabOpt b y0 with
  | none => none
  | some ay =>
    match optMul b ay with
    | none => none
    | some bay =>
      match blockDot bay bay with
      | none => none
      | some g =>
        match inverse 64 dbg g with
        | some (some ginv) =>
          match blockDot ay ay with
          | none => none
          | some aa =>
            match blockMulAdd y0 (mul ginv aa) ay with
            | none => none
            | some y => some ({ vs := [ay], ws := [ay], invgs := [ginv], masks := [M64], y := y }, ay)
        | _ => none                                            -- panic inside inverse, or `.unwrap()` on `None`

/-- `let mut mask = !0; for k in j + 2..vs.len() { mask &= masks[k - 1]; }` -/
def maskFor (masks : List Nat) (j vlen : Nat) : Option Nat :=
  (List.range' (j + 2) (vlen - (j + 2))).foldlM (fun m k =>
    match masks[k - 1]? with
    | none => none
    | some x => some (m &&& x)) M64

/-- body of `for j in 0..ws.len()` -/
def projStep (dbg : Bool) (b : SparseOpt) (av : List Nat) (invgs : List Mat) (masks : List Nat) (vlen : Nat)
    (st : List (List Nat) × List (List Nat) × List Nat) (j : Nat) :
    Option (List (List Nat) × List (List Nat) × List Nat) :=
  let (vs, ws, next) := st
  match ws[j]? with
  | none => none
  | some w =>
    if w.isEmpty then some st                                  -- `continue`
    else
      match maskFor masks j vlen with
      | none => none
      | some mask =>
        if mask = 0 then
          -- debug_assert!(&ws[j] * &av == SmallMat::default())
          if dbg && blockDot w av != some zeros64 then none
          else if j < vs.length then some (vs.set j [], ws.set j [], next) else none
        else
          match blockDot w av, invgs[j]? with
          | some d, some ig =>
            match blockMulAdd next (mul ig d) w with
            | none => none
            | some next' =>
              -- debug_assert!(&mul_aab(b, w) * &next == SmallMat::default())
              if dbg && (match mulAabOpt b w with
                  | none => true
                  | some aw => blockDot aw next' != some zeros64) then none
              else some (vs, ws, next')
          | _, _ => none

inductive StepRes where
  | panic
  | finished (st : LState)          -- `break` (rk == 0)
  | continue (st : LState) (mask : Nat)
deriving Repr, DecidableEq

/-- one iteration of `loop { ... }` -/
def lanczosStep (dbg : Bool) (b : SparseOpt) (ay : List Nat) (st : LState) : StepRes :=
  if st.vs.length ≠ st.ws.length then .panic else               -- assert_eq!
  match st.ws.getLast?, st.vs.getLast? with
  | some wl, some prev =>
    match mulAabOpt b wl with
    | none => .panic
    | some next0 =>
      if prev.length < next0.length then .panic else             -- `next.0[i] ^= prev.0[i]`
      let next1 := List.zipWith (fun a p => a ^^^ p) next0 prev
      match mulAabOpt b next1 with
      | none => .panic
      | some av =>
        match (List.range st.ws.length).foldlM (projStep dbg b av st.invgs st.masks st.vs.length)
            (st.vs, st.ws, next1) with
        | none => .panic
        | some (vs', ws', next) =>
          match optMul b next with
          | none => .panic
          | some bv =>
            match blockDot bv bv with
            | none => .panic
            | some gram =>
              let reverse := vs'.length % 2 == 1
              match (if reverse then rankReverse 64 dbg gram else rank 64 dbg gram) with
              | none => .panic
              | some (rk, mk) =>
                if rk = 0 then .finished { st with vs := vs', ws := ws' }
                else
                  let w := next.map (fun v => v &&& mk)
                  match mask 64 dbg gram mk with
                  | none => .panic
                  | some gm =>
                    match pseudoinverse 64 dbg gm with
                    | none => .panic
                    | some ginv =>
                      if dbg && rank 64 dbg ginv != some (rk, mk) then .panic else
                      match blockDot w ay with
                      | none => .panic
                      | some d =>
                        match blockMulAdd st.y (mul ginv d) w with
                        | none => .panic
                        | some y' =>
                          -- debug_assert!(&w * &mul_aab(b, &y) == SmallMat::default())
                          if dbg && (match mulAabOpt b y' with
                              | none => true
                              | some ayy => blockDot w ayy != some zeros64) then .panic
                          else .continue { vs := vs' ++ [next], ws := ws' ++ [w], invgs := st.invgs ++ [ginv],
                                           masks := st.masks ++ [M64 ^^^ mk], y := y' } mk
  | _, _ => .panic

/-- the loop with fuel, recording `(mask, W_i, Y)` after every completed iteration (what the hook
`record_lanczos_iter` records); `none` = panic or out of fuel -/
def lanczosLoop (dbg : Bool) (b : SparseOpt) (ay : List Nat) :
    Nat → LState → List (Nat × List Nat × List Nat) → Option (LState × List (Nat × List Nat × List Nat))
  | 0, _, _ => none
  | fuel + 1, st, acc =>
    match lanczosStep dbg b ay st with
    | .panic => none
    | .finished st' =>
      -- after the loop: debug_assert!(w * &mul_aab(b, &y) == 0) for every block not purged
      if dbg && st'.ws.any (fun w => !w.isEmpty && (match mulAabOpt b st'.y with
          | none => true
          | some ayy => blockDot w ayy != some zeros64)) then none
      else some (st', acc.reverse)
    | .continue st' mk => lanczosLoop dbg b ay fuel st' ((mk, st'.ws.getLast?.getD [], st'.y) :: acc)

/-- `kernel_lanczos` after `genblock`: the initial block, the main loop (with fuel) and the final stage
(`lanczosFinal` of Model/Gf2.lean: B·Y, `kernel_gauss`, Y·K, removal of the null vectors) on the final `Y`;
`none` = panic or out of fuel -/
def kernelLanczos (dbg : Bool) (k : Nat) (cols : List (List Nat)) (y0 : List Nat) (fuel : Nat) : Option (List BVec) :=
  match lanczosInit dbg (qsOptimize k cols) y0 with
  | none => none
  | some (st, ay) =>
    match lanczosLoop dbg (qsOptimize k cols) ay fuel st [] with
    | none => none
    | some (st', _) => lanczosFinal k cols st'.y

end Ymq.Gf2Lanczos
