/-
Model of the dense integer linear algebra of `src/matrix/intdense.rs`
(`crt`, `GFpEchelonBuilder::{new,add,div,submul,submul_n,det}`, `det_matz`, `CRTDetBuilder::det`,
the candidate selection of `compute_lattice_index`) and of the CRT of `src/matrix/intsparse.rs`.

Conventions (see Ymq/Model/Mg64.lean): machine words are `Nat`, every panic site of the checked
profile (assert, unwrap, index, overflow) returns `none`, loops take fuel.

* The echelon builder keeps its values in Montgomery form exactly as the Rust code does; the word
  routines are the ones of `Ymq.Mg64` (property C07).
* `arith::inv_mod64` and `isprime64` are parameters (`inv`, `isprime`) of the routines that call
  them: the driver instantiates them with `Ymq.Arith.invMod64` / `Ymq.Mg64.isprime64`, the theorems
  take their specification as a named hypothesis.
* NOT modelled: every `f64` computation. `det_matz`/`CRTDetBuilder::det` receive the rounded bit
  estimate `bits` as an input and their final floating-point cross-check is omitted;
  `compute_lattice_index` is modelled from the point where the determinants are known, with the
  window given by exact fractions.
* `I4096` overflow (checked profile) is modelled in `crt`; bnum values elsewhere are unbounded.
No Mathlib import: this file is linked into the native driver.
-/
import Ymq.Model.Mg64
import Ymq.Model.Arith

namespace Ymq.IntMat
open Ymq.Mg64 (W mgRedc mgMul mg2adicInv)

/-! ### helpers -/

/-- `for x in l` with an early `none` -/
def forM {σ α} (l : List α) (s : σ) (f : σ → α → Option σ) : Option σ :=
  match l with
  | [] => some s
  | a :: as => match f s a with
    | none => none
    | some s' => forM as s' f

/-- `v.swap(i, j)` -/
def swapIdx {α} (l : List α) (i j : Nat) : Option (List α) :=
  match l[i]?, l[j]? with
  | some a, some b => some ((l.set i b).set j a)
  | _, _ => none

/-- the type of the stand-in for `arith::inv_mod64`: outer `none` = panic, inner = its `Option`. -/
abbrev Inv := Nat → Nat → Option (Option Nat)

/-! ### crt (intdense.rs) -/

def I4096LIM : Int := 2 ^ 4095

/-- a value of type `I4096` produced by `*`, `+` (overflow panics in the checked profile) -/
def fit4096 (x : Int) : Option Int := if -I4096LIM ≤ x ∧ x < I4096LIM then some x else none

/-- `l.mapM f` for `Option`, written out (used by the theorems) -/
def mapOpt {α β} (f : α → Option β) : List α → Option (List β)
  | [] => some []
  | a :: as =>
    match f a with
    | none => none
    | some b =>
      match mapOpt f as with
      | none => none
      | some bs => some (b :: bs)

/-- inner loop `for j in 0..modp.len()` computing `crt_basis[i]` (before the final `*= inv`) and
`inv`: `ps` = the primes not yet visited, `j` = index of the head of `ps`, state `(basis, inv)`. -/
def crtBasisLoop (inv : Inv) (i pi : Nat) : List Nat → Nat → Int → Nat → Option (Int × Nat)
  | [], _, b, a => some (b, a)
  | pj :: ps, j, b, a =>
    if i = j then crtBasisLoop inv i pi ps (j + 1) b a
    else
      match fit4096 (b * pj) with
      | none => none
      | some b' =>
        match inv pj pi with
        | some (some ij) =>
          if pi = 0 then none else crtBasisLoop inv i pi ps (j + 1) b' (a * ij % pi)
        | _ => none                                      -- unwrap / panic inside inv_mod64

/-- `crt_basis[i]`; `ps` = `primes[..modp.len()]` -/
def crtBasis (inv : Inv) (ps : List Nat) (i : Nat) : Option Int :=
  match ps[i]? with
  | none => none
  | some pi =>
    match crtBasisLoop inv i pi ps 0 1 1 with
    | none => none
    | some (b, a) => fit4096 (b * a)

/-- `for &p in &primes[..n] { prod *= p }` -/
def crtProd : List Nat → Int → Option Int
  | [], acc => some acc
  | p :: ps, acc =>
    match fit4096 (acc * p) with
    | none => none
    | some acc' => crtProd ps acc'

/-- `for (&deti, bi) in modp.iter().zip(&crt_basis) { det += deti * bi }` -/
def crtSum : List Nat → List Int → Int → Option Int
  | m :: ms, b :: bs, acc =>
    match fit4096 (m * b) with
    | none => none
    | some t =>
      match fit4096 (acc + t) with
      | none => none
      | some acc' => crtSum ms bs acc'
  | _, _, acc => some acc

/-- the symmetric lift at the end of both `crt`s: `det %= prod; if det > prod >> 1 { det - prod }` -/
def symLift (det prod : Int) : Option Int :=
  if prod = 0 then none
  else
    let d := Int.tmod det prod
    some (if d > prod / 2 then d - prod else d)

/-- `crt(modp, primes)` of intdense.rs -/
def crtDense (inv : Inv) (modp primes : List Nat) : Option Int :=
  let n := modp.length
  if primes.length < n then none                        -- primes[i], &primes[..n]
  else
    let ps := primes.take n
    match mapOpt (crtBasis inv ps) (List.range n) with
    | none => none
    | some basis =>
      match crtProd ps 1 with
      | none => none
      | some prod =>
        match crtSum modp basis 0 with
        | none => none
        | some det => symLift det prod

/-! ### crt (intsparse.rs): `_crt::<N>`; bnum widths are not modelled (primes < 2^63) -/

/-- product of the entries of `ps` whose index (the head has index `j`) is not `i`:
`fwdprods[i] * revprods[i]` for `j = 0` -/
def prodSkip (i : Nat) : List Nat → Nat → Nat
  | [], _ => 1
  | p :: ps, j => if i = j then prodSkip i ps (j + 1) else p * prodSkip i ps (j + 1)

/-- `BInt::from(mi) * basis` for index `i`; `ps` = `primes[..modp.len()]` -/
def crtSparseTerm (inv : Inv) (modp ps : List Nat) (i : Nat) : Option Int :=
  match modp[i]?, ps[i]? with
  | some mi, some pi =>
    if pi = 0 then none
    else
      let basis := prodSkip i ps 0
      match inv (basis % pi) pi with
      | some (some iv) => some ((mi * iv % pi * basis : Nat) : Int)
      | _ => none
  | _, _ => none

/-- `crt(modp, primes)` of intsparse.rs -/
def crtSparse (inv : Inv) (modp primes : List Nat) : Option Int :=
  let n := modp.length
  if n = 0 then some 0
  else if n = 1 then some (modp.getD 0 0 : Nat)
  else if primes.length < n then none
  else
    let ps := primes.take n
    match mapOpt (crtSparseTerm inv modp ps) (List.range n) with
    | none => none
    | some terms => symLift terms.sum (ps.prod : Nat)

/-! ### the permutation sign loop of `GFpEchelonBuilder::det` -/

/-- the two nested `while` loops, flattened: state `(i, ind, swaps)`.
`while i < ind.len() { let mut j = ind[i]; while j != i { ind.swap(i, j); swaps += 1; j = ind[i] }; i += 1 }` -/
def cycleWalk : Nat → Nat → List Nat → Nat → Option Nat
  | 0, _, _, _ => none
  | f + 1, i, ind, swaps =>
    if ind.length ≤ i then some swaps
    else
      match ind[i]? with
      | none => none
      | some j =>
        if j = i then cycleWalk f (i + 1) ind swaps
        else
          match swapIdx ind i j with
          | none => none
          | some ind' => cycleWalk f i ind' (swaps + 1)

/-- number of swaps counted by `det` for the index vector `ind` -/
def permSwaps (ind : List Nat) : Option Nat := cycleWalk (2 * ind.length + 1) 0 ind 0

/-! ### GFpEchelonBuilder -/

structure Ech where
  p : Nat
  pinv : Nat
  r : Nat
  r2 : Nat
  indices : List Nat
  basis : List (List Nat)
  factors : List Nat
  deriving Repr

def I63 : Nat := 2 ^ 63

/-- `GFpEchelonBuilder::new(p)` -/
def Ech.new (p : Nat) : Option Ech :=
  match mg2adicInv p with
  | none => none
  | some pinv =>
    if p = 0 then none
    else
      let r := W % p
      some { p, pinv, r, r2 := r * r % p, indices := [], basis := [], factors := [] }

/-- `a - b` on residues below `p`: `if a >= b { a - b } else { a + p - b }` (u64) -/
def subP (p a b : Nat) : Option Nat :=
  if a ≥ b then some (a - b)
  else if a + p ≥ W then none
  else if a + p < b then none
  else some (a + p - b)

/-- the `+=`/`-=` form used by `submul`/`submul_n`: `if v >= mw { v -= mw } else { v += p - mw }` -/
def subP' (p v mw : Nat) : Option Nat :=
  if v ≥ mw then some (v - mw)
  else if p < mw then none
  else if v + (p - mw) ≥ W then none
  else some (v + (p - mw))

/-- the closure `submul` of `add`: `a - b * c` -/
def Ech.subMulC (e : Ech) (a b c : Nat) : Option Nat :=
  match mgMul e.p e.pinv b c with
  | none => none
  | some bc => subP e.p a bc

/-- `self.submul(v, w, m)` -/
def Ech.submul (e : Ech) (v w : List Nat) (m : Nat) : Option (List Nat) :=
  if m = 0 then some v
  else
    (List.range v.length).mapM (fun i =>
      match v[i]?, w[i]? with
      | some vi, some wi =>
        if wi = 0 then some vi
        else
          match mgMul e.p e.pinv m wi with
          | none => none
          | some mw => subP' e.p vi mw
      | _, _ => none)

/-- `self.submul_n(v, ws, ms, start)` (`N = ws.length`) -/
def Ech.submulN (e : Ech) (v : List Nat) (ws : List (List Nat)) (ms : List Nat) (start : Nat) :
    Option (List Nat) :=
  if e.indices.length < start then none
  else
    forM (e.indices.drop start) v (fun v i =>
      match (ws.zip ms).mapM (fun (w, m) => (w[i]?).map (· * m)) with
      | none => none
      | some prods =>
        let mw := prods.foldl (· + ·) 0
        if mw ≥ W * W then none                           -- u128 overflow
        else
          match mgRedc e.p e.pinv mw, v[i]? with
          | some mw, some vi =>
            let mw := if mw ≥ e.p then mw - e.p else mw
            (subP' e.p vi mw).map (v.set i ·)
          | _, _ => none)

/-- the triangular update `for a in 1..8 { for b in 0..a { vs[a] = submul(vs[a], vs[b], basis[i+b][idxs[a]]) } }` -/
def Ech.blockVs (e : Ech) (i : Nat) (idxs vs : List Nat) : Option (List Nat) :=
  forM (List.range 8) vs (fun vs a =>
    forM (List.range a) vs (fun vs b =>
      match vs[a]?, vs[b]?, idxs[a]?, e.basis[i + b]? with
      | some va, some vb, some ia, some row =>
        match row[ia]? with
        | none => none
        | some c => (e.subMulC va vb c).map (vs.set a ·)
      | _, _, _, _ => none))

/-- the elimination loop of `add` (`while i < self.basis.len()`) -/
def Ech.elim (e : Ech) : Nat → Nat → List Nat → Option (List Nat)
  | 0, _, _ => none
  | f + 1, i, vp =>
    if e.basis.length ≤ i then some vp
    else
      match e.indices[i]? with
      | none => none
      | some idx =>
        match vp[idx]? with
        | none => none
        | some vi =>
          if vi = 0 then e.elim f (i + 1) vp
          else if i + 8 < e.basis.length ∧ e.p / 2 ^ 62 = 0 then      -- `self.p >> 62 == 0`
            let idxs := (e.indices.drop i).take 8
            if idxs.length ≠ 8 then none
            else
              match idxs.mapM (vp[·]?) with
              | none => none
              | some vs =>
                match e.blockVs i idxs vs with
                | none => none
                | some vs =>
                  match e.submulN vp ((e.basis.drop i).take 8) vs i with
                  | none => none
                  | some vp' => e.elim f (i + 8) vp'
          else
            match e.basis[i]? with
            | none => none
            | some row =>
              match e.submul vp row vi with
              | none => none
              | some vp' => e.elim f (i + 1) vp'

/-- `self.div(v, m)` -/
def Ech.div (inv : Inv) (e : Ech) (v : List Nat) (m : Nat) : Option (List Nat) :=
  match mgRedc e.p e.pinv m with
  | none => none
  | some mm =>
    match inv mm e.p with
    | some (some mminv) =>
      match mgMul e.p e.pinv mminv e.r2 with
      | none => none
      | some minv => v.mapM (fun vi => mgMul e.p e.pinv vi minv)
    | _ => none

/-- position of the first non-zero entry -/
def firstNonzero : List Nat → Nat → Option (Nat × Nat)
  | [], _ => none
  | x :: xs, i => if x ≠ 0 then some (i, x) else firstNonzero xs (i + 1)

/-- `self.add(v)`: returns the new state and the boolean result. -/
def Ech.add (inv : Inv) (e : Ech) (v : List Int) : Option (Ech × Bool) :=
  if e.p ≥ I63 then none                                 -- `self.p as i64` (not modelled beyond i64)
  else
    let shapeOk := match e.basis with
      | [] => true
      | b0 :: _ => v.length = b0.length
    if !shapeOk then none
    else
      let e := if e.basis.isEmpty then { e with indices := List.range v.length } else e
      match v.mapM (fun vi => mgMul e.p e.pinv (vi % (e.p : Int)).toNat e.r2) with
      | none => none
      | some vp =>
        match e.elim (e.basis.length + 1) 0 vp with
        | none => none
        | some vp =>
          match firstNonzero vp 0 with
          | none => some (e, false)
          | some (i, vi) =>
            match e.div inv vp vi with
            | none => none
            | some vp =>
              if vp[i]? ≠ some e.r then none              -- assert_eq!(vp[i], self.r)
              else
                match e.indices.idxOf? i with
                | none => none
                | some idx =>
                  match swapIdx e.indices idx e.basis.length with
                  | none => none
                  | some ind' =>
                    some ({ e with indices := ind', basis := e.basis ++ [vp],
                                   factors := e.factors ++ [vi] }, true)

/-- `self.det()` -/
def Ech.det (e : Ech) : Option Nat :=
  match e.basis with
  | [] => none
  | b0 :: _ =>
    if e.factors.length ≠ b0.length then none
    else
      match permSwaps e.indices, e.factors with
      | some swaps, f0 :: fs =>
        match forM fs f0 (fun d f => mgMul e.p e.pinv d f) with
        | none => none
        | some d =>
          match mgRedc e.p e.pinv d with
          | none => none
          | some d => some (if swaps % 2 = 1 ∧ d > 0 then e.p - d else d)
      | _, _ => none

/-- add all rows; `some none` = some `add` returned false (determinant is zero mod p) -/
def Ech.addAll (inv : Inv) (e : Ech) : List (List Int) → Option (Option Ech)
  | [] => some (some e)
  | v :: vs =>
    match e.add inv v with
    | none => none
    | some (e', true) => Ech.addAll inv e' vs
    | some (_, false) => some none

/-- determinant modulo `p` as the callers compute it -/
def detModP (inv : Inv) (p : Nat) (mat : List (List Int)) : Option Nat :=
  match Ech.new p with
  | none => none
  | some e =>
    match e.addAll inv mat with
    | none => none
    | some none => some 0
    | some (some e') => e'.det

/-! ### reference echelon builder in plain modular arithmetic

`EchP` is the same algorithm as `Ech` with residues in natural representation and the sequential
elimination only (no Montgomery form, no 8-row blocks). It is the object of `echelon_det`; the
driver answers `im_echelon_plain` / `im_detp_plain` with it and the pipeline compares these answers
with the implementation as well. -/

structure EchP where
  p : Nat
  indices : List Nat
  basis : List (List Nat)
  factors : List Nat
  deriving Repr, DecidableEq

/-- `v - m·w` entrywise modulo `p` -/
def rowSubMul (p : Nat) (v w : List Nat) (m : Nat) : List Nat :=
  List.zipWith (fun a b => (a + (p - m * b % p)) % p) v w

/-- the elimination loop: `rows` = the basis rows not yet used, `idxs` = their pivot columns -/
def elimP (p : Nat) : List (List Nat) → List Nat → List Nat → Option (List Nat)
  | [], _, vp => some vp
  | _ :: _, [], _ => none
  | row :: rows, idx :: idxs, vp =>
    match vp[idx]? with
    | none => none
    | some vi => elimP p rows idxs (if vi = 0 then vp else rowSubMul p vp row vi)

/-- `assert_eq!(v.len(), self.basis[0].len())` -/
def shapeOkP (basis : List (List Nat)) (len : Nat) : Bool :=
  match basis with
  | [] => true
  | b0 :: _ => len = b0.length

/-- the builder with its column order initialised by the first row -/
def EchP.start (e : EchP) (len : Nat) : EchP :=
  if e.basis.isEmpty then { e with indices := List.range len } else e

/-- `add(v)` -/
def EchP.add (inv : Inv) (e : EchP) (v : List Int) : Option (EchP × Bool) :=
  if e.p ≥ I63 ∨ e.p = 0 then none
  else
    if !shapeOkP e.basis v.length then none
    else
      let e := e.start v.length
      let vp := v.map (fun x => (x % (e.p : Int)).toNat)
      match elimP e.p e.basis e.indices vp with
      | none => none
      | some vp =>
        match firstNonzero vp 0 with
        | none => some (e, false)
        | some (i, vi) =>
          match inv vi e.p with
          | some (some iv) =>
            let row := vp.map (fun x => x * iv % e.p)
            if row[i]? ≠ some 1 then none                  -- assert_eq!(vp[i], self.r)
            else
              match e.indices.idxOf? i with
              | none => none
              | some pos =>
                match swapIdx e.indices pos e.basis.length with
                | none => none
                | some ind' =>
                  some ({ e with indices := ind', basis := e.basis ++ [row], factors := e.factors ++ [vi] }, true)
          | _ => none

/-- `det()` -/
def EchP.det (e : EchP) : Option Nat :=
  match e.basis with
  | [] => none
  | b0 :: _ =>
    if e.factors.length ≠ b0.length then none
    else
      match permSwaps e.indices with
      | none => none
      | some swaps =>
        let d := e.factors.foldl (fun acc f => acc * f % e.p) (1 % e.p)
        some (if swaps % 2 = 1 ∧ d > 0 then e.p - d else d)

/-- add the rows one after the other; a rejected row leaves the state unchanged -/
def EchP.addAll (inv : Inv) (e : EchP) : List (List Int) → List Bool → Option (EchP × List Bool)
  | [], acc => some (e, acc)
  | v :: vs, acc =>
    match e.add inv v with
    | none => none
    | some (e', b) => EchP.addAll inv e' vs (acc ++ [b])

/-- determinant modulo `p` of a square matrix as the callers compute it: `0` as soon as a row is
rejected -/
def detModPlain (inv : Inv) (p : Nat) : EchP → List (List Int) → Option Nat
  | e, [] => e.det
  | e, v :: vs =>
    match e.add inv v with
    | none => none
    | some (_, false) => some 0
    | some (e', true) => detModPlain inv p e' vs

/-! ### det_matz -/

/-- `p -= 30; while !isprime64(p) { p -= 30 }` -/
def prevPrime30 (isprime : Nat → Option Bool) : Nat → Nat → Option Nat
  | 0, _ => none
  | f + 1, p =>
    if p < 30 then none
    else
      match isprime (p - 30) with
      | none => none
      | some true => some (p - 30)
      | some false => prevPrime30 isprime f (p - 30)

def primeFuel : Nat := 100000

/-- the `'crtloop` of `det_matz`; returns `(modp, primes)` -/
def detMatzLoop (isprime : Nat → Option Bool) (inv : Inv) (mat : List (List Int)) (bits : Nat) :
    Nat → Nat → List Nat → List Nat → Option (List Nat × List Nat)
  | 0, _, _, _ => none
  | f + 1, p, modp, primes =>
    if ¬ (60 * modp.length < bits) then some (modp, primes)
    else
      match prevPrime30 isprime primeFuel p with
      | none => none
      | some p' =>
        match detModP inv p' mat with
        | none => none
        | some dp => detMatzLoop isprime inv mat bits f p' (modp ++ [dp]) (primes ++ [p'])

/-- `det_matz(mat, log2estimate)` with `bits = log2estimate.round()`; the closing comparison with
the floating-point estimate is not modelled. -/
def detMatz (isprime : Nat → Option Bool) (inv : Inv) (mat : List (List Int)) (bits : Nat) :
    Option Int :=
  if bits < 1 ∨ bits > 60 * 64 then none
  else
    match detMatzLoop isprime inv mat bits (bits + 1) ((2 ^ 62 / 30) * 30 - 1) [] [] with
    | none => none
    | some (modp, primes) =>
      if 63 * modp.length < bits + 2 then none
      else crtDense inv modp primes

/-! ### CRTDetBuilder -/

structure CrtDet where
  rows : List (List Int)
  echelons : List Ech

/-- add the rows one by one keeping the state reached when an `add` fails -/
def Ech.addAllKeep (inv : Inv) (e : Ech) : List (List Int) → Option (Ech × Bool)
  | [] => some (e, true)
  | v :: vs =>
    match e.add inv v with
    | none => none
    | some (e', true) => Ech.addAllKeep inv e' vs
    | some (e', false) => some (e', false)

def CrtDet.loop (isprime : Nat → Option Bool) (inv : Inv) (rows : List (List Int)) (nth : List Int)
    (bits : Nat) : Nat → Nat → List Ech → List Nat → List Nat → Option (List Ech × List Nat × List Nat)
  | 0, _, _, _, _ => none
  | f + 1, p, echs, modp, primes =>
    if ¬ (60 * modp.length < bits ∨ 61 * modp.length < bits + 2) then some (echs, modp, primes)
    else
      match prevPrime30 isprime primeFuel p with
      | none => none
      | some p' =>
        let k := modp.length
        let echs? : Option (List Ech) :=
          if echs.length ≤ k then (Ech.new p').map (fun e => echs ++ [e]) else some echs
        match echs? with
        | none => none
        | some echs =>
          match echs[k]? with
          | none => none
          | some mp =>
            if mp.p ≠ p' then none                        -- debug_assert!(mp.p == p)
            else
              let mp := if mp.basis.length > rows.length then
                  { mp with basis := mp.basis.take rows.length, factors := mp.factors.take rows.length }
                else mp
              match mp.addAllKeep inv (rows.drop mp.basis.length) with
              | none => none
              | some (mp', false) =>
                CrtDet.loop isprime inv rows nth bits f p' (echs.set k mp') (modp ++ [0]) (primes ++ [p'])
              | some (mp', true) =>
                match mp'.add inv nth with
                | none => none
                | some (mp'', false) =>                   -- `if !mp.add(nth_row) { modp.push(0); continue }`
                  CrtDet.loop isprime inv rows nth bits f p' (echs.set k mp'') (modp ++ [0]) (primes ++ [p'])
                | some (mp'', true) =>
                  match mp''.det with
                  | none => none
                  | some d =>
                    CrtDet.loop isprime inv rows nth bits f p' (echs.set k mp'') (modp ++ [d]) (primes ++ [p'])

/-- `CRTDetBuilder::det(nth_row, log2estimate)` with `bits = log2estimate.round()` -/
def CrtDet.det (isprime : Nat → Option Bool) (inv : Inv) (c : CrtDet) (nth : List Int) (bits : Nat) :
    Option (Int × CrtDet) :=
  if bits < 1 ∨ bits > 60 * 66 then none
  else
    match CrtDet.loop isprime inv c.rows nth bits (bits + 2) ((2 ^ 61 / 30) * 30 - 1) c.echelons [] [] with
    | none => none
    | some (echs, modp, primes) =>
      if 61 * modp.length < bits + 2 then none
      else (crtDense inv modp primes).map (fun d => (d, { c with echelons := echs }))

/-! ### candidate selection of `compute_lattice_index`

The window is `[lo/den, hi/den]` (exact fractions, `den > 0`). Internally everything is scaled by
`10·den`: `L = 10·den·hmin'`, `H = 10·den·hmax'` where `hmin' = max(0.9·hmin, hmin - 3·prec)` and
`hmax' = min(1.1·hmax, hmax + 3·prec)`. -/

structure Window where
  L : Int
  H : Int
  den : Nat          -- `10·den` of the input
  deriving Repr

def mkWindow (lo hi den : Nat) : Window :=
  let prec : Int := ((hi : Int) - lo).natAbs
  { L := max (9 * (lo : Int)) (10 * lo - 30 * prec),
    H := min (11 * (hi : Int)) (10 * hi + 30 * prec),
    den := 10 * den }

/-- `(a / b).round()` for `a ≥ 0`, `b > 0` (round half away from zero) -/
def roundDiv (a b : Int) : Int := (2 * a + b) / (2 * b)

/-- the asserts after the empty-matrix case -/
def Window.ok (w : Window) : Bool :=
  w.L ≤ w.H ∧ 2 * w.H < 3 * w.L ∧ w.H < 2 ^ 126 * (w.den : Int)

/-- candidates for one value of the running gcd; `none` = `continue` (gcd still too large) -/
def candidates (w : Window) (g : Nat) : Option (List Nat) :=
  let gd : Int := (g : Int) * w.den
  if gd > 10000 * w.L then none
  else
    let m1 := roundDiv gd w.H
    let m2 := roundDiv gd w.L
    let ms := (List.range (m2 + 1 - m1).toNat).map (fun (k : Nat) => m1 + (k : Int))
    some (ms.filterMap (fun m =>
      if m ≤ 0 then none
      else
        let q := (g : Int) / m
        if (g : Int) % m = 0 ∧ 9 * w.L ≤ 10 * w.den * q ∧ 10 * w.den * q ≤ 11 * w.H then some q.toNat
        else none))

/-- the determinants are consumed in the order in which the code computes them -/
def selectIndex (w : Window) : List Int → Nat → Option Nat
  | [], _ => none                                        -- panic!("failed to determine lattice index")
  | d :: ds, g =>
    let g' := Nat.gcd g d.natAbs
    match candidates w g' with
    | some [q] => some q
    | _ => selectIndex w ds g'

/-- `compute_lattice_index` for a matrix with a single column (`dim = 1`): every non-zero row is a
candidate last row, its determinant is the entry itself; rows are visited in the stable order of
their squares, once per start index. -/
def insertSorted (x : Int) : List Int → List Int
  | [] => [x]
  | y :: ys => if x * x < y * y then x :: y :: ys else y :: insertSorted x ys

def sortBySquare (l : List Int) : List Int := l.foldl (fun acc x => insertSorted x acc) []

def latticeIndex1 (col : List Int) (lo hi den : Nat) : Option Nat :=
  let w := mkWindow lo hi den
  if col.isEmpty then
    if w.L ≤ w.den ∧ (w.den : Int) ≤ w.H then some 1 else none
  else if !w.ok then none
  else
    let s := sortBySquare col
    let starts := List.range (max 4 s.length - 3)
    let dets := starts.flatMap (fun k => (s.drop k).filter (· ≠ 0))
    selectIndex w dets 0

end Ymq.IntMat
