/-
C05, promptness half on the protocol model (Ymq/Model/Sched.lean): what the workers of a
multi-threaded sieve can still do once the caller's abort predicate answers `true`.

In the sieves every work unit (an A value in SIQS, a polynomial block in MPQS, a curve in ECM)
starts with a poll `done.load() || prefs.abort()` (src/siqs.rs:128-133, src/mpqs.rs:171,
src/ecm.rs:218); inside a unit only `done` is read. The model's `Act.poll` is that poll; the
schedule carries the predicate's answers, so the predicate is arbitrary. `abortBudget c` is the
number of actions left in the workers' CURRENT units (up to and including their next poll).

Wall-clock latency is not a theorem (how long one unit takes is runtime behaviour): it is measured
by the check (seeded flip instants, exhaustive poll-index scans, minute-long inputs with a 5 s bound).
-/
import Ymq.Lemmas.Sched

namespace Ymq.C05
open Ymq.Sched

variable {ρ σ : Type}

/-- **Bounded work after an abort request**: along any schedule on which the abort predicate
answers `true` at every poll (every interleaving, every pattern of stale `done` reads), the workers
perform at most `abortBudget c` further actions in total — each worker finishes at most the
remainder of the work unit it is in and then stops at its next poll; no new unit is started. -/
theorem abort_bounded (add : σ → ρ → σ) (enough : σ → Bool) (c : Cfg ρ σ)
    (sched : List (Nat × Bool × Bool)) (heff : allEffective add enough c sched)
    (hab : allAbort sched) :
    sched.length + abortBudget (run add enough c sched) ≤ abortBudget c :=
  abort_steps_bounded add enough sched c heff hab

/-- the remainder of a unit is never more than what the worker has left at all -/
theorem abortBudget_le_remaining (c : Cfg ρ σ) : abortBudget c ≤ remaining c := by
  unfold abortBudget remaining
  induction c.pcs with
  | nil => simp
  | cons l ls ih =>
    simp only [List.map_cons, List.sum_cons]
    have := untilPoll_le_length l
    omega

/-- **Abort before the first stage**: if the predicate is already `true` when the workers start,
each worker performs exactly its first poll and nothing else: at most one action per worker, and
in particular no relation is added to the store. -/
theorem abort_before_start (add : σ → ρ → σ) (enough : σ → Bool) (s0 : σ)
    (progs : List (List (List ρ))) (sched : List (Nat × Bool × Bool))
    (heff : allEffective add enough (init s0 progs) sched) (hab : allAbort sched) :
    sched.length ≤ progs.length := by
  have h1 := abort_steps_bounded add enough sched (init s0 progs) heff hab
  have h2 := abortBudget_init_le s0 progs
  omega

/-! ### non-vacuity: two workers; the abort answer turns `true` while worker 0 is inside its first
unit: it completes that unit (2 adds + publish) and stops at the next poll; worker 1 stops at its
first poll; the second units ([6] and [10, 12]) are never started. -/

example :
    let progs : List (List (List Nat)) := [[[2, 4], [6]], [[8], [10, 12]]]
    let c0 := run (· + ·) (fun _ => false) (init 0 progs) [(0, false, false), (0, false, false)]
    let sched := [(0, false, true), (1, false, true), (0, false, true), (0, false, true), (0, false, true)]
    let c := run (· + ·) (fun _ => false) c0 sched
    abortBudget c0 = 5 ∧ c.log = [2, 4] ∧ finished c = true ∧ abortBudget c = 0 ∧ sched.length = 5 := by
  decide

example : allAbort [(0, false, true), (1, false, true), (0, false, true), (0, false, true), (0, false, true)] := by
  simp [allAbort]

end Ymq.C05
