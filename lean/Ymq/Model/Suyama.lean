/-
Model of the curve constructors of src/ecm.rs / src/ecm128.rs (C15):
`Suyama11::new`, `Suyama11::element`, `Suyama11::params`, `Suyama11::params_point`,
`UnexpectedLargeFactor::new`, `zn_divide`, `Curve::twisted_from_point`, `Curve::fraction_modn`,
`Curve::from_point`, the curve selection of `ecm::ecm` (`do_curve` up to the call of `ecm_curve`), the
seed generator of `ecm::ecm`, the curve construction of `ecm128::ecm`, `ecm128::Curve::from`.

The straight-line formulas are NOT copied here: they are the terms translated from the source on every
run (Gen/Curves.lean: `suyamaDouble`, `suyamaAddG`, `suyamaParams`, `suyamaParamsPoint`,
`ecmTwistedFromPoint`, `ecmFromPoint`, `suyamaConsts`). This file adds the control flow around them: the
ladder of `element`, the tests for a vanishing denominator, the gcd that is reported, and every panic site.

The ring of residues is abstract (`R` with ring operations); what the code needs from `ZmodN` besides the
ring operations is collected in `Ctx`: the modulus, `zn.inv` (partial), the gcd of a residue with the
modulus, the comparison with zero and the embedding of integers. The native driver instantiates `R` with
canonical residues `Fin n` and the context `finCtx n` (end of this file; Drv/Suyama.lean), the theorems hold
for any commutative ring (Props/C15Suyama.lean) under the laws `Ctx.Lawful`, which `finCtx n` satisfies
(Lemmas/CurveBuildFin.lean `finCtx_lawful`) as does `ZMod n` with its own inverse (`zmodCtx_lawful`).

Results: `Res.ok v` = `Ok(v)`, `Res.err f` = `Err(UnexpectedLargeFactor(f))` / `Err(UnexpectedFactor(f))`,
`Res.panic` = a Rust panic (assert, overflow in the checked profile).
No Mathlib import: linked into the native driver.
-/
import Ymq.Gen.Curves

namespace Ymq.Suyama
open Ymq.Gen.Curves

/-- `Result<α, UnexpectedLargeFactor>` plus the panic outcome -/
inductive Res (α : Type) where
  | ok (v : α)
  | err (factor : Nat)
  | panic
  deriving Repr, DecidableEq

/-- the `?` operator / `and_then` -/
def Res.bind {α β : Type} (r : Res α) (f : α → Res β) : Res β :=
  match r with
  | .ok v => f v
  | .err d => .err d
  | .panic => .panic

/-- what the constructors use of `ZmodN` besides `add/sub/mul/zero/one` -/
structure Ctx (R : Type) where
  /-- `zn.n` -/
  n : Nat
  /-- `zn.inv(x)` -/
  inv : R → Option R
  /-- `Integer::gcd(&zn.n, &Uint::from(x))` (the Montgomery factor is a unit: the gcd of the residue) -/
  gcd : R → Nat
  /-- `x == y` on residues (`MInt: PartialEq`; representations are canonical) -/
  eq : R → R → Bool
  /-- `zn.from_int(Uint::from(k) % zn.n)` -/
  ofNat : Nat → R

variable {R : Type} [Add R] [Sub R] [Mul R] [Zero R] [One R] [NatCast R]

/-- the inverse as the translated formulas take it (a total function): where `zn.inv` fails the code
has returned before using the value -/
def Ctx.invT (ctx : Ctx R) (x : R) : R := (ctx.inv x).getD 0

/-- `x == zn.zero()` -/
def Ctx.isZero (ctx : Ctx R) (x : R) : Bool := ctx.eq x 0

/-- `UnexpectedLargeFactor::new(zn, x)`: `d = gcd(n, x); assert!(d != 1)` -/
def largeFactor {α : Type} (ctx : Ctx R) (x : R) : Res α :=
  let d := ctx.gcd x
  if d = 1 then .panic else .err d

/-! ### `Suyama11::new` -/

/-- `Suyama11::new`: `Err(UnexpectedFactor(3))` when `3 ∣ n`; otherwise `one_third` is `n - n/3` or
`n/3 + 1`, the debug assertion `3 * one_third == 1` (checked profile only), the translated constants
`(a, b, gx, gy)` and `assert!(s.is_valid(&Point(gx, gy, 1)))`. -/
def suyamaNew (chk : Bool) (ctx : Ctx R) : Res (R × R × R × R) :=
  let n := ctx.n
  let n3 := n / 3
  if n % 3 = 0 then .err 3 else
  -- `zn.from_int` of a reduced value
  let oneThird := if n % 3 = 1 then ctx.ofNat (n - n3) else ctx.ofNat (n3 + 1)
  if chk && !(ctx.eq (ctx.ofNat 3 * oneThird) 1) then .panic else
  let c := suyamaConsts oneThird
  let s := suyamaIsValidSides c.1 c.2.1 c.2.2.1 c.2.2.2 (⟨c.2.2.1, c.2.2.2, 1⟩ : Pt R)
  if ctx.eq s.1 s.2 then .ok c else .panic

/-! ### `Suyama11::element` -/

/-- the test made after every doubling of `element`: `Some(d)` = `return Err(UnexpectedLargeFactor(d))` -/
def elementCheck (ctx : Ctx R) (res res2 : Pt R) : Option Nat :=
  if ctx.isZero res2.z then
    let d := ctx.gcd res.z
    if d ≠ 1 ∧ d ≠ ctx.n then some d else
    let d := ctx.gcd res.y
    if d ≠ 1 then some d else none
  else none

/-- the `loop` of `element` over abstract operations (`dbl` = `self.double`, `addG` = `self.add_g`, `check` =
the test after the doubling), entered with `bit` (the index of the bit above the next one to read):
`bit -= 1` underflows for `bit = 0` (never: the loop is entered with `bit > 0` and left at `bit == 0`). -/
def ladder {P : Type} (dbl addG : P → P) (check : P → P → Option Nat) (seed : Nat) : Nat → P → Res P
  | 0, _ => .panic
  | bit + 1, res =>
    let res2 := dbl res
    match check res res2 with
    | some d => .err d
    | none =>
      let res := if (seed >>> bit) % 2 = 1 then addG res2 else res2
      if bit = 0 then .ok res else ladder dbl addG check seed bit res

/-- the `loop` of `element` on the translated formulas -/
def elementLoop (ctx : Ctx R) (a b gx gy : R) (seed : Nat) : Nat → Pt R → Res (Pt R) :=
  ladder (suyamaDouble a b gx gy) (suyamaAddG a b gx gy) (elementCheck ctx) seed

/-- `Suyama11::element(seed)` for a `u32` seed: `assert!(seed > 1)`, `bit = bitlen - 1`,
`assert!(bit > 0)`, left-to-right double-and-add from the generator `(gx, gy, 1)`. -/
def element (ctx : Ctx R) (a b gx gy : R) (seed : Nat) : Res (Pt R) :=
  if ¬ (1 < seed) then .panic else
  let bit := Nat.log2 seed + 1 - 1
  if ¬ (0 < bit) then .panic else
  elementLoop ctx a b gx gy seed bit ⟨gx, gy, 1⟩

/-! ### `params`, `params_point`, `twisted_from_point` -/

/-- the operand `3x + z` whose square `params` inverts and whose gcd it reports -/
def paramsDen (pt : Pt R) : R := (pt.z + pt.x) + (pt.x + pt.x)

/-- `Suyama11::params` -/
def params (ctx : Ctx R) (a b gx gy : R) (pt : Pt R) : Res (R × R) :=
  match ctx.inv (paramsDen pt * paramsDen pt) with
  | some _ => .ok (suyamaParams ctx.invT a b gx gy pt)
  | none => largeFactor ctx (paramsDen pt)

/-- `Suyama11::params_point` (`let (s, r) = self.params(pt)?; ..`) -/
def paramsPoint (ctx : Ctx R) (a b gx gy : R) (pt : Pt R) : Res (Pt R) :=
  (params ctx a b gx gy pt).bind fun _ => .ok (suyamaParamsPoint ctx.invT a b gx gy pt)

/-- the operand `x² y²` that `twisted_from_point` divides by (`zn_divide`) -/
def twistedDen (g : Pt R) : R := (g.x * g.x) * (g.y * g.y)

/-- A curve as the code stores it: `(twisted, d, g)` -/
structure CurveData (R : Type) where
  twisted : Bool
  d : R
  g : Pt R

/-- `Curve::twisted_from_point` with `zn_divide` inlined -/
def twistedFromPoint (ctx : Ctx R) (g : Pt R) : Res (CurveData R) :=
  match ctx.inv (twistedDen g) with
  | some _ => .ok ⟨true, ecmTwistedFromPoint ctx.invT 0 true g, g⟩
  | none => largeFactor ctx (twistedDen g)

/-- `suyama.element(seed).and_then(|p| suyama.params_point(&p)).and_then(|g| Curve::twisted_from_point(zn, g))` -/
def suyamaCurve (ctx : Ctx R) (a b gx gy : R) (seed : Nat) : Res (CurveData R) :=
  ((element ctx a b gx gy seed).bind (paramsPoint ctx a b gx gy)).bind (twistedFromPoint ctx)

/-! ### `Curve::from_point` -/

/-- `Curve::fraction_modn`'s error: `UnexpectedFactor(d.digits()[0])` — the gcd truncated to its low word -/
def fractionErr {α : Type} (ctx : Ctx R) (b : R) : Res α := .err (ctx.gcd b % 2 ^ 64)

/-- `Curve::from_point(zn, x, y)` for `u64` arguments: `assert!(x < 1 << 31 && y < 1 << 31)`;
`x * x + y * y - 1` in `u64` underflows for `x = y = 0` (panic in the checked profile; in release it wraps to
`2^64 - 1`, which `as i64` reads as `-1`, the right value); the two `fraction_modn` calls fail with the
truncated gcd when `1` resp. `x y` is not invertible. -/
def fromPoint (chk : Bool) (ctx : Ctx R) (x y : Nat) : Res (CurveData R) :=
  if ¬ (x < 2 ^ 31 ∧ y < 2 ^ 31) then .panic else
  if chk && (x * x + y * y == 0) then .panic else
  match ctx.inv (ctx.ofNat 1) with
  | none => fractionErr ctx (ctx.ofNat 1)
  | some _ =>
    match ctx.inv (ctx.ofNat (x * y)) with
    | none => fractionErr ctx (ctx.ofNat (x * y))
    | some _ =>
      let c := ecmFromPoint ctx.invT (ctx.ofNat x) (ctx.ofNat y)
      .ok ⟨false, c.1, c.2⟩

/-! ### curve selection of `ecm::ecm` -/

/-- the fallback generator `(3 s + 5, 4 s + 5)`, `s = seed % 2^24` -/
def fallbackPoint (seed : Nat) : Nat × Nat :=
  let s := seed % 2 ^ 24
  (3 * s + 5, 4 * s + 5)

/-- what `do_curve` does before running the curve -/
inductive Sel (R : Type) where
  /-- `ecm_curve` is run on this curve -/
  | curve (c : CurveData R)
  /-- `return Some((p, n / p))` -/
  | factor (p : Nat)
  /-- `return None` ("curve failure") -/
  | none
  | panic

/-- `do_curve(seed)` up to the call of `ecm_curve`: `assert!(seed >= 2)`, the Suyama-11 curve `[seed]G`;
when that fails with the whole modulus as "factor", the Edwards curve through the fallback point (its
`u64` factor widened); a remaining failure equal to `n` gives up on the seed, any other one is returned
as a factor of `n`. -/
def selectCurve (chk : Bool) (ctx : Ctx R) (a b gx gy : R) (seed : Nat) : Sel R :=
  if ¬ (2 ≤ seed) then .panic else
  let curve := suyamaCurve ctx a b gx gy seed
  let fb := fallbackPoint seed
  let curve := match curve with
    | .err p => if p = ctx.n then fromPoint chk ctx fb.1 fb.2 else curve
    | _ => curve
  match curve with
  | .ok c => .curve c
  | .err p => if p = ctx.n then .none else .factor p
  | .panic => .panic

/-- the seeds of `ecm::ecm`: a multiplicative congruential sequence on `u64` started at the low word of
`n`, multiplier `2 * curves + 1`, truncated to 32 bits (16 bits when `curves < 100` and `n < 2^31`) and
raised to at least 2. (`2 * curves as u64 + 1` overflows from `curves = 2^63`: `none`.) -/
def ecmSeedsLoop (m0 : Nat) (wide : Bool) : Nat → Nat → List Nat
  | 0, _ => []
  | k + 1, seed =>
    let seed := seed * m0 % 2 ^ 64
    (max 2 (if wide then seed % 2 ^ 32 else seed % 2 ^ 16)) :: ecmSeedsLoop m0 wide k seed

def ecmSeeds (n curves : Nat) : Option (List Nat) :=
  if 2 * curves + 1 ≥ 2 ^ 64 then none else
  let wide := curves ≥ 100 || Nat.log2 n + 1 ≥ 32
  some (ecmSeedsLoop (2 * curves + 1) wide curves (n % 2 ^ 64))

/-! ### `ecm128` -/

/-- one iteration of the curve loop of `ecm128::ecm` (`seed` in `1..=curves`): the parameter is
`[seed + 1]G`; a failure `p < n` is returned as a factor, `p = n` skips the seed; otherwise the generator is
handed to the 128-bit routine (`Curve::from_point`: same residues, same Montgomery radix for a modulus of
one or two words). -/
inductive Sel128 (R : Type) where
  | gen (g : Pt R)
  | factor (p : Nat)
  | skip
  | panic

def select128 (ctx : Ctx R) (a b gx gy : R) (seed : Nat) : Sel128 R :=
  -- `seed as u32 + 1` (`seed` in `1..=curves`, a `usize`): the sum overflows `u32` only for
  -- `seed % 2^32 = 2^32 - 1`. No `chk` parameter is needed: the checked profile panics on the overflow, the
  -- release profile wraps to `0` and `element(0)` panics on `assert!(seed > 1)`: a panic in both profiles.
  -- (Likewise `seed % 2^32 = 0` gives `element(1)`: the same assertion, modelled by `element`.) Not reachable
  -- from the callers: the arms of `ecm128::ecm128` hard-wire `curves <= 256`, and `seed = 2^32 - 1` is only
  -- reached after 2^32 - 2 earlier iterations of the loop.
  if seed % 2 ^ 32 + 1 ≥ 2 ^ 32 then .panic else
  match (element ctx a b gx gy ((seed % 2 ^ 32) + 1)).bind (paramsPoint ctx a b gx gy) with
  | .ok g => .gen g
  | .err p => if p < ctx.n then .factor p else .skip
  | .panic => .panic

/-- `impl From<&ecm::Curve> for ecm128::Curve`: `assert!(c.is_twisted128())` (twisted and a modulus of
exactly two words), then the generator is taken over word by word (the same residues). -/
def curve128From (c : CurveData R) (words : Nat) : Option (Pt R) :=
  if c.twisted && words == 2 then some c.g else none

/-! ### the context of `ZmodN::new(n)` on canonical residues

`Fin n` with the operations of the core library (`Fin.add`, `Fin.sub`, `Fin.mul`: reduced modulo `n`) is what the
native driver computes with (Drv/Suyama.lean); it is the commutative ring `Z/n` (Mathlib's `Fin.instCommRing`,
the same operations), and `finCtx n` satisfies `Ctx.Lawful` (Lemmas/CurveBuildFin.lean `finCtx_lawful`), so
the theorems of Props/C15Suyama.lean apply to the very functions the driver runs (`*Fin` below). -/

/-- extended Euclid on integers: `(g, s)` with `s * a ≡ g (mod n)` -/
def xgcdAux : Nat → Int → Int → Int → Int → Int × Int
  | 0, r0, _, s0, _ => (r0, s0)
  | f + 1, r0, r1, s0, s1 =>
    if r1 = 0 then (r0, s0) else
    let q := r0 / r1
    xgcdAux f r1 (r0 - q * r1) s1 (s0 - q * s1)

/-- `arith_gcd::inv_mod(a, n)` at its specification (C09): the inverse in `[0, n)` when `gcd = 1`.
(The fuel `n + 1` is never exhausted: the remainder decreases; the loop stops at remainder 0.) -/
def invNat (a n : Nat) : Option Nat :=
  let r := xgcdAux (n + 1) (a % n) n 1 0
  if r.1 = 1 then some (r.2 % n).toNat else none

/-- `zn.from_int` on `Fin n` -/
@[reducible] def finNatCast (n : Nat) [NeZero n] : NatCast (Fin n) := ⟨Fin.ofNat n⟩
attribute [local instance] finNatCast

/-- the context of `ZmodN::new(n)` on canonical residues `Fin n` -/
def finCtx (n : Nat) [NeZero n] : Ctx (Fin n) where
  n := n
  inv := fun x => (invNat x.val n).map (Fin.ofNat n)
  gcd := fun x => Nat.gcd n x.val
  eq := fun x y => x.val == y.val
  ofNat := fun k => Fin.ofNat n k

section
variable (n : Nat) [NeZero n]
/-- `Suyama11::new(&ZmodN::new(n))` -/
def suyamaNewFin (chk : Bool) : Res (Fin n × Fin n × Fin n × Fin n) := suyamaNew chk (finCtx n)
/-- the Suyama-11 curve of a seed modulo `n` -/
def suyamaCurveFin (a b gx gy : Fin n) (seed : Nat) : Res (CurveData (Fin n)) := suyamaCurve (finCtx n) a b gx gy seed
/-- `Curve::from_point(ZmodN::new(n), x, y)` -/
def fromPointFin (chk : Bool) (x y : Nat) : Res (CurveData (Fin n)) := fromPoint chk (finCtx n) x y
/-- `do_curve(seed)` of `ecm::ecm(n, ..)` up to the call of `ecm_curve` -/
def selectCurveFin (chk : Bool) (a b gx gy : Fin n) (seed : Nat) : Sel (Fin n) := selectCurve chk (finCtx n) a b gx gy seed
/-- one curve of `ecm128::ecm(n, ..)` -/
def select128Fin (a b gx gy : Fin n) (seed : Nat) : Sel128 (Fin n) := select128 (finCtx n) a b gx gy seed
end

end Ymq.Suyama
