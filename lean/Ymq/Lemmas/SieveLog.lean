/-
C13 helper lemmas: the `u8` accumulation of `sieve_block` (`Ymq.SieveLog.accumulate`) and the
threshold scan of `smooths`.
-/
import Ymq.Model.SieveLog
import Ymq.Lemmas.SieveState

namespace Ymq.SieveLog
open Ymq.Sieve

/-- total of the logs added at position `x` by a list of hits. -/
def hitSum (hits : List (Nat × Nat)) (x : Nat) : Nat := (hits.map fun h => if h.1 = x then h.2 else 0).sum

theorem hitSum_nil (x : Nat) : hitSum [] x = 0 := rfl

theorem hitSum_cons (h : Nat × Nat) (t : List (Nat × Nat)) (x : Nat) :
    hitSum (h :: t) x = (if h.1 = x then h.2 else 0) + hitSum t x := by simp [hitSum]

theorem hitSum_append (a b : List (Nat × Nat)) (x : Nat) : hitSum (a ++ b) x = hitSum a x + hitSum b x := by
  simp [hitSum]

theorem hitSum_flatten (ls : List (List (Nat × Nat))) (x : Nat) :
    hitSum ls.flatten x = (ls.map fun l => hitSum l x).sum := by
  induction ls with
  | nil => rfl
  | cons l t ih => simp [hitSum_append, ih]

/-- value of byte `x` (0 outside the array). -/
def byteAt (b : Array Nat) (x : Nat) : Nat := (b[x]?).getD 0

theorem byteAt_of_get {b : Array Nat} {x v : Nat} (h : b[x]? = some v) : byteAt b x = v := by
  simp [byteAt, h]

theorem byteAt_set (b : Array Nat) (i v x : Nat) (hi : i < b.size) :
    byteAt (b.setIfInBounds i v) x = if i = x then v else byteAt b x := by
  unfold byteAt
  rw [Array.getElem?_setIfInBounds]
  by_cases h : i = x
  · subst h; rw [if_pos rfl, if_pos hi, if_pos rfl]; rfl
  · rw [if_neg h, if_neg h]

theorem addU8_mod {dbg : Bool} {v lg v' : Nat} (h : addU8 dbg v lg = some v') : v' % 256 = (v + lg) % 256 := by
  unfold addU8 at h
  by_cases hge : v + lg ≥ 256
  · simp only [hge, if_true] at h
    cases dbg with
    | true => simp at h
    | false =>
      simp only [Bool.false_eq_true, if_false, Option.some.injEq] at h
      subst h; exact Nat.mod_mod _ _
  · simp only [hge, if_false, Option.some.injEq] at h
    subst h; rfl

theorem addU8_true {v lg v' : Nat} (h : addU8 true v lg = some v') : v' = v + lg ∧ v + lg < 256 := by
  unfold addU8 at h
  by_cases hge : v + lg ≥ 256
  · simp [hge] at h
  · simp only [hge, if_false, Option.some.injEq] at h
    exact ⟨h.symm, by omega⟩

theorem addU8_lt (dbg : Bool) {v lg : Nat} (h : v + lg < 256) : addU8 dbg v lg = some (v + lg) := by
  unfold addU8
  have : ¬ v + lg ≥ 256 := by omega
  simp [this]

theorem hitStep_spec {dbg : Bool} {b b' : Array Nat} {h : Nat × Nat} (hs : hitStep dbg b h = some b') :
    h.1 < b.size ∧ b'.size = b.size ∧
    (∀ x, byteAt b' x % 256 = (byteAt b x + (if h.1 = x then h.2 else 0)) % 256) ∧
    (dbg = true → ∀ x, byteAt b' x = byteAt b x + (if h.1 = x then h.2 else 0)) := by
  unfold hitStep at hs
  simp only [Option.bind_eq_bind, Option.bind_eq_some_iff, Option.some.injEq] at hs
  obtain ⟨v, hv, v', hv', rfl⟩ := hs
  have hi : h.1 < b.size := (Array.getElem?_eq_some_iff.1 hv).1
  have hb : byteAt b h.1 = v := byteAt_of_get hv
  refine ⟨hi, by simp, ?_, ?_⟩
  · intro x
    rw [byteAt_set _ _ _ _ hi]
    by_cases hx : h.1 = x
    · simp only [hx, if_true]
      rw [← hx, hb]
      exact addU8_mod hv'
    · simp [hx]
  · intro hd x
    subst hd
    rw [byteAt_set _ _ _ _ hi]
    by_cases hx : h.1 = x
    · simp only [hx, if_true]
      rw [← hx, hb]
      exact (addU8_true hv').1
    · simp [hx]

/-- what `accumulate` computes when it returns. -/
theorem accumulate_spec (dbg : Bool) :
    ∀ (hits : List (Nat × Nat)) (b b' : Array Nat), accumulate dbg b hits = some b' →
      b'.size = b.size ∧ (∀ h ∈ hits, h.1 < b.size) ∧
      (∀ x, byteAt b' x % 256 = (byteAt b x + hitSum hits x) % 256) ∧
      (dbg = true → ∀ x, byteAt b' x = byteAt b x + hitSum hits x) := by
  intro hits
  induction hits with
  | nil =>
    intro b b' h
    simp only [accumulate, List.foldlM_nil, Option.pure_def, Option.some.injEq] at h
    subst h
    exact ⟨rfl, by simp, fun x => by simp [hitSum_nil], fun _ x => by simp [hitSum_nil]⟩
  | cons h t ih =>
    intro b b' hacc
    simp only [accumulate, List.foldlM_cons, bind, Option.bind_eq_some_iff] at hacc
    obtain ⟨b1, h1, h2⟩ := hacc
    obtain ⟨hi, hsz, hm, hd⟩ := hitStep_spec h1
    obtain ⟨s2, r2, m2, d2⟩ := ih b1 b' h2
    refine ⟨s2.trans hsz, ?_, ?_, ?_⟩
    · intro g hg
      rcases List.mem_cons.1 hg with rfl | hg
      · exact hi
      · rw [← hsz]; exact r2 g hg
    · intro x
      rw [m2 x, hitSum_cons, Nat.add_mod, hm x, ← Nat.add_mod]
      congr 1; omega
    · intro hdb x
      rw [d2 hdb x, hd hdb x, hitSum_cons]; omega

theorem hitStep_some (dbg : Bool) {b : Array Nat} {h : Nat × Nat} (hi : h.1 < b.size) (hlt : byteAt b h.1 + h.2 < 256) :
    hitStep dbg b h = some (b.setIfInBounds h.1 (byteAt b h.1 + h.2)) := by
  have hv : b[h.1]? = some b[h.1] := Array.getElem?_eq_getElem hi
  have hb : byteAt b h.1 = b[h.1] := byteAt_of_get hv
  rw [hb] at hlt ⊢
  simp [hitStep, hv, addU8_lt dbg hlt]

theorem hitStep_true_none {b : Array Nat} {h : Nat × Nat} (hi : h.1 < b.size) (hge : 256 ≤ byteAt b h.1 + h.2) :
    hitStep true b h = none := by
  have hv : b[h.1]? = some b[h.1] := Array.getElem?_eq_getElem hi
  have hb : byteAt b h.1 = b[h.1] := byteAt_of_get hv
  rw [hb] at hge
  simp [hitStep, hv, addU8, hge]

/-- the checked accumulation panics exactly when some position's total reaches 256 (all hits inside the
array, all bytes of the starting array below 256). -/
theorem accumulate_none_iff :
    ∀ (hits : List (Nat × Nat)) (b : Array Nat), (∀ h ∈ hits, h.1 < b.size) → (∀ x, byteAt b x < 256) →
      (accumulate true b hits = none ↔ ∃ x, x < b.size ∧ 256 ≤ byteAt b x + hitSum hits x) := by
  intro hits
  induction hits with
  | nil =>
    intro b _ hb
    simp only [accumulate, List.foldlM_nil, Option.pure_def, hitSum_nil, Nat.add_zero]
    constructor
    · intro h; simp at h
    · rintro ⟨x, _, h⟩
      have := hb x; omega
  | cons h t ih =>
    intro b hin hb
    have hi := hin h List.mem_cons_self
    by_cases hge : 256 ≤ byteAt b h.1 + h.2
    · have hn := hitStep_true_none hi hge
      constructor
      · intro _
        refine ⟨h.1, hi, ?_⟩
        rw [hitSum_cons]; simp only [if_true]; omega
      · intro _
        simp [accumulate, List.foldlM_cons, bind, hn]
    · have h1 := hitStep_some true hi (by omega : byteAt b h.1 + h.2 < 256)
      generalize b.setIfInBounds h.1 (byteAt b h.1 + h.2) = b1 at h1
      obtain ⟨_, hsz, _, hd⟩ := hitStep_spec h1
      have hd' := hd rfl
      have hb1 : ∀ x, byteAt b1 x < 256 := by
        intro x
        rw [hd' x]
        by_cases hx : h.1 = x
        · simp only [hx, if_true]; rw [← hx]; omega
        · simp only [hx, if_false]; have := hb x; omega
      have e : accumulate true b (h :: t) = accumulate true b1 t := by
        simp [accumulate, List.foldlM_cons, bind, h1]
      rw [e, ih b1 (fun g hg => by rw [hsz]; exact hin g (List.mem_cons_of_mem _ hg)) hb1, hsz]
      constructor
      · rintro ⟨x, hx, hh⟩
        refine ⟨x, hx, ?_⟩
        rw [hitSum_cons]; rw [hd' x] at hh; omega
      · rintro ⟨x, hx, hh⟩
        refine ⟨x, hx, ?_⟩
        rw [hitSum_cons] at hh; rw [hd' x]; omega

/-- without overflow both profiles compute the same bytes. -/
theorem accumulate_total (dbg : Bool) :
    ∀ (hits : List (Nat × Nat)) (b : Array Nat), (∀ h ∈ hits, h.1 < b.size) →
      (∀ x, x < b.size → byteAt b x + hitSum hits x < 256) →
      ∃ b', accumulate dbg b hits = some b' ∧ accumulate true b hits = some b' := by
  intro hits
  induction hits with
  | nil => intro b _ _; exact ⟨b, rfl, rfl⟩
  | cons h t ih =>
    intro b hin hsum
    have hi := hin h List.mem_cons_self
    have hlt : byteAt b h.1 + h.2 < 256 := by
      have := hsum h.1 hi
      rw [hitSum_cons] at this; simp only [if_true] at this; omega
    have h1 := hitStep_some dbg hi hlt
    have h1t := hitStep_some true hi hlt
    generalize b.setIfInBounds h.1 (byteAt b h.1 + h.2) = b1 at h1 h1t
    obtain ⟨_, hsz, _, hd⟩ := hitStep_spec h1t
    have hd' := hd rfl
    obtain ⟨b', e1, e2⟩ := ih b1 (fun g hg => by rw [hsz]; exact hin g (List.mem_cons_of_mem _ hg)) (by
      intro x hx
      have := hsum x (by rw [← hsz]; exact hx)
      rw [hitSum_cons] at this
      rw [hd' x]; omega)
    exact ⟨b', by simp [accumulate, List.foldlM_cons, bind, h1]; exact e1,
      by simp [accumulate, List.foldlM_cons, bind, h1t]; exact e2⟩

/-! ### the threshold scan of `smooths` -/

theorem scanElem_some_iff {dbg : Bool} {fb : FB} {s : State} {threshold threshold2 mzeros : Nat} {root : Option Nat}
    {blk : Array Nat} {ij y : Nat} :
    scanElem dbg fb s threshold threshold2 mzeros root blk ij = some (some y) ↔
      y = ij ∧ ∃ t0 t1 t2, blk[ij]? = some t0 ∧ threshold2 < t0 ∧ addSkipped dbg fb s ij t0 = some t1 ∧
        rootComp dbg s mzeros root ij t1 = some t2 ∧ threshold ≤ t2 := by
  unfold scanElem
  constructor
  · intro h
    simp only [Option.bind_eq_bind, Option.bind_eq_some_iff] at h
    obtain ⟨t0, h0, h⟩ := h
    by_cases hle : t0 ≤ threshold2
    · simp [hle] at h
    · simp only [hle, if_false, Option.bind_eq_some_iff, Option.some.injEq] at h
      obtain ⟨t1, h1, t2, h2, h⟩ := h
      by_cases hge : t2 ≥ threshold
      · simp only [hge, if_true, Option.some.injEq] at h
        exact ⟨h.symm, t0, t1, t2, h0, by omega, h1, h2, hge⟩
      · simp [hge] at h
  · rintro ⟨rfl, t0, t1, t2, h0, hlt, h1, h2, hge⟩
    have : ¬ t0 ≤ threshold2 := by omega
    simp [h0, this, h1, h2, hge]

theorem scanChunk_mem {dbg : Bool} {fb : FB} {s : State} {threshold threshold2 thr mzeros : Nat} {root : Option Nat}
    {blk : Array Nat} {c : Nat} {l : List Nat} (hthr : thr < threshold2)
    (h : scanChunk dbg fb s threshold threshold2 thr mzeros root blk c = some l) (x : Nat) :
    x ∈ l ↔ (16 * c ≤ x ∧ x < 16 * c + 16 ∧
      scanElem dbg fb s threshold threshold2 mzeros root blk x = some (some x)) := by
  unfold scanChunk at h
  simp only [Option.bind_eq_bind, Option.bind_eq_some_iff] at h
  obtain ⟨bytes, hb, h⟩ := h
  by_cases hany : bytes.any (fun b => decide (b > thr)) = true
  · simp only [hany, if_true, Option.bind_eq_some_iff, Option.some.injEq] at h
    obtain ⟨r, hr, rfl⟩ := h
    rw [List.mem_filterMap]
    constructor
    · rintro ⟨o, ho, hid⟩
      simp only [id_eq] at hid
      subst hid
      obtain ⟨j, hj, hg⟩ := (mapM_range'_mem _ _ _ _ hr (some x)).1 ho
      have := (scanElem_some_iff.1 hg).1
      exact ⟨by omega, by omega, by rw [this] at hg ⊢; exact hg⟩
    · rintro ⟨h1, h2, hg⟩
      refine ⟨some x, ?_, rfl⟩
      refine (mapM_range'_mem _ _ _ _ hr (some x)).2 ⟨x - 16 * c, by omega, ?_⟩
      have : 16 * c + (x - 16 * c) = x := by omega
      rw [this]; exact hg
  · simp only [hany, Bool.false_eq_true, if_false, Option.some.injEq] at h
    subst h
    simp only [List.not_mem_nil, false_iff]
    rintro ⟨h1, h2, hg⟩
    obtain ⟨_, t0, _, _, h0, hlt, _⟩ := scanElem_some_iff.1 hg
    have hmem : t0 ∈ bytes := (mapM_range'_mem _ _ _ _ hb t0).2 ⟨x - 16 * c, by omega, by
      have : 16 * c + (x - 16 * c) = x := by omega
      rw [this]; exact h0⟩
    apply hany
    rw [List.any_eq_true]
    exact ⟨t0, hmem, by simp; omega⟩

/-- the threshold actually compared with the bytes: `threshold - min(skipbits, threshold/2)`. -/
def threshold2Of (fb : FB) (s : State) (threshold : Nat) (root : Option Nat) : Option Nat :=
  (skipbits fb s.idxskip).map fun sb =>
    threshold - (min (sb + (if root.isSome then 15 else 0)) (threshold / 2)) % 256

/-- `mzeros` of `smooths` -/
def mzerosOf (s : State) : Nat := lz32 ((s.nblocks % 2 ^ 32) * BLOCK % 2 ^ 32 / 2)

/-- which positions `smooths` reports (threshold ≥ 1): exactly the positions `x` of the block whose byte exceeds
`threshold2` and whose corrected value (skipped primes' logs, distance to the root) reaches the threshold. -/
theorem reportScan_mem {dbg : Bool} {fb : FB} {s : State} {blk : Array Nat} {threshold : Nat} {root : Option Nat}
    {res : List Nat} (hthr : 1 ≤ threshold) (h : reportScan dbg fb s blk threshold root = some res) :
    ∃ threshold2, threshold2Of fb s threshold root = some threshold2 ∧ 1 ≤ threshold2 ∧
      ∀ x, x ∈ res ↔ (x < BLOCK ∧
        scanElem dbg fb s threshold threshold2 (mzerosOf s) root blk x = some (some x)) := by
  unfold reportScan at h
  simp only [Option.bind_eq_bind, Option.bind_eq_some_iff] at h
  obtain ⟨sb, hsb, m, hm, thr, hthr', rs, hrs, hres⟩ := h
  simp only [Option.some.injEq] at hres
  subst hres
  generalize ht2 : threshold - (min (sb + (if root.isSome then 15 else 0)) (threshold / 2)) % 256 = threshold2 at *
  have h1 : 1 ≤ threshold2 := by
    have : min (sb + (if root.isSome then 15 else 0)) (threshold / 2) ≤ threshold / 2 := Nat.min_le_right _ _
    have : (min (sb + (if root.isSome then 15 else 0)) (threshold / 2)) % 256 ≤ threshold / 2 :=
      le_trans (Nat.mod_le _ _) this
    omega
  have hthr2 : thr = threshold2 - 1 := by
    unfold thrOf at hthr'
    have : ¬ threshold2 = 0 := by omega
    simp only [this, if_false, Option.some.injEq] at hthr'
    exact hthr'.symm
  have hmz : lz32 (m / 2) = mzerosOf s := by
    unfold mzerosOf
    unfold mulU32 at hm
    by_cases hge : s.nblocks % 2 ^ 32 * BLOCK ≥ 2 ^ 32
    · simp only [hge, if_true] at hm
      cases dbg with
      | true => simp at hm
      | false =>
        simp only [Bool.false_eq_true, if_false, Option.some.injEq] at hm
        rw [← hm]
    · simp only [hge, if_false, Option.some.injEq] at hm
      subst hm
      rw [Nat.mod_eq_of_lt (Nat.lt_of_not_ge hge)]
  rw [hmz] at hrs
  refine ⟨threshold2, by simp [threshold2Of, hsb, ht2], h1, ?_⟩
  intro x
  rw [List.mem_flatten]
  constructor
  · rintro ⟨l, hl, hx⟩
    obtain ⟨c, hc, hg⟩ := (mapM_range'_mem _ _ _ _ hrs l).1 hl
    simp only [Nat.zero_add] at hg
    have := (scanChunk_mem (by omega) hg x).1 hx
    simp only [BLOCK] at hc ⊢
    exact ⟨by omega, this.2.2⟩
  · rintro ⟨hx, hg⟩
    have hc : x / 16 < BLOCK / 16 := by simp only [BLOCK] at hx ⊢; omega
    -- the chunk of x was scanned
    have hsome : ∃ l, scanChunk dbg fb s threshold threshold2 thr (mzerosOf s) root blk (x / 16) = some l := by
      cases hch : scanChunk dbg fb s threshold threshold2 thr (mzerosOf s) root blk (x / 16) with
      | some l => exact ⟨l, rfl⟩
      | none =>
        exfalso
        -- mapM returned, so every chunk returned
        have : ∀ (n st : Nat) (ls : List (List Nat)), (List.range' st n).mapM
            (scanChunk dbg fb s threshold threshold2 thr (mzerosOf s) root blk) = some ls →
            ∀ c, st ≤ c → c < st + n → scanChunk dbg fb s threshold threshold2 thr (mzerosOf s) root blk c ≠ none := by
          intro n
          induction n with
          | zero => intro st ls _ c h1 h2; omega
          | succ n ih =>
            intro st ls hls c h1 h2
            rw [List.range'_succ, List.mapM_cons] at hls
            simp only [bind, Option.bind_eq_some_iff, pure] at hls
            obtain ⟨b, hb, bs, hbs, _⟩ := hls
            by_cases hcs : c = st
            · subst hcs; rw [hb]; simp
            · exact ih (st + 1) bs hbs c (by omega) (by omega)
        exact this _ _ _ hrs (x / 16) (by omega) (by omega) hch
    obtain ⟨l, hl⟩ := hsome
    refine ⟨l, (mapM_range'_mem _ _ _ _ hrs l).2 ⟨x / 16, hc, by simpa using hl⟩, ?_⟩
    exact (scanChunk_mem (by omega) hl x).2 ⟨by omega, by omega, hg⟩

end Ymq.SieveLog

namespace Ymq.SieveLog
open Ymq.Sieve

/-! ### what one cursor / one prime contributes -/

theorem hitSum_map_nodup (lg x : Nat) : ∀ (l : List Nat), l.Nodup →
    hitSum (l.map fun y => (y, lg)) x = if x ∈ l then lg else 0 := by
  intro l
  induction l with
  | nil => intro _; simp [hitSum]
  | cons y t ih =>
    intro hn
    rw [List.nodup_cons] at hn
    rw [List.map_cons, hitSum_cons, ih hn.2]
    by_cases hy : y = x
    · subst hy; simp [hn.1]
    · have : ¬ x = y := fun e => hy e.symm
      simp [hy, this]

theorem arith_nodup (p bound : Nat) (hp : 0 < p) :
    ∀ (f off : Nat) (l : List Nat), arith p bound f off = some l → l.Nodup := by
  intro f
  induction f with
  | zero => intro off l h; simp [arith] at h
  | succ f ih =>
    intro off l h
    rw [arith] at h
    by_cases hlt : off < bound
    · simp only [hlt, if_true, Option.map_eq_some_iff] at h
      obtain ⟨l', hl', rfl⟩ := h
      rw [List.nodup_cons]
      refine ⟨?_, ih _ _ hl'⟩
      intro hm
      obtain ⟨_, k, hk⟩ := (arith_complete p bound _ _ _ hl').2 off hm
      have : 0 < p + k * p := by omega
      omega
    · simp only [hlt, if_false, Option.some.injEq] at h
      subst h; exact List.nodup_nil

/-- `x ≡ c (mod p)` for a reduced `c`, as an arithmetic progression. -/
theorem mod_eq_iff_prog {p c x : Nat} (hc : c < p) : (∃ k, x = c + k * p) ↔ x % p = c := by
  constructor
  · rintro ⟨k, rfl⟩; rw [Nat.add_mul_mod_self_right, Nat.mod_eq_of_lt hc]
  · intro h
    exact ⟨x / p, by have := Nat.div_add_mod x p; rw [h, Nat.mul_comm] at this; omega⟩

/-- one cursor of the classes 13..15 adds its log exactly at the positions congruent to the cursor. -/
theorem singleHits_sum {p c lg x : Nat} {l : List Nat} (hp : 0 < p) (hc : c < p) (hcn : c ≠ NONE) (hx : x < BLOCK)
    (h : singleHits p c = some l) :
    hitSum (l.map fun y => (y, lg)) x = if x % p = c then lg else 0 := by
  unfold singleHits at h
  simp only [hcn, if_false] at h
  rw [hitSum_map_nodup lg x l (arith_nodup p BLOCK hp _ _ _ h)]
  obtain ⟨h1, h2⟩ := arith_complete p BLOCK _ _ _ h
  have : x ∈ l ↔ x % p = c := by
    rw [← mod_eq_iff_prog hc]
    constructor
    · intro hm; exact (h2 x hm).2
    · rintro ⟨k, rfl⟩; exact h1 k hx
  simp only [this]

theorem unrolled_nodup (interval p o1 o2 rmax : Nat) (hp : 0 < p) (h1 : o1 < p) (h2 : o2 < p) (hne : o1 ≠ o2)
    (hr1 : o1 ≤ rmax) (hr2 : o2 ≤ rmax) :
    ∀ (f kp : Nat) (l : List Nat) (kp' : Nat), unrolled interval p o1 o2 rmax f kp = some (l, kp') →
      l.Nodup ∧ kp ≤ kp' ∧ ∀ y ∈ l, kp ≤ y ∧ y < kp' := by
  intro f
  induction f with
  | zero => intro kp l kp' h; simp [unrolled] at h
  | succ f ih =>
    intro kp l kp' h
    rw [unrolled] at h
    by_cases hlt : kp + p + rmax < interval
    · simp only [hlt, if_true, Option.map_eq_some_iff] at h
      obtain ⟨⟨l', k'⟩, hl', heq⟩ := h
      simp only [Prod.mk.injEq] at heq
      obtain ⟨rfl, rfl⟩ := heq
      obtain ⟨hn, hle, hb⟩ := ih _ _ _ hl'
      refine ⟨?_, by omega, ?_⟩
      · simp only [List.nodup_cons, List.mem_cons]
        refine ⟨?_, ?_, ?_, ?_, hn⟩
        · rintro (e | e | e | e)
          · omega
          · omega
          · omega
          · have := hb _ e; omega
        · rintro (e | e | e)
          · omega
          · omega
          · have := hb _ e; omega
        · rintro (e | e)
          · omega
          · have := hb _ e; omega
        · intro e; have := hb _ e; omega
      · intro y hy
        simp only [List.mem_cons] at hy
        rcases hy with rfl | rfl | rfl | rfl | hy
        · omega
        · omega
        · omega
        · omega
        · have := hb y hy; omega
    · simp only [hlt, if_false, Option.some.injEq, Prod.mk.injEq] at h
      obtain ⟨rfl, rfl⟩ := h
      exact ⟨List.nodup_nil, le_refl _, by simp⟩

/-- one prime of the classes `log ≤ 12`: its log is added exactly at the positions congruent to one of its
(one or two, different) cursors, once each. -/
theorem pairHits_sum {p c1 c2 lg x : Nat} {l : List Nat} (hp : 0 < p) (hp4 : p ≤ 4096) (h1 : c1 < p)
    (h2 : (c2 < p ∧ c2 ≠ c1) ∨ c2 = NONE) (hx : x < BLOCK) (h : pairHits p c1 c2 = some l) :
    hitSum (l.map fun y => (y, lg)) x =
      (if x % p = c1 then lg else 0) + (if c2 ≠ NONE ∧ x % p = c2 then lg else 0) := by
  have hB : BLOCK = 32768 := rfl
  have n1 : c1 ≠ NONE := by unfold NONE; omega
  unfold pairHits at h
  simp only [Option.bind_eq_bind, Option.bind_eq_some_iff, Option.some.injEq] at h
  obtain ⟨r, hr, t1, ht1, t2, ht2, hl⟩ := h
  subst hl
  rcases h2 with ⟨h2, hne⟩ | h2
  · have n2 : c2 ≠ NONE := by unfold NONE; omega
    have hund : ¬ BLOCK < p + max c1 c2 := by rw [hB]; omega
    unfold pairShift at hr
    rw [if_pos ⟨n1, n2⟩, if_neg hund] at hr
    rw [Option.map_eq_some_iff] at hr
    obtain ⟨⟨l0', kp⟩, hu, hreq⟩ := hr
    subst hreq
    simp only at ht1 ht2 ⊢
    obtain ⟨hn0, _, hb0⟩ := unrolled_nodup BLOCK p c1 c2 (max c1 c2) hp h1 h2 (fun e => hne e.symm)
      (le_max_left _ _) (le_max_right _ _) _ _ _ _ hu
    obtain ⟨j, hj, u1, u2⟩ := unrolled_spec BLOCK p c1 c2 (max c1 c2) (le_max_left _ _) (le_max_right _ _) _ _ _ _ hu
    simp only [Nat.zero_add] at hj u1 u2
    -- the shifted cursors are not the marker
    have hkp : kp < BLOCK + p := by
      by_cases hj0 : j = 0
      · subst hj0; simp at hj; omega
      · have := (u1 (2 * j - 1) (by omega)).1
        have hlt := (u2 _ this).1
        have e : c1 + (2 * j - 1) * p = kp - p + c1 := by
          rw [hj]
          have : (2 * j - 1) * p + p = j * (2 * p) := by
            have : 2 * j - 1 + 1 = 2 * j := by omega
            calc (2 * j - 1) * p + p = (2 * j - 1 + 1) * p := by ring
              _ = j * (2 * p) := by rw [this]; ring
          omega
        omega
    have m1 : c1 + kp ≠ NONE := by unfold NONE; rw [hB] at hkp; omega
    have m2 : c2 + kp ≠ NONE := by unfold NONE; rw [hB] at hkp; omega
    unfold tailHits at ht1 ht2
    rw [if_pos m1] at ht1
    rw [if_pos m2] at ht2
    obtain ⟨a1, b1⟩ := arith_complete p BLOCK _ _ _ ht1
    obtain ⟨a2, b2⟩ := arith_complete p BLOCK _ _ _ ht2
    have hnod : (l0' ++ t1 ++ t2).Nodup := by
      rw [List.nodup_append, List.nodup_append]
      refine ⟨⟨hn0, arith_nodup p BLOCK hp _ _ _ ht1, ?_⟩, arith_nodup p BLOCK hp _ _ _ ht2, ?_⟩
      · intro a ha b hb e
        subst e
        have := (hb0 a ha).2
        obtain ⟨_, k, hk⟩ := b1 a hb
        omega
      · intro a ha b hb e
        subst e
        obtain ⟨_, k', hk'⟩ := b2 a hb
        rcases List.mem_append.1 ha with ha | ha
        · have := (hb0 a ha).2; omega
        · obtain ⟨_, k, hk⟩ := b1 a ha
          have e1 : a % p = c1 := by
            rw [hk, hj]
            have : c1 + j * (2 * p) + k * p = c1 + (2 * j + k) * p := by ring
            rw [this, Nat.add_mul_mod_self_right, Nat.mod_eq_of_lt h1]
          have e2 : a % p = c2 := by
            rw [hk', hj]
            have : c2 + j * (2 * p) + k' * p = c2 + (2 * j + k') * p := by ring
            rw [this, Nat.add_mul_mod_self_right, Nat.mod_eq_of_lt h2]
          exact hne (e2.symm.trans e1)
    rw [hitSum_map_nodup lg x _ hnod]
    -- membership: the union of the two progressions below the block end
    have hmem : x ∈ l0' ++ t1 ++ t2 ↔ (x % p = c1 ∨ x % p = c2) := by
      rw [← mod_eq_iff_prog h1, ← mod_eq_iff_prog h2]
      simp only [List.mem_append]
      constructor
      · rintro ((hm | hm) | hm)
        · obtain ⟨_, k, hk⟩ := u2 x hm
          rcases hk with hk | hk
          · exact Or.inl ⟨k, hk⟩
          · exact Or.inr ⟨k, hk⟩
        · obtain ⟨_, k, hk⟩ := b1 x hm
          exact Or.inl ⟨2 * j + k, by rw [hk, hj]; ring⟩
        · obtain ⟨_, k, hk⟩ := b2 x hm
          exact Or.inr ⟨2 * j + k, by rw [hk, hj]; ring⟩
      · rintro (⟨k, rfl⟩ | ⟨k, rfl⟩)
        · by_cases hk : k < 2 * j
          · exact Or.inl (Or.inl (u1 k hk).1)
          · refine Or.inl (Or.inr ?_)
            have e : c1 + k * p = c1 + kp + (k - 2 * j) * p := by
              rw [hj]
              have : k = 2 * j + (k - 2 * j) := by omega
              conv_lhs => rw [this]
              ring
            rw [e] at hx ⊢
            exact a1 _ hx
        · by_cases hk : k < 2 * j
          · exact Or.inl (Or.inl (u1 k hk).2)
          · refine Or.inr ?_
            have e : c2 + k * p = c2 + kp + (k - 2 * j) * p := by
              rw [hj]
              have : k = 2 * j + (k - 2 * j) := by omega
              conv_lhs => rw [this]
              ring
            rw [e] at hx ⊢
            exact a2 _ hx
    by_cases e1 : x % p = c1
    · have e2 : ¬ x % p = c2 := fun e => hne (e.symm.trans e1)
      rw [if_pos (hmem.2 (Or.inl e1)), if_pos e1, if_neg (fun h => e2 h.2), Nat.add_zero]
    · by_cases e2 : x % p = c2
      · rw [if_pos (hmem.2 (Or.inr e2)), if_neg e1, if_pos ⟨n2, e2⟩, Nat.zero_add]
      · rw [if_neg (fun h => by rcases hmem.1 h with h | h; exact e1 h; exact e2 h), if_neg e1,
          if_neg (fun h => e2 h.2)]
  · subst h2
    unfold pairShift at hr
    rw [if_neg (by rintro ⟨_, hx⟩; exact hx rfl)] at hr
    have := Option.some.inj hr
    subst this
    simp only at ht1 ht2 ⊢
    unfold tailHits at ht2
    rw [if_neg (by simp)] at ht2
    have := Option.some.inj ht2
    subst this
    simp only [List.nil_append, List.append_nil]
    have hs : singleHits p c1 = some t1 := by
      unfold tailHits at ht1
      rw [if_pos n1] at ht1
      simp [singleHits, n1, ht1]
    rw [singleHits_sum (lg := lg) hp h1 n1 hx hs]
    simp

end Ymq.SieveLog
