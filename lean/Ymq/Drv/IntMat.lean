import Ymq.Drv.Util
import Ymq.Model.IntMat
import Ymq.Model.Snf

/-
Driver for C19 (matrix/intdense.rs, matrix/intsparse.rs). Encodings as in harness/src/ops_intmat.rs:
dense matrix = rows joined by `;`, entries by `,` (`-` = no rows); sparse rows = rows joined by `;`,
a row is `-` or `col:coef,...`; f64 arguments are bit patterns and are ignored by the model (the
model gets the derived integer inputs that follow them on the line).
-/
namespace Ymq.Drv
open Ymq.IntMat Ymq.Snf

private def parseMat (s : String) : Option (List (List Int)) :=
  if s = "-" then some [] else (s.splitOn ";").mapM parseIntList

private def showMat {α} [ToString α] (m : List (List α)) : String :=
  if m.isEmpty then "-" else ";".intercalate (m.map showList)

private def parseSparse (s : String) : Option (List (List (Nat × Int))) :=
  if s = "-" then some []
  else (s.splitOn ";").mapM (fun r =>
    if r = "-" then some []
    else (r.splitOn ",").mapM (fun e =>
      match e.splitOn ":" with
      | [j, c] => do let j ← parseNat j; let c ← parseInt c; some (j, c)
      | _ => none))

private def inI64 (x : Int) : Bool := -(2 ^ 63 : Int) ≤ x ∧ x < 2 ^ 63
private def inI128 (x : Int) : Bool := -(2 ^ 127 : Int) ≤ x ∧ x < 2 ^ 127
private def inI256 (x : Int) : Bool := -(2 ^ 255 : Int) ≤ x ∧ x < 2 ^ 255

private def parseMat64 (s : String) : Option (List (List Int)) := do
  let m ← parseMat s
  if m.all (·.all inI64) then some m else none

private def parseMat128 (s : String) : Option (List (List Int)) := do
  let m ← parseMat s
  if m.all (·.all inI128) then some m else none

private def parseU64List (s : String) : Option (List Nat) := do
  let l ← parseNatList s
  if l.all (· < 2 ^ 64) then some l else none

private def pn {α} [ToString α] : Option α → String
  | none => "panic"
  | some x => toString x

private def inv64 : Inv := Ymq.Arith.invMod64
private def isp : Nat → Option Bool := Ymq.Mg64.isprime64

private def showRemoved (r : List (Nat × List (Nat × Int))) : String :=
  if r.isEmpty then "-"
  else "|".intercalate (r.map (fun (p, v) =>
    let body := if v.isEmpty then "-" else ",".intercalate (v.map (fun (l, e) => s!"{l}:{e}"))
    s!"{p}={body}"))

private def showSt (s : St) : String :=
  s!"{showList s.gens} {showMat s.rows} {showMat s.q} {showRemoved s.removed}"

private def pst : Option St → String
  | none => "panic"
  | some s => showSt s

private def mkSt (h gens rows q : String) : Option (Option St) := do
  let h ← parseNat h; let gens ← parseNatList gens; let rows ← parseMat128 rows; let q ← parseMat128 q
  if h ≥ 2 ^ 128 ∨ gens.any (· ≥ 2 ^ 32) then none else some (St.mk' h gens rows q)

/-- add the rows one after the other (a rejected row leaves the state unchanged) -/
private def echAll (e : Ech) : List (List Int) → List Nat → Option (Ech × List Nat)
  | [], acc => some (e, acc)
  | v :: vs, acc =>
    match e.add inv64 v with
    | none => none
    | some (e', b) => echAll e' vs (acc ++ [if b then 1 else 0])

private def crtDetAll (c : CrtDet) : List (List Int × Nat) → List Int → Option (List Int)
  | [], acc => some acc
  | (r, b) :: cs, acc =>
    match c.det isp inv64 r b with
    | none => none
    | some (d, c') => crtDetAll c' cs (acc ++ [d])

def handleIntMat : Handler
  | ["im_crt", m, p] => do
    let m ← parseU64List m; let p ← parseU64List p
    some (pn (crtDense inv64 m p))
  | ["im_crt_sparse", m, p] => do
    let m ← parseU64List m; let p ← parseU64List p
    some (pn (crtSparse inv64 m p))
  | ["im_echelon", p, m] => do
    let p ← parseNat p; let m ← parseMat64 m
    if p ≥ 2 ^ 64 then none
    else some (match (Ech.new p).bind (fun e => echAll e m []) with
      | none => "panic"
      | some (e, adds) =>
        let redc := fun (x : Nat) => Ymq.Mg64.mgRedc e.p e.pinv x
        match e.basis.mapM (·.mapM redc), e.factors.mapM redc with
        | some basis, some fac =>
          let det : Option String :=
            match e.basis with
            | b0 :: _ => if fac.length = b0.length then e.det.map toString else some "-"
            | [] => some "-"
          match det with
          | none => "panic"
          | some d => s!"{showList adds} {showList e.indices} {showMat basis} {showList fac} {d}"
        | _, _ => "panic")
  -- the plain-arithmetic reference builder (follow-up of im_echelon / im_detp)
  | ["im_echelon_plain", p, m] => do
    let p ← parseNat p; let m ← parseMat64 m
    if p ≥ 2 ^ 64 then none
    else some (match EchP.addAll inv64 { p := p, indices := [], basis := [], factors := [] } m [] with
      | none => "panic"
      | some (e, adds) =>
        let det : Option String :=
          match e.basis with
          | b0 :: _ => if e.factors.length = b0.length then e.det.map toString else some "-"
          | [] => some "-"
        match det with
        | none => "panic"
        | some d => s!"{showList (adds.map (fun b => if b then 1 else 0))} {showList e.indices} {showMat e.basis} {showList e.factors} {d}")
  | ["im_detp_plain", p, m] => do
    let p ← parseNat p; let m ← parseMat64 m
    if p ≥ 2 ^ 64 then none
    else some (pn (detModPlain inv64 p { p := p, indices := [], basis := [], factors := [] } m))
  | ["im_ech_raw", p, ind, basis, fac, row] => do
    let p ← parseNat p; let ind ← parseNatList ind; let fac ← parseU64List fac; let row ← parseIntList row
    let basis ← (if basis = "-" then some [] else (basis.splitOn ";").mapM parseU64List)
    if p ≥ 2 ^ 64 ∨ !(row.all inI64) ∨ ind.any (· ≥ 2 ^ 64) then none
    else some (match (Ech.new p).bind (fun e => ({ e with indices := ind, basis := basis, factors := fac } : Ech).add inv64 row) with
      | none => "panic"
      | some (e, b) => s!"{if b then 1 else 0} {showList e.indices} {showMat e.basis} {showList e.factors}")
  | ["im_detp", p, m] => do
    let p ← parseNat p; let m ← parseMat64 m
    if p ≥ 2 ^ 64 then none else some (pn (detModP inv64 p m))
  | ["im_perm_sign", perm] => do
    let ind ← parseNatList perm
    some (if ind.isEmpty then "panic"
      else match permSwaps ind with
        | none => "panic"
        | some k => if k % 2 = 1 then "-1" else "1")
  | ["im_det", m, _est, bits] => do
    let m ← parseMat64 m; let bits ← parseNat bits
    some (pn (detMatz isp inv64 m bits))
  | ["im_crtdet", m, cands, _ests, bits] => do
    let m ← parseMat64 m; let cands ← parseMat64 cands; let bits ← parseNatList bits
    if bits.length ≠ cands.length then none
    else some (match crtDetAll { rows := m, echelons := [] } (cands.zip bits) [] with
      | none => "panic"
      | some l => showList l)
  | ["im_lattice_index1", col, loN, loD, hiN, hiD] => do
    let col ← parseIntList col
    let loN ← parseNat loN; let loD ← parseNat loD; let hiN ← parseNat hiN; let hiD ← parseNat hiD
    if ¬ col.all inI64 ∨ loD = 0 ∨ hiD = 0 then none
    else some (pn (latticeIndex1 col (loN * hiD) (hiN * loD) (loD * hiD)))
  -- Smith normal form
  | ["snf_divider", h] => do
    let h ← parseNat h
    if h ≥ 2 ^ 128 then none
    else some (match divider h with | none => "panic" | some (qm, qe) => s!"{qm} {qe}")
  | ["snf_modh128", h, x] => do
    let s ← mkSt h "-" "-" "-"; let x ← parseInt x
    if ¬ inI128 x then none else some (pn (s.bind (·.modh128 x)))
  | ["snf_modh256", h, x] => do
    let s ← mkSt h "-" "-" "-"; let x ← parseInt x
    if ¬ inI256 x then none else some (pn (s.bind (·.modh256 x)))
  | ["snf_normalize", h, gens, rows, q, i, k] => do
    let s ← mkSt h gens rows q; let i ← parseNat i; let k ← parseNat k
    some (pst (s.bind (·.normalize i k)))
  | ["snf_colsub", h, gens, rows, q, i, j, k] => do
    let s ← mkSt h gens rows q; let i ← parseNat i; let j ← parseNat j; let k ← parseInt k
    if ¬ inI128 k then none else some (pst (s.bind (·.colsub i j k)))
  | ["snf_colswap", h, gens, rows, q, i, j] => do
    let s ← mkSt h gens rows q; let i ← parseNat i; let j ← parseNat j
    some (pst (s.bind (·.colswap i j)))
  | ["snf_submul", h, gens, rows, q, i, j, ms] => do
    let s ← mkSt h gens rows q; let i ← parseNat i; let j ← parseNat j; let ms ← parseIntList ms
    if ¬ ms.all inI128 ∨ (ms.length ≠ 1 ∧ ms.length ≠ 8) then none
    else some (pst (s.bind (·.submulN i j ms)))
  | ["snf_eliminate", h, gens, rows, q, i, j, k] => do
    let s ← mkSt h gens rows q; let i ← parseNat i; let j ← parseNat j; let k ← parseNat k
    some (pst (s.bind (·.eliminate i j k)))
  | ["snf_eliminate_block", h, gens, rows, q, j, lo, hi, upper] => do
    let s ← mkSt h gens rows q; let j ← parseNat j; let lo ← parseNat lo; let hi ← parseNat hi
    let upper ← (if upper = "true" ∨ upper = "1" then some true
                 else if upper = "false" ∨ upper = "0" then some false else none)
    some (pst (s.bind (·.elimBlock j lo hi upper)))
  | ["snf_reduce_rows", h, gens, rows] => do
    let s ← mkSt h gens rows "-"
    some (pst (s.bind (·.reduceRows)))
  | ["snf_reduce_cols", h, gens, rows] => do
    let s ← mkSt h gens rows "-"
    some (pst (s.bind (·.reduceCols)))
  -- diagnostics for the finding keys: product of the pivots after the row phase (the first assert of reduce)
  | ["snf_reduce_diag", h, gens, rows] => do
    let s ← mkSt h gens rows "-"
    some (match s.bind (·.reduceRows) with
      | none => "panic-rows"
      | some s1 =>
        match (s1.checkDiag false).bind (fun (s2, det) => s2.hack det) with
        | none => "panic-check"
        | some (s3, det) => s!"rowphase {det} {s3.h}")
  | ["snf_pipeline_diag", rels, h] => do
    let rels ← parseSparse rels; let h ← parseNat h
    some (match (St.new rels h).bind (·.reduceRows) with
      | none => "panic-rows"
      | some s1 =>
        match (s1.checkDiag false).bind (fun (s2, det) => s2.hack det) with
        | none => "panic-check"
        | some (s3, det) => s!"rowphase {det} {s3.h}")
  | ["snf_reduce", h, gens, rows] => do
    let s ← mkSt h gens rows "-"
    some (pst (s.bind (·.reduce)))
  -- follow-ups of `im_snf_new` / `im_snf`: the lattice index found by the implementation is the input
  | ["snf_new_model", rels, h] => do
    let rels ← parseSparse rels; let h ← parseNat h
    some (match St.new rels h with
      | none => "panic"
      | some s => s!"{s.h} {showList s.gens} {showMat s.rows}")
  | ["snf_pipeline_model", rels, h] => do
    let rels ← parseSparse rels; let h ← parseNat h
    some (match St.new rels h with
      | none => "panic"
      | some s0 =>
        match s0.reduce with
        | none => s!"refused-reduce {h}"
        | some s => s!"{s.h} {showSt s}")
  | _ => none

end Ymq.Drv
