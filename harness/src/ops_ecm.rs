//! Elliptic-curve arithmetic and addition chains (C15): src/ecm.rs, src/ecm128.rs.
//!
//! Residues travel as ordinary integers in [0, n); points as `x y z` (projective) or
//! `x y z t` (extended); groups of an answer are separated by ` ; `.
use crate::util::*;
use yamaquasi::arith_montgomery::{MInt, ZmodN};
use yamaquasi::ecm::verif_hooks as eh;
use yamaquasi::ecm::{Curve, Point, SmoothBase, Suyama11};
use yamaquasi::ecm128;
use yamaquasi::ecm128::verif_hooks_curve as eh128;
use yamaquasi::Uint;

fn show_chain(c: &[i8]) -> String {
    format!("{} {}", c.len(), show_list(c))
}

fn res(zn: &ZmodN, s: &str) -> Option<MInt> {
    let x = uint_of(s)?;
    Some(zn.from_int(x % zn.n))
}

fn ints(zn: &ZmodN, xs: &[MInt]) -> String {
    xs.iter().map(|x| zn.to_int(*x).to_string()).collect::<Vec<_>>().join(" ")
}

fn pt(zn: &ZmodN, p: &Point) -> String {
    ints(zn, &eh::xyz(p))
}

/// Curve families: `s` = Suyama-11 parameter [seed]G (a = -1), `e` = Edwards curve through
/// (3s+5, 4s+5) (a = +1), exactly as `ecm::ecm` builds them.
fn build_curve(zn: &ZmodN, fam: &str, seed: u32) -> Result<Curve, String> {
    match fam {
        "s" => {
            let su = eh::suyama_new(zn).map_err(|f| format!("err {f}"))?;
            su.element(seed)
                .and_then(|p| su.params_point(&p))
                .and_then(|g| Curve::twisted_from_point(zn.clone(), g))
                .map_err(|e| format!("err {}", eh::large_factor(&e)))
        }
        "e" => {
            let s = seed as u64 % (1 << 24);
            eh::from_point(zn.clone(), 3 * s + 5, 4 * s + 5).map_err(|f| format!("err {f}"))
        }
        _ => Err("?".to_string()),
    }
}

fn show_curve(c: &Curve) -> String {
    let (zn, tw, d) = eh::curve_parts(c);
    format!("{} {} {}", if tw { -1 } else { 1 }, zn.to_int(d), pt(zn, c.gen()))
}

pub fn handle(op: &str, a: &[&str]) -> Option<String> {
    match (op, a) {
        ("chain64", [k]) => Some(show_chain(&eh::addition_chain(u64_of(k)?))),
        ("chain1024", [n]) => Some(show_chain(&eh::addition_chain_long(&uint_of(n)?))),
        ("smoothbase", [b1, large]) => {
            let sb = SmoothBase::new(b1.parse().ok()?, bool_of(large)?);
            let (f, l) = eh::smoothbase_parts(&sb);
            Some(format!("{} ; {}", show_list(f), show_list(l)))
        }
        // scalar64_chainmul against scalar64_mul_dbladd, folded over a list of scalars
        ("ecm_mul", [n, fam, seed, ks]) => {
            let zn = ZmodN::new(uint_of(n)?);
            let ks: Vec<u64> = list_of(ks)?;
            let c = match build_curve(&zn, fam, u32_of(seed)?) {
                Ok(c) => c,
                Err(e) => return Some(e),
            };
            let mut p1 = c.gen().clone();
            let mut p2 = c.gen().clone();
            for &k in &ks {
                p1 = c.scalar64_chainmul(k, &p1);
                p2 = c.scalar64_mul_dbladd(k, &p2);
            }
            Some(format!("{} ; {} ; {}", show_curve(&c), pt(&zn, &p1), pt(&zn, &p2)))
        }
        ("ecm_mul1024", [n, fam, seed, k]) => {
            let zn = ZmodN::new(uint_of(n)?);
            let c = match build_curve(&zn, fam, u32_of(seed)?) {
                Ok(c) => c,
                Err(e) => return Some(e),
            };
            let p = c.scalar1024_chainmul(&uint_of(k)?, c.gen());
            Some(format!("{} ; {}", show_curve(&c), pt(&zn, &p)))
        }
        // ecm128::Curve::scalar64_mul against ecm::Curve::scalar64_chainmul on the same curve
        ("ecm128_mul", [n, seed, ks]) => {
            let nn = uint_of(n)?;
            if nn.bits() > 128 {
                return None;
            }
            let zn = ZmodN::new(nn);
            let ks: Vec<u64> = list_of(ks)?;
            let c = match build_curve(&zn, "s", u32_of(seed)?) {
                Ok(c) => c,
                Err(e) => return Some(e),
            };
            let n128: u128 = n.parse().ok()?;
            // same conversion as ecm128::ecm: raw Montgomery words
            let g = eh::xyz(c.gen());
            let w = |m: MInt| (m.0[0] as u128) | ((m.0[1] as u128) << 64);
            let c128 = ecm128::Curve::from_point(n128, eh128::point(w(g[0]), w(g[1]), w(g[2])));
            let mut p1 = c128.gen().clone();
            let mut p2 = c.gen().clone();
            for &k in &ks {
                p1 = c128.scalar64_mul(k, &p1);
                p2 = c.scalar64_chainmul(k, &p2);
            }
            let r1 = eh128::xyz(&p1).map(|x| eh128::to_int(&c128, x).to_string()).join(" ");
            Some(format!("{} ; {} ; {}", show_curve(&c), r1, pt(&zn, &p2)))
        }
        // every formula of ecm::Curve on explicit coordinates (no curve membership required)
        ("ed_ops", [n, tw, d, x1, y1, z1, x2, y2, z2]) => {
            let zn = ZmodN::new(uint_of(n)?);
            let r = |s: &&str| res(&zn, s);
            let p = eh::point(r(x1)?, r(y1)?, r(z1)?);
            let q = eh::point(r(x2)?, r(y2)?, r(z2)?);
            let c = eh::curve(zn.clone(), bool_of(tw)?, r(d)?, p.clone());
            let pe = eh::to_extended(&c, &p);
            let qe = eh::to_extended(&c, &q);
            let e = |p: &yamaquasi::ecm::ExtPoint| ints(&zn, &eh::xyzt(p));
            Some(
                [
                    pt(&zn, &eh::add(&c, &p, &q)),
                    pt(&zn, &eh::double(&c, &p)),
                    e(&eh::dblext(&c, &p)),
                    e(&pe),
                    e(&eh::addext(&c, &pe, &qe)),
                    pt(&zn, &eh::addextproj(&c, &pe, &qe)),
                    pt(&zn, &eh::subextproj(&c, &pe, &qe)),
                    format!("{} {}", eh::is_valid(&c, &p), eh::is_valid(&c, &q)),
                ]
                .join(" ; "),
            )
        }
        // every formula of ecm128::Curve (a = -1) on explicit coordinates; g = first point
        ("ed128_ops", [n, x1, y1, z1, x2, y2, z2]) => {
            let n128: u128 = n.parse().ok()?;
            let c0 = ecm128::Curve::from_point(n128, eh128::point(0, 0, 0));
            let r = |s: &&str| -> Option<u128> { Some(eh128::from_int(&c0, s.parse::<u128>().ok()? % n128)) };
            let p = eh128::point(r(x1)?, r(y1)?, r(z1)?);
            let q = eh128::point(r(x2)?, r(y2)?, r(z2)?);
            let c = ecm128::Curve::from_point(n128, p.clone());
            let qe = c.ext(&q);
            let pe = c.ext(&p);
            let s3 = |p: &ecm128::Point| eh128::xyz(p).map(|x| eh128::to_int(&c, x).to_string()).join(" ");
            let s4 = |p: &ecm128::ExtPoint| eh128::xyzt(p).map(|x| eh128::to_int(&c, x).to_string()).join(" ");
            Some(
                [
                    s4(&eh128::add(&c, &pe, &qe)),
                    s3(&eh128::dbladd(&c, &p, &qe)),
                    s3(&eh128::double(&c, &p)),
                    s4(&eh128::dblext(&c, &p)),
                    s4(&pe),
                    format!("{} {}", eh128::is_valid(&c, &pe), eh128::is_valid(&c, &qe)),
                ]
                .join(" ; "),
            )
        }
        // scalar64_chainmul and scalar64_mul_dbladd on an explicit curve and point (exact coordinates)
        ("ed_chainmul", [n, tw, d, x, y, z, k]) => {
            let zn = ZmodN::new(uint_of(n)?);
            let r = |s: &&str| res(&zn, s);
            let p = eh::point(r(x)?, r(y)?, r(z)?);
            let c = eh::curve(zn.clone(), bool_of(tw)?, r(d)?, p.clone());
            let k = u64_of(k)?;
            Some(format!("{} ; {}", pt(&zn, &c.scalar64_chainmul(k, &p)), pt(&zn, &c.scalar64_mul_dbladd(k, &p))))
        }
        ("ed_chainmul1024", [n, tw, d, x, y, z, k]) => {
            let zn = ZmodN::new(uint_of(n)?);
            let r = |s: &&str| res(&zn, s);
            let p = eh::point(r(x)?, r(y)?, r(z)?);
            let c = eh::curve(zn.clone(), bool_of(tw)?, r(d)?, p.clone());
            Some(pt(&zn, &c.scalar1024_chainmul(&uint_of(k)?, &p)))
        }
        ("ed128_chainmul", [n, x, y, z, k]) => {
            let n128: u128 = n.parse().ok()?;
            let c0 = ecm128::Curve::from_point(n128, eh128::point(0, 0, 0));
            let r = |s: &&str| -> Option<u128> { Some(eh128::from_int(&c0, s.parse::<u128>().ok()? % n128)) };
            let p = eh128::point(r(x)?, r(y)?, r(z)?);
            let c = ecm128::Curve::from_point(n128, p.clone());
            let q = c.scalar64_mul(u64_of(k)?, &p);
            Some(eh128::xyz(&q).map(|x| eh128::to_int(&c, x).to_string()).join(" "))
        }
        // Suyama-11 parameter curve: constants, [seed]G, (sigma, r), Edwards generator, d
        ("suyama", [n, seed]) => {
            let zn = ZmodN::new(uint_of(n)?);
            let su = match eh::suyama_new(&zn) {
                Ok(s) => s,
                Err(f) => return Some(format!("err {f}")),
            };
            let consts = ints(&zn, &eh::suyama_consts(&su));
            let el = match su.element(u32_of(seed)?) {
                Ok(p) => p,
                Err(e) => return Some(format!("{consts} ; err {}", eh::large_factor(&e))),
            };
            let valid = eh::suyama_is_valid(&su, &el);
            let (s, r) = match su.params(&el) {
                Ok(x) => x,
                Err(e) => return Some(format!("{consts} ; {} {valid} ; err {}", pt(&zn, &el), eh::large_factor(&e))),
            };
            let g = su.params_point(&el).ok()?;
            let gs = pt(&zn, &g);
            let d = match Curve::twisted_from_point(zn.clone(), g) {
                Ok(c) => zn.to_int(eh::curve_parts(&c).2).to_string(),
                Err(e) => format!("err {}", eh::large_factor(&e)),
            };
            Some(format!("{consts} ; {} {valid} ; {} ; {gs} ; {d}", pt(&zn, &el), ints(&zn, &[s, r])))
        }
        // Suyama11::{add_g, double, is_valid} on explicit coordinates
        ("suyama_ops", [n, x, y, z]) => {
            let zn = ZmodN::new(uint_of(n)?);
            let su: Suyama11 = match eh::suyama_new(&zn) {
                Ok(s) => s,
                Err(f) => return Some(format!("err {f}")),
            };
            let p = eh::point(res(&zn, x)?, res(&zn, y)?, res(&zn, z)?);
            Some(format!(
                "{} ; {} ; {} ; {}",
                ints(&zn, &eh::suyama_consts(&su)),
                pt(&zn, &eh::suyama_add_g(&su, &p)),
                pt(&zn, &eh::suyama_double(&su, &p)),
                eh::suyama_is_valid(&su, &p)
            ))
        }
        _ => None,
    }
}

#[allow(dead_code)]
fn _types(_: Uint) {}
