/-
Soundness and completeness of the Berlekamp–Massey model `core`, over `ZMod p`:
* whatever non-empty vector it returns is a connection polynomial of the sequence on the window
  `n/2 ≤ i < n`, of degree at most `n - n/2`, with constant term 1;
* on a sequence with two non-zero terms it returns such a vector if and only if one exists
  (otherwise the run ends in `assert!(u[0] != 0)`), and no other panic site is ever reached.
-/
import Ymq.Lemmas.BerlekampMasseyInit
import Mathlib.Algebra.Polynomial.Div
import Mathlib.Algebra.Polynomial.Degree.Domain
import Mathlib.Algebra.Polynomial.Degree.Lemmas
import Mathlib.Algebra.Field.ZMod
import Mathlib.Algebra.BigOperators.NatAntidiagonal

namespace Ymq.BM
open Polynomial

variable {p : ℕ} {o : Ops} {κ : ZMod p}

/-- `Σ_{j ≤ i} c_j · s_{i-j}` (plain naturals) -/
def convAt (c s : List ℕ) (i : ℕ) : ℕ :=
  ((List.range (i + 1)).map (fun j => c.getD j 0 * s.getD (i - j) 0)).sum

theorem sum_map_range (f : ℕ → ZMod p) (m : ℕ) :
    ((List.range m).map f).sum = ∑ k ∈ Finset.range m, f k := by
  induction m with
  | zero => simp
  | succ m ih => simp [List.range_succ, Finset.sum_range_succ, ih]

theorem convAt_cast (c s : List ℕ) (i : ℕ) :
    ((convAt c s i : ℕ) : ZMod p) = (toPoly p c * toPoly p s).coeff i := by
  unfold convAt
  rw [coeff_mul, Finset.Nat.sum_antidiagonal_eq_sum_range_succ
    (fun a b => (toPoly p c).coeff a * (toPoly p s).coeff b) i, Nat.cast_list_sum, List.map_map,
    sum_map_range]
  apply Finset.sum_congr rfl
  intro k _
  simp only [Function.comp, coeff_toPoly, co, gd, Nat.cast_mul]

/-- a run on a sequence with two non-zero terms reaches `finish` without a panic -/
theorem core_run [Fact p.Prime] (ok : OpsOK o p κ) (seq : List ℕ) (hr : Red p seq) {i j : ℕ}
    (hij : i < j) (hi : gd seq i ≠ 0) (hj : gd seq j ≠ 0) :
    2 ≤ seq.length ∧ ∃ s', Inv p seq.length (toPoly p seq) s' ∧ s'.df < seq.length / 2 ∧
      core o seq = finish o s'.u := by
  rcases init_cases seq hr with ⟨h0, _⟩ | ⟨_, hz, _⟩ | ⟨k, _, hz, _⟩ | ⟨_, _, s, _, _, _, e, inv, hm, hn⟩
  · exact absurd (gd_of_le seq i (by omega)) hi
  · exact absurd (hz i) hi
  · have h1 : i = k := by by_contra hc; exact hi (hz i hc)
    have h2 : j = k := by by_contra hc; exact hj (hz j hc)
    omega
  · obtain ⟨s', f1, f2, _, f4⟩ := mainLoop_spec ok hn (2 * seq.length) s inv hm
    refine ⟨hn, s', f1, f2, ?_⟩
    simp only [core, e, f4]

/-- soundness in polynomial form -/
theorem core_sound [Fact p.Prime] (ok : OpsOK o p κ) (seq : List ℕ) (hr : Red p seq)
    (out : List ℕ) (h : core o seq = some out) (hne : out ≠ []) :
    out.length = seq.length ∧ Red p out ∧ gd out 0 = 1 ∧
      (∀ j, seq.length - seq.length / 2 < j → gd out j = 0) ∧
      ∀ i, seq.length / 2 ≤ i → i < seq.length → (toPoly p out * toPoly p seq).coeff i = 0 := by
  rcases init_cases seq hr with ⟨_, e⟩ | ⟨_, _, e⟩ | ⟨k, _, _, ⟨_, e⟩ | ⟨_, e⟩⟩ |
      ⟨_, _, s, _, _, _, e, inv, hm, hn⟩
  · simp [core, e] at h
  · simp only [core, e] at h; exact absurd (Option.some.inj h).symm hne
  · simp [core, e] at h
  · simp only [core, e] at h; exact absurd (Option.some.inj h).symm hne
  · obtain ⟨s', f1, f2, _, f4⟩ := mainLoop_spec ok hn (2 * seq.length) s inv hm
    simp only [core, e, f4] at h
    have hl : 0 < s'.u.length := by rw [f1.lu]; omega
    by_cases hu0 : gd s'.u 0 = 0
    · rw [finish_none s'.u hl hu0] at h; exact absurd h (by simp)
    · obtain ⟨out', c, g1, g2, g3, g4, g5⟩ := finish_some ok s'.u hl f1.ru hu0
      rw [g1] at h
      have : out' = out := Option.some.inj h
      subst this
      have hdu : s'.du ≤ seq.length - seq.length / 2 := by
        have := f1.b1; have := f1.hm; omega
      have hP : toPoly p out' = C c * toPoly p s'.u := by
        ext k; rw [coeff_C_mul, coeff_toPoly, coeff_toPoly, g5]
      refine ⟨by rw [g2, f1.lu], g3, g4, ?_, ?_⟩
      · intro j hj
        rw [← cast_eq_zero_of_lt (g3 j)]
        have := g5 j
        unfold co at this
        rw [this, f1.zu j (by omega)]; simp
      · intro i hi1 hi2
        obtain ⟨a, b, c', _, e1, _, _⟩ := f1.gh
        have hUS : toPoly p s'.u * toPoly p seq = toPoly p s'.f - a * X ^ seq.length := by
          rw [e1]; ring
        rw [hP, mul_assoc, coeff_C_mul, hUS, coeff_sub, coeff_toPoly, coeff_mul_X_pow',
          if_neg (by omega), co_zero (f1.zf i (by omega))]
        simp

/-- completeness in polynomial form: if some polynomial `T` with `T(0) ≠ 0` and `deg T ≤ n - n/2`
annihilates the window, the run does not end in `assert!(u[0] != 0)`. -/
theorem core_complete [Fact p.Prime] (ok : OpsOK o p κ) (seq : List ℕ) (hr : Red p seq) {i j : ℕ}
    (hij : i < j) (hi : gd seq i ≠ 0) (hj : gd seq j ≠ 0) (T : (ZMod p)[X]) (hT0 : T.coeff 0 ≠ 0)
    (hTd : T.natDegree ≤ seq.length - seq.length / 2)
    (hTa : ∀ i, seq.length / 2 ≤ i → i < seq.length → (T * toPoly p seq).coeff i = 0) :
    ∃ out, core o seq = some out ∧ out ≠ [] := by
  obtain ⟨hn, s', inv, hdf, e⟩ := core_run ok seq hr hij hi hj
  have hl : 0 < s'.u.length := by rw [inv.lu]; omega
  have hu0 : gd s'.u 0 ≠ 0 := by
    intro hu0
    obtain ⟨a, b, c, hc, e1, _, e3⟩ := inv.gh
    have hRc : ∀ d, (∑ i ∈ Finset.range (seq.length / 2),
        C ((T * toPoly p seq).coeff i) * X ^ i : (ZMod p)[X]).coeff d =
        if d < seq.length / 2 then (T * toPoly p seq).coeff d else 0 := by
      intro d
      rw [finsetSum_coeff]
      simp only [coeff_C_mul, coeff_X_pow]
      by_cases hd : d < seq.length / 2
      · rw [if_pos hd, Finset.sum_eq_single d]
        · simp
        · intro b _ hb; simp [Ne.symm hb]
        · intro hh; exact absurd (Finset.mem_range.mpr hd) hh
      · rw [if_neg hd]
        apply Finset.sum_eq_zero
        intro b hb
        have := Finset.mem_range.mp hb
        have : d ≠ b := by omega
        simp [this]
    generalize hR : (∑ i ∈ Finset.range (seq.length / 2),
        C ((T * toPoly p seq).coeff i) * X ^ i : (ZMod p)[X]) = R at hRc
    have hdvd : X ^ seq.length ∣ T * toPoly p seq - R := by
      rw [X_pow_dvd_iff]
      intro d hd
      rw [coeff_sub, hRc]
      by_cases h1 : d < seq.length / 2
      · rw [if_pos h1]; ring
      · rw [if_neg h1, hTa d (by omega) hd]; ring
    obtain ⟨Wp, hW⟩ := hdvd
    have key : toPoly p s'.u * R - T * toPoly p s'.f =
        X ^ seq.length * (-(toPoly p s'.u * Wp + T * a)) := by
      rw [e1]; linear_combination (-toPoly p s'.u) * hW
    have hdU : (toPoly p s'.u).natDegree ≤ seq.length - seq.length / 2 := by
      rw [natDegree_le_iff_coeff_eq_zero]
      intro N hN
      rw [coeff_toPoly]
      have := inv.b1; have := inv.hm
      exact co_zero (inv.zu N (by omega))
    have hdR : R.natDegree ≤ seq.length / 2 - 1 := by
      rw [natDegree_le_iff_coeff_eq_zero]
      intro N hN
      rw [hRc, if_neg (by omega)]
    have hdF : (toPoly p s'.f).natDegree ≤ seq.length / 2 - 1 := by
      rw [natDegree_le_iff_coeff_eq_zero]
      intro N hN
      rw [coeff_toPoly]
      exact co_zero (inv.zf N (by omega))
    have hdeg : (toPoly p s'.u * R - T * toPoly p s'.f).natDegree < seq.length := by
      have h1 := natDegree_sub_le (toPoly p s'.u * R) (T * toPoly p s'.f)
      have h2 := natDegree_mul_le (p := toPoly p s'.u) (q := R)
      have h3 := natDegree_mul_le (p := T) (q := toPoly p s'.f)
      have : 1 ≤ seq.length / 2 := by omega
      omega
    have hzero : toPoly p s'.u * R - T * toPoly p s'.f = 0 :=
      eq_zero_of_dvd_of_natDegree_lt ⟨_, key⟩ (by rw [natDegree_X_pow]; exact hdeg)
    have h2 : toPoly p s'.u * Wp + T * a = 0 := by
      rw [hzero] at key
      have hx : (X : (ZMod p)[X]) ^ seq.length ≠ 0 := pow_ne_zero _ X_ne_zero
      rcases mul_eq_zero.mp key.symm with h | h
      · exact absurd h hx
      · exact neg_eq_zero.mp h
    have hU0 : (toPoly p s'.u).coeff 0 = 0 := by rw [coeff_toPoly]; exact co_zero hu0
    have h3 := congrArg (fun P => P.coeff 0) h2
    simp only [coeff_add, mul_coeff_zero, coeff_zero, hU0, zero_mul, zero_add] at h3
    have ha0 : a.coeff 0 = 0 := (mul_eq_zero.mp h3).resolve_left hT0
    have h4 := congrArg (fun P => P.coeff 0) e3
    simp only [coeff_sub, mul_coeff_zero, coeff_C_zero, ha0, hU0, zero_mul, mul_zero,
      sub_zero] at h4
    exact hc h4.symm
  obtain ⟨out, c, g1, g2, _, _, _⟩ := finish_some ok s'.u hl inv.ru hu0
  refine ⟨out, by rw [e, g1], ?_⟩
  intro hnil
  rw [hnil, inv.lu] at g2
  simp at g2
  omega

end Ymq.BM
