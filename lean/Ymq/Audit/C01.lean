import Ymq.Props.C01
#print axioms Ymq.C01.factor_sound
