import Ymq.Props.C13
import Ymq.Props.C13Log
#print axioms Ymq.C13.cursor_inv
#print axioms Ymq.C13.small_recovery
#print axioms Ymq.C13.table_recovery
#print axioms Ymq.C13.large_table_recovery
#print axioms Ymq.C13.recycled_clean
#print axioms Ymq.C13.listed_complete_inv
#print axioms Ymq.C13.listed_complete
#print axioms Ymq.C13.listed_complete_rehash
#print axioms Ymq.C13.no_panic
#print axioms Ymq.C13.no_panic_rehash
#print axioms Ymq.C13.cofactor_no_panic
#print axioms Ymq.C13.fbase_new_classes
#print axioms Ymq.C13.log_sum_bound
#print axioms Ymq.C13.cofactor_spec
#print axioms Ymq.C13.accumulator_hits_spec
#print axioms Ymq.C13.class_loops_cover
#print axioms Ymq.C13.accumulator_spec_small
#print axioms Ymq.C13.accumulator_spec_tables
#print axioms Ymq.C13.accumulator_spec_partial
#print axioms Ymq.C13.accumulator_overflow_iff
#print axioms Ymq.C13.accumulator_overflow_witness
#print axioms Ymq.C13.accumulator_no_overflow_small
#print axioms Ymq.C13.accumulator_no_overflow_partial
#print axioms Ymq.C13.smooths_threshold_spec
#print axioms Ymq.C13.smooth_candidate_reported
#print axioms Ymq.C13.table_bucket_exact
