/- No panic: word-level helpers on their domain, the non-extended loop on all of `BUint<N>`. -/
import Ymq.Lemmas.GcdTerm

namespace Ymq.Gcd

theorem ofDigits_take_toDigits : ∀ (N n sz : Nat), sz ≤ N → ofDigits ((toDigits N n).take sz) = n % W ^ sz
  | _, n, 0, _ => by simp [ofDigits, Nat.mod_one]
  | 0, _, sz + 1, h => by omega
  | N + 1, n, sz + 1, h => by
    simp only [toDigits, List.take_succ_cons, ofDigits]
    rw [ofDigits_take_toDigits N (n / W) sz (by omega), Nat.pow_succ, Nat.mul_comm (W ^ sz) W,
      Nat.mod_mul]

/-- `mulword` does not index out of range when the loop stays inside the array and either a free
word is left for the carry or the product fits -/
theorem mulwordAux_total (w : Nat) : ∀ (sz : Nat) (ds : List Nat) (carry : Nat), sz ≤ ds.length →
    (sz < ds.length ∨ ofDigits (ds.take sz) * w + carry < W ^ sz) →
    ∃ r, mulwordAux w sz ds carry = some r
  | 0, ds, carry, _, h => by
    unfold mulwordAux
    split
    · rename_i hc
      cases ds with
      | nil => simp [ofDigits] at h; omega
      | cons d t => exact ⟨_, rfl⟩
    · exact ⟨_, rfl⟩
  | sz + 1, [], _, hl, _ => by simp at hl
  | sz + 1, d :: t, carry, hl, h => by
    unfold mulwordAux
    simp only
    have hl' : sz ≤ t.length := by simpa using hl
    obtain ⟨r, hr⟩ := mulwordAux_total w sz t ((d * w + carry) / W) hl' (by
      rcases h with h | h
      · left; simpa using h
      · right
        simp only [List.take_succ_cons, ofDigits] at h
        rw [Nat.pow_succ, Nat.mul_comm (W ^ sz) W] at h
        have e : (d + W * ofDigits (t.take sz)) * w + carry
            = W * (ofDigits (t.take sz) * w) + (d * w + carry) := by ring
        rw [e] at h
        have h2 := Nat.div_add_mod (d * w + carry) W
        have h3 : W * (ofDigits (t.take sz) * w + (d * w + carry) / W) < W * W ^ sz := by
          have : W * (ofDigits (t.take sz) * w + (d * w + carry) / W)
              = W * (ofDigits (t.take sz) * w) + W * ((d * w + carry) / W) := by ring
          rw [this]; omega
        exact Nat.lt_of_mul_lt_mul_left h3)
    rw [hr]; exact ⟨_, rfl⟩

theorem mulword_total {N w sz n : Nat} (hsz : sz ≤ N) (hn : n < W ^ sz)
    (h : sz < N ∨ n * w < W ^ sz) : ∃ r, mulword N w sz n = some r := by
  unfold mulword
  obtain ⟨r, hr⟩ := mulwordAux_total w sz (toDigits N n) 0 (by rw [toDigits_length]; exact hsz) (by
    rw [toDigits_length, ofDigits_take_toDigits N n sz hsz, Nat.mod_eq_of_lt hn]
    rcases h with h | h
    · exact Or.inl h
    · exact Or.inr (by omega))
  rw [hr]; exact ⟨_, rfl⟩

/-- `dot_product` does not panic in the situation of the Lehmer step: operands below `2^bts`,
coefficients below `2^36`, `bts + 36 < 64 N` -/
theorem dotProduct_total {N bts : Nat} {a b : Int} {x y : Nat} (hb : bts + 36 < 64 * N)
    (hx : x < 2 ^ bts) (hy : y < 2 ^ bts) (ha : |a| < 2 ^ 36) (hbb : |b| < 2 ^ 36) :
    ∃ r neg, dotProduct N ((bts + 63) / 64) a x b y = some (r, neg) := by
  have hsz : (bts + 63) / 64 ≤ N := by omega
  have hle : 2 ^ bts ≤ W ^ ((bts + 63) / 64) := by
    rw [W_pow]; exact Nat.pow_le_pow_right (by decide) (by omega)
  have hxW : x < W ^ ((bts + 63) / 64) := Nat.lt_of_lt_of_le hx hle
  have hyW : y < W ^ ((bts + 63) / 64) := Nat.lt_of_lt_of_le hy hle
  have haN : a.natAbs < 2 ^ 36 := by
    rw [Int.abs_eq_natAbs] at ha; exact_mod_cast ha
  have hbN : b.natAbs < 2 ^ 36 := by
    rw [Int.abs_eq_natAbs] at hbb; exact_mod_cast hbb
  -- a product `w * n` with `w < 2^36`, `n < 2^bts` is below `2^(64N - 1)`
  have hprod : ∀ w n : Nat, w < 2 ^ 36 → n < 2 ^ bts → n * w < 2 ^ (bts + 36) := by
    intro w n hw hn
    rw [Nat.pow_add]
    exact Nat.mul_lt_mul_of_lt_of_le hn (Nat.le_of_lt hw) (Nat.pow_pos (by decide))
  have hfit : ∀ w n : Nat, w < 2 ^ 36 → n < 2 ^ bts →
      (bts + 63) / 64 < N ∨ n * w < W ^ ((bts + 63) / 64) := by
    intro w n hw hn
    by_cases hlt : (bts + 63) / 64 < N
    · exact Or.inl hlt
    · right
      have hN : (bts + 63) / 64 = N := by omega
      rw [hN, W_pow]
      exact Nat.lt_of_lt_of_le (hprod w n hw hn) (Nat.pow_le_pow_right (by decide) (by omega))
  obtain ⟨ax, hax⟩ := mulword_total (N := N) (w := a.natAbs) hsz hxW (hfit _ _ haN hx)
  obtain ⟨bY, hby⟩ := mulword_total (N := N) (w := b.natAbs) hsz hyW (hfit _ _ hbN hy)
  unfold dotProduct
  simp only [hax, hby]
  split
  · exact ⟨_, _, rfl⟩
  · have e1 := mulword_some hax hxW
    have e2 := mulword_some hby hyW
    have h1 := hprod _ _ haN hx
    have h2 := hprod _ _ hbN hy
    have hM : 2 ^ (bts + 36) + 2 ^ (bts + 36) ≤ M N := by
      unfold M
      have : 2 ^ (bts + 36) + 2 ^ (bts + 36) = 2 ^ (bts + 37) := by
        have e : 2 ^ (bts + 37) = 2 ^ (bts + 36) * 2 := Nat.pow_succ _ _
        omega
      rw [this]; exact Nat.pow_le_pow_right (by decide) (by omega)
    have hsum : ax + bY < M N := by
      rw [e1, e2, Nat.mul_comm a.natAbs x, Nat.mul_comm b.natAbs y]; omega
    unfold chkU
    rw [if_pos hsum]
    exact ⟨_, _, rfl⟩

/-- the `(x, y)` part of a Lehmer step never panics -/
theorem lehmer_xy_total {N : Nat} {s : St} {xtop ytop : Nat} (hb : bits s.x + 36 < 64 * N)
    (hyx : s.y ≤ s.x) (hxt : xtop < W) (hyt : ytop < W) (h63 : 2 ^ 63 ≤ xtop) (hytx : ytop ≤ xtop)
    (h32 : 2 ^ 32 ≤ ytop) :
    ∃ a b c d r1 n1 r2 n2, reduce64 xtop ytop = some (a, b, c, d) ∧
      |a| < 2 ^ 36 ∧ |b| < 2 ^ 36 ∧ |c| < 2 ^ 36 ∧ |d| < 2 ^ 36 ∧
      dotProduct N ((bits s.x + 63) / 64) a s.x b s.y = some (r1, n1) ∧
      dotProduct N ((bits s.x + 63) / 64) c s.x d s.y = some (r2, n2) := by
  obtain ⟨a, b, c, d, u, v, hr, hinv, _⟩ := reduce64_spec xtop ytop hxt hyt
  have hx := lt_two_pow_bits s.x
  have hy : s.y < 2 ^ bits s.x := Nat.lt_of_le_of_lt hyx hx
  obtain ⟨r1, n1, h1⟩ := dotProduct_total (N := N) hb hx hy hinv.ba hinv.bb
  obtain ⟨r2, n2, h2⟩ := dotProduct_total (N := N) hb hx hy hinv.bc hinv.bd
  exact ⟨a, b, c, d, r1, n1, r2, n2, hr, hinv.ba, hinv.bb, hinv.bc, hinv.bd, h1, h2⟩


/-- the non-extended iteration never panics on values of `BUint<N>` -/
theorem gcdStep_noext_total {N : Nat} {s0 : St} (hx : s0.x < M N) (hy : s0.y < M N) :
    ∃ st, gcdStep N false s0 = some st := by
  obtain ⟨hyx, _, hrange⟩ := swapSt_facts s0
  obtain ⟨hxM, hyM⟩ := hrange (M N) hx hy
  unfold gcdStep
  simp only
  generalize swapSt s0 = s at *
  by_cases hlx : bits s.x = 0
  · rw [if_pos hlx]; exact ⟨_, rfl⟩
  · rw [if_neg hlx]
    by_cases hly : bits s.y = 0
    · rw [if_pos hly]; exact ⟨_, rfl⟩
    · rw [if_neg hly]
      by_cases hsm : bits s.x < 64 ∧ bits s.y < 64
      · rw [if_pos hsm]; exact ⟨_, rfl⟩
      · rw [if_neg hsm]
        have hbm := bits_mono hyx
        have hmax : max (bits s.x) (bits s.y) = bits s.x := Nat.max_eq_left hbm
        rw [hmax]
        have h64 : 64 ≤ bits s.x := by omega
        have hbN : bits s.x ≤ 64 * N := by unfold M at hxM; exact bits_le_of_lt hxM
        obtain ⟨xt, yt, xl, yl, t1, t2, ex, ey, hxl, hyl, hxtW, h63, hytx⟩ :=
          top_facts (N := N) hyx h64 hbN
        rw [t1, t2]
        simp only
        by_cases hc : bits s.x + 36 ≥ N * 64 ∨ bits s.y + 36 ≥ N * 64 ∨ yt < 2 ^ 32
        · rw [if_pos hc]
          simp [fallbackStep]
        · rw [if_neg hc]
          have hb : bits s.x + 36 < 64 * N := by omega
          obtain ⟨a, b, c, d, r1, n1, r2, n2, hr, _, _, _, _, h1, h2⟩ :=
            lehmer_xy_total (N := N) (s := s) hb hyx hxtW (by omega) h63 hytx (by omega)
          simp [lehmerStep, hr, h1, h2]

/-- the non-extended loop returns a value for every pair of `BUint<N>` operands -/
theorem gcdLoop_noext_total {N : Nat} : ∀ (f : Nat) (s : St), s.x < M N → s.y < M N →
    s.x * s.y * 3 ^ f < 4 ^ f → ∃ r, gcdLoop N false (f + 1) s = some r := by
  intro f
  induction f with
  | zero =>
    intro s hx hy hm
    have hm0 : s.x * s.y = 0 := by simpa using hm
    obtain ⟨st, hst⟩ := gcdStep_noext_total hx hy
    unfold gcdLoop
    rw [hst]
    cases st with
    | ret d u v => exact ⟨_, rfl⟩
    | next s' => exact absurd hm0 (gcdStep_zero hst)
  | succ f ih =>
    intro s hx hy hm
    obtain ⟨st, hst⟩ := gcdStep_noext_total hx hy
    rw [gcdLoop, hst]
    cases st with
    | ret d u v => exact ⟨_, rfl⟩
    | next s' =>
      simp only
      obtain ⟨m1, m2, m3⟩ := gcdStep_measure hst hx hy
      refine ih s' m2 m3 ?_
      have e3 : 3 ^ (f + 1) = 3 ^ f * 3 := Nat.pow_succ _ _
      have e4 : 4 ^ (f + 1) = 4 ^ f * 4 := Nat.pow_succ _ _
      rw [e3, e4] at hm
      have : 4 * (s'.x * s'.y) * 3 ^ f ≤ 3 * (s.x * s.y) * 3 ^ f := Nat.mul_le_mul_right _ m1
      have e5 : 3 * (s.x * s.y) * 3 ^ f = s.x * s.y * (3 ^ f * 3) := by ring
      have e6 : 4 * (s'.x * s'.y) * 3 ^ f = 4 * (s'.x * s'.y * 3 ^ f) := by ring
      omega

theorem gcdInternal_noext_total {N : Nat} {n p : Nat} (hn : n < M N) (hp : p < M N) :
    ∃ r, gcdInternal N false n p = some r := by
  unfold gcdInternal
  obtain ⟨r, hr⟩ := gcdLoop_noext_total (N := N) (3 * (bits n + bits p)) (initSt n p) hn hp
    (fuel_arith n p)
  rw [gcdLoop_fuel hn hp _ (gcdFuel_ge hn hp), hr]
  exact ⟨r, rfl⟩


end Ymq.Gcd
