/-
C14 "small", helper lemmas part 2 (Mathlib): words as vectors of `GF(2)^n` (`vec`), matrices
(`toMat`), the echelon lemma (rows whose lowest set bits are distinct and below `i` cannot take part
in a combination that vanishes below `i`), span of the rows under the row operations of the model.
-/
import Ymq.Lemmas.Gf2SmallBasic
import Mathlib.LinearAlgebra.Matrix.Rank
import Mathlib.LinearAlgebra.FiniteDimensional.Lemmas
import Mathlib.Algebra.Field.ZMod

namespace Ymq.Gf2Small
open Matrix Module

/-- an `n`-bit word as a vector of `GF(2)^n` -/
def vec (n w : Nat) : Fin n → ZMod 2 := fun j => if w.testBit j then 1 else 0

/-- a list of `n` words as an `n × n` matrix over `GF(2)`: entry `(i, j)` = bit `j` of row `i` -/
def toMat (n : Nat) (m : Mat) : Matrix (Fin n) (Fin n) (ZMod 2) := fun i => vec n (row m i)

theorem vec_apply (n w : Nat) (j : Fin n) : vec n w j = if w.testBit j then 1 else 0 := rfl

theorem vec_xor (n a b : Nat) : vec n (a ^^^ b) = vec n a + vec n b := by
  funext j
  simp only [vec, Pi.add_apply, Nat.testBit_xor]
  cases a.testBit j <;> cases b.testBit j <;> decide

@[simp] theorem vec_zero (n : Nat) : vec n 0 = 0 := by
  funext j; simp [vec]

theorem vec_eq_one_iff {n w : Nat} {j : Fin n} : vec n w j = 1 ↔ w.testBit j = true := by
  simp only [vec]; cases w.testBit j <;> decide

theorem vec_eq_zero_iff {n w : Nat} {j : Fin n} : vec n w j = 0 ↔ w.testBit j = false := by
  simp only [vec]; cases w.testBit j <;> decide

theorem vec_eq_zero_of_lz {n w : Nat} (h : lz n w = n) : vec n w = 0 := by
  funext j
  exact vec_eq_zero_iff.mpr (lz_eq_n_iff.mp h j j.2)

theorem vec_inj {n a b : Nat} (ha : a < 2 ^ n) (hb : b < 2 ^ n) (h : vec n a = vec n b) : a = b := by
  apply Nat.eq_of_testBit_eq
  intro i
  by_cases hi : i < n
  · have := congrFun h ⟨i, hi⟩
    simp only [vec] at this
    revert this
    cases a.testBit i <;> cases b.testBit i <;> simp
  · rw [Nat.testBit_lt_two_pow (Nat.lt_of_lt_of_le ha (Nat.pow_le_pow_right (by omega) (by omega))),
      Nat.testBit_lt_two_pow (Nat.lt_of_lt_of_le hb (Nat.pow_le_pow_right (by omega) (by omega)))]

theorem vec_shiftLeft_one {n i : Nat} (hi : i < n) : vec n (1 <<< i) = Pi.single (⟨i, hi⟩ : Fin n) 1 := by
  funext j
  simp only [vec, Nat.one_shiftLeft, Nat.testBit_two_pow, Pi.single_apply]
  by_cases h : j = ⟨i, hi⟩
  · subst h; simp
  · have h' : ¬ i = j.1 := fun e => h (Fin.ext e.symm)
    rw [if_neg h]
    simp [h']

/-- Echelon lemma. Among the words `r k` the "pivots" have pairwise distinct lowest set bits, all
below `i`; the other words have no bit below `i`. If a combination of the words has no bit below `i`,
no pivot takes part in it. -/
theorem echelon_coeff_zero {ι : Type} [Fintype ι] [DecidableEq ι] {n i : Nat} (hi : i ≤ n) (r : ι → Nat)
    (piv : ι → Prop)
    (h1 : ∀ k, piv k → lz n (r k) < i)
    (h2 : ∀ k k', piv k → piv k' → lz n (r k) = lz n (r k') → k = k')
    (h3 : ∀ k, ¬ piv k → i ≤ lz n (r k))
    (g : ι → ZMod 2)
    (hv : ∀ j : Fin n, j.1 < i → ∑ k, g k * vec n (r k) j = 0) :
    ∀ k, piv k → g k = 0 := by
  have key : ∀ ℓ, ∀ k, piv k → lz n (r k) = ℓ → g k = 0 := by
    intro ℓ
    induction ℓ using Nat.strong_induction_on with
    | _ ℓ ih =>
      intro k hk hl
      have hli : ℓ < i := hl ▸ h1 k hk
      have hsum := hv ⟨ℓ, by omega⟩ hli
      rw [Finset.sum_eq_single k] at hsum
      · have hb : vec n (r k) ⟨ℓ, by omega⟩ = 1 := by
          apply vec_eq_one_iff.mpr
          have := lz_bit (n := n) (w := r k) (by omega)
          simpa [hl] using this
        rw [hb, mul_one] at hsum
        exact hsum
      · intro k' _ hne
        by_cases hp : piv k'
        · rcases Nat.lt_trichotomy (lz n (r k')) ℓ with hlt | heq | hgt
          · rw [ih _ hlt k' hp rfl, zero_mul]
          · exact absurd (h2 k' k hp hk (heq.trans hl.symm)) hne
          · have : vec n (r k') ⟨ℓ, by omega⟩ = 0 := vec_eq_zero_iff.mpr (lz_below (n := n) hgt)
            rw [this, mul_zero]
        · have hge := h3 k' hp
          have : vec n (r k') ⟨ℓ, by omega⟩ = 0 := vec_eq_zero_iff.mpr (lz_below (n := n) (show ℓ < lz n (r k') by omega))
          rw [this, mul_zero]
      · intro h; exact absurd (Finset.mem_univ k) h
  intro k hk
  exact key _ k hk rfl

/-- words with pairwise distinct lowest set bits (below `n`) are linearly independent -/
theorem linearIndependent_of_lz {ι : Type} [Fintype ι] [DecidableEq ι] {n : Nat} (r : ι → Nat)
    (h1 : ∀ k, lz n (r k) < n) (h2 : ∀ k k', lz n (r k) = lz n (r k') → k = k') :
    LinearIndependent (ZMod 2) (fun k => vec n (r k)) := by
  rw [Fintype.linearIndependent_iff]
  intro g hg k
  refine echelon_coeff_zero (Nat.le_refl n) r (fun _ => True) (fun k _ => h1 k) (fun k k' _ _ => h2 k k')
    (fun k hk => absurd trivial hk) g ?_ k trivial
  intro j _
  have := congrFun hg j
  simpa [Finset.sum_apply, Pi.smul_apply, smul_eq_mul] using this

/-- Pivot existence. If some vector of the span of the words has its lowest non-zero coordinate at `i`,
one of the non-pivot words has its lowest set bit at `i`. -/
theorem exists_lz_eq_of_mem_span {ι : Type} [Fintype ι] [DecidableEq ι] {n i : Nat} (hi : i < n) (r : ι → Nat)
    (piv : ι → Prop)
    (h1 : ∀ k, piv k → lz n (r k) < i)
    (h2 : ∀ k k', piv k → piv k' → lz n (r k) = lz n (r k') → k = k')
    (h3 : ∀ k, ¬ piv k → i ≤ lz n (r k))
    (v : Fin n → ZMod 2) (hv : v ∈ Submodule.span (ZMod 2) (Set.range fun k => vec n (r k)))
    (hlow : ∀ j : Fin n, j.1 < i → v j = 0) (hbit : v ⟨i, hi⟩ = 1) :
    ∃ k, ¬ piv k ∧ lz n (r k) = i := by
  obtain ⟨g, hg⟩ := (Submodule.mem_span_range_iff_exists_fun (ZMod 2)).mp hv
  have hcoord : ∀ j : Fin n, ∑ k, g k * vec n (r k) j = v j := by
    intro j
    have := congrFun hg j
    simpa [Finset.sum_apply, Pi.smul_apply, smul_eq_mul] using this
  have hz := echelon_coeff_zero (Nat.le_of_lt hi) r piv h1 h2 h3 g (fun j hj => by rw [hcoord, hlow j hj])
  classical
  by_contra hno
  have : ∑ k, g k * vec n (r k) ⟨i, hi⟩ = 0 := by
    apply Finset.sum_eq_zero
    intro k _
    by_cases hp : piv k
    · rw [hz k hp, zero_mul]
    · have hge := h3 k hp
      have hne : lz n (r k) ≠ i := fun e => hno ⟨k, hp, e⟩
      have : vec n (r k) ⟨i, hi⟩ = 0 := vec_eq_zero_iff.mpr (lz_below (n := n) (show i < lz n (r k) by omega))
      rw [this, mul_zero]
  rw [hcoord, hbit] at this
  exact absurd this (by decide)

/-! ### span of the rows under the row operations -/

/-- the span of the first `n` words of a sequence -/
def spanOf (n : Nat) (r : Nat → Nat) : Submodule (ZMod 2) (Fin n → ZMod 2) :=
  Submodule.span (ZMod 2) (Set.range fun k : Fin n => vec n (r k))

theorem mem_spanOf {n : Nat} (r : Nat → Nat) {k : Nat} (hk : k < n) : vec n (r k) ∈ spanOf n r :=
  Submodule.subset_span ⟨⟨k, hk⟩, rfl⟩

theorem spanOf_le {n : Nat} {r : Nat → Nat} {p : Submodule (ZMod 2) (Fin n → ZMod 2)}
    (h : ∀ k, k < n → vec n (r k) ∈ p) : spanOf n r ≤ p := by
  apply Submodule.span_le.mpr
  rintro _ ⟨k, rfl⟩
  exact h k k.2

/-- exchanging two rows does not change the span -/
theorem spanOf_swap {n : Nat} (r r' : Nat → Nat) {a b : Nat} (ha : a < n) (hb : b < n)
    (h : ∀ k, k < n → r' k = if k = b then r a else if k = a then r b else r k) :
    spanOf n r' = spanOf n r := by
  apply le_antisymm
  · apply spanOf_le
    intro k hk
    rw [h k hk]
    split
    · exact mem_spanOf r ha
    · split
      · exact mem_spanOf r hb
      · exact mem_spanOf r hk
  · apply spanOf_le
    intro k hk
    by_cases h1 : k = a
    · subst h1
      have := mem_spanOf r' hb
      rwa [h b hb, if_pos rfl] at this
    · by_cases h2 : k = b
      · subst h2
        have := mem_spanOf r' ha
        rw [h a ha] at this
        by_cases hab : a = k
        · subst hab; simpa using this
        · simpa [hab] using this
      · have := mem_spanOf r' hk
        rwa [h k hk, if_neg h2, if_neg h1] at this

/-- adding row `p` to other rows does not change the span -/
theorem spanOf_xor {n : Nat} (r r' : Nat → Nat) {p : Nat} (hp : p < n) (c : Nat → Prop) [DecidablePred c]
    (hc : ¬ c p) (h : ∀ k, k < n → r' k = if c k then r k ^^^ r p else r k) :
    spanOf n r' = spanOf n r := by
  have hpp : r' p = r p := by rw [h p hp, if_neg hc]
  apply le_antisymm
  · apply spanOf_le
    intro k hk
    rw [h k hk]
    split
    · rw [vec_xor]; exact Submodule.add_mem _ (mem_spanOf r hk) (mem_spanOf r hp)
    · exact mem_spanOf r hk
  · apply spanOf_le
    intro k hk
    by_cases hck : c k
    · have h1 := mem_spanOf r' hk
      have h2 := mem_spanOf r' hp
      rw [h k hk, if_pos hck, vec_xor] at h1
      rw [hpp] at h2
      have := Submodule.add_mem _ h1 h2
      rwa [add_assoc, ← two_smul (ZMod 2), show (2 : ZMod 2) = 0 from by decide, zero_smul, add_zero] at this
    · have := mem_spanOf r' hk
      rwa [h k hk, if_neg hck] at this

end Ymq.Gf2Small
