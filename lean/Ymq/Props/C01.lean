/-
C01 — a returned factorization always multiplies back to the input.
Only property theorems live here (helper lemmas: Ymq/Lemmas/Factor*.lean).
-/
import Ymq.Lemmas.FactorBasic

namespace Ymq.C01
open Ymq.Factor

variable {σ : Type}

/-- For ANY behaviour of the sub-algorithms (arbitrary stateful oracle, any fuel, any selector):
a returned list is sorted, its product is `n` modulo the 1024-bit word size of `Uint`
(hence exactly `n` whenever the true product stays below 2^1024), `0 ↦ [0]`, and a list
returned for `n ≥ 1` contains no `0`. -/
theorem factor_sound (o : Oracle σ) (fuel n : Nat) (alg : Algo) (os : σ) (l : List Nat)
    (hn : n < U) (h : factor o fuel n alg os = .ok l) :
    l.prod % U = n ∧ l.Pairwise (· ≤ ·) ∧ (n = 0 → l = [0]) ∧ (1 ≤ n → 0 ∉ l) := by
  unfold factor at h
  by_cases h0 : n = 0
  · subst h0
    simp only [if_true] at h
    injection h with h; subst h
    exact ⟨by simp, by simp, fun _ => rfl, fun h => by omega⟩
  · simp only [h0, if_false] at h
    split at h
    · exact absurd h (by simp)
    split at h <;> try (exact absurd h (by simp))
    rename_i s _
    have key : ∀ fs : List Nat, checkProduct n fs = Out.ok l →
        l.prod % U = n ∧ l.Pairwise (· ≤ ·) ∧ (n = 0 → l = [0]) ∧ (1 ≤ n → 0 ∉ l) := by
      intro fs hfs
      unfold checkProduct at hfs
      split at hfs
      · exact absurd hfs (by simp)
      · rename_i hp
        injection hfs with hfs; subst hfs
        have hp' : n % U = fs.prod % U := by simpa using hp
        have hnU : n % U = n := Nat.mod_eq_of_lt hn
        refine ⟨by rw [sortNat_prod, ← hp', hnU], sortNat_sorted fs, fun h => absurd h h0, ?_⟩
        intro _ hmem
        have : (sortNat fs).prod = 0 := prod_zero_of_mem _ hmem
        rw [sortNat_prod] at this
        rw [this, hnU] at hp'
        simp at hp'; exact h0 hp'
    unfold checkFactors at h
    split at h
    · split at h
      · exact absurd h (by simp)
      · split at h
        · exact absurd h (by simp)
        · exact key _ h
    · exact key _ h

end Ymq.C01
