/-
Lemmas about the 64-bit addition-chain builder `mk64Loop` (Model/Chain.lean).
-/
import Ymq.Model.Chain
import Mathlib.Tactic.Ring
import Mathlib.Tactic.Linarith

namespace Ymq.Chain

theorem tzAux_spec : ∀ f n, 0 < n → n < 2 ^ f →
    ∃ m, n = 2 ^ tzAux f n * m ∧ m % 2 = 1 ∧ tzAux f n < f := by
  intro f
  induction f with
  | zero => intro n h0 h1; simp at h1; omega
  | succ f ih =>
    intro n h0 h1
    unfold tzAux
    by_cases hodd : n % 2 = 1
    · simp only [hodd, if_true]
      exact ⟨n, by simp, hodd, by omega⟩
    · simp only [hodd, if_false]
      have h2 : n / 2 < 2 ^ f := by
        rw [Nat.pow_succ] at h1; omega
      obtain ⟨m, hm, hmo, hlt⟩ := ih (n / 2) (by omega) h2
      refine ⟨m, ?_, hmo, by omega⟩
      have : n = 2 * (n / 2) := by omega
      rw [Nat.pow_add, Nat.pow_one]
      calc n = 2 * (n / 2) := this
        _ = 2 * (2 ^ tzAux f (n / 2) * m) := by rw [← hm]
        _ = 2 ^ 1 * 2 ^ tzAux f (n / 2) * m := by ring

theorem asI8_small (x : Nat) (h : x < 128) : asI8 x = (x : Int) := by
  unfold asI8
  have : x % 256 = x := by omega
  simp [this, h]

theorem i8_small (v : Int) (h1 : -128 ≤ v) (h2 : v ≤ 127) : i8 v = some v := by
  unfold i8; simp [h1, h2]

theorem WF_ne_nil {m c} (h : WF m c) : c ≠ [] := by
  intro h0; subst h0; exact h

theorem evalChain_cons {c : List Int} (op : Int) (h : c ≠ []) :
    evalChain (op :: c) =
      if op % 2 = 0 then 2 ^ (op / 2).toNat * evalChain c else 2 * evalChain c + op := by
  cases c with
  | nil => exact absurd rfl h
  | cons a r => rfl

theorem WF_cons {m : Int} {c : List Int} (op : Int) (h : c ≠ []) :
    WF m (op :: c) ↔ OpOk m op ∧ WF m c := by
  cases c with
  | nil => exact absurd rfl h
  | cons a r => exact Iff.rfl

theorem W_eq : W = 2 ^ 64 := by decide

/-- one even opcode: strips the trailing zeros -/
theorem mk64_even (cap f l kk : Nat) (h0 : 0 < kk) (hW : kk < W) (he : kk % 2 = 0) (hl : l < cap) :
    ∃ t m : Nat, 1 ≤ t ∧ t < 64 ∧ kk = 2 ^ t * m ∧ m % 2 = 1 ∧
      mk64Loop cap (f + 1) l kk =
        (mk64Loop cap f (l + 1) m).bind (fun r => some ((2 * (t : Int)) :: r)) := by
  obtain ⟨m, hm, hmo, hlt⟩ := tzAux_spec 64 kk h0 (by rw [← W_eq]; exact hW)
  have htz : tz64 kk = tzAux 64 kk := by unfold tz64; simp; omega
  refine ⟨tzAux 64 kk, m, ?_, hlt, hm, hmo, ?_⟩
  · by_contra hc
    have : tzAux 64 kk = 0 := by omega
    rw [this] at hm; simp at hm; omega
  · have hdiv : kk / 2 ^ tzAux 64 kk = m :=
      Nat.div_eq_of_eq_mul_right (Nat.pow_pos (by decide : 0 < 2)) hm
    have hi8 : i8 (2 * asI8 (tzAux 64 kk)) = some (2 * (tzAux 64 kk : Int)) := by
      rw [asI8_small _ (by omega)]
      exact i8_small _ (by omega) (by omega)
    have h1 : ¬ (l ≥ cap) := by omega
    have h2 : ¬ (tzAux 64 kk ≥ 64) := by omega
    rw [mk64Loop]
    simp only [he, if_true, htz, hdiv, hi8, h1, h2, if_false]
    simp

/-- even step followed by whatever the rest produces: evaluation, length, well-formedness -/
theorem even_then {m7 : Int} (t : Nat) (mm : Nat) (c : List Int) (ht1 : 1 ≤ t) (ht : t < 64)
    (hc : WF m7 c) (hev : evalChain c = (mm : Int)) :
    evalChain ((2 * (t : Int)) :: c) = ((2 ^ t * mm : Nat) : Int) ∧ WF m7 ((2 * (t : Int)) :: c) := by
  have hne := WF_ne_nil hc
  constructor
  · rw [evalChain_cons _ hne]
    have h1 : (2 * (t : Int)) % 2 = 0 := by omega
    have h2 : (2 * (t : Int) / 2).toNat = t := by omega
    simp only [h1, if_true, h2, hev]
    push_cast; ring
  · rw [WF_cons _ hne]
    refine ⟨Or.inr ⟨by omega, by omega, by omega⟩, hc⟩

/-- Odd `kk < 8·16^j` is encoded with at most `2j+1` opcodes (2 opcodes per hex digit, 1 for the
top digit when it is at most 7). -/
theorem mk64_odd (cap : Nat) : ∀ j f l kk, kk % 2 = 1 → kk < 8 * 16 ^ j → kk < W →
    l + (2 * j + 1) ≤ cap → 2 * j + 1 ≤ f →
    ∃ c, mk64Loop cap f l kk = some c ∧ evalChain c = (kk : Int) ∧ c.length ≤ 2 * j + 1 ∧ WF 7 c := by
  intro j
  induction j with
  | zero =>
    intro f l kk hodd hlt hW hcap hf
    obtain ⟨f, rfl⟩ : ∃ f', f = f' + 1 := ⟨f - 1, by omega⟩
    have h1 : ¬ (kk % 2 = 0) := by omega
    have h2 : kk ≤ 7 := by omega
    have h3 : ¬ (l ≥ cap) := by omega
    rw [mk64Loop]
    simp only [h1, h2, h3, if_true, if_false]
    refine ⟨_, rfl, ?_, by simp, ?_⟩
    · rw [asI8_small _ (by omega)]; unfold evalChain; omega
    · rw [asI8_small _ (by omega)]; exact ⟨by omega, by omega, by omega⟩
  | succ j ih =>
    intro f l kk hodd hlt hW hcap hf
    by_cases hsmall : kk ≤ 7
    · obtain ⟨f, rfl⟩ : ∃ f', f = f' + 1 := ⟨f - 1, by omega⟩
      have h1 : ¬ (kk % 2 = 0) := by omega
      have h3 : ¬ (l ≥ cap) := by omega
      rw [mk64Loop]
      simp only [h1, hsmall, h3, if_true, if_false]
      refine ⟨_, rfl, ?_, by simp, ?_⟩
      · rw [asI8_small _ (by omega)]; unfold evalChain; omega
      · rw [asI8_small _ (by omega)]; exact ⟨by omega, by omega, by omega⟩
    · obtain ⟨f, rfl⟩ : ∃ f', f = f' + 2 := ⟨f - 2, by omega⟩
      have h1 : ¬ (kk % 2 = 0) := by omega
      have h3 : ¬ (l ≥ cap) := by omega
      have h16 : 8 * 16 ^ (j + 1) = 16 * (8 * 16 ^ j) := by rw [Nat.pow_succ]; ring
      generalize hX : 8 * 16 ^ j = X at ih h16
      rw [h16] at hlt
      by_cases hr : kk % 16 < 8
      · -- opcode r, then kk ← (kk - r) / 2 = 8 (kk / 16)
        have hk1 : (kk - kk % 16) / 2 = 8 * (kk / 16) := by omega
        obtain ⟨t, m, ht1, ht, hm, hmo, hstep⟩ :=
          mk64_even cap f (l + 1) (8 * (kk / 16)) (by omega) (by omega) (by omega) (by omega)
        -- 2^t m = 8 q with m odd: t ≥ 3 and m ≤ q
        have hmq : m ≤ kk / 16 := by
          have ht3 : 3 ≤ t := by
            by_contra hc
            have : t = 1 ∨ t = 2 := by omega
            rcases this with h | h <;> subst h <;> omega
          obtain ⟨s, rfl⟩ : ∃ s, t = 3 + s := ⟨t - 3, by omega⟩
          rw [Nat.pow_add] at hm
          have : kk / 16 = 2 ^ s * m := by
            have : 8 * (kk / 16) = 8 * (2 ^ s * m) := by rw [hm]; ring
            omega
          rw [this]
          exact Nat.le_mul_of_pos_left m (Nat.pow_pos (by decide : 0 < 2))
        obtain ⟨c, hc, hev, hlen, hwf⟩ := ih f (l + 2) m hmo (by omega) (by omega) (by omega) (by omega)
        obtain ⟨hev2, hwf2⟩ := even_then (m7 := 7) t m c ht1 ht hwf hev
        rw [mk64Loop]
        simp only [h1, hsmall, hr, h3, if_true, if_false, hk1, hstep, hc]
        refine ⟨_, rfl, ?_, ?_, ?_⟩
        · rw [evalChain_cons _ (by simp), hev2, ← hm, asI8_small _ (by omega)]
          have : ((kk % 16 : Nat) : Int) % 2 ≠ 0 := by omega
          simp only [this, if_false]
          push_cast; omega
        · simp; omega
        · rw [WF_cons _ (by simp), asI8_small _ (by omega)]
          exact ⟨Or.inl ⟨by omega, by omega, by omega⟩, hwf2⟩
      · -- opcode -(16 - r), then kk ← (kk + 16 - r) / 2 = 8 (kk / 16 + 1)
        have hk1 : kk / 2 + (16 - kk % 16) / 2 + 1 = 8 * (kk / 16 + 1) := by omega
        have h4 : ¬ (8 * (kk / 16 + 1) ≥ W) := by unfold W at *; omega
        obtain ⟨t, m, ht1, ht, hm, hmo, hstep⟩ :=
          mk64_even cap f (l + 1) (8 * (kk / 16 + 1)) (by omega) (by omega) (by omega) (by omega)
        have hmq : m ≤ kk / 16 + 1 := by
          have ht3 : 3 ≤ t := by
            by_contra hc
            have : t = 1 ∨ t = 2 := by omega
            rcases this with h | h <;> subst h <;> omega
          obtain ⟨s, rfl⟩ : ∃ s, t = 3 + s := ⟨t - 3, by omega⟩
          rw [Nat.pow_add] at hm
          have : kk / 16 + 1 = 2 ^ s * m := by
            have : 8 * (kk / 16 + 1) = 8 * (2 ^ s * m) := by rw [hm]; ring
            omega
          rw [this]
          exact Nat.le_mul_of_pos_left m (Nat.pow_pos (by decide : 0 < 2))
        have hXe : X % 2 = 0 := by rw [← hX]; omega
        obtain ⟨c, hc, hev, hlen, hwf⟩ :=
          ih f (l + 2) m hmo (by omega) (by unfold W at *; omega) (by omega) (by omega)
        obtain ⟨hev2, hwf2⟩ := even_then (m7 := 7) t m c ht1 ht hwf hev
        have hi8 : i8 (-(asI8 (16 - kk % 16))) = some (-((16 - kk % 16 : Nat) : Int)) := by
          rw [asI8_small _ (by omega)]
          exact i8_small _ (by omega) (by omega)
        rw [mk64Loop]
        simp only [h1, hsmall, hr, h3, if_false, hk1, h4, hstep, hc, hi8]
        refine ⟨_, rfl, ?_, ?_, ?_⟩
        · rw [evalChain_cons _ (by simp), hev2, ← hm]
          have : (-((16 - kk % 16 : Nat) : Int)) % 2 ≠ 0 := by omega
          simp only [this, if_false]
          push_cast; omega
        · simp; omega
        · rw [WF_cons _ (by simp)]
          exact ⟨Or.inl ⟨by omega, by omega, by omega⟩, hwf2⟩

end Ymq.Chain
