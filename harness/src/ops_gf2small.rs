//! The 64x64 core of matrix/gf2.rs (C14 "small"): SmallMat::{identity, symmetric, transpose, mask,
//! submatrix, rank, reverse, rank_reverse, pseudoinverse, inverse}, lz, reverse_lane, the product
//! &SmallMat * &SmallMat, the call-site sequence of kernel_lanczos (rank / rank_reverse, mask,
//! pseudoinverse, debug_assert on the rank) and genblock with the drawn blocks recorded by a hook.
//!
//! Formats: a SmallMat is 64 comma separated hexadecimal words (row 0 first); a lane is one
//! hexadecimal word. Every op is accepted under the prefixes `sm_` and `smr_` (the Lean driver answers
//! `sm_` with the model of the checked profile and `smr_` with the model of the release profile).
use yamaquasi::matrix::gf2::{self, verif_hooks as vh, verif_hooks_small as vs, SmallMat, SparseMat};

fn lane_of(s: &str) -> Option<u64> {
    if s.is_empty() || !s.chars().all(|c| c.is_ascii_digit() || ('a'..='f').contains(&c)) {
        return None;
    }
    u64::from_str_radix(s, 16).ok()
}

fn mat_of(s: &str) -> Option<SmallMat> {
    let ws: Option<Vec<u64>> = s.split(',').map(lane_of).collect();
    let ws = ws?;
    let arr: [u64; 64] = ws.try_into().ok()?;
    Some(vh::smallmat_from_words(arr))
}

fn show_words(w: &[u64]) -> String {
    if w.is_empty() {
        "-".to_string()
    } else {
        w.iter().map(|x| format!("{:x}", x)).collect::<Vec<_>>().join(",")
    }
}

fn show_mat(m: &SmallMat) -> String {
    show_words(&vh::smallmat_words(m))
}

fn show_vec(v: &bitvec_simd::BitVec) -> String {
    // hexadecimal integer, bit i = v[i] (as ops_gf2.rs)
    let n = v.len();
    let mut digits = Vec::with_capacity(n / 4 + 1);
    let mut i = 0;
    while i < n {
        let mut d = 0u32;
        for k in 0..4 {
            if i + k < n && v.get_unchecked(i + k) {
                d |= 1 << k;
            }
        }
        digits.push(std::char::from_digit(d, 16).unwrap());
        i += 4;
    }
    while digits.len() > 1 && *digits.last().unwrap() == '0' {
        digits.pop();
    }
    if digits.is_empty() {
        digits.push('0');
    }
    digits.iter().rev().collect()
}

fn sparse_of(ncols: usize, s: &str) -> Option<Vec<Vec<usize>>> {
    if ncols == 0 {
        return if s == "-" { Some(vec![]) } else { None };
    }
    let cols: Option<Vec<Vec<usize>>> = s
        .split(';')
        .map(|c| if c == "-" { Some(vec![]) } else { c.split(',').map(|x| x.parse().ok()).collect() })
        .collect();
    let cols = cols?;
    if cols.len() != ncols {
        return None;
    }
    Some(cols)
}

pub fn handle(op: &str, a: &[&str]) -> Option<String> {
    let o = if let Some(o) = op.strip_prefix("sm_") {
        o
    } else if let Some(o) = op.strip_prefix("smr_") {
        o
    } else {
        return None;
    };
    match (o, a) {
        ("lz", [w]) => Some(vs::lane_lz(lane_of(w)?).to_string()),
        ("revlane", [w]) => Some(format!("{:x}", vs::lane_reverse(lane_of(w)?))),
        ("identity", []) => Some(show_mat(&vs::smallmat_identity())),
        ("symmetric", [m]) => Some(vs::smallmat_symmetric(&mat_of(m)?).to_string()),
        ("transpose", [m]) => Some(show_mat(&vh::smallmat_transpose(&mat_of(m)?))),
        ("reverse", [m]) => Some(show_mat(&vs::smallmat_reverse(&mat_of(m)?))),
        ("mask", [m, k]) => Some(show_mat(&vh::smallmat_mask(&mat_of(m)?, lane_of(k)?))),
        ("submatrix", [m]) => Some(show_mat(&mat_of(m)?.submatrix())),
        ("rank", [m]) => {
            let (rk, mask) = mat_of(m)?.rank();
            Some(format!("{} {:x}", rk, mask))
        }
        ("rank_reverse", [m]) => {
            let (rk, mask) = vh::smallmat_rank_reverse(&mat_of(m)?);
            Some(format!("{} {:x}", rk, mask))
        }
        ("pinv", [m]) => Some(show_mat(&vh::smallmat_pseudoinverse(&mat_of(m)?))),
        ("inverse", [m]) => Some(match mat_of(m)?.inverse() {
            None => "none".to_string(),
            Some(w) => show_mat(&w),
        }),
        ("mul", [x, y]) => {
            let (x, y) = (mat_of(x)?, mat_of(y)?);
            Some(show_mat(&(&x * &y)))
        }
        ("pipeline", [m, dir]) => {
            // kernel_lanczos lines 203-239 on a given Gram matrix
            let gram = mat_of(m)?;
            let (rk, mask) = match *dir {
                "fwd" => gram.rank(),
                "rev" => vh::smallmat_rank_reverse(&gram),
                _ => return None,
            };
            let ginv = vh::smallmat_pseudoinverse(&vh::smallmat_mask(&gram, mask));
            debug_assert!(ginv.rank() == (rk, mask));
            Some(format!("{} {:x} {}", rk, mask, show_mat(&ginv)))
        }
        ("genblock", [nrows, ncols, data, limit]) => {
            // answer: `ok <Y1;...;Yk>` (Yk returned by genblock) | `limit <Y1;...;Yk>` (k = limit blocks drawn and refused)
            let cols = sparse_of(ncols.parse().ok()?, data)?;
            let mat = SparseMat { k: nrows.parse().ok()?, cols };
            let limit: usize = limit.parse().ok()?;
            let opt = gf2::qs_optimize(&mat);
            vs::genblock_start(limit);
            let r = std::panic::catch_unwind(std::panic::AssertUnwindSafe(|| gf2::genblock(&opt)));
            let ys = vs::genblock_take();
            let shown = ys.iter().map(|y| show_words(y)).collect::<Vec<_>>().join(";");
            match r {
                Ok(y) => {
                    if ys.last().map(|l| &l[..]) != Some(vh::block_words(&y)) {
                        return Some("inconsistent-record".to_string());
                    }
                    Some(format!("ok {}", shown))
                }
                Err(e) => {
                    let by_limit = e.downcast_ref::<&str>().map_or(false, |m| m.starts_with("verif: genblock limit"));
                    if by_limit && limit > 0 && ys.len() == limit {
                        Some(format!("limit {}", shown))
                    } else {
                        Some("panic".to_string())
                    }
                }
            }
        }
        ("lanczos", [nrows, ncols, data]) => {
            // answer: `<Y0> <mask/W/Y|...|final Y>#<returned basis>` (Y0 = the block returned by genblock), or `panic <Y0>`
            let cols = sparse_of(ncols.parse().ok()?, data)?;
            let mat = SparseMat { k: nrows.parse().ok()?, cols };
            vs::genblock_start(0);
            let _ = vs::lanczos_iters_take();
            let _ = vh::take_y();
            let r = std::panic::catch_unwind(std::panic::AssertUnwindSafe(|| {
                gf2::kernel_lanczos(&mat, yamaquasi::Verbosity::Silent)
            }));
            let ys = vs::genblock_take();
            let y0 = match ys.last() {
                Some(y) => show_words(y),
                None => return Some("panic".to_string()),
            };
            let iters = vs::lanczos_iters_take();
            let yfin = vh::take_y();
            match (r, yfin) {
                (Ok(ker), Some(yf)) => {
                    let mut parts: Vec<String> = iters
                        .iter()
                        .map(|(m, w, y)| format!("{:x}/{}/{}", m, show_words(w), show_words(y)))
                        .collect();
                    parts.push(show_words(&yf));
                    let basis = if ker.is_empty() {
                        "-".to_string()
                    } else {
                        ker.iter().map(show_vec).collect::<Vec<_>>().join(",")
                    };
                    Some(format!("{} {}#{}", y0, parts.join("|"), basis))
                }
                _ => Some(format!("panic {}", y0)),
            }
        }
        _ => None,
    }
}
