import Ymq.Props.C13
#print axioms Ymq.C13.cursor_inv
#print axioms Ymq.C13.small_recovery
#print axioms Ymq.C13.table_recovery
#print axioms Ymq.C13.large_table_recovery
#print axioms Ymq.C13.recycled_clean
#print axioms Ymq.C13.listed_complete_inv
#print axioms Ymq.C13.listed_complete
#print axioms Ymq.C13.listed_complete_rehash
#print axioms Ymq.C13.no_panic
#print axioms Ymq.C13.cofactor_spec
