import Ymq.Props.C08
#print axioms Ymq.C08.new_no_panic
#print axioms Ymq.C08.new_domain
#print axioms Ymq.C08.recip_key
#print axioms Ymq.C08.recip16_key
#print axioms Ymq.C08.divmod64_spec
#print axioms Ymq.C08.modu63_spec
#print axioms Ymq.C08.modu16_spec
#print axioms Ymq.C08.modi64_spec
#print axioms Ymq.C08.mod_u128_spec
