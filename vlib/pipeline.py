"""Common verdict pipeline (DESIGN.md section 2) shared by every property.

A property module (props/cXX.py) provides:
  PID            "C07"
  GEN            list of translator module names to regenerate (translate/<name>.py), may be []
  LEAN           list of lake targets to build (Props + whatever they import)
  AUDIT          path (relative to lean/) of the Audit file whose `#print axioms` output is parsed
  HYPOTHESES     list of named hypotheses (strings) that theorems take as explicit premises
  PROFILES       harness profiles to run: subset of ["release", "chk"]
  cases(tier, rng, extended=False) -> iterator of Case
  oracle(case, answer) -> None if the implementation answer meets the property's spec, else message
  klass(case, answer) -> short label for the input distribution
  finding_key(case, answer, profile) -> str|None : stable key of a failing case for known_findings.json
  MODELLED / UNMODELLED : lists of strings for the evidence trusted base
"""
import json, os, re, subprocess, sys, time, random, select, threading, hashlib, shutil

ROOT = os.path.dirname(os.path.dirname(os.path.abspath(__file__)))
LEAN_DIR = os.path.join(ROOT, "lean")
HARNESS_DIR = os.path.join(ROOT, "harness")
EVID_DIR = os.path.join(ROOT, "evidence")
REPLAY_DIR = os.path.join(ROOT, "replay")
REPO = "/repo"
ALLOWED_AXIOMS = {"propext", "Classical.choice", "Quot.sound"}
FORBIDDEN = re.compile(r"\b(sorry|admit|native_decide|bv_decide|implemented_by|unsafe)\b|^\s*axiom\s|maxHeartbeats\s+0\b")

ENV = dict(os.environ, CARGO_NET_OFFLINE="true")


class Case:
    """One request line. flags: 'K' compare with the Lean model, 'O' run the spec oracle."""
    __slots__ = ("line", "k", "o", "tag", "profiles", "timeout")

    def __init__(self, line, k=True, o=True, tag="", profiles=None, timeout=None):
        self.line = line
        self.k = k
        self.o = o
        self.tag = tag
        self.profiles = profiles
        self.timeout = timeout

    @property
    def op(self):
        return self.line.split(" ", 1)[0]

    @property
    def args(self):
        return self.line.split(" ")[1:]


def sh(cmd, cwd=None, timeout=None, env=None):
    t = time.time()
    p = subprocess.run(cmd, cwd=cwd, shell=isinstance(cmd, str), stdout=subprocess.PIPE,
                       stderr=subprocess.STDOUT, text=True, timeout=timeout, env=env or ENV)
    return p.returncode, p.stdout, time.time() - t


# ---------------------------------------------------------------- line servers

MAX_HANGS = 30


class Server:
    """A line server (harness or Lean driver). ask() answers every line; a request that
    does not answer within its timeout yields 'hang', a dead process yields 'abort'."""

    def __init__(self, cmd, cwd=None, default_timeout=20.0):
        self.cmd = cmd
        self.cwd = cwd
        self.default_timeout = default_timeout
        self.restarts = 0

    def ask(self, lines, timeouts=None):
        answers = []
        i = 0
        n = len(lines)
        while i < n:
            chunk = lines[i:]
            touts = timeouts[i:] if timeouts else None
            got, status = self._run(chunk, touts)
            answers.extend(got)
            i += len(got)
            if status == "done":
                break
            answers.append(status)  # 'hang' or 'abort' for line i
            i += 1
            self.restarts += 1
            # a build in which dozens of requests hang is broken beyond doubt: do not spend a watchdog period on each of
            # the remaining requests (never reached on the unchanged tree: deliberate hang cases are a handful per check)
            if answers.count("hang") >= MAX_HANGS:
                answers.extend(["hang"] * (n - i))
                break
        return answers

    def _run(self, lines, touts):
        p = subprocess.Popen(self.cmd, cwd=self.cwd, stdin=subprocess.PIPE, stdout=subprocess.PIPE,
                             stderr=subprocess.DEVNULL, env=ENV, bufsize=0)
        data = ("\n".join(lines) + "\n").encode()

        def feed():
            try:
                p.stdin.write(data)
                p.stdin.close()
            except Exception:
                pass
        th = threading.Thread(target=feed, daemon=True)
        th.start()
        got = []
        buf = b""
        fd = p.stdout.fileno()
        status = "done"
        deadline = time.time() + (touts[0] if touts and touts[0] else self.default_timeout)
        while len(got) < len(lines):
            rem = deadline - time.time()
            if rem <= 0:
                status = "hang"
                break
            r, _, _ = select.select([fd], [], [], min(rem, 1.0))
            if not r:
                continue
            chunk = os.read(fd, 1 << 16)
            if not chunk:
                status = "abort"
                break
            buf += chunk
            if b"\n" in buf:
                parts = buf.split(b"\n")
                buf = parts[-1]
                for s in parts[:-1]:
                    got.append(s.decode().strip())
                k = len(got)
                if k < len(lines):
                    deadline = time.time() + (touts[k] if touts and touts[k] else self.default_timeout)
        try:
            p.kill()
        except Exception:
            pass
        p.wait()
        return got[:len(lines)], status


# ---------------------------------------------------------------- build steps

def regenerate(gens, log):
    """Run the translators; returns list of (name, ok, message)."""
    res = []
    for g in gens:
        rc, out, dt = sh([sys.executable, os.path.join(ROOT, "translate", g + ".py")], cwd=ROOT, timeout=300)
        log.append(f"[gen {g}] rc={rc} {dt:.1f}s\n{out[-2000:]}")
        res.append((g, rc == 0, out.strip().splitlines()[-1] if out.strip() else ""))
    return res


def lake_build(targets, log, timeout=3000):
    rc, out, dt = sh(["lake", "build"] + targets, cwd=LEAN_DIR, timeout=timeout)
    log.append(f"[lake build {' '.join(targets)}] rc={rc} {dt:.1f}s\n{out[-6000:]}")
    failed = re.findall(r"^(?:✖|error:).*$", out, flags=re.M)
    return rc == 0, out, failed


def strip_comments(src):
    # remove /- ... -/ (nested) and -- comments
    out = []
    depth = 0
    i = 0
    while i < len(src):
        if src.startswith("/-", i):
            depth += 1
            i += 2
        elif depth and src.startswith("-/", i):
            depth -= 1
            i += 2
        elif depth:
            if src[i] == "\n":
                out.append("\n")
            i += 1
        elif src.startswith("--", i):
            while i < len(src) and src[i] != "\n":
                i += 1
        else:
            out.append(src[i])
            i += 1
    return "".join(out)


def lean_sources_of(targets):
    """Transitive local (Ymq.*) imports of the given module names."""
    seen, todo = set(), list(targets)
    while todo:
        m = todo.pop()
        if m in seen or not m.startswith("Ymq"):
            continue
        path = os.path.join(LEAN_DIR, m.replace(".", "/") + ".lean")
        if not os.path.exists(path):
            continue
        seen.add(m)
        for imp in re.findall(r"^\s*(?:public\s+)?import\s+(\S+)", open(path).read(), flags=re.M):
            todo.append(imp)
    return sorted(seen)


def source_audit(mods):
    hits = []
    for m in mods:
        path = os.path.join(LEAN_DIR, m.replace(".", "/") + ".lean")
        for ln, line in enumerate(strip_comments(open(path).read()).splitlines(), 1):
            if FORBIDDEN.search(line):
                hits.append(f"{m}:{ln}: {line.strip()[:120]}")
    return hits


def axiom_audit(audit_mod, log):
    """Runs the Audit file; returns dict theorem -> list of axioms (None when lean failed)."""
    path = audit_mod.replace(".", "/") + ".lean"
    rc, out, dt = sh(["lake", "env", "lean", path], cwd=LEAN_DIR, timeout=1200)
    log.append(f"[audit {audit_mod}] rc={rc} {dt:.1f}s\n{out[-4000:]}")
    res = {}
    flat = re.sub(r"\n\s+", " ", out)
    for m in re.finditer(r"'([^']+)' depends on axioms: \[([^\]]*)\]", flat):
        res[m.group(1)] = [a.strip() for a in m.group(2).split(",") if a.strip()]
    for m in re.finditer(r"'([^']+)' does not depend on any axioms", flat):
        res[m.group(1)] = []
    return (rc == 0), res, out


def cargo_build(profile, log):
    args = ["cargo", "build", "--profile", profile] if profile != "release" else ["cargo", "build", "--release"]
    rc, out, dt = sh(args, cwd=HARNESS_DIR, timeout=3000)
    log.append(f"[cargo build {profile}] rc={rc} {dt:.1f}s\n{out[-3000:]}")
    return rc == 0, out


def harness_bin(profile):
    return os.path.join(os.environ.get("CARGO_TARGET_DIR", os.path.join(HARNESS_DIR, "target")), profile, "ymqh")


def driver_bin():
    return os.path.join(LEAN_DIR, ".lake", "build", "bin", "ymqdrv")


# ---------------------------------------------------------------- known findings

def load_findings(pid):
    path = os.path.join(ROOT, "known_findings.json")
    if not os.path.exists(path):
        return {}, []
    data = json.load(open(path))
    listed = {e["key"]: e for e in data.get("findings", []) if e["property"] == pid}
    fixed = [e for e in data.get("fixed", []) if e["property"] == pid]
    return listed, fixed


# ---------------------------------------------------------------- main driver

def run_property(mod, tier, seed, replay=None):
    t0 = time.time()
    pid = mod.PID
    log = []
    os.makedirs(EVID_DIR, exist_ok=True)
    os.makedirs(os.path.join(REPLAY_DIR, pid), exist_ok=True)
    for fn in (f"fail-{seed}.txt", f"unproved-{seed}.txt"):
        try:
            os.remove(os.path.join(REPLAY_DIR, pid, fn))
        except OSError:
            pass
    broken = []      # broken proof obligations / ties (strings)
    listed, fixed = load_findings(pid)

    # 0. the build that is checked (with --cfg yamaquasi_verif) must be the shipped program plus observers
    rc, out, dt = sh([sys.executable, os.path.join(ROOT, "vlib", "hook_audit.py")], cwd=ROOT, timeout=120)
    log.append(f"[hook audit] rc={rc}\n{out[-2000:]}")
    if rc != 0:
        broken.append("hook-audit: " + "; ".join(l.strip() for l in out.strip().splitlines()[1:4]))

    # 1. translator
    gen_res = regenerate(getattr(mod, "GEN", []), log)
    for g, ok, msg in gen_res:
        if not ok:
            broken.append(f"translator:{g}: {msg}")

    # 2. Lean: build, source audit, axiom audit
    lean_targets = list(mod.LEAN)
    dev_nolean = bool(os.environ.get("YMQ_DEV_NOLEAN"))   # development aid only: never set by MANIFEST commands
    if dev_nolean:
        lean_targets = []
        mod.AUDIT = None
        mod.THEOREMS = []
    ok_build, out_build, failed = lake_build(lean_targets + ["ymqdrv"], log)
    if not ok_build:
        errs = re.findall(r"^error: (\S+?):(\d+):\d+: (.*)$", out_build, flags=re.M)
        names = sorted({f"{os.path.basename(f)}:{l}" for f, l, _ in errs}) or ["lake build"]
        broken.append("lean-build: " + ", ".join(names[:8]))
    mods = lean_sources_of(lean_targets + ([mod.AUDIT] if getattr(mod, "AUDIT", None) else []))
    hits = source_audit(mods)
    if hits:
        broken.append("source-audit: " + "; ".join(hits[:5]))
    theorems = {}
    if getattr(mod, "AUDIT", None) and ok_build:
        ok_a, theorems, out_a = axiom_audit(mod.AUDIT, log)
        if not ok_a:
            broken.append("axiom-audit: lean failed on " + mod.AUDIT)
        for th, axs in theorems.items():
            extra = [a for a in axs if a not in ALLOWED_AXIOMS]
            if extra:
                broken.append(f"axiom-audit: {th} uses {extra}")
    # independent re-check of the compiled property module (thorough tier)
    recheck = None
    if tier == "thorough" and ok_build and not dev_nolean:
        props_mods = [t for t in lean_targets if ".Props." in t]
        rc, out, dt = sh(["lake", "env", "leanchecker"] + props_mods, cwd=LEAN_DIR, timeout=3000)
        log.append(f"[leanchecker {' '.join(props_mods)}] rc={rc} {dt:.1f}s\n{out[-2000:]}")
        recheck = (rc == 0)
        if rc != 0:
            broken.append("leanchecker: " + (out.strip().splitlines() or ["failed"])[-1][:200])
    obligations = len(getattr(mod, "THEOREMS", [])) or len(theorems)
    declared = getattr(mod, "THEOREMS", None)
    if declared is not None and ok_build:
        missing = [t for t in declared if t not in theorems]
        if missing:
            broken.append("axiom-audit: theorems missing from audit: " + ", ".join(missing[:6]))
    counted = declared if declared is not None else list(theorems)
    discharged = 0 if not ok_build else sum(
        1 for th in counted if th in theorems and all(a in ALLOWED_AXIOMS for a in theorems[th]))

    # 3. harness build
    profiles = list(getattr(mod, "PROFILES", ["release"]))
    harness_ok = True
    for pr in profiles:
        okc, outc = cargo_build(pr, log)
        if not okc:
            harness_ok = False
            broken.append(f"harness-build({pr}): " + (re.findall(r"^error.*$", outc, flags=re.M) or ["?"])[0][:200])

    # 4. correspondence + oracle
    stats = dict(evaluations=0, k_compared=0, k_agree=0, k_disagree=0, o_checked=0, o_fail=0,
                 hangs=0, panics=0, model_unknown=0)
    dist = {}
    distinct = set()
    samples = []
    replay_mode = [False]
    o_failures = []     # (profile, case, answer, msg)
    k_failures = []     # (profile, case, impl, model)

    def run_cases(case_iter, budget_s):
        cases = []
        tstart = time.time()
        for c in case_iter:
            cases.append(c)
        if not cases:
            return
        for pr in profiles:
            sel = [c for c in cases if (c.profiles is None or pr in c.profiles)]
            if not sel:
                continue
            srv = Server([harness_bin(pr), "--flush"], default_timeout=getattr(mod, "TIMEOUT", 20.0))
            ans = srv.ask([c.line for c in sel], [c.timeout for c in sel])
            ksel = [(i, c) for i, c in enumerate(sel) if c.k]
            mans = {}
            if ksel and os.path.exists(driver_bin()):
                drv = Server([driver_bin()], default_timeout=240.0)   # watchdog of the MODEL driver only (deterministic; slow under load is not a disagreement)
                out = drv.ask([c.line for _, c in ksel])
                for (i, c), a in zip(ksel, out):
                    mans[i] = a
            # follow-ups: requests for the model that are built from the implementation's answer
            # (e.g. replay of a recorded trace); compared with the expected answer given.
            if hasattr(mod, "followup") and os.path.exists(driver_bin()):
                fus = []
                for i, c in enumerate(sel):
                    fu = mod.followup(c, ans[i] if i < len(ans) else "abort")
                    if fu:
                        for one in (fu if isinstance(fu, list) else [fu]):
                            fus.append((c, one[0], one[1]))
                if fus:
                    drv = Server([driver_bin()], default_timeout=900.0)  # a 4 MB lock-order history takes ~105 s on an idle machine
                    out = drv.ask([l for _, l, _ in fus])
                    # expected answer None: the follow-up request is also answered by the harness
                    need = [i for i, (_, _, exp) in enumerate(fus) if exp is None]
                    if need:
                        hsrv = Server([harness_bin(pr), "--flush"], default_timeout=getattr(mod, "TIMEOUT", 20.0))
                        hout = hsrv.ask([fus[i][1] for i in need])
                        for i, a2 in zip(need, hout):
                            fus[i] = (fus[i][0], fus[i][1], a2)
                            if hasattr(mod, "followup_oracle"):
                                msg = mod.followup_oracle(fus[i][0], fus[i][1], a2)
                                stats["o_checked"] += 1
                                if msg:
                                    stats["o_fail"] += 1
                                    o_failures.append((pr, Case(fus[i][1]), a2, msg))
                    for (c, l, exp), m in zip(fus, out):
                        stats["k_compared"] += 1
                        if m == exp:
                            stats["k_agree"] += 1
                        else:
                            stats["k_disagree"] += 1
                            k_failures.append((pr, Case(l), exp, m))
            for i, c in enumerate(sel):
                a = ans[i] if i < len(ans) else "abort"
                stats["evaluations"] += 1
                if a == "hang":
                    stats["hangs"] += 1
                if a in ("panic", "abort") or a.startswith("panic "):
                    stats["panics"] += 1
                kl = mod.klass(c, a) if hasattr(mod, "klass") else c.op
                dist[kl] = dist.get(kl, 0) + 1
                if mod.nontrivial(c, a) if hasattr(mod, "nontrivial") else True:
                    distinct.add(hashlib.blake2b(c.line.encode(), digest_size=8).digest())
                if len(samples) < 12 and (stats["evaluations"] % 97 == 1 or len(samples) < 3):
                    samples.append({"request": c.line[:300], "impl": a[:200], "profile": pr,
                                    "model": mans.get(i, None) and mans[i][:200]})
                if c.o:
                    stats["o_checked"] += 1
                    msg = mod.oracle(c, a)
                    if msg:
                        stats["o_fail"] += 1
                        o_failures.append((pr, c, a, msg))
                if i in mans:
                    m = mans[i]
                    if m == "?" and replay_mode[0]:
                        continue            # a request the model does not answer (oracle-only op)
                    if m == "?":
                        stats["model_unknown"] += 1
                        k_failures.append((pr, c, a, m))
                        stats["k_disagree"] += 1
                    else:
                        stats["k_compared"] += 1
                        if m != a:
                            stats["k_disagree"] += 1
                            k_failures.append((pr, c, a, m))
                        else:
                            stats["k_agree"] += 1

    rng = random.Random(seed)
    if harness_ok:
        if replay:
            # a replay file: request lines, each optionally preceded by `#@tag <tag>` (the generator's tag,
            # e.g. the known factorisation the oracle compares with)
            rc_cases, tag = [], ""
            for l in open(replay):
                l = l.strip()
                if l.startswith("#@tag "):
                    tag = l[6:]
                elif l and not l.startswith("#"):
                    rc_cases.append(Case(l, tag=tag, timeout=getattr(mod, "TIMEOUT", 60.0)))
                    tag = ""
            replay_mode[0] = True
            run_cases(rc_cases, 600)
        else:
            corpus = os.path.join(ROOT, "corpus", pid)
            corpus_cases = []
            if os.path.isdir(corpus):
                for fn in sorted(os.listdir(corpus)):
                    for l in open(os.path.join(corpus, fn)):
                        l = l.strip()
                        if l and not l.startswith("#"):
                            corpus_cases.append(mod.corpus_case(l) if hasattr(mod, "corpus_case") else Case(l))
            run_cases(corpus_cases, 600)
            run_cases(mod.cases(tier, rng), 600)

    # 5. decision
    def classify(fails):
        new, known = [], {}
        for pr, c, a, msg in fails:
            key = mod.finding_key(c, a, pr) if hasattr(mod, "finding_key") else None
            if key and key in listed:
                known.setdefault(key, []).append((pr, c, a, msg))
            else:
                new.append((pr, c, a, msg))
        return new, known

    new_fail, known_hit = classify(o_failures)
    extended_done = False
    if (broken or k_failures) and not new_fail and harness_ok and not replay:
        # extended search for a concrete failing input (10x budget, boundary families)
        extended_done = True
        before = len(o_failures)
        run_cases(mod.cases(tier, random.Random(seed + 1), extended=True), 3000)
        new_fail, known_hit = classify(o_failures)

    violation = None
    if new_fail:
        pr, c, a, msg = min(new_fail, key=lambda f: len(f[1].line))
        path = os.path.join(REPLAY_DIR, pid, f"fail-{seed}.txt")
        with open(path, "w") as f:
            f.write(f"# property {pid}: implementation answer contradicts the specification\n")
            f.write(f"# profile={pr} answer={a}\n# {msg}\n")
            if c.tag:
                f.write(f"#@tag {c.tag}\n")
            f.write(c.line + "\n")
            for pr2, c2, a2, msg2 in new_fail[1:20]:
                f.write(f"# also: profile={pr2} answer={a2[:100]} {msg2[:200]}\n")
                if c2.tag:
                    f.write(f"#@tag {c2.tag}\n")
                f.write(c2.line + "\n")
        violation = (path, "")
    elif broken or k_failures:
        path = os.path.join(REPLAY_DIR, pid, f"unproved-{seed}.txt")
        with open(path, "w") as f:
            f.write(f"# property {pid}: no longer shown to hold; no failing input found by the extended search\n")
            for b in broken:
                f.write(f"# broken obligation: {b}\n")
            for pr, c, a, m in k_failures[:50]:
                f.write(f"# correspondence: profile={pr} impl={a[:200]} model={m[:200]}\n{c.line}\n")
        violation = (path, " no-failing-input-found")

    for key, hits in known_hit.items():
        print(f"KNOWN-FINDING: property={pid} {listed[key]['what']} [key={key}, {len(hits)} case(s) this run]")
    extra_known = mod.static_findings(listed) if hasattr(mod, "static_findings") else []
    for line in extra_known:
        print(f"KNOWN-FINDING: property={pid} {line}")

    wall = time.time() - t0
    cov = {
        "obligations": max(obligations, 1),
        "discharged": discharged if not broken else min(discharged, max(obligations - 1, 0)),
        "checker_cmd": f"cd lean && lake build {' '.join(lean_targets)} && lake env lean {(getattr(mod, 'AUDIT', None) or '').replace('.', '/')}.lean",
        "trusted_base": [
            "Lean 4.33 kernel; axioms allowed: propext, Classical.choice, Quot.sound (audited by #print axioms on every theorem)",
            "translator /verif/translate/*.py" if getattr(mod, "GEN", []) else "no translator for this property (hand model + correspondence)",
            "correspondence harness /verif/harness + Lean driver /verif/lean/Driver.lean + diff in /verif/vlib/pipeline.py",
            "spec oracle in /verif/props/%s.py (plain Python integers)" % pid.lower(),
        ] + list(getattr(mod, "UNMODELLED", [])),
        "theorems": {k: v for k, v in sorted(theorems.items())},
        "leanchecker_recheck": recheck,
        "hypotheses_of_theorems": list(getattr(mod, "HYPOTHESES", [])),
        "modelled": list(getattr(mod, "MODELLED", [])),
        "translated_from_source": [g for g, ok, _ in gen_res if ok],
        "broken_obligations": broken,
        "evaluations": stats["evaluations"],
        "distinct_nontrivial": len(distinct),
        "rule": getattr(mod, "RULE", "cases generated by props module; distinct = distinct request lines judged non-trivial"),
        "samples": samples or [{"note": "no harness case ran"}],
        "traces_validated_against_impl": stats["k_agree"],
        "model_vs_impl_disagreements": stats["k_disagree"],
        "impl_vs_oracle_failures": stats["o_fail"],
        "impl_vs_oracle_failures_listed_as_known": sum(len(v) for v in known_hit.values()),
        "oracle_checked": stats["o_checked"],
        "hangs": stats["hangs"], "panics_or_aborts": stats["panics"],
        "input_distribution": dict(sorted(dist.items())),
        "profiles": profiles,
        "extended_search_ran": extended_done,
        "known_findings_listed": sorted(listed.keys()),
        "known_findings_reproduced": sorted(known_hit.keys()),
        "fixed_entries": [e.get("what", "") for e in fixed],
    }
    if hasattr(mod, "extra_coverage"):
        cov.update(mod.extra_coverage())
    ev = {
        "property_id": pid, "tier": tier, "seed": seed, "level": "proof",
        "coverage": cov,
        "assumptions": list(getattr(mod, "ASSUMPTIONS", [])),
        "wall_s": round(wall, 2),
        "violations": 1 if violation else 0,
    }
    with open(os.path.join(EVID_DIR, pid + ".json"), "w") as f:
        json.dump(ev, f, indent=1)
    with open(os.path.join(REPLAY_DIR, pid, "last.log"), "w") as f:
        f.write("\n".join(log))
    if violation:
        print(f"VIOLATION property={pid} replay={violation[0]}{violation[1]}")
        return 1
    print(f"OK property={pid} tier={tier} seed={seed} theorems={discharged}/{obligations} "
          f"cases={stats['evaluations']} k_ok={stats['k_agree']}/{stats['k_compared']} "
          f"oracle_checked={stats['o_checked']} wall={wall:.1f}s")
    return 0
