/-
Word-level model of `pseudoprime` (src/lib.rs:742-783) for multiword `p`: the Miller-Rabin loop
exactly as lib.rs writes it, running on the limb-level model of the Montgomery ring `ZmodN`
(Ymq/Model/ZmodN.lean: `new`, `from_int`, CIOS `mul` with its final conditional subtraction,
`sub`, `one = R mod n`, `zero`), instead of the exact residue arithmetic that
Ymq/Model/Pseudoprime.lean takes from C07.

Conventions as everywhere: an `MInt` (`[u64; 8]`) is a `List Nat` of 8 words, `==` on `MInt`s is
equality of the word lists, `none` = the Rust code panics (here: an `assert!` of `ZmodN::new`, a
`debug_assert!` / overflow / out-of-range index inside `ZmodN::{mul, sub}` in the checked profile,
the underflow of `p.low_u64() - 1`), loops take fuel.  Props/C06Word.lean proves that on EVERY
input this model returns what `Ymq.Pseudoprime.pseudoprime` returns (so no panic site is reached
for odd `p < 2^512`).
No Mathlib import: this file is linked into the native driver.
-/
import Ymq.Model.ZmodN
import Ymq.Model.Pseudoprime

namespace Ymq.PseudoprimeWord
open Ymq.Limbs Ymq.ZmodN

/-- the inner `pow_mod(zp, x, exp)`:
`res = zp.one(); for b in 0..exp.bits() { if exp.bit(b) { res = zp.mul(&res, &x) }; x = zp.mul(&x, &x) }`.
`e` is `exp >> b`; the loop has run `exp.bits()` times exactly when `e = 0`; the fuel bounds the
number of bits (`Uint` has 1024).  The squaring of `x` is also done (and may panic) in the last turn. -/
def powModW (c : Ctx) : Nat → List Nat → List Nat → Nat → Option (List Nat)
  | 0, res, _, _ => some res
  | f + 1, res, x, e =>
    if e = 0 then some res
    else
      match (if e % 2 = 1 then mul c res x else some res) with
      | none => none
      | some res' =>
        match mul c x x with
        | none => none
        | some x' => powModW c f res' x' (e / 2)

/-- `for _ in 0..s { pow = zp.mul(&pow, &pow); if pow == pm1 { ok = true; break } else if pow == zp.one() { break } }`;
returns the final `ok`. -/
def sqLoopW (c : Ctx) (pm1 : List Nat) : Nat → List Nat → Bool → Option Bool
  | 0, _, ok => some ok
  | t + 1, pow, ok =>
    match mul c pow pow with
    | none => none
    | some pow' =>
      if pow' = pm1 then some true
      else if pow' = c.r then some ok            -- pow == zp.one()
      else sqLoopW c pm1 t pow' ok

/-- body of the base loop for the base `b`; the result is the final `ok`. -/
def millerBaseW (c : Ctx) (s podd b : Nat) : Option Bool :=
  match fromInt c b with                          -- zp.from_int(b.into())
  | none => none
  | some bm =>
    match powModW c 1024 c.r bm podd with         -- pow_mod(&zp, .., &p_odd), res = zp.one()
    | none => none
    | some pow =>
      match sub c (zeros MW) c.r with             -- pm1 = zp.sub(&zp.zero(), &zp.one())
      | none => none
      | some pm1 => sqLoopW c pm1 s pow (pow = c.r || pow = pm1)

/-- `for &b in &fbase::SMALL_PRIMES { ...; if !ok { return false } } true` -/
def basesW (c : Ctx) (s podd : Nat) : List Nat → Option Bool
  | [] => some true
  | b :: bs =>
    match millerBaseW c s podd b with
    | none => none
    | some ok => if ok then basesW c s podd bs else some false

/-- `pseudoprime(p)` over the limb-level ring; `none` = the real code panics. -/
def pseudoprimeW (p : Nat) : Option Bool :=
  if p % 2 = 0 then some (decide (p = 2))         -- !p.bit(0): p.try_into() == Ok(2)
  else if p < Ymq.Mg64.W then Ymq.Mg64.isprime64 p  -- p.bits() <= 64
  else
    match ZmodN.new p with                        -- asserts: odd, at most 512 bits
    | none => none
    | some c =>
      if p % W = 0 then none                      -- p.low_u64() - 1 underflows
      else
        let s := Ymq.Mg64.tz64 (p % W - 1)        -- (p.low_u64() - 1).trailing_zeros()
        let podd := p / 2 ^ s                     -- p >> s
        basesW c s podd Ymq.Gen.Primality.smallPrimes

end Ymq.PseudoprimeWord
