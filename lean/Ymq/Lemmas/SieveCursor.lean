/-
C13 helper lemmas: well-formed factor bases, generic fold lemmas, and the cursor invariant of
`sieve_block` (every live cursor is reduced and ≡ root − B·32768; a missing second root stays
`OFFSET_NONE` in both arrays).
-/
import Ymq.Lemmas.SieveTable

namespace Ymq.Sieve

/-! ### generic fold lemmas -/

theorem foldlM_rel {σ α} (f : σ → α → Option σ) (R : σ → σ → Prop)
    (hrefl : ∀ s, R s s) (htrans : ∀ a b c, R a b → R b c → R a c) :
    ∀ (l : List α), (∀ x ∈ l, ∀ s s', f s x = some s' → R s s') →
      ∀ s s', l.foldlM f s = some s' → R s s' := by
  intro l
  induction l with
  | nil => intro _ s s' h; simp at h; subst h; exact hrefl s
  | cons x xs ih =>
    intro hstep s s' h
    rw [List.foldlM_cons] at h
    simp only [bind, Option.bind_eq_some_iff] at h
    obtain ⟨s1, h1, h2⟩ := h
    exact htrans _ _ _ (hstep x List.mem_cons_self s s1 h1)
      (ih (fun y hy => hstep y (List.mem_cons_of_mem _ hy)) s1 s' h2)

theorem foldlM_reach {σ α} (f : σ → α → Option σ) (I P : σ → Prop) (x0 : α) :
    ∀ (l : List α), x0 ∈ l → (∀ x ∈ l, ∀ s s', I s → f s x = some s' → I s') →
      (∀ s s', I s → f s x0 = some s' → P s') →
      (∀ x ∈ l, ∀ s s', I s → P s → f s x = some s' → P s') →
      ∀ s s', I s → l.foldlM f s = some s' → P s' := by
  intro l
  induction l with
  | nil => intro h; simp at h
  | cons x xs ih =>
    intro hx0 hI hest hpres s s' hs h
    rw [List.foldlM_cons] at h
    simp only [bind, Option.bind_eq_some_iff] at h
    obtain ⟨s1, h1, h2⟩ := h
    have hI1 : I s1 := hI x List.mem_cons_self s s1 hs h1
    by_cases hx : x0 ∈ xs
    · exact ih hx (fun y hy => hI y (List.mem_cons_of_mem _ hy)) hest
        (fun y hy => hpres y (List.mem_cons_of_mem _ hy)) s1 s' hI1 h2
    · have : x0 = x := by
        rcases List.mem_cons.1 hx0 with h | h
        · exact h
        · exact absurd h hx
      subst this
      have := foldlM_inv_mem f xs (fun s => I s ∧ P s)
        (fun s y s' hy hp hf => ⟨hI y (List.mem_cons_of_mem _ hy) s s' hp.1 hf,
          hpres y (List.mem_cons_of_mem _ hy) s s' hp.1 hp.2 hf⟩)
        s1 s' ⟨hI1, hest s s1 hs h1⟩ h2
      exact this.2

/-- invariant indexed by the processed prefix. -/
theorem foldlM_prefix {σ α} (f : σ → α → Option σ) (P : List α → σ → Prop) (l0 : List α)
    (hstep : ∀ pre x s s', x ∈ l0 → P pre s → f s x = some s' → P (pre ++ [x]) s') :
    ∀ (l : List α), (∀ x ∈ l, x ∈ l0) → ∀ pre s s', P pre s → l.foldlM f s = some s' → P (pre ++ l) s' := by
  intro l
  induction l with
  | nil => intro _ pre s s' hp h; simp at h; subst h; simpa using hp
  | cons x xs ih =>
    intro hsub pre s s' hp h
    rw [List.foldlM_cons] at h
    simp only [bind, Option.bind_eq_some_iff] at h
    obtain ⟨s1, h1, h2⟩ := h
    have := ih (fun y hy => hsub y (List.mem_cons_of_mem _ hy)) (pre ++ [x]) s1 s'
      (hstep pre x s s1 (hsub x List.mem_cons_self) hp h1) h2
    simpa using this

/-! ### factor bases -/

/-- what `FBase::new` guarantees about the fields the sieve reads. -/
structure FB.WF (fb : FB) : Prop where
  /-- `idx_by_log[l]` is the index of the first prime of bit length ≥ l -/
  ibl_spec : ∀ (l i v p : Nat), fb.ibl[l]? = some v → fb.primes[i]? = some p → (i < v ↔ bitlen p < l)
  ibl_some : ∀ l, l < 26 → ∃ v, fb.ibl[l]? = some v
  ibl_le : ∀ (l v : Nat), fb.ibl[l]? = some v → v ≤ fb.primes.size
  ge2 : ∀ (i p : Nat), fb.primes[i]? = some p → 2 ≤ p
  /-- "a factor base consisting of 24-bit primes" (`prepare_factor_base` drops `p ≥ 2^24`) -/
  lt24 : ∀ (i p : Nat), fb.primes[i]? = some p → p < 2 ^ 24
  sorted : ∀ (i j p q : Nat), i < j → fb.primes[i]? = some p → fb.primes[j]? = some q → p < q

/-- both root tables are reduced. -/
def RootsOK (fb : FB) (r1 r2 : Array Nat) : Prop :=
  ∀ (i p : Nat), fb.primes[i]? = some p → ∃ o1 o2, r1[i]? = some o1 ∧ r2[i]? = some o2 ∧ o1 < p ∧ o2 < p

theorem FB.WF.ibl_mono {fb : FB} (h : fb.WF) {l l' v v' : Nat} (hl : l ≤ l') (h1 : fb.ibl[l]? = some v)
    (h2 : fb.ibl[l']? = some v') : v ≤ v' := by
  by_contra hc
  have hv : v' < v := by omega
  have hle := h.ibl_le l v h1
  have hlt : v' < fb.primes.size := by omega
  obtain ⟨p, hp⟩ : ∃ p, fb.primes[v']? = some p := ⟨fb.primes[v'], Array.getElem?_eq_getElem hlt⟩
  have a1 := (h.ibl_spec l v' v p h1 hp).1 hv
  have a2 := (h.ibl_spec l' v' v' p h2 hp)
  have : ¬ bitlen p < l' := fun hb => absurd (a2.2 hb) (lt_irrefl _)
  omega

theorem FB.WF.inClass_ibl {fb : FB} (h : fb.WF) {i p : Nat} (hp : fb.primes[i]? = some p) :
    ∃ v v', fb.ibl[bitlen p]? = some v ∧ fb.ibl[bitlen p + 1]? = some v' := by
  have := (bitlen_lt_succ_iff p 24).2 (h.lt24 i p hp)
  obtain ⟨v, hv⟩ := h.ibl_some (bitlen p) (by omega)
  obtain ⟨v', hv'⟩ := h.ibl_some (bitlen p + 1) (by omega)
  exact ⟨v, v', hv, hv'⟩

theorem FB.WF.prime_at {fb : FB} (_h : fb.WF) {i : Nat} (hi : i < fb.primes.size) :
    ∃ p, fb.primes[i]? = some p := ⟨fb.primes[i], Array.getElem?_eq_getElem hi⟩

/-- the class of a prime index: `ibl[l] ≤ i < ibl[l+1]` for `l = bitlen p`. -/
theorem FB.WF.class_of {fb : FB} (h : fb.WF) {i p l v v' : Nat} (hp : fb.primes[i]? = some p)
    (h1 : fb.ibl[l]? = some v) (h2 : fb.ibl[l + 1]? = some v') :
    (v ≤ i ∧ i < v') ↔ bitlen p = l := by
  have a1 := h.ibl_spec l i v p h1 hp
  have a2 := h.ibl_spec (l + 1) i v' p h2 hp
  constructor
  · rintro ⟨b1, b2⟩
    have := a2.1 b2
    have : ¬ bitlen p < l := fun hb => absurd (a1.2 hb) (by omega)
    omega
  · intro hb
    refine ⟨?_, a2.2 (by omega)⟩
    by_contra hc
    have := a1.1 (by omega)
    omega

/-! ### cursor invariant -/

theorem writeOpt_spec {a a' : Array Nat} {j : Nat} {w : Option Nat} (h : writeOpt a j w = some a') :
    a'.size = a.size ∧ (∀ k, k ≠ j → a'[k]? = a[k]?) ∧ (∀ v, w = some v → a'[j]? = some v) ∧
    (w = none → a' = a) := by
  cases w with
  | none =>
    simp only [writeOpt, Option.some.injEq] at h
    subst h
    exact ⟨rfl, fun _ _ => rfl, by simp, fun _ => rfl⟩
  | some v =>
    simp only [writeOpt] at h
    by_cases hj : j < a.size
    · simp only [hj, if_true, Option.some.injEq] at h
      subst h
      refine ⟨by simp, fun k hk => Array.getElem?_setIfInBounds_ne (fun e => hk e.symm), ?_, by simp⟩
      intro v' hv
      simp only [Option.some.injEq] at hv
      subst hv
      simp [Array.getElem?_setIfInBounds, hj]
    · simp [hj] at h

section Cursor
variable (fb : FB) (r1 r2 : Array Nat) (idxskip nS : Nat)

/-- slot `k` holds a real cursor (first root, or second root different from the first). -/
def LiveSlot (k : Nat) : Prop :=
  ∀ o1 o2, r1[k / 2]? = some o1 → r2[k / 2]? = some o2 → (k % 2 = 0 ∨ o1 ≠ o2)

/-- the cursor array `a` is correct for block `B`: every live cursor `c` of a prime `p` with root `o`
satisfies `c < p` and `c + B·32768 ≡ o (mod p)`; a missing second root is `OFFSET_NONE`
(for the primes that are not skipped). -/
def CurInv (B : Nat) (a : Array Nat) : Prop :=
  a.size = 2 * nS ∧
  ∀ k, k < 2 * nS → ∃ p o1 o2, fb.primes[k / 2]? = some p ∧ r1[k / 2]? = some o1 ∧ r2[k / 2]? = some o2 ∧
    (if k % 2 = 0 ∨ o1 ≠ o2 then
       ∃ c, a[k]? = some c ∧ c < p ∧ (c + B * BLOCK) % p = (if k % 2 = 0 then o1 else o2)
     else idxskip ≤ k → a[k]? = some NONE)

/-- the other cursor array: same size, missing second roots are `OFFSET_NONE`. -/
def NoneInv (a : Array Nat) : Prop :=
  a.size = 2 * nS ∧
  ∀ k, k < 2 * nS → ∀ o1 o2, r1[k / 2]? = some o1 → r2[k / 2]? = some o2 →
    ¬ (k % 2 = 0 ∨ o1 ≠ o2) → idxskip ≤ k → a[k]? = some NONE

theorem CurInv.noneInv {B : Nat} {a : Array Nat} (h : CurInv fb r1 r2 idxskip nS B a) :
    NoneInv r1 r2 idxskip nS a := by
  refine ⟨h.1, ?_⟩
  intro k hk o1 o2 h1 h2 hdead hge
  obtain ⟨p, o1', o2', _, h1', h2', hif⟩ := h.2 k hk
  rw [h1] at h1'; rw [h2] at h2'
  have e1 := Option.some.inj h1'; have e2 := Option.some.inj h2'
  subst e1; subst e2
  simp only [hdead, if_false] at hif
  exact hif hge

/-- `v` is a correct value for slot `k` of the next block, given the cursors `lo0` of this block. -/
def GoodW (lo0 : Array Nat) (k v : Nat) : Prop :=
  ∃ p o1 o2, fb.primes[k / 2]? = some p ∧ r1[k / 2]? = some o1 ∧ r2[k / 2]? = some o2 ∧
    (if k % 2 = 0 ∨ o1 ≠ o2 then ∃ c, lo0[k]? = some c ∧ Next p c v else k < idxskip)

def Wk (lo0 : Array Nat) (k : Nat) (a : Array Nat) : Prop := ∃ v, a[k]? = some v ∧ GoodW fb r1 r2 idxskip lo0 k v

/-- one step of `sieve_block` on the array being written: every slot is unchanged or correctly written. -/
def T (lo0 : Array Nat) (a a' : Array Nat) : Prop :=
  a'.size = a.size ∧ ∀ k, k < 2 * nS → (a'[k]? = a[k]? ∨ Wk fb r1 r2 idxskip lo0 k a')

theorem T.refl (lo0 a : Array Nat) : T fb r1 r2 idxskip nS lo0 a a := ⟨rfl, fun _ _ => Or.inl rfl⟩

theorem T.trans {lo0 a b c : Array Nat} (h1 : T fb r1 r2 idxskip nS lo0 a b) (h2 : T fb r1 r2 idxskip nS lo0 b c) :
    T fb r1 r2 idxskip nS lo0 a c := by
  refine ⟨h2.1.trans h1.1, ?_⟩
  intro k hk
  rcases h2.2 k hk with e | w
  · rcases h1.2 k hk with e1 | ⟨v, hv, g⟩
    · exact Or.inl (e.trans e1)
    · exact Or.inr ⟨v, e.trans hv, g⟩
  · exact Or.inr w

theorem Wk.step {lo0 a b : Array Nat} {k : Nat} (hk : k < 2 * nS) (h1 : Wk fb r1 r2 idxskip lo0 k a)
    (h2 : T fb r1 r2 idxskip nS lo0 a b) : Wk fb r1 r2 idxskip lo0 k b := by
  rcases h2.2 k hk with e | w
  · obtain ⟨v, hv, g⟩ := h1
    exact ⟨v, e.trans hv, g⟩
  · exact w

variable {fb r1 r2 idxskip nS}

theorem prime_small (hfb : fb.WF) (hnS : fb.ibl[16]? = some nS) {k p : Nat} (hk : k < 2 * nS)
    (hp : fb.primes[k / 2]? = some p) : p < 32768 := by
  have := (hfb.ibl_spec 16 (k / 2) nS p hnS hp).1 (by omega)
  have := (bitlen_lt_succ_iff p 15).1 this
  simpa using this

theorem skipStep_T (hfb : fb.WF) (hnS : fb.ibl[16]? = some nS) {B : Nat} {lo0 a a' : Array Nat}
    (hcur : CurInv fb r1 r2 idxskip nS B lo0) {i : Nat} (hi : i < idxskip)
    (h : skipStep fb lo0 a i = some a') :
    T fb r1 r2 idxskip nS lo0 a a' ∧ (i < 2 * nS → Wk fb r1 r2 idxskip lo0 i a') := by
  unfold skipStep at h
  simp only [Option.bind_eq_bind, Option.bind_eq_some_iff] at h
  obtain ⟨pp, hpp, c, hc, v, hv, h⟩ := h
  by_cases hsz : i < a.size
  · simp only [hsz, if_true, Option.some.injEq] at h
    subst h
    have hW : i < 2 * nS → Wk fb r1 r2 idxskip lo0 i (a.setIfInBounds i v) := by
      intro hi2
      refine ⟨v, by simp [Array.getElem?_setIfInBounds, hsz], ?_⟩
      obtain ⟨p, o1, o2, hp, h1, h2, hif⟩ := hcur.2 i hi2
      rw [hpp] at hp
      have := Option.some.inj hp; subst this
      refine ⟨pp, o1, o2, hpp, h1, h2, ?_⟩
      by_cases hl : i % 2 = 0 ∨ o1 ≠ o2
      · simp only [hl, if_true] at hif ⊢
        obtain ⟨c0, hc0, hlt, _⟩ := hif
        rw [hc] at hc0
        have := Option.some.inj hc0; subst this
        have hps := prime_small hfb hnS hi2 hpp
        obtain ⟨c', e', hn⟩ := stepSkipped_next (by have := hfb.ge2 _ _ hpp; omega) (by omega) hlt
        rw [hv] at e'
        have := Option.some.inj e'; subst this
        exact ⟨c, hc, hn⟩
      · simp only [hl, if_false]; exact hi
    refine ⟨⟨by simp, ?_⟩, hW⟩
    intro k hk
    by_cases hki : k = i
    · subst hki; exact Or.inr (hW hk)
    · exact Or.inl (Array.getElem?_setIfInBounds_ne (fun e => hki e.symm))
  · simp [hsz] at h

theorem singleStep_T (hfb : fb.WF) (hnS : fb.ibl[16]? = some nS) {B : Nat} {lo0 a a' : Array Nat}
    (hcur : CurInv fb r1 r2 idxskip nS B lo0) {i : Nat} (hi : idxskip ≤ i)
    (h : singleStep fb lo0 a i = some a') :
    T fb r1 r2 idxskip nS lo0 a a' ∧ (i < 2 * nS → LiveSlot r1 r2 i → Wk fb r1 r2 idxskip lo0 i a') := by
  unfold singleStep at h
  simp only [Option.bind_eq_bind, Option.bind_eq_some_iff] at h
  obtain ⟨pp, hpp, c, hc, w, hw, h⟩ := h
  obtain ⟨hsz, hne, hwr, hnone⟩ := writeOpt_spec h
  by_cases hi2 : i < 2 * nS
  · obtain ⟨p, o1, o2, hp, h1, h2, hif⟩ := hcur.2 i hi2
    rw [hpp] at hp
    have := Option.some.inj hp; subst this
    have hps := prime_small hfb hnS hi2 hpp
    have hp2 := hfb.ge2 _ _ hpp
    by_cases hl : i % 2 = 0 ∨ o1 ≠ o2
    · simp only [hl, if_true] at hif
      obtain ⟨c0, hc0, hlt, _⟩ := hif
      rw [hc] at hc0
      have := Option.some.inj hc0; subst this
      obtain ⟨c', e', hn⟩ := stepSingle_next (p := pp) (by omega) (by simp only [BLOCK]; omega) hlt
      rw [hw] at e'
      have := Option.some.inj e'; subst this
      have hW : Wk fb r1 r2 idxskip lo0 i a' :=
        ⟨c', hwr c' rfl, pp, o1, o2, hpp, h1, h2, by simp only [hl, if_true]; exact ⟨c, hc, hn⟩⟩
      refine ⟨⟨hsz, ?_⟩, fun _ _ => hW⟩
      intro k hk
      by_cases hki : k = i
      · subst hki; exact Or.inr hW
      · exact Or.inl (hne k hki)
    · simp only [hl, if_false] at hif
      have hcn := hif hi
      rw [hc] at hcn
      have := Option.some.inj hcn; subst this
      simp only [stepSingle, if_true, Option.some.injEq] at hw
      subst hw
      have := hnone rfl; subst this
      refine ⟨T.refl fb r1 r2 idxskip nS lo0 _, ?_⟩
      intro _ hlive
      exact absurd (hlive o1 o2 h1 h2) hl
  · refine ⟨⟨hsz, ?_⟩, fun h => absurd h hi2⟩
    intro k hk
    exact Or.inl (hne k (by omega))

theorem pairStep_T (hfb : fb.WF) (hnS : fb.ibl[16]? = some nS) {B : Nat} {lo0 a a' : Array Nat}
    (hcur : CurInv fb r1 r2 idxskip nS B lo0) {i : Nat} (hi : idxskip ≤ 2 * i)
    (hp4 : ∀ p, fb.primes[i]? = some p → p ≤ 4096)
    (h : pairStep fb lo0 a i = some a') :
    T fb r1 r2 idxskip nS lo0 a a' ∧
      (∀ k, k < 2 * nS → k / 2 = i → LiveSlot r1 r2 k → Wk fb r1 r2 idxskip lo0 k a') := by
  unfold pairStep at h
  simp only [Option.bind_eq_bind, Option.bind_eq_some_iff] at h
  obtain ⟨pp, hpp, c1, hc1, c2, hc2, ⟨w1, w2⟩, hsp, a1, ha1, h⟩ := h
  simp only at ha1 h
  obtain ⟨hsz1, hne1, hwr1, hnone1⟩ := writeOpt_spec ha1
  obtain ⟨hsz2, hne2, hwr2, hnone2⟩ := writeOpt_spec h
  by_cases hi2 : 2 * i < 2 * nS
  · have e0 : (2 * i) / 2 = i := by omega
    have e1 : (2 * i + 1) / 2 = i := by omega
    have m0 : (2 * i) % 2 = 0 := by omega
    have m1 : ¬ ((2 * i + 1) % 2 = 0) := by omega
    obtain ⟨p, o1, o2, hp, h1, h2, hif0⟩ := hcur.2 (2 * i) hi2
    obtain ⟨p', o1', o2', hp', h1', h2', hif1⟩ := hcur.2 (2 * i + 1) (by omega)
    rw [e0] at hp h1 h2
    rw [e1] at hp' h1' h2'
    rw [hpp] at hp hp'
    have := Option.some.inj hp; subst this
    have := Option.some.inj hp'; subst this
    rw [h1] at h1'; rw [h2] at h2'
    have := Option.some.inj h1'; subst this
    have := Option.some.inj h2'; subst this
    simp only [m0, true_or, if_true] at hif0
    obtain ⟨c0, hc0, hlt0, _⟩ := hif0
    rw [hc1] at hc0
    have := Option.some.inj hc0; subst this
    have hp2 := hfb.ge2 _ _ hpp
    have hpl := hp4 _ hpp
    by_cases hl : o1 ≠ o2
    · rw [if_pos (Or.inr hl)] at hif1
      obtain ⟨c0', hc0', hlt1, _⟩ := hif1
      rw [hc2] at hc0'
      have := Option.some.inj hc0'; subst this
      obtain ⟨v1, v2, e, g1, g2⟩ := stepPair_two (p := pp) (by omega) hpl hlt0 hlt1
      rw [hsp] at e
      simp only [Option.some.injEq, Prod.mk.injEq] at e
      obtain ⟨rfl, rfl⟩ := e
      have hW0 : Wk fb r1 r2 idxskip lo0 (2 * i) a' := by
        refine ⟨v1, ?_, pp, o1, o2, by rw [e0]; exact hpp, by rw [e0]; exact h1, by rw [e0]; exact h2, ?_⟩
        · rw [hne2 (2 * i) (by omega)]; exact hwr1 v1 rfl
        · simp only [m0, true_or, if_true]; exact ⟨c1, hc1, g1⟩
      have hW1 : Wk fb r1 r2 idxskip lo0 (2 * i + 1) a' := by
        refine ⟨v2, hwr2 v2 rfl, pp, o1, o2, by rw [e1]; exact hpp, by rw [e1]; exact h1, by rw [e1]; exact h2, ?_⟩
        rw [if_pos (Or.inr hl)]; exact ⟨c2, hc2, g2⟩
      refine ⟨⟨hsz2.trans hsz1, ?_⟩, ?_⟩
      · intro k hk
        by_cases hk0 : k = 2 * i
        · subst hk0; exact Or.inr hW0
        · by_cases hk1 : k = 2 * i + 1
          · subst hk1; exact Or.inr hW1
          · exact Or.inl ((hne2 k hk1).trans (hne1 k hk0))
      · intro k hk hki _
        have : k = 2 * i ∨ k = 2 * i + 1 := by omega
        rcases this with rfl | rfl
        · exact hW0
        · exact hW1
    · have hl' : o1 = o2 := by
        by_contra hx; exact hl hx
      subst hl'
      rw [if_neg (by rintro (hx | hx); exact m1 hx; exact hx rfl)] at hif1
      have hcn := hif1 (by omega)
      rw [hc2] at hcn
      have := Option.some.inj hcn; subst this
      obtain ⟨v1, e, g1⟩ := stepPair_one (p := pp) (by omega) hpl hlt0
      rw [hsp] at e
      simp only [Option.some.injEq, Prod.mk.injEq] at e
      obtain ⟨rfl, rfl⟩ := e
      have := hnone2 rfl; subst this
      have hW0 : Wk fb r1 r2 idxskip lo0 (2 * i) a' := by
        refine ⟨v1, hwr1 v1 rfl, pp, o1, o1, by rw [e0]; exact hpp, by rw [e0]; exact h1, by rw [e0]; exact h2, ?_⟩
        simp only [m0, true_or, if_true]; exact ⟨c1, hc1, g1⟩
      refine ⟨⟨hsz1, ?_⟩, ?_⟩
      · intro k hk
        by_cases hk0 : k = 2 * i
        · subst hk0; exact Or.inr hW0
        · exact Or.inl (hne1 k hk0)
      · intro k hk hki hlive
        have : k = 2 * i ∨ k = 2 * i + 1 := by omega
        rcases this with rfl | rfl
        · exact hW0
        · rcases hlive o1 o1 (by rw [e1]; exact h1) (by rw [e1]; exact h2) with hx | hx
          · exact absurd hx m1
          · exact absurd rfl hx
  · refine ⟨⟨hsz2.trans hsz1, ?_⟩, ?_⟩
    · intro k hk
      exact Or.inl ((hne2 k (by omega)).trans (hne1 k (by omega)))
    · intro k hk hki; omega

theorem skipFold_T (hfb : fb.WF) (hnS : fb.ibl[16]? = some nS) {B : Nat} {lo0 a a' : Array Nat}
    (hcur : CurInv fb r1 r2 idxskip nS B lo0)
    (h : (List.range' 0 idxskip).foldlM (skipStep fb lo0) a = some a') :
    T fb r1 r2 idxskip nS lo0 a a' ∧ ∀ k, k < 2 * nS → k < idxskip → Wk fb r1 r2 idxskip lo0 k a' := by
  have hm : ∀ i ∈ List.range' 0 idxskip, i < idxskip := by
    intro i hi; have := List.mem_range'_1.1 hi; omega
  refine ⟨foldlM_rel _ _ (T.refl fb r1 r2 idxskip nS lo0) (fun _ _ _ => T.trans fb r1 r2 idxskip nS) _
    (fun i hi s s' hs => (skipStep_T hfb hnS hcur (hm i hi) hs).1) _ _ h, ?_⟩
  intro k hk hki
  exact foldlM_reach _ (fun _ => True) _ k _ (List.mem_range'_1.2 ⟨by omega, by omega⟩)
    (fun _ _ _ _ _ _ => trivial)
    (fun s s' _ hs => (skipStep_T hfb hnS hcur hki hs).2 hk)
    (fun i hi s s' _ hw hs => Wk.step fb r1 r2 idxskip nS hk hw (skipStep_T hfb hnS hcur (hm i hi) hs).1)
    _ _ trivial h

theorem pairLog_T (hfb : fb.WF) (hnS : fb.ibl[16]? = some nS) (hev : idxskip % 2 = 0) {B : Nat}
    {lo0 a a' : Array Nat} (hcur : CurInv fb r1 r2 idxskip nS B lo0) {log : Nat} (hlog : log ≤ 12)
    (h : pairLog fb idxskip lo0 a log = some a') :
    T fb r1 r2 idxskip nS lo0 a a' ∧
      ∀ k, k < 2 * nS → idxskip ≤ k → LiveSlot r1 r2 k → (∀ p, fb.primes[k / 2]? = some p → bitlen p = log) →
        Wk fb r1 r2 idxskip lo0 k a' := by
  unfold pairLog at h
  have hl15 : log < 15 := by omega
  simp only [Option.bind_eq_bind, Option.bind_eq_some_iff, hl15, if_true, Option.map_eq_some_iff] at h
  obtain ⟨va, hva, iEnd, ⟨vb, hvb, rfl⟩, h⟩ := h
  have hm : ∀ i ∈ List.range' (max idxskip (2 * va) / 2) (2 * vb / 2 - max idxskip (2 * va) / 2),
      idxskip ≤ 2 * i ∧ ∀ p, fb.primes[i]? = some p → p ≤ 4096 := by
    intro i hi
    have := List.mem_range'_1.1 hi
    refine ⟨by omega, ?_⟩
    intro p hp
    have hib : i < vb := by omega
    have := (hfb.ibl_spec (log + 1) i vb p hvb hp).1 hib
    have h13 : bitlen p < 12 + 1 := by omega
    have := (bitlen_lt_succ_iff p 12).1 h13
    omega
  refine ⟨foldlM_rel _ _ (T.refl fb r1 r2 idxskip nS lo0) (fun _ _ _ => T.trans fb r1 r2 idxskip nS) _
    (fun i hi s s' hs => (pairStep_T hfb hnS hcur (hm i hi).1 (hm i hi).2 hs).1) _ _ h, ?_⟩
  intro k hk hki hlive hbl
  obtain ⟨p, o1, o2, hp, _⟩ := hcur.2 k hk
  have hcl := (hfb.class_of hp hva hvb).2 (hbl p hp)
  have hmem : k / 2 ∈ List.range' (max idxskip (2 * va) / 2) (2 * vb / 2 - max idxskip (2 * va) / 2) :=
    List.mem_range'_1.2 ⟨by omega, by omega⟩
  exact foldlM_reach _ (fun _ => True) _ (k / 2) _ hmem
    (fun _ _ _ _ _ _ => trivial)
    (fun s s' _ hs => (pairStep_T hfb hnS hcur (hm _ hmem).1 (hm _ hmem).2 hs).2 k hk rfl hlive)
    (fun i hi s s' _ hw hs => Wk.step fb r1 r2 idxskip nS hk hw (pairStep_T hfb hnS hcur (hm i hi).1 (hm i hi).2 hs).1)
    _ _ trivial h

theorem singleFold_T (hfb : fb.WF) (hnS : fb.ibl[16]? = some nS) {B : Nat}
    {lo0 a a' : Array Nat} (hcur : CurInv fb r1 r2 idxskip nS B lo0) {s n : Nat} (hs : idxskip ≤ s)
    (h : (List.range' s n).foldlM (singleStep fb lo0) a = some a') :
    T fb r1 r2 idxskip nS lo0 a a' ∧
      ∀ k, k < 2 * nS → s ≤ k → k < s + n → LiveSlot r1 r2 k → Wk fb r1 r2 idxskip lo0 k a' := by
  have hm : ∀ i ∈ List.range' s n, idxskip ≤ i := by
    intro i hi
    have := List.mem_range'_1.1 hi
    omega
  refine ⟨foldlM_rel _ _ (T.refl fb r1 r2 idxskip nS lo0) (fun _ _ _ => T.trans fb r1 r2 idxskip nS) _
    (fun i hi s s' hs => (singleStep_T hfb hnS hcur (hm i hi) hs).1) _ _ h, ?_⟩
  intro k hk hk1 hk2 hlive
  have hmem : k ∈ List.range' s n := List.mem_range'_1.2 ⟨hk1, hk2⟩
  exact foldlM_reach _ (fun _ => True) _ k _ hmem (fun _ _ _ _ _ _ => trivial)
    (fun s s' _ hs => (singleStep_T hfb hnS hcur (hm k hmem) hs).2 hk hlive)
    (fun i hi s s' _ hw hs => Wk.step fb r1 r2 idxskip nS hk hw (singleStep_T hfb hnS hcur (hm i hi) hs).1)
    _ _ trivial h

theorem singleLog_T (hfb : fb.WF) (hnS : fb.ibl[16]? = some nS) {B : Nat}
    {lo0 a a' : Array Nat} (hcur : CurInv fb r1 r2 idxskip nS B lo0) {log : Nat} (hlog : log ≤ 15)
    (ha : a.size = 2 * nS)
    (h : singleLog fb idxskip lo0 a log = some a') :
    T fb r1 r2 idxskip nS lo0 a a' ∧
      ∀ k, k < 2 * nS → idxskip ≤ k → LiveSlot r1 r2 k → (∀ p, fb.primes[k / 2]? = some p → bitlen p = log) →
        Wk fb r1 r2 idxskip lo0 k a' := by
  unfold singleLog at h
  by_cases hl15 : log < 15
  · simp only [hl15, if_true, Option.bind_eq_bind, Option.bind_eq_some_iff, Option.map_eq_some_iff] at h
    obtain ⟨va, hva, iEnd, ⟨vb, hvb, rfl⟩, h⟩ := h
    obtain ⟨h1, h2⟩ := singleFold_T hfb hnS hcur (le_max_left _ _) h
    refine ⟨h1, ?_⟩
    intro k hk hki hlive hbl
    obtain ⟨p, o1, o2, hp, _⟩ := hcur.2 k hk
    have hcl := (hfb.class_of hp hva hvb).2 (hbl p hp)
    exact h2 k hk (by omega) (by omega) hlive
  · simp only [hl15, if_false, Option.bind_eq_bind, Option.bind_eq_some_iff, Option.some.injEq] at h
    obtain ⟨va, hva, iEnd, rfl, h⟩ := h
    obtain ⟨h1, h2⟩ := singleFold_T hfb hnS hcur (le_max_left _ _) h
    refine ⟨h1, ?_⟩
    intro k hk hki hlive hbl
    obtain ⟨p, o1, o2, hp, _⟩ := hcur.2 k hk
    have h15 : log = 15 := by omega
    subst h15
    have a1 := hfb.ibl_spec 15 (k / 2) va p hva hp
    have : ¬ k / 2 < va := fun hx => by have := a1.1 hx; have := hbl p hp; omega
    exact h2 k hk (by omega) (by omega) hlive

/-- `cursor_inv`, one block: `sieve_block` turns correct cursors of block `B` into correct cursors of
block `B + 1`; the previous array becomes `lo_prev` unchanged. -/
theorem sieveCursors_inv (hfb : fb.WF) (hnS : fb.ibl[16]? = some nS) (hev : idxskip % 2 = 0) {B : Nat}
    {lo0 lp0 lo lp : Array Nat} (hcur : CurInv fb r1 r2 idxskip nS B lo0) (hnone : NoneInv r1 r2 idxskip nS lp0)
    (h : sieveCursors fb idxskip lo0 lp0 = some (lo, lp)) :
    lp = lo0 ∧ CurInv fb r1 r2 idxskip nS (B + 1) lo := by
  unfold sieveCursors at h
  simp only [Option.bind_eq_bind, Option.bind_eq_some_iff, Option.some.injEq, Prod.mk.injEq] at h
  obtain ⟨la, hla, lb, hlb, lc, hlc, rfl, rfl⟩ := h
  refine ⟨rfl, ?_⟩
  obtain ⟨Ta, Wa⟩ := skipFold_T hfb hnS hcur hla
  -- the pair classes
  have hmP : ∀ log ∈ List.range' 2 11, log ≤ 12 := by
    intro l hl; have := List.mem_range'_1.1 hl; omega
  have Tb : T fb r1 r2 idxskip nS lo0 la lb :=
    foldlM_rel _ _ (T.refl fb r1 r2 idxskip nS lo0) (fun _ _ _ => T.trans fb r1 r2 idxskip nS) _
      (fun l hl s s' hs => (pairLog_T hfb hnS hev hcur (hmP l hl) hs).1) _ _ hlb
  -- the single classes (the array keeps its size)
  have hmS : ∀ log ∈ List.range' 13 3, log ≤ 15 := by
    intro l hl; have := List.mem_range'_1.1 hl; omega
  have hsa : la.size = 2 * nS := Ta.1.trans hnone.1
  have hsb : lb.size = 2 * nS := Tb.1.trans hsa
  have TcI := foldlM_inv_mem (singleLog fb idxskip lo0) (List.range' 13 3)
    (fun s => s.size = 2 * nS ∧ T fb r1 r2 idxskip nS lo0 lb s)
    (fun s l s' hl hp hs => by
      have := (singleLog_T hfb hnS hcur (hmS l hl) hp.1 hs).1
      exact ⟨this.1.trans hp.1, T.trans fb r1 r2 idxskip nS hp.2 this⟩)
    lb lc ⟨hsb, T.refl fb r1 r2 idxskip nS lo0 lb⟩ hlc
  have Tc := TcI.2
  have Tall := T.trans fb r1 r2 idxskip nS (T.trans fb r1 r2 idxskip nS Ta Tb) Tc
  refine ⟨TcI.1, ?_⟩
  intro k hk
  obtain ⟨p, o1, o2, hp, h1, h2, hif⟩ := hcur.2 k hk
  refine ⟨p, o1, o2, hp, h1, h2, ?_⟩
  by_cases hl : k % 2 = 0 ∨ o1 ≠ o2
  · rw [if_pos hl] at hif ⊢
    obtain ⟨c, hc, hlt, hinv⟩ := hif
    have hlive : LiveSlot r1 r2 k := by
      intro a b ha hb
      rw [h1] at ha; rw [h2] at hb
      have := Option.some.inj ha; subst this
      have := Option.some.inj hb; subst this
      exact hl
    have hW : Wk fb r1 r2 idxskip lo0 k lc := by
      by_cases hks : k < idxskip
      · exact Wk.step fb r1 r2 idxskip nS hk (Wk.step fb r1 r2 idxskip nS hk (Wa k hk hks) Tb) Tc
      · have hps := prime_small hfb hnS hk hp
        have hp2 := hfb.ge2 _ _ hp
        have hb15 : bitlen p < 15 + 1 := (bitlen_lt_succ_iff p 15).2 (by simpa using hps)
        have hbl : ∀ q, fb.primes[k / 2]? = some q → bitlen q = bitlen p := by
          intro q hq; rw [hp] at hq; rw [Option.some.inj hq]
        by_cases h12 : bitlen p ≤ 12
        · have hb2 : 2 ≤ bitlen p := by
            by_contra hx
            have : bitlen p < 1 + 1 := by omega
            have := (bitlen_lt_succ_iff p 1).1 this
            omega
          have hmem : bitlen p ∈ List.range' 2 11 := List.mem_range'_1.2 ⟨hb2, by omega⟩
          have hWb : Wk fb r1 r2 idxskip lo0 k lb :=
            foldlM_reach _ (fun _ => True) _ (bitlen p) _ hmem (fun _ _ _ _ _ _ => trivial)
              (fun s s' _ hs => (pairLog_T hfb hnS hev hcur h12 hs).2 k hk (by omega) hlive hbl)
              (fun l hl s s' _ hw hs => Wk.step fb r1 r2 idxskip nS hk hw (pairLog_T hfb hnS hev hcur (hmP l hl) hs).1)
              _ _ trivial hlb
          exact Wk.step fb r1 r2 idxskip nS hk hWb Tc
        · have hmem : bitlen p ∈ List.range' 13 3 := List.mem_range'_1.2 ⟨by omega, by omega⟩
          exact foldlM_reach _ (fun s => s.size = 2 * nS) _ (bitlen p) _ hmem
            (fun l hl s s' hp hs => (singleLog_T hfb hnS hcur (hmS l hl) hp hs).1.1.trans hp)
            (fun s s' hp hs => (singleLog_T hfb hnS hcur (by omega) hp hs).2 k hk (by omega) hlive hbl)
            (fun l hl s s' hp hw hs => Wk.step fb r1 r2 idxskip nS hk hw (singleLog_T hfb hnS hcur (hmS l hl) hp hs).1)
            _ _ hsb hlc
    obtain ⟨v, hv, p', o1', o2', hp', h1', h2', hg⟩ := hW
    rw [hp] at hp'; rw [h1] at h1'; rw [h2] at h2'
    have := Option.some.inj hp'; subst this
    have := Option.some.inj h1'; subst this
    have := Option.some.inj h2'; subst this
    rw [if_pos hl] at hg
    obtain ⟨c', hc', hn⟩ := hg
    rw [hc] at hc'
    have := Option.some.inj hc'; subst this
    exact ⟨v, hv, hn.1, hn.chain hinv⟩
  · rw [if_neg hl]
    intro hge
    rcases Tall.2 k hk with e | ⟨v, hv, p', o1', o2', hp', h1', h2', hg⟩
    · rw [e]; exact hnone.2 k hk o1 o2 h1 h2 hl hge
    · rw [h1] at h1'; rw [h2] at h2'
      have := Option.some.inj h1'; subst this
      have := Option.some.inj h2'; subst this
      rw [if_neg hl] at hg
      omega

end Cursor

end Ymq.Sieve
