/-
C10: `convolve_modn_ntt` end to end (`convolveNtt_spec`): `from_mint` + scatter (`scatter_vec`), the transform
pipeline per prime (`nttPipeline_spec`), `V < P/2` (`crt_call_bound`), CRT uniqueness, `_crt` (`crt_spec`),
`pprods_modn[q] ≡ -qP`, `zn.redc` (`redcElt_spec`, `redcElt_spec1` for a single prime).
-/
import Ymq.Lemmas.NttMint
import Ymq.Lemmas.PolyZMod

namespace Ymq.Crt
open Ymq.Mg64 (W)
open Ymq.Gen.Params

theorem new_crt_facts (n logsize : Nat) (m : Mzp) (h : new n logsize = some m) (hw2 : 2 ≤ m.w) :
    m.primes.length = m.w ∧ m.primes.Pairwise Nat.Coprime ∧ (∀ p ∈ m.primes, 0 < p) ∧
    m.pprod = m.primes.prod ∧
    (∀ j, j < m.w → m.crtP.getD j 0 * P m j = m.pprod) ∧
    (∀ j, j < m.w → ((m.crtP.getD j 0 : Nat) : ZMod (P m j)) * ((m.crtPinv.getD j 0 : Nat) : ZMod (P m j)) = 1) ∧
    (∀ j, m.crtPModn.getD j 0 = m.crtP.getD j 0 % n) := by
  obtain ⟨w, hw, ew, epp, epl, ecp⟩ := new_fields n logsize m h
  obtain ⟨w2, ew2, en, ekw, epr, einv, emodn, _⟩ := new_fields2 n logsize m h
  have hww : w2 = w := by rw [← ew2, ew]
  subst hww
  have hw26 : w2 ≤ 26 := mzp_w_le _ _ _ hw
  have hlenT : NTT_PRIME_VALUES.length = 26 := by decide
  have ht := tabOk_of_new n logsize m h
  have hok := tables_ok w2 (List.mem_range.2 (by omega)) (by rw [← ew]; exact hw2)
  unfold tablesOk at hok
  simp only [Bool.and_eq_true, Bool.or_eq_true, decide_eq_true_eq, List.all_eq_true, List.mem_range] at hok
  obtain ⟨_, k5⟩ := hok
  have hg1 : ∀ j, j < w2 → (NTT_PRIME_VALUES.take w2).getD j 1 = P m j := by
    intro j hj
    show _ = m.primes.getD j 0
    rw [epr, List.getD_eq_getElem?_getD, List.getD_eq_getElem?_getD,
      List.getElem?_eq_getElem (by rw [List.length_take, hlenT]; omega)]
    rfl
  have hcrtP : ∀ j, j < w2 → m.crtP.getD j 0 = prodExcept (NTT_PRIME_VALUES.take w2) j := by
    intro j hj
    rw [ecp, List.getD_eq_getElem?_getD, List.getElem?_map, List.getElem?_range hj]; rfl
  refine ⟨by rw [epr, List.length_take, hlenT, ew]; omega, ?_, ?_, ?_, ?_, ?_, ?_⟩
  · rw [epr]; exact List.Pairwise.sublist (List.take_sublist _ _) primes_coprime
  · intro p hp
    obtain ⟨j, hj, rfl⟩ := List.getElem_of_mem hp
    have hjw : j < m.w := by
      have : m.primes.length = m.w := by rw [epr, List.length_take, hlenT, ew]; omega
      omega
    have := (ht j hjw).pos
    have e : m.primes[j] = P m j := by
      show _ = m.primes.getD j 0
      rw [List.getD_eq_getElem?_getD, List.getElem?_eq_getElem hj]; rfl
    rw [e]; omega
  · rw [epp, epr, List.prod_eq_foldl]
  · intro j hj
    rw [ew] at hj
    rw [hcrtP j hj, ← hg1 j hj, epp]
    exact (k5 j hj).2
  · intro j hj
    rw [ew] at hj
    obtain ⟨_, hf⟩ := mapM_range_inv _ w2 m.crtPinv einv
    have hi := hf j hj
    rw [hg1 j hj] at hi
    have hp0 : 0 < P m j := by have := (ht j (by rw [ew]; exact hj)).pos; omega
    have := Ymq.PolyMul.invMod_sound _ _ _ hp0 hi
    rw [ZMod.natCast_mod, ← hcrtP j hj] at this
    exact this
  · intro j
    rw [emodn, List.getD_eq_getElem?_getD, List.getD_eq_getElem?_getD, List.getElem?_map]
    cases m.crtP[j]? <;> simp


/-- `mfe = V` means the stored residue is `V·R` -/
theorem resid_of_mfe {p : Nat} (h : PrimeOk p) (x V : Nat) (hx : mf p x = ((V : Nat) : ZMod p)) :
    ((x : Nat) : ZMod p) = ((V : Nat) : ZMod p) * ((W : Nat) : ZMod p) := by
  unfold mf at hx
  have hu := W_uinv h
  calc ((x : Nat) : ZMod p) = (x : ZMod p) * (((W : Nat) : ZMod p) * uinv p) := by rw [hu, mul_one]
    _ = ((x : ZMod p) * uinv p) * ((W : Nat) : ZMod p) := by ring
    _ = _ := by rw [hx]

/-- **`redc` of an element holding the residues of `V < P/2`** (`w ≥ 2`): `V·R⁻¹ mod n` -/
theorem redcElt_spec (n logsize : Nat) (m : Mzp) (h : new n logsize = some m) (hn : 0 < n) (hw2 : 2 ≤ m.w)
    (r : List Nat) (hr : EltOk m r) (V : Nat) (hV : 2 * V < m.pprod)
    (hres : ∀ j, j < m.w → mfe m r j = ((V : Nat) : ZMod (P m j))) (rinv : Nat) :
    redc m rinv r = some (V * rinv % n) := by
  have ok := new_crtOk n logsize m h hn hw2
  have ht := tabOk_of_new n logsize m h
  obtain ⟨lps, hco, hpos, hprod, hcp, hcpinv, hmodn⟩ := new_crt_facts n logsize m h hw2
  obtain ⟨_, _, en, ekw, _⟩ := new_fields2 n logsize m h
  obtain ⟨xs, lxs, hxs, hall⟩ := crt_spec m ok hw2 r hr.1 hr.2
  -- xs_j ≡ V·crt_pinv[j], hence V ≡ xs_j·(P/p_j) (mod p_j)
  have hxsV : ∀ j, j < m.w → ((V : Nat) : ZMod (P m j)) =
      ((xs.getD j 0 : Nat) : ZMod (P m j)) * ((m.crtP.getD j 0 : Nat) : ZMod (P m j)) := by
    intro j hj
    have hpo := ht j hj
    have h1 := (hxs j hj).2
    have hc : ((xs.getD j 0 * W : Nat) : ZMod (P m j)) = ((r.getD j 0 * m.crtPinv.getD j 0 : Nat) : ZMod (P m j)) :=
      (ZMod.natCast_eq_natCast_iff' _ _ _).2 h1
    push_cast at hc
    rw [resid_of_mfe hpo _ V (hres j hj)] at hc
    have hu := W_uinv hpo
    have hx : ((xs.getD j 0 : Nat) : ZMod (P m j)) = (V : ZMod (P m j)) * (m.crtPinv.getD j 0 : ZMod (P m j)) := by
      calc ((xs.getD j 0 : Nat) : ZMod (P m j))
          = ((xs.getD j 0 : Nat) : ZMod (P m j)) * ((W : Nat) : ZMod (P m j)) * uinv (P m j) := by
            rw [mul_assoc, hu, mul_one]
        _ = _ := by rw [hc]; calc _ = (V : ZMod (P m j)) * (m.crtPinv.getD j 0 : ZMod (P m j)) *
              (((W : Nat) : ZMod (P m j)) * uinv (P m j)) := by ring
            _ = _ := by rw [hu, mul_one]
    rw [hx, mul_assoc, mul_comm (m.crtPinv.getD j 0 : ZMod (P m j)), hcpinv j hj, mul_one]
  -- the CRT quotient
  have hget : ∀ i : Fin m.primes.length, m.primes.get i = P m i.val := by
    intro i
    show _ = m.primes.getD i.val 0
    rw [List.getD_eq_getElem?_getD, List.getElem?_eq_getElem i.isLt]; rfl
  have hdiv : ∀ i : Fin m.primes.length, m.primes.prod / m.primes.get i = m.crtP.getD i.val 0 := by
    intro i
    have hi : i.val < m.w := by rw [← lps]; exact i.isLt
    rw [hget i, ← hprod, ← hcp i.val hi]
    exact Nat.mul_div_cancel _ (by have := (ht i.val hi).pos; omega)
  obtain ⟨q, ⟨hq, hrec⟩, _⟩ := crt_unique' m.primes (by omega) hco hpos (fun i => xs.getD i.val 0) (by
      intro i
      rw [hget i]
      exact (hxs i.val (by rw [← lps]; exact i.isLt)).1) V (by rw [← hprod]; omega) (by
      intro i
      have hi : i.val < m.w := by rw [← lps]; exact i.isLt
      rw [hdiv i, hget i]
      apply (ZMod.natCast_eq_natCast_iff _ _ _).1
      push_cast
      exact hxsV i.val hi)
  have hrec' : V + q * m.pprod = ∑ j ∈ Finset.range m.w, xs.getD j 0 * m.crtP.getD j 0 := by
    rw [hprod, hrec, ← lps, ← Fin.sum_univ_eq_sum_range (fun j => xs.getD j 0 * m.crtP.getD j 0)]
    apply Finset.sum_congr rfl
    intro i _
    rw [hdiv i]
  rw [lps] at hq
  obtain ⟨ws, ecrt, _, vws⟩ := hall q V hrec' hV hq
  -- T ≡ V (mod n)
  have hpn := pprods_neg n logsize m h hn q hq
  have hT : valWords ws ≡ V [MOD n] := by
    apply (ZMod.natCast_eq_natCast_iff _ _ _).1
    rw [vws]
    push_cast
    have h1 : ∀ j ∈ Finset.range m.w, ((xs.getD j 0 : Nat) : ZMod n) * ((m.crtPModn.getD j 0 : Nat) : ZMod n) =
        ((xs.getD j 0 : Nat) : ZMod n) * ((m.crtP.getD j 0 : Nat) : ZMod n) := by
      intro j _; rw [hmodn j, ZMod.natCast_mod]
    rw [Finset.sum_congr rfl h1]
    have h2 : ((V + q * m.pprod : Nat) : ZMod n) =
        ∑ j ∈ Finset.range m.w, ((xs.getD j 0 : Nat) : ZMod n) * ((m.crtP.getD j 0 : Nat) : ZMod n) := by
      rw [hrec']; push_cast; rfl
    rw [← h2]
    have h3 : ((m.pprodsModn.getD q 0 + q * m.pprod : Nat) : ZMod n) = 0 := by
      rw [ZMod.natCast_eq_zero_iff]; exact Nat.dvd_of_mod_eq_zero hpn
    push_cast at h3 ⊢
    linear_combination h3
  -- T < n·R
  have hw26 := ok.est.w_le
  obtain ⟨qp, eqp, hqp⟩ := ok.pprods q hq
  have hgetq : m.pprodsModn.getD q 0 = qp := by rw [List.getD_eq_getElem?_getD, eqp]; rfl
  have hsum : ∑ j ∈ Finset.range m.w, xs.getD j 0 * m.crtPModn.getD j 0 ≤ m.w * (2 ^ 59 * m.n) :=
    sum_range_le m.w _ _ (fun j hj => Nat.mul_le_mul
      (le_of_lt (lt_trans (hxs j hj).1 (ht j hj).lt)) (le_of_lt (ok.modn_lt j hj)))
  have hkw1 : 1 ≤ m.kw := by
    have hb := Ymq.PolyMul.bitlen_lt n
    have : 1 ≤ Ymq.Checked.bitlen n := by
      by_contra hcon
      have : Ymq.Checked.bitlen n = 0 := by omega
      rw [this] at hb; omega
    rw [ekw]; omega
  have hTlt : valWords ws < m.n * W ^ m.kw := by
    have h1 : ∑ j ∈ Finset.range m.w, xs.getD j 0 * m.crtPModn.getD j 0 ≤ 26 * (2 ^ 59 * m.n) :=
      le_trans hsum (Nat.mul_le_mul_right _ hw26)
    have h1' : 26 * (2 ^ 59 * m.n) = 14987979559889010688 * m.n := by rw [← Nat.mul_assoc]; norm_num
    rw [h1'] at h1
    have hWle : W ≤ W ^ m.kw := by
      calc W = W ^ 1 := (pow_one W).symm
        _ ≤ W ^ m.kw := Nat.pow_le_pow_right (by decide) hkw1
    have h2 : m.n * W ≤ m.n * W ^ m.kw := Nat.mul_le_mul_left _ hWle
    have hWv : W = 18446744073709551616 := rfl
    rw [vws, hgetq]
    have hn' : 0 < m.n := by rw [en]; exact hn
    generalize W ^ m.kw = K at h2 ⊢
    rw [hWv] at h2
    generalize m.n * K = NK at h2 ⊢
    omega
  unfold redc
  rw [ecrt]
  simp only
  rw [if_pos hTlt, en]
  congr 1
  exact Nat.ModEq.mul_right rinv hT


theorem valWords_zeros (k : Nat) : valWords (List.replicate k 0) = 0 := by
  induction k with
  | zero => rfl
  | succ k ih => rw [List.replicate_succ, valWords, ih]; simp

/-- `redc` for a single prime -/
theorem redcElt_spec1 (n logsize : Nat) (m : Mzp) (h : new n logsize = some m) (hn : 0 < n) (hw1 : m.w = 1)
    (r : List Nat) (hr : EltOk m r) (V : Nat) (hV : 2 * V < m.pprod)
    (hres : ∀ j, j < m.w → mfe m r j = ((V : Nat) : ZMod (P m j))) (rinv : Nat) :
    redc m rinv r = some (V * rinv % n) := by
  have ht := tabOk_of_new n logsize m h
  have hpo := ht 0 (by omega)
  obtain ⟨w, hw, ew, epp, _, _⟩ := new_fields n logsize m h
  obtain ⟨w2, ew2, en, ekw, epr, _⟩ := new_fields2 n logsize m h
  have hlenT : NTT_PRIME_VALUES.length = 26 := by decide
  have hw' : w = 1 := by omega
  have hw2' : w2 = 1 := by omega
  subst hw' hw2'
  have hprimes : m.primes = [P m 0] := by
    have hl : m.primes.length = 1 := by rw [epr, List.length_take, hlenT]; rfl
    match hm : m.primes, hl with
    | [a], _ => show [a] = [m.primes.getD 0 0]; rw [hm]; rfl
  have hpp : m.pprod = P m 0 := by
    rw [epp, ← List.prod_eq_foldl, ← epr, hprimes]; simp
  have hp0 : m.primes[0]? = some (P m 0) := by rw [hprimes]; rfl
  have hr0 : r.getD 0 0 < P m 0 := hr.2 0 (by omega)
  obtain ⟨v, ev, vlt, vmod⟩ := Ymq.C07.mgRedc_spec (P m 0) (P m 0 - 2) (r.getD 0 0) (by have := hpo.pos; omega)
    hpo.ltW hpo.inv (lt_of_lt_of_le hr0 (Nat.le_mul_of_pos_right _ (by decide)))
  have hvV : v = V := by
    have hc : ((v * W : Nat) : ZMod (P m 0)) = ((r.getD 0 0 : Nat) : ZMod (P m 0)) :=
      (ZMod.natCast_eq_natCast_iff' _ _ _).2 vmod
    rw [resid_of_mfe hpo _ V (hres 0 (by omega))] at hc
    push_cast at hc
    have hu := W_uinv hpo
    have : ((v : Nat) : ZMod (P m 0)) = ((V : Nat) : ZMod (P m 0)) := by
      calc ((v : Nat) : ZMod (P m 0)) = (v : ZMod (P m 0)) * ((W : Nat) : ZMod (P m 0)) * uinv (P m 0) := by
            rw [mul_assoc, hu, mul_one]
        _ = (V : ZMod (P m 0)) * (((W : Nat) : ZMod (P m 0)) * uinv (P m 0)) := by rw [hc]; ring
        _ = _ := by rw [hu, mul_one]
    have hmod := (ZMod.natCast_eq_natCast_iff' _ _ _).1 this
    rw [Nat.mod_eq_of_lt vlt, Nat.mod_eq_of_lt (by omega)] at hmod
    exact hmod
  unfold redc crt
  rw [if_neg (by rw [hr.1]; simp), if_pos hw1, hp0]
  simp only [ev, Option.map_some]
  have hval : valWords (v :: List.replicate m.kw 0) = v := by
    rw [valWords, valWords_zeros, Nat.mul_zero, Nat.add_zero]
  rw [hval, en, hvV]
  rw [if_pos]
  have h58 := hpo.lt
  have hpow : 1 ≤ W ^ m.kw := Nat.one_le_pow _ _ (by decide)
  by_cases hk : m.kw = 0
  · -- kw ≥ 1 for n > 0
    have hb := Ymq.PolyMul.bitlen_lt n
    have : 1 ≤ Ymq.Checked.bitlen n := by
      by_contra hcon
      have : Ymq.Checked.bitlen n = 0 := by omega
      rw [this] at hb; omega
    rw [ekw] at hk; omega
  · have hWle : W ≤ W ^ m.kw := by
      calc W = W ^ 1 := (pow_one W).symm
        _ ≤ W ^ m.kw := Nat.pow_le_pow_right (by decide) (by omega)
    have h1 : 1 * W ^ m.kw ≤ n * W ^ m.kw := Nat.mul_le_mul_right _ hn
    rw [Nat.one_mul] at h1
    have h2 : V < P m 0 := by rw [hpp] at hV; omega
    have h3 : P m 0 < W := hpo.ltW
    exact lt_of_lt_of_le (lt_trans h2 h3) (le_trans hWle h1)


theorem log2Exact_pow' : ∀ (f k : Nat), k < f → log2Exact f (2 ^ k) = some k := by
  intro f
  induction f with
  | zero => intro k hk; omega
  | succ f ih =>
    intro k hk
    unfold log2Exact
    cases k with
    | zero => simp
    | succ k =>
      have hp : 0 < 2 ^ k := Nat.pow_pos (by decide)
      have h1 : ¬ (2 ^ (k + 1) = 1) := by rw [pow_succ]; omega
      have h2 : ¬ (2 ^ (k + 1) % 2 = 1 ∨ 2 ^ (k + 1) = 0) := by rw [pow_succ]; omega
      rw [if_neg h1, if_neg h2, show 2 ^ (k + 1) / 2 = 2 ^ k by rw [pow_succ]; omega, ih k (by omega)]
      rfl

/-- the operand vector after `from_mint` + scatter -/
theorem scatter_vec (n logsize : Nat) (m : Mzp) (h : new n logsize = some m) (hn : 0 < n)
    (hbits : Ymq.Checked.bitlen n ≤ 512) (K : Nat) (p : List Nat) (hp : ∀ v ∈ p, v < n) (lp : p.length ≤ 2 ^ K) :
    ∃ F, scatterRev m K (p.map (Ymq.Limbs.ofNat 8)) 0 (List.replicate (2 ^ K) (List.replicate m.w 0)) = some F ∧
      VecOk m F (2 ^ K) ∧ ∀ t, t < 2 ^ K → ∀ j, j < m.w →
        mfe m (F.getD (bitrev K t) []) j = ((p.getD t 0 : Nat) : ZMod (P m j)) := by
  have ht := tabOk_of_new n logsize m h
  set Z : List Nat → List Nat := fun x => (fromMint m x).getD [] with hZ
  obtain ⟨F, e, lF, hF⟩ := scatterRev_spec m K Z (p.map (Ymq.Limbs.ofNat 8)) 0
    (List.replicate (2 ^ K) (List.replicate m.w 0)) (by simpa using lp) (by simp) (by
      intro x hx
      obtain ⟨v, hv, rfl⟩ := List.mem_map.1 hx
      obtain ⟨z, ez, _, _⟩ := fromMint_spec n logsize m h hn hbits v (hp v hv)
      rw [hZ]; simp only [ez, Option.getD_some])
  have hzero : ∀ s, s < 2 ^ K → (List.replicate (2 ^ K) (List.replicate m.w 0)).getD s [] = List.replicate m.w 0 := by
    intro s hs
    rw [List.getD_eq_getElem?_getD, List.getElem?_replicate, if_pos hs]; rfl
  have hdesc : ∀ t, t < 2 ^ K → EltOk m (F.getD (bitrev K t) []) ∧
      ∀ j, j < m.w → mfe m (F.getD (bitrev K t) []) j = ((p.getD t 0 : Nat) : ZMod (P m j)) := by
    intro t ht'
    rw [hF t ht']
    simp only [List.length_map, Nat.zero_add, Nat.zero_le, true_and, Nat.sub_zero]
    by_cases htp : t < p.length
    · rw [if_pos htp]
      have hget : (p.map (Ymq.Limbs.ofNat 8)).getD t [] = Ymq.Limbs.ofNat 8 (p.getD t 0) := by
        rw [List.getD_eq_getElem?_getD, List.getElem?_map, List.getD_eq_getElem?_getD,
          List.getElem?_eq_getElem htp]; rfl
      have hvn : p.getD t 0 < n := by
        apply hp
        rw [List.getD_eq_getElem?_getD, List.getElem?_eq_getElem htp]; simp
      obtain ⟨z, ez, hz, hzv⟩ := fromMint_spec n logsize m h hn hbits (p.getD t 0) hvn
      rw [hget, hZ]
      simp only [ez, Option.getD_some]
      exact ⟨hz, hzv⟩
    · rw [if_neg htp, hzero _ (bitrev_lt K t)]
      refine ⟨eltOk_zero m ht, fun j hj => ?_⟩
      rw [mfe_zero m j hj, List.getD_eq_getElem?_getD, List.getElem?_eq_none (by omega)]
      simp
  refine ⟨F, e, ⟨lF, ?_⟩, fun t ht' => (hdesc t ht').2⟩
  intro el hel
  obtain ⟨s, hs, rfl⟩ := List.getElem_of_mem hel
  have hs' : s < 2 ^ K := by rw [← lF]; exact hs
  have := (hdesc (bitrev K s) (bitrev_lt K s)).1
  rw [bitrev_invol K s hs', List.getD_eq_getElem?_getD, List.getElem?_eq_getElem hs] at this
  exact this


/-- coefficient `i` of the cyclic product (as an integer) -/
def cycNat (N : Nat) (p1 p2 : List Nat) (i : Nat) : Nat :=
  ∑ a ∈ Finset.range N, p1.getD a 0 * p2.getD ((i + N - a) % N) 0

theorem cycNat_le (N n : Nat) (p1 p2 : List Nat) (h1 : ∀ v ∈ p1, v < n) (h2 : ∀ v ∈ p2, v < n) (_hn : 0 < n) (i : Nat) :
    cycNat N p1 p2 i ≤ N * (n * n) := by
  have hg : ∀ (p : List Nat), (∀ v ∈ p, v < n) → ∀ a, p.getD a 0 ≤ n := by
    intro p hp a
    rw [List.getD_eq_getElem?_getD]
    cases hh : p[a]? with
    | none => simp
    | some v => exact le_of_lt (hp v (List.mem_of_getElem? hh))
  unfold cycNat
  exact sum_range_le N _ _ (fun a _ => Nat.mul_le_mul (hg p1 h1 a) (hg p2 h2 _))

/-- **`convolve_modn_ntt` is the cyclic convolution modulo `n`** (word-level model, end to end) -/
theorem convolveNtt_spec (n logsize : Nat) (m : Mzp) (hm : new n logsize = some m) (hn : 0 < n)
    (hbits : Ymq.Checked.bitlen n ≤ 512) (hL : logsize ≤ 31) (K : Nat) (h1 : 1 ≤ K) (hk : K ≤ logsize)
    (p1 p2 : List Nat) (hp1 : ∀ v ∈ p1, v < n) (hp2 : ∀ v ∈ p2, v < n) (l1 : p1.length ≤ 2 ^ K)
    (l2 : p2.length ≤ 2 ^ K) (rinv reslen offset : Nat) :
    ∃ rts res, rootsPacked m = some rts ∧
      convolveNtt m rts rinv (2 ^ K) (p1.map (Ymq.Limbs.ofNat 8)) (p2.map (Ymq.Limbs.ofNat 8)) reslen offset =
        some res ∧ res.length = reslen ∧
      ∀ t, t < reslen → res.getD t 0 =
        if offset + t < 2 ^ K then cycNat (2 ^ K) p1 p2 (offset + t) * rinv % n else 0 := by
  obtain ⟨ek, _, _⟩ := new_fields3 n logsize m hm
  have hkm : K ≤ m.k := by rw [ek]; exact hk
  have hK31 : m.k ≤ 31 := by rw [ek]; exact hL
  obtain ⟨F1, e1, v1, s1⟩ := scatter_vec n logsize m hm hn hbits K p1 hp1 l1
  obtain ⟨F2, e2, v2, s2⟩ := scatter_vec n logsize m hm hn hbits K p2 hp2 l2
  obtain ⟨rts, g1, g2, hh, r, erts, eg1, eg2, eh, er, vr, sr⟩ :=
    nttPipeline_spec n logsize m hm hK31 K h1 hkm F1 F2 v1 v2
  -- residues of the result
  have hp : 0 < 2 ^ K := Nat.pow_pos (by decide)
  have hres : ∀ i, i < 2 ^ K → ∀ j, j < m.w →
      mfe m (r.getD i []) j = ((cycNat (2 ^ K) p1 p2 i : Nat) : ZMod (P m j)) := by
    intro i hi j hj
    rw [sr j hj i hi]
    unfold Ymq.Dft.cyc cycNat
    push_cast
    apply Finset.sum_congr rfl
    intro a ha
    rw [s1 a (by simpa using ha) j hj, s2 _ (Nat.mod_lt _ hp) j hj]
  -- every redc
  obtain ⟨w, hw, ew, _⟩ := new_fields n logsize m hm
  have hweq := mzp_w_eq _ _ _ hw
  have hredc : ∀ i, i < 2 ^ K → redc m rinv (r.getD i []) = some (cycNat (2 ^ K) p1 p2 i * rinv % n) := by
    intro i hi
    have hV := crt_call_bound n logsize m hm (2 ^ K) (cycNat (2 ^ K) p1 p2 i)
      (Nat.pow_le_pow_right (by decide) hk) (cycNat_le _ n p1 p2 hp1 hp2 hn i)
    have hV' : 2 * cycNat (2 ^ K) p1 p2 i < m.pprod := by rcases hV with h | h <;> omega
    by_cases hw1 : m.w = 1
    · exact redcElt_spec1 n logsize m hm hn hw1 _ (vr.getD i hi) _ hV' (hres i hi) rinv
    · exact redcElt_spec n logsize m hm hn (by omega) _ (vr.getD i hi) _ hV' (hres i hi) rinv
  obtain ⟨res, eres, lres, hresv⟩ := mapM_range' (α := Nat) 0
    (Q := fun t v => v = if offset + t < 2 ^ K then cycNat (2 ^ K) p1 p2 (offset + t) * rinv % n else 0)
    (fun t => if offset + t < 2 ^ K then redc m rinv (r.getD (offset + t) []) else some 0) reslen (by
      intro t _
      by_cases hlt : offset + t < 2 ^ K
      · exact ⟨_, by rw [if_pos hlt]; exact hredc _ hlt, by rw [if_pos hlt]⟩
      · exact ⟨0, by rw [if_neg hlt], by rw [if_neg hlt]⟩)
  refine ⟨rts, res, erts, ?_, lres, hresv⟩
  unfold convolveNtt
  rw [log2Exact_pow' 64 K (by omega)]
  simp only
  rw [if_neg (by omega), if_neg (by omega)]
  simp only [e1, e2, eg1, eg2, eh, er]
  exact eres

end Ymq.Crt
