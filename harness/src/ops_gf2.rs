//! GF(2) kernel solvers (C14): kernel_gauss, kernel_lanczos (+ the block Y recorded by the
//! hook), qs_optimize, sparse x block and block x block products.
//!
//! Formats. A bit vector is printed as the hexadecimal integer sum(v[i] << i) (index 0 = least
//! significant bit). A sparse matrix is `<nrows> <ncols> <cols>` where `<cols>` joins the columns
//! with `;`, a column being its comma separated row indices in the given order (`-` = no index);
//! `<cols>` is `-` when ncols = 0. Blocks are comma separated hexadecimal 64-bit words.
use bitvec_simd::BitVec;
use yamaquasi::matrix::gf2::{self, verif_hooks as vh, SparseMat};
use yamaquasi::Verbosity;

fn usize_of(s: &str) -> Option<usize> {
    s.parse().ok()
}

fn sparse_of(ncols: usize, s: &str) -> Option<Vec<Vec<usize>>> {
    if ncols == 0 {
        return if s == "-" { Some(vec![]) } else { None };
    }
    let cols: Option<Vec<Vec<usize>>> = s
        .split(';')
        .map(|c| {
            if c == "-" {
                Some(vec![])
            } else {
                c.split(',').map(|x| x.parse().ok()).collect()
            }
        })
        .collect();
    let cols = cols?;
    if cols.len() != ncols {
        return None;
    }
    Some(cols)
}

fn hexbits(s: &str) -> Option<Vec<bool>> {
    // little-endian bits of a hexadecimal integer
    let mut out = Vec::with_capacity(4 * s.len());
    for ch in s.chars().rev() {
        let d = ch.to_digit(16)?;
        for k in 0..4 {
            out.push((d >> k) & 1 == 1);
        }
    }
    Some(out)
}

fn words_of(s: &str) -> Option<Vec<u64>> {
    if s == "-" {
        return Some(vec![]);
    }
    s.split(',').map(|x| u64::from_str_radix(x, 16).ok()).collect()
}

fn show_words(w: &[u64]) -> String {
    if w.is_empty() {
        "-".to_string()
    } else {
        w.iter().map(|x| format!("{:x}", x)).collect::<Vec<_>>().join(",")
    }
}

fn show_vec(v: &BitVec) -> String {
    // hexadecimal integer, bit i = v[i]
    let n = v.len();
    let mut digits = Vec::with_capacity(n / 4 + 1);
    let mut i = 0;
    while i < n {
        let mut d = 0u32;
        for k in 0..4 {
            if i + k < n && v.get_unchecked(i + k) {
                d |= 1 << k;
            }
        }
        digits.push(std::char::from_digit(d, 16).unwrap());
        i += 4;
    }
    while digits.len() > 1 && *digits.last().unwrap() == '0' {
        digits.pop();
    }
    if digits.is_empty() {
        digits.push('0');
    }
    digits.iter().rev().collect()
}

fn show_vecs(vs: &[BitVec]) -> String {
    if vs.is_empty() {
        "-".to_string()
    } else {
        vs.iter().map(show_vec).collect::<Vec<_>>().join(",")
    }
}

/// dense columns of a Gauss request
fn gauss_columns(nrows: usize, ncols: usize, fmt: &str, data: &str) -> Option<Vec<BitVec>> {
    let mut out = vec![];
    match fmt {
        "s" => {
            for col in sparse_of(ncols, data)? {
                let mut v = BitVec::zeros(nrows);
                for i in col {
                    v.set(i, true); // as relations.rs final_step builds its dense columns
                }
                out.push(v);
            }
        }
        "h" => {
            if ncols == 0 {
                return if data == "-" { Some(out) } else { None };
            }
            for h in data.split(',') {
                let bits = hexbits(h)?;
                let mut v = BitVec::zeros(nrows);
                for (i, &b) in bits.iter().enumerate() {
                    if b {
                        if i >= nrows {
                            return None;
                        }
                        v.set(i, true);
                    }
                }
                out.push(v);
            }
        }
        "b" => {
            // bit strings, every column with its own length (`e` = a column of length 0)
            if ncols == 0 {
                return if data == "-" { Some(out) } else { None };
            }
            for c in data.split(',') {
                let mut v = BitVec::zeros(if c == "e" { 0 } else { c.len() });
                if c != "e" {
                    for (i, ch) in c.chars().enumerate() {
                        match ch {
                            '0' => {}
                            '1' => v.set(i, true),
                            _ => return None,
                        }
                    }
                }
                out.push(v);
            }
        }
        _ => return None,
    }
    if out.len() != ncols {
        return None;
    }
    Some(out)
}

pub fn handle(op: &str, a: &[&str]) -> Option<String> {
    match (op, a) {
        ("gf2_gauss", [nrows, ncols, fmt, data]) => {
            let cols = gauss_columns(usize_of(nrows)?, usize_of(ncols)?, fmt, data)?;
            let ker = gf2::kernel_gauss(cols);
            Some(show_vecs(&ker))
        }
        ("gf2_lanczos", [nrows, ncols, data, rest @ ..]) => {
            // optional trailing tokens: a run counter (digits, ignored) and the verbosity
            // `silent` (default) | `info` (the library default) | `verbose` | `debug`; messages go to stderr
            let mut verbose = Verbosity::Silent;
            for t in rest {
                match *t {
                    "silent" => verbose = Verbosity::Silent,
                    "info" => verbose = Verbosity::Info,
                    "verbose" => verbose = Verbosity::Verbose,
                    "debug" => verbose = Verbosity::Debug,
                    _ => {
                        if !t.chars().all(|c| c.is_ascii_digit()) {
                            return None;
                        }
                    }
                }
            }
            let cols = sparse_of(usize_of(ncols)?, data)?;
            let mat = SparseMat { k: usize_of(nrows)?, cols };
            let _ = vh::take_y();
            let ker = gf2::kernel_lanczos(&mat, verbose);
            let y = vh::take_y()?;
            Some(format!("{} {}", show_vecs(&ker), show_words(&y)))
        }
        ("gf2_qsopt", [nrows, ncols, data]) => {
            let cols = sparse_of(usize_of(ncols)?, data)?;
            let mat = SparseMat { k: usize_of(nrows)?, cols };
            let opt = gf2::qs_optimize(&mat);
            // the order of the coordinate list is not part of the answer (canonicalised)
            let mut xy = opt.xy.clone();
            xy.sort();
            let xys = if xy.is_empty() {
                "-".to_string()
            } else {
                xy.iter().map(|(i, j)| format!("{}.{}", i, j)).collect::<Vec<_>>().join(",")
            };
            Some(format!(
                "{} {} {} {}",
                opt.nx,
                opt.ny,
                show_words(vh::block_words(&opt.block)),
                xys
            ))
        }
        ("gf2_optmul", [nrows, ncols, data, y]) => {
            let cols = sparse_of(usize_of(ncols)?, data)?;
            let mat = SparseMat { k: usize_of(nrows)?, cols };
            let opt = gf2::qs_optimize(&mat);
            let y = vh::block_from_words(words_of(y)?);
            let r = &opt * &y;
            Some(show_words(vh::block_words(&r)))
        }
        ("gf2_spmul", [nrows, ncols, data, y]) => {
            let cols = sparse_of(usize_of(ncols)?, data)?;
            let mat = SparseMat { k: usize_of(nrows)?, cols };
            let y = vh::block_from_words(words_of(y)?);
            let r = &mat * &y;
            Some(show_words(vh::block_words(&r)))
        }
        ("gf2_blockdot", [x, y]) => {
            let x = vh::block_from_words(words_of(x)?);
            let y = vh::block_from_words(words_of(y)?);
            let m = &x * &y;
            Some(show_words(&vh::smallmat_words(&m)))
        }
        _ => None,
    }
}
