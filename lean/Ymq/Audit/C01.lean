import Ymq.Props.C01
import Ymq.Props.C01Closed
import Ymq.Props.C01Closed2
#print axioms Ymq.C01.factor_no_one
#print axioms Ymq.C01.factor_sound
#print axioms Ymq.C01.retain_residue_one
#print axioms Ymq.C01.combineDiv_prod
#print axioms Ymq.C01.combineDiv_no_panic
#print axioms Ymq.C01.factorImpl_prod
#print axioms Ymq.C01.factor_exact
#print axioms Ymq.C01.oracleOK_of_models
#print axioms Ymq.C01.factor_exact_closed
#print axioms Ymq.C01.factor_total_closed
#print axioms Ymq.C01.oracleOK_of_models_v2
#print axioms Ymq.C01.factor_exact_closed_v2
#print axioms Ymq.C01.factor_total_closed_v2
#print axioms Ymq.C01.trial_divided_noSmall
#print axioms Ymq.C01.squfofModel_exactSeed
#print axioms Ymq.C01.qs64_model_violates_oracleOK_clause
