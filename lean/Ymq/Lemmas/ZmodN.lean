/-
Lemmas about the model of `ZmodN` (Ymq/Model/ZmodN.lean), part 1: the limb helpers
`mint_lt`, `mint_add`, `mint_sub`, the conditional subtraction, and `add` / `sub`.
-/
import Ymq.Lemmas.Limbs
import Ymq.Model.ZmodN
import Mathlib.Data.Nat.ModEq

namespace Ymq.ZmodN
open Ymq.Limbs

/-- A well-formed context: what `ZmodN::new(n)` establishes (see `new_valid` in Props/C07). -/
structure Valid (c : Ctx) : Prop where
  kpos : 1 ≤ c.k
  kle : c.k ≤ 8
  nodd : c.n % 2 = 1
  nlt : c.n < W ^ c.k
  hninv : (c.n * c.ninv + 1) % W = 0
  rlen : c.r.length = 8
  rwf : Wf c.r
  rval : val c.r = W ^ c.k % c.n
  r2len : c.r2.length = 8
  r2wf : Wf c.r2
  r2val : val c.r2 = W ^ c.k * W ^ c.k % c.n

theorem mintLt_spec (x ns : List Nat) (k : Nat) (hx : Wf x) (hn : Wf ns)
    (hvx : val x < 2 * W ^ k) (hvn : val ns < W ^ k) (hkx : k ≤ x.length) (hkn : k ≤ ns.length) :
    mintLt x ns k = some (decide (val x < val ns)) := by
  have hW : 2 ≤ W := by decide
  have h1 : allZero (x.drop (k + 1)) = true := by
    apply allZero_of_val_eq_zero
    apply val_drop_eq_zero
    rw [pow_succ]; nlinarith [Nat.pow_pos (n := k) W_pos]
  have h2 : allZero (ns.drop k) = true := allZero_of_val_eq_zero _ (val_drop_eq_zero hvn)
  have ex := val_take_drop x k
  have en := val_take_drop ns k
  rw [val_drop_eq_zero hvn] at en
  have hlo := val_take_lt hx k
  unfold mintLt
  simp only [h1, h2, not_true_eq_false, if_false]
  by_cases hc : k < x.length ∧ x.getD k 0 > 0
  · simp only [hc, and_self, if_true]
    rw [drop_cons_getD x k hc.1] at ex
    simp only [val_cons] at ex
    have : W ^ k * 1 ≤ W ^ k * (x.getD k 0 + W * val (x.drop (k + 1))) :=
      Nat.mul_le_mul_left _ (by omega)
    have : ¬ (val x < val ns) := by omega
    simp [this]
  · simp only [hc, if_false]
    have hhi : val (x.drop k) = 0 := by
      by_cases hk : k < x.length
      · have h0 : x.getD k 0 = 0 := by
          by_contra h; exact hc ⟨hk, Nat.pos_of_ne_zero h⟩
        rw [drop_cons_getD x k hk, val_cons, h0]
        have : val (x.drop (k + 1)) = 0 := by
          apply val_drop_eq_zero
          rw [pow_succ]; nlinarith [Nat.pow_pos (n := k) W_pos]
        rw [this]; simp
      · rw [List.drop_eq_nil_of_le (by omega)]; rfl
    rw [hhi] at ex
    rw [ltWords_spec _ _ (by simp [List.length_take, Nat.min_eq_left hkx, Nat.min_eq_left hkn])
      (Wf_take hx k) (Wf_take hn k), ex, en]
    simp


theorem mintAdd_spec (x y : List Nat) (k : Nat) (hx : Wf x)
    (hvx : val x < W ^ k) (hkx : k ≤ x.length) (hky : k ≤ y.length)
    (hfit : k < x.length ∨ val x + val (y.take k) < W ^ k) (hyk : val (y.take k) < W ^ k) :
    ∃ m, mintAdd x y k = some m ∧ val m = val x + val (y.take k) ∧ m.length = x.length ∧ Wf m := by
  have hl : (x.take k).length = (y.take k).length := by
    simp [List.length_take, Nat.min_eq_left hkx, Nat.min_eq_left hky]
  obtain ⟨e1, e2, e3⟩ := addc_spec (x.take k) (y.take k) 0 hl
  have hlk : (x.take k).length = k := by simp [List.length_take, Nat.min_eq_left hkx]
  rw [hlk] at e1 e2
  have ex := val_take_drop x k
  have hhi := val_drop_eq_zero hvx
  rw [hhi] at ex
  have hlo := val_lt e3
  rw [e2] at hlo
  unfold mintAdd
  generalize addc (x.take k) (y.take k) 0 = r at *
  generalize hY : val (y.take k) = Y at *
  generalize hP : W ^ k = P at *
  have hc : r.2 ≤ 1 := by
    by_contra h
    have : P * 2 ≤ P * r.2 := Nat.mul_le_mul_left _ (by omega)
    omega
  by_cases hk : k < x.length
  · rw [drop_cons_getD x k hk, val_cons] at hhi
    have h0 : x.getD k 0 = 0 := by omega
    have h1 : val (x.drop (k + 1)) = 0 := by
      have : W * val (x.drop (k + 1)) = 0 := by omega
      rcases Nat.mul_eq_zero.1 this with h | h
      · exact absurd h (by decide)
      · exact h
    have hW : 1 < W := by decide
    simp only [hk, if_true, h0, Nat.zero_add]
    have : ¬ (r.2 ≥ W) := by omega
    simp only [this, if_false]
    refine ⟨_, rfl, ?_, ?_, ?_⟩
    · rw [val_append, val_cons, h1, e2, hP]; simp; omega
    · simp [e2]; omega
    · exact Wf_append.2 ⟨e3, Wf_cons.2 ⟨by omega, Wf_drop hx _⟩⟩
  · have hfit' : val x + Y < P := by
      rcases hfit with h | h
      · exact absurd h hk
      · exact h
    have hc0 : r.2 = 0 := by
      by_contra h
      have : P * 1 ≤ P * r.2 := Nat.mul_le_mul_left _ (by omega)
      omega
    simp only [hk, if_false, hc0, ne_eq, not_true_eq_false]
    refine ⟨_, rfl, ?_, by omega, e3⟩
    rw [hc0] at e1; omega

theorem mintSub_spec (x y : List Nat) (k Y : Nat) (hx : Wf x) (hy : Wf y) (hlen : x.length = 8)
    (hk : k ≤ 8) (hky : k ≤ y.length)
    (hY8 : val (y.take 8) = Y) (hYk : val (y.take k) = Y)
    (hge : Y ≤ val x) (hlt : val x - Y < W ^ k) (hvx : val x < 2 * W ^ k) :
    ∃ m, mintSub x y k = some m ∧ val m + Y = val x ∧ m.length = 8 ∧ Wf m := by
  have hkx : k ≤ x.length := by omega
  have hlk : (x.take k).length = k := by simp [List.length_take, Nat.min_eq_left hkx]
  have hlyk : (y.take k).length = k := by simp [List.length_take, Nat.min_eq_left hky]
  have hl : (x.take k).length = (compl (y.take k)).length := by
    rw [compl_length, hlk, hlyk]
  obtain ⟨e1, e2, e3⟩ := addc_spec (x.take k) (compl (y.take k)) 1 hl
  rw [hlk] at e1 e2
  have hcv := compl_val (y.take k) (Wf_take hy k)
  rw [hYk, hlyk] at hcv
  have ex := val_take_drop x k
  have hlo := val_take_lt hx k
  have hr1 := val_lt e3
  rw [e2] at hr1
  have hW : 1 < W := by decide
  unfold mintSub subc
  simp only [MW, hY8]
  have hg : ¬ (val x < Y) := by omega
  simp only [hg, if_false]
  generalize addc (x.take k) (compl (y.take k)) 1 = r at *
  generalize val (compl (y.take k)) = vc at *
  generalize hlo' : val (x.take k) = lo at *
  generalize hP : W ^ k = P at *
  have hc : r.2 ≤ 1 := by
    by_contra h
    have : P * 2 ≤ P * r.2 := Nat.mul_le_mul_left _ (by omega)
    omega
  by_cases hk8 : k < 8
  · have hkl : k < x.length := by omega
    rw [drop_cons_getD x k hkl, val_cons] at ex
    have h1 : val (x.drop (k + 1)) = 0 := by
      apply val_drop_eq_zero
      rw [pow_succ, hP]; nlinarith
    rw [h1] at ex
    simp only [Nat.mul_zero, Nat.add_zero] at ex
    generalize x.getD k 0 = hi at *
    have hhi : hi ≤ 1 := by
      by_contra h
      have : P * 2 ≤ P * hi := Nat.mul_le_mul_left _ (by omega)
      omega
    have hkey : hi = 1 - r.2 ∧ val r.1 + Y = val x := by
      have h01 : hi = 0 ∨ hi = 1 := by omega
      have c01 : r.2 = 0 ∨ r.2 = 1 := by omega
      rcases h01 with h | h <;> rcases c01 with c | c <;> rw [h] at ex <;> rw [c] at e1 <;>
        simp only [Nat.mul_zero, Nat.mul_one, Nat.add_zero] at ex e1 <;> omega
    simp only [hk8, if_true]
    have hn1 : ¬ (r.2 > 1) := by omega
    have hn2 : ¬ (hi ≠ 1 - r.2) := by simp [hkey.1]
    simp only [hn1, hn2, if_false]
    refine ⟨_, rfl, ?_, ?_, ?_⟩
    · rw [val_append, val_cons, h1, e2]; simp; exact hkey.2
    · simp [e2]; omega
    · exact Wf_append.2 ⟨e3, Wf_cons.2 ⟨by omega, Wf_drop hx _⟩⟩
  · have hk8' : k = 8 := by omega
    have : x.drop k = [] := List.drop_eq_nil_of_le (by omega)
    rw [this] at ex
    simp only [val_nil, Nat.mul_zero, Nat.add_zero] at ex
    have hc1 : r.2 = 1 := by
      by_contra h
      have h0 : r.2 = 0 := by omega
      rw [h0] at e1; omega
    simp only [hk8, if_false, hc1, ne_eq, not_true_eq_false]
    refine ⟨_, rfl, ?_, by omega, e3⟩
    rw [hc1] at e1; omega


/-! ### facts about `n.digits()` -/

theorem Valid.npos {c : Ctx} (h : Valid c) : 0 < c.n := by have := h.nodd; omega

theorem Valid.nlt8 {c : Ctx} (h : Valid c) : c.n < W ^ 8 :=
  lt_of_lt_of_le h.nlt (Nat.pow_le_pow_right W_pos h.kle)

theorem nd_length (c : Ctx) : c.nd.length = 16 := by simp [Ctx.nd]

theorem nd_Wf (c : Ctx) : Wf c.nd := ofNat_Wf _ _

theorem nd_take_val {c : Ctx} (h : Valid c) (j : Nat) (hj : c.k ≤ j) (hj16 : j ≤ 16) :
    val (c.nd.take j) = c.n := by
  rw [Ctx.nd, ofNat_take _ _ _ hj16, val_ofNat]
  exact Nat.mod_eq_of_lt (lt_of_lt_of_le h.nlt (Nat.pow_le_pow_right W_pos hj))

theorem nd_val {c : Ctx} (h : Valid c) : val c.nd = c.n := by
  have := nd_take_val h 16 (by have := h.kle; omega) (le_refl _)
  rwa [List.take_of_length_le (by rw [nd_length])] at this

/-- `if !mint_lt(m, n, k) { mint_sub(m, n, k) }` brings a value below `2n` into `[0, n)`. -/
theorem condSub_spec {c : Ctx} (h : Valid c) (m : List Nat) (hm : Wf m) (hlen : m.length = 8)
    (hlt : val m < 2 * c.n) :
    ∃ m', condSub c m = some m' ∧ val m' < c.n ∧ (val m' = val m ∨ val m' + c.n = val m) ∧
      m'.length = 8 ∧ Wf m' := by
  have hk := h.kle
  have hn := h.nlt
  have h1 := mintLt_spec m c.nd c.k hm (nd_Wf c) (by omega) (by rw [nd_val h]; exact hn)
    (by omega) (by rw [nd_length]; omega)
  rw [nd_val h] at h1
  unfold condSub
  rw [h1]
  by_cases hc : val m < c.n
  · simp only [hc, decide_true]
    exact ⟨m, rfl, hc, Or.inl rfl, hlen, hm⟩
  · simp only [hc, decide_false]
    obtain ⟨m', e1, e2, e3, e4⟩ := mintSub_spec m c.nd c.k c.n hm (nd_Wf c) hlen hk
      (by rw [nd_length]; omega) (nd_take_val h 8 hk (by omega)) (nd_take_val h c.k (le_refl _) (by omega))
      (by omega) (by omega) (by omega)
    exact ⟨m', e1, by omega, Or.inr e2, e3, e4⟩

/-- `ZmodN::add` -/
theorem add_spec' {c : Ctx} (h : Valid c) (x y : List Nat) (hx : Wf x) (_hy : Wf y)
    (hlx : x.length = 8) (hly : y.length = 8) (hvx : val x < c.n) (hvy : val y < c.n)
    (hfit : c.k < 8 ∨ val x + val y < W ^ 8) :
    ∃ m, add c x y = some m ∧ val m < c.n ∧ val m % c.n = (val x + val y) % c.n ∧
      m.length = 8 ∧ Wf m := by
  have hk := h.kle
  have hn := h.nlt
  have hyk : val (y.take c.k) = val y := by
    have := val_take_drop y c.k
    rw [val_drop_eq_zero (lt_trans hvy hn)] at this; omega
  obtain ⟨m, e1, e2, e3, e4⟩ := mintAdd_spec x y c.k hx (lt_trans hvx hn) (by omega) (by omega)
    (by
      rcases hfit with hf | hf
      · left; omega
      · by_cases h8 : c.k < 8
        · left; omega
        · right; have : c.k = 8 := by omega
          rw [hyk, this]; exact hf)
    (by rw [hyk]; exact lt_trans hvy hn)
  rw [hyk] at e2
  obtain ⟨m', f1, f2, f3, f4, f5⟩ := condSub_spec h m e4 (by omega) (by omega)
  unfold add toUint
  simp only [hvx, hvy, not_true_eq_false, if_false, e1, f1, f2]
  refine ⟨m', rfl, f2, ?_, f4, f5⟩
  rcases f3 with f3 | f3
  · rw [f3, e2]
  · rw [← e2, ← f3, Nat.add_mod_right]

/-- `ZmodN::sub` -/
theorem sub_spec' {c : Ctx} (h : Valid c) (x y : List Nat) (hx : Wf x) (hy : Wf y)
    (hlx : x.length = 8) (hly : y.length = 8) (hvx : val x < c.n) (hvy : val y < c.n)
    (hfit : c.k < 8 ∨ val y ≤ val x ∨ val x + c.n < W ^ 8) :
    ∃ m, sub c x y = some m ∧ val m < c.n ∧ (val m + val y) % c.n = val x % c.n ∧
      m.length = 8 ∧ Wf m := by
  have hk := h.kle
  have hn := h.nlt
  have hyk : val (y.take c.k) = val y := by
    have := val_take_drop y c.k
    rw [val_drop_eq_zero (lt_trans hvy hn)] at this; omega
  have hy8 : val (y.take 8) = val y := by rw [List.take_of_length_le (by omega)]
  have h1 := mintLt_spec x y c.k hx hy (by omega) (lt_trans hvy hn) (by omega) (by omega)
  unfold sub toUint
  simp only [hvx, hvy, not_true_eq_false, if_false, h1]
  by_cases hc : val x < val y
  · simp only [hc, decide_true, if_true]
    obtain ⟨s, e1, e2, e3, e4⟩ := mintAdd_spec x c.nd c.k hx (lt_trans hvx hn) (by omega)
      (by rw [nd_length]; omega)
      (by
        rw [nd_take_val h c.k (le_refl _) (by omega)]
        by_cases h8 : c.k < 8
        · left; omega
        · right; have : c.k = 8 := by omega
          rw [this]; rcases hfit with hf | hf | hf <;> omega)
      (by rw [nd_take_val h c.k (le_refl _) (by omega)]; exact hn)
    rw [nd_take_val h c.k (le_refl _) (by omega)] at e2
    obtain ⟨m, f1, f2, f3, f4⟩ := mintSub_spec s y c.k (val y) e4 hy (by omega) hk (by omega) hy8 hyk
      (by omega) (by omega) (by omega)
    have : val m < c.n := by omega
    simp only [e1, f1, this, not_true_eq_false, if_false]
    refine ⟨m, rfl, this, ?_, f3, f4⟩
    rw [f2, e2, Nat.add_mod_right]
  · simp only [hc, decide_false]
    obtain ⟨m, f1, f2, f3, f4⟩ := mintSub_spec x y c.k (val y) hx hy hlx hk (by omega) hy8 hyk
      (by omega) (by omega) (by omega)
    have : val m < c.n := by omega
    simp only [Bool.false_eq_true, if_false, f1, this, not_true_eq_false]
    exact ⟨m, rfl, this, by rw [f2], f3, f4⟩

end Ymq.ZmodN
