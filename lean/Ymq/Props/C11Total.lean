/-
C11, totality on the realistic domain: for histories of at most 2^32 adds of input relations with
cycle length 1 and exponent sums below 2^30, no `u64` exponent or cycle-length counter of the
relation store can overflow; together with `history_no_panic` the store operations are then total.
(Lemmas: Ymq/Lemmas/RelationsNoOverflow.lean.)
-/
import Ymq.Props.C11Walk
import Ymq.Lemmas.RelationsNoOverflow

namespace Ymq.C11
open Ymq.Relations

/-- the inputs the sieves produce: cycle length 1, sum of the exponents (+2) at most 2^30 -/
def SmallInputs (ops : List (Relation × Option (Nat × Nat))) : Prop :=
  ∀ op ∈ ops, total op.1.factors + 2 ≤ 2 ^ 30 ∧ op.1.cyclelen = 1

theorem smallInputs_relB {ops : List (Relation × Option (Nat × Nat))} (h : SmallInputs ops) :
    ∀ op ∈ ops, RelB (2 ^ 30) op.1 ∧ op.1.cyclelen = 1 := by
  intro op hop
  obtain ⟨h1, h2⟩ := h op hop
  exact ⟨by unfold RelB; rw [h2]; omega, h2⟩

theorem cap_domain {T : Nat} (hT : T ≤ 2 ^ 32) : Cap (2 ^ 30) T :=
  Cap.mono (T := 2 ^ 32) ⟨by decide, by decide⟩ hT

/-- `cyclelen_bounded` (the potential argument): after any history of `N` adds of inputs with cycle
length 1, for every pending single-large-prime relation, (its cycle length) + (the sum of the cycle
lengths of all pending doubles) ≤ N; and every pending relation `r` has (sum of its exponents) + 2 ≤
2^30 · cyclelen(r). A walk moves the cycle length of a consumed double from the sum into a single, an
`add` raises the bound by the cycle length of its input; `combine` is additive in both quantities. -/
theorem cyclelen_bounded (n fbsize maxlarge : Nat) (hn : n ≤ 2 ^ 512)
    (ops : List (Relation × Option (Nat × Nat))) (hok : HistoryOK n ops) (hsmall : SmallInputs ops)
    (s' : Store) (h : runHistory ops (Store.new n fbsize maxlarge) = .ok s') :
    Inv3 (2 ^ 30) ops.length s' := by
  have := runHistory_inv3 ops _ s' 0 h (inv_new n fbsize maxlarge) (by rw [X512_eq]; exact hn) hok
    (smallInputs_relB hsmall) (inv3_new _ 0 n fbsize maxlarge)
  simpa using this

/-- `history_no_overflow`: on that domain (at most 2^32 adds) no exponent sum and no cycle-length
sum computed by `combine` reaches 2^64: the history never ends in `.overflow`. -/
theorem history_no_overflow (n fbsize maxlarge : Nat) (hn : n ≤ 2 ^ 512)
    (ops : List (Relation × Option (Nat × Nat))) (hok : HistoryOK n ops) (hsmall : SmallInputs ops)
    (hlen : ops.length ≤ 2 ^ 32) :
    runHistory ops (Store.new n fbsize maxlarge) ≠ .error .overflow :=
  runHistory_nov (cap_domain hlen) ops _ 0 (inv_new n fbsize maxlarge) (by rw [X512_eq]; exact hn) hok
    (smallInputs_relB hsmall) (inv3_new _ 0 n fbsize maxlarge) (by omega)

theorem historyOK_of_OK2 {n maxlarge : Nat} {ops : List (Relation × Option (Nat × Nat))}
    (h : HistoryOK2 n maxlarge ops) : HistoryOK n ops := by
  intro op hop
  exact (h op hop (Store.new n 0 maxlarge) rfl rfl).base

/-- `history_total`: inside the callers' contract, on the domain above, every history runs to
completion — no panic, no debug assertion, no counter overflow, recursion within its fuel — and
ends in a store satisfying all three invariants. `history_no_panic` is unconditional there. -/
theorem history_total (n fbsize maxlarge : Nat) (hn : n ≤ 2 ^ 512)
    (ops : List (Relation × Option (Nat × Nat))) (hok : HistoryOK2 n maxlarge ops)
    (hsmall : SmallInputs ops) (hlen : ops.length ≤ 2 ^ 32) :
    ∃ s', runHistory ops (Store.new n fbsize maxlarge) = .ok s' ∧ Inv s' ∧ Inv2 s' ∧
      Inv3 (2 ^ 30) ops.length s' := by
  have hok1 := historyOK_of_OK2 hok
  have hnp := history_no_panic n fbsize maxlarge hn ops hok
  have hno := history_no_overflow n fbsize maxlarge hn ops hok1 hsmall hlen
  cases hr : runHistory ops (Store.new n fbsize maxlarge) with
  | error e =>
    have := hnp e hr
    subst this
    exact absurd hr hno
  | ok s' =>
    refine ⟨s', rfl, (history_inv n fbsize maxlarge hn ops hok1 s' hr).1, ?_,
      cyclelen_bounded n fbsize maxlarge hn ops hok1 hsmall s' hr⟩
    exact runHistory_inv2 ops _ s' hr (inv_new n fbsize maxlarge) (inv2_new n fbsize maxlarge)
      (by rw [X512_eq]; exact hn) hok

/-- `history_total_stack`: the same for the model that mirrors the code (explicit-stack walk): it
returns the very same store, its `while` loops within `Store.iterFuel` iterations. -/
theorem history_total_stack (n fbsize maxlarge : Nat) (hn : n ≤ 2 ^ 512)
    (ops : List (Relation × Option (Nat × Nat))) (hok : HistoryOK2 n maxlarge ops)
    (hsmall : SmallInputs ops) (hlen : ops.length ≤ 2 ^ 32) :
    ∃ s', runHistoryStack ops (Store.new n fbsize maxlarge) = .ok s' ∧
      runHistory ops (Store.new n fbsize maxlarge) = .ok s' ∧ Inv s' ∧ Inv2 s' := by
  obtain ⟨s', h1, h2, h3, _⟩ := history_total n fbsize maxlarge hn ops hok hsmall hlen
  refine ⟨s', ?_, h1, h2, h3⟩
  exact history_stack_eq_rec n fbsize maxlarge hn ops (historyOK_of_OK2 hok) _ h1 (by intro hc; cases hc)

/-- non-vacuity: the history modulo 15 is inside the domain -/
example :
    SmallInputs
      [({ x := 3, cofactor := 7, cyclelen := 1, factors := [(2, 2), (3, 1)] }, none),
       ({ x := 5, cofactor := 7, cyclelen := 1, factors := [(5, 1), (-1, 1)] }, none),
       ({ x := 4, cofactor := 121, cyclelen := 1, factors := [] }, some (11, 11)),
       ({ x := 2, cofactor := 77, cyclelen := 1, factors := [(2, 1)] }, some (11, 7))] := by
  intro op hop
  simp only [List.mem_cons, List.not_mem_nil, or_false] at hop
  rcases hop with rfl | rfl | rfl | rfl <;> decide

end Ymq.C11
