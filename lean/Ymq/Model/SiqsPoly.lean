/-
Model of the SIQS polynomial machinery of src/siqs.rs:
`select_siqs_factors` (the table of inverses), `prepare_a`, `Poly::first`, `Poly::next`,
`_finish_polynomial`, `Poly::eval`, `SieveSIQS::new` (offsets, rounded square root).

Conventions (as in the other model files):
* integers are `Nat`/`Int`; `u32` wrap-around is explicit where the code relies on it
  (`wrapping_sub`/`wrapping_add` + `min` in `Poly::next`); every panic site of the checked profile
  (assert, debug_assert, `unreachable!`, `unwrap`, signed/unsigned overflow of the narrow types,
  `I256` overflow) returns `none`;
* the division primitives of property C08 are taken at their specification:
  `Dividers::{mod_uint, divmod64, modu63, modi64}` are `%` (Euclidean for `modi64`),
  `arith::inv_mod64` is the exact modular inverse `invMod` (`none` iff not coprime);
* `FBase::new` enters as data: the factor base is a list of `(p, r)` with `r` the stored square root.

Layout. The Rust code keeps one array per quantity indexed by the prime index `pidx`
(`ainv`, `rp`, `deltas_mod_p[j][pidx]`, `root0_mod_p`, `r1p`, `r2p`, `offset_modp`); every loop over
`pidx` has independent iterations.  The model keeps one record per prime (`PP`, array of structs)
and maps over the list of primes; the driver prints the arrays in the Rust layout and the
correspondence run compares them entry by entry.
No Mathlib import: linked into the native driver.
-/
namespace Ymq.SiqsPoly

/-- 2^32 -/
def W32 : Nat := 4294967296

/-- 2^255 -/
def P255 : Int := 57896044618658097711785492504343953926634992332820282019728792003956564819968

/-- 2^256 -/
def P256 : Int := 115792089237316195423570985008687907853269984665640564039457584007913129639936

/-- a result of checked `I256` arithmetic -/
def chk256 (x : Int) : Option Int := if -P255 ≤ x ∧ x < P255 then some x else none

/-- truncating cast to `I256` (`I256::cast_from`, `<<`) -/
def wrap256 (x : Int) : Int := (x + P255) % P256 - P255

/-- truncating cast `i64 as i32` -/
def wrapI32 (x : Int) : Int := (x + 2147483648) % 4294967296 - 2147483648

/-- a result of checked `i32` arithmetic -/
def chkI32 (x : Int) : Option Int := if -2147483648 ≤ x ∧ x < 2147483648 then some x else none

/-- bit length (`bits()`) -/
def bitlen (n : Nat) : Nat := if n = 0 then 0 else Nat.log2 n + 1

/-- `usize::trailing_zeros` (64 for 0) -/
def tzAux : Nat → Nat → Nat
  | 0, _ => 0
  | f + 1, n => if n % 2 = 1 then 0 else 1 + tzAux f (n / 2)

def tz64 (n : Nat) : Nat := if n = 0 then 64 else tzAux 64 n

/-- floor square root (specification of `arith::isqrt = num_integer::sqrt`), bit by bit:
after the loop on bits `k-1 .. 0`, `r² ≤ n < (r+1)²` whenever `n < 4^k` -/
def isqrtAux : Nat → Nat → Nat → Nat
  | 0, r, _ => r
  | k + 1, r, n => if (r + 2 ^ k) * (r + 2 ^ k) ≤ n then isqrtAux k (r + 2 ^ k) n else isqrtAux k r n

def isqrt (n : Nat) : Nat := isqrtAux (Nat.log2 n / 2 + 1) 0 n

/-! ### exact modular inverse (specification of `arith::inv_mod64`, `Inverter::invert`) -/

/-- extended Euclid (`fuel` steps allowed): with `s0·a ≡ r0` and `s1·a ≡ r1 (mod p)` returns `(g, s)`,
`g = gcd r0 r1`, `s·a ≡ g (mod p)`; `r1` decreases at every step, so `fuel > r1` always suffices. -/
def xgcd : Nat → Nat → Int → Nat → Int → Nat × Int
  | 0, r0, s0, _, _ => (r0, s0)
  | f + 1, r0, s0, r1, s1 =>
    if r1 = 0 then (r0, s0)
    else xgcd f r1 s1 (r0 % r1) (s0 - ((r0 / r1 : Nat) : Int) * s1)

/-- `inv_mod64(a, p)`: `some x` with `x < p`, `a·x ≡ 1 (mod p)` iff `gcd a p = 1`. -/
def invMod (a p : Nat) : Option Nat :=
  let gs := xgcd (p + 1) p 0 (a % p) 1
  if gs.1 = 1 then some (gs.2 % (p : Int)).toNat else none

/-! ### data -/

/-- `fbase::Prime` without its divider: prime and stored square root of `n`. -/
structure Prime where
  p : Nat
  r : Nat
deriving Repr, BEq

/-- `siqs::Factors` -/
structure Factors where
  n : Int
  factors : List Prime
  /-- `inverses[i][j] = pᵢ⁻¹ mod pⱼ` (0 on the diagonal) -/
  inverses : List (List Nat)

/-- `polytype(n) == Type2`: `n.low_u64() % 4 == 1` (two's complement of a negative `n` included) -/
def isType2 (n : Int) : Bool := n % 4 == 1

/-- all entries present -/
def allSome {α} : List (Option α) → Option (List α)
  | [] => some []
  | none :: _ => none
  | some x :: xs => match allSome xs with
    | none => none
    | some ys => some (x :: ys)

/-- the table of inverses built at the end of `select_siqs_factors`
(`arith::inv_mod64(p.p, q.p).unwrap()`). -/
def mkInverses (sel : List Prime) : Option (List (List Nat)) :=
  allSome (sel.map fun p => allSome (sel.map fun q => if p.p = q.p then some 0 else invMod p.p q.p))

def mkFactors (n : Int) (sel : List Prime) : Option Factors := do
  let inv ← mkInverses sel
  some { n, factors := sel, inverses := inv }

/-- `iter().enumerate()` -/
def withIdx {α} : Nat → List α → List (Nat × α)
  | _, [] => []
  | i, x :: xs => (i, x) :: withIdx (i + 1) xs

/-! ### prepare_a -/

/-- per-prime data computed by `prepare_a` for the prime with index `pidx`:
`ainv[pidx]`, `rp[pidx]`, `deltas_mod_p[·][pidx]`, `root0_mod_p[pidx]`, `pidx ∈ factors_idx`. -/
structure PP where
  p : Nat
  r : Nat
  ainv : Nat
  rp : Nat
  deltas : List Nat
  root0 : Nat
  divA : Bool
deriving Repr

/-- `siqs::A` -/
structure APrep where
  a : Nat
  /-- the elements of `Factors.factors` dividing `a` -/
  factors : List Prime
  /-- `roots[i] = [r0, r1]` (`I256`) -/
  roots : List (Int × Int)
  pps : List PP
deriving Repr

/-- inner loop of the CRT basis: `c = ∏_{j≠i} qⱼ`, `inv = ∏_{j≠i} inverses[j][i] mod pᵢ`. -/
def crtLoop (f : Factors) (idx : Nat) (p : Nat) : List (Nat × Prime) → Nat → Nat → Option (Nat × Nat)
  | [], c, inv => some (c, inv)
  | (jdx, q) :: rest, c, inv =>
    if jdx ≠ idx then
      match f.inverses[jdx]? with
      | none => none                                   -- index out of range
      | some row =>
        match row[idx]? with
        | none => none
        | some v =>
          if p = 0 then none else crtLoop f idx p rest (c * q.p) (inv * v % p)
    else crtLoop f idx p rest c inv

/-- `[r0, r1]` for the factor number `i` of `A` (position in `afactors`). -/
def rootPair (a : Nat) (i : Nat) (fp : Prime) (pOverPi pinv : Nat) : Option (Nat × Nat) :=
  if fp.p = 0 then none
  else
    let k := fp.r * pinv % fp.p
    let r := k * pOverPi
    let parity := (r % 2 == 1) != (i == 0)
    if parity then
      if a < r then none                               -- a - r underflows
      else some (a - r, a + r)                         -- r0 ≤ r1 always
    else
      if 2 * a < r then none                           -- (a << 1) - r underflows
      else if r ≤ 2 * a - r then some (r, 2 * a - r)
      else none                                        -- debug_assert!(r0 <= r1)

/-- the loop `for (i, (_, f)) in afactors.iter().enumerate()` without the per-prime part:
returns the list of `(r0, r1)`. -/
def rootPairs (f : Factors) (a : Nat) (afs : List (Nat × Prime)) :
    Nat → List (Nat × Prime) → Option (List (Nat × Nat))
  | _, [] => some []
  | i, (idx, fp) :: rest => do
    let (c, inv) ← crtLoop f idx fp.p afs 1 1
    let pr ← rootPair a i fp c inv
    let tl ← rootPairs f a afs (i + 1) rest
    some (pr :: tl)

/-- everything `prepare_a` computes for one prime of the factor base. -/
def mkPP (a2a root0 : Nat) (ds : List Nat) (so : Int) (q : Prime) : Option PP :=
  let p := q.p
  if p = 0 then none
  else
    let amod := a2a % p
    let ainv := (invMod amod p).getD 1               -- inv_mod64(amod, p).unwrap_or(1) as u32
    let rp := ainv * q.r % p
    let deltas := ds.map fun d =>
      let x := d % p * ainv % p
      if x = 0 then 0 else p - x
    let r0a : Int := ((root0 % p * ainv % p : Nat) : Int)
    -- let val = -r0_over_a - rp[pidx] as i32 - start_offset as i32;   (i32, checked)
    match chkI32 (-r0a - (rp : Int)) with
    | none => none
    | some t =>
      match chkI32 (t - wrapI32 so) with
      | none => none
      | some val =>
        some { p, r := q.r, ainv, rp, deltas, root0 := (val % (p : Int)).toNat,
               divA := amod == 0 && p != 2 }

/-- the factors of `A` among the selection, with their index in `Factors.factors` -/
def afsOf (f : Factors) (a : Nat) : List (Nat × Prime) :=
  (withIdx 0 f.factors).filter fun ip => ip.2.p != 0 && a % ip.2.p == 0

/-- `a2a`: `A` (type 1) or `A << 1` (type 2) -/
def a2aOf (n : Int) (a : Nat) : Nat := if isType2 n then 2 * a else a

/-- `root0`: the sum of the `r0`, or 1 in the special case `A = 1`, type 2 -/
def root0Of (n : Int) (empty : Bool) (prs : List (Nat × Nat)) : Nat :=
  if empty && isType2 n then 1 else (prs.map (·.1)).sum

/-- `prepare_a(f, a, fbase, start_offset)` -/
def prepareA (f : Factors) (a : Nat) (fb : List Prime) (so : Int) : Option APrep :=
  if a ≥ 2 ^ 254 then none                            -- assert!(a.bits() < 255)
  else
    let afs := afsOf f a
    match rootPairs f a afs 0 afs with
    | none => none
    | some prs =>
      let a2a := a2aOf f.n a
      let root0 := root0Of f.n afs.isEmpty prs
      if a = 0 then none                              -- `% a`
      else if ((root0 * root0 : Nat) - f.n) % (a : Int) ≠ 0 then none    -- debug_assert
      else
        match allSome (fb.map (mkPP a2a root0 (prs.map fun pr => pr.2 - pr.1) so)) with
        | none => none
        | some pps =>
          some { a, factors := afs.map (·.2),
                 roots := prs.map fun pr => ((pr.1 : Int), (pr.2 : Int)), pps }

/-! ### SieveSIQS::new -/

/-- the fields of `SieveSIQS` used by the polynomial code -/
structure Sieve where
  n : Int
  nsqrt : Nat
  intervalSize : Nat
  /-- `-(interval_size as i64 / 2)` -/
  startOffset : Int

def mkSieve (n : Int) (mm : Nat) : Sieve :=
  { n, nsqrt := if n > 0 then isqrt n.toNat else 0, intervalSize := mm,
    startOffset := -((mm : Int) / 2) }

/-- `offset_modp[pidx] = modi64(start_offset)` -/
def offModp (s : Sieve) (p : Nat) : Nat := (s.startOffset % (p : Int)).toNat

/-! ### polynomials -/

/-- `siqs::Poly`; `rs[pidx] = (r1p[pidx], r2p[pidx])` -/
structure Poly where
  idx : Nat
  type2 : Bool
  a : Int
  b : Int
  c : Int
  root : Nat
  rs : List (Nat × Nat)
  n : Int
deriving Repr

/-- `Poly::eval(x)` for an `i64` `x`: `(P(x), y)` with checked `I256` arithmetic. -/
def eval (pol : Poly) (x : Int) : Option (Int × Int) :=
  if ¬ pol.type2 then do
    let t ← chk256 (pol.a * x)
    let axb ← chk256 (t + pol.b)
    let u ← chk256 (axb + pol.b)
    let w ← chk256 (u * x)
    let v ← chk256 (w + pol.c)
    some (v, wrap256 (2 * axb))
  else do
    let ax ← chk256 (pol.a * x)
    let u ← chk256 (ax + pol.b)
    let w ← chk256 (u * x)
    let v ← chk256 (w + pol.c)
    let y ← chk256 (wrap256 (2 * ax) + pol.b)
    some (v, y)

/-- `r2p[i] += 2 * a.rp[i]; while r2p[i] >= p { r2p[i] -= p }` (values are below `3p < 2^32`;
the loop subtracts `p` while possible, i.e. reduces modulo `p`) -/
def firstRoots (pp : PP) : Nat × Nat := (pp.root0, (pp.root0 + 2 * pp.rp) % pp.p)

/-- `Poly::next`, bit flipped from 0 to 1: `r + d`, then `min(r1, r1.wrapping_sub(p))` -/
def stepUp (p d r : Nat) : Nat :=
  let r1 := r + d
  min r1 ((r1 + W32 - p) % W32)

/-- `Poly::next`, bit flipped from 1 to 0: `r.wrapping_sub(d)`, then `min(r1, r1.wrapping_add(p))` -/
def stepDown (p d r : Nat) : Nat :=
  let r1 := (r + W32 - d) % W32
  min r1 ((r1 + p) % W32)

/-- the per-prime part of `_finish_polynomial`: `first` = index 0 of the factor base. -/
def finishRoot (s : Sieve) (type2 : Bool) (b : Nat) (c : Int) (first : Bool) (pp : PP)
    (r12 : Nat × Nat) : Option (Nat × Nat) :=
  -- Manually repair roots modulo 2 for Type 2
  let r12 := if first && type2 && pp.p == 2 && c.natAbs % 2 == 0 then (0, 1) else r12
  if pp.divA then
    let p := pp.p
    let bp := b % p
    let cp0 := c.natAbs % p
    let cp := if c < 0 then cp0 else p - cp0
    let mult := if type2 then 1 else 2
    match invMod (mult * bp) p with
    | none => none                                    -- unreachable!("no inverse of b")
    | some binv =>
      let r := cp * binv % p
      let off := offModp s p
      let r := if r ≥ off then r - off else r + p - off
      some (r, r)
  else some r12

def finishRoots (s : Sieve) (type2 : Bool) (b : Nat) (c : Int) (pps : List PP)
    (rs : List (Nat × Nat)) : List (Option (Nat × Nat)) :=
  List.zipWith (fun (ip : Nat × PP) r => finishRoot s type2 b c (ip.1 == 0) ip.2 r) (withIdx 0 pps) rs

/-- the modulus of `B² ≡ n`: `A` for type 1, `4A` for type 2 -/
def polyM (type2 : Bool) (a : Nat) : Int := if type2 then 4 * (a : Int) else (a : Int)

/-- the rounded root `(s.nsqrt / a.a).low_u64()` resp. `(s.nsqrt / (a.a << 1)).low_u64()` -/
def polyRoot (nsqrt : Nat) (type2 : Bool) (a : Nat) : Nat :=
  (if type2 then nsqrt / (2 * a) else nsqrt / a) % 2 ^ 64

/-- `_finish_polynomial(s, a, pol)` -/
def finish (s : Sieve) (pa : APrep) (pol : Poly) : Option Poly :=
  if pol.b ≤ 0 then none                              -- assert!(pol.b.is_positive())
  else
    let b := pol.b.toNat
    let m : Int := polyM pol.type2 pa.a
    if pa.a = 0 then none
    else if (((b * b : Nat) : Int) - pol.n) % m ≠ 0 then none      -- debug_assert
    else
      let c := Int.tdiv (((b * b : Nat) : Int) - pol.n) m
      match allSome (finishRoots s pol.type2 b c pa.pps pol.rs) with
      | none => none
      | some rs =>
        let root := polyRoot s.nsqrt pol.type2 pa.a
        if pa.factors.length ≥ 5 ∧ ¬ (root < s.intervalSize / 2) then none   -- assert
        else
          let mlog := bitlen s.intervalSize
          if ¬ (bitlen pa.a + 2 * mlog < 255) then none
          else if ¬ (bitlen pol.b.natAbs + mlog < 255) then none
          else if ¬ (bitlen pol.c.natAbs < 255) then none         -- the previous `c`
          else some { pol with c := wrap256 c, root := root % W32, rs }

/-- `if s.fbase.p(0) == 2 && typ == PolyType::Type2 { r2p[0] = r1p[0] + 1 }` (case `A = 1`) -/
def unitFix (typ : Bool) : List PP → List (Nat × Nat) → List (Nat × Nat)
  | pp :: _, (r1, r2) :: rest => if pp.p == 2 && typ then (r1, r1 + 1) :: rest else (r1, r2) :: rest
  | _, rs => rs

/-- `Poly::first(s, a)` -/
def first (s : Sieve) (pa : APrep) : Option Poly :=
  let typ := isType2 s.n
  if pa.factors.isEmpty then
    if ¬ (bitlen s.n.natAbs < 128) then none          -- assert!
    else
      -- Handle p=2
      let rs := unitFix typ pa.pps (pa.pps.map firstRoots)
      if ¬ typ then
        some { idx := 0, type2 := typ, a := 1, b := 0, c := -(wrap256 s.n), root := 0, rs, n := s.n }
      else
        some { idx := 0, type2 := typ, a := 1, b := 1, c := (1 - wrap256 s.n) / 4, root := 0, rs,
               n := s.n }
  else
    match chk256 ((pa.roots.map (·.1)).sum) with      -- b += a.roots[i][0]
    | none => none
    | some b =>
      if typ ∧ b % 2 ≠ 1 then none                    -- assert!(b.bit(0))
      else
        finish s pa { idx := 0, type2 := typ, a := (pa.a : Int), b, c := 0, root := 0,
                      rs := pa.pps.map firstRoots, n := s.n }

/-- `Poly::next(&mut self, s, a)` -/
def next (s : Sieve) (pa : APrep) (pol : Poly) : Option Poly :=
  let prev := pol.idx
  let nxt := prev + 1
  if nxt ≥ 2 ^ 64 then none
  else
    let pg := prev ^^^ (prev >>> 1)
    let ng := nxt ^^^ (nxt >>> 1)
    let bit := tz64 (pg ^^^ ng)
    if bit ≥ 64 then none                             -- 1 << bit
    else if ng ≠ pg ^^^ (1 <<< bit) then none         -- assert!
    else
      match pa.roots[bit]? with
      | none => none                                  -- a.deltas_mod_p[bit], a.roots[bit]
      | some (r0, r1) =>
        if (pg >>> bit) % 2 = 0 then
          match chk256 (pol.b + r1) with
          | none => none
          | some t =>
            match chk256 (t - r0) with
            | none => none
            | some b =>
              let rs := List.zipWith (fun (pp : PP) (r : Nat × Nat) =>
                let d := pp.deltas.getD bit 0
                (stepUp pp.p d r.1, stepUp pp.p d r.2)) pa.pps pol.rs
              finish s pa { pol with idx := nxt, b, rs }
        else
          match chk256 (pol.b + r0) with
          | none => none
          | some t =>
            match chk256 (t - r1) with
            | none => none
            | some b =>
              let rs := List.zipWith (fun (pp : PP) (r : Nat × Nat) =>
                let d := pp.deltas.getD bit 0
                (stepDown pp.p d r.1, stepDown pp.p d r.2)) pa.pps pol.rs
              if pol.type2 ∧ b % 2 ≠ 1 then none      -- assert!(self.b.bit(0))
              else finish s pa { pol with idx := nxt, b, rs }

/-- the polynomial number `idx` of the family: `first`, then `idx` times `next`. -/
def polyAt (s : Sieve) (pa : APrep) : Nat → Option Poly
  | 0 => first s pa
  | i + 1 => match polyAt s pa i with
    | none => none
    | some pol => next s pa pol

end Ymq.SiqsPoly
