/-
Model of the MPQS polynomial machinery of src/mpqs.rs: `make_poly` (Hensel lift of the square
root of `n` modulo `D` to `D²`, parity fix), `Poly::prepare_prime` (three branches: `p = 2`,
`p ∣ D`, generic), `Poly::eval`, and the specification of `Workspace::batch_inversion`.

Conventions as in Ymq/Model/SiqsPoly.lean: `none` = a panic site of the checked profile;
`Dividers::*` are `%`; `arith_gcd::inv_mod` (property C09), `arith::Inverter::invert`
(property C08) are the exact modular inverse `invMod`.  `Uint` is 1024 bits wide: a product or sum
that does not fit, or a negative difference, is `none`.
No Mathlib import.
-/
import Ymq.Model.SiqsPoly

namespace Ymq.MpqsPoly
open Ymq.SiqsPoly (invMod chk256 wrap256 bitlen Prime)

/-- 2^1024 -/
def U1024 : Nat := 2 ^ 1024

/-- a `Uint` result -/
def chkU (x : Nat) : Option Nat := if x < U1024 then some x else none

/-- `mpqs::Poly` -/
structure Poly where
  a : Nat
  b : Nat
  c : Int
  bb : Nat
  d : Nat
  dinv : Nat
deriving Repr

/-- `make_poly(n, d, r)` -/
def makePoly (n d r : Nat) : Option Poly :=
  if d = 0 then none                                             -- `% d`
  else if r * r % d ≠ n % d then none                            -- debug_assert
  else do
    let h1 := r
    let hh ← chkU (h1 * h1)
    if n < hh then none                                          -- n - h1 * h1 underflows
    else
      let c := (n - hh) / d % d
      let i ← invMod (2 * h1) d                                  -- inv_mod(&(h1 << 1), &d).unwrap()
      let h2 := c * i % d
      let b ← chkU (h1 + h2 * d)
      let dinv ← (if n = 0 then none else invMod d n)            -- inv_mod(&d, &n).unwrap()
      if ¬ (bitlen d < 128) then none                            -- assert!
      else if ¬ (bitlen b < 256) then none                       -- assert!
      else if b * b % (d * d) ≠ n % (d * d) then none            -- debug_assert
      else if n % 4 = 1 then
        -- want an odd b
        if d * d < b ∧ b % 2 = 0 then none                       -- d * d - b underflows
        else
          let b := if b % 2 = 0 then d * d - b else b
          if b * b % (4 * (d * d)) ≠ n % (4 * (d * d)) then none -- debug_assert
          else
            let c := Int.tdiv (((b * b : Nat) : Int) - (n : Int)) ((4 * (d * d) : Nat) : Int)
            if ¬ (bitlen c.natAbs < 256) then none               -- assert!
            else some { a := d * d % 2 ^ 256, b := b % 2 ^ 256, c := wrap256 c,
                        bb := (n + b) / 2, d, dinv }
      else
        -- want even b
        if d * d < b ∧ b % 2 = 1 then none
        else
          let b := if b % 2 = 1 then d * d - b else b
          let c := Int.tdiv (((b * b : Nat) : Int) - (n : Int)) ((d * d : Nat) : Int)
          if ¬ (bitlen c.natAbs < 256) then none
          else some { a := d * d % 2 ^ 256, b := 2 * b % 2 ^ 256, c := wrap256 c, bb := b, d, dinv }

/-- `Poly::eval(x)`: `(P(x), y)`, `y = |ax + bb| · dinv` (unreduced `Uint` product). -/
def eval (pol : Poly) (x : Int) : Option (Int × Nat) := do
  let ax ← chk256 (wrap256 (pol.a : Int) * x)
  let u ← chk256 (ax + wrap256 (pol.b : Int))
  let w ← chk256 (u * x)
  let v ← chk256 (w + pol.c)
  let y ← chkU ((ax + (pol.bb : Int)).natAbs * pol.dinv)
  some (v, y)

/-- the closure `shift` of `prepare_prime`: position relative to the start of the interval -/
def shift (p off r : Nat) : Nat := if r < off then r + p - off else r - off

/-- `Poly::prepare_prime(p, r, div, inv, dinv, offset)`; `dinv` = inverse of `D` modulo `p`
(0 when `p ∣ D`), as `Workspace::batch_inversion` provides it. -/
def preparePrime (pol : Poly) (p r dinv : Nat) (offset : Int) : Option (Nat × Nat) :=
  if p = 0 then none
  else
    let off := (offset % (p : Int)).toNat                        -- div.modi64(offset) as u32
    if p = 2 then some (0, 1)
    else if dinv = 0 then
      -- D inside the factor base: the roots are the roots of Bx + C
      let b := pol.b % p
      if b = 0 then none                                         -- Inverter::invert: assert!(x != 0)
      else
        match invMod b p with
        | none => none
        | some binv =>
          let c0 := pol.c.natAbs % p
          let c := if pol.c < 0 ∨ c0 = 0 then c0 else p - c0
          let r := shift p off (c * binv % p)
          some (r, r)
    else
      let d2inv := dinv * dinv % p
      let ab : Nat × Nat :=
        if pol.b % 2 = 1 then
          ((if d2inv % 2 = 0 then d2inv / 2 else (d2inv + p) / 2), pol.b % p)
        else (d2inv, pol.bb % p)
      let ainv := ab.1
      let b := ab.2
      if 2 * p < r + b then none                                 -- 2p - r - b underflows
      else
        let r1 := shift p off ((p + r - b) * ainv % p)
        let r2 := shift p off ((2 * p - r - b) * ainv % p)
        some (r1, r2)

/-- specification of one entry of `Workspace::batch_inversion`: the inverse of `d` modulo `p`,
0 when `p ∣ d` -/
def dinvModp (d p : Nat) : Nat := (invMod (d % p) p).getD 0

end Ymq.MpqsPoly
