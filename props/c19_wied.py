"""C19 / Wiedemann — helper module for props/c19.py: the callers of berlekamp_massey in matrix/intsparse.rs
(SparseMat::new, mulp, norm, select_crtprimes, _detp4 / detp4, detz without thread pool) are now modelled
(lean/Ymq/Model/Wiedemann.lean, driver lean/Ymq/Drv/Wiedemann.lean) on the EXISTING request formats of
harness/src/ops_intmat.rs. No new harness op.

Wiring (props/c19.py):
  * switch K on (k=True) for the ops in K_OPS: im_sparse_norm, im_sparse_primes, im_mulp4, im_detp4, im_det_sparse.
    The driver needs about 30 ms per im_det_sparse of dimension 60 and grows like n^3 (list-based Berlekamp-Massey):
    keep k=True for dimension <= K_MAX_DIM (150) and leave the larger ones oracle-only. im_det_sparse_par (thread pool),
    im_ker_p256 (mulpbig, StdRng) and im_sparse_lattice_index stay k=False (not modelled).
    Measured (c19.cases restricted to these ops): quick seeds 1-4: 1423/1423 agree in both profiles (driver 11 s per seed);
    thorough seed 1, dimension <= 150: 9308/9308 agree in both profiles, driver 540 s -> lower K_MAX_DIM to 60 if that is too slow.
  * `yield from c19_wied.cases(tier, rng)`: extra requests (i64 overflow of mulp outside the documented precondition:
    K against the checked profile only; the early-termination witnesses of detz).
  * finding_key: `k = c19_wied.finding_key(case, ans, profile, true_det)` for im_det_sparse answers that differ from the
    exact determinant: returns "sparse-det-early-termination" when the answer is the symmetric residue of the determinant
    modulo the product of the first 4k moduli (k >= 1) — add that key to known_findings.json (entry proposed in FINDINGS).
  * kernel path (NEW, needs one line of wiring): the model of ker_p256 takes the StdRng start vector as an input, so K runs through the
    pipeline's follow-up mechanism: define in props/c19.py  \`def followup(case, ans): return c19_wied.followup(case, ans)\`.
    c19_wied.cases() yields \`im_ker_trace <rows> <p>\` requests (new harness op in harness/src/ops_wied.rs, answer \`<v0>|<answer of
    im_ker_p256>\`, k=False, o=False; optional oracle: \`if case.op == 'im_ker_trace': return c19_wied.oracle_ker(case, ans)\` and set o=True) and followup() turns each answer into the driver request
    \`im_ker_model <rows> <p> <v0>\` with the implementation's answer as the expected one.
    Measured: the im_ker_p256 matrices of c19.cases as traces (quick seeds 1-3: 240/240; thorough seed 1: 794/794, driver 1.5 s) and the
    panic / None / width classes generated here (63/63): all agree in both profiles; a run through vlib.pipeline with followup wired
    (temporary module): 176/176 K ok.
  * LEAN += LEAN; THEOREMS += THEOREMS; MODELLED/UNMODELLED += ...; copy the #print axioms lines of
    lean/Ymq/Audit/C19Wied.lean into lean/Ymq/Audit/C19.lean.
"""
from vlib.pipeline import Case
from vlib import gen

K_OPS = ("im_sparse_norm", "im_sparse_primes", "im_mulp4", "im_detp4", "im_det_sparse")
K_MAX_DIM = 150
LEAN = ["Ymq.Props.C19Wied"]
AUDIT = "Ymq.Audit.C19Wied"
THEOREMS = ["Ymq.C19Wied." + t for t in (
    "krylov_recurrence detp4_spec_full_complexity detp4_false_zero_iff_deficient mulp_spec mulp_overflow_witness "
    "detp4_lane_of_model detp4_lane_of_norm detz_of_detp_partial detz_early_termination_witness "
    "isprime64_isprimeSound select_crtprimes_spec select_crtprimes_zero_norm detz_of_detp_selected_partial "
    "mkMat_valid ker_p256_sound ker_p256_none_iff ker_p256_panics detz_early_termination_witness_closed ker_p256_singular").split()]

# nonsingular matrices on which detz returns a wrong value because the CRT loop stops at the first repeated value
WITNESS_ZERO = "im_det_sparse 0:21,1:-1;0:5461,1:16384,2:-1;0:5461,2:16384,3:-1;0:4926,3:16384,4:-1;0:8192,4:16384,5:-1;5:16384,6:-1;0:4645,6:16384,7:-1;0:-2432,7:16384,8:-1;0:-1,8:16384,9:-1;0:535,9:16384,10:-1;0:-1832,10:16384,11:-1;0:684,11:16384,12:-1;0:-5528,12:16384,13:-1;0:-5929,13:16384,14:-1;0:6260,14:16384"       # 15x15, det = 108 * p0*p1*p2*p3 (201 bits): detz = 0 after ONE block
WITNESS_NONZERO = "im_det_sparse 0:639,1:-1;0:4557,1:16384,2:-1;0:5798,2:16384,3:-1;0:5039,3:16384,4:-1;0:5077,4:16384,5:-1;0:-3731,5:16384,6:-1;0:-7386,6:16384,7:-1;0:-5049,7:16384,8:-1;0:-6136,8:16384,9:-1;0:-204,9:16384,10:-1;0:3052,10:16384,11:-1;0:4938,11:16384,12:-1;0:-4898,12:16384,13:-1;0:-7636,13:16384,14:-1;0:7090,14:16384,15:-1;0:-4047,15:16384,16:-1;0:-1082,16:16384,17:-1;0:-1570,17:16384,18:-1;0:-1373,18:16384,19:-1;0:1143,19:16384,20:-1;0:2943,20:16384,21:-1;0:-7929,21:16384,22:-1;0:5014,22:16384,23:-1;0:961,23:16384,24:-1;0:574,24:16384,25:-1;0:5488,25:16384,26:-1;0:-587,26:16384,27:-1;0:8192,27:16384"    # 28x28, det = p0*...*p7 + 9671 (388 bits): detz = 9671 after two blocks
WITNESS_ZERO_ROT = "im_det_sparse 0:-1,14:21;0:16384,1:-1,14:5461;1:16384,2:-1,14:5461;2:16384,3:-1,14:4926;3:16384,4:-1,14:8192;4:16384,5:-1;5:16384,6:-1,14:4645;6:16384,7:-1,14:-2432;7:16384,8:-1,14:-1;8:16384,9:-1,14:535;9:16384,10:-1,14:-1832;10:16384,11:-1,14:684;11:16384,12:-1,14:-5528;12:16384,13:-1,14:-5929;13:16384,14:6260"   # the same with the digit column last: determinant proved in Lean (detz_early_termination_witness_closed)
FINDINGS = [{
    "property": "C19", "key": "sparse-det-early-termination",
    "what": "SparseMat::detz does not use a determinant bound: it rebuilds the determinant by CRT after every block of 4 moduli and returns as "
            "soon as two consecutive values agree (the first comparison is with the initial value 0). A nonsingular matrix whose determinant "
            "is small modulo the product of the first 8 (or 0 modulo the first 4) of the deterministic moduli gets a wrong determinant: a "
            "15x15 matrix with det = 108*p0*p1*p2*p3 gives 0, a 28x28 matrix with det = p0*...*p7 + 9671 gives 9671 (both profiles; the "
            "lanes are all correct). Theorems detz_of_detp_partial (exactness only when the first block already exceeds 2|det|) and "
            "detz_early_termination_witness.",
    "input": WITNESS_ZERO}]


def sparse_primes(norm, count):
    bound = (1 << 63) // norm
    p = 30 * (bound // 30) - 1
    out = []
    while len(out) < count:
        if gen.is_prime(p):
            out.append(p)
        p -= 30
    return out


def finding_key(case, ans, profile, true_det, norm=None, size=None):
    """im_det_sparse answer != exact determinant: is it the symmetric residue modulo the first 4k moduli?"""
    if case.op not in ("im_det_sparse", "im_det_sparse_par") or ans in ("panic", "hang", "abort") or not norm:
        return None
    try:
        a = int(ans)
    except ValueError:
        return None
    if a == true_det:
        return None
    ps = sparse_primes(norm, max(size or 8, 8))
    P = 1
    for i, q in enumerate(ps):
        P *= q
        if i % 4 == 3:
            r = true_det % P
            if r > P // 2:
                r -= P
            if r == a:
                return "sparse-det-early-termination"
    return None


def cases(tier, rng, extended=False):
    out = []
    # the two early-termination witnesses (O fails with the finding key above; K agrees)
    out.append(Case(WITNESS_ZERO, tag="2142584058999773599800257773214217008184610623453022075082868"))
    out.append(Case(WITNESS_ZERO_ROT, tag="2142584058999773599800257773214217008184610623453022075082868"))
    out.append(Case(WITNESS_NONZERO, tag="393575655852331732609263509333303814599402965439568841511799354567693580869345233969607680488260441154519637393498112"))
    # mulp outside its documented precondition p * norm < 2^63: the checked profile panics on the i64 overflow (model = chk),
    # the release profile wraps silently (wrong residue): K on chk only, no oracle
    P48 = 281474976710677
    out.append(Case(f"im_mulp4 0:32767,0:32767 {P48},{P48},{P48},{P48} " + ",".join([str(P48 - 1)] * 4), o=False, profiles=["chk"]))
    for _ in range(6 if tier == "quick" else 30):
        n = rng.randrange(1, 5)
        rows = []
        for i in range(n):
            rows.append(",".join(f"{rng.randrange(n)}:{rng.choice([32767, -32768, 1, -1, 30000])}" for _ in range(rng.randrange(1, 6))))
        p = rng.choice([gen.prev_prime(1 << 63), gen.prev_prime(1 << 62), (1 << 61) - 1, gen.prev_prime(1 << 64)])
        v = [rng.choice([p - 1, rng.randrange(p), 0]) for _ in range(4 * n)]
        out.append(Case(f"im_mulp4 {';'.join(rows)} {p},{p},{p},{p} " + ",".join(map(str, v)), o=False, profiles=["chk"]))
    out += ker_cases(tier, rng)
    return out


HYPOTHESES = ["IsprimeSound isprime (theorems select_crtprimes_spec, detz_of_detp_selected_partial): the primality test accepts only primes below 2^64; "
              "discharged for the isprime64 model by isprime64_isprimeSound from property C06's isprime64_sound, i.e. under C06's three named literature "
              "hypotheses H_psi2, H_psi5, H_psi12 (minimal strong pseudoprimes; Pomerance-Selfridge-Wagstaff, Jaeschke, Sorenson-Webster)"]

def followup(case, ans):
    """im_ker_trace -> replay of the run on the model with the start vector the implementation drew"""
    if case.op != "im_ker_trace" or "|" not in ans:
        return None
    v0, res = ans.split("|", 1)
    rows, p = case.args[0], case.args[1]
    return [(f"im_ker_model {rows} {p} {v0}", res)]


def _matvec(rows, v, p):
    return [sum(e * v[j] for j, e in r) % p for r in rows]


def oracle_ker(case, ans):
    """im_ker_trace: a returned vector must be a non-zero kernel vector modulo p (whatever the start vector)"""
    if "|" not in ans:
        return None if ans == "panic" else f"malformed answer {ans[:40]}"
    res = ans.split("|", 1)[1]
    if res in ("panic", "none"):
        return None          # when these are legitimate is decided by the im_ker_p256 oracle of props/c19.py
    rows = [[] if r == "-" else [tuple(map(int, e.split(":"))) for e in r.split(",")] for r in case.args[0].split(";")]
    p = int(case.args[1])
    v = [int(x) for x in res.split(",")]
    if len(v) != len(rows) or any(x >= p for x in v):
        return "kernel vector: wrong length or unreduced entry"
    if not any(v):
        return "zero vector returned"
    return None if not any(_matvec(rows, v, p)) else "M v != 0 (mod p)"


def ker_cases(tier, rng):
    """rank n-1 matrices for every width of the dispatch, and the panic / None classes"""
    out = []
    primes = [1000003, gen.prev_prime(1 << 55), gen.next_prime(1 << 55), gen.prev_prime(1 << 119), gen.next_prime(1 << 119),
              gen.prev_prime(1 << 181), gen.next_prime(1 << 181), gen.prev_prime(1 << 250)]
    for _ in range(10 if tier == "quick" else 60):
        n = rng.randrange(2, 9)
        big = rng.choice([1, 1, 300, 1100])          # norm classes of the dispatch: < 256, < 1024, above
        M = [[rng.choice([0, 0, 1, -1, 2, -3]) * (big if rng.randrange(4) == 0 else 1) for _ in range(n)] for _ in range(n)]
        kind = rng.choice(["rank", "rank", "rank", "full", "row0", "double"])
        if kind == "rank":          # last row = combination of the others
            v = [0] * n
            for i in range(n - 1):
                k = rng.choice([0, 1, -1, 2])
                v = [a + k * b for a, b in zip(v, M[i])]
            M[n - 1] = v
        elif kind == "row0":        # e_0^T M = 0: the Krylov sequence is [1,0,...,0] (recorded degenerate-sequence panic)
            M[0] = [0] * n
        elif kind == "double":      # two zero rows: x^2 divides the characteristic polynomial -> None or panic
            M[n - 1] = [0] * n
            M[n - 2] = [0] * n
        if any(abs(x) > 32767 for r in M for x in r):
            continue
        rows = ";".join(",".join(f"{j}:{e}" for j, e in enumerate(r) if e) or "-" for r in M)
        # o=False: props/c19.py's oracle does not know this op (c19_wied.oracle_ker can be wired in; until then these requests are
        # compared with the model only, through followup())
        out.append(Case(f"im_ker_trace {rows} {rng.choice(primes)}", k=False, o=False, tag=kind))
    out.append(Case("im_ker_trace - 1000003", k=False, o=False))
    out.append(Case("im_ker_trace 0:0 1000003", k=False, o=False))
    out.append(Case("im_ker_trace 0:5 1000003", k=False, o=False))
    return out


MODELLED = ["matrix/intsparse.rs SparseMat::new (asserts), mulp (one lane at a time; the +1 / -1 / other passes in the code's order with the i64 "
            "overflow checks of the checked profile), norm, select_crtprimes (with the isprime64 model of C06), _detp4 / detp4 (Fibonacci start "
            "vector, Krylov loop, berlekamp_massey model, charpoly[size], sign), detz without thread pool (blocks of 4, crt model of C19, "
            "termination on the first repeated value, unreachable!()): Ymq/Model/Wiedemann.lean"]
MODELLED += ["matrix/intsparse.rs mulpbig, ker_pbig, ker_p256 (the four integer widths of the dispatch as a parameter; Krylov loop, "
             "berlekamp_massey_big model, the asserts on charpoly[size] / charpoly[size-1], Horner loop, the two final asserts); the "
             "StdRng start vector is an input of the model, read from the add-only hook verif_hooks_ker::ker_v0: Ymq/Model/WiedemannKer.lean"]
UNMODELLED = ["the generator StdRng::seed_from_u64(163) itself (its output enters the model as data)",
              "detz with a thread pool (rayon order, the done flag): the set of blocks consumed depends on scheduling; oracle only",
              "release-profile wrapping of mulp outside p * norm < 2^63 (the model follows the checked profile)"]
