/-
C11, explicit-stack formulation. Since fix e402536 the code's `walk_doubles` runs on an explicit
stack of `WalkFrame`s and `combine_double` is `combine_double_step` plus the requested walk
(src/relations.rs:336-401, 522-581). Ymq/Model/RelationsWalk.lean mirrors that code line by line
(`walkFrame`, `frameStep`, `walkIter`, `combineDoubleStep`, `addStack`, `runHistoryStack`); the
theorems of Ymq/Props/C11.lean are about the recursive formulation (`walkDoubles`, `add`,
`runHistory`). This file proves that the two formulations compute the same thing and restates the
store theorems for the model that mirrors the code.
-/
import Ymq.Props.C11
import Ymq.Lemmas.RelationsWalkCor
import Ymq.Lemmas.RelationsWalkBound

namespace Ymq.C11
open Ymq.Relations

/-- `combine_double` is `combine_double_step` followed by the walk it requests — for every walker,
every relation and every store, including all error cases (the 8 panic sites of
`combine_double_step` are those of the recursive model's `combineDouble`). -/
theorem combine_double_eq_step (walk : Nat → Store → M Store) (r : Relation) (p q : Nat) (s : Store) :
    combineDouble walk r p q s = combineDoubleStep r p q s >>= afterStep walk :=
  combineDouble_eq_step walk r p q s

/-- `walk_stack_eq_rec`: for every store and every requested walk, the explicit-stack loop and
the recursive walk return the same thing — same resulting store (hence same combination order),
same error — as soon as neither runs out of its fuel:
(1) a result of the loop with `k` iterations other than "out of iterations" is the result of the
recursive walk for every recursion fuel `> k`;
(2) a result of the recursive walk other than "out of fuel" is the result of the loop for every
sufficiently large number of iterations: in particular the loop TERMINATES whenever the recursion
does (and the recursion does within `doubles.len() + 1` levels: `add_no_panic`). -/
theorem walk_stack_eq_rec (root : Nat) (s : Store) :
    (∀ k R, walkStack k root s = R → R ≠ .error .fuel → ∀ f, k + 1 ≤ f → walkDoubles f root s = R) ∧
    (∀ f R, walkDoubles f root s = R → R ≠ .error .fuel → ∃ c, ∀ k, c ≤ k → walkStack k root s = R) :=
  ⟨fun _ _ h hR => walkStack_eq_rec_of_stack h hR, fun _ _ h hR => walkStack_eq_rec_of_rec h hR⟩

/-- the same for a whole `add`: whatever the explicit-stack `add` returns (other than "out of
iterations") is what the recursive `add` returns (when that does not run out of recursion fuel). -/
theorem add_stack_eq_add (r : Relation) (pq : Option (Nat × Nat)) (s : Store) (R R' : M Store)
    (h : add r pq s = R) (hR : R ≠ .error .fuel) (h' : addStack r pq s = R')
    (hR' : R' ≠ .error .fuel) : R' = R :=
  addStack_eq_add h hR h' hR'

/-- `add_inv` for the model that mirrors the code -/
theorem add_inv_stack (s s' : Store) (r : Relation) (pq : Option (Nat × Nat)) (hi : Inv s)
    (hn : s.n ≤ 2 ^ 512) (hin : InputOK s.n r pq) (h : addStack r pq s = .ok s') :
    Inv s' ∧ s'.n = s.n ∧ s'.maxlarge = s.maxlarge := by
  have := addStack_keeps h hi (by rw [X512_eq]; exact hn) hin
  exact ⟨this.2.2, this.1, this.2.1⟩

/-- `history_inv` for the model that mirrors the code: every finite history of `add`s (explicit
stack) from `RelationSet::new` ends in a store satisfying the invariant. -/
theorem history_inv_stack (n fbsize maxlarge : Nat) (hn : n ≤ 2 ^ 512)
    (ops : List (Relation × Option (Nat × Nat))) (hok : HistoryOK n ops) (s' : Store)
    (h : runHistoryStack ops (Store.new n fbsize maxlarge) = .ok s') : Inv s' ∧ s'.n = n := by
  have := runHistoryStack_keeps ops _ s' h (inv_new n fbsize maxlarge) (by rw [X512_eq]; exact hn) hok
  exact ⟨this.2.2, this.1⟩

/-- `cycles_valid` for the model that mirrors the code -/
theorem cycles_valid_stack (n fbsize maxlarge : Nat) (hn : n ≤ 2 ^ 512)
    (ops : List (Relation × Option (Nat × Nat))) (hok : HistoryOK n ops) (s' : Store)
    (h : runHistoryStack ops (Store.new n fbsize maxlarge) = .ok s') :
    ∀ r ∈ s'.cycles, r.cofactor = 1 ∧ (r.x : Int) * r.x ≡ fprod r.factors [ZMOD n] := by
  obtain ⟨hi, hn'⟩ := history_inv_stack n fbsize maxlarge hn ops hok s' h
  intro r hr
  obtain ⟨h1, h2⟩ := hi.cyc r hr
  refine ⟨h1, ?_⟩
  unfold Valid at h2
  rw [h1, hn'] at h2
  simpa using h2

/-- `doubles_disjoint` for the model that mirrors the code -/
theorem doubles_disjoint_stack (n fbsize maxlarge : Nat) (hn : n ≤ 2 ^ 512)
    (ops : List (Relation × Option (Nat × Nat))) (hok : HistoryOK n ops) (s' : Store)
    (h : runHistoryStack ops (Store.new n fbsize maxlarge) = .ok s') :
    ∀ p q b, ((p, q), b) ∈ s'.doubles → (∀ c, (p, c) ∉ s'.partials) ∧ (∀ c, (q, c) ∉ s'.partials) := by
  have hD0 : Disj (Store.new n fbsize maxlarge) := by intro k ⟨b, hb⟩; cases hb
  have := runHistoryStack_disj ops _ s' h (inv_new n fbsize maxlarge) (by rw [X512_eq]; exact hn) hok hD0
  intro p q b hb
  obtain ⟨h1, h2⟩ := this (p, q) ⟨b, hb⟩
  exact ⟨fun c hc => h1 ⟨c, hc⟩, fun c hc => h2 ⟨c, hc⟩⟩

/-- `walk_iter_bound`: the closed-form iteration bound of the explicit-stack walk. In a store
satisfying `Inv` (`n ≤ 2^512`), whatever the recursive walk returns (other than "out of recursion
fuel") the `while` loop returns within `Store.iterFuel = 2·L²·(L+1) + 1` iterations,
`L = doubles.len() + doubles_rev.len()`: the recursion depth that overflowed the real stack is now a
proved loop bound. (Accounting: a frame with k ≤ L keys costs 2k + 1 iterations of its own; every
nested walk starts after a removal — the first action of a non-empty frame removes a stored double,
for a frame with reverse keys only by the mirror invariant — so it runs with a smaller L; cost
≤ 1 + K(L)·(L − L′), K(L) = 2L(L+1), K(L) − K(L−1) = 4L ≥ 4k.) -/
theorem walk_iter_bound (root : Nat) (s : Store) (hi : Inv s) (hn : s.n ≤ 2 ^ 512) (f : Nat)
    (R : M Store) (h : walkDoubles f root s = R) (hR : R ≠ .error .fuel) :
    ∀ F, s.iterFuel ≤ F → walkStack F root s = R :=
  fun _ hF => walkStack_bound ⟨hi, by rw [X512_eq]; exact hn⟩ h hR hF

/-- ... in particular, inside the contract (store satisfying `Inv` and `Inv2`, `root` a key of
`partial`, as at every call site of `add`) the loop never returns "out of iterations". -/
theorem walk_iter_bound_contract (root : Nat) (s : Store) (hi : Inv s) (hi2 : Inv2 s)
    (hn : s.n ≤ 2 ^ 512) (hn0 : 0 < s.n) (hroot : ∃ b, (root, b) ∈ s.partials) :
    ∀ F, s.iterFuel ≤ F → walkStack F root s ≠ .error .fuel ∧
      walkStack F root s = walkDoubles (s.doubles.length + 1) root s := by
  intro F hF
  have hX : s.n ≤ X512 := by rw [X512_eq]; exact hn
  have hnp := (walkDoubles_all (s.doubles.length + 1)).np root s hi hi2 hX hn0 hroot (Nat.lt_succ_self _)
  have hR : walkDoubles (s.doubles.length + 1) root s ≠ .error .fuel := by
    intro hc; have := hnp _ hc; cases this
  have := walkStack_bound ⟨hi, hX⟩ rfl hR hF
  exact ⟨by rw [this]; exact hR, this⟩

/-- inside the validity contract the explicit-stack `add` returns exactly what the recursive `add`
returns (all results other than "out of recursion fuel"), and so do whole histories. -/
theorem add_stack_of_add (s : Store) (r : Relation) (pq : Option (Nat × Nat)) (hi : Inv s)
    (hn : s.n ≤ 2 ^ 512) (hin : InputOK s.n r pq) (R : M Store) (h : add r pq s = R)
    (hR : R ≠ .error .fuel) : addStack r pq s = R :=
  addStack_of_add hi (by rw [X512_eq]; exact hn) hin h hR

theorem history_stack_eq_rec (n fbsize maxlarge : Nat) (hn : n ≤ 2 ^ 512)
    (ops : List (Relation × Option (Nat × Nat))) (hok : HistoryOK n ops) (R : M Store)
    (h : runHistory ops (Store.new n fbsize maxlarge) = R) (hR : R ≠ .error .fuel) :
    runHistoryStack ops (Store.new n fbsize maxlarge) = R :=
  runHistoryStack_of_run ops _ R (inv_new n fbsize maxlarge) (by rw [X512_eq]; exact hn) hok h hR

/-- `add_no_panic` for the model that mirrors the code: inside the callers' contract no assertion,
unwrap, index or debug assertion of `add` / `combine_double_step` / `walk_doubles` is reachable and
the `while` loop ends within `Store.iterFuel` iterations; the only error left is the `u64`
exponent / cycle-length counter overflow, as in the recursive theorem. -/
theorem add_no_panic_stack (s : Store) (r : Relation) (pq : Option (Nat × Nat)) (hi : Inv s)
    (hi2 : Inv2 s) (hn : s.n ≤ 2 ^ 512) (hin : InputOK2 s r pq) :
    ∀ e, addStack r pq s = .error e → e = .overflow :=
  addStack_np_full hi hi2 (by rw [X512_eq]; exact hn) hin

/-- `history_no_panic` for the model that mirrors the code. -/
theorem history_no_panic_stack (n fbsize maxlarge : Nat) (hn : n ≤ 2 ^ 512)
    (ops : List (Relation × Option (Nat × Nat))) (hok : HistoryOK2 n maxlarge ops) :
    ∀ e, runHistoryStack ops (Store.new n fbsize maxlarge) = .error e → e = .overflow :=
  runHistoryStack_np_full ops _ (inv_new n fbsize maxlarge) (inv2_new n fbsize maxlarge)
    (by rw [X512_eq]; exact hn) hok

/-- non-vacuity: on the history modulo 15 (single, partner, p = q double, double with one known
prime and a walk) both formulations return the same store. -/
example :
    let ops : List (Relation × Option (Nat × Nat)) :=
      [({ x := 2, cofactor := 77, cyclelen := 1, factors := [(2, 1)] }, some (11, 7)),
       ({ x := 3, cofactor := 7, cyclelen := 1, factors := [(2, 2), (3, 1)] }, none),
       ({ x := 5, cofactor := 7, cyclelen := 1, factors := [(5, 1), (-1, 1)] }, none),
       ({ x := 4, cofactor := 121, cyclelen := 1, factors := [] }, some (11, 11))]
    (runHistoryStack ops (Store.new 15 3 50)).toOption = (runHistory ops (Store.new 15 3 50)).toOption ∧
    ((runHistoryStack ops (Store.new 15 3 50)).toOption.map fun s => (s.cycles.length, s.partials.map (·.1),
      s.doubles.length)) = some (2, [7, 11], 0) := by
  decide +kernel

end Ymq.C11
