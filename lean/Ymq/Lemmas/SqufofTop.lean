/-
One round of `'kloop` classified completely, the multiplier loop, and independence of the run
from the floating point seed.
-/
import Ymq.Lemmas.SqufofLoops

namespace Ymq.Squfof

variable {seed : Nat → Nat}

theorem attempt_stop {n k : Nat} (h : n * k ≥ W) : attempt seed n k = some .stop := by
  unfold attempt; rw [if_pos h]

/-- `n·k` a perfect square that the square test does not accept (`⌊√(nk)⌋² ≠ n`, i.e. `k ≥ 2`):
`q = nk − nsqrt² = 0` and the round is skipped (squfof.rs:26; before the repair f24afb6 the first
iteration divided by `q`). -/
theorem attempt_square_skips (hs : SeedOK seed) {n k : Nat} (hlt : n * k < W)
    (hsq : Nat.sqrt (n * k) * Nat.sqrt (n * k) = n * k) (hne : n * k ≠ n) :
    attempt seed n k = some .next := by
  rw [attempt_eq hs hlt, if_neg (by omega), if_pos (by omega)]

/-- `n·k < 2^64` not a perfect square: the round completes without panic; it returns through
the square test (only if `⌊√(nk)⌋² = n`), continues, or leaves through the gcd exit with
`1 ≤ p_prev ≤ ⌊√(nk)⌋`. -/
theorem attempt_nonsquare (hs : SeedOK seed) {n k : Nat} (hlt : n * k < W)
    (hns : Nat.sqrt (n * k) * Nat.sqrt (n * k) ≠ n * k) :
    ∃ r, attempt seed n k = some r ∧
      ((r = .ret (Nat.sqrt (n * k)) (Nat.sqrt (n * k)) ∧ Nat.sqrt (n * k) * Nat.sqrt (n * k) = n) ∨
        GcdExit n (Nat.sqrt (n * k)) r) := by
  rw [attempt_eq hs hlt]
  by_cases hsq : Nat.sqrt (n * k) * Nat.sqrt (n * k) = n
  · rw [if_pos hsq]; exact ⟨_, rfl, Or.inl ⟨rfl, hsq⟩⟩
  · rw [if_neg hsq]
    have hle := Nat.sqrt_le (n * k)
    have c : Ctx (n * k) (Nat.sqrt (n * k)) :=
      ⟨hlt, Nat.lt_of_le_of_ne hle hns, Nat.lt_succ_sqrt (n * k)⟩
    have hs1 := c.s_pos
    have hs2 : 0 < Nat.sqrt (Nat.sqrt (n * k)) := Nat.sqrt_pos.2 hs1
    have hinv : Inv (n * k) (Nat.sqrt (n * k)) (Nat.sqrt (n * k)) 1
        (n * k - Nat.sqrt (n * k) * Nat.sqrt (n * k)) := ⟨by omega, hs1, Nat.le_refl _, by omega⟩
    rw [if_neg (by omega)]
    rcases fwdLoop_ok hs c (3 * Nat.sqrt (Nat.sqrt (n * k))) (3 * Nat.sqrt (Nat.sqrt (n * k))) 1 _ _ _
        hinv (by omega) (by omega) with h | ⟨qs, p, Qb, h, hb⟩
    · rw [h]; exact ⟨_, rfl, Or.inr (Or.inl rfl)⟩
    · rw [h]
      obtain ⟨r, hr, hg⟩ := finish_ok c n (3 * Nat.sqrt (Nat.sqrt (n * k))) hb
      exact ⟨r, hr, Or.inr hg⟩

/-- **no round panics**: every multiplier, every `n` -/
theorem attempt_total (hs : SeedOK seed) (n k : Nat) : ∃ r, attempt seed n k = some r := by
  rcases Nat.lt_or_ge (n * k) W with hlt | hge
  · by_cases hsq : Nat.sqrt (n * k) * Nat.sqrt (n * k) = n * k
    · by_cases he : n * k = n
      · rw [attempt_eq hs hlt, if_pos (by omega)]; exact ⟨_, rfl⟩
      · exact ⟨_, attempt_square_skips hs hlt hsq he⟩
    · obtain ⟨r, hr, _⟩ := attempt_nonsquare hs hlt hsq
      exact ⟨r, hr⟩
  · exact ⟨_, attempt_stop hge⟩

/-! ### the multiplier loop -/

/-- a result other than `None` comes from the first round that does not `continue` -/
theorem kLoop_first (n : Nat) : ∀ (f k : Nat) (r : Option (Option (Nat × Nat))),
    kLoop seed n f k = r → r ≠ some none →
    ∃ j, j < f ∧ (∀ i, i < j → attempt seed n (k + i) = some .next) ∧
      ((r = none ∧ attempt seed n (k + j) = none) ∨
        ∃ a b, r = some (some (a, b)) ∧ attempt seed n (k + j) = some (.ret a b)) := by
  intro f
  induction f with
  | zero => intro k r h hr; rw [kLoop] at h; exact absurd h.symm hr
  | succ f ih =>
    intro k r h hr
    rw [kLoop] at h
    cases ha : attempt seed n k with
    | none =>
      rw [ha] at h
      exact ⟨0, by omega, by intro i hi; omega, Or.inl ⟨h.symm, ha⟩⟩
    | some st =>
      rw [ha] at h
      cases st with
      | stop => exact absurd h.symm hr
      | ret a b =>
        exact ⟨0, by omega, by intro i hi; omega, Or.inr ⟨a, b, h.symm, ha⟩⟩
      | next =>
        obtain ⟨j, hj, hnext, hres⟩ := ih (k + 1) r h hr
        refine ⟨j + 1, by omega, ?_, ?_⟩
        · intro i hi
          rcases Nat.eq_zero_or_pos i with h0 | h0
          · subst h0; exact ha
          · have := hnext (i - 1) (by omega)
            rwa [show k + 1 + (i - 1) = k + i by omega] at this
        · rwa [show k + 1 + j = k + (j + 1) by omega] at hres

/-! ### the seed does not matter -/

theorem fwdLoop_seed {seed seed' : Nat → Nat} (hs : SeedOK seed) (hs' : SeedOK seed')
    (s it : Nat) : ∀ (f i P Q' Q : Nat), Q' < W → Q < W →
      fwdLoop seed s it f i P Q' Q = fwdLoop seed' s it f i P Q' Q := by
  intro f
  induction f with
  | zero => intros; rfl
  | succ f ih =>
    intro i P Q' Q h1 h2
    rw [fwdLoop, fwdLoop]
    by_cases hi : i = it
    · rw [if_pos hi, if_pos hi]
    · rw [if_neg hi, if_neg hi]
      cases hst : step s P Q' Q with
      | none => rfl
      | some pq =>
        obtain ⟨p, qn⟩ := pq
        have hb := step_lt h1 hst
        simp only []
        rw [isqrt_eq hs hb.2, isqrt_eq hs' hb.2, ih _ _ _ _ h2 hb.2]

theorem attempt_seed {seed seed' : Nat → Nat} (hs : SeedOK seed) (hs' : SeedOK seed') (n k : Nat) :
    attempt seed n k = attempt seed' n k := by
  rcases Nat.lt_or_ge (n * k) W with hlt | hge
  · rw [attempt_eq hs hlt, attempt_eq hs' hlt]
    have := Nat.sqrt_le (n * k)
    rw [fwdLoop_seed hs hs' _ _ _ _ _ _ _ (by unfold W; omega) (by omega)]
  · rw [attempt_stop hge, attempt_stop hge]

theorem kLoop_seed {seed seed' : Nat → Nat} (hs : SeedOK seed) (hs' : SeedOK seed') (n : Nat) :
    ∀ (f k : Nat), kLoop seed n f k = kLoop seed' n f k := by
  intro f
  induction f with
  | zero => intro k; rfl
  | succ f ih =>
    intro k
    rw [kLoop, kLoop, attempt_seed hs hs', ih]

/-- the exact seed is admissible -/
theorem exactSeed_ok : SeedOK exactSeed := by
  intro m _ _
  have h := Ymq.Arith.isqrt_spec' m
  have e : exactSeed m = Nat.sqrt m := Nat.eq_sqrt.2 h
  rw [e]; omega

end Ymq.Squfof
